(* FlattenStaticTrans.v -- the transition tables of EVERY document: for every tree t (any kinds, any ids, any
   nesting) the flat chart Chart.flatten builds (LargeMicroStep::init) satisfies EngineEquivSelect.trans_tableb:
   a state's transition list is the ascending list of the transitions whose source it is, and the transitions
   are numbered in post-fix order of their source states.  Discharges the per-chart boolean hypothesis
   trans_tableb of the engine-equivalence theorems (C03), of C18 and C04 once and for all.  Proofs only. *)
From V Require Import Base Chart Tables TreeLemmas LargeCacheLemmas WfCore FlattenWf FlattenWfTree FlattenWfStruct
     SelectConform SelectConformLemmas SelectConformOrder EngineEquivBase EngineEquivSelect.
Local Open Scope nat_scope.

(* ------------------------------------------------------------------ index_where is a filter of the index range *)

Lemma fst_index_where_filter {A} (f : A -> bool) (d : A) : forall l b,
  index_where f l b = filter (fun k => f (nth (k - b) l d)) (seq b (length l)).
Proof.
  induction l as [|x r IH]; intros b; cbn [index_where length seq filter]; [reflexivity|].
  rewrite Nat.sub_diag. cbn [nth]. rewrite (IH (S b)).
  assert (E : filter (fun k => f (nth (k - S b) r d)) (seq (S b) (length r)) =
              filter (fun k => f (nth (k - b) (x :: r) d)) (seq (S b) (length r))).
  { apply filter_ext_in. intros k Hk. apply in_seq in Hk. replace (k - b) with (S (k - S b)) by lia. reflexivity. }
  rewrite E. destruct (f x); reflexivity.
Qed.

Lemma fst_in_index_where {A} (f : A -> bool) (d : A) l k : k < length l -> f (nth k l d) = true -> In k (index_where f l 0).
Proof.
  intros Hk Hf. rewrite (fst_index_where_filter f d). apply filter_In. split; [apply in_seq; lia|].
  now rewrite Nat.sub_0_r.
Qed.

(* ------------------------------------------------------------------ an ancestor is listed after its descendants *)

Lemma fst_forest_splits_anc l :
  Forall (fun x => forall p q, In p (paths_post x) -> In q (paths_post x) -> proper_prefix q p = true ->
                               splits (paths_post x) p q) l ->
  forall k0 i p' q',
    In (i :: p') (paths_post_forest l k0) -> In (i :: q') (paths_post_forest l k0) -> proper_prefix q' p' = true ->
    splits (paths_post_forest l k0) (i :: p') (i :: q').
Proof.
  induction 1 as [|x r Hx Hr IH]; intros k0 i p' q' Hp Hq Hrel; [destruct Hp|].
  cbn [paths_post_forest] in *.
  assert (Hrest : forall k z, In (k :: z) (paths_post_forest r (S k0)) -> S k0 <= k).
  { intros k z Hz. apply forest_head in Hz as (k' & r' & E & Hk). inversion E; subst. exact Hk. }
  destruct (Nat.eq_dec i k0) as [->|Hne].
  - assert (Hp' : In p' (paths_post x)).
    { apply in_app_iff in Hp as [Hp|Hp]; [now apply in_map_cons in Hp | apply Hrest in Hp; lia]. }
    assert (Hq' : In q' (paths_post x)).
    { apply in_app_iff in Hq as [Hq|Hq]; [now apply in_map_cons in Hq | apply Hrest in Hq; lia]. }
    destruct (Hx p' q' Hp' Hq' Hrel) as (l1 & l2 & E & N1 & N2).
    exists (map (cons k0) l1), (map (cons k0) l2 ++ paths_post_forest r (S k0)).
    split; [rewrite E, map_app, <- app_assoc; reflexivity|]. split.
    + intros Hin. now apply in_map_cons in Hin.
    + intros Hin. apply in_app_iff in Hin as [Hin|Hin]; [now apply in_map_cons in Hin | apply Hrest in Hin; lia].
  - assert (Hp2 : In (i :: p') (paths_post_forest r (S k0))).
    { apply in_app_iff in Hp as [Hp|Hp]; [|exact Hp]. exfalso. revert Hp. now apply not_in_map_cons. }
    assert (Hq2 : In (i :: q') (paths_post_forest r (S k0))).
    { apply in_app_iff in Hq as [Hq|Hq]; [|exact Hq]. exfalso. revert Hq. now apply not_in_map_cons. }
    destruct (IH (S k0) i p' q' Hp2 Hq2 Hrel) as (l1 & l2 & E & N1 & N2).
    exists (map (cons k0) (paths_post x) ++ l1), l2. split; [rewrite E, app_assoc; reflexivity|]. split; [|exact N2].
    intros Hin. apply in_app_iff in Hin as [Hin|Hin]; [|contradiction]. revert Hin. now apply not_in_map_cons.
Qed.

(* in the post-order listing an occurrence p comes before every occurrence q it lies below *)
Lemma fst_paths_post_splits_anc : forall t p q, In p (paths_post t) -> In q (paths_post t) ->
  proper_prefix q p = true -> splits (paths_post t) p q.
Proof.
  induction t using tree_ind'. intros p q Hp Hq Hpp.
  rewrite paths_post_unfold in *. cbn [t_kids] in *.
  destruct p as [|i0 p']; [destruct q; discriminate|].
  assert (Hp' : In (i0 :: p') (paths_post_forest kids 0)) by (apply in_app_iff in Hp as [Hp|[Hp|[]]]; [exact Hp | discriminate]).
  destruct q as [|j0 q'].
  - exists (paths_post_forest kids 0), [[]]. split; [reflexivity|]. split.
    + intros Hin. apply forest_head in Hin as (k' & r' & E & _). discriminate.
    + intros [Hin|[]]. discriminate.
  - assert (Hq' : In (j0 :: q') (paths_post_forest kids 0)) by (apply in_app_iff in Hq as [Hq|[Hq|[]]]; [exact Hq | discriminate]).
    cbn [proper_prefix] in Hpp. apply andb_true_iff in Hpp as [He Hpp]. apply Nat.eqb_eq in He. subst j0.
    destruct (fst_forest_splits_anc kids H 0 i0 p' q' Hp' Hq' Hpp) as (l1 & l2 & E & N1 & N2).
    exists l1, (l2 ++ [[]]). split; [rewrite E, app_assoc; reflexivity|]. split; [exact N1|].
    intros Hin. apply in_app_iff in Hin as [Hin|[Hin|[]]]; [contradiction | discriminate].
Qed.

Lemma fst_postfix_splits_anc t a b : a < tsize t -> b < tsize t ->
  proper_prefix (pth_of t a) (pth_of t b) = true -> splits (postfix_states t 0) b a.
Proof.
  intros Ha Hb Hpp.
  destruct (fst_paths_post_splits_anc t _ _ (pth_in_post t b Hb) (pth_in_post t a Ha) Hpp) as (l1 & l2 & E & N1 & N2).
  pose proof (paths_post_idx t 0) as Hidx. rewrite E, map_app in Hidx. symmetry in Hidx.
  apply map_eq_app in Hidx as (P1 & P2 & EP & M1 & M2).
  exists P1, P2. split; [exact EP|]. split.
  - intros Hin. apply N1. assert (Hs : In (Some a) (map Some P1)) by now apply in_map.
    rewrite M1 in Hs. apply in_map_iff in Hs as (p & Hp & Hpl). apply pth_of_pidx in Hp as [_ <-]. exact Hpl.
  - intros Hin. apply N2. assert (Hs : In (Some b) (map Some P2)) by now apply in_map.
    rewrite M2 in Hs. apply in_map_iff in Hs as (p & Hp & Hpl). apply pth_of_pidx in Hp as [_ <-]. exact Hpl.
Qed.

(* ------------------------------------------------------------------ the table *)

Section Table.
Variable late : bool.
Variable t0 : tree.
Let root := resort t0.
Let c := flatten late t0.
Let n := tsize root.

Lemma fst_source ti : ti < length (trs t0) -> ft_source (tr c ti) = fst (fst (nth ti (trs t0) dtr)).
Proof. intros Hti. unfold c. rewrite (fl_tr late t0 ti Hti). reflexivity. Qed.

(* a state's list is the ascending list of the transitions it is the source of *)
Lemma fst_block s : s < nstates c ->
  fs_trans (st c s) = filter (fun ti => ft_source (tr c ti) =? s) (seq 0 (ntrans c)).
Proof.
  intros Hs. unfold c. rewrite (fs_trans_flatten late t0 s Hs). fold root. change (all_trans (doc_nodes root 0 None) root) with (trs t0).
  rewrite (fst_index_where_filter _ dtr). rewrite (fl_ntrans late t0). fold c.
  apply filter_ext_in. intros ti Hti. apply in_seq in Hti. rewrite Nat.sub_0_r. rewrite fst_source by lia. reflexivity.
Qed.

(* transitions are numbered in post-fix order of their sources *)
Lemma fst_order ti tj : ti < tj -> tj < ntrans c -> pf_leb c (ft_source (tr c ti)) (ft_source (tr c tj)) = true.
Proof.
  intros Hlt Htj. unfold c in Htj. rewrite (fl_ntrans late t0) in Htj. fold c.
  assert (Hti : ti < length (trs t0)) by lia.
  rewrite (fst_source ti Hti), (fst_source tj Htj).
  set (s1 := fst (fst (nth ti (trs t0) dtr))). set (s2 := fst (fst (nth tj (trs t0) dtr))).
  destruct (trs_in t0 ti Hti) as [Hs1 _]. destruct (trs_in t0 tj Htj) as [Hs2 _]. fold s1 in Hs1. fold s2 in Hs2. fold root n in Hs1, Hs2.
  destruct (pf_leb c s1 s2) eqn:Epf; [reflexivity|]. exfalso.
  unfold pf_leb in Epf. apply orb_false_iff in Epf as [Epf E3]. apply orb_false_iff in Epf as [E1 E2].
  apply Nat.eqb_neq in E1. apply Nat.leb_gt in E2.
  destruct (st_flatten late t0 s1 Hs1) as (_ & _ & _ & Hsz1 & _). destruct (st_flatten late t0 s2 Hs2) as (_ & _ & _ & Hsz2 & _).
  fold c root in Hsz1, Hsz2. rewrite Hsz1 in E2. rewrite Hsz2 in E3.
  (* in both remaining cases s2 comes before s1 in the post-fix listing *)
  assert (Hsp : splits (postfix_states root 0) s2 s1).
  { destruct (Nat.lt_ge_cases s1 s2) as [Hc|Hc].
    - apply fst_postfix_splits_anc; [exact Hs1 | exact Hs2|]. apply (prefix_interval root s1 s2 Hs1 Hs2). split; [exact Hc | exact E2].
    - assert (Hc' : s2 < s1) by lia.
      apply postfix_splits; [exact Hc' | exact Hs1|].
      destruct (proper_prefix (pth_of root s2) (pth_of root s1)) eqn:Epp; [|reflexivity]. exfalso.
      apply (prefix_interval root s2 s1 Hs2 Hs1) in Epp as [_ Hin].
      apply andb_false_iff in E3 as [E3|E3]; [apply Nat.ltb_ge in E3; lia | apply Nat.ltb_ge in E3; lia]. }
  destruct Hsp as (l1 & l2 & EP & N1 & N2).
  set (nodes := doc_nodes root 0 None).
  set (g := fun i => let t := fst (nth i nodes (root, None)) in map (fun x => (i, x, t_kind t)) (t_trans t)).
  assert (Etrs : trs t0 = flat_map g (l1 ++ l2)) by (unfold trs, all_trans; fold root nodes; rewrite EP; reflexivity).
  assert (H2 : In tj (index_where (fun e : nat * ttrans * skind => fst (fst e) =? s2) (flat_map g (l1 ++ l2)) 0)).
  { apply (fst_in_index_where _ dtr); rewrite <- Etrs; [exact Htj | apply Nat.eqb_refl]. }
  assert (H1 : In ti (index_where (fun e : nat * ttrans * skind => fst (fst e) =? s1) (flat_map g (l1 ++ l2)) 0)).
  { apply (fst_in_index_where _ dtr); rewrite <- Etrs; [exact Hti | apply Nat.eqb_refl]. }
  pose proof (flat_index_order (fun e : nat * ttrans * skind => fst (fst e)) g dtr
           ltac:(intros i e He; unfold g in He; cbn zeta in He; apply in_map_iff in He as (y & <- & _); reflexivity)
           l1 l2 s2 s1 N1 N2 tj ti H2 H1) as Hcontra.
  lia.
Qed.

Theorem fst_trans_table : trans_tableb c = true.
Proof.
  unfold trans_tableb. apply andb_true_iff. split.
  - apply fseq. intros s Hs. apply WfCore.list_eqb_eq. now apply fst_block.
  - apply fseq. intros ti Hti. apply fseq. intros tj Htj.
    destruct (ti <? tj) eqn:E; [|reflexivity]. apply Nat.ltb_lt in E. cbn [negb orb]. now apply fst_order.
Qed.

End Table.

(* for every document the transition tables are the ones the engine-equivalence theorems assume *)
Theorem flatten_trans_table late t : trans_tableb (flatten late t) = true.
Proof. apply fst_trans_table. Qed.
