(* ValidateBridgeFlat.v -- from the facts about the (resorted) document tree (ValidateBridge.FlatHyp) to the
   clauses of LegalHistWf.wf_histb that do not concern pseudo-states: root type, transition targets, target
   sets, completions.  Proofs only. *)
From V Require Import Base NameMatch Chart Exec Large Legal SetLemmas Tables TreeLemmas LargeCacheLemmas WfCore LegalHistWf
     FlattenWf FlattenWfTree FlattenWfStruct FlattenWfKinds FlattenWfLemmas FlattenWfSideLemmas
     ValidateBridge ValidateBridgeRows.
Local Open Scope nat_scope.

(* ------------------------------------------------------------------ kinds and types *)

Lemma type_of_kind u :
  match t_kind u with
  | KInitial => type_of u = FInitial
  | KHistShallow => type_of u = FHistShallow
  | KHistDeep => type_of u = FHistDeep
  | KFinal => type_of u = FFinal
  | KParallel => type_of u = FParallel
  | KScxml | KState => type_of u = if has_proper_child u then FCompound else FAtomic
  end.
Proof. unfold type_of. destruct (t_kind u); reflexivity. Qed.

Lemma type_compound u : type_of u = FCompound ->
  (t_kind u = KScxml \/ t_kind u = KState) /\ has_proper_child u = true.
Proof.
  pose proof (type_of_kind u) as H. destruct (t_kind u); rewrite H; try discriminate;
    destruct (has_proper_child u); try discriminate; intros _; auto.
Qed.

Lemma type_pseudo u : is_pseudo (type_of u) = is_pseudo_kind (t_kind u).
Proof. pose proof (type_of_kind u) as H. destruct (t_kind u); rewrite H; try reflexivity; destruct (has_proper_child u); reflexivity. Qed.

Lemma type_hist u : is_hist (type_of u) = is_hist_kind (t_kind u).
Proof. pose proof (type_of_kind u) as H. destruct (t_kind u); rewrite H; try reflexivity; destruct (has_proper_child u); reflexivity. Qed.

Lemma compound_of_type u : type_of u = FCompound -> compound_node u = true.
Proof.
  intros H. destruct (type_compound u H) as [Hk Hp]. unfold compound_node, has_kids. unfold has_proper_child in Hp.
  destruct (t_kids u); [discriminate|]. destruct Hk as [-> | ->]; reflexivity.
Qed.

(* ------------------------------------------------------------------ side conditions, unfolded *)

Lemma vb_sideb_parts t : vb_sideb t = true ->
  ct_rootb t = true /\ vb_hist_parentb t = true /\ vb_initial_properb t = true /\ vb_hist_disjointb t = true.
Proof. unfold vb_sideb. intros H. repeat (apply andb_true_iff in H as [H ?]). repeat split; assumption. Qed.

Lemma vb_docb_parts t : vb_docb t = true -> t_kind t = KScxml /\ forall w, In w (tbelow t) -> t_kind w <> KScxml.
Proof.
  unfold vb_docb. rewrite andb_true_iff. intros [Hr Hk]. split; [destruct (t_kind t); try discriminate; reflexivity|].
  intros w Hw. unfold tbelow in Hw. apply in_flat_map in Hw as (k & Hk' & Hw). rewrite forallb_forall in Hk.
  specialize (Hk k Hk'). rewrite forallb_forall in Hk. specialize (Hk w Hw). intros E. rewrite E in Hk. discriminate.
Qed.

Lemma pseudo_proper_spec sel t : vb_pseudo_properb sel t = true ->
  forall p h x l s, In p (subtrees t) -> In h (t_kids p) -> sel (t_kind h) = true -> In x (t_trans h) ->
    tt_targets x = Some l -> In s l -> In s (psids_below p).
Proof.
  unfold vb_pseudo_properb. intros H p h x l s Hp Hh Hs Hx El Hsl. rewrite forallb_forall in H. specialize (H p Hp).
  rewrite forallb_forall in H. specialize (H h Hh). rewrite Hs in H. rewrite forallb_forall in H. specialize (H x Hx).
  rewrite El in H. rewrite forallb_forall in H. apply memN_In. now apply H.
Qed.

(* ------------------------------------------------------------------ tree-level consequences of VTree *)

Section TreeFacts.
Variable t : tree.
Hypothesis V : VTree t.

Lemma vt_pseudo_no_kids u : In u (subtrees t) -> is_pseudo_kind (t_kind u) = true -> t_kids u = [].
Proof.
  intros Hu Hp. destruct (t_kids u) as [|k r] eqn:E; [reflexivity|]. exfalso.
  pose proof (vt_nest t V u k Hu ltac:(rewrite E; now left)) as Hk. unfold kid_okb in Hk.
  destruct (t_kind u); try discriminate; destruct (t_kind k); discriminate.
Qed.

Lemma vt_final_no_kids u : In u (subtrees t) -> t_kind u = KFinal -> t_kids u = [].
Proof.
  intros Hu Hp. destruct (t_kids u) as [|k r] eqn:E; [reflexivity|]. exfalso.
  pose proof (vt_nest t V u k Hu ltac:(rewrite E; now left)) as Hk. unfold kid_okb in Hk. rewrite Hp in Hk.
  destruct (t_kind k); discriminate.
Qed.

Lemma subtrees_leaf u w : t_kids u = [] -> In w (subtrees u) -> w = u.
Proof. intros E Hw. rewrite subtrees_unfold, E in Hw. cbn in Hw. destruct Hw as [H|[]]. now symmetry. Qed.

Lemma in_tbelow_subtrees p w : In p (subtrees t) -> In w (tbelow p) -> In w (subtrees t).
Proof.
  intros Hp Hw. eapply subtrees_trans; [exact Hp|]. rewrite subtrees_unfold. right. exact Hw.
Qed.

(* a proper state strictly below p lies in a proper child of p *)
Lemma proper_below_child p w : In p (subtrees t) -> In w (tbelow p) -> tprop w = true -> has_proper_child p = true.
Proof.
  intros Hp Hw Pw. unfold tbelow in Hw. apply in_flat_map in Hw as (k & Hk & Hw). unfold has_proper_child.
  apply existsb_exists. exists k. split; [exact Hk|]. destruct (is_proper_kind (t_kind k)) eqn:E; [reflexivity|]. exfalso.
  assert (Hks : In k (subtrees t)) by (eapply subtrees_trans; [exact Hp|]; eapply subtrees_kid; [exact Hk | apply subtrees_self]).
  assert (Hkk : t_kids k = []) by (apply vt_pseudo_no_kids; [exact Hks|]; unfold is_proper_kind in E; now apply negb_false_iff in E).
  rewrite (subtrees_leaf k w Hkk Hw) in Pw. unfold tprop in Pw. congruence.
Qed.

End TreeFacts.

(* ------------------------------------------------------------------ combine kids with their numbers *)

Lemma in_combine_child_indices (kids : list tree) : forall s p, In p (combine kids (child_indices kids s)) ->
  exists j, nth_error kids j = Some (fst p) /\ snd p = s + tsize_list (firstn j kids).
Proof.
  induction kids as [|x r IH]; intros s p Hp; [destruct Hp|]. cbn [child_indices combine] in Hp. destruct Hp as [<-|Hp].
  - exists 0. split; [reflexivity|]. cbn. lia.
  - destruct (IH _ _ Hp) as (j & Hj & E). exists (S j). split; [exact Hj|]. cbn [firstn]. rewrite tsize_list_cons. lia.
Qed.

Lemma combine_child_indices_all (kids : list tree) : forall s k, In k kids -> exists b, In (k, b) (combine kids (child_indices kids s)).
Proof.
  induction kids as [|x r IH]; intros s k Hk; [destruct Hk|]. cbn [child_indices combine]. destruct Hk as [<-|Hk].
  - eexists. left. reflexivity.
  - destruct (IH (s + tsize x) k Hk) as [b Hb]. exists b. now right.
Qed.

Lemma firstn_tsize_mono (kids : list tree) : forall j j' a, j < j' -> nth_error kids j = Some a ->
  tsize_list (firstn j kids) + tsize a <= tsize_list (firstn j' kids).
Proof.
  induction kids as [|x r IH]; intros j j' a Hlt Hj; [destruct j; discriminate|].
  destruct j' as [|j']; [lia|]. destruct j as [|j].
  - cbn in Hj. inversion Hj; subst. cbn [firstn]. rewrite tsize_list_cons. cbn. lia.
  - cbn [nth_error] in Hj. cbn [firstn]. rewrite !tsize_list_cons. specialize (IH j j' a ltac:(lia) Hj). lia.
Qed.

(* at most one child block contains b *)
Lemma blocks_le1 (P : nat -> bool) b : forall kids s,
  (forall j kid, nth_error kids j = Some kid -> P (s + tsize_list (firstn j kids)) = true ->
     s + tsize_list (firstn j kids) <= b < s + tsize_list (firstn j kids) + tsize kid) ->
  length (filter P (child_indices kids s)) <= 1.
Proof.
  induction kids as [|x r IH]; intros s H; [cbn; lia|]. cbn [child_indices filter].
  assert (Hr : forall j kid, nth_error r j = Some kid -> P (s + tsize x + tsize_list (firstn j r)) = true ->
             s + tsize x + tsize_list (firstn j r) <= b < s + tsize x + tsize_list (firstn j r) + tsize kid).
  { intros j kid Hj Hp. specialize (H (S j) kid Hj). cbn [firstn] in H. rewrite tsize_list_cons in H.
    rewrite Nat.add_assoc in H. now apply H. }
  destruct (P s) eqn:Ps; [|now apply IH].
  pose proof (H 0 x eq_refl) as H0. cbn [firstn tsize_list fold_right] in H0. rewrite Nat.add_0_r in H0. specialize (H0 Ps).
  rewrite (filter_none P); [cbn; lia|]. intros k Hk. apply child_indices_spec in Hk as (j & kid & Hj & ->).
  destruct (P (s + tsize x + tsize_list (firstn j r))) eqn:E; [|reflexivity]. specialize (Hr j kid Hj E). lia.
Qed.

(* ------------------------------------------------------------------ the clauses *)

Section Flat.
Variable late : bool.
Variable t0 : tree.
Local Notation root := (resort t0).
Local Notation c := (flatten late t0).
Local Notation n := (tsize (resort t0)).
Local Notation nodes := (nodes_of (resort t0)).
Local Notation ids := (fl_ids t0).
Hypothesis FH : FlatHyp root.
Let V := fh_v root FH.
Let U := fh_u root FH.

Lemma f_in i : i < n -> In (ntree nodes i) (subtrees root). Proof. apply ntree_in. Qed.

Lemma f_root_node : ntree nodes 0 = root. Proof. apply ntree_root. Qed.

Lemma f_kd i : i < n -> fs_type (st c i) = type_of (ntree nodes i).
Proof. intros Hi. now destruct (g_st late t0 i Hi). Qed.

Lemma f_ch i : i < n -> fs_children (st c i) = child_indices (t_kids (ntree nodes i)) (S i).
Proof. intros Hi. now destruct (g_st late t0 i Hi) as (_ & E & _). Qed.

(* the root is a compound state *)
Lemma f_root_compound : fs_type (st c 0) = FCompound.
Proof.
  rewrite (f_kd 0 (tsize_pos root)), f_root_node. destruct (vb_docb_parts root (fh_doc root FH)) as [Hk _].
  pose proof (type_of_kind root) as T. rewrite Hk in T. rewrite T.
  destruct (vb_sideb_parts root (fh_side root FH)) as (R & _). unfold ct_rootb, compound_node, has_kids in R. rewrite Hk in R.
  assert (Hp : has_proper_child root = true).
  { unfold has_proper_child. destruct (t_kids root) as [|k r] eqn:E; [discriminate|]. cbn [existsb].
    pose proof (vt_nest root V root k (subtrees_self root) ltac:(rewrite E; now left)) as N. unfold kid_okb in N. rewrite Hk in N.
    unfold is_proper_kind. destruct (t_kind k); try discriminate; reflexivity. }
  now rewrite Hp.
Qed.

Lemma f_root_type : wfb_root_type c = true.
Proof. unfold wfb_root_type. now rewrite f_root_compound. Qed.

(* an id of an element with an id: its number is not the root's *)
Lemma f_resolve_vis s : In s (vsids_below root) -> exists g, nat_of_sid ids s = Some g /\ 0 < g < n.
Proof.
  intros Hs. destruct (g_resolve_below t0 U tvis 0 s (tsize_pos root)) as (g & Hr & Hg & Hgn & _).
  { rewrite f_root_node. exact Hs. }
  exists g. split; [exact Hr|]. split; [lia | exact Hgn].
Qed.

Lemma f_targets : wfb_targets c = true.
Proof.
  unfold wfb_targets. apply fseq. intros ti Hti. apply forallb_forall. intros g Hg.
  destruct (g_tr late t0 ti Hti) as (k & x & Hk & Hx & Et). rewrite Et in Hg. cbn [mk_trans ft_targets] in Hg.
  destruct (tt_targets x) as [l|] eqn:El; [|destruct Hg]. apply In_filter_map in Hg as (s & Hs & Hr).
  destruct (vt_targets root V _ x l (f_in k Hk) Hx El) as (_ & Hv & _).
  destruct (f_resolve_vis s (Hv s Hs)) as (g' & Hr' & Hg'). rewrite Hr in Hr'. inversion Hr'; subst g'.
  rewrite (g_nstates late t0). apply andb_true_iff. split; apply Nat.ltb_lt; lia.
Qed.

(* ---- one_childb from the tree-level test *)
Lemma one_childb_nil : one_childb c [] = true.
Proof.
  unfold one_childb. apply forallb_forall. intros j _. destruct (fs_type (st c j)); try reflexivity.
  rewrite filter_none by reflexivity. reflexivity.
Qed.

Lemma one_childb_ext T T' : (forall g, In g T <-> In g T') -> one_childb c T = one_childb c T'.
Proof.
  intros H. unfold one_childb. induction (seq 0 (nstates c)) as [|j r IH]; [reflexivity|]. cbn [forallb]. f_equal; [|exact IH].
  destruct (fs_type (st c j)); try reflexivity. f_equal. f_equal.
  apply filter_ext. intros k. apply eq_true_iff_eq. rewrite !existsb_exists. split; intros (g & Hg & E); exists g; (split; [now apply H | exact E]).
Qed.

Lemma f_on_path k g : k < n -> g < n -> on_path c k g = true -> k <= g < k + tsize (ntree nodes k).
Proof.
  intros Hk Hg Hon. unfold on_path in Hon. apply orb_true_iff in Hon as [Hon|Hon].
  - apply Nat.eqb_eq in Hon. pose proof (tsize_pos (ntree nodes k)). lia.
  - apply (g_anc late t0 k g Hk Hg) in Hon. fold nodes in Hon. lia.
Qed.

Lemma f_one_child l : target_set_okb root l = true -> one_childb c (filter_map (nat_of_sid ids) l) = true.
Proof.
  intros TS. unfold one_childb. rewrite (g_nstates late t0). apply fseq. intros i Hi.
  destruct (fs_type (st c i)) eqn:Ety; try reflexivity. rewrite (f_kd i Hi) in Ety.
  set (u := ntree nodes i) in *. assert (Hu : In u (subtrees root)) by (now apply f_in).
  unfold target_set_okb in TS. rewrite forallb_forall in TS. specialize (TS u Hu). rewrite (compound_of_type u Ety) in TS.
  apply Nat.leb_le in TS. apply Nat.leb_le. etransitivity; [|exact TS]. rewrite (f_ch i Hi). fold u.
  unfold kids_hit. apply filter_child_indices_le. intros j kid Hj Hp.
  destruct (g_kid late t0 i j kid Hi Hj) as (Hb & Hnb & _). cbn zeta in Hb, Hnb. fold u in Hb, Hnb.
  set (b := S i + tsize_list (firstn j (t_kids u))) in *.
  apply existsb_exists in Hp as (g & Hg & Hon). apply In_filter_map in Hg as (s & Hs & Hr).
  destruct (g_resolve_some t0 s g Hr) as [Hgn Hsid]. 
  apply existsb_exists. exists s. split; [exact Hs|]. apply memN_In. unfold sids. rewrite <- Hsid. apply in_map.
  pose proof (f_on_path b g Hb Hgn Hon) as Hrange. destruct (g_in_block t0 b g Hb Hrange) as [_ Hin].
  now rewrite Hnb in Hin.
Qed.

Lemma f_one_child_single b : b < n -> one_childb c [b] = true.
Proof.
  intros Hb. unfold one_childb. rewrite (g_nstates late t0). apply fseq. intros i Hi.
  destruct (fs_type (st c i)) eqn:Ety; try reflexivity. apply Nat.leb_le. rewrite (f_ch i Hi).
  apply (blocks_le1 _ b). intros j kid Hj Hp. destruct (g_kid late t0 i j kid Hi Hj) as (Hk & Hnk & _). cbn zeta in Hk, Hnk.
  cbn [existsb] in Hp. rewrite orb_false_r in Hp. pose proof (f_on_path _ b Hk Hb Hp) as Hr. now rewrite Hnk in Hr.
Qed.

Lemma f_target_sets : whb_target_sets c = true.
Proof.
  unfold whb_target_sets. apply fseq. intros ti Hti.
  destruct (g_tr late t0 ti Hti) as (k & x & Hk & Hx & Et). rewrite Et. cbn [mk_trans ft_targets].
  destruct (tt_targets x) as [l|] eqn:El; [|apply one_childb_nil].
  destruct (vt_targets root V _ x l (f_in k Hk) Hx El) as (_ & _ & TS). now apply f_one_child.
Qed.

(* ---- completions *)
Lemma f_completion i : i < n ->
  fs_completion (st c i) = completion_of (doc_nodes root 0 None) ids i (ntree nodes i) (npar nodes i)
                                         (child_indices (t_kids (ntree nodes i)) (S i)).
Proof. intros Hi. now destruct (g_st late t0 i Hi) as (_ & _ & _ & E & _). Qed.

Lemma f_child_interval i b : i < n -> In b (child_indices (t_kids (ntree nodes i)) (S i)) ->
  b < n /\ i < b < i + tsize (ntree nodes i).
Proof.
  intros Hi Hin. apply child_indices_spec in Hin as (j & kid & Hj & ->).
  destruct (g_kid late t0 i j kid Hi Hj) as (Hb & _ & Hp & _). cbn zeta in Hb, Hp. split; [exact Hb|].
  destruct (g_parent_kid late t0 _ i Hb Hp) as (_ & Hr & _). exact Hr.
Qed.

Lemma f_completion_ok : whb_completion c = true.
Proof.
  unfold whb_completion. rewrite (g_nstates late t0). apply fseq. intros i Hi.
  set (u := ntree nodes i). assert (Hu : In u (subtrees root)) by (now apply f_in).
  destruct (fs_type (st c i)) eqn:Ety; try reflexivity; rewrite (f_kd i Hi) in Ety; fold u in Ety.
  - (* compound *)
    destruct (type_compound u Ety) as [Hk Hpc]. rewrite (f_completion i Hi). fold u.
    assert (Hsingle : forall b, In b (child_indices (t_kids u) (S i)) ->
              negb (is_nil [b]) && forallb (fun g => mem i (fs_ancestors (st c g))) [b] && one_childb c [b] = true).
    { intros b Hb. destruct (f_child_interval i b Hi Hb) as [Hbn Hr]. cbn [is_nil negb forallb andb].
      rewrite (proj2 (g_anc late t0 i b Hi Hbn) Hr). cbn [andb]. now apply f_one_child_single. }
    assert (Hcomp : completion_of (doc_nodes root 0 None) ids i u (npar nodes i) (child_indices (t_kids u) (S i)) =
              match t_initattr u with
              | Some l => set_of_list (filter_map (nat_of_sid ids) l)
              | None =>
                match find (fun p : tree * nat => match t_kind (fst p) with KInitial => true | _ => false end)
                           (combine (t_kids u) (child_indices (t_kids u) (S i))) with
                | Some p => [snd p]
                | None => match find (fun p : tree * nat => is_proper_kind (t_kind (fst p)))
                                     (combine (t_kids u) (child_indices (t_kids u) (S i))) with
                          | Some p => [snd p] | None => [] end
                end
              end).
    { unfold completion_of. destruct Hk as [-> | ->]; reflexivity. }
    rewrite Hcomp. destruct (t_initattr u) as [l|] eqn:El.
    + assert (Hki : t_kind u <> KInitial) by (destruct Hk as [-> | ->]; discriminate).
      destruct (vt_initattr root V u l Hu Hki El) as (Hne & Hv & TS).
      assert (Hres : forall s, In s l -> exists g, nat_of_sid ids s = Some g /\ i < g < i + tsize u /\ g < n).
      { intros s Hs. destruct (g_resolve_below t0 U tvis i s Hi) as (g & Hr & Hg & Hgn & _); [now apply Hv|].
        exists g. auto. }
      apply andb_true_iff. split; [apply andb_true_iff; split|].
      * destruct l as [|s r]; [congruence|]. destruct (Hres s (or_introl eq_refl)) as (g & Hr & _).
        destruct (set_of_list _) as [|y r'] eqn:E; [|reflexivity]. exfalso.
        assert (Hin : In g (set_of_list (filter_map (nat_of_sid ids) (s :: r)))).
        { apply In_set_of_list. apply In_filter_map. exists s. split; [now left | exact Hr]. }
        rewrite E in Hin. destruct Hin.
      * apply forallb_forall. intros g Hg. apply (proj1 (In_set_of_list _ _)) in Hg. apply In_filter_map in Hg as (s & Hs & Hr).
        destruct (Hres s Hs) as (g' & Hr' & Hg' & Hgn). rewrite Hr in Hr'. inversion Hr'; subst g'.
        apply (g_anc late t0 i g Hi Hgn). exact Hg'.
      * rewrite (one_childb_ext _ (filter_map (nat_of_sid ids) l)) by (intros g; apply In_set_of_list). now apply f_one_child.
    + destruct (find _ _) as [p|] eqn:Ef.
      * apply find_some in Ef as [Hp _]. destruct p as [pk pb]. cbn [snd]. apply Hsingle. eapply in_combine_r. exact Hp.
      * destruct (find (fun p : tree * nat => is_proper_kind (t_kind (fst p))) _) as [p|] eqn:Ef2.
        -- apply find_some in Ef2 as [Hp _]. destruct p as [pk pb]. cbn [snd]. apply Hsingle. eapply in_combine_r. exact Hp.
        -- exfalso. unfold has_proper_child in Hpc. apply existsb_exists in Hpc as (k & Hk' & Pk).
           destruct (combine_child_indices_all (t_kids u) (S i) k Hk') as [b Hb].
           pose proof (List.find_none _ _ Ef2 _ Hb) as E. cbn [fst] in E. congruence.
  - (* parallel *)
    pose proof (type_of_kind u) as T. rewrite (f_completion i Hi), (f_ch i Hi). fold u. apply list_eqb_eq.
    assert (Hk : t_kind u = KParallel).
    { destruct (t_kind u); rewrite T in Ety; try discriminate; try reflexivity; destruct (has_proper_child u); discriminate. }
    unfold completion_of. rewrite Hk.
    destruct (vb_sideb_parts root (fh_side root FH)) as (_ & HP & _). unfold vb_hist_parentb in HP. rewrite forallb_forall in HP.
    specialize (HP u Hu). rewrite Hk in HP. rewrite forallb_forall in HP.
    assert (K : forall x, In x (t_kids u) -> is_proper_kind (t_kind x) = true).
    { intros x Hx. specialize (HP x Hx). pose proof (vt_nest root V u x Hu Hx) as N. unfold kid_okb in N. rewrite Hk in N.
      unfold is_proper_kind. destruct (t_kind x); try discriminate; reflexivity. }
    clear HP. generalize (S i). revert K. induction (t_kids u) as [|x r IH]; intros K s; [reflexivity|].
    cbn [child_indices combine filter_map fst snd]. rewrite (K x (or_introl eq_refl)). f_equal. apply IH. intros y Hy. apply K. now right.
Qed.

End Flat.
