(* StepCtl.v -- C08: the control flow of MicroStepImpl::step() around the two event queues, as a small
   transition system (definitions only; proofs in StepCtlLemmas.v).

   Source: LargeMicroStep.cpp:529-652 + 654-813 and FastMicroStep.cpp:797-1004.  The code between the
   top of step() and the label SELECT_TRANSITIONS, and the flag handling after the selection loop, are
   the same statements in the same order in both engines (StepCtlLemmas.engines_same_landmarks checks the
   landmark sequences regenerated from both files), so one function [cstep] models both.

   What the model keeps: _flags (six bits), the internal and external queue contents, _isCancelled,
   "every active state is in _invocations" (c_invdone), InterpreterImpl::_isInitialized.
   What comes from outside as an oracle, per call of step(): is some transition enabled in this
   selection (o_enabled); the internal events raised while selecting (error events from cond evaluation,
   <finalize>), by the micro step (executable content, done events), by invoke handling; whether the micro
   step entered a top-level final state.  The full chart semantics is modelled elsewhere.

   Events are N; 0 stands for an event with the empty name: BasicEventQueue::dequeue returns Event()
   for an empty queue and `if ((_event = dequeue…()))` tests Event::operator bool = name.size() > 0,
   so a queued event with an empty name (InterpreterImpl::cancel enqueues one to unblock) is popped and
   then treated exactly like "queue empty". *)
From Coq Require Import List Bool Arith NArith Lia.
Import ListNotations.

Definition ev := N.

Record flags := mkFlags {
  f_spont : bool;        (* USCXML_CTX_SPONTANEOUS      0x01 *)
  f_init : bool;         (* USCXML_CTX_INITIALIZED      0x02 *)
  f_topfinal : bool;     (* USCXML_CTX_TOP_LEVEL_FINAL  0x04 *)
  f_found : bool;        (* USCXML_CTX_TRANSITION_FOUND 0x08 *)
  f_finished : bool;     (* USCXML_CTX_FINISHED         0x10 *)
  f_stable : bool        (* USCXML_CTX_STABLE           0x20 *)
}.

Definition flags_pristine : flags := mkFlags false false false false false false.
Definition is_pristine (f : flags) : bool :=
  negb (f_spont f || f_init f || f_topfinal f || f_found f || f_finished f || f_stable f).

(* cv_recheck = false: the code as written.  true: the proposed repair (patches/C08-*.diff): an event that
   enabled no transition still sets SPONTANEOUS, so event-less transitions are selected again before the
   next event is dequeued, as the Recommendation's mainEventLoop does. *)
(* cv_drop_unnamed = false: as written.  true: the proposed repair for events without a name on the internal
   queue (they are the queues' "nothing" value and hide the events behind them): enqueueInternal ignores them. *)
Record ctl_variant := mkCV { cv_recheck : bool; cv_drop_unnamed : bool }.
Definition cv_as_written := mkCV false false.
Definition cv_repaired := mkCV true true.

(* InterpreterImpl::enqueueInternal for a list of events *)
Definition enq_int (v : ctl_variant) (l : list ev) : list ev :=
  if cv_drop_unnamed v then filter (fun x => negb (N.eqb x 0)) l else l.

Record cst := mkC {
  c_isinit : bool;       (* InterpreterImpl::_isInitialized *)
  c_fl : flags;
  c_iq : list ev;        (* internal queue *)
  c_eq : list ev;        (* external queue *)
  c_cancelled : bool;    (* MicroStepImpl::_isCancelled *)
  c_invdone : bool       (* configuration ⊆ _invocations: invoke handling has nothing to do *)
}.

Definition cinit : cst := mkC false flags_pristine [] [] false true.

Record oracle := mkO {
  o_enabled : bool;
  o_raise_sel : list ev;
  o_raise_ms : list ev;
  o_raise_inv : list ev;
  o_topfinal : bool
}.

Inductive retcode := RInitialized | RFinished | RMicrostepped | RMacrostepped | RIdle | RCancelled.

Inductive act :=
| ADeqInt (r : option ev)                 (* dequeueInternal(): None = the queue was empty *)
| ADeqExt (iqlen : nat) (r : option ev)   (* dequeueExternal(); iqlen = length of the internal queue then *)
| AEvent (ext : bool) (e : ev)            (* beforeProcessingEvent *)
| ASelect (e : option ev) (found : bool)  (* the selection loop ran for event e / event-less *)
| ARaise (l : list ev)                    (* appended to the internal queue *)
| AMicro                                  (* beforeMicroStep … afterMicroStep *)
| AInvoke                                 (* invoke handling had something to do *)
| AStable                                 (* onStableConfiguration *)
| ACompletion
| AArrive (e : ev)                        (* enqueueExternal by the environment *)
| ARet (r : retcode).

Definition deq (q : list ev) : option ev * list ev :=
  match q with [] => (None, []) | x :: r => (Some x, r) end.

(* `if ((_event = …))` *)
Definition named (r : option ev) : option ev :=
  match r with
  | Some x => if N.eqb x 0 then None else Some x
  | None => None
  end.

Definition set_flags (s : cst) (f : flags) : cst :=
  mkC (c_isinit s) f (c_iq s) (c_eq s) (c_cancelled s) (c_invdone s).
Definition set_iq (s : cst) (q : list ev) : cst :=
  mkC (c_isinit s) (c_fl s) q (c_eq s) (c_cancelled s) (c_invdone s).
Definition set_eq (s : cst) (q : list ev) : cst :=
  mkC (c_isinit s) (c_fl s) (c_iq s) q (c_cancelled s) (c_invdone s).
Definition set_invdone (s : cst) (b : bool) : cst :=
  mkC (c_isinit s) (c_fl s) (c_iq s) (c_eq s) (c_cancelled s) b.

Definition fl_spont (f : flags) b := mkFlags b (f_init f) (f_topfinal f) (f_found f) (f_finished f) (f_stable f).
Definition fl_stable (f : flags) b := mkFlags (f_spont f) (f_init f) (f_topfinal f) (f_found f) (f_finished f) b.
Definition fl_topfinal (f : flags) b := mkFlags (f_spont f) (f_init f) b (f_found f) (f_finished f) (f_stable f).
Definition fl_finished (f : flags) b := mkFlags (f_spont f) (f_init f) (f_topfinal f) (f_found f) b (f_stable f).
Definition fl_found (f : flags) b := mkFlags (f_spont f) (f_init f) (f_topfinal f) b (f_finished f) (f_stable f).
Definition fl_init (f : flags) b := mkFlags (f_spont f) b (f_topfinal f) (f_found f) (f_finished f) (f_stable f).

(* ESTABLISH_ENTRYSET … end of step(): the micro step proper *)
Definition microstep (v : ctl_variant) (s : cst) (o : oracle) : cst * list act :=
  let s1 := set_iq s (c_iq s ++ enq_int v (o_raise_ms o)) in
  let s2 := set_invdone s1 false in
  let s3 := if o_topfinal o then set_flags s2 (fl_topfinal (c_fl s2) true) else s2 in
  (s3, [AMicro; ARaise (enq_int v (o_raise_ms o)); ARet RMicrostepped]).

(* SELECT_TRANSITIONS: … the test of TRANSITION_FOUND after the loop *)
Definition select (v : ctl_variant) (s : cst) (e : option ev) (o : oracle) : cst * list act :=
  (* _flags &= ~USCXML_CTX_STABLE; the loop evaluates conditions (may raise error events) *)
  let s1 := set_flags s (fl_stable (c_fl s) false) in
  let s2 := set_iq s1 (c_iq s1 ++ enq_int v (o_raise_sel o)) in
  (* the loop sets TRANSITION_FOUND iff some transition is enabled *)
  let s3 := set_flags s2 (fl_found (c_fl s2) (o_enabled o)) in
  if f_found (c_fl s3) then
    (* _flags |= SPONTANEOUS; _flags &= ~TRANSITION_FOUND; fall through to the micro step *)
    let s4 := set_flags s3 (fl_found (fl_spont (c_fl s3) true) false) in
    let (s5, a) := microstep v s4 o in
    (s5, [ARaise (enq_int v (o_raise_sel o)); ASelect e true] ++ a)
  else
    (* _flags &= ~SPONTANEOUS; return USCXML_MICROSTEPPED  (repaired: |= SPONTANEOUS if an event was read) *)
    let sp := cv_recheck v && (match e with Some _ => true | None => false end) in
    let s4 := set_flags s3 (fl_spont (c_fl s3) sp) in
    (s4, [ARaise (enq_int v (o_raise_sel o)); ASelect e false; ARet RMicrostepped]).

(* one call of Interpreter::step() *)
Definition cstep (v : ctl_variant) (s : cst) (o : oracle) : cst * list act :=
  if negb (c_isinit s) then
    (* InterpreterImpl::step: init(); _state = USCXML_INITIALIZED (creates the queues) *)
    (mkC true (c_fl s) (c_iq s) (c_eq s) (c_cancelled s) (c_invdone s), [ARet RInitialized])
  else if f_finished (c_fl s) then (s, [ARet RFinished])
  else if f_topfinal (c_fl s) then
    (set_flags s (fl_finished (c_fl s) true), [ACompletion; ARet RFinished])
  else if is_pristine (c_fl s) then
    (* _flags |= SPONTANEOUS | INITIALIZED; goto ESTABLISH_ENTRYSET *)
    microstep v (set_flags s (fl_init (fl_spont (c_fl s) true) true)) o
  else if f_spont (c_fl s) then
    (* _event = Event(); goto SELECT_TRANSITIONS *)
    select v s None o
  else
    let (r, iq') := deq (c_iq s) in
    let s1 := set_iq s iq' in
    match named r with
    | Some x =>
        let (s2, a) := select v s1 (Some x) o in
        (s2, [ADeqInt r; AEvent false x] ++ a)
    | None =>
        (* manage uninvocations / invocations *)
        let '(s2, a2) := if c_invdone s1 then (s1, [])
                         else (set_invdone (set_iq s1 (c_iq s1 ++ enq_int v (o_raise_inv o))) true,
                               [AInvoke; ARaise (enq_int v (o_raise_inv o))]) in
        if negb (f_stable (c_fl s2)) then
          (set_flags s2 (fl_stable (c_fl s2) true), [ADeqInt r] ++ a2 ++ [AStable; ARet RMacrostepped])
        else
          let (r2, eq') := deq (c_eq s2) in
          let s3 := set_eq s2 eq' in
          let pre := [ADeqInt r] ++ a2 ++ [ADeqExt (length (c_iq s2)) r2] in
          match named r2 with
          | Some x =>
              let (s4, a) := select v s3 (Some x) o in
              (s4, pre ++ [AEvent true x] ++ a)
          | None =>
              if c_cancelled s3 then
                (set_flags s3 (fl_topfinal (c_fl s3) true), pre ++ [ARet RCancelled])
              else (s3, pre ++ [ARet RIdle])
          end
    end.

Inductive input :=
| IStep (o : oracle)
| IArrive (e : ev)          (* Interpreter::receive from any thread *)
| ICancel.                  (* InterpreterImpl::cancel: _isCancelled = true; enqueueExternal(Event()) *)

Definition cinput (v : ctl_variant) (s : cst) (i : input) : cst * list act :=
  match i with
  | IStep o => cstep v s o
  | IArrive e => (set_eq s (c_eq s ++ [e]), [AArrive e])
  | ICancel => (mkC (c_isinit s) (c_fl s) (c_iq s) (c_eq s ++ [0%N]) true (c_invdone s), [AArrive 0%N])
  end.

(* the trace is accumulated most-recent-first *)
Fixpoint crun (v : ctl_variant) (s : cst) (rtr : list act) (ins : list input) : cst * list act :=
  match ins with
  | [] => (s, rtr)
  | i :: r => let (s', a) := cinput v s i in crun v s' (rev a ++ rtr) r
  end.

Definition ctrace (v : ctl_variant) (ins : list input) : list act := rev (snd (crun v cinit [] ins)).

(* per-step variant used by the correspondence: the acts of every input separately *)
Fixpoint crun_steps (v : ctl_variant) (s : cst) (ins : list input) : list (list act) :=
  match ins with
  | [] => []
  | i :: r => let (s', a) := cinput v s i in a :: crun_steps v s' r
  end.

(* ------------------------------------------------------------------------------------------------ *)
(* trace predicates (on the most-recent-first trace: in [a :: older], [older] is what happened before a) *)

(* result of the most recent event-less selection *)
Fixpoint last_eventless (older : list act) : option bool :=
  match older with
  | [] => None
  | ASelect None b :: _ => Some b
  | _ :: t => last_eventless t
  end.

(* the most recent act is "dequeueInternal returned nothing (or the empty event)" *)
Definition just_deqint_none (older : list act) : bool :=
  match older with
  | ADeqInt r :: _ => match named r with None => true | Some _ => false end
  | _ => false
  end.

(* no event has been read since an event-less selection that found nothing *)
Fixpoint eventless_since_last_event (older : list act) : bool :=
  match older with
  | [] => false
  | ASelect None b :: _ => negb b
  | ASelect (Some _) _ :: _ => false
  | AMicro :: _ => false
  | _ :: t => eventless_since_last_event t
  end.

Definition quiescent_at (older : list act) (iqlen : nat) : bool :=
  Nat.eqb iqlen 0 && just_deqint_none older &&
  match last_eventless older with Some false => true | _ => false end.

(* the property oracle for "external events only at macrostep boundaries", on a most-recent-first trace *)
Fixpoint ext_quiescent_r (cond : list act -> nat -> bool) (rtr : list act) : bool :=
  match rtr with
  | [] => true
  | a :: older =>
      (match a with ADeqExt n _ => cond older n | _ => true end) && ext_quiescent_r cond older
  end.

Definition ext_quiescentb (tr : list act) : bool := ext_quiescent_r quiescent_at (rev tr).
Definition strict_at (older : list act) (n : nat) : bool := quiescent_at older n && eventless_since_last_event older.
Definition ext_strictly_quiescentb (tr : list act) : bool := ext_quiescent_r strict_at (rev tr).

(* the same as propositions over the forward trace *)
Definition ext_quiescent_gen (cond : list act -> nat -> bool) (tr : list act) : Prop :=
  forall pre n r post, tr = pre ++ ADeqExt n r :: post -> cond (rev pre) n = true.
Definition ext_quiescent (tr : list act) : Prop := ext_quiescent_gen quiescent_at tr.
Definition ext_strictly_quiescent (tr : list act) : Prop := ext_quiescent_gen strict_at tr.

(* queue accounting on the forward trace *)
Definition raised (tr : list act) : list ev := flat_map (fun a => match a with ARaise l => l | _ => [] end) tr.
Definition int_taken (tr : list act) : list ev :=
  flat_map (fun a => match a with ADeqInt (Some x) => [x] | _ => [] end) tr.
Definition ext_taken (tr : list act) : list ev :=
  flat_map (fun a => match a with ADeqExt _ (Some x) => [x] | _ => [] end) tr.
Definition arrived (tr : list act) : list ev := flat_map (fun a => match a with AArrive x => [x] | _ => [] end) tr.
Definition processed (ext : bool) (tr : list act) : list ev :=
  flat_map (fun a => match a with AEvent b x => if Bool.eqb b ext then [x] else [] | _ => [] end) tr.
Definition nonzero (l : list ev) : list ev := filter (fun x => negb (N.eqb x 0)) l.

Definition oracle_nonzero (o : oracle) : bool :=
  forallb (fun x => negb (N.eqb x 0)) (o_raise_sel o ++ o_raise_ms o ++ o_raise_inv o).
Definition inputs_nonzero (ins : list input) : bool :=
  forallb (fun i => match i with IStep o => oracle_nonzero o | _ => true end) ins.
(* the hypothesis of the quiescence theorems: no unnamed internal event is raised, or they are dropped *)
Definition inputs_ok (v : ctl_variant) (ins : list input) : bool := cv_drop_unnamed v || inputs_nonzero ins.

(* what a monitor and the caller of step() can see of one step: return code, processed event, micro step,
   stable callback -- the tokens compared with the implementation *)
Inductive obs := ORet (r : retcode) | OEvent (e : ev) | OMicro | OStable.
Definition observe (a : list act) : list obs :=
  flat_map (fun x => match x with
                     | ARet r => [ORet r] | AEvent _ e => [OEvent e] | AMicro => [OMicro] | AStable => [OStable]
                     | _ => [] end) a.

(* ------------------------------------------------------------------------------------------------ *)
(* the property oracle on what a monitor sees (used on the implementation's output): internal events are
   processed in the order they were raised, and an external event is processed only when every internal
   event raised before has been processed *)
Inductive tok := TExt (e : ev) | TInt (e : ev) | TRaise (e : ev).

Fixpoint pend_after (pending : list ev) (l : list tok) : option (list ev) :=
  match l with
  | [] => Some pending
  | TRaise e :: r => pend_after (pending ++ [e]) r
  | TInt e :: r =>
      match pending with
      | x :: p' => if N.eqb x e then pend_after p' r else None
      | [] => None
      end
  | TExt _ :: r =>
      match pending with
      | [] => pend_after [] r
      | _ :: _ => None
      end
  end.

Definition macrostep_okb (l : list tok) : bool :=
  match pend_after [] l with Some _ => true | None => false end.

Definition toks_of (tr : list act) : list tok :=
  flat_map (fun a => match a with
                     | AEvent true x => [TExt x]
                     | AEvent false x => [TInt x]
                     | ARaise l => map TRaise l
                     | _ => [] end) tr.

(* "no external event is taken while an event-less transition is enabled", for charts whose event-less
   transitions become enabled at points known by construction (GEnabled) and are observed when taken *)
Inductive gtok := GEnabled | GTaken | GExt.
Fixpoint gate_ok_from (en : bool) (l : list gtok) : bool :=
  match l with
  | [] => true
  | GEnabled :: r => gate_ok_from true r
  | GTaken :: r => gate_ok_from false r
  | GExt :: r => negb en && gate_ok_from en r
  end.
Definition gate_okb := gate_ok_from false.

(* landmarks of step() at nesting depth <= 2 in textual order, as the model reads them (codes of
   tools/translate/tr_stepctl.py); compared with the sequences regenerated from both engines' source
   (coq/gen/GenStepCtl.v) by StepCtlLemmas.engines_same_landmarks:
     test initialized; return INITIALIZED;                                   [cstep: c_isinit]
     test FINISHED; return FINISHED; test TOP_LEVEL_FINAL; set FINISHED; return FINISHED;
     test PRISTINE; set SPONTANEOUS|INITIALIZED; goto ESTABLISH_ENTRYSET;
     test SPONTANEOUS; event := none; goto SELECT_TRANSITIONS;
     if event := dequeueInternal; beforeProcessingEvent; goto SELECT_TRANSITIONS;
     (invoke handling: deeper nesting, not a landmark)
     test not STABLE; onStableConfiguration; set STABLE; return MACROSTEPPED;
     if event := dequeueExternal; beforeProcessingEvent; goto SELECT_TRANSITIONS;
     test cancelled; set TOP_LEVEL_FINAL; return CANCELLED; return IDLE;
     SELECT_TRANSITIONS: clear STABLE; (selection loop) test TRANSITION_FOUND; set SPONTANEOUS;
     clear TRANSITION_FOUND; [else] clear SPONTANEOUS; return MICROSTEPPED;
     ESTABLISH_ENTRYSET: ... return MICROSTEPPED *)
Definition modelled_landmarks : list N :=
  [30; 31; 1; 4; 2; 3; 4; 5; 6; 7; 8; 9; 10; 11; 28; 10; 12; 29; 13; 14; 15; 28; 10; 16; 17; 18; 19;
   20; 21; 22; 23; 24; 25; 26; 27; 26]%N.
(* the repaired skeleton (patches/C08-recheck-eventless.diff): after the TRANSITION_FOUND branch an
   `else if (_event)` branch: set SPONTANEOUS; return MICROSTEPPED *)
Definition modelled_landmarks_repaired : list N :=
  [30; 31; 1; 4; 2; 3; 4; 5; 6; 7; 8; 9; 10; 11; 28; 10; 12; 29; 13; 14; 15; 28; 10; 16; 17; 18; 19;
   20; 21; 22; 23; 24; 23; 26; 25; 26; 27; 26]%N.
Definition landmarks_for (recheck : bool) : list N :=
  if recheck then modelled_landmarks_repaired else modelled_landmarks.

Fixpoint listN_eqb (a b : list N) : bool :=
  match a, b with
  | [], [] => true
  | x :: a', y :: b' => N.eqb x y && listN_eqb a' b'
  | _, _ => false
  end.
(* which variant of the control model a regenerated landmark sequence corresponds to *)
Definition skeleton_recheck (l : list N) : option bool :=
  if listN_eqb l modelled_landmarks then Some false
  else if listN_eqb l modelled_landmarks_repaired then Some true else None.
