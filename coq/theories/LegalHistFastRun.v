(* LegalHistFastRun.v -- C02 for the model Fast.v of FastMicroStep::step on charts with pseudo-states: every state
   of every run has a legal configuration, for every chart of wf_histb (wf_fastb = wf_histb); and the document on
   which the pinned FastMicroStep.cpp went wrong (only the first target of a deep history's default transition
   got its ancestors; repaired, and Fast.v models the repaired code): now legal, equal to the large engine. *)
From V Require Import Base NameMatch Chart Exec Large Fast LargeLemmas Interp Legal SetLemmas LegalAbstract LegalLarge LegalRun
     WfCore LegalOracle LegalHistBase LegalHistEntry LegalHistStep LegalHistRun LegalHistWf LegalHistOracle LegalHistFast.
Local Open Scope nat_scope.

(* the reach of the fast-engine theorems: the same charts as for the large engine (the name is kept for the
   extracted checker command) *)
Definition wf_fastb (c : fchart) : bool := wf_histb c.

Section FRun.
Variable c : fchart.
Variable xv : ex_variant.
Hypothesis W : WFH c.
Hypothesis root_compound : fs_type (st c 0) = FCompound.

Let n := nstates c.
Let par (i : nat) := fs_parent (st c i).
Let kd (i : nat) := fs_type (st c i).
Let cpl (i : nat) := fs_completion (st c i).
Notation Anc := (Anc par).
Notation pseudo := (pseudoS c).

(* ------------------------------------------------------------------ REMEMBER_HISTORY of the fast engine *)

Definition frec_one (cfg exitset acc : list nat) (h : nat) : list nat :=
  if condb c exitset h then set_union (set_diff acc (cpl h)) (set_inter (cpl h) cfg) else acc.

Lemma fremember_unfold cfg exitset hist : fremember c cfg exitset hist = fold_left (frec_one cfg exitset) (seq 0 n) hist.
Proof. reflexivity. Qed.

Lemma frec_one_spec cfg exitset acc h x :
  In x (frec_one cfg exitset acc h) <->
  (if condb c exitset h then (In x (cpl h) /\ In x cfg) \/ (~ In x (cpl h) /\ In x acc) else In x acc).
Proof.
  unfold frec_one. destruct (condb c exitset h); [|tauto].
  rewrite In_set_union, In_set_diff, In_set_inter. tauto.
Qed.

Theorem fremember_HistOK cfg exitset :
  LegalH c (fun x => In x cfg) -> (forall x, In x cfg -> pseudo x = false) -> (forall x, In x exitset -> In x cfg) ->
  forall hist, HistOK c hist -> HistOK c (fremember c cfg exitset hist).
Proof.
  intros HL HP HE hist HH. rewrite fremember_unfold.
  exact (remember_HistOK_gen c W cfg exitset (frec_one cfg exitset) (frec_one_spec cfg exitset) HL HP HE hist HH).
Qed.

(* ------------------------------------------------------------------ entering *)

Lemma fenter_one_cfg ts a i y :
  In y (ea_cfg (fenter_one xv c ts a i)) <-> In y (ea_cfg a) \/ (y = i /\ pseudo i = false /\ ~ In i (ea_cfg a)).
Proof.
  unfold fenter_one, pseudoS. destruct (mem i (ea_cfg a)) eqn:Em.
  { apply mem_In in Em. split; [tauto | intros [H|(_ & _ & H)]; [exact H | contradiction]]. }
  apply mem_false_In in Em.
  destruct (is_pseudo (fs_type (st c i))) eqn:E.
  - split; [tauto | intros [H|(_ & H & _)]; [exact H | discriminate]].
  - cbn zeta.
    match goal with |- context [let '(initd1, x2) := ?e in _] => destruct e as [initd1 x2] end.
    destruct (fs_type (st c i)); cbn [ea_cfg]; rewrite In_insert_sorted'; tauto.
Qed.

Lemma fenter_fold_cfg ts es : forall a y,
  In y (ea_cfg (fold_left (fenter_one xv c ts) es a)) <-> In y (ea_cfg a) \/ (In y es /\ pseudo y = false).
Proof.
  induction es as [|i r IH]; intros a y; cbn [fold_left].
  - cbn. tauto.
  - rewrite IH, fenter_one_cfg. cbn [In]. split.
    + intros [[H|(-> & H & _)]|H]; tauto.
    + intros [H|[[->|H] Hp]]; [tauto | | tauto].
      destruct (in_dec Nat.eq_dec y (ea_cfg a)); tauto.
Qed.

Definition fhist_after (l : lstate) (exitset : list nat) (init : bool) : list nat :=
  if init then l_hist l else fremember c (l_cfg l) exitset (l_hist l).

Lemma fmicrostep_cfg l x tg exitset ts init y :
  In y (l_cfg (fst (fmicrostep xv c l x tg exitset ts init))) <->
  (In y (l_cfg l) /\ ~ In y exitset) \/
  (In y (FEfin c (l_cfg l) exitset (fhist_after l exitset init) tg ts) /\ pseudo y = false).
Proof.
  unfold fmicrostep, FEfin, fhist_after. cbn zeta.
  destruct (fentry_set c (l_cfg l) exitset _ tg ts) as [es ts'] eqn:Ees.
  destruct (fold_left (exit_one xv c) (rev exitset) (l_cfg l, x)) as [cfg1 x1] eqn:Eex.
  cbn [fst l_cfg].
  rewrite fenter_fold_cfg. cbn [ea_cfg].
  assert (Hc1 : forall z, In z cfg1 <-> In z (l_cfg l) /\ ~ In z exitset).
  { intros z. replace cfg1 with (fst (fold_left (exit_one xv c) (rev exitset) (l_cfg l, x))) by (now rewrite Eex).
    rewrite exit_fold_cfg, <- in_rev. tauto. }
  rewrite Hc1. cbn [fst]. tauto.
Qed.

Lemma fmicrostep_hist l x tg exitset ts init :
  l_hist (fst (fmicrostep xv c l x tg exitset ts init)) = fhist_after l exitset init.
Proof.
  unfold fmicrostep, fhist_after. cbn zeta.
  destruct (fentry_set c (l_cfg l) exitset _ tg ts) as [es ts'].
  destruct (fold_left (exit_one xv c) (rev exitset) (l_cfg l, x)) as [cfg1 x1]. reflexivity.
Qed.

Lemma fmicrostep_init l x tg exitset ts init :
  l_init (fst (fmicrostep xv c l x tg exitset ts init)) = true.
Proof.
  unfold fmicrostep. cbn zeta.
  destruct (fentry_set c (l_cfg l) exitset _ tg ts) as [es ts'].
  destruct (fold_left (exit_one xv c) (rev exitset) (l_cfg l, x)) as [cfg1 x1]. reflexivity.
Qed.

(* ------------------------------------------------------------------ selection *)

Lemma fconflicts_conflicts t1 t2 : fconflicts c t1 t2 = false -> conflicts lg_fixed c t1 t2 = false.
Proof.
  unfold fconflicts. intros H. apply orb_false_iff in H as [H _]. apply orb_false_iff in H as [H _].
  apply orb_false_iff in H as [H _]. exact H.
Qed.

Lemma pairwise_snoc sel ti : pairwise_ok lg_fixed c sel ->
  (forall si, In si sel -> conflicts lg_fixed c (tr c si) (tr c ti) = false) ->
  pairwise_ok lg_fixed c (sel ++ [ti]).
Proof.
  intros Hp Hc a b Ha Hb Hab. apply in_app_or in Ha, Hb.
  destruct Ha as [Ha|[<-|[]]], Hb as [Hb|[<-|[]]].
  - now apply Hp.
  - now apply Hc.
  - rewrite conflicts_sym. now apply Hc.
  - congruence.
Qed.

Lemma fselect_ok cfg ev ts : forall selected x,
  pairwise_ok lg_fixed c selected -> (forall ti, In ti selected -> In (ft_source (tr c ti)) cfg) ->
  pairwise_ok lg_fixed c (fst (fselect c cfg ev ts selected x)) /\
  (forall ti, In ti (fst (fselect c cfg ev ts selected x)) -> In (ft_source (tr c ti)) cfg).
Proof.
  induction ts as [|ti r IH]; intros selected x Hp Hs; cbn [fselect]; [split; assumption|].
  destruct (ft_history (tr c ti) || ft_initial (tr c ti)); [now apply IH|].
  destruct (mem (ft_source (tr c ti)) cfg) eqn:Esrc; cbn [negb]; [|now apply IH].
  destruct (existsb (fun si => fconflicts c (tr c si) (tr c ti)) selected) eqn:Ec; [now apply IH|].
  destruct (match ev with Some _ => ft_spontaneous (tr c ti) | None => negb (ft_spontaneous (tr c ti)) end); [now apply IH|].
  destruct (match ev with Some e => negb (name_match_impl nm_fixed (ft_event (tr c ti)) (ev_name e)) | None => false end); [now apply IH|].
  assert (Hadd : pairwise_ok lg_fixed c (selected ++ [ti]) /\
                 (forall t, In t (selected ++ [ti]) -> In (ft_source (tr c t)) cfg)).
  { split.
    - apply pairwise_snoc; [exact Hp|]. intros si Hsi. apply fconflicts_conflicts.
      destruct (fconflicts c (tr c si) (tr c ti)) eqn:E; [|reflexivity].
      assert (existsb (fun si => fconflicts c (tr c si) (tr c ti)) selected = true) by (apply existsb_exists; exists si; tauto).
      congruence.
    - intros t Ht. apply in_app_or in Ht as [Ht|[<-|[]]]; [now apply Hs | now apply mem_In]. }
  destruct (ft_cond (tr c ti)) as [cnd|].
  - destruct (is_true (inst_of c cfg) cnd x) as [b x']. destruct b; [apply IH; tauto | now apply IH].
  - apply IH; tauto.
Qed.

(* ------------------------------------------------------------------ one step *)

Lemma fexit_dom cfg sel :
  LegalH c (fun x => In x cfg) -> (forall x, In x cfg -> x < n) -> (forall x, In x cfg -> pseudo x = false) ->
  (forall ti, In ti sel -> In (ft_source (tr c ti)) cfg) ->
  forall x, In x (LegalLarge.exitset c cfg sel) ->
  exists d, In d (HE0 c (LegalLarge.targets c sel)) /\ pseudo d = false /\ Anc d x /\
            forall y, In y cfg -> Anc d y -> In y (LegalLarge.exitset c cfg sel).
Proof.
  intros HL HBn HBp Hsrc x Hx.
  apply (hIn_exitset c W cfg sel HL HBn HBp Hsrc) in Hx as [Hxc (d & HD & Hdx)].
  destruct (HDm_facts c W cfg sel HL HBn HBp Hsrc d HD) as (Hdc & _).
  exists d. split; [|split; [now apply HBp | split; [exact Hdx|]]].
  - destruct HD as (ti & Hti & Hd). apply (In_HE0 c W).
    destruct (hdomain_spec c W ti d (HBn _ (Hsrc ti Hti)) Hd) as (Hne & _ & Htg & _).
    destruct (ft_targets (tr c ti)) as [|g gs] eqn:E; [congruence|].
    exists g. split; [apply hIn_targets; exists ti; rewrite E; cbn; tauto|]. right. apply Htg. now left.
  - intros y Hy Hdy. apply (hIn_exitset c W cfg sel HL HBn HBp Hsrc). split; [exact Hy|]. exists d. tauto.
Qed.

Lemma fselect_and_step_legal l x ev : StOK c l -> StOK c (fst (fst (fselect_and_step xv c l x ev))).
Proof.
  intros [[HL HB] HH]. unfold fselect_and_step. cbn zeta.
  change (l_cfg (upd_flags l (l_spont l) false)) with (l_cfg l).
  pose proof (fselect_ok (l_cfg l) ev (seq 0 (ntrans c)) [] x (nil_pairwise lg_fixed c) (fun ti (H : In ti []) => match H with end)) as [Hok Hsrc].
  destruct (fselect c (l_cfg l) ev (seq 0 (ntrans c)) [] x) as [sel x1] eqn:E. cbn [fst] in Hok, Hsrc.
  destruct sel as [|t r] eqn:Esel; [cbn [fst]; split; [split|]; assumption|]. rewrite <- Esel in *.
  assert (HBn : forall y, In y (l_cfg l) -> y < n) by (intros y Hy; now destruct (HB y Hy)).
  assert (HBp : forall y, In y (l_cfg l) -> pseudo y = false) by (intros y Hy; now destruct (HB y Hy)).
  set (l0 := upd_flags l (l_spont l) false).
  set (tg := fold_left (fun a ti => set_union a (ft_targets (tr c ti))) sel []).
  set (ex := fold_left (fun a ti => set_union a (exit_states_of lg_fixed c (l_cfg l) (tr c ti))) sel []).
  assert (Hex : forall y, In y ex -> In y (l_cfg l)).
  { intros y Hy. exact (proj1 (proj1 (hIn_exitset c W (l_cfg l) sel HL HBn HBp Hsrc y) Hy)). }
  assert (HH' : HistOK c (fhist_after l0 ex false)).
  { unfold fhist_after. change (l_cfg l0) with (l_cfg l). change (l_hist l0) with (l_hist l).
    exact (fremember_HistOK (l_cfg l) ex HL HBp Hex (l_hist l) HH). }
  pose proof (fun y => fmicrostep_cfg l0 (emit TMsB x1) tg ex sel false y) as Hm.
  pose proof (fmicrostep_hist l0 (emit TMsB x1) tg ex sel false) as Hh.
  destruct (fmicrostep xv c l0 (emit TMsB x1) tg ex sel false) as [l1 x2].
  cbn [fst snd] in *. change (l_cfg l0) with (l_cfg l) in Hm.
  assert (HF : HInv c (l_cfg l) ex tg (QE5 c (l_cfg l) sel) n (FEfin c (l_cfg l) ex (fhist_after l0 ex false) tg sel)).
  { apply (FInv_fin c W (l_cfg l) ex (fhist_after l0 ex false) tg sel).
    - exact (htargets_bound c W sel).
    - exact HH'.
    - exact (HE0_uniq_step c W (l_cfg l) sel HL HBn HBp Hsrc Hok).
    - exact (QE5_0 c W (l_cfg l) sel HL HBn HBp Hsrc Hok).
    - exact (QE5_par c W (l_cfg l) sel HL HBn HBp Hsrc).
    - exact (QE5_comp c W (l_cfg l) sel HL HBn HBp Hsrc).
    - exact (QE5_pseudo c (l_cfg l) sel HBp).
    - exact HBn.
    - intros y p Hy Hp. exact (hcfg_parent c (l_cfg l) HL HBp y p Hy Hp).
    - exact Hex.
    - exact (fexit_dom (l_cfg l) sel HL HBn HBp Hsrc). }
  pose proof (sets_legal_of_inv c W (l_cfg l) sel HL HBn HBp Hsrc _ HF) as HR.
  split; [split|].
  - exact (legal_ext c _ _ Hm HR).
  - intros y Hy. apply Hm in Hy as [[Hy _]|[Hy Hp]]; [now apply HB|]. split; [|exact Hp].
    exact (Ef_bound c (l_cfg l) sel _ HF y Hy).
  - rewrite Hh. exact HH'.
Qed.

Lemma finitial_step_legal l x : l_cfg l = [] -> HistOK c (l_hist l) ->
  StOK c (fst (fmicrostep xv c l x (fs_completion (st c 0)) [] [] true)).
Proof.
  intros Hnil HH.
  pose proof (fun y => fmicrostep_cfg l x (fs_completion (st c 0)) [] [] true y) as Hm.
  pose proof (fmicrostep_hist l x (fs_completion (st c 0)) [] [] true) as Hh.
  destruct (fmicrostep xv c l x (fs_completion (st c 0)) [] [] true) as [l1 x1].
  cbn [fst] in *. rewrite Hnil in Hm. unfold fhist_after in *.
  assert (HI : HInv c [] [] (fs_completion (st c 0)) QT n (FEfin c [] [] (l_hist l) (fs_completion (st c 0)) [])).
  { apply (FInv_fin c W [] [] (l_hist l) (fs_completion (st c 0)) []); unfold QT; auto.
    - exact (hinit_tg_bound c W root_compound).
    - exact (hinit_E0_uniq c W root_compound).
    - intros y [].
    - intros y p [].
    - intros y []. }
  pose proof (init_legal_of_inv c W root_compound _ HI) as HR.
  assert (Heq : forall y, In y (l_cfg l1) <-> (In y (FEfin c [] [] (l_hist l) (fs_completion (st c 0)) []) /\ pseudo y = false)).
  { intros y. rewrite Hm. cbn [In]. tauto. }
  split; [split|].
  - exact (legal_ext c _ _ Heq HR).
  - intros y Hy. apply Heq in Hy as [Hy Hp]. split; [|exact Hp]. exact (hi_bound _ _ _ _ _ _ _ HI y Hy).
  - rewrite Hh. exact HH.
Qed.

Lemma fselect_and_step_init l x ev : l_init l = true -> l_init (fst (fst (fselect_and_step xv c l x ev))) = true.
Proof.
  intros Hi. unfold fselect_and_step. cbn zeta.
  destruct (fselect c _ ev _ [] x) as [sel x1]. destruct sel as [|t r]; [exact Hi|].
  match goal with |- context [fmicrostep xv c ?l0 ?x0 ?tg ?ex ?ts false] =>
    pose proof (fmicrostep_init l0 x0 tg ex ts false) as H; destruct (fmicrostep xv c l0 x0 tg ex ts false) as [l1 x2] end.
  exact H.
Qed.

Theorem fast_step_legal_h l x : CfgOKH c l -> CfgOKH c (fst (fst (fast_step xv c l x))).
Proof.
  intros HOK. unfold fast_step.
  destruct (l_fin l) eqn:Hfin; [exact HOK|].
  destruct (l_tlf l) eqn:Htlf.
  { cbn [fst]. destruct HOK as [[Hp _]|H]; [|right; exact H].
    unfold is_pristine in Hp. rewrite Htlf in Hp. rewrite !orb_true_r in Hp. discriminate. }
  destruct (is_pristine l) eqn:Hpr.
  { destruct HOK as [(_ & Hnil & HH)|[Hi _]]; [|rewrite (init_not_pristine l Hi) in Hpr; discriminate].
    right. pose proof (finitial_step_legal l (emit TMsB x) Hnil HH) as H.
    pose proof (fmicrostep_init l (emit TMsB x) (fs_completion (st c 0)) [] [] true) as Hi.
    destruct (fmicrostep xv c l (emit TMsB x) (fs_completion (st c 0)) [] [] true) as [l1 x1].
    cbn [fst] in *. split; assumption. }
  destruct HOK as [[Hp _]|[Hi HL]]; [congruence|].
  assert (Hsel : forall y ev, CfgOKH c (fst (fst (fselect_and_step xv c l y ev)))).
  { intros y ev. right. split; [now apply fselect_and_step_init | now apply fselect_and_step_legal]. }
  destruct (l_spont l); [apply Hsel|].
  destruct (x_iq x) as [|e r].
  - destruct (l_stable l); cbn [negb].
    + destruct (x_eq x) as [|e r].
      * destruct (l_cancelled l); cbn [fst]; right; tauto.
      * destruct (ev_name e); [destruct (l_cancelled l); cbn [fst]; right; tauto | apply Hsel].
    + cbn [fst]. right. tauto.
  - destruct (ev_name e); [cbn [fst]; right; tauto | apply Hsel].
Qed.

Theorem fast_run_states_legal_h fuel : forall l x evs, CfgOKH c l ->
  CfgOKH c (fst (run_loop c lstate (fast_step xv c) l_cfg fuel l x evs)).
Proof.
  induction fuel as [|f IH]; intros l x evs HOK; cbn [run_loop]; [exact HOK|].
  pose proof (fast_step_legal_h l x HOK) as H1.
  destruct (fast_step xv c l x) as [[l1 x1] rc]. cbn [fst] in H1.
  destruct (N.eqb rc RC_FINISHED); [exact H1|].
  destruct (N.eqb rc RC_IDLE); [|now apply IH].
  destruct evs as [|e r]; [exact H1 | now apply IH].
Qed.

End FRun.

(* ------------------------------------------------------------------ headline lemmas for the fast engine *)

Theorem fast_run_legal_history_strong c xv : wf_fastb c = true -> fs_type (st c 0) = FCompound ->
  forall fuel evs, CfgOKH c (fst (run_loop c lstate (fast_step xv c) l_cfg fuel l_pristine x_init evs)).
Proof.
  intros H R fuel evs. unfold wf_fastb in H. pose proof (wf_histb_sound c H) as W.
  apply (fast_run_states_legal_h c xv W R). now apply pristine_ok_h.
Qed.

Theorem fast_run_legal_history c xv : wf_fastb c = true -> fs_type (st c 0) = FCompound ->
  forall fuel evs, CfgOK c (fst (run_loop c lstate (fast_step xv c) l_cfg fuel l_pristine x_init evs)).
Proof.
  intros H R fuel evs. apply CfgOKH_CfgOK; [|now apply fast_run_legal_history_strong].
  unfold wf_fastb in H. now apply wf_histb_sound.
Qed.

Theorem fast_step_legal_history c xv : wf_fastb c = true -> fs_type (st c 0) = FCompound ->
  forall l x, CfgOKH c l -> CfgOKH c (fst (fst (fast_step xv c l x))).
Proof. intros H R. unfold wf_fastb in H. exact (fast_step_legal_h c xv (wf_histb_sound c H) R). Qed.

Lemma wf_fastb_histb c : wf_fastb c = wf_histb c.
Proof. reflexivity. Qed.

(* every chart without history (wf_initb) is inside *)
Lemma wf_initb_fastb c : wf_initb c = true -> wf_fastb c = true.
Proof. exact (wf_initb_histb c). Qed.

(* ------------------------------------------------------------------ the repaired defect *)
Local Open Scope N_scope.

(* s1{deep h20 (default "s4 s7"), parallel s2{s3{s10{s4, s12}}, s6{s13, s11{s14, s7}}}}, s9 --e--> h20.
   The pinned FastMicroStep added the ancestors of s4 only: s7 became active without its parent s11.  The
   repaired code (modelled by Fast.v) enters s11 as well: the same legal configuration as the large engine. *)
Definition fd_tree : tree :=
  TNode KScxml 0 (Some [9]) [] [] [] []
    [TNode KState 1 None [] [] [] []
       [TNode KHistDeep 20 None [htr_ 103 None (Some [4; 7]) false] [] [] [] [];
        TNode KParallel 2 None [] [] [] []
          [TNode KState 3 None [] [] [] [] [TNode KState 10 None [] [] [] [] [TNode KState 4 None [] [] [] [] []; TNode KState 12 None [] [] [] [] []]];
           TNode KState 6 None [] [] [] [] [TNode KState 13 None [] [] [] [] []; TNode KState 11 None [] [] [] [] [TNode KState 14 None [] [] [] [] []; TNode KState 7 None [] [] [] [] []]]]];
     TNode KState 9 None [htr_ 104 (Some [101]) (Some [20]) false] [] [] [] []].

Theorem fast_deep_history_default_repaired :
  let c := flatten false fd_tree in
  let cf := l_cfg (fst (run_loop c lstate (fast_step ex_fixed c) l_cfg 20%nat l_pristine x_init [[101]])) in
  let cl := l_cfg (fst (run_loop c lstate (large_step lg_fixed ex_fixed c) l_cfg 20%nat l_pristine x_init [[101]])) in
  wf_fastb c = true /\ fs_type (st c 0%nat) = FCompound /\
  legal_configb c cf = true /\ cf = cl /\ cf = [0; 1; 3; 4; 5; 6; 8; 10; 12]%nat.
Proof. vm_compute. repeat split; reflexivity. Qed.

(* non-vacuity: the documents of LegalHistOracle.v with histories pass wf_fastb *)
Example fast_hypotheses_satisfiable :
  wf_fastb (flatten false hh_tree) = true /\ wf_fastb (flatten false h2_tree) = true /\ wf_fastb (flatten false hini_tree) = true.
Proof. vm_compute. repeat split; reflexivity. Qed.
