(* SerializeCongLemmas.v -- C14: LargeMicroStep::step (Large.large_step) respects every relation on execution
   states of the form "stores related by Rs, queues equal, internal queue satisfies Pe, traces equal since a
   common point".  One traversal of the step function, instantiated twice in SerializeLemmas.v:
     - Rs = same value for every name          -> the step does not depend on the representation of the store
                                                   nor on the trace recorded so far (determinism of the continuation)
     - Rs = equal stores whose names are declared, Pe = named event
                                                -> invariants of every run: only declared <data> ids are ever
                                                   defined, the internal queue only holds named events *)
From V Require Import Base NameMatch Chart Exec Large Interp Serialize.
Local Open Scope nat_scope.

(* ------------------------------------------------------------------ induction over executable content *)

Section InstrInd.
Variable P : instr -> Prop.
Variable Q : list ifitem -> Prop.
Hypothesis HRaise : forall v e, P (IRaise v e).
Hypothesis HSend : forall v e, P (ISend v e).
Hypothesis HSendBT : forall v e, P (ISendBadType v e).
Hypothesis HSendBG : forall v e, P (ISendBadTarget v e).
Hypothesis HLog : forall v e, P (ILog v e).
Hypothesis HAssign : forall v x e, P (IAssign v x e).
Hypothesis HIf : forall v c body, Q body -> P (IIf v c body).
Hypothesis Qnil : Q [].
Hypothesis Qelseif : forall c r, Q r -> Q (FElseif c :: r).
Hypothesis Qelse : forall r, Q r -> Q (FElse :: r).
Hypothesis Qinstr : forall i r, P i -> Q r -> Q (FInstr i :: r).

Fixpoint instr_ind2 (i : instr) : P i :=
  match i with
  | IRaise v e => HRaise v e
  | ISend v e => HSend v e
  | ISendBadType v e => HSendBT v e
  | ISendBadTarget v e => HSendBG v e
  | ILog v e => HLog v e
  | IAssign v x e => HAssign v x e
  | IIf v c body =>
      HIf v c body
          ((fix go (l : list ifitem) : Q l :=
              match l with
              | [] => Qnil
              | FElseif c' :: r => Qelseif c' r (go r)
              | FElse :: r => Qelse r (go r)
              | FInstr j :: r => Qinstr j r (instr_ind2 j) (go r)
              end) body)
  end.
End InstrInd.

Lemma st_named c i : chart_named c = true -> state_named (st c i) = true.
Proof.
  unfold chart_named. rewrite andb_true_iff. intros [H _]. rewrite forallb_forall in H. unfold st.
  destruct (Nat.lt_ge_cases i (length (fc_states c))) as [Hl|Hl].
  - apply H. now apply nth_In.
  - rewrite nth_overflow by lia. reflexivity.
Qed.

Lemma tr_named c i : chart_named c = true -> block_named (ft_body (tr c i)) = true.
Proof.
  unfold chart_named. rewrite andb_true_iff. intros [_ H]. rewrite forallb_forall in H. unfold tr.
  destruct (Nat.lt_ge_cases i (length (fc_trans c))) as [Hl|Hl].
  - apply H. now apply nth_In.
  - rewrite nth_overflow by lia. reflexivity.
Qed.

Lemma data_declared c i d : In d (fs_data (st c i)) -> In (fst d) (declared c).
Proof.
  unfold st, declared. intros H.
  destruct (Nat.lt_ge_cases i (length (fc_states c))) as [Hl|Hl].
  - apply in_flat_map. exists (nth i (fc_states c) dummy_state). split; [now apply nth_In|]. now apply in_map.
  - rewrite nth_overflow in H by lia. destruct H.
Qed.

(* the anonymous local function of Exec.exec_instr for the children of <if> *)
Definition exec_items (v : ex_variant) (inst : N -> bool) : list ifitem -> bool -> xstate -> bool * xstate :=
  fix items (l : list ifitem) (blockIsTrue : bool) (x : xstate) {struct l} : bool * xstate :=
    match l with
    | [] => (true, x)
    | FElseif c' :: r =>
        if blockIsTrue then (true, x)
        else let '(b, x') := is_true inst c' x in items r b x'
    | FElse :: r => if blockIsTrue then (true, x) else items r true x
    | FInstr j :: r =>
        if blockIsTrue then
          let '(ok, x') := exec_instr v inst j x in
          if ok then items r blockIsTrue x' else (false, x')
        else items r blockIsTrue x
    end.

Lemma exec_instr_if v inst vid c body x :
  exec_instr v inst (IIf vid c body) x =
  let x1 := emit (TCb vid) x in
  let '(b0, x2) := is_true inst c x1 in
  let '(ok, x3) := exec_items v inst body b0 x2 in
  if ok then (true, emit (TCe vid) x3)
  else if ex_if_after_skipped_on_nested_error v then (false, x3)
  else (false, emit (TCe vid) x3).
Proof. reflexivity. Qed.

(* ------------------------------------------------------------------ the traversal *)

Ltac rsplit := repeat match goal with |- _ /\ _ => split end.

Section Cong.
Variable lv : lg_variant.
Variable xv : ex_variant.
Variable c : fchart.
Variable Rs : store -> store -> Prop.
Variable Pe : event -> Prop.

Hypothesis Rs_lookup : forall s s', Rs s s' -> forall k, lookup s k = lookup s' k.
Hypothesis Rs_update : forall s s' k z, Rs s s' -> (lookup s k <> None \/ In k (declared c)) -> Rs (update s k z) (update s' k z).
Hypothesis Pe_exec : Pe err_exec.
Hypothesis Pe_comm : Pe err_comm.
Hypothesis Pe_done : forall i, Pe (done_event c i).
Hypothesis Pe_raise : forall n, n <> [] -> Pe {| ev_name := n; ev_kind := EvInternal |}.
Hypothesis Hnamed : chart_named c = true.

(* the traces recorded before the point from which the two runs are compared *)
Variables ox oy : list tok.

Record Rx (x y : xstate) : Prop := {
  rx_store : Rs (x_store x) (x_store y);
  rx_iq : x_iq x = x_iq y;
  rx_pe : Forall Pe (x_iq x);
  rx_eq : x_eq x = x_eq y;
  rx_out : exists d, x_out x = d ++ ox /\ x_out y = d ++ oy
}.

Lemma Rx_emit t x y : Rx x y -> Rx (emit t x) (emit t y).
Proof.
  intros [H1 H2 H3 H4 [d [H5 H6]]]. constructor; cbn; auto.
  exists (t :: d). cbn. now rewrite H5, H6.
Qed.

Lemma Rx_raise_int e x y : Pe e -> Rx x y -> Rx (raise_int e x) (raise_int e y).
Proof.
  intros He [H1 H2 H3 H4 H5]. constructor; cbn; auto.
  - now rewrite H2.
  - apply Forall_app. split; [exact H3|now constructor].
Qed.

Lemma Rx_raise_ext e x y : Rx x y -> Rx (raise_ext e x) (raise_ext e y).
Proof. intros [H1 H2 H3 H4 H5]. constructor; cbn; auto. now rewrite H4. Qed.

Lemma Rx_set_store s s' x y : Rs s s' -> Rx x y -> Rx (set_store s x) (set_store s' y).
Proof. intros Hs [H1 H2 H3 H4 H5]. constructor; cbn; auto. Qed.

Lemma ieval_R s s' e : Rs s s' -> ieval s e = ieval s' e.
Proof.
  intros H. induction e as [z|v|a IHa b IHb|a IHa b IHb|]; cbn [ieval]; try reflexivity.
  - now apply Rs_lookup.
  - now rewrite IHa, IHb.
  - now rewrite IHa, IHb.
Qed.

Lemma beval_R inst s s' e : Rs s s' -> beval inst s e = beval inst s' e.
Proof.
  intros H. induction e as [| |sid|a b|a IHa|a IHa b IHb|a IHa b IHb|]; cbn [beval]; try reflexivity.
  - now rewrite (ieval_R s s' a H), (ieval_R s s' b H).
  - now rewrite IHa.
  - now rewrite IHa, IHb.
  - now rewrite IHa, IHb.
Qed.

(* two results (a, x) (a', y) with equal first components and related states *)
Definition Rres {A} (p q : A * xstate) : Prop := fst p = fst q /\ Rx (snd p) (snd q).

Lemma is_true_R inst cnd x y : Rx x y -> Rres (is_true inst cnd x) (is_true inst cnd y).
Proof.
  intros H. unfold is_true. rewrite (beval_R inst _ _ cnd (rx_store _ _ H)).
  destruct (beval inst (x_store y) cnd); split; cbn; auto.
  now apply Rx_raise_int.
Qed.

Lemma fail_elem_R vid e x y : Pe e -> Rx x y -> Rres (fail_elem vid e x) (fail_elem vid e y).
Proof. intros He H. split; cbn; [reflexivity|]. apply Rx_emit. now apply Rx_raise_int. Qed.

Lemma exec_instr_R inst : forall i, instr_named i = true -> forall x y, Rx x y ->
  Rres (exec_instr xv inst i x) (exec_instr xv inst i y).
Proof.
  apply (instr_ind2
           (fun i => instr_named i = true -> forall x y, Rx x y -> Rres (exec_instr xv inst i x) (exec_instr xv inst i y))
           (fun l => items_forall instr_named l = true -> forall b x y, Rx x y ->
                     Rres (exec_items xv inst l b x) (exec_items xv inst l b y))).
  - (* raise *) intros v e Hn x y H. cbn [exec_instr]. split; cbn [fst snd]; [reflexivity|].
    apply Rx_emit. apply Rx_raise_int; [|now apply Rx_emit].
    apply Pe_raise. cbn in Hn. destruct e; [discriminate|discriminate].
  - intros v e _ x y H. cbn [exec_instr]. split; cbn [fst snd]; [reflexivity|].
    apply Rx_emit. apply Rx_raise_ext. now apply Rx_emit.
  - intros v e _ x y H. cbn [exec_instr]. apply fail_elem_R; [exact Pe_exec|now apply Rx_emit].
  - intros v e _ x y H. cbn [exec_instr]. apply fail_elem_R; [exact Pe_comm|now apply Rx_emit].
  - (* log *) intros v e _ x y H. cbn [exec_instr].
    assert (H1 : Rx (emit (TCb v) x) (emit (TCb v) y)) by now apply Rx_emit.
    rewrite (ieval_R _ _ e (rx_store _ _ H1)).
    destruct (ieval (x_store (emit (TCb v) y)) e).
    + split; cbn [fst snd]; [reflexivity|]. now repeat apply Rx_emit.
    + now apply fail_elem_R.
  - (* assign *) intros v var e _ x y H. cbn [exec_instr].
    assert (H1 : Rx (emit (TCb v) x) (emit (TCb v) y)) by now apply Rx_emit.
    rewrite (ieval_R _ _ e (rx_store _ _ H1)).
    pose proof (Rs_lookup _ _ (rx_store _ _ H1) var) as Hl. rewrite Hl.
    destruct (ieval (x_store (emit (TCb v) y)) e) as [z|]; [|now apply fail_elem_R].
    destruct (lookup (x_store (emit (TCb v) y)) var) eqn:E; [|now apply fail_elem_R].
    split; cbn [fst snd]; [reflexivity|]. apply Rx_emit. apply Rx_set_store; [|exact H1].
    apply Rs_update; [exact (rx_store _ _ H1)|]. left. rewrite Hl. discriminate.
  - (* if *) intros v cnd body IH Hn x y H. rewrite !exec_instr_if. cbv zeta.
    assert (H1 : Rx (emit (TCb v) x) (emit (TCb v) y)) by now apply Rx_emit.
    destruct (is_true_R inst cnd _ _ H1) as [Hb H2].
    destruct (is_true inst cnd (emit (TCb v) x)) as [b0 x2]. destruct (is_true inst cnd (emit (TCb v) y)) as [b0' y2].
    cbn [fst snd] in Hb, H2. subst b0'.
    cbn [instr_named] in Hn. destruct (IH Hn b0 _ _ H2) as [Hok H3].
    destruct (exec_items xv inst body b0 x2) as [ok x3]. destruct (exec_items xv inst body b0 y2) as [ok' y3].
    cbn [fst snd] in Hok, H3. subst ok'.
    destruct ok; [split; cbn [fst snd]; [reflexivity|now apply Rx_emit]|].
    destruct (ex_if_after_skipped_on_nested_error xv); split; cbn [fst snd]; auto. now apply Rx_emit.
  - intros _ b x y H. split; cbn; auto.
  - (* elseif *) intros cnd r IH Hn b x y H. cbn [exec_items]. destruct b; [split; cbn; auto|].
    destruct (is_true_R inst cnd _ _ H) as [Hb H2].
    destruct (is_true inst cnd x) as [b1 x1]. destruct (is_true inst cnd y) as [b1' y1]. cbn [fst snd] in Hb, H2. subst b1'.
    now apply IH.
  - (* else *) intros r IH Hn b x y H. cbn [exec_items]. destruct b; [split; cbn; auto|]. now apply IH.
  - (* instr *) intros j r IHj IHr Hn b x y H. cbn [exec_items].
    cbn [items_forall] in Hn. apply andb_true_iff in Hn. destruct Hn as [Hj Hr].
    destruct b; [|now apply IHr].
    destruct (IHj Hj _ _ H) as [Hok H2].
    destruct (exec_instr xv inst j x) as [ok x1]. destruct (exec_instr xv inst j y) as [ok' y1]. cbn [fst snd] in Hok, H2. subst ok'.
    destruct ok; [now apply IHr|split; cbn; auto].
Qed.

Lemma exec_block_R inst : forall b, block_named b = true -> forall x y, Rx x y ->
  Rx (exec_block xv inst b x) (exec_block xv inst b y).
Proof.
  induction b as [|i r IH]; intros Hn x y H; cbn [exec_block]; [exact H|].
  cbn [block_named forallb] in Hn. apply andb_true_iff in Hn. destruct Hn as [Hi Hr].
  destruct (exec_instr_R inst i Hi _ _ H) as [Hok H2].
  destruct (exec_instr xv inst i x) as [ok x1]. destruct (exec_instr xv inst i y) as [ok' y1]. cbn [fst snd] in Hok, H2. subst ok'.
  destruct ok; [now apply IH|exact H2].
Qed.

Lemma exec_blocks_R inst : forall bs, forallb block_named bs = true -> forall x y, Rx x y ->
  Rx (exec_blocks xv inst bs x) (exec_blocks xv inst bs y).
Proof.
  unfold exec_blocks. induction bs as [|b r IH]; intros Hn x y H; cbn [fold_left]; [exact H|].
  cbn [forallb] in Hn. apply andb_true_iff in Hn. destruct Hn as [Hb Hr].
  apply IH; [exact Hr|]. now apply exec_block_R.
Qed.

Lemma onentry_named i : forallb block_named (fs_onentry (st c i)) = true.
Proof. pose proof (st_named c i Hnamed) as H. unfold state_named in H. now apply andb_true_iff in H. Qed.
Lemma onexit_named i : forallb block_named (fs_onexit (st c i)) = true.
Proof. pose proof (st_named c i Hnamed) as H. unfold state_named in H. now apply andb_true_iff in H. Qed.

Lemma init_data_R d x y : In (fst d) (declared c) -> Rx x y -> Rx (init_data d x) (init_data d y).
Proof.
  intros Hd H. unfold init_data. rewrite (ieval_R _ _ (snd d) (rx_store _ _ H)).
  destruct (ieval (x_store y) (snd d)).
  - apply Rx_set_store; [|exact H]. apply Rs_update; [exact (rx_store _ _ H)|now right].
  - now apply Rx_raise_int.
Qed.

Lemma init_datas_R ds : (forall d, In d ds -> In (fst d) (declared c)) -> forall x y, Rx x y ->
  Rx (fold_left (fun x d => init_data d x) ds x) (fold_left (fun x d => init_data d x) ds y).
Proof.
  induction ds as [|d r IH]; intros Hd x y H; cbn [fold_left]; [exact H|].
  apply IH; [intros d' Hd'; apply Hd; now right|]. apply init_data_R; [apply Hd; now left|exact H].
Qed.

(* ---- selection ---- *)

Lemma pick_trans_R cfg ev selected : forall ts x y, Rx x y ->
  Rres (pick_trans lv c cfg ev selected ts x) (pick_trans lv c cfg ev selected ts y).
Proof.
  induction ts as [|ti r IH]; intros x y H; cbn [pick_trans]; [split; cbn; auto|].
  destruct (ft_history (tr c ti) || ft_initial (tr c ti)); [now apply IH|].
  destruct (match ev with Some _ => ft_spontaneous (tr c ti) | None => negb (ft_spontaneous (tr c ti)) end); [now apply IH|].
  destruct (existsb (fun si => conflicts lv c (tr c ti) (tr c si)) selected); [now apply IH|].
  destruct (match ev with Some e => negb (name_match_impl nm_fixed (ft_event (tr c ti)) (ev_name e)) | None => false end); [now apply IH|].
  destruct (ft_cond (tr c ti)) as [cnd|]; [|split; cbn; auto].
  destruct (is_true_R (inst_of c cfg) cnd _ _ H) as [Hb H2].
  destruct (is_true (inst_of c cfg) cnd x) as [b x1]. destruct (is_true (inst_of c cfg) cnd y) as [b' y1]. cbn [fst snd] in Hb, H2. subst b'.
  destruct b; [split; cbn; auto|now apply IH].
Qed.

Lemma select_loop_R cfg ev : forall order skip selected x y, Rx x y ->
  Rres (select_loop lv c cfg ev order skip selected x) (select_loop lv c cfg ev order skip selected y).
Proof.
  induction order as [|s r IH]; intros skip selected x y H; cbn [select_loop]; [split; cbn; auto|].
  destruct (match skip with
            | Some cur => match fs_parent (st c cur) with Some p => p =? s | None => false end
            | None => false end); [now apply IH|].
  destruct (pick_trans_R cfg ev selected (fs_trans (st c s)) _ _ H) as [Ho H2].
  destruct (pick_trans lv c cfg ev selected (fs_trans (st c s)) x) as [o x1].
  destruct (pick_trans lv c cfg ev selected (fs_trans (st c s)) y) as [o' y1]. cbn [fst snd] in Ho, H2. subst o'.
  destruct o; now apply IH.
Qed.

(* ---- exit, take, enter ---- *)

Lemma exit_fold_R : forall l cfg x y, Rx x y ->
  Rres (fold_left (exit_one xv c) l (cfg, x)) (fold_left (exit_one xv c) l (cfg, y)).
Proof.
  induction l as [|i r IH]; intros cfg x y H; cbn [fold_left]; [split; cbn; auto|].
  unfold exit_one at 2 4. apply IH. apply Rx_emit. apply exec_blocks_R; [apply onexit_named|]. now apply Rx_emit.
Qed.

Lemma take_one_R cfg ti x y : Rx x y -> Rx (take_one xv c cfg x ti) (take_one xv c cfg y ti).
Proof.
  intros H. unfold take_one. destruct (ft_history (tr c ti) || ft_initial (tr c ti)); [exact H|].
  apply Rx_emit. destruct (ft_has_body (tr c ti)); [|now apply Rx_emit].
  apply exec_block_R; [apply tr_named; exact Hnamed|now apply Rx_emit].
Qed.

Lemma take_fold_R cfg : forall ts x y, Rx x y ->
  Rx (fold_left (take_one xv c cfg) ts x) (fold_left (take_one xv c cfg) ts y).
Proof. induction ts as [|t r IH]; intros x y H; cbn [fold_left]; [exact H|]. apply IH. now apply take_one_R. Qed.

Lemma done_walk_R : forall fuel cfg anc x y, Rx x y ->
  Rx (done_walk c fuel cfg anc x) (done_walk c fuel cfg anc y).
Proof.
  induction fuel as [|f IH]; intros cfg anc x y H; cbn [done_walk]; [exact H|].
  destruct anc as [a|]; [|exact H].
  destruct (fs_type (st c a)); try now apply IH.
  destruct (in_final c (n_states c) cfg a); [|exact H].
  apply IH. now apply Rx_raise_int.
Qed.

Definition Ra (a b : enter_acc) : Prop :=
  ea_cfg a = ea_cfg b /\ ea_initd a = ea_initd b /\ ea_tlf a = ea_tlf b /\ Rx (ea_x a) (ea_x b).

Lemma pseudo_trans_fold_R transset cfg1 : forall ts x y, Rx x y ->
  Rx (fold_left (fun x ti =>
                   let t := tr c ti in
                   if (ft_history t || ft_initial t) && mem ti transset then
                     let y1 := emit (TTb (ft_vid t)) x in
                     let y2 := if ft_has_body t then exec_block xv (inst_of c cfg1) (ft_body t) y1 else y1 in
                     emit (TTe (ft_vid t)) y2
                   else x) ts x)
     (fold_left (fun x ti =>
                   let t := tr c ti in
                   if (ft_history t || ft_initial t) && mem ti transset then
                     let y1 := emit (TTb (ft_vid t)) x in
                     let y2 := if ft_has_body t then exec_block xv (inst_of c cfg1) (ft_body t) y1 else y1 in
                     emit (TTe (ft_vid t)) y2
                   else x) ts y).
Proof.
  induction ts as [|ti r IH]; intros x y H; cbn [fold_left]; [exact H|].
  apply IH. cbv zeta.
  destruct ((ft_history (tr c ti) || ft_initial (tr c ti)) && mem ti transset); [|exact H].
  apply Rx_emit. destruct (ft_has_body (tr c ti)); [|now apply Rx_emit].
  apply exec_block_R; [apply tr_named; exact Hnamed|now apply Rx_emit].
Qed.

Lemma enter_one_R transset a b i : Ra a b -> Ra (enter_one xv c transset a i) (enter_one xv c transset b i).
Proof.
  intros (Hc & Hi & Ht & Hx). unfold enter_one.
  destruct (is_pseudo (fs_type (st c i))); [unfold Ra; auto|].
  rewrite <- Hc, <- Hi, <- Ht.
  set (cfg1 := insert_sorted i (ea_cfg a)).
  assert (H1 : Rx (emit (TEb (fs_sid (st c i))) (ea_x a)) (emit (TEb (fs_sid (st c i))) (ea_x b))) by now apply Rx_emit.
  (* data initialisation *)
  assert (Hd : exists initd1 x2 y2,
     (match fs_data (st c i) with
      | [] => (ea_initd a, emit (TEb (fs_sid (st c i))) (ea_x a))
      | ds => if mem i (ea_initd a) then (ea_initd a, emit (TEb (fs_sid (st c i))) (ea_x a))
              else (insert_sorted i (ea_initd a), fold_left (fun x d => init_data d x) ds (emit (TEb (fs_sid (st c i))) (ea_x a)))
      end) = (initd1, x2) /\
     (match fs_data (st c i) with
      | [] => (ea_initd a, emit (TEb (fs_sid (st c i))) (ea_x b))
      | ds => if mem i (ea_initd a) then (ea_initd a, emit (TEb (fs_sid (st c i))) (ea_x b))
              else (insert_sorted i (ea_initd a), fold_left (fun x d => init_data d x) ds (emit (TEb (fs_sid (st c i))) (ea_x b)))
      end) = (initd1, y2) /\ Rx x2 y2).
  { pose proof (data_declared c i) as Hdd.
    destruct (fs_data (st c i)) as [|d0 dr] eqn:Ed.
    - eexists _, _, _. split; [reflexivity|split; [reflexivity|exact H1]].
    - destruct (mem i (ea_initd a)).
      + eexists _, _, _. split; [reflexivity|split; [reflexivity|exact H1]].
      + eexists _, _, _. split; [reflexivity|split; [reflexivity|]].
        apply init_datas_R; [|exact H1]. intros d Hin. apply Hdd. exact Hin. }
  destruct Hd as (initd1 & x2 & y2 & E1 & E2 & H2).
  rewrite E1, E2.
  assert (H3 : Rx (exec_blocks xv (inst_of c cfg1) (fs_onentry (st c i)) x2) (exec_blocks xv (inst_of c cfg1) (fs_onentry (st c i)) y2)).
  { apply exec_blocks_R; [apply onentry_named|exact H2]. }
  assert (H4 := Rx_emit (TEe (fs_sid (st c i))) _ _ H3).
  set (x4 := emit (TEe (fs_sid (st c i))) (exec_blocks xv (inst_of c cfg1) (fs_onentry (st c i)) x2)) in *.
  set (y4 := emit (TEe (fs_sid (st c i))) (exec_blocks xv (inst_of c cfg1) (fs_onentry (st c i)) y2)) in *.
  (* history / initial transitions of pseudo-state children *)
  assert (H5 : forall chs x y, Rx x y ->
     Rx (fold_left (fun x ch =>
            if is_pseudo (fs_type (st c ch)) then
              fold_left (fun x ti =>
                           let t := tr c ti in
                           if (ft_history t || ft_initial t) && mem ti transset then
                             let y1 := emit (TTb (ft_vid t)) x in
                             let y2 := if ft_has_body t then exec_block xv (inst_of c cfg1) (ft_body t) y1 else y1 in
                             emit (TTe (ft_vid t)) y2
                           else x) (fs_trans (st c ch)) x
            else x) chs x)
        (fold_left (fun x ch =>
            if is_pseudo (fs_type (st c ch)) then
              fold_left (fun x ti =>
                           let t := tr c ti in
                           if (ft_history t || ft_initial t) && mem ti transset then
                             let y1 := emit (TTb (ft_vid t)) x in
                             let y2 := if ft_has_body t then exec_block xv (inst_of c cfg1) (ft_body t) y1 else y1 in
                             emit (TTe (ft_vid t)) y2
                           else x) (fs_trans (st c ch)) x
            else x) chs y)).
  { induction chs as [|ch r IH]; intros x y H; cbn [fold_left]; [exact H|].
    apply IH. destruct (is_pseudo (fs_type (st c ch))); [|exact H]. now apply pseudo_trans_fold_R. }
  specialize (H5 (fs_children (st c i)) _ _ H4).
  destruct (fs_type (st c i));
    unfold Ra; cbn [ea_cfg ea_initd ea_tlf ea_x]; refine (conj eq_refl (conj eq_refl (conj eq_refl _))); try exact H5.
  (* final *)
  apply done_walk_R.
  destruct (match fs_parent (st c i) with Some 0 => true | _ => false end); [exact H5|].
  destruct (fs_parent (st c i)); [|exact H5]. now apply Rx_raise_int.
Qed.

Lemma enter_fold_R transset : forall es a b, Ra a b ->
  Ra (fold_left (enter_one xv c transset) es a) (fold_left (enter_one xv c transset) es b).
Proof. induction es as [|i r IH]; intros a b H; cbn [fold_left]; [exact H|]. apply IH. now apply enter_one_R. Qed.

Definition Rlx (p q : lstate * xstate) : Prop := fst p = fst q /\ Rx (snd p) (snd q).

Lemma microstep_R l x y targets exitset transset ini : Rx x y ->
  Rlx (microstep lv xv c l x targets exitset transset ini) (microstep lv xv c l y targets exitset transset ini).
Proof.
  intros H. unfold microstep.
  destruct (entry_set lv c (l_cfg l) exitset (if ini then l_hist l else remember_history c (l_cfg l) exitset (l_hist l)) targets transset) as [es ts].
  destruct (exit_fold_R (rev exitset) (l_cfg l) _ _ H) as [Hc H1].
  destruct (fold_left (exit_one xv c) (rev exitset) (l_cfg l, x)) as [cfg1 x1].
  destruct (fold_left (exit_one xv c) (rev exitset) (l_cfg l, y)) as [cfg1' y1]. cbn [fst snd] in Hc, H1. subst cfg1'.
  pose proof (take_fold_R cfg1 ts _ _ H1) as H2.
  assert (H3 : Ra {| ea_cfg := cfg1; ea_initd := l_initd l; ea_tlf := l_tlf l; ea_x := fold_left (take_one xv c cfg1) ts x1 |}
                  {| ea_cfg := cfg1; ea_initd := l_initd l; ea_tlf := l_tlf l; ea_x := fold_left (take_one xv c cfg1) ts y1 |}).
  { unfold Ra; cbn; auto. }
  destruct (enter_fold_R ts (set_diff es cfg1) _ _ H3) as (E1 & E2 & E3 & H4).
  split; cbn [fst snd].
  - now rewrite E1, E2, E3.
  - now apply Rx_emit.
Qed.

Definition Rstep (p q : lstate * xstate * N) : Prop :=
  fst (fst p) = fst (fst q) /\ snd p = snd q /\ Rx (snd (fst p)) (snd (fst q)).

Lemma select_and_step_R l x y ev : Rx x y ->
  Rstep (select_and_step lv xv c l x ev) (select_and_step lv xv c l y ev).
Proof.
  intros H. unfold select_and_step.
  destruct (select_loop_R (l_cfg (upd_flags l (l_spont l) false)) ev
              (cfg_postfix c (l_cfg (upd_flags l (l_spont l) false))) None [] _ _ H) as [Hs H1].
  destruct (select_loop lv c (l_cfg (upd_flags l (l_spont l) false)) ev (cfg_postfix c (l_cfg (upd_flags l (l_spont l) false))) None [] x) as [sel x1].
  destruct (select_loop lv c (l_cfg (upd_flags l (l_spont l) false)) ev (cfg_postfix c (l_cfg (upd_flags l (l_spont l) false))) None [] y) as [sel' y1].
  cbn [fst snd] in Hs, H1. subst sel'.
  destruct sel as [|s0 sr]; [unfold Rstep, Rlx; rsplit; cbn; auto|].
  match goal with |- context [microstep lv xv c ?l0 (emit TMsB x1) ?tg ?ex ?ts false] =>
    destruct (microstep_R l0 _ _ tg ex ts false (Rx_emit TMsB _ _ H1)) as [E H2];
    destruct (microstep lv xv c l0 (emit TMsB x1) tg ex ts false) as [l1 x2];
    destruct (microstep lv xv c l0 (emit TMsB y1) tg ex ts false) as [l1' y2]
  end.
  cbn [fst snd] in E, H2. subst l1'. unfold Rstep, Rlx; rsplit; cbn; auto.
Qed.

Lemma Rx_queues x y q r : Rx x y -> Forall Pe q ->
  Rx {| x_store := x_store x; x_iq := q; x_eq := r; x_out := x_out x |}
     {| x_store := x_store y; x_iq := q; x_eq := r; x_out := x_out y |}.
Proof. intros [H1 H2 H3 H4 H5] Hq. constructor; cbn; auto. Qed.

(* LargeMicroStep::step respects the relation: same new engine state, same result code, related execution states *)
Theorem large_step_R l x y : Rx x y -> Rstep (large_step lv xv c l x) (large_step lv xv c l y).
Proof.
  intros H. unfold large_step.
  destruct (l_fin l); [unfold Rstep, Rlx; rsplit; cbn; auto|].
  destruct (l_tlf l).
  { unfold Rstep, Rlx; rsplit; cbn [fst snd]; auto. apply Rx_emit.
    assert (Hf : forall is x y, Rx x y ->
              Rx (fold_left (fun x i => exec_blocks xv (inst_of c (l_cfg l)) (fs_onexit (st c i)) x) is x)
                 (fold_left (fun x i => exec_blocks xv (inst_of c (l_cfg l)) (fs_onexit (st c i)) x) is y)).
    { induction is as [|i r IH]; intros x0 y0 H0; cbn [fold_left]; [exact H0|]. apply IH. apply exec_blocks_R; [apply onexit_named|exact H0]. }
    apply Hf. now apply Rx_emit. }
  destruct (is_pristine l).
  { destruct (microstep_R l _ _ (fs_completion (st c 0)) [] [] true (Rx_emit TMsB _ _ H)) as [E H1].
    destruct (microstep lv xv c l (emit TMsB x) (fs_completion (st c 0)) [] [] true) as [l1 x1].
    destruct (microstep lv xv c l (emit TMsB y) (fs_completion (st c 0)) [] [] true) as [l1' y1].
    cbn [fst snd] in E, H1. subst l1'. unfold Rstep, Rlx; rsplit; cbn; auto. }
  destruct (l_spont l); [now apply select_and_step_R|].
  rewrite <- (rx_iq _ _ H).
  pose proof (rx_pe _ _ H) as Hpe.
  destruct (x_iq x) as [|e r] eqn:Eiq.
  - destruct (negb (l_stable l)); [unfold Rstep; rsplit; cbn; auto; now apply Rx_emit|].
    rewrite <- (rx_eq _ _ H).
    destruct (x_eq x) as [|e r] eqn:Eeq.
    + destruct (l_cancelled l); unfold Rstep; rsplit; cbn; auto.
    + destruct (ev_name e) eqn:En.
      * destruct (l_cancelled l); unfold Rstep; rsplit; cbn [fst snd]; auto; now apply Rx_queues.
      * apply select_and_step_R. apply Rx_emit. now apply Rx_queues.
  - destruct (ev_name e) eqn:En; [unfold Rstep; rsplit; cbn; auto|].
    apply select_and_step_R. apply Rx_emit.
    rewrite <- (rx_eq _ _ H). apply Rx_queues; [exact H|]. now inversion Hpe.
Qed.

End Cong.
