(* MicroConformWitness.v -- C01, microstep comparison: the hypotheses of microstep_conforms are satisfiable
   (charts with a <parallel>, <final> states, executable content, late-bound data), and each of the
   hypotheses about the document that is not mere well-formedness marks a real difference between the
   model of LargeMicroStep and Appendix D (witnesses by computation).  Proofs only. *)
From V Require Import Base NameMatch Chart Exec Large LargeLemmas Spec Legal WfCore Interp
  SelectConform SelectConformRoot MicroConform MicroConformFlatten.
Local Open Scope nat_scope.

Definition l_of (cfg initd : list nat) : lstate :=
  {| l_cfg := cfg; l_hist := []; l_initd := initd; l_spont := false; l_init := true; l_tlf := false;
     l_fin := false; l_stable := false; l_cancelled := false |}.
Definition s_of (cfg entered : list nat) : sstate :=
  {| s_cfg := cfg; s_hv := []; s_running := true; s_entered := entered |}.
Definition ev_of (e : N) : option event := Some {| ev_name := [e]; ev_kind := EvExternal |}.

(* the engine's microstep for the transitions it selects itself, and Appendix D's for the same transitions *)
Definition both (c : fchart) (cfg : list nat) (initd entered : list nat) (ev : option event) (x : xstate) :=
  let sel := fst (select_loop lg_fixed c cfg ev (cfg_postfix c cfg) None [] x) in
  (sel,
   microstep lg_fixed ex_fixed c (l_of cfg initd) (emit TMsB x) (sel_targets c sel) (sel_exitset c cfg sel) sel false,
   spec_microstep c sel (s_of (tl cfg) entered) x).

Local Open Scope N_scope.
Definition w_tr (v e : N) (tg : option (list N)) (int : bool) (body : block) : ttrans :=
  {| tt_vid := v; tt_event := Some [e]; tt_cond := None; tt_targets := tg; tt_internal := int; tt_body := body |}.
Definition w_log (v : N) (z : Z) : block := [ILog v (INum z)].
Definition w_if (v sid : N) : block :=
  [IIf v (BIn sid) [FInstr (ILog (v + 1) (INum 1)); FElse; FInstr (ILog (v + 2) (INum 0))]].

(* s1 --101--> {s6, s9}: into two regions of the parallel state s2 (s6 is not a default descendant);
   s2 --102--> f12: out of the parallel state into a top-level final;  s14 --103--> f15: a final child of s13;
   s5 has late-bound data; entry, exit and transition content with <log>, <if cond="In(..)">, <assign> *)
Definition micro_tree : tree :=
  TNode KScxml 0 None [] [] [] []
    [TNode KState 1 None [w_tr 101 101 (Some [6; 9]) false (w_log 201 1)] [w_if 210 1] [w_if 220 1] [] [];
     TNode KParallel 2 None [w_tr 105 102 (Some [12]) false (w_if 205 3)] [w_log 230 2] [w_if 240 3] []
       [TNode KState 3 None [] [w_log 250 3] [w_log 251 3] []
          [TNode KState 4 None [w_tr 102 101 None false (w_log 202 2)] [] [] [] [];
           TNode KState 5 None [w_tr 103 101 (Some [10]) true (w_if 260 6)] [[IAssign 252 7 (IAdd (IVar 7) (INum 1))]] [w_log 253 5] [(7, INum 40)]
             [TNode KState 10 None [] [w_log 254 10] [w_log 255 10] [] []; TNode KState 6 None [] [w_log 256 6] [w_if 270 5] [] []]];
        TNode KState 7 None [] [w_log 257 7] [w_log 258 7] []
          [TNode KState 8 None [] [] [] [] []; TNode KState 9 None [w_tr 104 101 (Some [8]) false (w_log 204 4)] [w_if 280 6] [w_log 259 9] [] []]];
     TNode KState 13 None [] [] [] []
       [TNode KState 14 None [w_tr 106 103 (Some [15]) false []] [] [] [] []; TNode KFinal 15 None [] [w_log 292 15] [] [] []];
     TNode KFinal 12 None [] [w_log 291 12] [] [] []].
Local Open Scope nat_scope.

Definition mc := flatten true micro_tree.

Example micro_tree_hypotheses :
  wf_coreb mc = true /\ fs_type (st mc 0) = FCompound /\ par_nonemptyb mc = true /\ root_unmentionedb mc = true /\
  targets_antichainb mc = true /\ done_okb mc = true /\ root_silentb mc = true /\
  map (fun i => fs_sid (st mc i)) (seq 0 (nstates mc)) = [0; 1; 2; 3; 4; 5; 10; 6; 7; 8; 9; 13; 14; 15; 12]%N.
Proof. vm_compute. repeat split; reflexivity. Qed.

Lemma corr_of c cfg' : fs_data (st c 0) = [] -> corr c (l_of (0 :: cfg') []) (s_of cfg' [0]).
Proof.
  intros H0. split; [reflexivity|]. split; [reflexivity|]. intros i Hi. destruct i as [|i]; [congruence | reflexivity].
Qed.

(* entering two regions of a <parallel>: a non-default descendant with late-bound data in one, default entry
   of the other; the theorem applies and says what this computation shows *)
Example micro_enter_parallel :
  let '(sel, r, q) := both mc [0; 1] [] [0] (ev_of 101%N) x_init in
  legal_configb mc [0; 1] = true /\ sel = [0] /\
  l_cfg (fst r) = [0; 2; 3; 5; 7; 8; 10] /\ s_cfg (fst q) = [2; 3; 5; 7; 8; 10] /\
  l_initd (fst r) = [5] /\ s_entered (fst q) = [0; 2; 3; 5; 7; 8; 10] /\
  x_store (snd r) = [(7%N, 41%Z)] /\
  snd q = emit (spec_cfg_tok mc (fst q)) (snd r) /\ length (x_out (snd r)) = 45.
Proof. vm_compute. repeat split; reflexivity. Qed.

(* two transitions in two regions (one internal), exit and entry content with In() *)
Example micro_two_regions :
  let '(sel, r, q) := both mc [0; 2; 3; 5; 7; 8; 10] [5] [0; 2; 3; 5; 7; 8; 10] (ev_of 101%N) x_init in
  legal_configb mc [0; 2; 3; 5; 7; 8; 10] = true /\ sel = [2; 3] /\
  l_cfg (fst r) = [0; 2; 3; 5; 6; 8; 9] /\ s_cfg (fst q) = [2; 3; 5; 6; 8; 9] /\
  snd q = emit (spec_cfg_tok mc (fst q)) (snd r).
Proof. vm_compute. repeat split; reflexivity. Qed.

(* leaving the <parallel> for a top-level <final>: "top-level final reached" on both sides *)
Example micro_top_level_final :
  let '(sel, r, q) := both mc [0; 2; 3; 5; 7; 8; 10] [5] [0; 2; 3; 5; 7; 8; 10] (ev_of 102%N) x_init in
  sel = [4] /\ l_cfg (fst r) = [0; 14] /\ s_cfg (fst q) = [14] /\ l_tlf (fst r) = true /\ s_running (fst q) = false /\
  snd q = emit (spec_cfg_tok mc (fst q)) (snd r).
Proof. vm_compute. repeat split; reflexivity. Qed.

(* a <final> child of a compound state: done.state.s13 is raised on both sides *)
Example micro_done_event :
  let '(sel, r, q) := both mc [0; 11; 12] [] [0; 11; 12] (ev_of 103%N) x_init in
  legal_configb mc [0; 11; 12] = true /\ sel = [5] /\ l_cfg (fst r) = [0; 11; 13] /\
  map ev_name (x_iq (snd r)) = [s_done_state ++ state_name 13%N] /\
  snd q = emit (spec_cfg_tok mc (fst q)) (snd r).
Proof. vm_compute. repeat split; reflexivity. Qed.

(* the standard use of done.state for a <parallel>: both regions of s1 have a <final> child; when the second
   region reaches its final state done.state.s2 and then done.state.s1 are raised -- on both sides *)
Local Open Scope N_scope.
Definition regions_tree : tree :=
  TNode KScxml 0 None [] [] [] []
    [TNode KParallel 1 None [] [] [] []
       [TNode KState 2 None [] [] [] []
          [TNode KState 3 None [w_tr 101 101 (Some [4]) false []] [] [] [] []; TNode KFinal 4 None [] [w_log 204 4] [] [] []];
        TNode KState 5 None [] [] [] []
          [TNode KFinal 6 None [] [] [] [] []; TNode KState 7 None [] [] [] [] []]]].
Local Open Scope nat_scope.
Definition rc := flatten false regions_tree.

Example micro_parallel_done :
  let '(sel, r, q) := both rc [0; 1; 2; 3; 5; 6] [] [0] (ev_of 101%N) x_init in
  wf_coreb rc = true /\ par_nonemptyb rc = true /\ targets_antichainb rc = true /\ done_okb rc = true /\ root_silentb rc = true /\
  legal_configb rc [0; 1; 2; 3; 5; 6] = true /\ sel = [0] /\ l_cfg (fst r) = [0; 1; 2; 4; 5; 6] /\
  map ev_name (x_iq (snd r)) = [s_done_state ++ state_name 2%N; s_done_state ++ state_name 1%N] /\
  snd q = emit (spec_cfg_tok rc (fst q)) (snd r).
Proof. vm_compute. repeat split; reflexivity. Qed.

(* ------------------------------------------------------------------ outside the hypotheses *)

Local Open Scope N_scope.
(* (1) a target that is a proper ancestor of another target of the same transition: s1 --e--> {s2, s5} with
   s2{ s3 (default) ; s4{ s6 ; s5 } }.  Appendix D enters the default child s3 of the target s2 AND the
   ancestors of s5 (two children of the compound s2 active); the engine enters a default child only where no
   target lies below. *)
Definition target_ancestor_tree : tree :=
  TNode KScxml 0 None [] [] [] []
    [TNode KState 1 None [w_tr 101 101 (Some [2; 5]) false []] [] [] [] [];
     TNode KState 2 None [] [] [] []
       [TNode KState 3 None [] [] [] [] [];
        TNode KState 4 None [] [] [] [] [TNode KState 6 None [] [] [] [] []; TNode KState 5 None [] [] [] [] []]]].

(* (2) a <final> that is a child of a <parallel>: the engine raises done.state.s2 twice *)
Definition final_in_parallel_tree : tree :=
  TNode KScxml 0 None [] [] [] []
    [TNode KState 1 None [w_tr 101 101 (Some [3]) false []] [] [] [] [];
     TNode KParallel 2 None [] [] [] [] [TNode KFinal 3 None [] [] [] [] []]].

(* (3) a <final> three levels below a <parallel> (known deviation class nested-parallel-done): the engine
   raises done.state.s2 for the <parallel>, Appendix D does not *)
Definition nested_final_tree : tree :=
  TNode KScxml 0 None [] [] [] []
    [TNode KParallel 2 None [] [] [] []
       [TNode KState 3 None [] [] [] []
          [TNode KState 4 None [] [] [] []
             [TNode KState 5 None [w_tr 101 101 (Some [6]) false []] [] [] [] []; TNode KFinal 6 None [] [] [] [] []]]]].

(* (4) In(<sid of the root>): the model of the engine has the <scxml> element in its configuration *)
Definition root_in_tree : tree :=
  TNode KScxml 0 None [] [] [] []
    [TNode KState 1 None [w_tr 101 101 (Some [2]) false (w_if 201 0)] [] [] [] [];
     TNode KState 2 None [] [] [] [] []].
Local Open Scope nat_scope.

Lemma microstep_target_ancestor_refuted :
  exists late t0 cfg ev,
    let c := flatten late t0 in
    let '(sel, r, q) := both c cfg [] [0] ev x_init in
    wf_coreb c = true /\ par_nonemptyb c = true /\ targets_antichainb c = false /\ done_okb c = true /\ root_silentb c = true /\
    legal_configb c cfg = true /\ l_cfg (fst r) <> 0 :: s_cfg (fst q) /\ legal_configb c (0 :: s_cfg (fst q)) = false.
Proof. exists false, target_ancestor_tree, [0; 1], (ev_of 101%N). vm_compute. repeat split; discriminate. Qed.

Lemma microstep_final_in_parallel_refuted :
  exists late t0 cfg ev,
    let c := flatten late t0 in
    let '(sel, r, q) := both c cfg [] [0] ev x_init in
    wf_coreb c = true /\ par_nonemptyb c = true /\ targets_antichainb c = true /\ done_okb c = false /\ root_silentb c = true /\
    legal_configb c cfg = true /\ l_cfg (fst r) = 0 :: s_cfg (fst q) /\
    length (x_iq (snd r)) = 2 /\ length (x_iq (snd q)) = 1.
Proof. exists false, final_in_parallel_tree, [0; 1], (ev_of 101%N). vm_compute. repeat split; discriminate. Qed.

Lemma microstep_nested_parallel_done_refuted :
  exists late t0 cfg ev,
    let c := flatten late t0 in
    let '(sel, r, q) := both c cfg [] [0] ev x_init in
    wf_coreb c = true /\ par_nonemptyb c = true /\ targets_antichainb c = true /\ done_okb c = false /\ root_silentb c = true /\
    legal_configb c cfg = true /\ l_cfg (fst r) = 0 :: s_cfg (fst q) /\
    length (x_iq (snd r)) = 2 /\ length (x_iq (snd q)) = 1.
Proof. exists false, nested_final_tree, [0; 1; 2; 3; 4], (ev_of 101%N). vm_compute. repeat split; discriminate. Qed.

Lemma microstep_root_in_refuted :
  exists late t0 cfg ev,
    let c := flatten late t0 in
    let '(sel, r, q) := both c cfg [] [0] ev x_init in
    wf_coreb c = true /\ par_nonemptyb c = true /\ targets_antichainb c = true /\ done_okb c = true /\ root_silentb c = false /\
    legal_configb c cfg = true /\ l_cfg (fst r) = 0 :: s_cfg (fst q) /\
    snd q <> emit (spec_cfg_tok c (fst q)) (snd r).
Proof. exists false, root_in_tree, [0; 1], (ev_of 101%N). vm_compute. repeat split; discriminate. Qed.

(* the theorem applies to the first example: all its hypotheses hold together *)
Example micro_theorem_applies :
  let sel := fst (select_loop lg_fixed mc [0; 1] (ev_of 101%N) (cfg_postfix mc [0; 1]) None [] x_init) in
  let r := microstep lg_fixed ex_fixed mc (l_of [0; 1] []) (emit TMsB x_init) (sel_targets mc sel) (sel_exitset mc [0; 1] sel) sel false in
  let q := spec_microstep mc sel (s_of [1] [0]) x_init in
  corr mc (fst r) (fst q) /\ snd q = emit (spec_cfg_tok mc (fst q)) (snd r) /\ s_hv (fst q) = [].
Proof.
  apply (microstep_selected_conforms_lemma true micro_tree (l_of [0; 1] []) (s_of [1] [0]) (ev_of 101%N) x_init x_init);
    try (vm_compute; reflexivity).
  apply corr_of. vm_compute. reflexivity.
Qed.
