(* LegalHistParFastRun.v -- C02 for the model Fast.v of FastMicroStep::step on charts of WFHP (a <history> may sit
   directly below a <parallel>): every state of every run has a legal configuration over the tree of proper
   states (CfgOKH), for every chart of wf_histpb.  The lemmas of LegalHistFastRun.v that do not depend on the
   well-formedness record are reused. *)
From V Require Import Base NameMatch Chart Exec Large Fast LargeLemmas Interp Legal SetLemmas LegalAbstract LegalLarge LegalRun
     WfCore LegalOracle LegalHistBase LegalHistEntry LegalHistStep LegalHistRun LegalHistWf LegalHistOracle LegalHistFast LegalHistFastRun
     LegalHistParBase LegalHistParEntry LegalHistParStep LegalHistParRun LegalHistParWf LegalHistParFast.
Local Open Scope nat_scope.

(* the reach of the fast-engine theorems: the same charts as for the large engine (the name is kept for the
   extracted checker command) *)
Section FPRun.
Variable c : fchart.
Variable xv : ex_variant.
Hypothesis W : WFHP c.
Hypothesis root_compound : fs_type (st c 0) = FCompound.

Let n := nstates c.
Let par (i : nat) := fs_parent (st c i).
Let kd (i : nat) := fs_type (st c i).
Let cpl (i : nat) := fs_completion (st c i).
Notation Anc := (Anc par).
Notation pseudo := (pseudoS c).

(* ------------------------------------------------------------------ REMEMBER_HISTORY of the fast engine *)


Theorem fremember_HistOK_p cfg exitset :
  LegalH c (fun x => In x cfg) -> (forall x, In x cfg -> pseudo x = false) -> (forall x, In x exitset -> In x cfg) ->
  forall hist, HistOK c hist -> HistOK c (fremember c cfg exitset hist).
Proof.
  intros HL HP HE hist HH. rewrite fremember_unfold.
  exact (remember_HistOK_gen_p c W cfg exitset (frec_one c cfg exitset) (frec_one_spec c cfg exitset) HL HP HE hist HH).
Qed.

(* ------------------------------------------------------------------ entering *)

Notation fhist_after := (fhist_after c).

(* ------------------------------------------------------------------ selection *)

(* ------------------------------------------------------------------ one step *)

Lemma fexit_dom_p cfg sel :
  LegalH c (fun x => In x cfg) -> (forall x, In x cfg -> x < n) -> (forall x, In x cfg -> pseudo x = false) ->
  (forall ti, In ti sel -> In (ft_source (tr c ti)) cfg) ->
  forall x, In x (LegalLarge.exitset c cfg sel) ->
  exists d, In d (HE0 c (LegalLarge.targets c sel)) /\ pseudo d = false /\ Anc d x /\
            forall y, In y cfg -> Anc d y -> In y (LegalLarge.exitset c cfg sel).
Proof.
  intros HL HBn HBp Hsrc x Hx.
  apply (hIn_exitset_p c W cfg sel HL HBn HBp Hsrc) in Hx as [Hxc (d & HD & Hdx)].
  destruct (HDm_facts_p c W cfg sel HL HBn HBp Hsrc d HD) as (Hdc & _).
  exists d. split; [|split; [now apply HBp | split; [exact Hdx|]]].
  - destruct HD as (ti & Hti & Hd). apply (In_HE0_p c W).
    destruct (hdomain_spec_p c W ti d (HBn _ (Hsrc ti Hti)) Hd) as (Hne & _ & Htg & _).
    destruct (ft_targets (tr c ti)) as [|g gs] eqn:E; [congruence|].
    exists g. split; [apply hIn_targets; exists ti; rewrite E; cbn; tauto|]. right. apply Htg. now left.
  - intros y Hy Hdy. apply (hIn_exitset_p c W cfg sel HL HBn HBp Hsrc). split; [exact Hy|]. exists d. tauto.
Qed.

Lemma fselect_and_step_legal_p l x ev : StOK c l -> StOK c (fst (fst (fselect_and_step xv c l x ev))).
Proof.
  intros [[HL HB] HH]. unfold fselect_and_step. cbn zeta.
  change (l_cfg (upd_flags l (l_spont l) false)) with (l_cfg l).
  pose proof (fselect_ok c (l_cfg l) ev (seq 0 (ntrans c)) [] x (nil_pairwise lg_fixed c) (fun ti (H : In ti []) => match H with end)) as [Hok Hsrc].
  destruct (fselect c (l_cfg l) ev (seq 0 (ntrans c)) [] x) as [sel x1] eqn:E. cbn [fst] in Hok, Hsrc.
  destruct sel as [|t r] eqn:Esel; [cbn [fst]; split; [split|]; assumption|]. rewrite <- Esel in *.
  assert (HBn : forall y, In y (l_cfg l) -> y < n) by (intros y Hy; now destruct (HB y Hy)).
  assert (HBp : forall y, In y (l_cfg l) -> pseudo y = false) by (intros y Hy; now destruct (HB y Hy)).
  set (l0 := upd_flags l (l_spont l) false).
  set (tg := fold_left (fun a ti => set_union a (ft_targets (tr c ti))) sel []).
  set (ex := fold_left (fun a ti => set_union a (exit_states_of lg_fixed c (l_cfg l) (tr c ti))) sel []).
  assert (Hex : forall y, In y ex -> In y (l_cfg l)).
  { intros y Hy. exact (proj1 (proj1 (hIn_exitset_p c W (l_cfg l) sel HL HBn HBp Hsrc y) Hy)). }
  assert (HH' : HistOK c (fhist_after l0 ex false)).
  { unfold fhist_after. change (l_cfg l0) with (l_cfg l). change (l_hist l0) with (l_hist l).
    exact (fremember_HistOK_p (l_cfg l) ex HL HBp Hex (l_hist l) HH). }
  pose proof (fun y => fmicrostep_cfg c xv l0 (emit TMsB x1) tg ex sel false y) as Hm.
  pose proof (fmicrostep_hist c xv l0 (emit TMsB x1) tg ex sel false) as Hh.
  destruct (fmicrostep xv c l0 (emit TMsB x1) tg ex sel false) as [l1 x2].
  cbn [fst snd] in *. change (l_cfg l0) with (l_cfg l) in Hm.
  assert (HF : HInvP c (l_cfg l) ex tg (QE5 c (l_cfg l) sel) n (FEfin c (l_cfg l) ex (fhist_after l0 ex false) tg sel)).
  { apply (FInv_fin_p c W (l_cfg l) ex (fhist_after l0 ex false) tg sel).
    - exact (htargets_bound_p c W sel).
    - exact HH'.
    - exact (HE0_uniq_step_p c W (l_cfg l) sel HL HBn HBp Hsrc Hok).
    - exact (HE0_par_step c W (l_cfg l) sel HL HBn HBp Hsrc Hok).
    - exact (HE0_par2_step c W (l_cfg l) sel HL HBn HBp Hsrc Hok).
    - exact (QE5_0_p c W (l_cfg l) sel HL HBn HBp Hsrc Hok).
    - exact (QE5_par_p c W (l_cfg l) sel HL HBn HBp Hsrc).
    - exact (QE5_comp_p c W (l_cfg l) sel HL HBn HBp Hsrc).
    - exact (QE5_pseudo c (l_cfg l) sel HBp).
    - exact HBn.
    - intros y p Hy Hp. exact (hcfg_parent c (l_cfg l) HL HBp y p Hy Hp).
    - exact Hex.
    - exact (fexit_dom_p (l_cfg l) sel HL HBn HBp Hsrc). }
  pose proof (sets_legal_of_inv_p c W (l_cfg l) sel HL HBn HBp Hsrc _ HF) as HR.
  split; [split|].
  - exact (legal_ext c _ _ Hm HR).
  - intros y Hy. apply Hm in Hy as [[Hy _]|[Hy Hp]]; [now apply HB|]. split; [|exact Hp].
    exact (hip_bound _ _ _ _ _ _ _ HF y Hy).
  - rewrite Hh. exact HH'.
Qed.

Lemma finitial_step_legal_p l x : l_cfg l = [] -> HistOK c (l_hist l) ->
  StOK c (fst (fmicrostep xv c l x (fs_completion (st c 0)) [] [] true)).
Proof.
  intros Hnil HH.
  pose proof (fun y => fmicrostep_cfg c xv l x (fs_completion (st c 0)) [] [] true y) as Hm.
  pose proof (fmicrostep_hist c xv l x (fs_completion (st c 0)) [] [] true) as Hh.
  destruct (fmicrostep xv c l x (fs_completion (st c 0)) [] [] true) as [l1 x1].
  cbn [fst] in *. rewrite Hnil in Hm. unfold fhist_after in *.
  assert (HI : HInvP c [] [] (fs_completion (st c 0)) QT n (FEfin c [] [] (l_hist l) (fs_completion (st c 0)) [])).
  { apply (FInv_fin_p c W [] [] (l_hist l) (fs_completion (st c 0)) []); unfold QT; auto.
    - exact (hinit_tg_bound_p c W root_compound).
    - exact (hinit_E0_uniq_p c W root_compound).
    - exact (hinit_E0_par c W root_compound).
    - exact (hinit_E0_par2 c W root_compound).
    - intros y [].
    - intros y p [].
    - intros y []. }
  pose proof (init_legal_of_inv_p c W root_compound _ HI) as HR.
  assert (Heq : forall y, In y (l_cfg l1) <-> (In y (FEfin c [] [] (l_hist l) (fs_completion (st c 0)) []) /\ pseudo y = false)).
  { intros y. rewrite Hm. cbn [In]. tauto. }
  split; [split|].
  - exact (legal_ext c _ _ Heq HR).
  - intros y Hy. apply Heq in Hy as [Hy Hp]. split; [|exact Hp]. exact (hip_bound _ _ _ _ _ _ _ HI y Hy).
  - rewrite Hh. exact HH.
Qed.

Theorem fast_step_legal_h_p l x : CfgOKH c l -> CfgOKH c (fst (fst (fast_step xv c l x))).
Proof.
  intros HOK. unfold fast_step.
  destruct (l_fin l) eqn:Hfin; [exact HOK|].
  destruct (l_tlf l) eqn:Htlf.
  { cbn [fst]. destruct HOK as [[Hp _]|H]; [|right; exact H].
    unfold is_pristine in Hp. rewrite Htlf in Hp. rewrite !orb_true_r in Hp. discriminate. }
  destruct (is_pristine l) eqn:Hpr.
  { destruct HOK as [(_ & Hnil & HH)|[Hi _]]; [|rewrite (init_not_pristine l Hi) in Hpr; discriminate].
    right. pose proof (finitial_step_legal_p l (emit TMsB x) Hnil HH) as H.
    pose proof (fmicrostep_init c xv l (emit TMsB x) (fs_completion (st c 0)) [] [] true) as Hi.
    destruct (fmicrostep xv c l (emit TMsB x) (fs_completion (st c 0)) [] [] true) as [l1 x1].
    cbn [fst] in *. split; assumption. }
  destruct HOK as [[Hp _]|[Hi HL]]; [congruence|].
  assert (Hsel : forall y ev, CfgOKH c (fst (fst (fselect_and_step xv c l y ev)))).
  { intros y ev. right. split; [now apply (fselect_and_step_init c xv) | now apply fselect_and_step_legal_p]. }
  destruct (l_spont l); [apply Hsel|].
  destruct (x_iq x) as [|e r].
  - destruct (l_stable l); cbn [negb].
    + destruct (x_eq x) as [|e r].
      * destruct (l_cancelled l); cbn [fst]; right; tauto.
      * destruct (ev_name e); [destruct (l_cancelled l); cbn [fst]; right; tauto | apply Hsel].
    + cbn [fst]. right. tauto.
  - destruct (ev_name e); [cbn [fst]; right; tauto | apply Hsel].
Qed.

Theorem fast_run_states_legal_h_p fuel : forall l x evs, CfgOKH c l ->
  CfgOKH c (fst (run_loop c lstate (fast_step xv c) l_cfg fuel l x evs)).
Proof.
  induction fuel as [|f IH]; intros l x evs HOK; cbn [run_loop]; [exact HOK|].
  pose proof (fast_step_legal_h_p l x HOK) as H1.
  destruct (fast_step xv c l x) as [[l1 x1] rc]. cbn [fst] in H1.
  destruct (N.eqb rc RC_FINISHED); [exact H1|].
  destruct (N.eqb rc RC_IDLE); [|now apply IH].
  destruct evs as [|e r]; [exact H1 | now apply IH].
Qed.

End FPRun.
