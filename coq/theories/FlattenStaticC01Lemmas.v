(* FlattenStaticC01Lemmas.v -- C01's static conditions from the document:
     c01i_tree_static : c01i_treeb t = true -> static_ib (flatten late t) = true
   (RunConformInitialStep.static_ib, the hypothesis of run_conforms_initial and its companions), so that the
   run-level conformance theorems for documents with <initial> elements and deep / multiple initial attributes can
   be stated with a predicate on the document only.  Generalises FlattenWfSideLemmas.v (history-free core, no
   pseudo-states) to trees with <initial> elements through the general row lemmas of ValidateBridgeRows.v.
   Proofs only. *)
From V Require Import Base NameMatch Chart Exec Large LargeLemmas Spec Legal SetLemmas Tables TreeLemmas LargeCacheLemmas WfCore
     SelectConform SelectConformRoot MicroConform Serialize LegalHistWf
     FlattenWf FlattenWfTree FlattenWfStruct FlattenWfKinds FlattenWfLemmas FlattenWfSide FlattenWfSideLemmas
     ValidateBridge ValidateBridgeRows ValidateBridgeFlat ValidateBridgePos ValidateBridgePseudo ValidateBridgeResort
     RunConformStep RunConformInitialWf RunConformInitialFlat RunConformInitialStep
     FlattenStaticTree FlattenStaticHist FlattenStaticMain FlattenStaticC01.
Local Open Scope nat_scope.

(* ------------------------------------------------------------------ the predicates survive resortStates *)

Lemma resort_onentry u : t_onentry (resort u) = t_onentry u. Proof. destruct u; reflexivity. Qed.
Lemma resort_onexit u : t_onexit (resort u) = t_onexit u. Proof. destruct u; reflexivity. Qed.

Lemma hits_resort l k : hits l (resort k) = hits l k.
Proof.
  unfold hits. apply eq_true_iff_eq. rewrite !existsb_exists. split; intros (s & Hs & Hm); exists s; (split; [exact Hs|]);
    apply memN_In; apply memN_In in Hm; now apply sids_resort_in.
Qed.

Lemma antichain_okb_resort t l : antichain_okb t l = true -> antichain_okb (resort t) l = true.
Proof.
  unfold antichain_okb. rewrite !forallb_forall. intros H u Hu. apply in_resort_subtrees in Hu as (u0 & Hu0 & ->).
  rewrite resort_sid. specialize (H u0 Hu0). destruct (memN (t_sid u0) l); [|reflexivity].
  rewrite forallb_forall in H. apply forallb_forall. intros k Hk. apply in_resort_kids in Hk as (k0 & Hk0 & ->).
  rewrite hits_resort. now apply H.
Qed.

Lemma is_final_node_resort x : is_final_node (resort x) = is_final_node x.
Proof. unfold is_final_node. now rewrite resort_kind. Qed.

Lemma done_okb_resort t : ct_done_okb t = true -> ct_done_okb (resort t) = true.
Proof.
  unfold ct_done_okb. rewrite !forallb_forall. intros H v Hv. apply in_resort_subtrees in Hv as (v0 & Hv0 & ->).
  rewrite resort_kind. specialize (H v0 Hv0). destruct (t_kind v0); try reflexivity.
  rewrite forallb_forall in H. apply forallb_forall. intros x Hx. apply in_resort_kids in Hx as (x0 & Hx0 & ->).
  specialize (H x0 Hx0). apply andb_true_iff in H as [H1 H2]. rewrite is_final_node_resort, H1. cbn [andb].
  rewrite forallb_forall in H2. apply forallb_forall. intros y Hy. apply in_resort_kids in Hy as (y0 & Hy0 & ->).
  specialize (H2 y0 Hy0). rewrite forallb_forall in H2. apply forallb_forall. intros z Hz. apply in_resort_kids in Hz as (z0 & Hz0 & ->).
  specialize (H2 z0 Hz0). rewrite forallb_forall in H2. apply forallb_forall. intros f Hf. apply in_resort_subtrees in Hf as (f0 & Hf0 & ->).
  rewrite is_final_node_resort. now apply H2.
Qed.

Lemma forallb_properb_shape (A : nat -> bool) (pr : nat -> bool) l : forallb pr l = true ->
  match l with [] => forallb pr [] | [x] => A x || pr x | x :: y :: r => forallb pr (x :: y :: r) end = true.
Proof.
  intros H. destruct l as [|x [|y r]]; [reflexivity | | exact H]. cbn [forallb] in H. rewrite andb_true_r in H. rewrite H. apply orb_true_r.
Qed.

(* ------------------------------------------------------------------ the rows *)

Section C01.
Variable late : bool.
Variable t0 : tree.
Hypothesis HT : hist_treeb t0 = true.
Local Notation root := (resort t0).
Local Notation c := (flatten late t0).
Local Notation n := (tsize (resort t0)).
Local Notation nodes := (nodes_of (resort t0)).
Local Notation ids := (fl_ids t0).
Let FH : FlatHyp root := hist_tree_flat_hyp t0 HT.
Let V := fh_v root FH.
Let U := fh_u root FH.

Lemma ck_node i : i < n -> exists u0, In u0 (subtrees t0) /\ ntree nodes i = resort u0.
Proof. intros Hi. apply in_resort_subtrees. now apply ntree_in. Qed.

Lemma ck_root_sid : fs_sid (st c 0) = t_sid t0.
Proof.
  destruct (fl_blocks late t0 0 (tsize_pos root)) as (_ & _ & E). rewrite E, (f_root_node t0). apply resort_sid.
Qed.

Lemma ck_proper g : g < n -> tprop (ntree nodes g) = true -> properb c g = true.
Proof.
  intros Hg Pg. unfold properb. rewrite (f_kd late t0 g Hg), type_pseudo. rewrite tprop_pseudo in Pg. exact Pg.
Qed.

Lemma ck_kind_type i : i < n ->
  (fs_type (st c i) = FFinal <-> t_kind (ntree nodes i) = KFinal) /\
  (fs_type (st c i) = FParallel <-> t_kind (ntree nodes i) = KParallel).
Proof.
  intros Hi. rewrite (f_kd late t0 i Hi). pose proof (type_of_kind (ntree nodes i)) as T.
  destruct (t_kind (ntree nodes i)); rewrite T; try (destruct (has_proper_child (ntree nodes i)));
    split; split; intros E; try discriminate; reflexivity.
Qed.

(* ---- wf_initb *)
Lemma ck_no_hist : ct_no_histb t0 = true -> no_histb c = true.
Proof.
  intros P. unfold no_histb. rewrite (g_nstates late t0). apply fseq. intros i Hi.
  rewrite (f_kd late t0 i Hi), type_hist. destruct (ck_node i Hi) as (u0 & Hu0 & ->). rewrite resort_kind.
  unfold ct_no_histb in P. rewrite forallb_forall in P. now apply P.
Qed.

(* ---- root_unmentionedb, root_silentb, chart_named, root_onexit_emptyb *)
Lemma ck_tr ti : ti < ntrans c ->
  exists u0 x, In u0 (subtrees t0) /\ In x (t_trans u0) /\
    ft_cond (tr c ti) = tt_cond x /\ ft_body (tr c ti) = tt_body x /\
    ft_targets (tr c ti) = match tt_targets x with Some l => filter_map (nat_of_sid ids) l | None => [] end.
Proof.
  intros Hti. destruct (g_tr late t0 ti Hti) as (k & x & Hk & Hx & E). destruct (ck_node k Hk) as (u0 & Hu0 & Eu).
  rewrite Eu, resort_trans in Hx. exists u0, x. rewrite E. cbn [mk_trans ft_cond ft_body ft_targets]. auto.
Qed.

Lemma ck_root_unmentioned : ct_root_unmentionedb t0 = true -> root_unmentionedb c = true.
Proof.
  intros P. unfold root_unmentionedb. apply fseq. intros ti Hti.
  destruct (ck_tr ti Hti) as (u0 & x & Hu0 & Hx & Ec & _). rewrite Ec, ck_root_sid.
  unfold ct_root_unmentionedb in P. rewrite forallb_forall in P. specialize (P u0 Hu0). rewrite forallb_forall in P. exact (P x Hx).
Qed.

Lemma ck_root_silent : ct_root_silentb t0 = true -> root_silentb c = true.
Proof.
  intros P. unfold ct_root_silentb in P. rewrite forallb_forall in P.
  unfold root_silentb. rewrite ck_root_sid. apply andb_true_iff. split.
  - rewrite (g_nstates late t0). apply fseq. intros i Hi.
    destruct (fl_blocks late t0 i Hi) as (E1 & E2 & _). rewrite E1, E2.
    destruct (ck_node i Hi) as (u0 & Hu0 & ->). rewrite resort_onentry, resort_onexit.
    specialize (P u0 Hu0). apply andb_true_iff in P as [P _]. apply andb_true_iff in P as [P1 P2].
    rewrite P2, andb_true_r. destruct i; [reflexivity | exact P1].
  - apply fseq. intros ti Hti. destruct (ck_tr ti Hti) as (u0 & x & Hu0 & Hx & _ & Eb & _). rewrite Eb.
    specialize (P u0 Hu0). apply andb_true_iff in P as [_ P]. rewrite forallb_forall in P. exact (P x Hx).
Qed.

Lemma ck_named : ct_namedb t0 = true -> chart_named c = true.
Proof.
  intros P. unfold ct_namedb in P. rewrite forallb_forall in P. unfold chart_named. apply andb_true_iff. split.
  - apply forallb_forall. intros s Hs. destruct (In_nth _ _ dummy_state Hs) as (i & Hi & <-).
    change (nth i (fc_states c) dummy_state) with (st c i). change (length (fc_states c)) with (nstates c) in Hi.
    rewrite (g_nstates late t0) in Hi. unfold state_named.
    destruct (fl_blocks late t0 i Hi) as (E1 & E2 & _). rewrite E1, E2.
    destruct (ck_node i Hi) as (u0 & Hu0 & ->). rewrite resort_onentry, resort_onexit.
    specialize (P u0 Hu0). apply andb_true_iff in P as [P _]. apply andb_true_iff in P as [P1 P2].
    rewrite P2, andb_true_r. destruct i; [reflexivity | exact P1].
  - apply forallb_forall. intros x Hx. destruct (In_nth _ _ dummy_trans Hx) as (ti & Hti & <-).
    change (nth ti (fc_trans c) dummy_trans) with (tr c ti). change (length (fc_trans c)) with (ntrans c) in Hti.
    destruct (ck_tr ti Hti) as (u0 & y & Hu0 & Hy & _ & Eb & _). rewrite Eb.
    specialize (P u0 Hu0). apply andb_true_iff in P as [_ P]. rewrite forallb_forall in P. exact (P y Hy).
Qed.

Lemma ck_root_onexit : ct_root_onexit_emptyb t0 = true -> root_onexit_emptyb c = true.
Proof.
  intros P. unfold root_onexit_emptyb. destruct (fl_blocks late t0 0 (tsize_pos root)) as (_ & E & _).
  rewrite E, (f_root_node t0), resort_onexit. exact P.
Qed.

(* ---- antichains of resolved ids *)
Lemma ck_antichain l : antichain_okb t0 l = true ->
  forall s1 s2 g1 g2, In s1 l -> In s2 l -> nat_of_sid ids s1 = Some g1 -> nat_of_sid ids s2 = Some g2 ->
    mem g1 (fs_ancestors (st c g2)) = false.
Proof.
  intros P0 s1 s2 g1 g2 Hs1 Hs2 Hr1 Hr2. pose proof (antichain_okb_resort t0 l P0) as P.
  unfold antichain_okb in P. rewrite forallb_forall in P.
  destruct (g_resolve_some t0 s1 g1 Hr1) as [Hn1 Hsid1]. destruct (g_resolve_some t0 s2 g2 Hr2) as [Hn2 Hsid2].
  destruct (mem g1 (fs_ancestors (st c g2))) eqn:Em; [|reflexivity]. exfalso.
  apply (g_anc late t0 g1 g2 Hn1 Hn2) in Em.
  specialize (P _ (f_in t0 g1 Hn1)). rewrite Hsid1 in P.
  rewrite (proj2 (memN_In s1 l) Hs1) in P. rewrite forallb_forall in P.
  destruct (g_below t0 g1 g2 Hn1 Em) as (j & kid & Hj & Hb). cbn zeta in Hb.
  destruct (g_kid late t0 g1 j kid Hn1 Hj) as (Hbn & Hnb & _). cbn zeta in Hbn, Hnb.
  specialize (P kid (nth_error_In _ _ Hj)). apply negb_true_iff in P.
  assert (Hh : hits l kid = true).
  { unfold hits. apply existsb_exists. exists s2. split; [exact Hs2|]. apply memN_In. unfold sids. rewrite <- Hsid2.
    apply in_map. rewrite <- Hnb. apply (g_in_block t0 _ g2 Hbn). rewrite Hnb. exact Hb. }
  congruence.
Qed.

Lemma ck_targets_antichain : ct_targets_antichainb t0 = true -> targets_antichainb c = true.
Proof.
  intros P. unfold targets_antichainb. apply fseq. intros ti Hti.
  destruct (ck_tr ti Hti) as (u0 & x & Hu0 & Hx & _ & _ & Etg). rewrite Etg.
  destruct (tt_targets x) as [l|] eqn:El; [|reflexivity].
  unfold ct_targets_antichainb in P. rewrite forallb_forall in P. specialize (P u0 Hu0).
  rewrite forallb_forall in P. specialize (P x Hx). rewrite El in P.
  apply forallb_forall. intros g1 Hg1. apply forallb_forall. intros g2 Hg2.
  apply In_filter_map in Hg1 as (s1 & Hs1 & Hr1). apply In_filter_map in Hg2 as (s2 & Hs2 & Hr2).
  apply negb_true_iff. exact (ck_antichain l P s1 s2 g1 g2 Hs1 Hs2 Hr1 Hr2).
Qed.

(* ---- targets_properb *)
Lemma ck_targets_proper : ct_targets_properb t0 = true -> targets_properb c = true.
Proof.
  intros P. unfold targets_properb. apply fseq. intros ti Hti.
  destruct (ck_tr ti Hti) as (u0 & x & Hu0 & Hx & _ & _ & Etg). rewrite Etg.
  destruct (tt_targets x) as [l|] eqn:El; [|reflexivity].
  unfold ct_targets_properb in P. rewrite forallb_forall in P. specialize (P u0 Hu0).
  rewrite forallb_forall in P. specialize (P x Hx). rewrite El in P.
  apply forallb_forall. intros g Hg. apply In_filter_map in Hg as (s & Hs & Hr).
  assert (Hin : In s (map t_sid (filter tprop (tbelow (ntree nodes 0))))).
  { rewrite (f_root_node t0). apply psids_below_resort. exact (ids_inb_spec _ _ P s Hs). }
  destruct (g_resolve_below t0 U tprop 0 s (tsize_pos root) Hin) as (g' & Hr' & _ & Hgn & Pg & _).
  rewrite Hr in Hr'. inversion Hr'; subst g'. now apply ck_proper.
Qed.

(* ---- the completion of a compound state *)
Definition init_child (i x : nat) : Prop :=
  x < n /\ t_kind (ntree nodes x) = KInitial /\ fs_parent (st c x) = Some i /\ In (ntree nodes x) (t_kids (ntree nodes i)).

Lemma ck_completion_cases i : i < n -> fs_type (st c i) = FCompound ->
  let u := ntree nodes i in
  (exists l, t_initattr u = Some l /\ fs_completion (st c i) = set_of_list (filter_map (nat_of_sid ids) l)) \/
  (t_initattr u = None /\ exists b, fs_completion (st c i) = [b] /\ (init_child i b \/ (b < n /\ tprop (ntree nodes b) = true))).
Proof.
  intros Hi Ety u. rewrite (f_kd late t0 i Hi) in Ety. fold u in Ety.
  destruct (type_compound u Ety) as [Hk Hpc]. rewrite (f_completion late t0 i Hi). fold u.
  assert (Hcomp : completion_of (doc_nodes root 0 None) ids i u (npar nodes i) (child_indices (t_kids u) (S i)) =
            match t_initattr u with
            | Some l => set_of_list (filter_map (nat_of_sid ids) l)
            | None =>
              match find (fun p : tree * nat => match t_kind (fst p) with KInitial => true | _ => false end)
                         (combine (t_kids u) (child_indices (t_kids u) (S i))) with
              | Some p => [snd p]
              | None => match find (fun p : tree * nat => is_proper_kind (t_kind (fst p)))
                                   (combine (t_kids u) (child_indices (t_kids u) (S i))) with
                        | Some p => [snd p] | None => [] end
              end
            end).
  { unfold completion_of. destruct Hk as [-> | ->]; reflexivity. }
  rewrite Hcomp. destruct (t_initattr u) as [l|] eqn:El; [left; exists l; auto|]. right. split; [reflexivity|].
  assert (Hrow : forall p, In p (combine (t_kids u) (child_indices (t_kids u) (S i))) ->
            snd p < n /\ ntree nodes (snd p) = fst p /\ fs_parent (st c (snd p)) = Some i /\ In (fst p) (t_kids u)).
  { intros p Hp. destruct (in_combine_child_indices _ _ _ Hp) as (j & Hj & Ep).
    destruct (g_kid late t0 i j (fst p) Hi Hj) as (Hb & Hnb & Hpb & _). cbn zeta in Hb, Hnb, Hpb. fold u in Hb, Hnb, Hpb.
    rewrite <- Ep in Hb, Hnb, Hpb. repeat split; try assumption. eapply nth_error_In; exact Hj. }
  destruct (find _ _) as [p|] eqn:Ef.
  - apply find_some in Ef as [Hp Hkp]. destruct (Hrow p Hp) as (A & B & C & D). exists (snd p). split; [reflexivity|]. left.
    unfold init_child. rewrite B. repeat split; try assumption. destruct (t_kind (fst p)); try discriminate; reflexivity.
  - destruct (find (fun p : tree * nat => is_proper_kind (t_kind (fst p))) _) as [p|] eqn:Ef2.
    + apply find_some in Ef2 as [Hp Hkp]. destruct (Hrow p Hp) as (A & B & _). exists (snd p). split; [reflexivity|]. right.
      split; [exact A|]. rewrite B. exact Hkp.
    + exfalso. unfold has_proper_child in Hpc. apply existsb_exists in Hpc as (k & Hk' & Pk).
      destruct (combine_child_indices_all (t_kids u) (S i) k Hk') as [b Hb].
      pose proof (List.find_none _ _ Ef2 _ Hb) as E. cbn [fst] in E. congruence.
Qed.

Lemma ck_init_child_type i x : init_child i x -> is_initial_t (fs_type (st c x)) && opt_eqb (fs_parent (st c x)) i = true.
Proof.
  intros (Hx & Hk & Hp & _). rewrite (f_kd late t0 x Hx), Hp. pose proof (type_of_kind (ntree nodes x)) as T. rewrite Hk in T.
  rewrite T. cbn [is_initial_t opt_eqb andb]. apply Nat.eqb_refl.
Qed.

Lemma ck_compound_node i : i < n -> fs_type (st c i) = FCompound ->
  exists u0, In u0 (subtrees t0) /\ ntree nodes i = resort u0 /\ compound_node u0 = true.
Proof.
  intros Hi Ety. destruct (ck_node i Hi) as (u0 & Hu0 & Eu). exists u0. split; [exact Hu0|]. split; [exact Eu|].
  rewrite (f_kd late t0 i Hi), Eu in Ety. rewrite <- compound_node_resort. now apply compound_of_type.
Qed.

Lemma ck_cpl_ok : ct_initattr_properb t0 = true -> cpl_okb c = true.
Proof.
  intros P. unfold cpl_okb. rewrite (g_nstates late t0). apply fseq. intros i Hi.
  destruct (fs_type (st c i)) eqn:Ety; try reflexivity.
  destruct (ck_completion_cases i Hi Ety) as [(l & El & Ec) | (_ & b & Ec & Hb)]; rewrite Ec.
  - apply (forallb_properb_shape (fun x => is_initial_t (fs_type (st c x)) && opt_eqb (fs_parent (st c x)) i) (properb c)).
    apply forallb_forall. intros g Hg. apply (proj1 (In_set_of_list _ _)) in Hg.
    apply In_filter_map in Hg as (s & Hs & Hr).
    destruct (ck_compound_node i Hi Ety) as (u0 & Hu0 & Eu & Hcn).
    unfold ct_initattr_properb in P. rewrite forallb_forall in P. specialize (P u0 Hu0). rewrite Hcn in P.
    rewrite Eu, resort_initattr in El. rewrite El in P.
    assert (Hin : In s (map t_sid (filter tprop (tbelow (ntree nodes i))))).
    { rewrite Eu. apply psids_below_resort. exact (ids_inb_spec _ _ P s Hs). }
    destruct (g_resolve_below t0 U tprop i s Hi Hin) as (g' & Hr' & _ & Hgn & Pg & _).
    rewrite Hr in Hr'. inversion Hr'; subst g'. now apply ck_proper.
  - cbv beta iota. destruct Hb as [Hb | [Hbn Pb]].
    + rewrite (ck_init_child_type i b Hb). reflexivity.
    + rewrite (ck_proper b Hbn Pb). apply orb_true_r.
Qed.

Lemma ck_cpl_anti : ct_initattr_antichainb t0 = true -> cpl_antib c = true.
Proof.
  intros P. unfold cpl_antib. rewrite (g_nstates late t0). apply fseq. intros i Hi.
  destruct (fs_type (st c i)) eqn:Ety; try reflexivity.
  destruct (ck_completion_cases i Hi Ety) as [(l & El & Ec) | (_ & b & Ec & Hb)]; rewrite Ec.
  - destruct (ck_compound_node i Hi Ety) as (u0 & Hu0 & Eu & Hcn).
    unfold ct_initattr_antichainb in P. rewrite forallb_forall in P. specialize (P u0 Hu0). rewrite Hcn in P.
    rewrite Eu, resort_initattr in El. rewrite El in P.
    apply forallb_forall. intros g1 Hg1. apply forallb_forall. intros g2 Hg2.
    apply (proj1 (In_set_of_list _ _)) in Hg1. apply (proj1 (In_set_of_list _ _)) in Hg2.
    apply In_filter_map in Hg1 as (s1 & Hs1 & Hr1). apply In_filter_map in Hg2 as (s2 & Hs2 & Hr2).
    apply negb_true_iff. exact (ck_antichain l P s1 s2 g1 g2 Hs1 Hs2 Hr1 Hr2).
  - cbn [forallb]. rewrite !andb_true_r. apply negb_true_iff.
    assert (Hbn : b < n) by (destruct Hb as [(Hbn & _) | [Hbn _]]; exact Hbn).
    destruct (mem b (fs_ancestors (st c b))) eqn:Em; [|reflexivity]. apply (g_anc late t0 b b Hbn Hbn) in Em. lia.
Qed.

Lemma ck_root_plain : ct_initattr_properb t0 = true -> root_plainb c = true.
Proof.
  intros P. pose proof (ck_cpl_ok P) as C. unfold cpl_okb in C. rewrite (g_nstates late t0), fseq in C.
  specialize (C 0 (tsize_pos root)). pose proof (f_root_compound late t0 FH) as R. rewrite R in C.
  unfold root_plainb.
  destruct (ck_completion_cases 0 (tsize_pos root) R) as [(l & El & Ec) | (_ & b & Ec & Hb)].
  - (* all proper, as in ck_cpl_ok *)
    rewrite Ec. apply forallb_forall. intros g Hg. apply (proj1 (In_set_of_list _ _)) in Hg.
    apply In_filter_map in Hg as (s & Hs & Hr).
    destruct (ck_compound_node 0 (tsize_pos root) R) as (u0 & Hu0 & Eu & Hcn).
    unfold ct_initattr_properb in P. rewrite forallb_forall in P. specialize (P u0 Hu0). rewrite Hcn in P.
    rewrite Eu, resort_initattr in El. rewrite El in P.
    assert (Hin : In s (map t_sid (filter tprop (tbelow (ntree nodes 0))))).
    { rewrite Eu. apply psids_below_resort. exact (ids_inb_spec _ _ P s Hs). }
    destruct (g_resolve_below t0 U tprop 0 s (tsize_pos root) Hin) as (g' & Hr' & _ & Hgn & Pg & _).
    rewrite Hr in Hr'. inversion Hr'; subst g'. now apply ck_proper.
  - rewrite Ec. cbn [forallb]. rewrite andb_true_r. destruct Hb as [(Hbn & Hk & _ & Hin) | [Hbn Pb]]; [|now apply ck_proper].
    exfalso. rewrite (f_root_node t0) in Hin.
    pose proof (vt_nest root V root _ (subtrees_self root) Hin) as N. unfold kid_okb in N.
    rewrite Hk in N. destruct (vb_docb_parts root (fh_doc root FH)) as [Hr _]. rewrite Hr in N. discriminate.
Qed.

(* ---- done_okb *)
Lemma ck_done_ok : ct_done_okb t0 = true -> done_okb c = true.
Proof.
  intros P0. pose proof (done_okb_resort t0 P0) as P. unfold ct_done_okb in P. rewrite forallb_forall in P.
  unfold done_okb. rewrite (g_nstates late t0). apply fseq. intros i Hi.
  destruct (fs_type (st c i)) eqn:Ety; try reflexivity.
  destruct (fs_parent (st c i)) as [p|] eqn:Ep; [|reflexivity].
  assert (Hfin : is_final_node (ntree nodes i) = true).
  { unfold is_final_node. now rewrite (proj1 (proj1 (ck_kind_type i Hi)) Ety). }
  assert (Habove : forall a, a < n -> a < i < a + tsize (ntree nodes a) -> is_parb c a = true ->
                             a <> p /\ fs_parent (st c p) = Some a).
  { intros a Ha Hin Hpa. unfold is_parb in Hpa. destruct (fs_type (st c a)) eqn:Eta; try discriminate.
    apply (proj2 (ck_kind_type a Ha)) in Eta. specialize (P _ (f_in t0 a Ha)). rewrite Eta in P.
    rewrite forallb_forall in P.
    destruct (g_below t0 a i Ha Hin) as (j & x & Hj & Hb). cbn zeta in Hb.
    destruct (g_kid late t0 a j x Ha Hj) as (Hbn & Hnb & Hpb & _). cbn zeta in Hbn, Hnb, Hpb.
    set (b := S a + tsize_list (firstn j (t_kids (ntree nodes a)))) in *.
    specialize (P x (nth_error_In _ _ Hj)). apply andb_true_iff in P as [P1 P2].
    destruct (Nat.eq_dec i b) as [->|Hne].
    { rewrite Hnb in Hfin. rewrite Hfin in P1. discriminate. }
    assert (Hin2 : b < i < b + tsize (ntree nodes b)) by (rewrite Hnb; lia).
    destruct (g_below t0 b i Hbn Hin2) as (j2 & y & Hj2 & Hb2). cbn zeta in Hb2.
    destruct (g_kid late t0 b j2 y Hbn Hj2) as (Hbn2 & Hnb2 & Hpb2 & _). cbn zeta in Hbn2, Hnb2, Hpb2.
    set (b2 := S b + tsize_list (firstn j2 (t_kids (ntree nodes b)))) in *.
    destruct (Nat.eq_dec i b2) as [->|Hne2].
    { rewrite Hpb2 in Ep. inversion Ep; subst p. split; [lia | exact Hpb]. }
    exfalso. assert (Hin3 : b2 < i < b2 + tsize (ntree nodes b2)) by (rewrite Hnb2; lia).
    destruct (g_below t0 b2 i Hbn2 Hin3) as (j3 & z & Hj3 & Hb3). cbn zeta in Hb3.
    destruct (g_kid late t0 b2 j3 z Hbn2 Hj3) as (Hbn3 & Hnb3 & _). cbn zeta in Hbn3, Hnb3.
    rewrite forallb_forall in P2. rewrite Hnb in Hj2. specialize (P2 y (nth_error_In _ _ Hj2)).
    rewrite forallb_forall in P2. rewrite Hnb2 in Hj3. specialize (P2 z (nth_error_In _ _ Hj3)).
    rewrite forallb_forall in P2.
    assert (Hiz : In (ntree nodes i) (subtrees z)).
    { rewrite <- Hnb3. apply (g_in_block t0 _ i Hbn3). rewrite Hnb3. exact Hb3. }
    specialize (P2 _ Hiz). rewrite Hfin in P2. discriminate. }
  destruct (g_parent_kid late t0 i p Hi Ep) as (Hpn & Hpr & _).
  apply andb_true_iff. split.
  - destruct (is_parb c p) eqn:Epp; [|reflexivity]. exfalso.
    destruct (Habove p Hpn Hpr Epp) as [Hne _]. now apply Hne.
  - apply forallb_forall. intros a Ha. apply TreeLemmas.mem_In in Ha.
    destruct (is_parb c a) eqn:Epa; [|now rewrite orb_true_r]. rewrite orb_false_r.
    assert (Han : a < n).
    { destruct (Nat.lt_ge_cases a n) as [Hlt|Hge]; [exact Hlt|]. exfalso. unfold is_parb in Epa.
      unfold st in Epa. rewrite nth_overflow in Epa by (fold (nstates c); rewrite (g_nstates late t0); exact Hge).
      discriminate. }
    apply (g_anc late t0 a i Han Hi) in Ha. destruct (Habove a Han Ha Epa) as [_ Hg]. rewrite Hg.
    rewrite Nat.eqb_refl. apply orb_true_r.
Qed.

End C01.

(* ------------------------------------------------------------------ all of static_ib *)

(* without <history>, the elements with an id are the proper states: hist_treeb's clauses on initial attributes and
   targets give the properness conditions of C01 *)
Lemma no_hist_vis_proper t : hist_treeb t = true -> ct_no_histb t = true ->
  forall u s, In u (subtrees t) -> In s (vsids_below u) -> In s (psids_below u).
Proof.
  intros HT NH u s Hu Hs. unfold vsids_below in Hs. apply in_map_iff in Hs as (w & <- & Hw). apply filter_In in Hw as [Hw Vw].
  unfold psids_below. apply in_map. apply filter_In. split; [exact Hw|].
  assert (Hws : In w (subtrees t)) by (eapply subtrees_trans; [exact Hu|]; now apply tbelow_subtrees).
  unfold ct_no_histb in NH. rewrite forallb_forall in NH. specialize (NH w Hws).
  unfold tvis in Vw. unfold tprop, is_proper_kind. destruct (t_kind w); try discriminate; reflexivity.
Qed.

Lemma no_hist_initattr_proper t : hist_treeb t = true -> ct_no_histb t = true -> ct_initattr_properb t = true.
Proof.
  intros HT NH. pose proof (hs_vtree t HT) as V. unfold ct_initattr_properb. apply forallb_forall. intros u Hu.
  destruct (compound_node u) eqn:Ec; [|reflexivity]. destruct (t_initattr u) as [l|] eqn:El; [|reflexivity].
  assert (Hk : t_kind u <> KInitial) by (unfold compound_node in Ec; intros E; rewrite E in Ec; discriminate).
  destruct (vt_initattr t V u l Hu Hk El) as (_ & Hv & _). unfold ids_inb. apply forallb_forall. intros s Hs.
  apply memN_In. apply (no_hist_vis_proper t HT NH u s Hu). now apply Hv.
Qed.

Lemma no_hist_targets_proper t : hist_treeb t = true -> ct_no_histb t = true -> ct_targets_properb t = true.
Proof.
  intros HT NH. pose proof (hs_vtree t HT) as V. unfold ct_targets_properb. apply forallb_forall. intros u Hu.
  apply forallb_forall. intros x Hx. destruct (tt_targets x) as [l|] eqn:El; [|reflexivity].
  destruct (vt_targets t V u x l Hu Hx El) as (_ & Hv & _). unfold ids_inb. apply forallb_forall. intros s Hs.
  apply memN_In. apply (no_hist_vis_proper t HT NH t s (subtrees_self t)). now apply Hv.
Qed.

Lemma c01i_treeb_parts t : c01i_treeb t = true ->
  hist_treeb t = true /\ ct_no_histb t = true /\ ct_par_nonemptyb t = true /\ ct_targets_antichainb t = true /\
  ct_done_okb t = true /\ ct_root_silentb t = true /\ ct_initattr_antichainb t = true /\
  ct_root_unmentionedb t = true /\ ct_namedb t = true /\ ct_root_onexit_emptyb t = true.
Proof. unfold c01i_treeb. intros H. do 9 (apply andb_true_iff in H as [H ?]). repeat split; assumption. Qed.

Theorem c01i_tree_micro_static late t : c01i_treeb t = true -> micro_static_ib (flatten late t) = true.
Proof.
  intros H. destruct (c01i_treeb_parts t H) as (HT & NH & PN & TA & DO & RS & IA & _).
  destruct (flatten_wf_hist_lemma late t HT) as [W R]. unfold micro_static_ib, wf_initb, root_compoundb.
  rewrite W, (ck_no_hist late t NH), R, (par_nonempty_flatten late t PN), (ck_targets_antichain late t TA),
          (ck_done_ok late t DO), (ck_root_silent late t RS), (ck_cpl_ok late t HT (no_hist_initattr_proper t HT NH)),
          (ck_cpl_anti late t IA), (ck_targets_proper late t HT (no_hist_targets_proper t HT NH)).
  reflexivity.
Qed.

Theorem c01i_tree_static late t : c01i_treeb t = true -> static_ib (flatten late t) = true.
Proof.
  intros H. destruct (c01i_treeb_parts t H) as (HT & NH & _ & _ & _ & _ & _ & RU & NM & OX).
  unfold static_ib.
  rewrite (c01i_tree_micro_static late t H), (ck_root_unmentioned late t RU), (ck_named late t NM),
          (ck_root_onexit late t OX), (ck_root_plain late t HT (no_hist_initattr_proper t HT NH)).
  reflexivity.
Qed.
