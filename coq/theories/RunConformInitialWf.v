(* RunConformInitialWf.v -- C01 on charts with <initial> elements and deep / multiple initial attributes: the static
   side conditions as booleans on the flat chart, and their soundness.
     cpl_okb           the completion of a compound state is its <initial> CHILD, or consists of proper states
                       (an 'initial' attribute that names an <initial> element elsewhere is excluded)
     cpl_antib         no state named by an 'initial' attribute lies below another state named by it
     targets_properb   no transition (including those of <initial> elements) targets a pseudo-state
     init_flagsb       the transitions of pseudo-states carry the flag LargeMicroStep::init gives them
     root_plainb       <scxml> has no <initial> child element (the schema gives it none; the engine would run its
                       transition's content, Appendix D does not)
   Definitions and proofs. *)
From V Require Import Base NameMatch Chart Exec Large LargeLemmas Spec Legal SetLemmas LegalAbstract LegalLarge WfCore
  SelectConform SelectConformLemmas SelectConformRoot MicroConform
  LegalHistBase LegalHistEntry LegalHistStep LegalHistWf RunConformInitialBase RunConformInitialSelErase.
Local Open Scope nat_scope.

Section Bools.
Variable c : fchart.
Let n := nstates c.
Let kd (i : nat) := fs_type (st c i).

Definition is_initial_t (t : ftype) : bool := match t with FInitial => true | _ => false end.
Definition properb (g : nat) : bool := negb (is_pseudo (kd g)).

Definition cpl_okb : bool :=
  forallb (fun i => match kd i with
                    | FCompound =>
                      match fs_completion (st c i) with
                      | [x] => (is_initial_t (kd x) && opt_eqb (fs_parent (st c x)) i) || properb x
                      | l => forallb properb l
                      end
                    | _ => true
                    end) (seq 0 n).

Definition cpl_antib : bool :=
  forallb (fun i => match kd i with
                    | FCompound => forallb (fun g1 => forallb (fun g2 => negb (mem g1 (fs_ancestors (st c g2))))
                                                               (fs_completion (st c i))) (fs_completion (st c i))
                    | _ => true
                    end) (seq 0 n).

Definition targets_properb : bool :=
  forallb (fun ti => forallb properb (ft_targets (tr c ti))) (seq 0 (ntrans c)).

Definition init_flagsb : bool :=
  forallb (fun i => if is_pseudo (kd i)
                    then forallb (fun ti => ft_history (tr c ti) || ft_initial (tr c ti)) (fs_trans (st c i))
                    else true) (seq 0 n).

Definition root_plainb : bool := forallb properb (fs_completion (st c 0)).

Hypothesis W : WFH c.

Lemma st_out_i i : n <= i -> st c i = dummy_state.
Proof. intros Hi. unfold st. now apply nth_overflow. Qed.

Lemma kd_compound_lt i : kd i = FCompound -> i < n.
Proof. intros H. destruct (Nat.lt_ge_cases i n) as [|Hge]; [assumption|]. unfold kd in H. rewrite (st_out_i i Hge) in H. discriminate. Qed.

Lemma cpl_okb_sound : cpl_okb = true -> CplOK c.
Proof.
  intros H i Hk. pose proof (forallb_seq_lt _ _ H i (kd_compound_lt i Hk)) as H'. cbn beta in H'. unfold kd in H'. rewrite Hk in H'.
  assert (Hall : forall l, forallb properb l = true -> forall g, In g l -> pseudoS c g = false).
  { intros l Hl g Hg. rewrite forallb_forall in Hl. specialize (Hl g Hg). unfold properb in Hl. now apply negb_true_iff in Hl. }
  destruct (fs_completion (st c i)) as [|x [|y r]] eqn:Hc.
  - right. intros g [].
  - apply orb_true_iff in H' as [H'|H'].
    + left. apply andb_true_iff in H' as [A B']. exists x. split; [reflexivity|]. split.
      * unfold is_initial_t, kd in A. destruct (fs_type (st c x)); try discriminate; reflexivity.
      * unfold opt_eqb in B'. destruct (fs_parent (st c x)) as [p|]; [|discriminate]. apply Nat.eqb_eq in B'. now subst.
    + right. intros g [<-|[]]. unfold properb in H'. now apply negb_true_iff in H'.
  - right. now apply Hall.
Qed.

Lemma cpl_antib_sound : cpl_antib = true -> CplAnti c.
Proof.
  intros H i g1 g2 Hk H1 H2 Ha. pose proof (forallb_seq_lt _ _ H i (kd_compound_lt i Hk)) as H'. cbn beta in H'. unfold kd in H'. rewrite Hk in H'.
  rewrite forallb_forall in H'. specialize (H' g1 H1). rewrite forallb_forall in H'. specialize (H' g2 H2).
  apply negb_true_iff, mem_false_In in H'. apply H'. now apply (wh_anc c W).
Qed.

Lemma tr_out_i ti : ntrans c <= ti -> tr c ti = dummy_trans.
Proof. intros Hi. unfold tr. now apply nth_overflow. Qed.

Lemma targets_properb_sound : targets_properb = true -> TgProper c.
Proof.
  intros H ti g Hg. destruct (Nat.lt_ge_cases ti (ntrans c)) as [Hlt|Hge].
  - pose proof (forallb_seq_lt _ _ H ti Hlt) as H'. cbn beta in H'. rewrite forallb_forall in H'. specialize (H' g Hg).
    unfold properb in H'. now apply negb_true_iff in H'.
  - rewrite (tr_out_i ti Hge) in Hg. destruct Hg.
Qed.

Lemma targets_antichainb_sound_h : targets_antichainb c = true -> TgAnti c.
Proof.
  intros H ti g1 g2 H1 H2 Ha. destruct (Nat.lt_ge_cases ti (ntrans c)) as [Hlt|Hge].
  - unfold targets_antichainb in H. pose proof (forallb_seq_lt _ _ H ti Hlt) as H'. cbn beta in H'.
    rewrite forallb_forall in H'. specialize (H' g1 H1). rewrite forallb_forall in H'. specialize (H' g2 H2).
    apply negb_true_iff, mem_false_In in H'. apply H'. now apply (wh_anc c W).
  - rewrite (tr_out_i ti Hge) in H1. destruct H1.
Qed.

Lemma init_flagsb_sound : init_flagsb = true ->
  forall x ti, is_pseudo (fs_type (st c x)) = true -> In ti (fs_trans (st c x)) -> ft_history (tr c ti) || ft_initial (tr c ti) = true.
Proof.
  intros H x ti Hp Hti. destruct (Nat.lt_ge_cases x n) as [Hlt|Hge].
  - pose proof (forallb_seq_lt _ _ H x Hlt) as H'. cbn beta in H'. unfold kd in H'. rewrite Hp in H'.
    rewrite forallb_forall in H'. exact (H' ti Hti).
  - rewrite (st_out_i x Hge) in Hti. destruct Hti.
Qed.

Lemma root_plainb_sound : root_plainb = true -> forall g, In g (fs_completion (st c 0)) -> pseudoS c g = false.
Proof.
  intros H g Hg. unfold root_plainb in H. rewrite forallb_forall in H. specialize (H g Hg). unfold properb in H. now apply negb_true_iff in H.
Qed.

Lemma done_okb_sound_h : done_okb c = true ->
  (forall i p, fs_type (st c i) = FFinal -> fs_parent (st c i) = Some p -> fs_type (st c p) <> FParallel) /\
  (forall i p a, fs_type (st c i) = FFinal -> fs_parent (st c i) = Some p ->
     LegalAbstract.Anc (fun i => fs_parent (st c i)) a p ->
     fs_parent (st c p) = Some a \/ fs_type (st c a) <> FParallel).
Proof.
  intros H.
  assert (Hi : forall i p, fs_type (st c i) = FFinal -> fs_parent (st c i) = Some p ->
     is_parb c p = false /\
     forall a, In a (fs_ancestors (st c i)) ->
       (a =? p) || match fs_parent (st c p) with Some g => a =? g | None => false end || negb (is_parb c a) = true).
  { intros i p Hf Hp. destruct (wh_par_lt c W _ _ Hp) as [_ Hin].
    unfold done_okb in H. pose proof (forallb_seq_lt _ _ H i Hin) as H'. cbn beta in H'. rewrite Hf, Hp in H'.
    apply andb_true_iff in H' as [A B']. split; [now apply negb_true_iff in A|]. now rewrite forallb_forall in B'. }
  split.
  - intros i p Hf Hp Hpar. destruct (Hi i p Hf Hp) as [A _]. unfold is_parb in A. rewrite Hpar in A. discriminate.
  - intros i p a Hf Hp Ha. destruct (Hi i p Hf Hp) as [_ B'].
    specialize (B' a (proj2 (wh_anc c W i a) (anc_step _ _ _ _ Hp Ha))).
    replace (a =? p) with false in B' by (symmetry; apply Nat.eqb_neq; intros ->; exact (hanc_irrefl c W _ Ha)).
    cbn [orb] in B'. apply orb_true_iff in B' as [B'|B'].
    + left. destruct (fs_parent (st c p)) as [g|]; [|discriminate]. apply Nat.eqb_eq in B'. now subst.
    + right. intros Hpar. unfold is_parb in B'. rewrite Hpar in B'. discriminate.
Qed.

End Bools.

Lemma no_hist_of_initb c : wf_initb c = true -> forall i, histS c i = false.
Proof. intros H i. exact (wf_initb_no_hist c H i). Qed.
