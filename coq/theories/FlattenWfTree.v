(* FlattenWfTree.v -- tree layer for FlattenWfLemmas.v: the elements of a document (FlattenWf.subtrees)
   against the document-order numbering of Chart.doc_nodes; resortStates is the identity on documents
   without pseudo-states; the block of a node in the numbering is the numbering of its sub-tree.
   Proofs only. *)
From V Require Import Base Chart Tables TreeLemmas FlattenWf.
Local Open Scope nat_scope.

Lemma subtrees_unfold t : subtrees t = t :: flat_map subtrees (t_kids t).
Proof. destruct t. reflexivity. Qed.

Lemma doc_forest_subtrees l : forall next par,
  Forall (fun x => forall s p, map fst (doc_nodes x s p) = subtrees x) l ->
  map fst (doc_forest l next par) = flat_map subtrees l.
Proof.
  induction l as [|x r IH]; intros next par Hall; [reflexivity|].
  inversion Hall as [|? ? Hx Hr]; subst. cbn [doc_forest flat_map]. rewrite map_app, Hx, IH by exact Hr. reflexivity.
Qed.

Lemma doc_nodes_subtrees : forall t s p, map fst (doc_nodes t s p) = subtrees t.
Proof.
  induction t using tree_ind'. intros s0 p.
  rewrite doc_nodes_unfold, subtrees_unfold. cbn [map fst t_kids]. f_equal. now apply doc_forest_subtrees.
Qed.

Lemma subtrees_length t : length (subtrees t) = tsize t.
Proof. rewrite <- (doc_nodes_subtrees t 0 None), map_length. apply doc_nodes_length. Qed.

Lemma subtrees_self t : In t (subtrees t).
Proof. rewrite subtrees_unfold. now left. Qed.

Lemma subtrees_kid t kid u : In kid (t_kids t) -> In u (subtrees kid) -> In u (subtrees t).
Proof. intros Hk Hu. rewrite subtrees_unfold. right. apply in_flat_map. eauto. Qed.

Lemma subtrees_trans : forall t u v, In u (subtrees t) -> In v (subtrees u) -> In v (subtrees t).
Proof.
  induction t using tree_ind'. intros u v Hu Hv. rewrite subtrees_unfold in Hu. cbn [t_kids] in Hu.
  destruct Hu as [<-|Hu]; [exact Hv|]. apply in_flat_map in Hu. destruct Hu as (kid & Hk & Hu).
  rewrite Forall_forall in H. eapply subtrees_kid; [exact Hk|]. eapply H; eauto.
Qed.

(* ------------------------------------------------------------------ resortStates *)

Lemma filter_none {A} (f : A -> bool) l : (forall x, In x l -> f x = false) -> filter f l = [].
Proof.
  induction l as [|x r IH]; intros H; [reflexivity|]. cbn [filter]. rewrite (H x (or_introl eq_refl)).
  apply IH. intros y Hy. apply H. now right.
Qed.

Lemma filter_all {A} (f : A -> bool) l : (forall x, In x l -> f x = true) -> filter f l = l.
Proof.
  induction l as [|x r IH]; intros H; [reflexivity|]. cbn [filter]. rewrite (H x (or_introl eq_refl)).
  f_equal. apply IH. intros y Hy. apply H. now right.
Qed.

Lemma map_id_Forall {A} (f : A -> A) l : Forall (fun x => f x = x) l -> map f l = l.
Proof. induction 1 as [|x r Hx _ IH]; [reflexivity|]. cbn [map]. now rewrite Hx, IH. Qed.

Lemma ct_kindsb_spec t : ct_kindsb t = true <-> forall u, In u (subtrees t) -> core_kind (t_kind u) = true.
Proof. unfold ct_kindsb. apply forallb_forall. Qed.

(* a document without <history> and <initial> children is not changed by resortStates *)
Lemma resort_id : forall t, ct_kindsb t = true -> resort t = t.
Proof.
  induction t using tree_ind'. intros Hk. rewrite ct_kindsb_spec in Hk.
  assert (Hkids : forall x, In x kids -> core_kind (t_kind x) = true).
  { intros x Hx. apply Hk. eapply subtrees_kid; [exact Hx | apply subtrees_self]. }
  assert (Hm : map resort kids = kids).
  { apply map_id_Forall. rewrite Forall_forall in *. intros x Hx. apply (H x Hx).
    apply ct_kindsb_spec. intros u Hu. apply Hk. eapply subtrees_kid; eauto. }
  cbn [resort]. rewrite Hm.
  rewrite (filter_none (fun c => is_hist_kind (t_kind c)))
    by (intros x Hx; specialize (Hkids x Hx); destruct (t_kind x); try discriminate; reflexivity).
  rewrite (filter_all (fun c => negb (is_hist_kind (t_kind c))))
    by (intros x Hx; specialize (Hkids x Hx); destruct (t_kind x); try discriminate; reflexivity).
  cbn [rev app].
  rewrite (filter_none (fun c => match t_kind c with KInitial => true | _ => false end))
    by (intros x Hx; specialize (Hkids x Hx); destruct (t_kind x); try discriminate; reflexivity).
  rewrite (filter_all (fun c => match t_kind c with KInitial => false | _ => true end))
    by (intros x Hx; specialize (Hkids x Hx); destruct (t_kind x); try discriminate; reflexivity).
  reflexivity.
Qed.

(* ------------------------------------------------------------------ the numbering against subtrees *)

Section Numb.
Variable t : tree.
Let n := tsize t.
Let nodes := nodes_of t.

Lemma ntree_nth i : i < n -> ntree nodes i = nth i (subtrees t) dummy_tree.
Proof.
  intros Hi. unfold ntree, nd, nodes, nodes_of. rewrite <- (doc_nodes_subtrees t 0 None).
  change dummy_tree with (fst (dummy_tree, @None nat)) at 2. now rewrite map_nth.
Qed.

Lemma ntree_in i : i < n -> In (ntree nodes i) (subtrees t).
Proof. intros Hi. rewrite ntree_nth by exact Hi. apply nth_In. now rewrite subtrees_length. Qed.

Lemma subtrees_ntree u : In u (subtrees t) -> exists i, i < n /\ ntree nodes i = u.
Proof.
  intros Hu. destruct (In_nth _ _ dummy_tree Hu) as (i & Hi & Hn). rewrite subtrees_length in Hi.
  exists i. split; [exact Hi|]. now rewrite ntree_nth.
Qed.

Lemma ntree_sub i : i < n -> sub t (pth_of t i) = Some (ntree nodes i).
Proof.
  intros Hi. unfold nodes. rewrite (ntree_nodes t i Hi).
  destruct (proj1 (In_paths_iff t _) (pth_in t i Hi)) as [u Hu]. unfold subd. now rewrite Hu.
Qed.

Lemma ntree_root : ntree nodes 0 = t.
Proof.
  pose proof (tsize_pos t). pose proof (ntree_sub 0 ltac:(unfold n; lia)) as Hs.
  assert (H0 : pth_of t 0 = []) by (unfold pth_of; rewrite paths_unfold; reflexivity).
  rewrite H0 in Hs. cbn [sub] in Hs. now inversion Hs.
Qed.

End Numb.

Section Block.
Variable t : tree.
Let n := tsize t.
Let nodes := nodes_of t.

(* the block [i, i + size) of the numbering is the numbering of the sub-tree at i *)
Lemma ntree_block i k : i < n -> k < tsize (ntree nodes i) ->
  i + k < n /\ ntree nodes (i + k) = ntree (nodes_of (ntree nodes i)) k.
Proof.
  intros Hi Hk. pose proof (ntree_sub t i Hi) as Hs.
  destruct (pth_shift t i _ k Hi Hs Hk) as [Hlt Hp]. split; [exact Hlt|].
  pose proof (ntree_sub t (i + k) Hlt) as Hs2. rewrite Hp, (sub_app _ _ _ _ Hs) in Hs2.
  pose proof (ntree_sub (ntree nodes i) k Hk) as Hk2. unfold nodes in *. congruence.
Qed.

Lemma ntree_block_in i g : i < n -> i <= g -> g < i + tsize (ntree nodes i) ->
  g < n /\ In (ntree nodes g) (subtrees (ntree nodes i)).
Proof.
  intros Hi H1 H2. destruct (ntree_block i (g - i) Hi ltac:(lia)) as [Hlt He].
  replace (i + (g - i)) with g in * by lia. split; [exact Hlt|]. rewrite He. apply ntree_in. lia.
Qed.

(* the j-th child of node i has number S i + (sizes of the children before it) *)
Lemma ntree_kid i j kid : i < n -> nth_error (t_kids (ntree nodes i)) j = Some kid ->
  let b := S i + tsize_list (firstn j (t_kids (ntree nodes i))) in
  b < n /\ ntree nodes b = kid.
Proof.
  intros Hi Hj b. pose proof (ntree_sub t i Hi) as Hs. unfold nodes in *.
  assert (Hpb : pidx t 0 (pth_of t i ++ [j]) = Some b).
  { rewrite (pidx_app _ _ _ _ _ [j] (pidx_pth t i Hi) Hs). cbn [pidx]. now rewrite Hj. }
  destruct (pth_of_pidx t _ _ Hpb) as [Hbn Hbp]. split; [exact Hbn|].
  pose proof (ntree_sub t b Hbn) as Hs2. rewrite Hbp, (sub_app _ _ _ [j] Hs) in Hs2. cbn [sub] in Hs2.
  rewrite Hj in Hs2. now inversion Hs2.
Qed.

End Block.

(* ------------------------------------------------------------------ memN, nodupNb *)

Lemma memN_In s l : memN s l = true <-> In s l.
Proof.
  unfold memN. rewrite existsb_exists. split.
  - intros (x & Hx & He). apply N.eqb_eq in He. now subst.
  - intros H. exists s. split; [exact H | apply N.eqb_refl].
Qed.

Lemma nodupNb_NoDup l : nodupNb l = true <-> NoDup l.
Proof.
  induction l as [|x r IH]; cbn [nodupNb]; [split; [constructor | reflexivity]|].
  rewrite andb_true_iff, negb_true_iff, IH. split.
  - intros [H1 H2]. constructor; [|exact H2]. intros Hin. apply memN_In in Hin. congruence.
  - intros H. inversion H as [|? ? H1 H2]; subst. split; [|exact H2].
    destruct (memN x r) eqn:E; [apply memN_In in E; contradiction | reflexivity].
Qed.
