(* CGenEquivRun.v -- C04: whole runs.  The driver loop of the harness around the emitted uscxml_step() (CGen.crun_loop from
   the zeroed context) against the interpreter's driver loop around FastMicroStep (Interp.run_loop around Fast.fast_step
   from the pristine state), with the same external events handed in whenever the machine is idle: for every number of
   calls of uscxml_step() there is a number of calls of step() such that both end with the same configuration, history,
   top-level-final / finished flags, the same internal and external queue (events by name, in order) and the same
   sequence of events handed to the selection -- content of the transpiler's fragment, non-empty names of the events
   handed in.  Section Run is generic in the chart class: it takes the agreement of the history and entry-set passes
   on legal engine states as hypotheses (those of CGenEquivMicro.Micro) and the legality of the engine's states from
   LegalHistFastRun.v; Section CoreRun instantiates it for the history-free core and every variant of the template,
   CGenEquivHistRun.v for charts with pseudo-states and the repaired template.
   One call of uscxml_step() is one step of the engine when it takes transitions; the emitted function loops back to
   DEQUEUE_EVENT where the engine returns: one more step of the engine for an event-less selection that found nothing,
   two for an internal event that enabled nothing (the engine selects event-less transitions once more; nothing is
   enabled, the configuration being the one of the previous event-less selection and conditions reading nothing but
   the configuration), one for the announcement of the stable configuration before an external event is dequeued.
   USCXML_ERR_OK = a step that took transitions, USCXML_ERR_IDLE = RC_IDLE, USCXML_ERR_DONE = RC_FINISHED.
   Proofs only. *)
From V Require Import Base NameMatch Chart Exec Large LargeLemmas Fast Interp Legal SetLemmas LegalAbstract LegalLarge LegalRun
                      WfCore CGen CGenLemmas SerializeCodecLemmas SerializeFastLemmas
                      LegalHistBase LegalHistEntry LegalHistStep LegalHistRun LegalHistWf LegalHistFastRun LegalHistCore
                      CGenEquivContent CGenEquivEntry CGenEquivStep CGenEquivMicro.
Local Open Scope nat_scope.

Section Run.
Variable cv : cg_variant.
Variable xv : ex_variant.
Variable c : fchart.
Hypothesis Htlf : cg_tlf_first_byte cv = false.
Hypothesis Hfast : wf_fastb c = true.
Hypothesis Hroot : fs_type (st c 0) = FCompound.
Hypothesis Hc : chart_c c = true.
(* the hypotheses of CGenEquivMicro.Micro: discharged for the core at the end of this file, for charts with
   pseudo-states in CGenEquivHistRun.v *)
Hypothesis Hanc_sorted : forall i, ssorted (fs_ancestors (st c i)).
Hypothesis Hanc_bounded : forall i, bounded (nstates c) (fs_ancestors (st c i)).
Hypothesis Hrem : forall cfg exitset hist, cremember cv c cfg exitset hist = fremember c cfg exitset hist.
Variable OK : lstate -> Prop.
Hypothesis HOK : forall l, StOK c l -> OK l.
Hypothesis Hentry : forall l evn, OK l ->
  let sel := cselect_all c (l_cfg l) evn in
  let ex := cexitset c (l_cfg l) sel in
  centry_set cv c (l_cfg l) ex (fremember c (l_cfg l) ex (l_hist l)) (ctargets c sel) sel =
  fentry_set c (l_cfg l) ex (fremember c (l_cfg l) ex (l_hist l)) (ctargets c sel) sel.
Hypothesis Hentry0 : forall hist, HistOK c hist ->
  centry_set cv c [] [] hist (fs_completion (st c 0)) [] = fentry_set c [] [] hist (fs_completion (st c 0)) [].

Let WH : WFH c := wf_histb_sound c Hfast.

Notation fstep := (fast_step xv c).
Notation frun := (run_loop c lstate (fast_step xv c) l_cfg).
Notation ftok := (cfg_tok c lstate l_cfg).

(* ------------------------------------------------------------------ the interpreter's driver loop *)
(* steps that neither finish nor idle: the events to hand in stay *)
Definition advance (l : lstate) (y : xstate) (l' : lstate) (y' : xstate) : Prop :=
  exists k, forall m evs, frun (k + m) l y evs = frun m l' y' evs.

Lemma advance_refl l y : advance l y l y.
Proof. exists 0. reflexivity. Qed.
Lemma advance_trans l y l1 y1 l2 y2 : advance l y l1 y1 -> advance l1 y1 l2 y2 -> advance l y l2 y2.
Proof. intros [k1 H1] [k2 H2]. exists (k1 + k2). intros m evs. now rewrite <- Nat.add_assoc, H1, H2. Qed.

Lemma advance_step l y l1 y1 rc : fstep l y = (l1, y1, rc) -> rc = RC_MICROSTEPPED \/ rc = RC_MACROSTEPPED ->
  advance l y l1 (emit (ftok l1) (emit (TRet rc) y1)).
Proof.
  intros E Hrc. exists 1. intros m evs. cbn [Nat.add run_loop]. rewrite E. destruct Hrc as [-> | ->]; reflexivity.
Qed.

(* ---- the branches of FastMicroStep::step ---- *)
Lemma not_pristine l : l_init l = true -> is_pristine l = false.
Proof. intros E. unfold is_pristine. rewrite E. now rewrite !orb_true_r. Qed.

Lemma fstep_spont l y : l_fin l = false -> l_tlf l = false -> l_init l = true -> l_spont l = true ->
  fstep l y = fselect_and_step xv c l y None.
Proof. intros B1 B2 B3 B4. unfold fast_step. rewrite B1, B2, (not_pristine l B3), B4. reflexivity. Qed.

Lemma fstep_internal l y ev yr : l_fin l = false -> l_tlf l = false -> l_init l = true -> l_spont l = false ->
  x_iq y = ev :: yr -> ev_name ev <> [] ->
  fstep l y = fselect_and_step xv c l
                (emit (TEv (ev_name ev)) {| x_store := x_store y; x_iq := yr; x_eq := x_eq y; x_out := x_out y |}) (Some ev).
Proof.
  intros B1 B2 B3 B4 B5 B6. unfold fast_step. rewrite B1, B2, (not_pristine l B3), B4, B5.
  destruct (ev_name ev) eqn:En; [contradiction|]. reflexivity.
Qed.

Lemma fstep_stable l y : l_fin l = false -> l_tlf l = false -> l_init l = true -> l_spont l = false ->
  x_iq y = [] -> l_stable l = false ->
  fstep l y = (upd_flags l (l_spont l) true, emit TStable y, RC_MACROSTEPPED).
Proof. intros B1 B2 B3 B4 B5 B6. unfold fast_step. rewrite B1, B2, (not_pristine l B3), B4, B5, B6. reflexivity. Qed.

Lemma fstep_external l y ev yr : l_fin l = false -> l_tlf l = false -> l_init l = true -> l_spont l = false ->
  x_iq y = [] -> l_stable l = true -> x_eq y = ev :: yr -> ev_name ev <> [] ->
  fstep l y = fselect_and_step xv c l
                (emit (TEv (ev_name ev)) {| x_store := x_store y; x_iq := x_iq y; x_eq := yr; x_out := x_out y |}) (Some ev).
Proof.
  intros B1 B2 B3 B4 B5 B6 B7 B8. unfold fast_step. rewrite B1, B2, (not_pristine l B3), B4, B5, B6, B7. cbn [negb].
  destruct (ev_name ev) eqn:En; [contradiction|]. reflexivity.
Qed.

Lemma fstep_idle l y : l_fin l = false -> l_tlf l = false -> l_init l = true -> l_spont l = false ->
  x_iq y = [] -> l_stable l = true -> x_eq y = [] -> l_cancelled l = false ->
  fstep l y = (l, y, RC_IDLE).
Proof.
  intros B1 B2 B3 B4 B5 B6 B7 B8. unfold fast_step. rewrite B1, B2, (not_pristine l B3), B4, B5, B6, B7, B8. reflexivity.
Qed.

(* a selection that finds nothing only updates the flags *)
Lemma notfound l y ev : cselect_all c (l_cfg l) (option_map ev_name ev) = [] ->
  fselect_and_step xv c l y ev =
  (upd_flags (upd_flags l (l_spont l) false) (match ev with Some _ => true | None => false end) false, y, RC_MICROSTEPPED).
Proof.
  intros E. unfold fselect_and_step. cbn [upd_flags l_cfg]. rewrite (selection c Hc), E. reflexivity.
Qed.

Lemma stok_of_ok l : CfgOKH c l -> l_init l = true -> StOK c l.
Proof. intros [(P & _)|(_ & L)] Hi; [rewrite (not_pristine l Hi) in P; discriminate|exact L]. Qed.

Lemma ok_step l y : CfgOKH c l -> CfgOKH c (fst (fst (fstep l y))).
Proof. apply (fast_step_legal_history c xv Hfast Hroot). Qed.

(* ------------------------------------------------------------------ corresponding states *)
(* between two calls of uscxml_step() *)
Record sync (lc : lstate) (x : cx) (lf : lstate) (y : xstate) : Prop := {
  sy_same : lsame lc lf;
  sy_sim : csim x y;
  sy_ok : CfgOKH c lf;
  sy_canc : l_cancelled lf = false;
  sy_mode : (is_pristine lc = true /\ is_pristine lf = true /\ l_cfg lc = []) \/
            (l_init lc = true /\ l_init lf = true /\ l_spont lc = l_spont lf /\
             (l_spont lc = false -> cselect_all c (l_cfg lc) None = []))
}.

(* at DEQUEUE_EVENT: no event-less transition is enabled; the engine's stable flag is whatever it is *)
Record dsync (lc : lstate) (x : cx) (lf : lstate) (y : xstate) : Prop := {
  ds_same : lsame lc lf;
  ds_sim : csim x y;
  ds_ok : CfgOKH c lf;
  ds_canc : l_cancelled lf = false;
  ds_cinit : l_init lc = true;
  ds_init : l_init lf = true;
  ds_fin : l_fin lf = false;
  ds_tlf : l_tlf lf = false;
  ds_spont : l_spont lf = false;
  ds_quiet : cselect_all c (l_cfg lc) None = []
}.

Lemma sync_emit t lc x lf y : fview t = None -> sync lc x lf y -> sync lc x lf (emit t y).
Proof. intros Ht [A B C D E]. constructor; auto. now apply csim_emit. Qed.
Lemma sync_cemit t lc x lf y : cview t = None -> sync lc x lf y -> sync lc (cemit t x) lf y.
Proof. intros Ht [A B C D E]. constructor; auto. now apply csim_cemit. Qed.
Lemma dsync_emit t lc x lf y : fview t = None -> dsync lc x lf y -> dsync lc x lf (emit t y).
Proof. intros Ht [A B C D E F G I J K]. constructor; auto. now apply csim_emit. Qed.

(* ---- popping an event ---- *)
Lemma map_cons_inv (l : list event) e r : e :: r = map ev_name l -> exists ev yr, l = ev :: yr /\ ev_name ev = e /\ r = map ev_name yr.
Proof. destruct l as [|ev yr]; [discriminate|]. cbn [map]. intros [= E1 E2]. exists ev, yr. auto. Qed.

Lemma csim_pop_iq x y e r : csim x y -> cx_iq x = e :: r ->
  exists ev yr, x_iq y = ev :: yr /\ ev_name ev = e /\ e <> [] /\
    csim {| cx_iq := r; cx_eq := cx_eq x; cx_out := CEv e :: cx_out x |}
         (emit (TEv (ev_name ev)) {| x_store := x_store y; x_iq := yr; x_eq := x_eq y; x_out := x_out y |}).
Proof.
  intros [A B C D E] Eq. rewrite Eq in A, D. destruct (map_cons_inv _ _ _ A) as (ev & yr & Y1 & Y2 & Y3).
  exists ev, yr. split; [exact Y1|]. split; [exact Y2|]. inversion D as [|? ? D1 D2]; subst. split; [exact D1|].
  constructor; cbn [cx_iq cx_eq cx_out emit x_iq x_eq x_out filter_map cview fview]; auto. now rewrite C.
Qed.

Lemma csim_pop_eq x y e r : csim x y -> cx_iq x = [] -> cx_eq x = e :: r ->
  exists ev yr, x_iq y = [] /\ x_eq y = ev :: yr /\ ev_name ev = e /\ e <> [] /\
    csim {| cx_iq := []; cx_eq := r; cx_out := CEv e :: cx_out x |}
         (emit (TEv (ev_name ev)) {| x_store := x_store y; x_iq := x_iq y; x_eq := yr; x_out := x_out y |}).
Proof.
  intros [A B C D E] Ei Eq. rewrite Eq in B, E. rewrite Ei in A. destruct (map_cons_inv _ _ _ B) as (ev & yr & Y1 & Y2 & Y3).
  assert (Yi : x_iq y = []) by (destruct (x_iq y); [reflexivity|discriminate]).
  exists ev, yr. split; [exact Yi|]. split; [exact Y1|]. split; [exact Y2|]. inversion E as [|? ? E1 E2]; subst. split; [exact E1|].
  constructor; cbn [cx_iq cx_eq cx_out emit x_iq x_eq x_out filter_map cview fview]; auto. now rewrite C.
Qed.

(* ---- a selection that takes transitions ---- *)
Lemma fire_sync lc lf y x' y' ev :
  lsame lc lf -> CfgOKH c lf -> l_init lf = true -> l_cancelled lf = false -> csim x' y' ->
  fstep lf y = fselect_and_step xv c lf y' ev ->
  cselect_all c (l_cfg lc) (option_map ev_name ev) <> [] ->
  let r1 := cfire cv c lc x' (cselect_all c (l_cfg lc) (option_map ev_name ev)) in
  snd r1 = C_ERR_OK /\ exists lf1 y1, advance lf y lf1 y1 /\ sync (fst (fst r1)) (snd (fst r1)) lf1 y1.
Proof.
  intros L Ok Hi Hcan R Est Hne. cbv zeta.
  pose proof (cfire_sim cv xv c Htlf Hanc_sorted Hanc_bounded Hc Hrem OK Hentry lc lf x' y' ev L R (HOK lf (stok_of_ok lf Ok Hi)) Hne) as M. cbv zeta in M.
  pose proof (ok_step lf y Ok) as Ok1. rewrite Est in Ok1.
  destruct (fselect_and_step xv c lf y' ev) as [[l2 y2] rc2]. cbn [fst snd] in *.
  destruct M as (M1 & M2 & M3 & M4 & M5 & M6 & M7 & M8 & M9 & M10). subst rc2.
  split; [exact M3|]. exists l2, (emit (ftok l2) (emit (TRet RC_MICROSTEPPED) y2)).
  split; [apply (advance_step lf y l2 y2 RC_MICROSTEPPED Est); now left|].
  apply sync_emit; [reflexivity|]. apply sync_emit; [reflexivity|].
  constructor; auto; [congruence|]. right. repeat split; auto; [congruence|]. intros F. congruence.
Qed.

(* ---- an event that enables nothing: the engine selects event-less transitions once more ---- *)
Lemma unmatched_sync lc x lf y x' y' ev0 : dsync lc x lf y -> csim x' y' ->
  fstep lf y = fselect_and_step xv c lf y' (Some ev0) ->
  cselect_all c (l_cfg lc) (Some (ev_name ev0)) = [] ->
  exists lf2 y2, advance lf y lf2 y2 /\ dsync lc x' lf2 y2 /\ x_iq y2 = x_iq y' /\ x_eq y2 = x_eq y'.
Proof.
  intros [A B C D E F G I J K] R Est Enone. pose proof A as (A1 & A2 & A3 & A4).
  rewrite (notfound lf y' (Some ev0)) in Est by (cbn [option_map]; now rewrite <- A1).
  set (la := upd_flags (upd_flags lf (l_spont lf) false) true false) in *.
  set (ya := emit (ftok la) (emit (TRet RC_MICROSTEPPED) y')).
  assert (Ad1 : advance lf y la ya) by (apply (advance_step lf y la y' RC_MICROSTEPPED Est); now left).
  pose proof (ok_step lf y C) as Oka. rewrite Est in Oka. cbn [fst] in Oka.
  assert (Est2 : fstep la ya = (upd_flags (upd_flags la (l_spont la) false) false false, ya, RC_MICROSTEPPED)).
  { rewrite fstep_spont by (unfold la; cbn [upd_flags l_fin l_tlf l_init l_spont]; auto).
    apply (notfound la ya None). cbn [option_map]. unfold la. cbn [upd_flags l_cfg]. now rewrite <- A1. }
  set (lb := upd_flags (upd_flags la (l_spont la) false) false false) in *.
  pose proof (ok_step la ya Oka) as Okb. rewrite Est2 in Okb. cbn [fst] in Okb.
  exists lb, (emit (ftok lb) (emit (TRet RC_MICROSTEPPED) ya)).
  split; [eapply advance_trans; [exact Ad1|]; apply (advance_step la ya lb ya RC_MICROSTEPPED Est2); now left|].
  split; [|split; reflexivity].
  apply dsync_emit; [reflexivity|]. apply dsync_emit; [reflexivity|]. unfold ya.
  apply dsync_emit; [reflexivity|]. apply dsync_emit; [reflexivity|].
  constructor; auto.
Qed.

(* ---- the announcement of the stable configuration ---- *)
Lemma make_stable lc x lf y : dsync lc x lf y -> x_iq y = [] ->
  exists lf1 y1, advance lf y lf1 y1 /\ dsync lc x lf1 y1 /\ l_stable lf1 = true /\ x_iq y1 = [] /\ x_eq y1 = x_eq y.
Proof.
  intros D Yi. destruct (l_stable lf) eqn:Es.
  - exists lf, y. split; [apply advance_refl|]. auto.
  - destruct D as [A B C D E F G I J K].
    pose proof (fstep_stable lf y G I F J Yi Es) as Est.
    set (lb := upd_flags lf (l_spont lf) true) in *.
    pose proof (ok_step lf y C) as Okb. rewrite Est in Okb. cbn [fst] in Okb.
    exists lb, (emit (ftok lb) (emit (TRet RC_MACROSTEPPED) (emit TStable y))).
    split; [apply (advance_step lf y lb (emit TStable y) RC_MACROSTEPPED Est); now right|].
    split; [|split; [reflexivity|split; [exact Yi|reflexivity]]].
    do 3 (apply dsync_emit; [reflexivity|]). constructor; auto.
Qed.

(* ------------------------------------------------------------------ DEQUEUE_EVENT / SELECT_TRANSITIONS *)
Lemma cx_eta x : x = {| cx_iq := cx_iq x; cx_eq := cx_eq x; cx_out := cx_out x |}.
Proof. destruct x; reflexivity. Qed.

Lemma iq_scan : forall qi lc x lf y, cx_iq x = qi -> dsync lc x lf y ->
  match cscan c (l_cfg lc) qi (cx_out x) with
  | (Some sel, r, out) =>
      exists lf1 y1, advance lf y lf1 y1 /\
        sync (fst (fst (cfire cv c lc {| cx_iq := r; cx_eq := cx_eq x; cx_out := out |} sel)))
             (snd (fst (cfire cv c lc {| cx_iq := r; cx_eq := cx_eq x; cx_out := out |} sel))) lf1 y1
  | (None, _, out) =>
      exists lf1 y1, advance lf y lf1 y1 /\ dsync lc {| cx_iq := []; cx_eq := cx_eq x; cx_out := out |} lf1 y1 /\ x_iq y1 = []
  end.
Proof.
  induction qi as [|e r IH]; intros lc x lf y Eq D; cbn [cscan].
  - exists lf, y. split; [apply advance_refl|]. rewrite <- Eq, <- cx_eta. split; [exact D|].
    destruct D as [_ [A _ _ _ _] _ _ _ _ _ _ _ _]. rewrite Eq in A. destruct (x_iq y); [reflexivity|discriminate].
  - pose proof D as [A B C D' E F G I J K].
    destruct (csim_pop_iq x y e r B Eq) as (ev & yr & Y1 & Y2 & Y3 & R').
    assert (Est : fstep lf y = fselect_and_step xv c lf
                    (emit (TEv (ev_name ev)) {| x_store := x_store y; x_iq := yr; x_eq := x_eq y; x_out := x_out y |}) (Some ev))
      by (apply fstep_internal; auto; now rewrite Y2).
    set (x' := {| cx_iq := r; cx_eq := cx_eq x; cx_out := CEv e :: cx_out x |}) in *.
    destruct (cselect_all c (l_cfg lc) (Some e)) as [|t0 s0] eqn:Es.
    + destruct (unmatched_sync lc x lf y x' _ ev D R' Est) as (lf2 & y2 & Ad & D2 & _); [now rewrite Y2|].
      specialize (IH lc x' lf2 y2 eq_refl D2). cbn [x' cx_iq cx_eq cx_out] in IH.
      destruct (cscan c (l_cfg lc) r (CEv e :: cx_out x)) as [[o r'] out']. destruct o as [sel|].
      * destruct IH as (lf1 & y1 & Ad1 & S1). exists lf1, y1. split; [eapply advance_trans; eauto|exact S1].
      * destruct IH as (lf1 & y1 & Ad1 & S1). exists lf1, y1. split; [eapply advance_trans; eauto|exact S1].
    + pose proof (fire_sync lc lf y x' _ (Some ev) A C F D' R' Est) as FS. cbn [option_map] in FS. rewrite Y2, Es in FS.
      destruct (FS ltac:(discriminate)) as (_ & lf1 & y1 & Ad & S1). exists lf1, y1. auto.
Qed.

Lemma eq_scan : forall qe lc x lf y, cx_iq x = [] -> cx_eq x = qe -> dsync lc x lf y ->
  match cscan c (l_cfg lc) qe (cx_out x) with
  | (Some sel, r, out) =>
      exists lf1 y1, advance lf y lf1 y1 /\
        sync (fst (fst (cfire cv c lc {| cx_iq := []; cx_eq := r; cx_out := out |} sel)))
             (snd (fst (cfire cv c lc {| cx_iq := []; cx_eq := r; cx_out := out |} sel))) lf1 y1
  | (None, _, out) =>
      exists lf1 y1, advance lf y lf1 y1 /\ dsync lc {| cx_iq := []; cx_eq := []; cx_out := out |} lf1 y1 /\
                     x_iq y1 = [] /\ x_eq y1 = [] /\ l_stable lf1 = true
  end.
Proof.
  induction qe as [|e r IH]; intros lc x lf y Ei Eq D; cbn [cscan].
  - assert (Yi : x_iq y = []) by (destruct D as [_ [A _ _ _ _] _ _ _ _ _ _ _ _]; rewrite Ei in A; destruct (x_iq y); [reflexivity|discriminate]).
    assert (Ye : x_eq y = []) by (destruct D as [_ [_ B _ _ _] _ _ _ _ _ _ _ _]; rewrite Eq in B; destruct (x_eq y); [reflexivity|discriminate]).
    destruct (make_stable lc x lf y D Yi) as (lf1 & y1 & Ad & D1 & St & Yi1 & Ye1).
    exists lf1, y1. split; [exact Ad|].
    assert (Ex : {| cx_iq := []; cx_eq := []; cx_out := cx_out x |} = x) by (destruct x; cbn in *; now subst).
    rewrite Ex. split; [exact D1|]. split; [exact Yi1|]. split; [congruence|exact St].
  - assert (Yi : x_iq y = []) by (destruct D as [_ [A _ _ _ _] _ _ _ _ _ _ _ _]; rewrite Ei in A; destruct (x_iq y); [reflexivity|discriminate]).
    destruct (make_stable lc x lf y D Yi) as (lf0 & y0 & Ad0 & D0 & St0 & Yi0 & Ye0).
    pose proof D0 as [A B C D' E F G I J K].
    destruct (csim_pop_eq x y0 e r B Ei Eq) as (ev & yr & _ & Y1 & Y2 & Y3 & R').
    assert (Est : fstep lf0 y0 = fselect_and_step xv c lf0
                    (emit (TEv (ev_name ev)) {| x_store := x_store y0; x_iq := x_iq y0; x_eq := yr; x_out := x_out y0 |}) (Some ev))
      by (apply fstep_external; auto; now rewrite Y2).
    set (x' := {| cx_iq := []; cx_eq := r; cx_out := CEv e :: cx_out x |}) in *.
    destruct (cselect_all c (l_cfg lc) (Some e)) as [|t0 s0] eqn:Es.
    + destruct (unmatched_sync lc x lf0 y0 x' _ ev D0 R' Est) as (lf2 & y2 & Ad & D2 & _); [now rewrite Y2|].
      specialize (IH lc x' lf2 y2 eq_refl eq_refl D2). cbn [x' cx_iq cx_eq cx_out] in IH.
      destruct (cscan c (l_cfg lc) r (CEv e :: cx_out x)) as [[o r'] out']. destruct o as [sel|].
      * destruct IH as (lf1 & y1 & Ad1 & S1). exists lf1, y1.
        split; [eapply advance_trans; [exact Ad0|]; eapply advance_trans; eauto|exact S1].
      * destruct IH as (lf1 & y1 & Ad1 & S1). exists lf1, y1.
        split; [eapply advance_trans; [exact Ad0|]; eapply advance_trans; eauto|exact S1].
    + pose proof (fire_sync lc lf0 y0 x' _ (Some ev) A C F D' R' Est) as FS. cbn [option_map] in FS. rewrite Y2, Es in FS.
      destruct (FS ltac:(discriminate)) as (_ & lf1 & y1 & Ad & S1). exists lf1, y1.
      split; [eapply advance_trans; eauto|exact S1].
Qed.

(* what a call of uscxml_step() amounts to on the interpreter's side *)
Definition live_rel (lc : lstate) (x : cx) (rc : N) (lf : lstate) (y : xstate) : Prop :=
  (rc = C_ERR_OK /\ exists lf1 y1, advance lf y lf1 y1 /\ sync lc x lf1 y1) \/
  (rc = C_ERR_IDLE /\ exists lf1 y1, advance lf y lf1 y1 /\ fstep lf1 y1 = (lf1, y1, RC_IDLE) /\ sync lc x lf1 y1).
Definition step_rel (lc : lstate) (x : cx) (rc : N) (lf : lstate) (y : xstate) : Prop :=
  live_rel lc x rc lf y \/
  (rc = C_ERR_DONE /\ exists lf1 y1, fstep lf y = (lf1, y1, RC_FINISHED) /\ lsame lc lf1 /\ csim x y1).

Lemma live_rel_advance lc x rc lf y la ya : advance lf y la ya -> live_rel lc x rc la ya -> live_rel lc x rc lf y.
Proof.
  intros Ad [(E1 & lf1 & y1 & Ad1 & S)|(E1 & lf1 & y1 & Ad1 & Ei & S)].
  - left. split; [exact E1|]. exists lf1, y1. split; [eapply advance_trans; eauto|exact S].
  - right. split; [exact E1|]. exists lf1, y1. split; [eapply advance_trans; eauto|auto].
Qed.

Lemma cfire_rc l x sel : snd (cfire cv c l x sel) = C_ERR_OK.
Proof. unfold cfire. destruct (cmicrostep cv c l x _ _ sel false). reflexivity. Qed.

Lemma dequeue_sync lc x lf y : dsync lc x lf y ->
  let r := cdequeue cv c lc x in live_rel (fst (fst r)) (snd (fst r)) (snd r) lf y.
Proof.
  intros D. cbv zeta. unfold cdequeue.
  pose proof (iq_scan (cx_iq x) lc x lf y eq_refl D) as S1.
  destruct (cscan c (l_cfg lc) (cx_iq x) (cx_out x)) as [[o r] out]. destruct o as [sel|].
  - destruct S1 as (lf1 & y1 & Ad & S). left. split; [apply cfire_rc|]. now exists lf1, y1.
  - destruct S1 as (lf1 & y1 & Ad & D1 & Yi).
    pose proof (eq_scan (cx_eq x) lc {| cx_iq := []; cx_eq := cx_eq x; cx_out := out |} lf1 y1 eq_refl eq_refl D1) as S2. cbn [cx_iq cx_eq cx_out] in S2.
    destruct (cscan c (l_cfg lc) (cx_eq x) out) as [[o2 r2] out2]. destruct o2 as [sel|].
    + destruct S2 as (lf2 & y2 & Ad2 & S). left. split; [apply cfire_rc|]. exists lf2, y2.
      split; [eapply advance_trans; eauto|exact S].
    + destruct S2 as (lf2 & y2 & Ad2 & D2 & Yi2 & Ye2 & St2). right. cbn [fst snd]. split; [reflexivity|].
      exists lf2, y2. split; [eapply advance_trans; eauto|].
      destruct D2 as [A B C D' E F G I J K]. split; [apply fstep_idle; auto|].
      constructor; auto.
Qed.

(* ------------------------------------------------------------------ one call of uscxml_step() *)
Theorem step_sync lc x lf y : sync lc x lf y ->
  let r := cgen_step cv c lc x in step_rel (fst (fst r)) (snd (fst r)) (snd r) lf y.
Proof.
  intros [A B C D M]. cbv zeta. pose proof A as (A1 & A2 & A3 & A4).
  unfold cgen_step. destruct (l_fin lc) eqn:Fin.
  { right. cbn [fst snd]. split; [reflexivity|]. exists lf, y. split; [|auto].
    unfold fast_step. now rewrite <- A4. }
  destruct (l_tlf lc) eqn:Tlf.
  { right. pose proof (cterminate_sim cv xv c Hc lc lf x y A B Fin Tlf) as T. cbv zeta in T.
    unfold cgen_step in T. rewrite Fin, Tlf in T. cbn [fst snd] in T |- *.
    destruct (fstep lf y) as [[l1 y1] rc1]. cbn [fst snd] in T. destruct T as (T1 & T2 & T3 & T4 & T5). subst rc1.
    split; [reflexivity|]. exists l1, y1. auto. }
  left. destruct M as [(P1 & P2 & P3)|(I1 & I2 & Sp & Q)].
  - (* the initial step *)
    rewrite P1. left.
    assert (HH : HistOK c (l_hist lc)).
    { rewrite A2. destruct C as [(_ & _ & HHf)|(Hi & _)]; [exact HHf|]. rewrite (not_pristine lf Hi) in P2. discriminate. }
    pose proof (cinitial_sim cv xv c Htlf Hanc_sorted Hanc_bounded Hc Hentry0 lc lf x y A B P3 HH) as T. cbv zeta in T.
    assert (Est : fstep lf y = (let '(l1, x1) := fmicrostep xv c lf (emit TMsB y) (fs_completion (st c 0)) [] [] true in (l1, x1, RC_MICROSTEPPED))).
    { unfold fast_step. now rewrite <- A4, <- A3, P2. }
    pose proof (ok_step lf y C) as Ok1. rewrite Est in Ok1.
    destruct (cmicrostep cv c lc x (fs_completion (st c 0)) [] [] true) as [l1 x1].
    destruct (fmicrostep xv c lf (emit TMsB y) (fs_completion (st c 0)) [] [] true) as [l2 y2].
    cbn [fst snd] in *. destruct T as (T1 & T2 & T3 & T4 & T5 & T6 & T7 & T8).
    split; [reflexivity|]. exists l2, (emit (ftok l2) (emit (TRet RC_MICROSTEPPED) y2)).
    split; [apply (advance_step lf y l2 y2 RC_MICROSTEPPED Est); now left|].
    apply sync_emit; [reflexivity|]. apply sync_emit; [reflexivity|].
    constructor; auto; [congruence|]. right. repeat split; auto; [congruence|]. intros F. congruence.
  - rewrite (not_pristine lc I1).
    assert (Ff : l_fin lf = false) by congruence. assert (Ft : l_tlf lf = false) by congruence.
    destruct (l_spont lc) eqn:Spc.
    + (* the event-less selection *)
      assert (Est : fstep lf y = fselect_and_step xv c lf y None) by (apply fstep_spont; auto).
      destruct (cselect_all c (l_cfg lc) None) as [|t0 s0] eqn:Es.
      * (* nothing enabled: on to the queues *)
        rewrite (notfound lf y None) in Est by (cbn [option_map]; now rewrite <- A1).
        set (la := upd_flags (upd_flags lf (l_spont lf) false) false false) in *.
        pose proof (ok_step lf y C) as Oka. rewrite Est in Oka. cbn [fst] in Oka.
        assert (Da : dsync (with_spont lc false) x la (emit (ftok la) (emit (TRet RC_MICROSTEPPED) y))).
        { do 2 (apply dsync_emit; [reflexivity|]). constructor; auto. }
        apply (live_rel_advance _ _ _ lf y la (emit (ftok la) (emit (TRet RC_MICROSTEPPED) y))).
        -- apply (advance_step lf y la y RC_MICROSTEPPED Est). now left.
        -- apply (dequeue_sync _ _ _ _ Da).
      * pose proof (fire_sync lc lf y x y None A C I2 D B Est) as FS. cbn [option_map] in FS. rewrite Es in FS.
        destruct (FS ltac:(discriminate)) as (E1 & lf1 & y1 & Ad & S1).
        left. split; [exact E1|]. now exists lf1, y1.
    + apply dequeue_sync. constructor; auto.
Qed.

(* ------------------------------------------------------------------ whole runs *)
Definition final_rel (rc : lstate * cx) (rf : lstate * xstate) : Prop := lsame (fst rc) (fst rf) /\ csim (snd rc) (snd rf).

Theorem run_sync n : forall lc x lf y evs, sync lc x lf y -> Forall (fun e => e <> []) evs ->
  exists m, final_rel (crun_loop cv c n lc x evs) (frun m lf y evs).
Proof.
  induction n as [|f IH]; intros lc x lf y evs Sy Hev.
  - exists 0. cbn [crun_loop run_loop]. destruct Sy as [A B _ _ _]. split; assumption.
  - cbn [crun_loop]. pose proof (step_sync lc x lf y Sy) as SR. cbv zeta in SR.
    destruct (cgen_step cv c lc x) as [[l1 x1] rc]. cbn [fst snd] in SR.
    set (x2 := cemit (CHist (sids c (l_hist l1))) (cemit (CCfg (sids c (l_cfg l1))) (cemit (CRet rc) x1))).
    destruct SR as [[(E1 & lf1 & y1 & [k Ad] & S1)|(E1 & lf1 & y1 & [k Ad] & Ei & S1)]|(E1 & lf1 & y1 & Ef & L1 & R1)]; subst rc.
    + (* transitions taken *)
      cbn [N.eqb C_ERR_OK C_ERR_DONE C_ERR_IDLE Pos.eqb].
      assert (S2 : sync l1 x2 lf1 y1) by (unfold x2; do 3 (apply sync_cemit; [reflexivity|]); exact S1).
      destruct (IH l1 x2 lf1 y1 evs S2 Hev) as (m & Fm). exists (k + m). now rewrite Ad.
    + (* idle *)
      cbn [N.eqb C_ERR_OK C_ERR_DONE C_ERR_IDLE Pos.eqb].
      assert (S2 : sync l1 x2 lf1 (emit (ftok lf1) (emit (TRet RC_IDLE) y1))).
      { apply sync_emit; [reflexivity|]. apply sync_emit; [reflexivity|].
        unfold x2; do 3 (apply sync_cemit; [reflexivity|]); exact S1. }
      destruct evs as [|e r].
      * exists (k + 1). rewrite Ad. cbn [run_loop]. rewrite Ei. cbn [N.eqb RC_IDLE RC_FINISHED Pos.eqb].
        destruct S2 as [A B _ _ _]. split; assumption.
      * inversion Hev as [|? ? He Hr]; subst.
        assert (S3 : sync l1 {| cx_iq := cx_iq x2; cx_eq := cx_eq x2 ++ [e]; cx_out := cx_out x2 |} lf1
                          (raise_ext {| ev_name := e; ev_kind := EvExternal |} (emit (ftok lf1) (emit (TRet RC_IDLE) y1)))).
        { destruct S2 as [A B C D M]. constructor; auto. now apply csim_send. }
        destruct (IH _ _ _ _ r S3 Hr) as (m & Fm). exists (k + S m). rewrite Ad. cbn [run_loop]. rewrite Ei.
        cbn [N.eqb RC_IDLE RC_FINISHED Pos.eqb]. exact Fm.
    + (* finished *)
      cbn [N.eqb C_ERR_OK C_ERR_DONE C_ERR_IDLE Pos.eqb]. exists 1. cbn [run_loop]. rewrite Ef.
      cbn [N.eqb RC_FINISHED Pos.eqb fst snd]. split; [exact L1|]. cbn [snd].
      do 2 (apply csim_emit; [reflexivity|]). unfold x2. do 3 (apply csim_cemit; [reflexivity|]). exact R1.
Qed.

Lemma sync_pristine : sync l_pristine cx_init l_pristine x_init.
Proof.
  constructor.
  - unfold lsame. auto.
  - constructor; cbn; auto.
  - apply pristine_ok_h.
  - reflexivity.
  - left. auto.
Qed.

Theorem crun_generic n evs : Forall (fun e => e <> []) evs ->
  exists m, final_rel (crun_loop cv c n l_pristine cx_init evs) (frun m l_pristine x_init evs).
Proof. intros Hev. apply run_sync; [apply sync_pristine|exact Hev]. Qed.

End Run.

(* ------------------------------------------------------------------ the history-free core: every variant of the template *)
Section CoreRun.
Variable cv : cg_variant.
Variable xv : ex_variant.
Variable c : fchart.
Hypothesis Htlf : cg_tlf_first_byte cv = false.
Hypothesis H : wf_coreb c = true.
Hypothesis Hroot : fs_type (st c 0) = FCompound.
Hypothesis Hc : chart_c c = true.

Let Hfast : wf_fastb c = true := wf_initb_histb c (wf_coreb_initb c H).

Theorem cfire_core lc lf x y ev :
  lsame lc lf -> csim x y -> LegalCfg c (l_cfg lf) ->
  cselect_all c (l_cfg lc) (option_map ev_name ev) <> [] ->
  let r1 := cfire cv c lc x (cselect_all c (l_cfg lc) (option_map ev_name ev)) in
  let r2 := fselect_and_step xv c lf y ev in
  lsame (fst (fst r1)) (fst (fst r2)) /\ csim (snd (fst r1)) (snd (fst r2)) /\ snd r1 = C_ERR_OK /\ snd r2 = RC_MICROSTEPPED.
Proof.
  intros L R Ok Hne. cbv zeta.
  destruct (cfire_sim cv xv c Htlf (core_anc_sorted c H) (core_anc_bounded c H) Hc (core_rem cv c H) (fun l => LegalCfg c (l_cfg l)) (core_entry cv c H)
              lc lf x y ev L R Ok Hne) as (A & B & C & D & _). auto.
Qed.

Theorem step_sync_core lc x lf y : sync c lc x lf y ->
  let r := cgen_step cv c lc x in step_rel xv c (fst (fst r)) (snd (fst r)) (snd r) lf y.
Proof.
  apply (step_sync cv xv c Htlf Hfast Hroot Hc (core_anc_sorted c H) (core_anc_bounded c H) (core_rem cv c H)
           (fun l => LegalCfg c (l_cfg l)) (core_ok c H) (core_entry cv c H) (core_entry0 cv c H Hroot)).
Qed.

Theorem crun_lemma n evs : Forall (fun e => e <> []) evs ->
  exists m, final_rel (crun_loop cv c n l_pristine cx_init evs)
                      (run_loop c lstate (fast_step xv c) l_cfg m l_pristine x_init evs).
Proof.
  apply (crun_generic cv xv c Htlf Hfast Hroot Hc (core_anc_sorted c H) (core_anc_bounded c H) (core_rem cv c H)
           (fun l => LegalCfg c (l_cfg l)) (core_ok c H) (core_entry cv c H) (core_entry0 cv c H Hroot)).
Qed.

End CoreRun.
