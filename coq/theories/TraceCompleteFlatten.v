(* TraceCompleteFlatten.v -- C13 completeness: the flat tables built from ANY document tree (Chart.flatten =
   LargeMicroStep::init) have no dangling state index and a strictly ascending root completion, so that for
   documents the only conditions left are: state ids identify states, no <raise> with an empty event name. *)
From V Require Import Base NameMatch Chart Exec Large Interp Trace TraceLemmas SetLemmas Tables TreeLemmas Fast
     TraceComplete TraceCompleteBase TraceCompleteMicro TraceCompleteStep TraceCompleteRun TraceCompleteFast.
From Coq Require Import ZifyBool.
Local Open Scope nat_scope.

Lemma filter_map_In {A B} (f : A -> option B) l y : In y (filter_map f l) -> exists x, In x l /\ f x = Some y.
Proof.
  induction l as [|a r IH]; cbn [filter_map]; [intros []|].
  destruct (f a) as [b|] eqn:E.
  - intros [<-|H]; [exists a; split; [now left | exact E]|]. destruct (IH H) as (x & Hx & Hf). exists x. split; [now right | exact Hf].
  - intros H. destruct (IH H) as (x & Hx & Hf). exists x. split; [now right | exact Hf].
Qed.

Lemma nat_of_sid_range ids s x N : (forall p, In p ids -> snd p < N) -> nat_of_sid ids s = Some x -> x < N.
Proof.
  intros H. unfold nat_of_sid. destruct (find _ ids) as [p|] eqn:E; [|discriminate].
  intros Hx. inversion Hx; subst. apply find_some in E. apply H, E.
Qed.

Lemma in_combine_snd {A B} (l : list A) (l' : list B) p : In p (combine l l') -> In (snd p) l'.
Proof. destruct p as [a b]. apply in_combine_r. Qed.

Lemma completion_of_range nodes ids i t parent kid_idx N :
  (forall x, In x kid_idx -> x < N) -> (forall p, In p ids -> snd p < N) -> length nodes <= N ->
  (forall p, parent = Some p -> p + tsize (fst (nth p nodes (t, None))) <= N) ->
  forall x, In x (completion_of nodes ids i t parent kid_idx) -> x < N.
Proof.
  intros Hk Hi Hn Hp x. unfold completion_of.
  assert (Hdef : In x (match t_initattr t with
      | Some l => set_of_list (filter_map (nat_of_sid ids) l)
      | None =>
        match find (fun p => match t_kind (fst p) with KInitial => true | _ => false end) (combine (t_kids t) kid_idx) with
        | Some p => [snd p]
        | None =>
          match find (fun p => is_proper_kind (t_kind (fst p))) (combine (t_kids t) kid_idx) with
          | Some p => [snd p]
          | None => []
          end
        end
      end) -> x < N).
  { destruct (t_initattr t) as [l|].
    - intros H. apply (proj1 (In_set_of_list _ _)) in H. apply filter_map_In in H. destruct H as (s & _ & Hs).
      eapply nat_of_sid_range; eassumption.
    - destruct (find _ (combine (t_kids t) kid_idx)) as [p|] eqn:E1.
      + intros [<-|[]]. apply find_some in E1. apply Hk. eapply in_combine_snd. apply E1.
      + destruct (find (fun p => is_proper_kind (t_kind (fst p))) (combine (t_kids t) kid_idx)) as [p|] eqn:E2; [|intros []].
        intros [<-|[]]. apply find_some in E2. apply Hk. eapply in_combine_snd. apply E2. }
  destruct (t_kind t); try exact Hdef.
  - (* parallel *)
    intros H. apply filter_map_In in H. destruct H as (p & Hin & Hf).
    destruct (is_proper_kind (t_kind (fst p))); [|discriminate]. inversion Hf; subst.
    apply Hk. eapply in_combine_snd. exact Hin.
  - (* shallow history *)
    destruct parent as [p|]; [|intros []]. intros H. apply filter_map_In in H. destruct H as (j & Hj & Hf).
    apply in_seq in Hj.
    destruct (nth j nodes (t, None)) as [tj [pj|]]; [|discriminate].
    destruct (_ && _); [|discriminate]. inversion Hf; subst. lia.
  - (* deep history *)
    destruct parent as [p|]; [|intros []]. intros H. apply filter_In in H. destruct H as [H _].
    apply in_seq in H. specialize (Hp p eq_refl). lia.
Qed.

Lemma child_indices_ge kids : forall s b, In b (child_indices kids s) -> s <= b.
Proof. intros s b H. apply child_indices_spec in H. destruct H as (k & c & _ & ->). lia. Qed.

Lemma child_indices_ssorted kids : forall s, ssorted (child_indices kids s).
Proof.
  induction kids as [|x r IH]; intros s; cbn [child_indices ssorted]; [exact I|]. split; [|apply IH].
  intros y Hy. apply child_indices_ge in Hy. pose proof (tsize_pos x). lia.
Qed.

Lemma combine_filter_map_ssorted {A} (g : A -> bool) : forall (kids : list A) idx, ssorted idx ->
  ssorted (filter_map (fun p => if g (fst p) then Some (snd p) else None) (combine kids idx)) /\
  (forall y, In y (filter_map (fun p => if g (fst p) then Some (snd p) else None) (combine kids idx)) -> In y idx).
Proof.
  induction kids as [|k r IH]; intros idx Hs; [split; [exact I | intros y []]|].
  destruct idx as [|i ri]; [split; [exact I | intros y []]|]. cbn [combine filter_map fst snd ssorted] in *.
  destruct Hs as [H1 H2]. destruct (IH ri H2) as [IH1 IH2].
  destruct (g k).
  - cbn [ssorted]. split; [split; [|exact IH1]|].
    + intros y Hy. apply H1. now apply IH2.
    + intros y [<-|Hy]; [now left | right; now apply IH2].
  - split; [exact IH1|]. intros y Hy. right. now apply IH2.
Qed.

Lemma completion_of_root_ssorted nodes ids t kids_idx :
  ssorted kids_idx -> ssorted (completion_of nodes ids 0 t None kids_idx).
Proof.
  intros Hs. unfold completion_of.
  assert (Hdef : ssorted (match t_initattr t with
      | Some l => set_of_list (filter_map (nat_of_sid ids) l)
      | None =>
        match find (fun p => match t_kind (fst p) with KInitial => true | _ => false end) (combine (t_kids t) kids_idx) with
        | Some p => [snd p]
        | None =>
          match find (fun p => is_proper_kind (t_kind (fst p))) (combine (t_kids t) kids_idx) with
          | Some p => [snd p]
          | None => []
          end
        end
      end)).
  { destruct (t_initattr t) as [l|].
    - unfold set_of_list. apply ssorted_fold_insert. exact I.
    - destruct (find _ (combine (t_kids t) kids_idx)); [split; [intros ? [] | exact I]|].
      destruct (find _ (combine (t_kids t) kids_idx)); [split; [intros ? [] | exact I] | exact I]. }
  destruct (t_kind t); try exact Hdef; try exact I.
  apply (combine_filter_map_ssorted (fun k => is_proper_kind (t_kind k))). exact Hs.
Qed.

Section Flat.
Variable late : bool.
Variable t0 : tree.
Let root := resort t0.
Let c := flatten late t0.
Let n := tsize root.
Let nodes := doc_nodes root 0 None.
Let ids := map (fun p => (t_sid (fst (fst p)), snd p)) (combine nodes (seq 0 (length nodes))).

Lemma ids_range p : In p ids -> snd p < n.
Proof.
  unfold ids. intros H. apply in_map_iff in H. destruct H as (q & <- & Hq). cbn [snd].
  apply in_combine_snd in Hq. apply in_seq in Hq.
  assert (length nodes = n) by apply (nodes_length root). lia.
Qed.

Lemma flat_completion i : i < n ->
  let u := subd root (pth_of root i) in
  fs_completion (st c i) = completion_of nodes ids i u (ppar root 0 None (pth_of root i)) (child_indices (t_kids u) (S i)).
Proof.
  intros Hi u. unfold st, c, flatten. cbn [fc_states].
  fold root. fold nodes.
  assert (Hlen : length nodes = n) by apply (nodes_length root).
  rewrite (map_nth' _ dummy_state ((dummy_tree, None), 0))
    by (rewrite combine_length, seq_length, Nat.min_id, Hlen; exact Hi).
  assert (Hn : nth i (combine nodes (seq 0 (length nodes))) (dummy_tree, None, 0) = (nd nodes i, i)).
  { apply nth_combine_seq. rewrite Hlen. exact Hi. }
  rewrite Hn. pose proof (nd_nodes root i Hi) as Hnd. change (nodes_of root) with nodes in Hnd. fold u in Hnd. rewrite Hnd.
  reflexivity.
Qed.

Lemma flat_state_range i : i < n ->
  in_range c (fs_completion (st c i)) /\ in_range c (fs_ancestors (st c i)).
Proof.
  intros Hi.
  destruct (tree_interval_flatten late t0) as (Hns & Hsz & _ & Hpar & _ & Hch & _).
  fold root c in Hns, Hsz, Hpar, Hch. fold n in Hns, Hsz, Hpar, Hch.
  destruct (st_flatten late t0 i Hi) as (Hp & Hc & Ha & _). fold root c in Hp, Hc, Ha.
  split.
  - rewrite (flat_completion i Hi). cbn zeta. unfold in_range. rewrite Hns.
    apply completion_of_range.
    + intros x Hx. rewrite <- Hc in Hx. apply (Hch i x Hi) in Hx. apply Hx.
    + apply ids_range.
    + rewrite (nodes_length root : length nodes = n). lia.
    + intros p Hpp. rewrite <- Hp in Hpp. destruct (Hpar p i Hi Hpp) as [Hlt _].
      assert (Hpn : p < n) by lia.
      destruct (Hsz p Hpn) as [_ Hle].
      destruct (st_flatten late t0 p Hpn) as (_ & _ & _ & Hs & _). fold root c in Hs. rewrite Hs in Hle.
      replace (fst (nth p nodes (subd root (pth_of root i), None))) with (subd root (pth_of root p)); [exact Hle|].
      rewrite (nth_indep nodes _ (dummy_tree, None)) by (rewrite (nodes_length root : length nodes = n); exact Hpn).
      pose proof (nd_nodes root p Hpn) as Hnd. unfold nd in Hnd. change (nodes_of root) with nodes in Hnd. now rewrite Hnd.
  - intros a Ha'. rewrite Ha in Ha'. fold n in Ha'. apply (ancestors_of_prefix t0) in Ha'; [|exact Hi].
    rewrite Hns. apply Ha'.
Qed.

Lemma flatten_refs_in_range : refs_in_rangeb c = true.
Proof.
  assert (Hns : nstates c = n) by apply flatten_nstates.
  unfold refs_in_rangeb. apply andb_true_iff. split.
  - apply forallb_forall. intros s Hs. apply (In_nth _ _ dummy_state) in Hs. destruct Hs as (i & Hi & <-).
    change (nth i (fc_states c) dummy_state) with (st c i).
    change (length (fc_states c)) with (nstates c) in Hi. rewrite Hns in Hi.
    destruct (flat_state_range i Hi) as [H1 H2].
    apply andb_true_iff. split; apply all_lt_spec; assumption.
  - apply forallb_forall. intros t Ht. unfold c, flatten in Ht. cbn [fc_trans] in Ht.
    apply in_map_iff in Ht. destruct Ht as (q & <- & _). apply all_lt_spec. intros x Hx.
    unfold mk_trans in Hx. cbn [ft_targets] in Hx. destruct (tt_targets (snd (fst q))) as [l|]; [|destruct Hx].
    apply filter_map_In in Hx. destruct Hx as (s & _ & Hs). rewrite Hns.
    eapply nat_of_sid_range; [|exact Hs]. fold root. fold nodes. apply ids_range.
Qed.

Lemma flatten_root_completion_sorted : ascb (fs_completion (st c 0)) = true.
Proof.
  assert (H0 : 0 < n) by (unfold n; pose proof (tsize_pos root); lia).
  apply ascb_ssorted. rewrite (flat_completion 0 H0). cbn zeta.
  replace (ppar root 0 None (pth_of root 0)) with (@None nat).
  - apply completion_of_root_ssorted. apply child_indices_ssorted.
  - destruct (tree_interval_flatten late t0) as (_ & _ & _ & _ & Hroot & _).
    destruct (st_flatten late t0 0 H0) as (Hp & _). fold root c in Hp, Hroot. rewrite <- Hp.
    symmetry. apply Hroot; [exact H0 | reflexivity].
Qed.

Lemma flatten_report_okb : sids_distinctb c = true -> report_okb c = true.
Proof.
  intros H. unfold report_okb. rewrite H, flatten_refs_in_range, flatten_root_completion_sorted. reflexivity.
Qed.

End Flat.

(* for every document tree whose state ids identify states and which raises no unnamed event *)
Theorem run_large_complete_tree lv xv late t evs fuel :
  sids_distinctb (flatten late t) = true -> raise_names_okb (flatten late t) = true ->
  trace_completeb (sid_pos (flatten late t)) (fst (run_large lv xv late t evs fuel)) = true.
Proof. intros H1 H2. apply run_large_complete; [now apply flatten_report_okb | exact H2]. Qed.

Theorem run_fast_complete_tree xv late t evs fuel :
  sids_distinctb (flatten late t) = true -> raise_names_okb (flatten late t) = true ->
  trace_completeb (sid_pos (flatten late t)) (fst (run_fast xv late t evs fuel)) = true.
Proof. intros H1 H2. apply run_fast_complete; [now apply flatten_report_okb | exact H2]. Qed.

(* the event reports of a run are exactly the names of the events its steps dequeue, in that order *)
Theorem run_large_events_tree lv xv late t evs fuel :
  sids_distinctb (flatten late t) = true -> raise_names_okb (flatten late t) = true ->
  ev_of (fst (run_large lv xv late t evs fuel)) =
  flat_map deq_names (run_deq (large_step lv xv (flatten late t)) (flatten late t) fuel l_pristine x_init evs).
Proof.
  intros H1 H2. unfold run_large.
  pose proof (large_run_events lv xv (flatten late t) evs fuel (flatten_report_okb late t H1) H2) as H.
  destruct (run_loop (flatten late t) lstate (large_step lv xv (flatten late t)) l_cfg fuel l_pristine x_init evs) as [l x].
  exact H.
Qed.

Theorem run_fast_events_tree xv late t evs fuel :
  sids_distinctb (flatten late t) = true -> raise_names_okb (flatten late t) = true ->
  ev_of (fst (run_fast xv late t evs fuel)) =
  flat_map deq_names (run_deq (fast_step xv (flatten late t)) (flatten late t) fuel l_pristine x_init evs).
Proof.
  intros H1 H2. unfold run_fast.
  pose proof (fast_run_events xv (flatten late t) evs fuel (flatten_report_okb late t H1) H2) as H.
  destruct (run_loop (flatten late t) lstate (fast_step xv (flatten late t)) l_cfg fuel l_pristine x_init evs) as [l x].
  exact H.
Qed.

(* the queue discipline of the next step, from every state a run of a document reaches *)
Theorem large_reached_step_queues lv xv late t evs fuel more :
  sids_distinctb (flatten late t) = true -> raise_names_okb (flatten late t) = true ->
  let c := flatten late t in
  let r := run_loop c lstate (large_step lv xv c) l_cfg fuel l_pristine x_init evs in
  let x := fold_left (fun x e => raise_ext e x) more (snd r) in     (* events handed in meanwhile *)
  queue_effect (dequeues (fst r) x) x (snd (fst (large_step lv xv c (fst r) x))).
Proof.
  intros H1 H2. cbn zeta.
  pose proof (flatten_report_okb late t H1) as Hrep. apply report_okb_parts in Hrep. destruct Hrep as (Ha & Hb & Hc).
  assert (Hstep : forall l x, ssorted (l_cfg l) -> in_range (flatten late t) (l_cfg l) -> iq_named x ->
     exists sk, reports x (snd (fst (large_step lv xv (flatten late t) l x))) sk /\
                qeffect (flatten late t) (dequeues l x) x (snd (fst (large_step lv xv (flatten late t) l x))) /\
                step_shape (flatten late t) l (snd (large_step lv xv (flatten late t) l x))
                           (fst (fst (large_step lv xv (flatten late t) l x))) (map TEv (deq_names (dequeues l x))) sk).
  { intros l x Hs Hr Hn. exact (large_step_shape lv xv (flatten late t) Hb l x Hs Hr Hc H2 Hn). }
  destruct (run_loop_invariants (flatten late t) (large_step lv xv (flatten late t)) Ha Hstep H2 fuel evs) as (I1 & I2 & I3 & _).
  apply large_step_queues; auto.
  clear -I3. revert I3. generalize (snd (run_loop (flatten late t) lstate (large_step lv xv (flatten late t)) l_cfg fuel l_pristine x_init evs)).
  induction more as [|e r IH]; intros x Hx; cbn [fold_left]; [exact Hx|].
  apply IH. now apply (iq_named_same x).
Qed.

Theorem fast_reached_step_queues xv late t evs fuel more :
  sids_distinctb (flatten late t) = true -> raise_names_okb (flatten late t) = true ->
  let c := flatten late t in
  let r := run_loop c lstate (fast_step xv c) l_cfg fuel l_pristine x_init evs in
  let x := fold_left (fun x e => raise_ext e x) more (snd r) in
  queue_effect (dequeues (fst r) x) x (snd (fst (fast_step xv c (fst r) x))).
Proof.
  intros H1 H2. cbn zeta.
  pose proof (flatten_report_okb late t H1) as Hrep. apply report_okb_parts in Hrep. destruct Hrep as (Ha & Hb & Hc).
  assert (Hstep : forall l x, ssorted (l_cfg l) -> in_range (flatten late t) (l_cfg l) -> iq_named x ->
     exists sk, reports x (snd (fst (fast_step xv (flatten late t) l x))) sk /\
                qeffect (flatten late t) (dequeues l x) x (snd (fst (fast_step xv (flatten late t) l x))) /\
                step_shape (flatten late t) l (snd (fast_step xv (flatten late t) l x))
                           (fst (fst (fast_step xv (flatten late t) l x))) (map TEv (deq_names (dequeues l x))) sk).
  { intros l x Hs Hr Hn. exact (fast_step_shape xv (flatten late t) Hb l x Hs Hr Hc H2 Hn). }
  destruct (run_loop_invariants (flatten late t) (fast_step xv (flatten late t)) Ha Hstep H2 fuel evs) as (I1 & I2 & I3 & _).
  apply fast_step_queues; auto.
  clear -I3. revert I3. generalize (snd (run_loop (flatten late t) lstate (fast_step xv (flatten late t)) l_cfg fuel l_pristine x_init evs)).
  induction more as [|e r IH]; intros x Hx; cbn [fold_left]; [exact Hx|].
  apply IH. now apply (iq_named_same x).
Qed.
