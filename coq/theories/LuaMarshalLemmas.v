(* LuaMarshalLemmas.v -- proofs about the model in LuaMarshal.v (C16). *)
From V Require Import Base GenLuaProtected LuaMarshal.
Local Open Scope N_scope.

(* the regenerated guard list covers every system variable the property names *)
Lemma protected_covers_system_vars_lemma :
  lua_guard_first = true /\ forall s, In s system_vars -> is_protected s = true.
Proof.
  split; [reflexivity|].
  intros s H. repeat (destruct H as [<-|H]; [vm_compute; reflexivity|]). destruct H.
Qed.
