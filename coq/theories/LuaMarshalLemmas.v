(* LuaMarshalLemmas.v -- proofs about the model in LuaMarshal.v (C16). *)
From V Require Import Base GenLuaProtected LuaMarshal.
From Coq Require Import DecimalN DecimalZ DecimalPos DecimalFacts.
Local Open Scope N_scope.

(* ================================================================== byte strings *)

Lemma beq_bytes_refl : forall a, beq_bytes a a = true.
Proof. induction a as [|x a IH]; simpl; [reflexivity|]. rewrite N.eqb_refl, IH. reflexivity. Qed.

Lemma beq_bytes_eq : forall a b, beq_bytes a b = true <-> a = b.
Proof.
  induction a as [|x a IH]; destruct b as [|y b]; simpl; split; intro H; try reflexivity; try discriminate.
  - apply andb_true_iff in H. destruct H as [H1 H2]. apply N.eqb_eq in H1. apply IH in H2. subst. reflexivity.
  - inversion H; subst. rewrite N.eqb_refl. simpl. apply beq_bytes_refl.
Qed.

Lemma beq_bytes_neq : forall a b, beq_bytes a b = false <-> a <> b.
Proof.
  intros a b. split; intro H.
  - intro E. apply beq_bytes_eq in E. congruence.
  - destruct (beq_bytes a b) eqn:E; [|reflexivity]. apply beq_bytes_eq in E. contradiction.
Qed.

Lemma bytes_cmp_eq : forall a b, bytes_cmp a b = Eq <-> a = b.
Proof.
  induction a as [|x a IH]; destruct b as [|y b]; simpl; split; intro H; try reflexivity; try discriminate.
  - destruct (N.compare x y) eqn:E; try discriminate. apply N.compare_eq in E. apply IH in H. subst. reflexivity.
  - inversion H; subst. rewrite N.compare_refl. apply IH. reflexivity.
Qed.

Lemma bytes_cmp_refl : forall a, bytes_cmp a a = Eq.
Proof. intro a. apply bytes_cmp_eq. reflexivity. Qed.

Lemma bytes_cmp_antisym : forall a b, bytes_cmp b a = CompOpp (bytes_cmp a b).
Proof.
  induction a as [|x a IH]; destruct b as [|y b]; simpl; try reflexivity.
  rewrite (N.compare_antisym x y). destruct (N.compare x y); simpl; auto.
Qed.

Lemma bytes_cmp_lt_gt : forall a b, bytes_cmp a b = Lt -> bytes_cmp b a = Gt.
Proof. intros a b H. rewrite bytes_cmp_antisym, H. reflexivity. Qed.

Lemma bytes_cmp_gt_lt : forall a b, bytes_cmp a b = Gt -> bytes_cmp b a = Lt.
Proof. intros a b H. rewrite bytes_cmp_antisym, H. reflexivity. Qed.

Lemma bytes_cmp_lt_trans : forall a b c, bytes_cmp a b = Lt -> bytes_cmp b c = Lt -> bytes_cmp a c = Lt.
Proof.
  induction a as [|x a IH]; destruct b as [|y b]; destruct c as [|z c]; simpl; intros H1 H2; try discriminate; try reflexivity.
  destruct (N.compare x y) eqn:E1; try discriminate.
  - apply N.compare_eq in E1. subst y.
    destruct (N.compare x z) eqn:E2; try discriminate; try reflexivity.
    eapply IH; eassumption.
  - destruct (N.compare y z) eqn:E2; try discriminate.
    + apply N.compare_eq in E2. subst z. rewrite E1. reflexivity.
    + assert (N.compare x z = Lt) as ->; [|reflexivity].
      apply N.compare_lt_iff. apply N.compare_lt_iff in E1. apply N.compare_lt_iff in E2. eapply N.lt_trans; eassumption.
Qed.

(* ================================================================== std::map as sorted list *)

Section SMapFacts.
  Context {X : Type}.

  (* every key of [m] is greater than [k] *)
  Definition all_gt (k : bytes) (m : smap X) : Prop := Forall (fun kx => bytes_cmp k (fst kx) = Lt) m.
  (* every key of [m] is smaller than [k] *)
  Definition all_lt (k : bytes) (m : smap X) : Prop := Forall (fun kx => bytes_cmp (fst kx) k = Lt) m.

  Inductive ssorted : smap X -> Prop :=
  | ss_nil : ssorted []
  | ss_cons : forall k x m, all_gt k m -> ssorted m -> ssorted ((k, x) :: m).

  Lemma all_gt_trans : forall k k' (m : smap X), bytes_cmp k k' = Lt -> all_gt k' m -> all_gt k m.
  Proof.
    intros k k' m H A. unfold all_gt in *. rewrite Forall_forall in *. intros kx I.
    eapply bytes_cmp_lt_trans; [exact H|]. apply A. exact I.
  Qed.

  Lemma smap_insert_all_gt : forall k k' (x : X) m,
    bytes_cmp k k' = Lt -> all_gt k m -> all_gt k (smap_insert k' x m).
  Proof.
    intros k k' x m H A. induction m as [|[k2 x2] m IH]; simpl.
    - constructor; [exact H|constructor].
    - inversion A; subst. destruct (bytes_cmp k' k2).
      + exact A.
      + constructor; [exact H|exact A].
      + constructor; [assumption|]. apply IH. assumption.
  Qed.

  Lemma smap_insert_sorted : forall k (x : X) m, ssorted m -> ssorted (smap_insert k x m).
  Proof.
    intros k x m S. induction S as [|k2 x2 m A S IH]; simpl.
    - constructor; constructor.
    - destruct (bytes_cmp k k2) eqn:E.
      + constructor; assumption.
      + constructor; [|constructor; assumption].
        constructor; [exact E|]. eapply all_gt_trans; eassumption.
      + constructor; [|exact IH]. apply smap_insert_all_gt; [|exact A]. apply bytes_cmp_gt_lt. exact E.
  Qed.

  Lemma smap_set_all_gt : forall k k' (x : X) m,
    bytes_cmp k k' = Lt -> all_gt k m -> all_gt k (smap_set k' x m).
  Proof.
    intros k k' x m H A. induction m as [|[k2 x2] m IH]; simpl.
    - constructor; [exact H|constructor].
    - inversion A; subst. destruct (bytes_cmp k' k2).
      + constructor; [exact H|assumption].
      + constructor; [exact H|exact A].
      + constructor; [assumption|]. apply IH. assumption.
  Qed.

  Lemma smap_set_sorted : forall k (x : X) m, ssorted m -> ssorted (smap_set k x m).
  Proof.
    intros k x m S. induction S as [|k2 x2 m A S IH]; simpl.
    - constructor; constructor.
    - destruct (bytes_cmp k k2) eqn:E.
      + apply bytes_cmp_eq in E. subst k2. constructor; assumption.
      + constructor; [|constructor; assumption].
        constructor; [exact E|]. eapply all_gt_trans; eassumption.
      + constructor; [|exact IH]. apply smap_set_all_gt; [|exact A]. apply bytes_cmp_gt_lt. exact E.
  Qed.

  (* inserting a key greater than all present keys appends *)
  Lemma smap_insert_append : forall k (x : X) m, all_lt k m -> smap_insert k x m = m ++ [(k, x)].
  Proof.
    intros k x m A. induction m as [|[k2 x2] m IH]; simpl; [reflexivity|].
    inversion A; subst. simpl in H1. rewrite (bytes_cmp_lt_gt _ _ H1). rewrite IH; [reflexivity|assumption].
  Qed.

  Lemma smap_of_list_sorted : forall (l : list (bytes * X)), ssorted (smap_of_list l).
  Proof.
    intro l. unfold smap_of_list.
    assert (G : forall acc, ssorted acc -> ssorted (fold_left (fun m kx => smap_insert (fst kx) (snd kx) m) l acc)).
    { induction l as [|[k x] l IH]; simpl; intros acc S; [exact S|]. apply IH. apply smap_insert_sorted. exact S. }
    apply G. constructor.
  Qed.

  Lemma smap_insert_in : forall k (x : X) m kx, In kx (smap_insert k x m) -> kx = (k, x) \/ In kx m.
  Proof.
    intros k x m kx. induction m as [|[k2 x2] m IH]; simpl; intro H.
    - destruct H as [H|[]]. left. symmetry. exact H.
    - destruct (bytes_cmp k k2); simpl in H.
      + right. exact H.
      + destruct H as [H|H]; [left; symmetry; exact H|right; exact H].
      + destruct H as [H|H]; [right; left; exact H|]. destruct (IH H) as [E|I]; [left; exact E|right; right; exact I].
  Qed.

  Lemma smap_of_list_in : forall (l : list (bytes * X)) kx, In kx (smap_of_list l) -> In kx l.
  Proof.
    intros l kx. unfold smap_of_list.
    assert (G : forall acc, In kx (fold_left (fun m kx => smap_insert (fst kx) (snd kx) m) l acc) -> In kx acc \/ In kx l).
    { induction l as [|[k x] l IH]; simpl; intros acc H; [left; exact H|].
      destruct (IH _ H) as [I|I]; [|right; right; exact I].
      destruct (smap_insert_in _ _ _ _ I) as [E|I2]; [right; left; symmetry; exact E|left; exact I2]. }
    intro H. destruct (G [] H) as [[]|I]. exact I.
  Qed.

  Lemma smap_insert_nonempty : forall k (x : X) m, smap_insert k x m <> [].
  Proof. intros k x [|[k2 x2] m]; simpl; [discriminate|]. destruct (bytes_cmp k k2); discriminate. Qed.

  Lemma fold_insert_nonempty : forall (l : list (bytes * X)) acc, acc <> [] ->
    fold_left (fun m kx => smap_insert (fst kx) (snd kx) m) l acc <> [].
  Proof.
    induction l as [|[k x] l IH]; simpl; intros acc A; [exact A|]. apply IH. apply smap_insert_nonempty.
  Qed.

  Lemma smap_of_list_nonempty : forall (l : list (bytes * X)), l <> [] -> smap_of_list l <> [].
  Proof.
    intros l H. unfold smap_of_list.
    destruct l as [|[k x] l]; [contradiction|]. simpl. apply fold_insert_nonempty. discriminate.
  Qed.

  (* a sorted map is rebuilt unchanged by inserting its items in order *)
  Lemma ssorted_all_lt_snoc : forall (m : smap X) k x, ssorted (m ++ [(k, x)]) -> all_lt k m.
  Proof.
    induction m as [|[k2 x2] m IH]; simpl; intros k x S; [constructor|].
    inversion S; subst. constructor.
    - simpl. unfold all_gt in H1. rewrite Forall_forall in H1. apply (H1 (k, x)). apply in_or_app. right. left. reflexivity.
    - eapply IH. eassumption.
  Qed.

  Lemma ssorted_app_l : forall (a b : smap X), ssorted (a ++ b) -> ssorted a.
  Proof.
    induction a as [|[k x] a IH]; simpl; intros b S; [constructor|].
    inversion S; subst. constructor.
    - unfold all_gt in *. rewrite Forall_forall in *. intros kx I. apply H1. apply in_or_app. left. exact I.
    - eapply IH. eassumption.
  Qed.

  Lemma fold_insert_sorted_id : forall (m acc : smap X),
    ssorted (acc ++ m) ->
    fold_left (fun a kx => smap_insert (fst kx) (snd kx) a) m acc = acc ++ m.
  Proof.
    induction m as [|[k x] m IH]; simpl; intros acc S; [rewrite List.app_nil_r; reflexivity|].
    assert (S' : ssorted ((acc ++ [(k, x)]) ++ m)) by (rewrite <- List.app_assoc; exact S).
    rewrite smap_insert_append.
    - rewrite IH; [rewrite <- List.app_assoc; reflexivity|exact S'].
    - eapply ssorted_all_lt_snoc. eapply ssorted_app_l. exact S'.
  Qed.

  Lemma smap_of_list_sorted_id : forall (m : smap X), ssorted m -> smap_of_list m = m.
  Proof. intros m S. unfold smap_of_list. apply (fold_insert_sorted_id m []). exact S. Qed.

  (* m[k] after m[k] = x, and after m[k'] = x *)
  Lemma smap_get_set_same : forall k (x : X) m, smap_get k (smap_set k x m) = Some x.
  Proof.
    intros k x m. induction m as [|[k2 x2] m IH]; simpl.
    - rewrite beq_bytes_refl. reflexivity.
    - destruct (bytes_cmp k k2) eqn:E; simpl.
      + rewrite beq_bytes_refl. reflexivity.
      + rewrite beq_bytes_refl. reflexivity.
      + destruct (beq_bytes k k2) eqn:B; [|exact IH].
        apply beq_bytes_eq in B. subst. rewrite bytes_cmp_refl in E. discriminate.
  Qed.

  Lemma smap_get_set_other : forall k k' (x : X) m, k <> k' -> smap_get k (smap_set k' x m) = smap_get k m.
  Proof.
    intros k k' x m N. apply beq_bytes_neq in N. induction m as [|[k2 x2] m IH]; simpl.
    - rewrite N. reflexivity.
    - destruct (bytes_cmp k' k2) eqn:E; simpl.
      + apply bytes_cmp_eq in E. subst k2. rewrite N. reflexivity.
      + rewrite N. reflexivity.
      + rewrite IH. reflexivity.
  Qed.
End SMapFacts.

(* ================================================================== decimal numerals *)

Lemma is_digit_range : forall c, is_digit c = true -> 48 <= c <= 57.
Proof. intros c H. unfold is_digit in H. apply andb_true_iff in H. destruct H as [A B]. apply N.leb_le in A, B. lia. Qed.

Lemma bytes_of_uint_digits : forall u, forallb is_digit (bytes_of_uint u) = true.
Proof. induction u; simpl; auto. Qed.

Lemma scan_uint_bytes_of_uint : forall u, scan_uint (bytes_of_uint u) = u.
Proof. induction u; simpl; try reflexivity; rewrite IHu; reflexivity. Qed.

Lemma forallb_impl : forall (A : Type) (p q : A -> bool) l, (forall x, p x = true -> q x = true) -> forallb p l = true -> forallb q l = true.
Proof.
  intros A p q l H. induction l as [|x l IH]; simpl; [reflexivity|]. intro E. apply andb_true_iff in E. destruct E as [E1 E2].
  rewrite (H _ E1), (IH E2). reflexivity.
Qed.

Lemma digits_no_dot : forall l, forallb is_digit l = true -> existsb (fun c => c =? c_dot) l = false.
Proof.
  induction l as [|c l IH]; simpl; [reflexivity|]. intro H. apply andb_true_iff in H. destruct H as [H1 H2].
  rewrite (IH H2). apply is_digit_range in H1. unfold c_dot. destruct (N.eqb_spec c 46); [lia|reflexivity].
Qed.

Lemma digit_is_integer_char : forall c, is_digit c = true -> (c =? c_minus) || is_digit c = true.
Proof. intros c H. rewrite H. apply orb_true_r. Qed.

Lemma digit_is_numeric_char : forall c, is_digit c = true -> (c =? c_dot) || (c =? c_minus) || is_digit c = true.
Proof. intros c H. rewrite H. apply orb_true_r. Qed.

Lemma bytes_of_uint_head : forall u, u <> Decimal.Nil ->
  exists c r, bytes_of_uint u = c :: r /\ is_digit c = true.
Proof. intros u H. destruct u; try contradiction; simpl; eexists; eexists; split; reflexivity. Qed.

Lemma digits_only_num_body : forall r b, digits_only r = true -> num_body b r = true.
Proof.
  induction r as [|c r IH]; simpl; intros b H; [reflexivity|].
  apply andb_true_iff in H. destruct H as [H1 H2].
  pose proof (is_digit_range _ H1) as R. unfold c_dot. destruct (N.eqb_spec c 46); [lia|].
  rewrite H1. simpl. apply IH. exact H2.
Qed.

Lemma is_integer_dec : forall sa z, is_integer sa (dec_of_Z z) = true.
Proof.
  intros [|] z; unfold is_integer.
  - unfold is_integer_anywhere. destruct z as [|p|p]; simpl.
    + reflexivity.
    + eapply forallb_impl; [apply digit_is_integer_char|apply bytes_of_uint_digits].
    + eapply forallb_impl; [apply digit_is_integer_char|apply bytes_of_uint_digits].
  - destruct z as [|p|p]; simpl dec_of_Z.
    + reflexivity.
    + destruct (bytes_of_uint_head (Pos.to_uint p) (Unsigned.to_uint_nonnil p)) as (c & r & E & D).
      unfold is_integer_strict. rewrite E. pose proof (is_digit_range _ D) as R.
      destruct (N.eqb_spec c c_minus) as [C|C]; [unfold c_minus in C; lia|].
      rewrite <- E. apply bytes_of_uint_digits.
    + unfold is_integer_strict. unfold c_minus at 2. rewrite N.eqb_refl. apply bytes_of_uint_digits.
Qed.

Lemma is_integer_is_numeric : forall sa s, is_integer sa s = true -> is_numeric sa s = true.
Proof.
  intros [|] s; unfold is_integer, is_numeric.
  - unfold is_integer_anywhere, is_numeric_anywhere. apply forallb_impl. intros c H.
    apply orb_true_iff in H. destruct H as [H|H]; rewrite H; rewrite ?orb_true_r; reflexivity.
  - unfold is_integer_strict, is_numeric_strict. destruct s as [|c r]; [reflexivity|].
    destruct (c =? c_minus); apply digits_only_num_body.
Qed.

Lemma is_numeric_dec : forall sa z, is_numeric sa (dec_of_Z z) = true.
Proof. intros sa z. apply is_integer_is_numeric. apply is_integer_dec. Qed.

(* a text the repaired isInteger accepts but that holds no digit is "" or "-": strTo<long> gives 0 *)
Lemma strict_integer_without_digit : forall k,
  is_integer_strict k = true -> existsb is_digit k = false -> str_to_long k = 0%Z.
Proof.
  intros [|c r] H D; [reflexivity|]. unfold is_integer_strict in H. simpl in D.
  apply orb_false_iff in D. destruct D as [D1 D2].
  destruct (c =? c_minus) eqn:C.
  - destruct r as [|c2 r]; [unfold str_to_long; rewrite C; reflexivity|].
    simpl in H, D2. apply andb_true_iff in H. destruct H as [H _]. apply orb_false_iff in D2. destruct D2 as [D2 _]. congruence.
  - simpl in H. apply andb_true_iff in H. destruct H as [H _]. congruence.
Qed.

Lemma contains_dot_dec : forall z, contains_dot (dec_of_Z z) = false.
Proof.
  intro z. unfold contains_dot. destruct z as [|p|p]; simpl.
  - reflexivity.
  - apply digits_no_dot. apply bytes_of_uint_digits.
  - apply digits_no_dot. apply bytes_of_uint_digits.
Qed.

Lemma dec_of_Z_nonempty : forall z, dec_of_Z z <> [].
Proof.
  intros [|p|p]; simpl; try discriminate.
  pose proof (Unsigned.to_uint_nonnil p) as H. destruct (Pos.to_uint p); simpl; try discriminate. contradiction.
Qed.


Lemma clamp_long_id : forall z, in_long z = true -> clamp_long z = z.
Proof.
  intros z H. unfold in_long in H. apply andb_true_iff in H. destruct H as [A B].
  apply Z.leb_le in A, B. unfold clamp_long.
  destruct (Z.ltb_spec z LONG_MIN); [lia|]. destruct (Z.ltb_spec LONG_MAX z); [lia|]. reflexivity.
Qed.

Lemma str_to_long_dec : forall z, in_long z = true -> str_to_long (dec_of_Z z) = z.
Proof.
  intros z H. destruct z as [|p|p].
  - reflexivity.
  - simpl dec_of_Z. unfold str_to_long.
    destruct (bytes_of_uint_head (Pos.to_uint p) (Unsigned.to_uint_nonnil p)) as (c & r & E & D).
    rewrite E. apply is_digit_range in D.
    destruct (N.eqb_spec c c_minus) as [C|C]; [unfold c_minus in C; lia|].
    rewrite <- E. rewrite scan_uint_bytes_of_uint.
    pose proof (Unsigned.to_uint_nonnil p) as NN.
    assert (V : N.of_uint (Pos.to_uint p) = N.pos p) by apply Unsigned.of_to.
    destruct (Pos.to_uint p) eqn:U; try contradiction; rewrite V; simpl Z.of_N; apply clamp_long_id; exact H.
  - simpl dec_of_Z. unfold str_to_long. unfold c_minus at 2. rewrite N.eqb_refl.
    rewrite scan_uint_bytes_of_uint.
    pose proof (Unsigned.to_uint_nonnil p) as NN.
    assert (V : N.of_uint (Pos.to_uint p) = N.pos p) by apply Unsigned.of_to.
    destruct (Pos.to_uint p) eqn:U; try contradiction; rewrite V; simpl; apply clamp_long_id; exact H.
Qed.

(* ================================================================== Lua tables *)

#[local] Arguments LNil {F}.
#[local] Arguments LBool {F} b.
#[local] Arguments LNum {F} n.
#[local] Arguments LStr {F} s.
#[local] Arguments LTable {F} t.
#[local] Arguments NInt {F} z.
#[local] Arguments NFlt {F} f.
#[local] Arguments is_lnil {F} l.
#[local] Arguments tbl_get {F} k t.
#[local] Arguments tbl_set {F} k v t.
#[local] Arguments tbl_replace {F} k v t.
#[local] Arguments tbl_remove {F} k t.
#[local] Arguments tbl_append {F} v t.
#[local] Arguments store_get {F} k g.
#[local] Arguments store_set {F} k v g.
#[local] Arguments store_remove {F} k g.
#[local] Arguments VStr {F} s.
#[local] Arguments VNum {F} n.
#[local] Arguments VBool {F} b.
#[local] Arguments VArr {F} l.
#[local] Arguments VMap {F} kvs.
#[local] Arguments lua_of_value {F} v.
#[local] Arguments variant_ok {F} vr v.
#[local] Arguments field_of {F} l k.
#[local] Arguments DmOk {F} g.
#[local] Arguments DmError {F} g.
#[local] Arguments DmUndef {F}.

Lemma lkey_eqb_eq : forall a b, lkey_eqb a b = true <-> a = b.
Proof.
  intros [x|x] [y|y]; simpl; split; intro H; try discriminate; try congruence.
  - apply Z.eqb_eq in H. congruence.
  - inversion H. apply Z.eqb_refl.
  - apply beq_bytes_eq in H. congruence.
  - inversion H. apply beq_bytes_refl.
Qed.

Lemma lkey_eqb_refl : forall a, lkey_eqb a a = true.
Proof. intro a. apply lkey_eqb_eq. reflexivity. Qed.

Section TableFacts.
  Variable F : Type.

  Lemma tbl_replace_fresh : forall k (v : lua F) t, ~ In k (map fst t) -> tbl_replace k v t = t ++ [(k, v)].
  Proof.
    intros k v t. induction t as [|[k2 v2] t IH]; simpl; intro N; [reflexivity|].
    destruct (lkey_eqb k k2) eqn:E.
    - apply lkey_eqb_eq in E. subst. exfalso. apply N. left. reflexivity.
    - rewrite IH; [reflexivity|]. intro I. apply N. right. exact I.
  Qed.

  Lemma tbl_set_fresh : forall k (v : lua F) t, is_lnil v = false -> ~ In k (map fst t) -> tbl_set k v t = t ++ [(k, v)].
  Proof. intros k v t NV N. unfold tbl_set. rewrite NV. apply tbl_replace_fresh. exact N. Qed.

  Lemma tbl_get_fresh : forall k (t : ltable F), ~ In k (map fst t) -> tbl_get k t = LNil.
  Proof.
    intros k t. induction t as [|[k2 v2] t IH]; simpl; intro N; [reflexivity|].
    destruct (lkey_eqb k k2) eqn:E.
    - apply lkey_eqb_eq in E. subst. exfalso. apply N. left. reflexivity.
    - apply IH. intro I. apply N. right. exact I.
  Qed.

  Lemma tbl_remove_fresh : forall k (t : ltable F), ~ In k (map fst t) -> tbl_remove k t = t.
  Proof.
    intros k t. induction t as [|[k2 v2] t IH]; simpl; intro N; [reflexivity|].
    destruct (lkey_eqb k k2) eqn:E.
    - apply lkey_eqb_eq in E. subst. exfalso. apply N. left. reflexivity.
    - rewrite IH; [reflexivity|]. intro I. apply N. right. exact I.
  Qed.

  Lemma tbl_get_replace_same : forall k (v : lua F) t, tbl_get k (tbl_replace k v t) = v.
  Proof.
    intros k v t. induction t as [|[k2 v2] t IH]; simpl.
    - rewrite lkey_eqb_refl. reflexivity.
    - destruct (lkey_eqb k k2) eqn:E; simpl; [rewrite lkey_eqb_refl; reflexivity|]. rewrite E. exact IH.
  Qed.

  (* reading back t[k] after t[k] = v, for a key the table did not hold *)
  Lemma tbl_get_set_fresh : forall k (v : lua F) t, ~ In k (map fst t) -> tbl_get k (tbl_set k v t) = v.
  Proof.
    intros k v t N. unfold tbl_set. destruct (is_lnil v) eqn:E.
    - rewrite tbl_remove_fresh by exact N. rewrite tbl_get_fresh by exact N. destruct v; try discriminate. reflexivity.
    - apply tbl_get_replace_same.
  Qed.

  Lemma tbl_replace_keys : forall k (v : lua F) t k', In k' (map fst (tbl_replace k v t)) -> k' = k \/ In k' (map fst t).
  Proof.
    intros k v t k'. induction t as [|[k2 v2] t IH]; simpl; intro H.
    - destruct H as [H|[]]. left. symmetry. exact H.
    - destruct (lkey_eqb k k2) eqn:E; simpl in H.
      + destruct H as [H|H]; [left; symmetry; exact H|right; right; exact H].
      + destruct H as [H|H]; [right; left; exact H|]. destruct (IH H) as [A|A]; [left; exact A|right; right; exact A].
  Qed.

  Lemma tbl_remove_keys : forall k (t : ltable F) k', In k' (map fst (tbl_remove k t)) -> In k' (map fst t).
  Proof.
    intros k t k'. induction t as [|[k2 v2] t IH]; simpl; intro H; [exact H|].
    destruct (lkey_eqb k k2); simpl in H; [right; exact H|].
    destruct H as [H|H]; [left; exact H|right; apply IH; exact H].
  Qed.

  Lemma tbl_set_keys : forall k (v : lua F) t k', In k' (map fst (tbl_set k v t)) -> k' = k \/ In k' (map fst t).
  Proof.
    intros k v t k' H. unfold tbl_set in H. destruct (is_lnil v).
    - right. eapply tbl_remove_keys. exact H.
    - eapply tbl_replace_keys. exact H.
  Qed.
End TableFacts.

(* ================================================================== the round trip *)

(* consecutive integer keys i, i+1, ... *)
Fixpoint number_from {A : Type} (i : Z) (l : list A) : list (lkey * A) :=
  match l with [] => [] | x :: r => (KInt i, x) :: number_from (i + 1)%Z r end.
Fixpoint znumber {A : Type} (i : Z) (l : list A) : list (Z * A) :=
  match l with [] => [] | x :: r => (i, x) :: znumber (i + 1)%Z r end.
Fixpoint tnumber {A : Type} (i : Z) (l : list A) : list (bytes * A) :=
  match l with [] => [] | x :: r => (dec_of_Z i, x) :: tnumber (i + 1)%Z r end.

Lemma zmap_insert_append : forall (A : Type) k (x : A) m,
  Forall (fun kx => (fst kx < k)%Z) m -> zmap_insert k x m = m ++ [(k, x)].
Proof.
  intros A k x m H. induction m as [|[k2 x2] m IH]; simpl; [reflexivity|].
  inversion H; subst. simpl in H2.
  assert (E : (k ?= k2)%Z = Gt) by (apply Z.compare_gt_iff; exact H2). rewrite E.
  rewrite IH; [reflexivity|assumption].
Qed.

Lemma fold_zmap_number : forall (ds : list data) i acc,
  Forall (fun kx => (fst kx < i)%Z) acc ->
  fold_left (fun m (kd : lkey * data) => zmap_insert (key_int (fst kd)) (snd kd) m) (number_from i ds) acc
  = acc ++ znumber i ds.
Proof.
  induction ds as [|d ds IH]; simpl; intros i acc H; [rewrite List.app_nil_r; reflexivity|].
  rewrite zmap_insert_append by exact H.
  rewrite IH.
  - rewrite <- List.app_assoc. reflexivity.
  - apply Forall_app. split.
    + eapply Forall_impl; [|exact H]. intros a Ha. simpl in Ha. lia.
    + constructor; [simpl; lia|constructor].
Qed.

Lemma fill_consecutive : forall (ds : list data) last, fill_array last (znumber (last + 1)%Z ds) = ds.
Proof.
  induction ds as [|d ds IH]; simpl; intro last; [reflexivity|].
  replace (last + 1 - (last + 1))%Z with 0%Z by lia. simpl.
  replace (last + 0 + 1)%Z with (last + 1)%Z by lia. rewrite IH. reflexivity.
Qed.

Lemma forallb_number_from_pos : forall (A : Type) (l : list A) i, (0 < i)%Z ->
  forallb (fun kd : lkey * A => key_is_pos (fst kd)) (number_from i l) = true.
Proof.
  induction l as [|x l IH]; simpl; intros i H; [reflexivity|].
  rewrite IH by lia. destruct (Z.ltb_spec 0 i); [reflexivity|lia].
Qed.

Lemma fold_text_number : forall (ds : list data) i acc,
  fold_left (fun m (kd : lkey * data) => smap_insert (key_tostring (fst kd)) (snd kd) m) (number_from i ds) acc
  = fold_left (fun m (kx : bytes * data) => smap_insert (fst kx) (snd kx) m) (tnumber i ds) acc.
Proof. induction ds as [|d ds IH]; simpl; intros i acc; [reflexivity|]. apply IH. Qed.

Lemma tnumber_in : forall (A : Type) (l : list A) i kx, In kx (tnumber i l) ->
  exists j, (i <= j < i + Z.of_nat (length l))%Z /\ fst kx = dec_of_Z j.
Proof.
  induction l as [|x l IH]; simpl; intros i kx H; [contradiction|].
  destruct H as [H|H].
  - subst kx. exists i. split; [lia|reflexivity].
  - destruct (IH _ _ H) as (j & R & E). exists j. split; [lia|exact E].
Qed.

(* "1" < "2" < ... < "9" as texts; "10" < "2" is where the text order leaves the numeric one *)
Lemma dec_small_lt : forall i j, (1 <= i)%Z -> (i < j)%Z -> (j <= 9)%Z -> bytes_cmp (dec_of_Z i) (dec_of_Z j) = Lt.
Proof.
  intros i j A B C.
  assert (Hi : In i [1; 2; 3; 4; 5; 6; 7; 8]%Z) by (simpl; lia).
  assert (Hj : In j [2; 3; 4; 5; 6; 7; 8; 9]%Z) by (simpl; lia).
  simpl in Hi, Hj.
  destruct Hi as [<-|[<-|[<-|[<-|[<-|[<-|[<-|[<-|[]]]]]]]]];
  destruct Hj as [<-|[<-|[<-|[<-|[<-|[<-|[<-|[<-|[]]]]]]]]]; first [reflexivity | exfalso; lia].
Qed.

Lemma tnumber_sorted : forall (A : Type) (l : list A) i, (1 <= i)%Z -> (i + Z.of_nat (length l) <= 10)%Z ->
  ssorted (tnumber i l).
Proof.
  induction l as [|x l IH]; simpl length; simpl tnumber; intros i Hi Hl; [constructor|].
  constructor.
  - unfold all_gt. rewrite Forall_forall. intros kx I. destruct (tnumber_in _ _ _ _ I) as (j & R & E).
    simpl. rewrite E. apply dec_small_lt; lia.
  - apply IH; lia.
Qed.

Lemma map_tnumber_long : forall (A : Type) (l : list A) i, (1 <= i)%Z -> (i + Z.of_nat (length l) <= 10)%Z ->
  map (fun kd : bytes * A => (str_to_long (fst kd), snd kd)) (tnumber i l) = znumber i l.
Proof.
  induction l as [|x l IH]; simpl length; simpl; intros i Hi Hl; [reflexivity|].
  rewrite IH by lia. rewrite str_to_long_dec; [reflexivity|].
  unfold in_long, LONG_MIN, LONG_MAX. apply andb_true_iff. split; apply Z.leb_le; lia.
Qed.

Lemma Forall2_weaken : forall (A B : Type) (P Q : A -> B -> Prop) l1 l2,
  (forall a b, P a b -> Q a b) -> Forall2 P l1 l2 -> Forall2 Q l1 l2.
Proof. intros A B P Q l1 l2 H E. induction E; constructor; auto. Qed.

Section Roundtrip.
  Variable F : Type.
  Variable s2d : bytes -> F.                 (* strTo<double> *)
  Variable l2d : Z -> F.                     (* (double) of a long *)
  Variable d2s : F -> bytes.                 (* toStr<double> *)
  Variable leval : store F -> bytes -> option (list (lua F)).    (* luaEval("return(<atom>);") *)
  Variable Fst : F -> bool.                  (* doubles classified as stable *)

  Notation gld := (get_lua_as_data F l2d d2s).
  Notation gdl := (get_data_as_lua F s2d leval).
  Notation emb := (embed F d2s).
  Notation unamb := (unambiguous F Fst).

  (* The assumed behaviour of what is outside the model (trusted, not proved):
     1,2  the Lua VM evaluates the atoms `true` and `false` to the booleans;
     3    a long of magnitude <= 2^53 converted to double prints (precision 16) as its decimal text;
     4-7  a double classified stable prints to a non-empty text which, according to its shape, is read
          back by strTo<double> to a double printing the same / is the decimal text of a long that
          converts back to a double printing the same / is read by the Lua VM as a float printing
          the same.  ([sa] ranges over the two versions of isNumeric, pinned and repaired; they agree on
          every text a double prints to, but that too is outside the model.) *)
  Definition oracle_ok : Prop :=
    (forall g, leval g s_true = Some [LBool true]) /\
    (forall g, leval g s_false = Some [LBool false]) /\
    (forall z, (- TWO53 <= z <= TWO53)%Z -> d2s (l2d z) = dec_of_Z z) /\
    (forall f, Fst f = true -> d2s f <> []) /\
    (forall sa f, Fst f = true -> is_numeric sa (d2s f) = true -> contains_dot (d2s f) = true ->
       d2s (s2d (d2s f)) = d2s f) /\
    (forall sa f, Fst f = true -> is_numeric sa (d2s f) = true -> contains_dot (d2s f) = false ->
       exists z, d2s f = dec_of_Z z /\ in_long z = true /\ d2s (l2d z) = dec_of_Z z) /\
    (forall sa g f, Fst f = true -> is_numeric sa (d2s f) = false ->
       exists f', leval g (d2s f) = Some [LNum (NFlt f')] /\ d2s f' = d2s f).

  Hypothesis H_oracle : oracle_ok.

  (* the inner loops of getDataAsLua and getLuaAsData as functions of their own *)
  Definition arr_go (f : data -> mres (lua F)) :=
    fix go (ar : list data) (acc : ltable F) : mres (lua F) :=
      match ar with
      | [] => MOk (LTable acc)
      | x :: r => match f x with
                  | MOk lx => go r (tbl_append lx acc)
                  | MErr => MErr
                  | MUndef => MUndef
                  end
      end.
  Definition comp_go (vr : lm_variant) (f : data -> mres (lua F)) :=
    fix go (c : smap data) (acc : ltable F) : mres (lua F) :=
      match c with
      | [] => MOk (LTable acc)
      | (k, x) :: r =>
          if key_undefined vr k then MUndef
          else match f x with
               | MOk lx => go r (tbl_set (key_of_compound vr k) lx acc)
               | MErr => MErr
               | MUndef => MUndef
               end
      end.
  Definition conv (vr : lm_variant) :=
    fix conv (t : list (lkey * lua F)) : list (lkey * data) :=
      match t with
      | [] => []
      | (k, v) :: r => (k, gld vr v) :: conv r
      end.

  Lemma gdl_arr : forall vr g a t x r, gdl vr g (Data a t (x :: r) []) = arr_go (gdl vr g) (x :: r) [].
  Proof. reflexivity. Qed.
  Lemma gdl_comp : forall vr g a t ar kx c, gdl vr g (Data a t ar (kx :: c)) = comp_go vr (gdl vr g) (kx :: c) [].
  Proof. reflexivity. Qed.
  Lemma gdl_atom : forall vr g a t, gdl vr g (Data a t [] []) =
    if atom_branch_taken vr a t then atom_as_lua F s2d leval vr g a t else MOk LNil.
  Proof. reflexivity. Qed.
  Lemma gld_table : forall vr t, gld vr (LTable t) = table_as_data vr (conv vr t).
  Proof. reflexivity. Qed.

  (* [d] goes to a non-nil Lua value that comes back as [d] *)
  Definition rt_good (vr : lm_variant) (g : store F) (d : data) : Prop :=
    exists l, gdl vr g d = MOk l /\ is_lnil l = false /\ gld vr l = d.

  (* ---------------------------------------------------------------- arrays *)
  Lemma arr_go_spec : forall vr g (ar : list data) (ls : list (lua F)),
    Forall2 (fun d l => gdl vr g d = MOk l /\ is_lnil l = false) ar ls ->
    forall acc, arr_go (gdl vr g) ar acc = MOk (LTable (acc ++ number_from (Z.of_nat (length acc) + 1) ls)).
  Proof.
    intros vr g ar ls H. induction H as [|d l ar ls [H1 H2] H IH]; intro acc; simpl.
    - rewrite List.app_nil_r. reflexivity.
    - rewrite H1. unfold tbl_append at 1. rewrite H2. rewrite IH.
      rewrite <- List.app_assoc. simpl. rewrite app_length. simpl.
      replace (Z.of_nat (length acc + 1) + 1)%Z with (Z.of_nat (length acc) + 1 + 1)%Z by lia. reflexivity.
  Qed.

  Lemma conv_number_from : forall vr (ds : list data) (ls : list (lua F)) i,
    Forall2 (fun d l => gld vr l = d) ds ls -> conv vr (number_from i ls) = number_from i ds.
  Proof.
    intros vr ds ls i H. revert i. induction H as [|d l ds ls H1 H IH]; intro i; simpl; [reflexivity|].
    rewrite H1, IH. reflexivity.
  Qed.

  Lemma table_as_data_sequence : forall vr (ds : list data),
    ds <> [] -> (lm_keys_sorted_as_text vr = false \/ (length ds < 10)%nat) ->
    table_as_data vr (number_from 1 ds) = Data [] INTERPRETED ds [].
  Proof.
    intros vr ds NE V. unfold table_as_data.
    rewrite forallb_number_from_pos by lia.
    destruct (lm_keys_sorted_as_text vr) eqn:T.
    - destruct V as [V|V]; [discriminate|].
      rewrite fold_text_number.
      rewrite (fold_insert_sorted_id (tnumber 1 ds) []) by (simpl; apply tnumber_sorted; lia).
      simpl app. rewrite map_tnumber_long by lia.
      change 1%Z with (0 + 1)%Z. rewrite (fill_consecutive ds 0). reflexivity.
    - rewrite fold_zmap_number by constructor. simpl app.
      change 1%Z with (0 + 1)%Z. rewrite (fill_consecutive ds 0). reflexivity.
  Qed.

  Lemma rt_good_arr : forall vr g (ar : list data),
    ar <> [] -> Forall (rt_good vr g) ar ->
    (lm_keys_sorted_as_text vr = false \/ (length ar < 10)%nat) ->
    rt_good vr g (Data [] INTERPRETED ar []).
  Proof.
    intros vr g ar NE H V.
    assert (E : exists ls, Forall2 (fun d l => gdl vr g d = MOk l /\ is_lnil l = false /\ gld vr l = d) ar ls).
    { clear NE V. induction H as [|d ar (l & A & B & C) H IH].
      - exists []. constructor.
      - destruct IH as (ls & IH). exists (l :: ls). constructor; [auto|exact IH]. }
    destruct E as (ls & E).
    assert (E1 : Forall2 (fun d l => gdl vr g d = MOk l /\ is_lnil l = false) ar ls)
      by (eapply Forall2_weaken; [|exact E]; intros a b (A & B & C); auto).
    assert (E2 : Forall2 (fun d l => gld vr l = d) ar ls)
      by (eapply Forall2_weaken; [|exact E]; intros a b (A & B & C); auto).
    destruct ar as [|x r]; [contradiction|].
    exists (LTable (number_from 1 ls)). split; [|split].
    - rewrite gdl_arr. rewrite (arr_go_spec vr g (x :: r) ls E1 []). reflexivity.
    - reflexivity.
    - rewrite gld_table. rewrite (conv_number_from vr (x :: r) ls 1 E2).
      apply table_as_data_sequence; [discriminate|exact V].
  Qed.

  (* ---------------------------------------------------------------- maps *)
  Fixpoint strkeys {A : Type} (c : list (bytes * data)) (ls : list A) : list (lkey * A) :=
    match c, ls with
    | (k, _) :: c', l :: ls' => (KStr k, l) :: strkeys c' ls'
    | _, _ => []
    end.

  Lemma comp_go_spec : forall vr g (c : smap data) (ls : list (lua F)),
    Forall2 (fun kd l => gdl vr g (snd kd) = MOk l /\ is_lnil l = false) c ls ->
    Forall (fun kd => key_undefined vr (fst kd) = false /\ key_of_compound vr (fst kd) = KStr (fst kd)) c ->
    forall acc, NoDup (map fst acc ++ map (fun kd => KStr (fst kd)) c) ->
    comp_go vr (gdl vr g) c acc = MOk (LTable (acc ++ strkeys c ls)).
  Proof.
    intros vr g c ls H. induction H as [|[k d] l c ls [H1 H2] H IH]; intros K acc ND; simpl.
    - rewrite List.app_nil_r. reflexivity.
    - inversion K as [|? ? [K1 K2] K']; subst. simpl in K1, K2, H1. rewrite K1, H1, K2.
      rewrite tbl_set_fresh; [|exact H2|].
      + rewrite IH; [rewrite <- List.app_assoc; reflexivity|exact K'|].
        rewrite map_app. simpl. rewrite <- List.app_assoc. simpl. exact ND.
      + simpl in ND. apply NoDup_remove_2 in ND. intro I. apply ND. apply in_or_app. left. exact I.
  Qed.

  Lemma conv_strkeys : forall vr (c : smap data) (ls : list (lua F)),
    Forall2 (fun kd l => gld vr l = snd kd) c ls ->
    conv vr (strkeys c ls) = map (fun kd => (KStr (fst kd), snd kd)) c.
  Proof.
    intros vr c ls H. induction H as [|[k d] l c ls H1 H IH]; simpl; [reflexivity|].
    simpl in H1. rewrite H1, IH. reflexivity.
  Qed.

  Lemma fold_text_strkeys : forall (c : smap data) acc,
    fold_left (fun m (kd : lkey * data) => smap_insert (key_tostring (fst kd)) (snd kd) m)
              (map (fun kd : bytes * data => (KStr (fst kd), snd kd)) c) acc
    = fold_left (fun m (kx : bytes * data) => smap_insert (fst kx) (snd kx) m) c acc.
  Proof. induction c as [|[k d] c IH]; simpl; intro acc; [reflexivity|]. apply IH. Qed.

  Lemma ssorted_nodup_keys : forall (c : smap data), ssorted c -> NoDup (map (fun kd => KStr (fst kd)) c).
  Proof.
    intros c S. induction S as [|k x m A S IH]; simpl; constructor; [|exact IH].
    intro I. apply in_map_iff in I. destruct I as ([k2 x2] & E & I). simpl in E. inversion E; subst k2.
    unfold all_gt in A. rewrite Forall_forall in A. specialize (A _ I). simpl in A.
    rewrite bytes_cmp_refl in A. discriminate.
  Qed.

  Lemma table_as_data_strmap : forall vr (c : smap data),
    c <> [] -> ssorted c ->
    table_as_data vr (map (fun kd => (KStr (fst kd), snd kd)) c) = Data [] INTERPRETED [] c.
  Proof.
    intros vr c NE S. unfold table_as_data.
    destruct c as [|[k d] c]; [contradiction|].
    simpl forallb. cbv iota.
    rewrite fold_text_strkeys.
    rewrite (fold_insert_sorted_id ((k, d) :: c) []) by exact S. reflexivity.
  Qed.

  Lemma rt_good_map : forall vr g (c : smap data),
    c <> [] -> ssorted c ->
    Forall (fun kd => key_undefined vr (fst kd) = false /\ key_of_compound vr (fst kd) = KStr (fst kd)) c ->
    Forall (fun kd => rt_good vr g (snd kd)) c ->
    rt_good vr g (Data [] INTERPRETED [] c).
  Proof.
    intros vr g c NE S K H.
    assert (E : exists ls, Forall2 (fun kd l => gdl vr g (snd kd) = MOk l /\ is_lnil l = false /\ gld vr l = snd kd) c ls).
    { clear NE S K. induction H as [|kd c (l & A & B & C) H IH].
      - exists []. constructor.
      - destruct IH as (ls & IH). exists (l :: ls). constructor; [auto|exact IH]. }
    destruct E as (ls & E).
    assert (E1 : Forall2 (fun kd l => gdl vr g (snd kd) = MOk l /\ is_lnil l = false) c ls)
      by (eapply Forall2_weaken; [|exact E]; intros a b (A & B & C); auto).
    assert (E2 : Forall2 (fun kd l => gld vr l = snd kd) c ls)
      by (eapply Forall2_weaken; [|exact E]; intros a b (A & B & C); auto).
    destruct c as [|kx r]; [contradiction|].
    exists (LTable (strkeys (kx :: r) ls)). split; [|split].
    - rewrite gdl_comp. rewrite (comp_go_spec vr g (kx :: r) ls E1 K []); [reflexivity|].
      apply (ssorted_nodup_keys (kx :: r)). exact S.
    - reflexivity.
    - rewrite gld_table. rewrite (conv_strkeys vr (kx :: r) ls E2).
      apply table_as_data_strmap; [discriminate|exact S].
  Qed.

  (* ---------------------------------------------------------------- induction on values *)
  Section ValueInd.
    Variable P : value F -> Prop.
    Hypothesis HS : forall s, P (VStr s).
    Hypothesis HN : forall n, P (VNum n).
    Hypothesis HB : forall b, P (VBool b).
    Hypothesis HA : forall l, Forall P l -> P (VArr l).
    Hypothesis HM : forall kvs, Forall (fun kv => P (snd kv)) kvs -> P (VMap kvs).
    Fixpoint value_ind' (v : value F) : P v :=
      match v with
      | VStr s => HS s
      | VNum n => HN n
      | VBool b => HB b
      | VArr l =>
          HA l ((fix go (l : list (value F)) : Forall P l :=
                   match l with
                   | [] => Forall_nil P
                   | x :: r => Forall_cons x (value_ind' x) (go r)
                   end) l)
      | VMap kvs =>
          HM kvs ((fix go (kvs : list (bytes * value F)) : Forall (fun kv => P (snd kv)) kvs :=
                     match kvs with
                     | [] => Forall_nil _
                     | (k, x) :: r => Forall_cons (k, x) (value_ind' x) (go r)
                     end) kvs)
      end.
  End ValueInd.

  (* the nested fixes of the definitions on values, as list functions *)
  Definition embl (kvs : list (bytes * value F)) : list (bytes * data) :=
    map (fun kv => (fst kv, emb (snd kv))) kvs.

  Lemma emb_arr : forall l, emb (VArr l) = Data [] INTERPRETED (map emb l) [].
  Proof. reflexivity. Qed.

  Lemma emb_map : forall kvs, emb (VMap kvs) = Data [] INTERPRETED [] (smap_of_list (embl kvs)).
  Proof.
    intro kvs. simpl. f_equal. f_equal. unfold embl.
    induction kvs as [|[k x] kvs IH]; simpl; [reflexivity|]. rewrite IH. reflexivity.
  Qed.

  Lemma unamb_arr : forall l, unamb (VArr l) = match l with [] => false | _ => true end && forallb unamb l.
  Proof.
    intro l. reflexivity.
  Qed.

  Lemma unamb_map : forall kvs, unamb (VMap kvs) =
    match kvs with [] => false | _ => true end && keys_distinct (map fst kvs) &&
    forallb (fun kv => negb (key_numeric (fst kv)) && unamb (snd kv)) kvs.
  Proof.
    intro kvs. simpl. f_equal. induction kvs as [|[k x] kvs IH]; [reflexivity|]. rewrite IH. reflexivity.
  Qed.

  Lemma vok_arr : forall vr l, variant_ok vr (VArr l) =
    (negb (lm_keys_sorted_as_text vr) || (length l <? 10)%nat) && forallb (@variant_ok F vr) l.
  Proof.
    intros vr l. reflexivity.
  Qed.

  Lemma vok_map : forall vr (kvs : list (bytes * value F)), variant_ok vr (VMap kvs) =
    forallb (fun kv => negb (key_undefined vr (fst kv)) &&
                       (negb (lm_sign_anywhere vr) || negb (key_numeric_anywhere (fst kv))) &&
                       variant_ok vr (snd kv)) kvs.
  Proof.
    intros vr kvs. simpl. induction kvs as [|[k x] kvs IH]; [reflexivity|]. rewrite IH. reflexivity.
  Qed.

  Lemma key_plain : forall vr k, key_numeric k = false ->
    (lm_sign_anywhere vr = false \/ key_numeric_anywhere k = false) ->
    key_of_compound vr k = KStr k.
  Proof.
    intros vr k H S. unfold key_of_compound. destruct (lm_sign_anywhere vr) eqn:SA.
    - destruct S as [S|S]; [discriminate|]. destruct k as [|c k]; [reflexivity|].
      destruct (is_integer true (c :: k)) eqn:E; [|reflexivity].
      apply is_integer_is_numeric in E. unfold key_numeric_anywhere in S. unfold is_numeric in E. congruence.
    - destruct (is_integer false k) eqn:E; [|reflexivity].
      pose proof (is_integer_is_numeric false k E) as E2. unfold is_integer in E. unfold is_numeric in E2.
      unfold key_numeric in H. rewrite E2 in H. simpl in H.
      rewrite (strict_integer_without_digit k E H). reflexivity.
  Qed.

  (* ---------------------------------------------------------------- atoms *)
  Lemma rt_good_str : forall vr g s,
    (lm_empty_atom_is_nil vr = false \/ s <> []) -> rt_good vr g (atomV s).
  Proof.
    intros vr g s H. exists (LStr s). unfold atomV. rewrite gdl_atom. split; [|split; reflexivity].
    destruct s as [|c s]; simpl; [|reflexivity].
    destruct H as [H|H]; [rewrite H; reflexivity|contradiction].
  Qed.

  Lemma atom_branch_nonempty : forall vr a t, a <> [] -> atom_branch_taken vr a t = true.
  Proof. intros vr [|c a] t H; [contradiction|reflexivity]. Qed.

  Lemma rt_good_bool : forall vr g (b : bool), rt_good vr g (if b then atomI s_true else atomI s_false).
  Proof.
    destruct H_oracle as (Ht & Hf & _).
    intros vr g [|]; [exists (LBool true)|exists (LBool false)]; unfold atomI; rewrite gdl_atom;
      unfold atom_as_lua; destruct (lm_sign_anywhere vr); simpl;
      rewrite ?Ht, ?Hf; repeat split; reflexivity.
  Qed.

  Lemma rt_good_int : forall vr g z, in_long z = true ->
    (lm_int_via_double vr = false \/ (- TWO53 <= z <= TWO53)%Z) ->
    rt_good vr g (atomI (dec_of_Z z)).
  Proof.
    destruct H_oracle as (_ & _ & Hi & _).
    intros vr g z L V. exists (LNum (NInt z)). unfold atomI. rewrite gdl_atom.
    rewrite atom_branch_nonempty by apply dec_of_Z_nonempty.
    unfold atom_as_lua. rewrite is_numeric_dec, contains_dot_dec, (str_to_long_dec z L).
    split; [reflexivity|split; [reflexivity|]]. simpl. unfold atomI. f_equal.
    destruct (lm_int_via_double vr) eqn:E; [|reflexivity].
    destruct V as [V|V]; [discriminate|]. apply Hi. exact V.
  Qed.

  Lemma rt_good_flt : forall vr g f, Fst f = true -> rt_good vr g (atomI (d2s f)).
  Proof.
    destruct H_oracle as (_ & _ & _ & Hne & Hdot & Hint & Hexp).
    intros vr g f S. unfold rt_good, atomI. rewrite gdl_atom.
    rewrite atom_branch_nonempty by (apply Hne; exact S).
    unfold atom_as_lua. destruct (is_numeric (lm_sign_anywhere vr) (d2s f)) eqn:N.
    - destruct (contains_dot (d2s f)) eqn:D.
      + exists (LNum (NFlt (s2d (d2s f)))). split; [reflexivity|split; [reflexivity|]].
        simpl. unfold atomI. rewrite (Hdot _ f S N D). reflexivity.
      + destruct (Hint _ f S N D) as (z & E & L & P).
        exists (LNum (NInt (str_to_long (d2s f)))). split; [reflexivity|split; [reflexivity|]].
        simpl. unfold atomI. f_equal. rewrite E. rewrite (str_to_long_dec z L).
        destruct (lm_int_via_double vr); [rewrite P|]; reflexivity.
    - destruct (Hexp _ g f S N) as (f' & E & P). rewrite E.
      exists (LNum (NFlt f')). split; [reflexivity|split; [reflexivity|]].
      simpl. unfold atomI. rewrite P. reflexivity.
  Qed.

  (* ---------------------------------------------------------------- the theorem *)
  Lemma Forall_forallb : forall (A : Type) (p : A -> bool) l, forallb p l = true -> Forall (fun x => p x = true) l.
  Proof. intros A p l H. apply Forall_forall. apply forallb_forall. exact H. Qed.

  Lemma marshal_roundtrip_core : forall vr g v,
    unamb v = true -> variant_ok vr v = true -> rt_good vr g (emb v).
  Proof.
    intros vr g v. induction v as [s|n|b|l IH|kvs IH] using value_ind'; intros U V.
    - simpl. apply rt_good_str. simpl in V.
      destruct (lm_empty_atom_is_nil vr); [right|left; reflexivity].
      destruct s; [discriminate|discriminate].
    - destruct n as [z|f]; simpl in *.
      + apply rt_good_int; [exact U|].
        destruct (lm_int_via_double vr); [right|left; reflexivity].
        simpl in V. apply andb_true_iff in V. destruct V as [V1 V2]. apply Z.leb_le in V1. apply Z.leb_le in V2. unfold TWO53 in *. lia.
      + apply rt_good_flt. exact U.
    - simpl. apply (rt_good_bool vr g b).
    - rewrite emb_arr. rewrite unamb_arr in U. rewrite vok_arr in V.
      apply andb_true_iff in U. destruct U as [U1 U2]. apply andb_true_iff in V. destruct V as [V1 V2].
      apply rt_good_arr.
      + destruct l; [discriminate|discriminate].
      + rewrite Forall_forall in IH. apply Forall_forall. intros d I. apply in_map_iff in I.
        destruct I as (x & E & I). subst d. apply IH; [exact I| |].
        * rewrite forallb_forall in U2. apply U2. exact I.
        * rewrite forallb_forall in V2. apply V2. exact I.
      + rewrite map_length. destruct (lm_keys_sorted_as_text vr); [right|left; reflexivity].
        simpl in V1. apply Nat.ltb_lt in V1. exact V1.
    - rewrite emb_map. rewrite unamb_map in U. rewrite vok_map in V.
      apply andb_true_iff in U. destruct U as [U1 U3]. apply andb_true_iff in U1. destruct U1 as [U1 U2].
      assert (A : forall kd, In kd (smap_of_list (embl kvs)) ->
                (key_undefined vr (fst kd) = false /\ key_of_compound vr (fst kd) = KStr (fst kd)) /\ rt_good vr g (snd kd)).
      { intros kd I. apply smap_of_list_in in I. unfold embl in I. apply in_map_iff in I.
        destruct I as ([k x] & E & I). subst kd. simpl.
        rewrite forallb_forall in U3, V. specialize (U3 _ I). specialize (V _ I). simpl in U3, V.
        apply andb_true_iff in U3. destruct U3 as [U3 U4]. apply andb_true_iff in V. destruct V as [V3 V4].
        apply andb_true_iff in V3. destruct V3 as [V3 V5].
        apply negb_true_iff in U3, V3. split; [split; [exact V3|apply key_plain; [exact U3|]]|].
        { apply orb_true_iff in V5. destruct V5 as [V5|V5]; apply negb_true_iff in V5; [left|right]; exact V5. }
        rewrite Forall_forall in IH. apply (IH _ I); assumption. }
      apply rt_good_map.
      + apply smap_of_list_nonempty. destruct kvs; [discriminate|discriminate].
      + apply smap_of_list_sorted.
      + apply Forall_forall. intros kd I. apply A. exact I.
      + apply Forall_forall. intros kd I. apply A. exact I.
  Qed.

  Lemma variant_ok_fixed : forall v : value F, variant_ok lm_fixed v = true.
  Proof.
    induction v as [s|n|b|l IH|kvs IH] using value_ind'.
    - reflexivity.
    - destruct n; reflexivity.
    - reflexivity.
    - rewrite vok_arr. simpl. apply forallb_forall. rewrite Forall_forall in IH. exact IH.
    - rewrite vok_map. apply forallb_forall. intros [k x] I. simpl. rewrite Forall_forall in IH. apply (IH _ I).
  Qed.

  (* ---------------------------------------------------------------- literals *)
  Lemma lua_of_value_arr : forall l : list (value F), lua_of_value (VArr l) = LTable (number_from 1 (map lua_of_value l)).
  Proof.
    intro l. simpl. f_equal.
    assert (G : forall i, (fix seqt (i : Z) (l : list (value F)) {struct l} : ltable F :=
                             match l with
                             | [] => []
                             | x :: r => (KInt i, lua_of_value x) :: seqt (i + 1)%Z r
                             end) i l = number_from i (map lua_of_value l)).
    { induction l as [|x l IH]; intro i; [reflexivity|]. rewrite IH. reflexivity. }
    apply G.
  Qed.

  Lemma lua_of_value_map : forall kvs : list (bytes * value F),
    lua_of_value (VMap kvs) = LTable (map (fun kv => (KStr (fst kv), lua_of_value (snd kv))) kvs).
  Proof.
    intro kvs. simpl. f_equal. induction kvs as [|[k x] kvs IH]; simpl; [reflexivity|]. rewrite IH. reflexivity.
  Qed.

  (* the Lua value a literal of [v] evaluates to is read by getLuaAsData as [embed v] *)
  Lemma literal_as_data : forall vr v,
    unamb v = true -> variant_ok vr v = true ->
    gld vr (lua_of_value v) = emb v /\ is_lnil (lua_of_value v) = false.
  Proof.
    destruct H_oracle as (_ & _ & Hi & _).
    intros vr v. induction v as [s|n|b|l IH|kvs IH] using value_ind'; intros U V.
    - split; reflexivity.
    - destruct n as [z|f]; simpl; split; try reflexivity.
      unfold atomI. f_equal. destruct (lm_int_via_double vr) eqn:E; [|reflexivity].
      simpl in V. rewrite E in V. simpl in V. apply andb_true_iff in V. destruct V as [V1 V2].
      apply Z.leb_le in V1. apply Z.leb_le in V2. apply Hi. unfold TWO53 in *. lia.
    - destruct b; split; reflexivity.
    - rewrite lua_of_value_arr, emb_arr. split; [|reflexivity].
      rewrite unamb_arr in U. rewrite vok_arr in V.
      apply andb_true_iff in U. destruct U as [U1 U2]. apply andb_true_iff in V. destruct V as [V1 V2].
      rewrite gld_table.
      rewrite (conv_number_from vr (map emb l) (map lua_of_value l) 1).
      + apply table_as_data_sequence.
        * destruct l; [discriminate|discriminate].
        * rewrite map_length. destruct (lm_keys_sorted_as_text vr); [right|left; reflexivity].
          simpl in V1. apply Nat.ltb_lt in V1. exact V1.
      + clear U1 V1. induction l as [|x l IHl]; simpl; constructor.
        * inversion IH; subst. simpl in U2, V2. apply andb_true_iff in U2, V2. apply H1; tauto.
        * inversion IH; subst. simpl in U2, V2. apply andb_true_iff in U2, V2. apply IHl; tauto.
    - rewrite lua_of_value_map, emb_map. split; [|reflexivity].
      rewrite unamb_map in U. rewrite vok_map in V.
      apply andb_true_iff in U. destruct U as [U1 U3]. apply andb_true_iff in U1. destruct U1 as [U1 U2].
      rewrite gld_table.
      assert (C : conv vr (map (fun kv => (KStr (fst kv), lua_of_value (snd kv))) kvs)
                  = map (fun kd => (KStr (fst kd), snd kd)) (embl kvs)).
      { clear U1 U2. unfold embl. induction kvs as [|[k x] kvs IHk]; simpl; [reflexivity|].
        inversion IH; subst. simpl in U3, V. apply andb_true_iff in U3, V.
        destruct U3 as [U3 U4], V as [V3 V4]. apply andb_true_iff in U3, V3.
        simpl in H1. destruct (H1 (proj2 U3) (proj2 V3)) as [E _]. rewrite E. rewrite IHk; tauto. }
      rewrite C. unfold table_as_data.
      destruct kvs as [|[k x] kvs]; [discriminate|].
      simpl embl. simpl map at 1. simpl forallb. cbv iota.
      rewrite fold_text_strkeys. reflexivity.
  Qed.
End Roundtrip.

(* ================================================================== the oracle data_eqb decides equality *)

Section DataInd.
  Variable P : data -> Prop.
  Hypothesis HD : forall a t ar c, Forall P ar -> Forall (fun kd => P (snd kd)) c -> P (Data a t ar c).
  Fixpoint data_ind' (d : data) : P d :=
    match d with
    | Data a t ar c =>
        HD a t ar c
          ((fix go (l : list data) : Forall P l :=
              match l with
              | [] => Forall_nil P
              | x :: r => Forall_cons x (data_ind' x) (go r)
              end) ar)
          ((fix go (c : smap data) : Forall (fun kd => P (snd kd)) c :=
              match c with
              | [] => Forall_nil _
              | (k, x) :: r => Forall_cons (k, x) (data_ind' x) (go r)
              end) c)
    end.
End DataInd.

Definition arr_eqb' (f : data -> data -> bool) :=
  fix arr_eqb (x y : list data) : bool :=
    match x, y with
    | [], [] => true
    | p :: x', q :: y' => f p q && arr_eqb x' y'
    | _, _ => false
    end.
Definition comp_eqb' (f : data -> data -> bool) :=
  fix comp_eqb (x y : smap data) : bool :=
    match x, y with
    | [], [] => true
    | (k, p) :: x', (l, q) :: y' => beq_bytes k l && f p q && comp_eqb x' y'
    | _, _ => false
    end.

Lemma data_eqb_unfold : forall aa at_ ar ac ba bt br bc,
  data_eqb (Data aa at_ ar ac) (Data ba bt br bc) =
  beq_bytes aa ba && dtype_eqb at_ bt && arr_eqb' data_eqb ar br && comp_eqb' data_eqb ac bc.
Proof. reflexivity. Qed.

Lemma dtype_eqb_eq : forall a b, dtype_eqb a b = true <-> a = b.
Proof. intros [|] [|]; simpl; split; intro H; congruence. Qed.

Lemma data_eqb_true : forall a b, data_eqb a b = true -> a = b.
Proof.
  induction a as [aa at_ ar ac IHar IHac] using data_ind'. intros [ba bt br bc] H.
  rewrite data_eqb_unfold in H.
  apply andb_true_iff in H. destruct H as [H H4]. apply andb_true_iff in H. destruct H as [H H3].
  apply andb_true_iff in H. destruct H as [H1 H2].
  apply beq_bytes_eq in H1. apply dtype_eqb_eq in H2. subst.
  assert (E3 : ar = br).
  { clear H4. revert br H3. induction IHar as [|p x Hp Hx IH]; intros [|q y] H; simpl in H; try discriminate; [reflexivity|].
    apply andb_true_iff in H. destruct H as [A B]. rewrite (Hp _ A), (IH _ B). reflexivity. }
  assert (E4 : ac = bc).
  { clear H3. revert bc H4. induction IHac as [|[k p] x Hp Hx IH]; intros [|[l q] y] H; simpl in H; try discriminate; [reflexivity|].
    apply andb_true_iff in H. destruct H as [A C]. apply andb_true_iff in A. destruct A as [A B].
    apply beq_bytes_eq in A. simpl in Hp. rewrite A, (Hp _ B), (IH _ C). reflexivity. }
  subst. reflexivity.
Qed.

Lemma data_eqb_refl : forall a, data_eqb a a = true.
Proof.
  induction a as [aa at_ ar ac IHar IHac] using data_ind'.
  rewrite data_eqb_unfold. rewrite beq_bytes_refl. replace (dtype_eqb at_ at_) with true by (destruct at_; reflexivity).
  simpl andb.
  assert (E3 : arr_eqb' data_eqb ar ar = true).
  { induction IHar as [|p x Hp Hx IH]; simpl; [reflexivity|]. rewrite Hp, IH. reflexivity. }
  assert (E4 : comp_eqb' data_eqb ac ac = true).
  { induction IHac as [|[k p] x Hp Hx IH]; simpl; [reflexivity|]. simpl in Hp. rewrite beq_bytes_refl, Hp, IH. reflexivity. }
  rewrite E3, E4. reflexivity.
Qed.

Lemma data_eqb_eq : forall a b, data_eqb a b = true <-> a = b.
Proof. intros a b. split; [apply data_eqb_true|intros ->; apply data_eqb_refl]. Qed.

(* ================================================================== setEvent *)

(* the binding of [k] that a sequence of `m[k'] = x'` assignments leaves behind *)
Fixpoint last_binding {X : Type} (k : bytes) (l : list (bytes * X)) : option X :=
  match l with
  | [] => None
  | (k', x) :: r =>
      match last_binding k r with
      | Some y => Some y
      | None => if beq_bytes k k' then Some x else None
      end
  end.

Lemma fold_set_get : forall (X : Type) (ps : list (bytes * X)) c k,
  smap_get k (fold_left (fun c kv => smap_set (fst kv) (snd kv) c) ps c) =
  match last_binding k ps with Some x => Some x | None => smap_get k c end.
Proof.
  intros X ps. induction ps as [|[k1 x1] ps IH]; simpl; intros c k; [reflexivity|].
  rewrite IH. destruct (last_binding k ps); [reflexivity|].
  destruct (beq_bytes k k1) eqn:E.
  - apply beq_bytes_eq in E. subst. apply smap_get_set_same.
  - apply beq_bytes_neq in E. apply smap_get_set_other. exact E.
Qed.

(* params and namelist entries appear in the compound of _event.data: a namelist entry wins over
   params, the last param of a name wins over earlier ones, both win over the payload's own entry *)
Lemma set_event_merge_lookup : forall d ps nl k,
  smap_get k (d_comp (merge_event_data d ps nl)) =
  match last_binding k nl with
  | Some x => Some x
  | None => match last_binding k ps with
            | Some x => Some x
            | None => smap_get k (d_comp d)
            end
  end.
Proof. intros [a t ar c] ps nl k. simpl. rewrite fold_set_get, fold_set_get. reflexivity. Qed.

Lemma merge_keeps_members : forall d ps nl,
  d_atom (merge_event_data d ps nl) = d_atom d /\ d_type (merge_event_data d ps nl) = d_type d /\
  d_arr (merge_event_data d ps nl) = d_arr d.
Proof. intros [a t ar c] ps nl. simpl. auto. Qed.

Lemma merge_nothing : forall d, merge_event_data d [] [] = d.
Proof. intros [a t ar c]. reflexivity. Qed.

Section EventFacts.
  Variable F : Type.
  Variable s2d : bytes -> F.
  Variable l2d : Z -> F.
  Variable d2s : F -> bytes.
  Variable leval : store F -> bytes -> option (list (lua F)).
  Variable Fst : F -> bool.

  Notation gld := (get_lua_as_data F l2d d2s).
  Notation gdl := (get_data_as_lua F s2d leval).
  Notation emb := (embed F d2s).
  Notation unamb := (unambiguous F Fst).
  Notation evdata := (event_data_of F s2d leval).

  Definition header_keys : list lkey :=
    [KStr s_name; KStr s_raw; KStr s_origin; KStr s_origintype; KStr s_invokeid; KStr s_sendid; KStr s_type].

  Lemma set_if_nonempty_keys : forall k s (t : ltable F) k',
    In k' (map fst (set_if_nonempty F k s t)) -> k' = KStr k \/ In k' (map fst t).
  Proof.
    intros k s t k' H. unfold set_if_nonempty in H. destruct s; [right; exact H|].
    apply tbl_set_keys in H. exact H.
  Qed.

  Lemma event_header_keys : forall e k, In k (map fst (event_header F e)) -> In k header_keys.
  Proof.
    intros e k H. unfold event_header in H.
    assert (T5 : forall k, In k (map fst
              (if ev_hide_sendid e
               then set_if_nonempty F s_invokeid (ev_invokeid e) (set_if_nonempty F s_origintype (ev_origintype e)
                      (set_if_nonempty F s_origin (ev_origin e) (set_if_nonempty F s_raw (ev_raw e)
                         (tbl_set (KStr s_name) (LStr (ev_name e)) []))))
               else tbl_set (KStr s_sendid) (LStr (ev_sendid e))
                      (set_if_nonempty F s_invokeid (ev_invokeid e) (set_if_nonempty F s_origintype (ev_origintype e)
                         (set_if_nonempty F s_origin (ev_origin e) (set_if_nonempty F s_raw (ev_raw e)
                            (tbl_set (KStr s_name) (LStr (ev_name e)) []))))))) ->
              In k [KStr s_name; KStr s_raw; KStr s_origin; KStr s_origintype; KStr s_invokeid; KStr s_sendid]).
    { intros k0 H0.
      assert (T4 : forall k, In k (map fst (set_if_nonempty F s_invokeid (ev_invokeid e) (set_if_nonempty F s_origintype (ev_origintype e)
                         (set_if_nonempty F s_origin (ev_origin e) (set_if_nonempty F s_raw (ev_raw e)
                            (tbl_set (KStr s_name) (LStr (ev_name e)) [])))))) ->
                In k [KStr s_name; KStr s_raw; KStr s_origin; KStr s_origintype; KStr s_invokeid]).
      { intros k1 H1.
        apply set_if_nonempty_keys in H1. destruct H1 as [->|H1]; [simpl; tauto|].
        apply set_if_nonempty_keys in H1. destruct H1 as [->|H1]; [simpl; tauto|].
        apply set_if_nonempty_keys in H1. destruct H1 as [->|H1]; [simpl; tauto|].
        apply set_if_nonempty_keys in H1. destruct H1 as [->|H1]; [simpl; tauto|].
        apply tbl_set_keys in H1. destruct H1 as [->|[]]. simpl; tauto. }
      destruct (ev_hide_sendid e).
      - apply T4 in H0. simpl in *. tauto.
      - apply tbl_set_keys in H0. destruct H0 as [->|H0]; [simpl; tauto|]. apply T4 in H0. simpl in *. tauto. }
    unfold header_keys.
    destruct (ev_type e).
    - apply tbl_set_keys in H. destruct H as [->|H]; [simpl; tauto|]. apply T5 in H. simpl in *. tauto.
    - apply tbl_set_keys in H. destruct H as [->|H]; [simpl; tauto|]. apply T5 in H. simpl in *. tauto.
    - apply tbl_set_keys in H. destruct H as [->|H]; [simpl; tauto|]. apply T5 in H. simpl in *. tauto.
    - apply T5 in H. simpl in *. tauto.
  Qed.

  Lemma data_not_in_header : forall e, ~ In (KStr s_data) (map fst (event_header F e)).
  Proof.
    intros e H. apply event_header_keys in H. unfold header_keys in H. simpl in H.
    repeat (destruct H as [H|H]; [inversion H|]). exact H.
  Qed.

  (* _event.data is getDataAsLua of the merged Data (or absent) *)
  Lemma event_data_of_spec : forall vr g e,
    evdata vr g e =
    let d := merge_event_data (ev_data e) (ev_params e) (ev_namelist e) in
    if data_absent vr d then MOk LNil else gdl vr g d.
  Proof.
    intros vr g e. unfold event_data_of, set_event. cbv zeta.
    destruct (data_absent vr (merge_event_data (ev_data e) (ev_params e) (ev_namelist e))).
    - simpl. rewrite tbl_get_fresh by apply data_not_in_header. reflexivity.
    - destruct (gdl vr g (merge_event_data (ev_data e) (ev_params e) (ev_namelist e))); simpl; try reflexivity.
      rewrite tbl_get_set_fresh by apply data_not_in_header. reflexivity.
  Qed.

  Hypothesis H_oracle : oracle_ok F s2d l2d d2s leval Fst.

  Definition denotes (vr : lm_variant) (l : lua F) (v : value F) : Prop :=
    gld vr l = emb v /\ is_lnil l = false.

  Lemma rt_denotes : forall vr g v, unamb v = true -> variant_ok vr v = true ->
    exists l, gdl vr g (emb v) = MOk l /\ denotes vr l v.
  Proof.
    intros vr g v U V. destruct (marshal_roundtrip_core F s2d l2d d2s leval Fst H_oracle vr g v U V) as (l & A & B & C).
    exists l. split; [exact A|split; assumption].
  Qed.

  (* a value carried as the single param / namelist entry [k] arrives as _event.data.[k] *)
  Lemma single_entry_event : forall vr g nm ty k d l ps nl,
    key_of_compound vr k = KStr k -> key_undefined vr k = false ->
    gdl vr g d = MOk l -> is_lnil l = false ->
    (ps = [(k, d)] /\ nl = []) \/ (ps = [] /\ nl = [(k, d)]) ->
    evdata vr g (mk_event nm ty data_default ps nl) = MOk (LTable [(KStr k, l)]).
  Proof.
    intros vr g nm ty k d l ps nl K1 K2 G N C.
    rewrite event_data_of_spec. cbv zeta.
    assert (M : merge_event_data (ev_data (mk_event nm ty data_default ps nl)) (ev_params (mk_event nm ty data_default ps nl))
                  (ev_namelist (mk_event nm ty data_default ps nl)) = Data [] INTERPRETED [] [(k, d)]).
    { destruct C as [[-> ->]|[-> ->]]; reflexivity. }
    rewrite M. simpl data_absent. cbv iota.
    change (data_absent vr (Data [] INTERPRETED [] [(k, d)])) with false.
    rewrite gdl_comp. simpl. rewrite K2, G. rewrite K1.
    unfold tbl_set. rewrite N. reflexivity.
  Qed.

  Lemma embed_not_absent : forall vr v, unamb v = true -> variant_ok vr v = true -> data_absent vr (emb v) = false.
  Proof.
    destruct H_oracle as (_ & _ & _ & Hne & _).
    intros vr v U V. destruct v as [s|[z|f]|[|]|l|kvs].
    - simpl in V. unfold data_absent. simpl. destruct s as [|c s]; [|reflexivity].
      simpl. destruct (lm_empty_atom_is_nil vr); [discriminate|reflexivity].
    - unfold data_absent. simpl. pose proof (dec_of_Z_nonempty z) as N. destruct (dec_of_Z z); [contradiction|reflexivity].
    - unfold data_absent. simpl. simpl in U. pose proof (Hne f U) as N. destruct (d2s f); [contradiction|reflexivity].
    - reflexivity.
    - reflexivity.
    - rewrite emb_arr. rewrite unamb_arr in U. destruct l; [discriminate|reflexivity].
    - rewrite emb_map. rewrite unamb_map in U.
      assert (N : smap_of_list (embl F d2s kvs) <> []).
      { apply smap_of_list_nonempty. destruct kvs; [discriminate|discriminate]. }
      unfold data_absent. simpl. destruct (smap_of_list (embl F d2s kvs)); [contradiction|reflexivity].
  Qed.

  Lemma key_p_ok : forall vr, key_of_compound vr s_p = KStr s_p /\ key_undefined vr s_p = false.
  Proof.
    intro vr. split; [unfold key_of_compound; destruct (lm_sign_anywhere vr); reflexivity|].
    unfold key_undefined. rewrite andb_false_r. reflexivity.
  Qed.
  Lemma key_q_ok : forall vr, key_of_compound vr s_q = KStr s_q /\ key_undefined vr s_q = false.
  Proof.
    intro vr. split; [unfold key_of_compound; destruct (lm_sign_anywhere vr); reflexivity|].
    unfold key_undefined. rewrite andb_false_r. reflexivity.
  Qed.
  Lemma key_nl_ok : forall vr, key_of_compound vr s_nl = KStr s_nl /\ key_undefined vr s_nl = false.
  Proof.
    intro vr. split; [unfold key_of_compound; destruct (lm_sign_anywhere vr); reflexivity|].
    unfold key_undefined. rewrite andb_false_r. reflexivity.
  Qed.

  Lemma field_single : forall k (l : lua F), field_of (LTable [(KStr k, l)]) k = MOk l.
  Proof. intros k l. simpl. rewrite beq_bytes_refl. reflexivity. Qed.

  (* every way out reads a Lua value denoting [v] back as [embed v] *)
  Lemma way_out_correct : forall vr g wo w v,
    unamb v = true -> variant_ok vr v = true -> denotes vr w v ->
    run_way_out F s2d l2d d2s leval vr g wo w = MOk (emb v).
  Proof.
    intros vr g wo w v U V [D1 D2].
    destruct (rt_denotes vr g v U V) as (l & G & [L1 L2]).
    destruct (key_q_ok vr) as [Q1 Q2].
    destruct wo; unfold run_way_out; rewrite D1; try reflexivity.
    - rewrite (single_entry_event vr g s_out EvExternal s_q (emb v) l [(s_q, emb v)] [] Q1 Q2 G L2) by (left; split; reflexivity).
      unfold mbind. rewrite field_single. rewrite L1. reflexivity.
    - rewrite (single_entry_event vr g s_out EvExternal s_q (emb v) l [(s_q, emb v)] [] Q1 Q2 G L2) by (left; split; reflexivity).
      unfold mbind. rewrite field_single. rewrite L1. reflexivity.
  Qed.

  (* what <assign expr>, <data expr> make of the literal's text: assumption on the rendering of
     literals and on the Lua VM *)
  Definition literal_denotes (vr : lm_variant) (g : store F) (lit_text : bytes) (v : value F) : Prop :=
    exists l0, gdl vr g (atomI lit_text) = MOk l0 /\ denotes vr l0 v.

  Lemma way_in_correct : forall vr g wi lit_text v,
    unamb v = true -> variant_ok vr v = true -> literal_denotes vr g lit_text v ->
    exists w, run_way_in F s2d l2d d2s leval vr g wi lit_text (lua_of_value v) (emb v) = MOk w /\ denotes vr w v.
  Proof.
    intros vr g wi lit_text v U V (l0 & G0 & D0).
    destruct (rt_denotes vr g v U V) as (l & G & [L1 L2]).
    destruct (literal_as_data F s2d l2d d2s leval Fst H_oracle vr v U V) as [A1 A2].
    destruct (key_p_ok vr) as [P1 P2]. destruct (key_nl_ok vr) as [N1 N2].
    destruct wi; unfold run_way_in.
    - exists l. split; [|split; assumption].
      rewrite event_data_of_spec. cbv zeta. unfold mk_event. simpl ev_data. simpl ev_params. simpl ev_namelist.
      rewrite merge_nothing. rewrite (embed_not_absent vr v U V). exact G.
    - exists l. split; [|split; assumption].
      rewrite A1.
      rewrite (single_entry_event vr g s_in EvExternal s_p (emb v) l [(s_p, emb v)] [] P1 P2 G L2) by (left; split; reflexivity).
      unfold mbind. apply field_single.
    - exists l. split; [|split; assumption].
      rewrite G0. unfold mbind at 1. destruct D0 as [D1 D2]. rewrite D1.
      rewrite (single_entry_event vr g s_in EvExternal s_nl (emb v) l [] [(s_nl, emb v)] N1 N2 G L2) by (right; split; reflexivity).
      unfold mbind. apply field_single.
    - exists l0. split; [exact G0|exact D0].
    - exists l0. split; [exact G0|exact D0].
    - exists l. split; [exact G|split; assumption].
  Qed.

  (* the premise [literal_denotes] from more primitive facts: a literal text that is not made of
     numeral characters is evaluated by the Lua VM ... *)
  Lemma literal_denotes_by_eval : forall vr g lit_text v,
    unamb v = true -> variant_ok vr v = true ->
    lit_text <> [] -> is_numeric (lm_sign_anywhere vr) lit_text = false ->
    leval g lit_text = Some [lua_of_value v] ->
    literal_denotes vr g lit_text v.
  Proof.
    intros vr g lit_text v U V NE NN E.
    destruct (literal_as_data F s2d l2d d2s leval Fst H_oracle vr v U V) as [A1 A2].
    exists (lua_of_value v). split; [|split; assumption].
    unfold atomI. rewrite gdl_atom. destruct lit_text as [|c r]; [contradiction|].
    simpl atom_branch_taken. cbv iota. unfold atom_as_lua. rewrite NN, E. reflexivity.
  Qed.

  (* ... and the decimal text of an integer by-passes the VM (isNumeric, strTo<long>) *)
  Lemma literal_denotes_integer : forall vr g z,
    unamb (VNum (NInt z)) = true -> @variant_ok F vr (VNum (NInt z)) = true ->
    literal_denotes vr g (dec_of_Z z) (VNum (NInt z)).
  Proof.
    intros vr g z U V.
    destruct (marshal_roundtrip_core F s2d l2d d2s leval Fst H_oracle vr g (VNum (NInt z)) U V) as (l & A & B & C).
    exists l. split; [exact A|split; assumption].
  Qed.

  Lemma ways_roundtrip_core : forall vr g wi wo lit_text v,
    unamb v = true -> variant_ok vr v = true -> literal_denotes vr g lit_text v ->
    run_ways F s2d l2d d2s leval vr g wi wo lit_text (lua_of_value v) (emb v) = MOk (emb v).
  Proof.
    intros vr g wi wo lit_text v U V L. unfold run_ways.
    destruct (way_in_correct vr g wi lit_text v U V L) as (w & A & D). rewrite A. simpl.
    apply way_out_correct; assumption.
  Qed.
End EventFacts.

(* ================================================================== assign / init and the system variables *)

(* the regenerated guard list covers every system variable the property names *)
Lemma protected_covers_system_vars_lemma :
  lua_guard_first = true /\ forall s, In s system_vars -> is_protected s = true.
Proof.
  split; [reflexivity|].
  intros s H. repeat (destruct H as [<-|H]; [vm_compute; reflexivity|]). destruct H.
Qed.

(* ... and, for the guard by exact comparison (pinned), nothing else *)
Lemma protected_only_listed : lua_guard_prefix = false ->
  forall loc, is_protected loc = true -> In loc lua_protected.
Proof.
  intros P loc H. unfold is_protected in H. rewrite P in H. apply andb_true_iff in H. destruct H as [_ H].
  apply existsb_exists in H. destruct H as (p & I & E). apply beq_bytes_eq in E. subst. exact I.
Qed.

Lemma is_prefix_app : forall p r, is_prefix p (p ++ r) = true.
Proof. induction p as [|x p IH]; simpl; intro r; [reflexivity|]. rewrite N.eqb_refl, IH. reflexivity. Qed.

Lemma nth_byte_app : forall p c r, nth_byte (p ++ c :: r) (length p) = Some c.
Proof. induction p as [|x p IH]; simpl; intros c r; [reflexivity|apply IH]. Qed.

Lemma trim_right_app_nonspace : forall a c b, isspace c = false -> trim_right (a ++ c :: b) = a ++ c :: trim_right b.
Proof.
  intros a c b H. induction a as [|x a IH]; simpl.
  - rewrite H. destruct (trim_right b); reflexivity.
  - rewrite IH. destruct a; reflexivity.
Qed.

(* the repaired guard fires on a name followed by a character that cannot continue an identifier *)
Lemma prefix_guard_member : forall x p c rest,
  isspace x = false -> is_ident_char c = false -> isspace c = false ->
  prefix_guard ((x :: p) ++ c :: rest) (x :: p) = true.
Proof.
  intros x p c rest HX HC HS. unfold prefix_guard, trim.
  assert (D : drop_spaces ((x :: p) ++ c :: rest) = (x :: p) ++ c :: rest) by (simpl; rewrite HX; reflexivity).
  rewrite D. rewrite trim_right_app_nonspace by exact HS.
  rewrite is_prefix_app, nth_byte_app, HC. reflexivity.
Qed.

Definition is_ident_start (c : N) : bool :=
  ((65 <=? c) && (c <=? 90)) || ((97 <=? c) && (c <=? 122)) || (c =? 95).
Definition is_ident (s : bytes) : bool :=
  match s with
  | [] => false
  | c :: r => is_ident_start c && forallb (fun c => is_ident_start c || is_digit c) r
  end.

Section AssignFacts.
  Variable F : Type.
  Variable s2d : bytes -> F.
  Variable l2d : Z -> F.
  Variable d2s : F -> bytes.
  Variable leval : store F -> bytes -> option (list (lua F)).
  Variable lexec : bytes -> store F -> option (store F).     (* the chunk "<location>= __tmpAssign" *)
  Variable Fst : F -> bool.

  Notation gld := (get_lua_as_data F l2d d2s).
  Notation gdl := (get_data_as_lua F s2d leval).
  Notation emb := (embed F d2s).
  Notation unamb := (unambiguous F Fst).
  Notation assign := (dm_assign F s2d leval lexec).
  Notation init := (dm_init F s2d leval lexec).

  (* a location that is exactly a system variable: error.execution, store unchanged *)
  Lemma assign_protected_lemma : forall vr s d g, In s system_vars -> assign vr s d g = DmError g.
  Proof.
    intros vr s d g H.
    repeat (destruct H as [<-|H]; [reflexivity|]). destruct H.
  Qed.

  Lemma init_protected_if_guard_first_lemma : lua_init_clears_first = false ->
    forall vr s d g, In s system_vars -> init vr s d g = DmError g.
  Proof.
    intros C vr s d g H. unfold dm_init. rewrite C.
    rewrite (proj2 protected_covers_system_vars_lemma s H). reflexivity.
  Qed.

  (* <data id="_name" .../>: init() clears the global before assign() raises the error *)
  Lemma init_protected_refuted_lemma : lua_init_clears_first = true ->
    forall vr, exists s d g g', In s system_vars /\ init vr s d g = DmError g' /\ store_get s g' <> store_get s g.
  Proof.
    intros C vr.
    exists s_sv_name, (atomV [120]), [(s_sv_name, LStr [99])], [].
    split; [simpl; tauto|]. split.
    - unfold dm_init. rewrite C. reflexivity.
    - vm_compute. discriminate.
  Qed.

  (* assumed behaviour of the Lua VM on three shapes of assignment chunk (used only by the lemmas
     that name them as a premise) *)
  Definition lua_sets_global : Prop :=
    forall x g, is_ident x = true -> lexec x g = Some (store_set x (store_get s_tmpAssign g) g).
  Definition lua_sets_field : Prop :=
    forall root fld g t, is_ident root = true -> is_ident fld = true -> store_get root g = LTable t ->
      lexec (root ++ c_dot :: fld) g = Some (store_set root (LTable (tbl_set (KStr fld) (store_get s_tmpAssign g) t)) g).
  Definition lua_ignores_trailing_space : Prop :=
    forall x g, is_ident x = true -> lexec (x ++ [c_space]) g = Some (store_set x (store_get s_tmpAssign g) g).

  (* a path below a system variable is not guarded: `_event.name` is assigned *)
  Lemma assign_below_system_var_refuted_lemma : lua_guard_prefix = false -> lua_sets_field ->
    forall vr, exists loc d g g',
      (exists sv fld, In sv system_vars /\ loc = sv ++ c_dot :: fld) /\
      assign vr loc d g = DmOk g' /\ store_get s_sv_event g' <> store_get s_sv_event g.
  Proof.
    intros P L vr.
    set (g := [(s_sv_event, LTable [(KStr s_name, @LStr F [101])])]).
    set (d := atomV [104; 97; 99; 107; 101; 100]).
    set (g1 := store_set s_tmpAssign (@LStr F [104; 97; 99; 107; 101; 100]) g).
    exists (s_sv_event ++ c_dot :: s_name), d, g.
    exists (store_set s_sv_event (LTable (tbl_set (KStr s_name) (store_get s_tmpAssign g1) [(KStr s_name, @LStr F [101])])) g1).
    split; [exists s_sv_event, s_name; split; [simpl; tauto|reflexivity]|].
    split.
    - unfold dm_assign.
      change (s_sv_event ++ c_dot :: s_name) with (95 :: tl (s_sv_event ++ c_dot :: s_name)). cbv iota.
      change (95 :: tl (s_sv_event ++ c_dot :: s_name)) with (s_sv_event ++ c_dot :: s_name).
      replace (is_protected (s_sv_event ++ c_dot :: s_name)) with false
        by (unfold is_protected; rewrite P; vm_compute; reflexivity).
      replace (gdl vr g d) with (MOk (@LStr F [104; 97; 99; 107; 101; 100])) by reflexivity.
      fold g1.
      rewrite (L s_sv_event s_name g1 [(KStr s_name, LStr [101])]); [reflexivity|reflexivity|reflexivity|reflexivity].
    - vm_compute. discriminate.
  Qed.

  (* nor is the same name followed by a blank *)
  Lemma assign_padded_system_var_refuted_lemma : lua_guard_prefix = false -> lua_ignores_trailing_space ->
    forall vr, exists loc d g g',
      (exists sv, In sv system_vars /\ loc = sv ++ [c_space]) /\
      assign vr loc d g = DmOk g' /\ store_get s_sv_name g' <> store_get s_sv_name g.
  Proof.
    intros P L vr.
    set (g := [(s_sv_name, @LStr F [99])]).
    set (d := atomV [120]).
    set (g1 := store_set s_tmpAssign (@LStr F [120]) g).
    exists (s_sv_name ++ [c_space]), d, g, (store_set s_sv_name (store_get s_tmpAssign g1) g1).
    split; [exists s_sv_name; split; [simpl; tauto|reflexivity]|].
    split.
    - unfold dm_assign.
      change (s_sv_name ++ [c_space]) with (95 :: tl (s_sv_name ++ [c_space])). cbv iota.
      change (95 :: tl (s_sv_name ++ [c_space])) with (s_sv_name ++ [c_space]).
      replace (is_protected (s_sv_name ++ [c_space])) with false
        by (unfold is_protected; rewrite P; vm_compute; reflexivity).
      replace (gdl vr g d) with (MOk (@LStr F [120])) by reflexivity.
      fold g1. rewrite (L s_sv_name g1); [reflexivity|reflexivity].
    - vm_compute. discriminate.
  Qed.

  Lemma assign_guarded : forall vr loc d g, loc <> [] -> is_protected loc = true -> assign vr loc d g = DmError g.
  Proof. intros vr [|c loc] d g N G; [contradiction|]. unfold dm_assign. rewrite G. reflexivity. Qed.

  (* with the repaired guard, members of a system variable and padded names are refused as well *)
  Lemma assign_below_protected_lemma : lua_guard_prefix = true ->
    forall vr sv c rest d g, In sv system_vars -> is_ident_char c = false -> isspace c = false ->
      assign vr (sv ++ c :: rest) d g = DmError g.
  Proof using F s2d leval lexec.
    intros P vr sv c rest d g H HC HS.
    assert (G : is_protected (sv ++ c :: rest) = true).
    { unfold is_protected. rewrite P. apply andb_true_iff. split; [exact (proj1 protected_covers_system_vars_lemma)|].
      apply existsb_exists. exists sv. split.
      - repeat (destruct H as [<-|H]; [vm_compute; auto 10|]). destruct H.
      - repeat (destruct H as [<-|H]; [unfold s_sv_event, s_sv_sessionid, s_sv_name, s_sv_ioprocessors, s_sv_invokers;
                                       apply prefix_guard_member; [reflexivity|exact HC|exact HS]|]). destruct H. }
    apply assign_guarded; [destruct sv; discriminate|exact G].
  Qed.

  Lemma assign_padded_protected_lemma : lua_guard_prefix = true ->
    forall vr sv d g, In sv system_vars ->
      assign vr (sv ++ [c_space]) d g = DmError g /\ assign vr (c_space :: sv) d g = DmError g.
  Proof.
    intros P vr sv d g H.
    assert (G : is_protected (sv ++ [c_space]) = true /\ is_protected (c_space :: sv) = true).
    { repeat (destruct H as [<-|H]; [split; unfold is_protected; rewrite P; vm_compute; reflexivity|]). destruct H. }
    destruct G as [G1 G2]. split; apply assign_guarded; try exact G1; try exact G2.
    - destruct sv; discriminate.
    - discriminate.
  Qed.

  Lemma store_get_remove_same : forall k (g : store F), store_get k (store_remove k g) = LNil.
  Proof.
    intros k g. induction g as [|[k2 v2] g IH]; simpl; [reflexivity|].
    destruct (beq_bytes k k2) eqn:E; [exact IH|]. simpl. rewrite E. exact IH.
  Qed.

  Lemma store_get_set_same : forall k (v : lua F) g, store_get k (store_set k v g) = v.
  Proof.
    intros k v g. unfold store_set. destruct (is_lnil v) eqn:E.
    - rewrite store_get_remove_same. destruct v; try discriminate. reflexivity.
    - simpl. rewrite beq_bytes_refl. reflexivity.
  Qed.

  Lemma store_get_remove_other : forall k k' (g : store F), k <> k' -> store_get k (store_remove k' g) = store_get k g.
  Proof.
    intros k k' g N. induction g as [|[k2 v2] g IH]; simpl; [reflexivity|].
    destruct (beq_bytes k' k2) eqn:E.
    - apply beq_bytes_eq in E. subst k2. apply beq_bytes_neq in N. rewrite N. exact IH.
    - simpl. rewrite IH. reflexivity.
  Qed.

  Lemma store_get_set_other : forall k k' (v : lua F) g, k <> k' -> store_get k (store_set k' v g) = store_get k g.
  Proof.
    intros k k' v g N. unfold store_set. destruct (is_lnil v).
    - apply store_get_remove_other. exact N.
    - simpl. pose proof N as N2. apply beq_bytes_neq in N2. rewrite N2. apply store_get_remove_other. exact N.
  Qed.

  Hypothesis H_oracle : oracle_ok F s2d l2d d2s leval Fst.

  (* an ordinary variable: the assigned value is read back (evalAsData of the variable) as it went in *)
  Lemma assign_then_read_lemma : lua_sets_global ->
    forall vr g x v, is_ident x = true -> is_protected x = false ->
      unamb v = true -> variant_ok vr v = true ->
      exists g', assign vr x (emb v) g = DmOk g' /\ gld vr (store_get x g') = emb v.
  Proof.
    intros L vr g x v I P U V.
    destruct (marshal_roundtrip_core F s2d l2d d2s leval Fst H_oracle vr g v U V) as (l & A & B & C).
    exists (store_set x (store_get s_tmpAssign (store_set s_tmpAssign l g)) (store_set s_tmpAssign l g)).
    split.
    - unfold dm_assign. destruct x as [|c x]; [discriminate|]. rewrite P, A. rewrite (L (c :: x) _ I). reflexivity.
    - rewrite store_get_set_same. rewrite store_get_set_same. exact C.
  Qed.
  (* <data id="x" expr=...>: init() of an ordinary variable *)
  Lemma init_then_read_lemma : lua_sets_global ->
    forall vr g x v, is_ident x = true -> is_protected x = false ->
      unamb v = true -> variant_ok vr v = true ->
      exists g', init vr x (emb v) g = DmOk g' /\ gld vr (store_get x g') = emb v.
  Proof.
    intros L vr g x v I P U V. unfold dm_init. rewrite P.
    destruct lua_init_clears_first; apply assign_then_read_lemma; assumption.
  Qed.
End AssignFacts.

(* ================================================================== refutations for the pinned code *)

Section Refutations.
  Variable F : Type.
  Variable s2d : bytes -> F.
  Variable l2d : Z -> F.
  Variable d2s : F -> bytes.
  Variable leval : store F -> bytes -> option (list (lua F)).
  Variable Fst : F -> bool.

  Notation gld := (get_lua_as_data F l2d d2s).
  Notation gdl := (get_data_as_lua F s2d leval).
  Notation emb := (embed F d2s).
  Notation unamb := (unambiguous F Fst).

  (* the empty string becomes nil *)
  Lemma empty_string_refuted_lemma : forall vr g, lm_empty_atom_is_nil vr = true ->
    exists v l, unamb v = true /\ gdl vr g (emb v) = MOk l /\ gld vr l <> emb v.
  Proof.
    intros vr g H. exists (VStr []), LNil. split; [reflexivity|]. split.
    - simpl. rewrite H. reflexivity.
    - simpl. discriminate.
  Qed.

  Definition ten_strings : value F :=
    VArr [VStr [97]; VStr [98]; VStr [99]; VStr [100]; VStr [101]; VStr [102]; VStr [103]; VStr [104]; VStr [105]; VStr [106]].

  (* an array of ten elements comes back with its tenth element in second place and eight nils *)
  Lemma long_array_refuted_lemma : forall vr g, lm_keys_sorted_as_text vr = true ->
    exists v l, unamb v = true /\ gdl vr g (emb v) = MOk l /\ gld vr l <> emb v.
  Proof.
    intros [a b c d] g H. simpl in H. subst b.
    exists ten_strings.
    exists (LTable (number_from 1 [LStr [97]; LStr [98]; LStr [99]; LStr [100]; LStr [101]; LStr [102]; LStr [103]; LStr [104]; LStr [105]; LStr [106]])).
    split; [reflexivity|]. split.
    - destruct a; reflexivity.
    - vm_compute. discriminate.
  Qed.

  (* an integer beyond 2^53, given the double conversion observed on the implementation *)
  Lemma big_integer_refuted_lemma : forall vr g, lm_int_via_double vr = true ->
    d2s (l2d (TWO53 + 1)%Z) = dec_of_Z TWO53 ->
    exists v l, unamb v = true /\ gdl vr g (emb v) = MOk l /\ gld vr l <> emb v.
  Proof.
    intros vr g H O. exists (VNum (NInt (TWO53 + 1)%Z)), (LNum (NInt (TWO53 + 1)%Z)).
    split; [reflexivity|]. split.
    - unfold embed, atomI, get_data_as_lua, atom_branch_taken, atom_as_lua. destruct (lm_sign_anywhere vr); reflexivity.
    - simpl. rewrite H. unfold TWO53 in *. simpl in O. rewrite O. vm_compute. discriminate.
  Qed.

  (* a map with the empty key makes getDataAsLua read an uninitialised long *)
  Lemma empty_key_refuted_lemma : forall vr g, lm_empty_key_undefined vr = true ->
    exists v, unamb v = true /\ gdl vr g (emb v) = MUndef.
  Proof.
    intros vr g H. exists (VMap [([], VBool true)]). split; [reflexivity|].
    simpl. unfold key_undefined. rewrite H. reflexivity.
  Qed.
  (* the key "1-2" is taken for the integer 1: the map {"1-2" = "abc"} comes back as the array {"abc"} *)
  Lemma sign_position_refuted_lemma : forall vr g, lm_sign_anywhere vr = true ->
    exists v l, unamb v = true /\ gdl vr g (emb v) = MOk l /\ gld vr l <> emb v.
  Proof.
    intros [a b c d e] g H. simpl in H. subst e.
    exists (VMap [([49; 45; 50], VStr [97; 98; 99])]), (LTable [(KInt 1, LStr [97; 98; 99])]).
    split; [reflexivity|]. split.
    - destruct a, d; reflexivity.
    - destruct b; vm_compute; discriminate.
  Qed.
End Refutations.

(* ================================================================== the hypotheses are satisfiable *)

(* a toy oracle in which the "doubles" are the integers: it satisfies oracle_ok, so the theorems are
   not vacuous *)
Definition toy_eval (g : store Z) (s : bytes) : option (list (lua Z)) :=
  if beq_bytes s s_true then Some [LBool true]
  else if beq_bytes s s_false then Some [LBool false]
  else None.

Lemma toy_oracle_ok : oracle_ok Z str_to_long (fun z => z) dec_of_Z toy_eval in_long.
Proof.
  unfold oracle_ok. repeat split.
  - intros f _. apply dec_of_Z_nonempty.
  - intros sa f _ _ D. rewrite contains_dot_dec in D. discriminate.
  - intros sa f S _ _. exists f. auto.
  - intros sa g f _ N. rewrite is_numeric_dec in N. discriminate.
Qed.

(* a nested value with number-like strings: {a = "007", b = {"1.5", {c = "true", d = -7, [""] = "nil"}}} *)
Definition example_value (F : Type) : value F :=
  VMap [([97], VStr [48; 48; 55]);
        ([98], VArr [VStr [49; 46; 53];
                     VMap [([99], VStr [116; 114; 117; 101]); ([100], VNum (NInt (-7)%Z)); ([], VStr [110; 105; 108])]])].

Lemma example_value_unambiguous : forall F Fst, unambiguous F Fst (example_value F) = true.
Proof. intros. reflexivity. Qed.

Lemma example_value_fixed_ok : forall F, variant_ok lm_fixed (example_value F) = true.
Proof. intros. reflexivity. Qed.
