(* MicroConformLemmas.v -- C01, microstep comparison on the history-free core, the phases: exiting,
   taking the transitions, entering (given the list of states to enter).  Proofs only. *)
From V Require Import Base NameMatch Chart Exec Large LargeLemmas Spec Legal SetLemmas LegalAbstract LegalLarge
  LargeCacheLemmas Trace TraceLemmas SelectConformRoot MicroConform.
Local Open Scope nat_scope.

(* ------------------------------------------------------------------ content does not see views that agree on the ids it asks for *)

Definition mentions_items (sid : N) : list ifitem -> bool :=
  fix go (l : list ifitem) : bool :=
    match l with
    | [] => false
    | FElseif c' :: r => mentions sid c' || go r
    | FElse :: r => go r
    | FInstr j :: r => mentions_i sid j || go r
    end.

Lemma mentions_i_if sid v c body : mentions_i sid (IIf v c body) = mentions sid c || mentions_items sid body.
Proof. reflexivity. Qed.

Section Ext.
Variables inst1 inst2 : N -> bool.

Definition agree_on (P : N -> bool) : Prop := forall sid, P sid = true -> inst1 sid = inst2 sid.

Lemma is_true_ext e x : agree_on (fun sid => mentions sid e) -> is_true inst1 e x = is_true inst2 e x.
Proof. intros H. unfold is_true. now rewrite (beval_ext inst1 inst2 (x_store x) e H). Qed.

Lemma exec_instr_ext i : agree_on (fun sid => mentions_i sid i) ->
  forall x, exec_instr ex_fixed inst1 i x = exec_instr ex_fixed inst2 i x.
Proof.
  induction i using instr_ind2 with
    (Q := fun it => match it with
                    | FInstr j => agree_on (fun sid => mentions_i sid j) ->
                                  forall x, exec_instr ex_fixed inst1 j x = exec_instr ex_fixed inst2 j x
                    | _ => True
                    end); try exact I; try (intros _ y; reflexivity).
  - intros Hag y. rewrite !exec_if_unfold. cbn zeta.
    assert (Hc : agree_on (fun sid => mentions sid c)).
    { intros sid Hs. apply Hag. rewrite mentions_i_if, Hs. reflexivity. }
    assert (Hb : agree_on (fun sid => mentions_items sid body)).
    { intros sid Hs. apply Hag. rewrite mentions_i_if, Hs. apply orb_true_r. }
    rewrite (is_true_ext c _ Hc). destruct (is_true inst2 c (emit (TCb v) y)) as [b0 x2].
    assert (Hitems : forall l, Forall (fun it => match it with
                    | FInstr j => agree_on (fun sid => mentions_i sid j) ->
                                  forall x, exec_instr ex_fixed inst1 j x = exec_instr ex_fixed inst2 j x
                    | _ => True end) l -> agree_on (fun sid => mentions_items sid l) ->
             forall b z, if_items inst1 l b z = if_items inst2 l b z).
    { induction l as [|it r IHl]; intros HF Hl b z; cbn [if_items]; [reflexivity|].
      inversion HF as [|? ? Hit Hr]; subst. destruct it as [c'| |j].
      - assert (H1 : agree_on (fun sid => mentions sid c')) by (intros sid Hs; apply Hl; cbn; now rewrite Hs).
        assert (H2 : agree_on (fun sid => mentions_items sid r)) by (intros sid Hs; apply Hl; cbn; rewrite Hs; apply orb_true_r).
        destruct b; [reflexivity|]. rewrite (is_true_ext c' z H1). destruct (is_true inst2 c' z). now apply IHl.
      - destruct b; [reflexivity|]. apply IHl; [exact Hr|]. intros sid Hs. apply Hl. exact Hs.
      - assert (H1 : agree_on (fun sid => mentions_i sid j)) by (intros sid Hs; apply Hl; cbn; now rewrite Hs).
        assert (H2 : agree_on (fun sid => mentions_items sid r)) by (intros sid Hs; apply Hl; cbn; rewrite Hs; apply orb_true_r).
        destruct b; [|now apply IHl]. rewrite (Hit H1 z). destruct (exec_instr ex_fixed inst2 j z) as [ok z'].
        destruct ok; [now apply IHl | reflexivity]. }
    rewrite (Hitems body H Hb b0 x2). reflexivity.
  - exact IHi.
Qed.

Lemma exec_block_ext b : agree_on (fun sid => mentions_b sid b) ->
  forall x, exec_block ex_fixed inst1 b x = exec_block ex_fixed inst2 b x.
Proof.
  induction b as [|i r IH]; intros Hag x; cbn [exec_block]; [reflexivity|].
  rewrite exec_instr_ext by (intros sid Hs; apply Hag; unfold mentions_b; cbn [existsb]; now rewrite Hs).
  destruct (exec_instr ex_fixed inst2 i x) as [ok x']. destruct ok; [|reflexivity].
  apply IH. intros sid Hs. apply Hag. unfold mentions_b in *. cbn [existsb]. rewrite Hs. apply orb_true_r.
Qed.

Lemma exec_blocks_ext bs : agree_on (fun sid => mentions_bs sid bs) ->
  forall x, exec_blocks ex_fixed inst1 bs x = exec_blocks ex_fixed inst2 bs x.
Proof.
  unfold exec_blocks. induction bs as [|b r IH]; intros Hag x; cbn [fold_left]; [reflexivity|].
  rewrite exec_block_ext by (intros sid Hs; apply Hag; unfold mentions_bs; cbn [existsb]; now rewrite Hs).
  apply IH. intros sid Hs. apply Hag. unfold mentions_bs in *. cbn [existsb]. rewrite Hs. apply orb_true_r.
Qed.
End Ext.

Lemma inst_of_root c cfg' sid : sid <> fs_sid (st c 0) -> inst_of c (0 :: cfg') sid = inst_of c cfg' sid.
Proof.
  intros Hne. unfold inst_of. cbn [existsb]. destruct (fs_sid (st c 0) =? sid)%N eqn:E; [|reflexivity].
  apply N.eqb_eq in E. congruence.
Qed.

Lemma exec_block_root c cfg' b x : mentions_b (fs_sid (st c 0)) b = false ->
  exec_block ex_fixed (inst_of c (0 :: cfg')) b x = exec_block ex_fixed (inst_of c cfg') b x.
Proof.
  intros Hm. apply exec_block_ext. intros sid Hs. apply inst_of_root. intros ->. congruence.
Qed.

Lemma exec_blocks_root c cfg' bs x : mentions_bs (fs_sid (st c 0)) bs = false ->
  exec_blocks ex_fixed (inst_of c (0 :: cfg')) bs x = exec_blocks ex_fixed (inst_of c cfg') bs x.
Proof.
  intros Hm. apply exec_blocks_ext. intros sid Hs. apply inst_of_root. intros ->. congruence.
Qed.

(* ------------------------------------------------------------------ small facts *)

Lemma insert_sorted_root i l : i <> 0 -> insert_sorted i (0 :: l) = 0 :: insert_sorted i l.
Proof.
  intros Hi. cbn [insert_sorted]. replace (i <? 0) with false by (symmetry; apply Nat.ltb_ge; lia).
  replace (i =? 0) with false by (symmetry; now apply Nat.eqb_neq). reflexivity.
Qed.

Lemma set_remove_root i l : i <> 0 -> set_remove i (0 :: l) = 0 :: set_remove i l.
Proof.
  intros Hi. unfold set_remove. cbn [filter]. replace (i =? 0) with false by (symmetry; now apply Nat.eqb_neq). reflexivity.
Qed.

Lemma mem_insert_sorted j i l : mem j (insert_sorted i l) = (j =? i) || mem j l.
Proof.
  destruct (mem j (insert_sorted i l)) eqn:E.
  - apply mem_In, In_insert_sorted' in E as [->|E]; [now rewrite Nat.eqb_refl|].
    apply mem_In in E. rewrite E. now rewrite orb_true_r.
  - symmetry. apply orb_false_iff. apply mem_false_In in E. split.
    + apply Nat.eqb_neq. intros ->. apply E. apply In_insert_sorted'. now left.
    + apply mem_false_In. intros H. apply E. apply In_insert_sorted'. now right.
Qed.

Lemma root_silent_parts c : root_silentb c = true ->
  (forall i, mentions_bs (fs_sid (st c 0)) (fs_onentry (st c i)) = false) /\
  (forall i, mentions_bs (fs_sid (st c 0)) (fs_onexit (st c i)) = false) /\
  (forall ti, mentions_b (fs_sid (st c 0)) (ft_body (tr c ti)) = false).
Proof.
  intros H. unfold root_silentb in H. cbn zeta in H. apply andb_true_iff in H as [H1 H2].
  rewrite forallb_forall in H1, H2.
  assert (Hst : forall i, mentions_bs (fs_sid (st c 0)) (fs_onentry (st c i)) = false /\
                          mentions_bs (fs_sid (st c 0)) (fs_onexit (st c i)) = false).
  { intros i. destruct (Nat.lt_ge_cases i (nstates c)) as [Hi|Hi].
    - specialize (H1 i ltac:(apply in_seq; lia)). apply andb_true_iff in H1 as [A B].
      now apply negb_true_iff in A, B.
    - assert (E : st c i = dummy_state) by (unfold st; apply nth_overflow; exact Hi). rewrite E. split; reflexivity. }
  split; [intros i; apply Hst | split; [intros i; apply Hst|]].
  intros ti. destruct (Nat.lt_ge_cases ti (ntrans c)) as [Hi|Hi].
  - specialize (H2 ti ltac:(apply in_seq; lia)). now apply negb_true_iff in H2.
  - assert (E : tr c ti = dummy_trans) by (unfold tr; apply nth_overflow; exact Hi). rewrite E. reflexivity.
Qed.

(* ------------------------------------------------------------------ (a) exiting *)

Definition spec_exit_one (c : fchart) (acc : list nat * xstate) (st0 : nat) : list nat * xstate :=
  let '(cfg, x) := acc in
  let x1 := emit (TXb (fs_sid (st c st0))) x in
  let x2 := exec_blocks ex_fixed (inst_of c cfg) (fs_onexit (st c st0)) x1 in
  (set_remove st0 cfg, emit (TXe (fs_sid (st c st0))) x2).

Lemma exit_fold_conforms c X : forall cfg' x,
  (forall i, mentions_bs (fs_sid (st c 0)) (fs_onexit (st c i)) = false) -> ~ In 0 X ->
  fold_left (exit_one ex_fixed c) X (0 :: cfg', x) =
  (0 :: fst (fold_left (spec_exit_one c) X (cfg', x)), snd (fold_left (spec_exit_one c) X (cfg', x))).
Proof.
  induction X as [|i r IH]; intros cfg' x Hs H0; cbn [fold_left]; [reflexivity|].
  unfold exit_one at 2. unfold spec_exit_one at 2 4. cbn zeta.
  rewrite exec_blocks_root by apply Hs. rewrite set_remove_root by (intros ->; apply H0; now left).
  apply IH; [exact Hs | intros H; apply H0; now right].
Qed.

(* Appendix D's exitStates on a chart without history states: no history is recorded *)
Lemma exit_states_core c ts s x :
  (forall i, match fs_type (st c i) with FHistShallow | FHistDeep => False | _ => True end) ->
  exit_states c ts s x =
  (let to_exit := rev (sort_doc (compute_exit_set c (s_cfg s) (s_hv s) (map (tr c) ts))) in
   let r := fold_left (spec_exit_one c) to_exit (s_cfg s, x) in
   ({| s_cfg := fst r; s_hv := s_hv s; s_running := s_running s; s_entered := s_entered s |}, snd r)).
Proof.
  intros Hcore. unfold exit_states. cbn zeta.
  set (to_exit := rev (sort_doc (compute_exit_set c (s_cfg s) (s_hv s) (map (tr c) ts)))).
  assert (Hh : forall l h,
     fold_left (fun h st0 =>
                 fold_left (fun h ch =>
                              match sty c ch with
                              | FHistDeep => hv_set h ch (filter (fun s0 => is_atomic_state c s0 && is_descendant c s0 st0) (s_cfg s))
                              | FHistShallow => hv_set h ch (filter (fun s0 => match fs_parent (st c s0) with Some p => p =? st0 | None => false end) (s_cfg s))
                              | _ => h
                              end) (fs_children (st c st0)) h) l h = h).
  { induction l as [|a r IH]; intros h; cbn [fold_left]; [reflexivity|].
    assert (Hin : forall k h0, fold_left (fun h ch =>
                              match sty c ch with
                              | FHistDeep => hv_set h ch (filter (fun s0 => is_atomic_state c s0 && is_descendant c s0 a) (s_cfg s))
                              | FHistShallow => hv_set h ch (filter (fun s0 => match fs_parent (st c s0) with Some p => p =? a | None => false end) (s_cfg s))
                              | _ => h
                              end) k h0 = h0).
    { induction k as [|ch k IHk]; intros h0; cbn [fold_left]; [reflexivity|].
      pose proof (Hcore ch) as Hc. unfold sty. destruct (fs_type (st c ch)); try contradiction; apply IHk. }
    rewrite Hin. apply IH. }
  rewrite Hh.
  rewrite (fold_left_ext _ (spec_exit_one c)) by (intros [cfg0 x0] st0; reflexivity).
  destruct (fold_left (spec_exit_one c) to_exit (s_cfg s, x)) as [cfg1 x1]. reflexivity.
Qed.

(* ------------------------------------------------------------------ (b) the transitions' content *)

Lemma take_fold_conforms c cfg' sel : forall x,
  (forall ti, mentions_b (fs_sid (st c 0)) (ft_body (tr c ti)) = false) ->
  (forall ti, In ti sel -> ft_history (tr c ti) || ft_initial (tr c ti) = false) ->
  (forall ti, In ti sel -> ft_has_body (tr c ti) = false -> ft_body (tr c ti) = []) ->
  fold_left (take_one ex_fixed c (0 :: cfg')) sel x =
  fold_left (fun x ti => exec_trans_content c cfg' ti x) sel x.
Proof.
  induction sel as [|ti r IH]; intros x Hs Hp Hb; cbn [fold_left]; [reflexivity|].
  unfold take_one at 2. rewrite (Hp ti (or_introl eq_refl)). unfold exec_trans_content at 2.
  assert (E : (if ft_has_body (tr c ti)
               then exec_block ex_fixed (inst_of c (0 :: cfg')) (ft_body (tr c ti)) (emit (TTb (ft_vid (tr c ti))) x)
               else emit (TTb (ft_vid (tr c ti))) x) =
              exec_block ex_fixed (inst_of c cfg') (ft_body (tr c ti)) (emit (TTb (ft_vid (tr c ti))) x)).
  { destruct (ft_has_body (tr c ti)) eqn:Hh.
    - apply exec_block_root. apply Hs.
    - rewrite (Hb ti (or_introl eq_refl) Hh). reflexivity. }
  rewrite E. apply IH; [exact Hs | intros t Ht; apply Hp; now right | intros t Ht; apply Hb; now right].
Qed.

(* ------------------------------------------------------------------ (d) entering *)

Definition spec_enter_one (c : fchart) (e : eset) (acc : sstate * xstate) (i : nat) : sstate * xstate :=
       let '(s, x) := acc in
       let cfg1 := insert_sorted i (s_cfg s) in
       let x1 := emit (TEb (fs_sid (st c i))) x in
       let '(entered1, x2) :=
         if fc_late c && negb (mem i (s_entered s))
         then (insert_sorted i (s_entered s), fold_left (fun x d => init_data d x) (fs_data (st c i)) x1)
         else (s_entered s, x1) in
       let x3 := exec_blocks ex_fixed (inst_of c cfg1) (fs_onentry (st c i)) x2 in
       let x4 := emit (TEe (fs_sid (st c i))) x3 in
       let x5 := if mem i (e_default e)
                 then match snd (initial_of c i) with
                      | Some t => emit (TTe (ft_vid t)) (exec_block ex_fixed (inst_of c cfg1) (ft_body t) (emit (TTb (ft_vid t)) x4))
                      | None => x4
                      end
                 else x4 in
       let x6 := fold_left (fun x p => if fst p =? i then exec_trans_content c cfg1 (snd p) x else x)
                           (rev (e_histcontent e)) x5 in
       if is_final_state c i then
         match fs_parent (st c i) with
         | Some 0 => ({| s_cfg := cfg1; s_hv := s_hv s; s_running := false; s_entered := entered1 |}, x6)
         | Some p =>
           let x7 := raise_int (spec_done_event c p) x6 in
           let x8 := match fs_parent (st c p) with
                     | Some g => if is_parallel_state c g && forallb (in_final_state c (Spec.n c) cfg1) (child_states c g)
                                 then raise_int (spec_done_event c g) x7 else x7
                     | None => x7
                     end in
           ({| s_cfg := cfg1; s_hv := s_hv s; s_running := s_running s; s_entered := entered1 |}, x8)
         | None => (s, x6)
         end
       else ({| s_cfg := cfg1; s_hv := s_hv s; s_running := s_running s; s_entered := entered1 |}, x6).

Lemma enter_states_e_fold c e s x :
  enter_states_e c e s x = fold_left (spec_enter_one c e) (sort_doc (e_enter e)) (s, x).
Proof. reflexivity. Qed.

(* the engine's accumulator and Appendix D's pair (state, xstate) *)
Definition erel (c : fchart) (a : enter_acc) (sx : sstate * xstate) : Prop :=
  ea_cfg a = 0 :: s_cfg (fst sx) /\ ea_tlf a = negb (s_running (fst sx)) /\
  data_rel c (ea_initd a) (s_entered (fst sx)) /\ ea_x a = snd sx.

Lemma done_walk_none c cfg : forall fuel a x,
  (forall b, b = a \/ Anc (fun i => fs_parent (st c i)) b a -> fs_type (st c b) <> FParallel) ->
  done_walk c fuel cfg (Some a) x = x.
Proof.
  induction fuel as [|f IH]; intros a x H; cbn [done_walk]; [reflexivity|].
  pose proof (H a (or_introl eq_refl)) as Ha.
  assert (Hup : done_walk c f cfg (fs_parent (st c a)) x = x).
  { destruct (fs_parent (st c a)) as [p|] eqn:Hp; [|destruct f; reflexivity].
    apply IH. intros b [->|Hb]; apply H; right; [now apply anc_parent | eapply anc_step; eauto]. }
  destruct (fs_type (st c a)); try exact Hup. congruence.
Qed.

(* the two entry functions after the data initialisation *)
Definition l_tail (c : fchart) (ts : list nat) (cfg1 initd1 : list nat) (tlf : bool) (x2 : xstate) (i : nat) : enter_acc :=
  let s := st c i in
  let x3 := exec_blocks ex_fixed (inst_of c cfg1) (fs_onentry s) x2 in
  let x4 := emit (TEe (fs_sid s)) x3 in
  let x5 :=
    fold_left
      (fun x ch =>
         if is_pseudo (fs_type (st c ch)) then
           fold_left (fun x ti =>
                        let t := tr c ti in
                        if (ft_history t || ft_initial t) && mem ti ts then
                          let y1 := emit (TTb (ft_vid t)) x in
                          let y2 := if ft_has_body t then exec_block ex_fixed (inst_of c cfg1) (ft_body t) y1 else y1 in
                          emit (TTe (ft_vid t)) y2
                        else x)
                     (fs_trans (st c ch)) x
         else x)
      (fs_children s) x4 in
  match fs_type s with
  | FFinal =>
    let top := match fs_parent s with Some 0 => true | _ => false end in
    let x6 := if top then x5
              else match fs_parent s with Some p => raise_int (done_event c p) x5 | None => x5 end in
    {| ea_cfg := cfg1; ea_initd := initd1; ea_tlf := tlf || top;
       ea_x := done_walk c (n_states c) cfg1 (fs_parent s) x6 |}
  | _ => {| ea_cfg := cfg1; ea_initd := initd1; ea_tlf := tlf; ea_x := x5 |}
  end.

Lemma enter_one_staged c ts a i :
  enter_one ex_fixed c ts a i =
  if is_pseudo (fs_type (st c i)) then a else
  let '(initd1, x2) :=
    match fs_data (st c i) with
    | [] => (ea_initd a, emit (TEb (fs_sid (st c i))) (ea_x a))
    | ds => if mem i (ea_initd a) then (ea_initd a, emit (TEb (fs_sid (st c i))) (ea_x a))
            else (insert_sorted i (ea_initd a), fold_left (fun x d => init_data d x) ds (emit (TEb (fs_sid (st c i))) (ea_x a)))
    end in
  l_tail c ts (insert_sorted i (ea_cfg a)) initd1 (ea_tlf a) x2 i.
Proof. reflexivity. Qed.

Definition s_tail (c : fchart) (e : eset) (cfg1 entered1 : list nat) (s : sstate) (x2 : xstate) (i : nat) : sstate * xstate :=
       let x3 := exec_blocks ex_fixed (inst_of c cfg1) (fs_onentry (st c i)) x2 in
       let x4 := emit (TEe (fs_sid (st c i))) x3 in
       let x5 := if mem i (e_default e)
                 then match snd (initial_of c i) with
                      | Some t => emit (TTe (ft_vid t)) (exec_block ex_fixed (inst_of c cfg1) (ft_body t) (emit (TTb (ft_vid t)) x4))
                      | None => x4
                      end
                 else x4 in
       let x6 := fold_left (fun x p => if fst p =? i then exec_trans_content c cfg1 (snd p) x else x)
                           (rev (e_histcontent e)) x5 in
       if is_final_state c i then
         match fs_parent (st c i) with
         | Some 0 => ({| s_cfg := cfg1; s_hv := s_hv s; s_running := false; s_entered := entered1 |}, x6)
         | Some p =>
           let x7 := raise_int (spec_done_event c p) x6 in
           let x8 := match fs_parent (st c p) with
                     | Some g => if is_parallel_state c g && forallb (in_final_state c (Spec.n c) cfg1) (child_states c g)
                                 then raise_int (spec_done_event c g) x7 else x7
                     | None => x7
                     end in
           ({| s_cfg := cfg1; s_hv := s_hv s; s_running := s_running s; s_entered := entered1 |}, x8)
         | None => (s, x6)
         end
       else ({| s_cfg := cfg1; s_hv := s_hv s; s_running := s_running s; s_entered := entered1 |}, x6).

Lemma spec_enter_one_staged c e s x i :
  spec_enter_one c e (s, x) i =
  let '(entered1, x2) :=
    if fc_late c && negb (mem i (s_entered s))
    then (insert_sorted i (s_entered s), fold_left (fun x d => init_data d x) (fs_data (st c i)) (emit (TEb (fs_sid (st c i))) x))
    else (s_entered s, emit (TEb (fs_sid (st c i))) x) in
  s_tail c e (insert_sorted i (s_cfg s)) entered1 s x2 i.
Proof. reflexivity. Qed.

Section Enter.
Variable c : fchart.
Hypothesis W : WF c.
Variable ts : list nat.
Variable e : eset.
Hypothesis Hhc : e_histcontent e = [].
Hypothesis Hsilent : forall i, mentions_bs (fs_sid (st c 0)) (fs_onentry (st c i)) = false.
Hypothesis Hdata : fc_late c = false -> forall i, i <> 0 -> fs_data (st c i) = [].
Hypothesis Hfin : forall i a, fs_type (st c i) = FFinal -> Anc (fun i => fs_parent (st c i)) a i -> fs_type (st c a) <> FParallel.

Lemma no_pseudo k : is_pseudo (fs_type (st c k)) = false.
Proof. destruct (wf_types c W k) as [H|[H|[H|H]]]; rewrite H; reflexivity. Qed.

Lemma tails_conform cfgS initd1 entered1 s x2 i : 0 < i -> i < nstates c ->
  data_rel c initd1 entered1 ->
  erel c (l_tail c ts (0 :: cfgS) initd1 (negb (s_running s)) x2 i) (s_tail c e cfgS entered1 s x2 i).
Proof.
  intros Hi Hin HD. destruct (wf_par_some c W i Hi Hin) as (p & Hp).
  unfold l_tail, s_tail. cbn zeta.
  rewrite exec_blocks_root by apply Hsilent. rewrite Hhc. cbn [rev fold_left].
  set (x4 := emit (TEe (fs_sid (st c i))) (exec_blocks ex_fixed (inst_of c cfgS) (fs_onentry (st c i)) x2)).
  assert (Hx5 : forall y, fold_left
      (fun x ch => if is_pseudo (fs_type (st c ch)) then
           fold_left (fun x ti =>
                        if (ft_history (tr c ti) || ft_initial (tr c ti)) && mem ti ts then
                          emit (TTe (ft_vid (tr c ti)))
                            (if ft_has_body (tr c ti) then exec_block ex_fixed (inst_of c (0 :: cfgS)) (ft_body (tr c ti)) (emit (TTb (ft_vid (tr c ti))) x)
                             else emit (TTb (ft_vid (tr c ti))) x)
                        else x) (fs_trans (st c ch)) x
         else x) (fs_children (st c i)) y = y).
  { induction (fs_children (st c i)) as [|k r IH]; intros y; cbn [fold_left]; [reflexivity|]. rewrite no_pseudo. apply IH. }
  rewrite !Hx5.
  assert (Hini : snd (initial_of c i) = None).
  { unfold initial_of. destruct (fs_completion (st c i)) as [|k [|k2 r]]; try reflexivity.
    unfold sty. destruct (wf_types c W k) as [H|[H|[H|H]]]; rewrite H; reflexivity. }
  rewrite Hini.
  replace (if mem i (e_default e) then x4 else x4) with x4 by (destruct (mem i (e_default e)); reflexivity).
  unfold is_final_state, sty.
  destruct (fs_type (st c i)) eqn:Hty;
    try (unfold erel; cbn [fst snd ea_cfg ea_tlf ea_initd ea_x s_cfg s_running s_entered]; repeat split; assumption).
  rewrite Hp.
  assert (Hnpar : forall b, b = p \/ Anc (fun i => fs_parent (st c i)) b p -> fs_type (st c b) <> FParallel).
  { intros b [->|Hb]; apply (Hfin i); try exact Hty; [now apply anc_parent | eapply anc_step; eauto]. }
  rewrite done_walk_none by exact Hnpar.
  destruct p as [|p'].
  - unfold erel; cbn [fst snd ea_cfg ea_tlf ea_initd ea_x s_cfg s_running s_entered]. repeat split; try assumption.
    now rewrite orb_true_r.
  - assert (Hx8 : match fs_parent (st c (S p')) with
                  | Some g => if is_parallel_state c g && forallb (in_final_state c (Spec.n c) cfgS) (child_states c g)
                              then raise_int (spec_done_event c g) (raise_int (spec_done_event c (S p')) x4)
                              else raise_int (spec_done_event c (S p')) x4
                  | None => raise_int (spec_done_event c (S p')) x4
                  end = raise_int (spec_done_event c (S p')) x4).
    { destruct (fs_parent (st c (S p'))) as [g|] eqn:Hg; [|reflexivity].
      assert (Hgp : fs_type (st c g) <> FParallel) by (apply Hnpar; right; now apply anc_parent).
      unfold is_parallel_state, sty. destruct (fs_type (st c g)); try reflexivity. congruence. }
    rewrite Hx8.
    unfold erel; cbn [fst snd ea_cfg ea_tlf ea_initd ea_x s_cfg s_running s_entered]. repeat split; try assumption.
    now rewrite orb_false_r.
Qed.

Lemma enter_one_conforms a sx i : erel c a sx -> 0 < i -> i < nstates c ->
  erel c (enter_one ex_fixed c ts a i) (spec_enter_one c e sx i).
Proof.
  intros (Hc & Ht & Hd & Hx) Hi Hin. destruct sx as [s x]. cbn [fst snd] in *.
  rewrite enter_one_staged, spec_enter_one_staged, no_pseudo.
  rewrite Hc, Hx, Ht, (insert_sorted_root i (s_cfg s)) by lia.
  destruct (fs_data (st c i)) as [|d0 ds] eqn:Hdt.
  - destruct (fc_late c && negb (mem i (s_entered s))); cbn [fold_left]; apply tails_conform; try assumption.
    intros j Hj. rewrite mem_insert_sorted. destruct (j =? i) eqn:E; [apply Nat.eqb_eq in E; subst; congruence|]. now apply Hd.
  - assert (Hl : fc_late c = true).
    { destruct (fc_late c) eqn:E; [reflexivity|]. rewrite (Hdata eq_refl i) in Hdt by lia. discriminate. }
    rewrite Hl. cbn [andb]. rewrite <- (Hd i) by (rewrite Hdt; discriminate).
    destruct (mem i (ea_initd a)); cbn [negb]; apply tails_conform; try assumption.
    intros j Hj. rewrite !mem_insert_sorted. now rewrite (Hd j Hj).
Qed.

Lemma enter_fold_conforms es : forall a sx, erel c a sx -> (forall i, In i es -> 0 < i /\ i < nstates c) ->
  erel c (fold_left (enter_one ex_fixed c ts) es a) (fold_left (spec_enter_one c e) es sx).
Proof.
  induction es as [|i r IH]; intros a sx Hr Hb; cbn [fold_left]; [exact Hr|].
  apply IH; [|intros j Hj; apply Hb; now right].
  destruct (Hb i (or_introl eq_refl)). now apply enter_one_conforms.
Qed.
End Enter.
