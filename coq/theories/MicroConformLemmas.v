(* MicroConformLemmas.v -- C01, microstep comparison on the history-free core, the phases: exiting,
   taking the transitions, entering (given the list of states to enter).  Proofs only. *)
From V Require Import Base NameMatch Chart Exec Large LargeLemmas Spec Legal SetLemmas LegalAbstract LegalLarge
  LargeCacheLemmas Trace TraceLemmas SelectConform SelectConformLemmas SelectConformRoot MicroConform.
Local Open Scope nat_scope.

(* ------------------------------------------------------------------ content does not see views that agree on the ids it asks for *)

Definition mentions_items (sid : N) : list ifitem -> bool :=
  fix go (l : list ifitem) : bool :=
    match l with
    | [] => false
    | FElseif c' :: r => mentions sid c' || go r
    | FElse :: r => go r
    | FInstr j :: r => mentions_i sid j || go r
    end.

Lemma mentions_i_if sid v c body : mentions_i sid (IIf v c body) = mentions sid c || mentions_items sid body.
Proof. reflexivity. Qed.

Section Ext.
Variables inst1 inst2 : N -> bool.

Definition agree_on (P : N -> bool) : Prop := forall sid, P sid = true -> inst1 sid = inst2 sid.

Lemma is_true_ext e x : agree_on (fun sid => mentions sid e) -> is_true inst1 e x = is_true inst2 e x.
Proof. intros H. unfold is_true. now rewrite (beval_ext inst1 inst2 (x_store x) e H). Qed.

Lemma exec_instr_ext i : agree_on (fun sid => mentions_i sid i) ->
  forall x, exec_instr ex_fixed inst1 i x = exec_instr ex_fixed inst2 i x.
Proof.
  induction i using instr_ind2 with
    (Q := fun it => match it with
                    | FInstr j => agree_on (fun sid => mentions_i sid j) ->
                                  forall x, exec_instr ex_fixed inst1 j x = exec_instr ex_fixed inst2 j x
                    | _ => True
                    end); try exact I; try (intros _ y; reflexivity).
  - intros Hag y. rewrite !exec_if_unfold. cbn zeta.
    assert (Hc : agree_on (fun sid => mentions sid c)).
    { intros sid Hs. apply Hag. rewrite mentions_i_if, Hs. reflexivity. }
    assert (Hb : agree_on (fun sid => mentions_items sid body)).
    { intros sid Hs. apply Hag. rewrite mentions_i_if, Hs. apply orb_true_r. }
    rewrite (is_true_ext c _ Hc). destruct (is_true inst2 c (emit (TCb v) y)) as [b0 x2].
    assert (Hitems : forall l, Forall (fun it => match it with
                    | FInstr j => agree_on (fun sid => mentions_i sid j) ->
                                  forall x, exec_instr ex_fixed inst1 j x = exec_instr ex_fixed inst2 j x
                    | _ => True end) l -> agree_on (fun sid => mentions_items sid l) ->
             forall b z, if_items inst1 l b z = if_items inst2 l b z).
    { induction l as [|it r IHl]; intros HF Hl b z; cbn [if_items]; [reflexivity|].
      inversion HF as [|? ? Hit Hr]; subst. destruct it as [c'| |j].
      - assert (H1 : agree_on (fun sid => mentions sid c')) by (intros sid Hs; apply Hl; cbn; now rewrite Hs).
        assert (H2 : agree_on (fun sid => mentions_items sid r)) by (intros sid Hs; apply Hl; cbn; rewrite Hs; apply orb_true_r).
        destruct b; [reflexivity|]. rewrite (is_true_ext c' z H1). destruct (is_true inst2 c' z). now apply IHl.
      - destruct b; [reflexivity|]. apply IHl; [exact Hr|]. intros sid Hs. apply Hl. exact Hs.
      - assert (H1 : agree_on (fun sid => mentions_i sid j)) by (intros sid Hs; apply Hl; cbn; now rewrite Hs).
        assert (H2 : agree_on (fun sid => mentions_items sid r)) by (intros sid Hs; apply Hl; cbn; rewrite Hs; apply orb_true_r).
        destruct b; [|now apply IHl]. rewrite (Hit H1 z). destruct (exec_instr ex_fixed inst2 j z) as [ok z'].
        destruct ok; [now apply IHl | reflexivity]. }
    rewrite (Hitems body H Hb b0 x2). reflexivity.
  - exact IHi.
Qed.

Lemma exec_block_ext b : agree_on (fun sid => mentions_b sid b) ->
  forall x, exec_block ex_fixed inst1 b x = exec_block ex_fixed inst2 b x.
Proof.
  induction b as [|i r IH]; intros Hag x; cbn [exec_block]; [reflexivity|].
  rewrite exec_instr_ext by (intros sid Hs; apply Hag; unfold mentions_b; cbn [existsb]; now rewrite Hs).
  destruct (exec_instr ex_fixed inst2 i x) as [ok x']. destruct ok; [|reflexivity].
  apply IH. intros sid Hs. apply Hag. unfold mentions_b in *. cbn [existsb]. rewrite Hs. apply orb_true_r.
Qed.

Lemma exec_blocks_ext bs : agree_on (fun sid => mentions_bs sid bs) ->
  forall x, exec_blocks ex_fixed inst1 bs x = exec_blocks ex_fixed inst2 bs x.
Proof.
  unfold exec_blocks. induction bs as [|b r IH]; intros Hag x; cbn [fold_left]; [reflexivity|].
  rewrite exec_block_ext by (intros sid Hs; apply Hag; unfold mentions_bs; cbn [existsb]; now rewrite Hs).
  apply IH. intros sid Hs. apply Hag. unfold mentions_bs in *. cbn [existsb]. rewrite Hs. apply orb_true_r.
Qed.
End Ext.

Lemma inst_of_root c cfg' sid : sid <> fs_sid (st c 0) -> inst_of c (0 :: cfg') sid = inst_of c cfg' sid.
Proof.
  intros Hne. unfold inst_of. cbn [existsb]. destruct (fs_sid (st c 0) =? sid)%N eqn:E; [|reflexivity].
  apply N.eqb_eq in E. congruence.
Qed.

Lemma exec_block_root c cfg' b x : mentions_b (fs_sid (st c 0)) b = false ->
  exec_block ex_fixed (inst_of c (0 :: cfg')) b x = exec_block ex_fixed (inst_of c cfg') b x.
Proof.
  intros Hm. apply exec_block_ext. intros sid Hs. apply inst_of_root. intros ->. congruence.
Qed.

Lemma exec_blocks_root c cfg' bs x : mentions_bs (fs_sid (st c 0)) bs = false ->
  exec_blocks ex_fixed (inst_of c (0 :: cfg')) bs x = exec_blocks ex_fixed (inst_of c cfg') bs x.
Proof.
  intros Hm. apply exec_blocks_ext. intros sid Hs. apply inst_of_root. intros ->. congruence.
Qed.

(* ------------------------------------------------------------------ small facts *)

Lemma insert_sorted_root i l : i <> 0 -> insert_sorted i (0 :: l) = 0 :: insert_sorted i l.
Proof.
  intros Hi. cbn [insert_sorted]. replace (i <? 0) with false by (symmetry; apply Nat.ltb_ge; lia).
  replace (i =? 0) with false by (symmetry; now apply Nat.eqb_neq). reflexivity.
Qed.

Lemma set_remove_root i l : i <> 0 -> set_remove i (0 :: l) = 0 :: set_remove i l.
Proof.
  intros Hi. unfold set_remove. cbn [filter]. replace (i =? 0) with false by (symmetry; now apply Nat.eqb_neq). reflexivity.
Qed.

Lemma mem_insert_sorted j i l : mem j (insert_sorted i l) = (j =? i) || mem j l.
Proof.
  destruct (mem j (insert_sorted i l)) eqn:E.
  - apply mem_In, In_insert_sorted' in E as [->|E]; [now rewrite Nat.eqb_refl|].
    apply mem_In in E. rewrite E. now rewrite orb_true_r.
  - symmetry. apply orb_false_iff. apply mem_false_In in E. split.
    + apply Nat.eqb_neq. intros ->. apply E. apply In_insert_sorted'. now left.
    + apply mem_false_In. intros H. apply E. apply In_insert_sorted'. now right.
Qed.

Lemma root_silent_parts c : root_silentb c = true ->
  (forall i, mentions_bs (fs_sid (st c 0)) (fs_onentry (st c i)) = false) /\
  (forall i, mentions_bs (fs_sid (st c 0)) (fs_onexit (st c i)) = false) /\
  (forall ti, mentions_b (fs_sid (st c 0)) (ft_body (tr c ti)) = false).
Proof.
  intros H. unfold root_silentb in H. cbn zeta in H. apply andb_true_iff in H as [H1 H2].
  rewrite forallb_forall in H1, H2.
  assert (Hst : forall i, mentions_bs (fs_sid (st c 0)) (fs_onentry (st c i)) = false /\
                          mentions_bs (fs_sid (st c 0)) (fs_onexit (st c i)) = false).
  { intros i. destruct (Nat.lt_ge_cases i (nstates c)) as [Hi|Hi].
    - specialize (H1 i ltac:(apply in_seq; lia)). apply andb_true_iff in H1 as [A B].
      now apply negb_true_iff in A, B.
    - assert (E : st c i = dummy_state) by (unfold st; apply nth_overflow; exact Hi). rewrite E. split; reflexivity. }
  split; [intros i; apply Hst | split; [intros i; apply Hst|]].
  intros ti. destruct (Nat.lt_ge_cases ti (ntrans c)) as [Hi|Hi].
  - specialize (H2 ti ltac:(apply in_seq; lia)). now apply negb_true_iff in H2.
  - assert (E : tr c ti = dummy_trans) by (unfold tr; apply nth_overflow; exact Hi). rewrite E. reflexivity.
Qed.

(* ------------------------------------------------------------------ (a) exiting *)

Definition spec_exit_one (c : fchart) (acc : list nat * xstate) (st0 : nat) : list nat * xstate :=
  let '(cfg, x) := acc in
  let x1 := emit (TXb (fs_sid (st c st0))) x in
  let x2 := exec_blocks ex_fixed (inst_of c cfg) (fs_onexit (st c st0)) x1 in
  (set_remove st0 cfg, emit (TXe (fs_sid (st c st0))) x2).

Lemma exit_fold_conforms c X : forall cfg' x,
  (forall i, mentions_bs (fs_sid (st c 0)) (fs_onexit (st c i)) = false) -> ~ In 0 X ->
  fold_left (exit_one ex_fixed c) X (0 :: cfg', x) =
  (0 :: fst (fold_left (spec_exit_one c) X (cfg', x)), snd (fold_left (spec_exit_one c) X (cfg', x))).
Proof.
  induction X as [|i r IH]; intros cfg' x Hs H0; cbn [fold_left]; [reflexivity|].
  unfold exit_one at 2. unfold spec_exit_one at 2 4. cbn zeta.
  rewrite exec_blocks_root by apply Hs. rewrite set_remove_root by (intros ->; apply H0; now left).
  apply IH; [exact Hs | intros H; apply H0; now right].
Qed.

(* Appendix D's exitStates on a chart without history states: no history is recorded *)
Lemma exit_states_core c ts s x :
  (forall i, match fs_type (st c i) with FHistShallow | FHistDeep => False | _ => True end) ->
  exit_states c ts s x =
  (let to_exit := rev (sort_doc (compute_exit_set c (s_cfg s) (s_hv s) (map (tr c) ts))) in
   let r := fold_left (spec_exit_one c) to_exit (s_cfg s, x) in
   ({| s_cfg := fst r; s_hv := s_hv s; s_running := s_running s; s_entered := s_entered s |}, snd r)).
Proof.
  intros Hcore. unfold exit_states. cbn zeta.
  set (to_exit := rev (sort_doc (compute_exit_set c (s_cfg s) (s_hv s) (map (tr c) ts)))).
  assert (Hh : forall l h,
     fold_left (fun h st0 =>
                 fold_left (fun h ch =>
                              match sty c ch with
                              | FHistDeep => hv_set h ch (filter (fun s0 => is_atomic_state c s0 && is_descendant c s0 st0) (s_cfg s))
                              | FHistShallow => hv_set h ch (filter (fun s0 => match fs_parent (st c s0) with Some p => p =? st0 | None => false end) (s_cfg s))
                              | _ => h
                              end) (fs_children (st c st0)) h) l h = h).
  { induction l as [|a r IH]; intros h; cbn [fold_left]; [reflexivity|].
    assert (Hin : forall k h0, fold_left (fun h ch =>
                              match sty c ch with
                              | FHistDeep => hv_set h ch (filter (fun s0 => is_atomic_state c s0 && is_descendant c s0 a) (s_cfg s))
                              | FHistShallow => hv_set h ch (filter (fun s0 => match fs_parent (st c s0) with Some p => p =? a | None => false end) (s_cfg s))
                              | _ => h
                              end) k h0 = h0).
    { induction k as [|ch k IHk]; intros h0; cbn [fold_left]; [reflexivity|].
      pose proof (Hcore ch) as Hc. unfold sty. destruct (fs_type (st c ch)); try contradiction; apply IHk. }
    rewrite Hin. apply IH. }
  rewrite Hh.
  rewrite (fold_left_ext _ (spec_exit_one c)) by (intros [cfg0 x0] st0; reflexivity).
  destruct (fold_left (spec_exit_one c) to_exit (s_cfg s, x)) as [cfg1 x1]. reflexivity.
Qed.

(* ------------------------------------------------------------------ (b) the transitions' content *)

Lemma take_fold_conforms c cfg' sel : forall x,
  (forall ti, mentions_b (fs_sid (st c 0)) (ft_body (tr c ti)) = false) ->
  (forall ti, In ti sel -> ft_history (tr c ti) || ft_initial (tr c ti) = false) ->
  (forall ti, In ti sel -> ft_has_body (tr c ti) = false -> ft_body (tr c ti) = []) ->
  fold_left (take_one ex_fixed c (0 :: cfg')) sel x =
  fold_left (fun x ti => exec_trans_content c cfg' ti x) sel x.
Proof.
  induction sel as [|ti r IH]; intros x Hs Hp Hb; cbn [fold_left]; [reflexivity|].
  unfold take_one at 2. rewrite (Hp ti (or_introl eq_refl)). unfold exec_trans_content at 2.
  assert (E : (if ft_has_body (tr c ti)
               then exec_block ex_fixed (inst_of c (0 :: cfg')) (ft_body (tr c ti)) (emit (TTb (ft_vid (tr c ti))) x)
               else emit (TTb (ft_vid (tr c ti))) x) =
              exec_block ex_fixed (inst_of c cfg') (ft_body (tr c ti)) (emit (TTb (ft_vid (tr c ti))) x)).
  { destruct (ft_has_body (tr c ti)) eqn:Hh.
    - apply exec_block_root. apply Hs.
    - rewrite (Hb ti (or_introl eq_refl) Hh). reflexivity. }
  rewrite E. apply IH; [exact Hs | intros t Ht; apply Hp; now right | intros t Ht; apply Hb; now right].
Qed.

(* ------------------------------------------------------------------ (d) entering *)

Definition spec_enter_one (c : fchart) (e : eset) (acc : sstate * xstate) (i : nat) : sstate * xstate :=
       let '(s, x) := acc in
       let cfg1 := insert_sorted i (s_cfg s) in
       let x1 := emit (TEb (fs_sid (st c i))) x in
       let '(entered1, x2) :=
         if fc_late c && negb (mem i (s_entered s))
         then (insert_sorted i (s_entered s), fold_left (fun x d => init_data d x) (fs_data (st c i)) x1)
         else (s_entered s, x1) in
       let x3 := exec_blocks ex_fixed (inst_of c cfg1) (fs_onentry (st c i)) x2 in
       let x4 := emit (TEe (fs_sid (st c i))) x3 in
       let x5 := if mem i (e_default e)
                 then match snd (initial_of c i) with
                      | Some t => emit (TTe (ft_vid t)) (exec_block ex_fixed (inst_of c cfg1) (ft_body t) (emit (TTb (ft_vid t)) x4))
                      | None => x4
                      end
                 else x4 in
       let x6 := fold_left (fun x p => if fst p =? i then exec_trans_content c cfg1 (snd p) x else x)
                           (rev (e_histcontent e)) x5 in
       if is_final_state c i then
         match fs_parent (st c i) with
         | Some 0 => ({| s_cfg := cfg1; s_hv := s_hv s; s_running := false; s_entered := entered1 |}, x6)
         | Some p =>
           let x7 := raise_int (spec_done_event c p) x6 in
           let x8 := match fs_parent (st c p) with
                     | Some g => if is_parallel_state c g && forallb (in_final_state c (Spec.n c) cfg1) (child_states c g)
                                 then raise_int (spec_done_event c g) x7 else x7
                     | None => x7
                     end in
           ({| s_cfg := cfg1; s_hv := s_hv s; s_running := s_running s; s_entered := entered1 |}, x8)
         | None => (s, x6)
         end
       else ({| s_cfg := cfg1; s_hv := s_hv s; s_running := s_running s; s_entered := entered1 |}, x6).

Lemma enter_states_e_fold c e s x :
  enter_states_e c e s x = fold_left (spec_enter_one c e) (sort_doc (e_enter e)) (s, x).
Proof. reflexivity. Qed.

(* the engine's accumulator and Appendix D's pair (state, xstate) *)
Definition erel (c : fchart) (a : enter_acc) (sx : sstate * xstate) : Prop :=
  ea_cfg a = 0 :: s_cfg (fst sx) /\ ea_tlf a = negb (s_running (fst sx)) /\
  data_rel c (ea_initd a) (s_entered (fst sx)) /\ ea_x a = snd sx.

Lemma done_walk_none c cfg : forall fuel a x,
  (forall b, b = a \/ Anc (fun i => fs_parent (st c i)) b a -> fs_type (st c b) <> FParallel) ->
  done_walk c fuel cfg (Some a) x = x.
Proof.
  induction fuel as [|f IH]; intros a x H; cbn [done_walk]; [reflexivity|].
  pose proof (H a (or_introl eq_refl)) as Ha.
  assert (Hup : done_walk c f cfg (fs_parent (st c a)) x = x).
  { destruct (fs_parent (st c a)) as [p|] eqn:Hp; [|destruct f; reflexivity].
    apply IH. intros b [->|Hb]; apply H; right; [now apply anc_parent | eapply anc_step; eauto]. }
  destruct (fs_type (st c a)); try exact Hup. congruence.
Qed.

(* the two entry functions after the data initialisation *)
Definition l_tail (c : fchart) (ts : list nat) (cfg1 initd1 : list nat) (tlf : bool) (x2 : xstate) (i : nat) : enter_acc :=
  let s := st c i in
  let x3 := exec_blocks ex_fixed (inst_of c cfg1) (fs_onentry s) x2 in
  let x4 := emit (TEe (fs_sid s)) x3 in
  let x5 :=
    fold_left
      (fun x ch =>
         if is_pseudo (fs_type (st c ch)) then
           fold_left (fun x ti =>
                        let t := tr c ti in
                        if (ft_history t || ft_initial t) && mem ti ts then
                          let y1 := emit (TTb (ft_vid t)) x in
                          let y2 := if ft_has_body t then exec_block ex_fixed (inst_of c cfg1) (ft_body t) y1 else y1 in
                          emit (TTe (ft_vid t)) y2
                        else x)
                     (fs_trans (st c ch)) x
         else x)
      (fs_children s) x4 in
  match fs_type s with
  | FFinal =>
    let top := match fs_parent s with Some 0 => true | _ => false end in
    let x6 := if top then x5
              else match fs_parent s with Some p => raise_int (done_event c p) x5 | None => x5 end in
    {| ea_cfg := cfg1; ea_initd := initd1; ea_tlf := tlf || top;
       ea_x := done_walk c (n_states c) cfg1 (fs_parent s) x6 |}
  | _ => {| ea_cfg := cfg1; ea_initd := initd1; ea_tlf := tlf; ea_x := x5 |}
  end.

Lemma enter_one_staged c ts a i :
  enter_one ex_fixed c ts a i =
  if is_pseudo (fs_type (st c i)) then a else
  let '(initd1, x2) :=
    match fs_data (st c i) with
    | [] => (ea_initd a, emit (TEb (fs_sid (st c i))) (ea_x a))
    | ds => if mem i (ea_initd a) then (ea_initd a, emit (TEb (fs_sid (st c i))) (ea_x a))
            else (insert_sorted i (ea_initd a), fold_left (fun x d => init_data d x) ds (emit (TEb (fs_sid (st c i))) (ea_x a)))
    end in
  l_tail c ts (insert_sorted i (ea_cfg a)) initd1 (ea_tlf a) x2 i.
Proof. reflexivity. Qed.

Definition s_tail (c : fchart) (e : eset) (cfg1 entered1 : list nat) (s : sstate) (x2 : xstate) (i : nat) : sstate * xstate :=
       let x3 := exec_blocks ex_fixed (inst_of c cfg1) (fs_onentry (st c i)) x2 in
       let x4 := emit (TEe (fs_sid (st c i))) x3 in
       let x5 := if mem i (e_default e)
                 then match snd (initial_of c i) with
                      | Some t => emit (TTe (ft_vid t)) (exec_block ex_fixed (inst_of c cfg1) (ft_body t) (emit (TTb (ft_vid t)) x4))
                      | None => x4
                      end
                 else x4 in
       let x6 := fold_left (fun x p => if fst p =? i then exec_trans_content c cfg1 (snd p) x else x)
                           (rev (e_histcontent e)) x5 in
       if is_final_state c i then
         match fs_parent (st c i) with
         | Some 0 => ({| s_cfg := cfg1; s_hv := s_hv s; s_running := false; s_entered := entered1 |}, x6)
         | Some p =>
           let x7 := raise_int (spec_done_event c p) x6 in
           let x8 := match fs_parent (st c p) with
                     | Some g => if is_parallel_state c g && forallb (in_final_state c (Spec.n c) cfg1) (child_states c g)
                                 then raise_int (spec_done_event c g) x7 else x7
                     | None => x7
                     end in
           ({| s_cfg := cfg1; s_hv := s_hv s; s_running := s_running s; s_entered := entered1 |}, x8)
         | None => (s, x6)
         end
       else ({| s_cfg := cfg1; s_hv := s_hv s; s_running := s_running s; s_entered := entered1 |}, x6).

Lemma spec_enter_one_staged c e s x i :
  spec_enter_one c e (s, x) i =
  let '(entered1, x2) :=
    if fc_late c && negb (mem i (s_entered s))
    then (insert_sorted i (s_entered s), fold_left (fun x d => init_data d x) (fs_data (st c i)) (emit (TEb (fs_sid (st c i))) x))
    else (s_entered s, emit (TEb (fs_sid (st c i))) x) in
  s_tail c e (insert_sorted i (s_cfg s)) entered1 s x2 i.
Proof. reflexivity. Qed.

Lemma done_walk_step c cfg f a x : fs_type (st c a) <> FParallel ->
  done_walk c (S f) cfg (Some a) x = done_walk c f cfg (fs_parent (st c a)) x.
Proof. intros H. cbn [done_walk]. destruct (fs_type (st c a)); try reflexivity. congruence. Qed.

Lemma done_walk_par c cfg f a x : fs_type (st c a) = FParallel ->
  done_walk c (S f) cfg (Some a) x =
  if in_final c (n_states c) cfg a then done_walk c f cfg (fs_parent (st c a)) (raise_int (done_event c a) x) else x.
Proof. intros H. cbn [done_walk]. rewrite H. reflexivity. Qed.

Lemma done_walk_top c cfg f x : done_walk c f cfg None x = x.
Proof. destruct f; reflexivity. Qed.

Section Enter.
Variable c : fchart.
Hypothesis W : WF c.
Variable ts : list nat.
Variable e : eset.
Variable CF : nat -> Prop.
Notation Anc := (LegalAbstract.Anc (fun i => fs_parent (st c i))).
Hypothesis Hhc : e_histcontent e = [].
Hypothesis Hsilent : forall i, mentions_bs (fs_sid (st c 0)) (fs_onentry (st c i)) = false.
Hypothesis Hdata : fc_late c = false -> forall i, i <> 0 -> fs_data (st c i) = [].
(* every <parallel> has a child; a <final> is not the child of a <parallel>, and above its grand-parent there
   is no <parallel> *)
Hypothesis HPAR : forall s, s < nstates c -> fs_type (st c s) = FParallel -> fs_children (st c s) <> [].
Hypothesis Hfin_par : forall i p, fs_type (st c i) = FFinal -> fs_parent (st c i) = Some p -> fs_type (st c p) <> FParallel.
Hypothesis Hfin_up : forall i p a, fs_type (st c i) = FFinal -> fs_parent (st c i) = Some p -> Anc a p ->
  fs_parent (st c p) = Some a \/ fs_type (st c a) <> FParallel.
(* the configuration after the microstep has at most one child per compound state *)
Hypothesis Huniq : forall q k1 k2, fs_type (st c q) = FCompound -> In k1 (fs_children (st c q)) -> In k2 (fs_children (st c q)) ->
  CF k1 -> CF k2 -> k1 = k2.

Lemma no_pseudo k : is_pseudo (fs_type (st c k)) = false.
Proof. destruct (wf_types c W k) as [H|[H|[H|H]]]; rewrite H; reflexivity. Qed.

Lemma child_states_core' s : child_states c s = fs_children (st c s).
Proof.
  unfold child_states. apply filter_all. intros k _. unfold is_proper, sty.
  destruct (wf_types c W k) as [H|[H|[H|H]]]; rewrite H; reflexivity.
Qed.

Lemma par_in_range y : fs_type (st c y) = FParallel -> y < nstates c.
Proof.
  intros H. destruct (Nat.lt_ge_cases y (nstates c)) as [|Hge]; [assumption|].
  assert (E : st c y = dummy_state) by (unfold st; now apply nth_overflow). rewrite E in H. discriminate.
Qed.

(* below a state without <final>s the two "in a final state" tests say no *)
Lemma nf_large cfg : forall fuel y, (forall z, z = y \/ Anc y z -> fs_type (st c z) <> FFinal) ->
  in_final c fuel cfg y = false.
Proof.
  induction fuel as [|f IH]; intros y H; cbn [in_final]; [reflexivity|].
  assert (Hkid : forall k, In k (fs_children (st c y)) -> in_final c f cfg k = false).
  { intros k Hk. apply IH. intros z Hz. apply H. right. apply (wf_children c W) in Hk.
    destruct Hz as [->|Hz]; [now apply anc_parent | eapply anc_trans; [apply anc_parent; exact Hk | exact Hz]]. }
  destruct (wf_types c W y) as [Ht|[Ht|[Ht|Ht]]]; rewrite Ht.
  - reflexivity.
  - destruct (find (fun ch => mem ch cfg) (fs_children (st c y))) as [k|] eqn:E; [|reflexivity].
    apply find_some in E as [Hk _]. now apply Hkid.
  - pose proof (HPAR y (par_in_range y Ht) Ht) as Hne. destruct (fs_children (st c y)) as [|k r] eqn:E; [congruence|].
    cbn [forallb]. rewrite Hkid by now left. reflexivity.
  - exfalso. exact (H y (or_introl eq_refl) Ht).
Qed.

Lemma nf_spec cfg : forall fuel y, (forall z, z = y \/ Anc y z -> fs_type (st c z) <> FFinal) ->
  in_final_state c fuel cfg y = false.
Proof.
  induction fuel as [|f IH]; intros y H; cbn [in_final_state]; [reflexivity|].
  assert (Hanc : forall k z, In k (fs_children (st c y)) -> z = k \/ Anc k z -> Anc y z).
  { intros k z Hk Hz. apply (wf_children c W) in Hk.
    destruct Hz as [->|Hz]; [now apply anc_parent | eapply anc_trans; [apply anc_parent; exact Hk | exact Hz]]. }
  rewrite child_states_core'. unfold is_compound_state, is_parallel_state, sty.
  destruct (wf_types c W y) as [Ht|[Ht|[Ht|Ht]]]; rewrite Ht; try reflexivity.
  - apply not_true_is_false. intros Hex. apply existsb_exists in Hex as (k & Hk & Hf).
    apply andb_true_iff in Hf as [Hf _]. unfold is_final_state, sty in Hf.
    destruct (fs_type (st c k)) eqn:Hkt; try discriminate. apply (H k); [right; apply (Hanc k k Hk); now left | exact Hkt].
  - pose proof (HPAR y (par_in_range y Ht) Ht) as Hne. destruct (fs_children (st c y)) as [|k r] eqn:E; [congruence|].
    cbn [forallb]. rewrite IH; [reflexivity|]. intros z Hz. apply H. right. apply (Hanc k z); [now left | exact Hz].
Qed.

(* every <final> below g is a grand-child of g whose parent is not a <parallel> *)
Definition CondG (g : nat) : Prop :=
  forall f, fs_type (st c f) = FFinal -> Anc g f ->
    exists q, fs_parent (st c f) = Some q /\ fs_parent (st c q) = Some g /\ fs_type (st c q) <> FParallel.

Lemma anc_antisym a b : Anc a b -> Anc b a -> False.
Proof. intros H1 H2. exact (anc_irrefl c W _ (anc_trans c _ _ _ H1 H2)). Qed.

Lemma in_final_child cfgS g q fuel fuel' :
  CondG g -> fs_parent (st c q) = Some g -> (forall y, In y cfgS -> CF y) -> 2 <= fuel -> 1 <= fuel' ->
  in_final c fuel (0 :: cfgS) q = in_final_state c fuel' cfgS q.
Proof.
  intros HG Hq Hcf Hf Hf'.
  assert (Hgq : Anc g q) by now apply anc_parent.
  destruct fuel as [|[|f2]]; try lia. destruct fuel' as [|f']; try lia.
  destruct (wf_types c W q) as [Ht|[Ht|[Ht|Ht]]].
  - cbn [in_final in_final_state]. unfold is_compound_state, is_parallel_state, sty. rewrite Ht. reflexivity.
  - (* compound *)
    cbn [in_final_state]. unfold is_compound_state, sty. rewrite Ht, child_states_core'.
    change (in_final c (S (S f2)) (0 :: cfgS) q) with
      (match fs_type (st c q) with
       | FFinal => true | FAtomic => false
       | FParallel => forallb (in_final c (S f2) (0 :: cfgS)) (fs_children (st c q))
       | FInitial => false
       | FCompound => match find (fun ch => mem ch (0 :: cfgS)) (fs_children (st c q)) with
                      | Some ch => in_final c (S f2) (0 :: cfgS) ch
                      | None => false end
       | FHistShallow | FHistDeep => true end).
    rewrite Ht.
    assert (Hmem : forall k, In k (fs_children (st c q)) -> mem k (0 :: cfgS) = mem k cfgS).
    { intros k Hk. apply (wf_children c W) in Hk. destruct (wf_par_lt c W _ _ Hk) as [Hlt _]. cbn [mem].
      replace (k =? 0) with false by (symmetry; apply Nat.eqb_neq; lia). reflexivity. }
    assert (Hnf : forall k, In k (fs_children (st c q)) -> fs_type (st c k) <> FFinal -> in_final c (S f2) (0 :: cfgS) k = false).
    { intros k Hk Hkf. apply nf_large. intros z [->|Hz]; [exact Hkf|]. intros Hzf.
      apply (wf_children c W) in Hk.
      assert (Hgz : Anc g z) by (eapply anc_trans; [exact Hgq|]; eapply anc_trans; [apply anc_parent; exact Hk | exact Hz]).
      destruct (HG z Hzf Hgz) as (q' & Hpz & Hpq' & _).
      destruct (anc_child _ _ _ _ Hpz Hz) as [->|Hkq'].
      - rewrite Hk in Hpq'. injection Hpq' as E0. rewrite E0 in Hq. destruct (wf_par_lt c W _ _ Hq). lia.
      - destruct (anc_child _ _ _ _ Hpq' Hkq') as [->|Hkg].
        + apply (anc_antisym g q Hgq). now apply anc_parent.
        + apply (anc_antisym g k); [eapply anc_trans; [exact Hgq | now apply anc_parent] | exact Hkg]. }
    destruct (find (fun ch => mem ch (0 :: cfgS)) (fs_children (st c q))) as [k|] eqn:E.
    + apply find_some in E as [Hk Hm]. rewrite (Hmem k Hk) in Hm.
      destruct (fs_type (st c k)) eqn:Hkt.
      1,2,3,5,6,7: (rewrite (Hnf k Hk) by congruence; symmetry; apply not_true_is_false; intros Hex;
        apply existsb_exists in Hex as (k' & Hk' & Hfk); apply andb_true_iff in Hfk as [Hfk Hm'];
        assert (k' = k) by (apply (Huniq q k' k Ht Hk' Hk); apply Hcf; now apply mem_In); subst k';
        unfold is_final_state, sty in Hfk; rewrite Hkt in Hfk; discriminate).
      cbn [in_final]. rewrite Hkt. symmetry. apply existsb_exists. exists k. split; [exact Hk|].
      unfold is_final_state, sty. now rewrite Hkt, Hm.
    + symmetry. apply not_true_is_false. intros Hex. apply existsb_exists in Hex as (k' & Hk' & Hfk).
      apply andb_true_iff in Hfk as [_ Hm']. pose proof (find_none _ _ E k' Hk') as Hn. cbn beta in Hn.
      rewrite (Hmem k' Hk') in Hn. congruence.
  - (* parallel: no <final> below *)
    assert (Hno : forall z, z = q \/ Anc q z -> fs_type (st c z) <> FFinal).
    { intros z [->|Hz] Hzf; [congruence|].
      assert (Hgz : Anc g z) by (eapply anc_trans; eauto).
      destruct (HG z Hzf Hgz) as (q' & Hpz & Hpq' & Hnp).
      destruct (anc_child _ _ _ _ Hpz Hz) as [->|Hqq']; [congruence|].
      destruct (anc_child _ _ _ _ Hpq' Hqq') as [->|Hqg]; [exact (anc_irrefl c W _ Hgq) | exact (anc_antisym g q Hgq Hqg)]. }
    rewrite nf_large, nf_spec by exact Hno. reflexivity.
  - (* a <final> child of g *)
    exfalso. destruct (HG q Ht Hgq) as (q' & Hpq & Hpq' & _). rewrite Hq in Hpq. injection Hpq as <-.
    destruct (wf_par_lt c W _ _ Hpq'). lia.
Qed.

Lemma in_final_parallel cfgS g fuel fuel' :
  fs_type (st c g) = FParallel -> CondG g -> (forall y, In y cfgS -> CF y) -> 3 <= fuel -> 1 <= fuel' ->
  in_final c fuel (0 :: cfgS) g = forallb (in_final_state c fuel' cfgS) (child_states c g).
Proof.
  intros Ht HG Hcf Hf Hf'. destruct fuel as [|f1]; [lia|]. cbn [in_final]. rewrite Ht, child_states_core'.
  assert (Hall : forall l, (forall q, In q l -> In q (fs_children (st c g))) ->
            forallb (in_final c f1 (0 :: cfgS)) l = forallb (in_final_state c fuel' cfgS) l).
  { induction l as [|q r IH]; intros Hl; cbn [forallb]; [reflexivity|].
    rewrite (in_final_child cfgS g q f1 fuel' HG) by (try assumption; try lia; apply (wf_children c W); apply Hl; now left).
    rewrite IH by (intros z Hz; apply Hl; now right). reflexivity. }
  apply Hall. auto.
Qed.

Lemma condG_of_final i p g : fs_type (st c i) = FFinal -> fs_parent (st c i) = Some p -> fs_parent (st c p) = Some g ->
  fs_type (st c g) = FParallel -> CondG g.
Proof.
  intros _ _ _ Hgt f Hf Hgf.
  inversion Hgf as [? q Hq|? q ? Hq Hgq]; subst.
  - exfalso. exact (Hfin_par f g Hf Hq Hgt).
  - exists q. split; [exact Hq|]. split; [|exact (Hfin_par f q Hf Hq)].
    destruct (Hfin_up f q g Hf Hq Hgq) as [H|H]; [exact H | congruence].
Qed.

Definition erel' (a : enter_acc) (sx : sstate * xstate) : Prop :=
  erel c a sx /\ forall y, In y (s_cfg (fst sx)) -> CF y.

Lemma tails_conform cfgS initd1 entered1 s x2 i : 0 < i -> i < nstates c ->
  data_rel c initd1 entered1 -> (forall y, In y cfgS -> CF y) ->
  erel c (l_tail c ts (0 :: cfgS) initd1 (negb (s_running s)) x2 i) (s_tail c e cfgS entered1 s x2 i) /\
  s_cfg (fst (s_tail c e cfgS entered1 s x2 i)) = cfgS.
Proof.
  intros Hi Hin HD Hcf. destruct (wf_par_some c W i Hi Hin) as (p & Hp).
  unfold l_tail, s_tail. cbn zeta.
  rewrite exec_blocks_root by apply Hsilent. rewrite Hhc. cbn [rev fold_left].
  set (x4 := emit (TEe (fs_sid (st c i))) (exec_blocks ex_fixed (inst_of c cfgS) (fs_onentry (st c i)) x2)).
  assert (Hx5 : forall y, fold_left
      (fun x ch => if is_pseudo (fs_type (st c ch)) then
           fold_left (fun x ti =>
                        if (ft_history (tr c ti) || ft_initial (tr c ti)) && mem ti ts then
                          emit (TTe (ft_vid (tr c ti)))
                            (if ft_has_body (tr c ti) then exec_block ex_fixed (inst_of c (0 :: cfgS)) (ft_body (tr c ti)) (emit (TTb (ft_vid (tr c ti))) x)
                             else emit (TTb (ft_vid (tr c ti))) x)
                        else x) (fs_trans (st c ch)) x
         else x) (fs_children (st c i)) y = y).
  { induction (fs_children (st c i)) as [|k r IH]; intros y; cbn [fold_left]; [reflexivity|]. rewrite no_pseudo. apply IH. }
  rewrite !Hx5.
  assert (Hini : snd (initial_of c i) = None).
  { unfold initial_of. destruct (fs_completion (st c i)) as [|k [|k2 r]]; try reflexivity.
    unfold sty. destruct (wf_types c W k) as [H|[H|[H|H]]]; rewrite H; reflexivity. }
  rewrite Hini.
  replace (if mem i (e_default e) then x4 else x4) with x4 by (destruct (mem i (e_default e)); reflexivity).
  unfold is_final_state, sty.
  destruct (fs_type (st c i)) eqn:Hty;
    try (split; [|reflexivity]; unfold erel; cbn [fst snd ea_cfg ea_tlf ea_initd ea_x s_cfg s_running s_entered]; repeat split; assumption).
  rewrite Hp. pose proof (Hfin_par i p Hty Hp) as Hpnp.
  destruct p as [|p'].
  - assert (Hw : done_walk c (n_states c) (0 :: cfgS) (Some 0) x4 = x4).
    { apply done_walk_none. intros b [->|Hb]; [exact Hpnp | exfalso; exact (no_anc_root _ (wf_root_par c W) _ Hb)]. }
    rewrite Hw. split; [|reflexivity].
    unfold erel; cbn [fst snd ea_cfg ea_tlf ea_initd ea_x s_cfg s_running s_entered]. repeat split; try assumption.
    now rewrite orb_true_r.
  - destruct (wf_par_lt c W _ _ Hp) as [Hplt _].
    destruct (wf_par_some c W (S p') ltac:(lia) ltac:(lia)) as (g & Hg). rewrite Hg.
    destruct (wf_par_lt c W _ _ Hg) as [Hglt _].
    assert (Hn3 : 3 <= n_states c) by (unfold n_states; lia).
    assert (Habove : forall b, Anc b g -> fs_type (st c b) <> FParallel).
    { intros b Hb. destruct (Hfin_up i (S p') b Hty Hp) as [H|H]; [eapply anc_step; eauto | | exact H].
      exfalso. rewrite Hg in H. injection H as <-. exact (anc_irrefl c W _ Hb). }
    assert (Hup : forall f y, done_walk c f (0 :: cfgS) (fs_parent (st c g)) y = y).
    { intros f y. destruct (fs_parent (st c g)) as [gg|] eqn:Hgg; [|apply done_walk_top].
      apply done_walk_none. intros b [->|Hb]; apply Habove; [now apply anc_parent | eapply anc_step; eauto]. }
    destruct (n_states c) as [|[|n2]] eqn:En; try lia.
    rewrite done_walk_step by exact Hpnp. rewrite Hg.
    change (spec_done_event c) with (done_event c).
    destruct (fs_type (st c g)) eqn:Hgt.
    1,2,4,5,6,7: (rewrite done_walk_step by congruence; rewrite Hup; unfold is_parallel_state, sty; rewrite Hgt; cbn [andb];
      split; [|reflexivity]; unfold erel; cbn [fst snd ea_cfg ea_tlf ea_initd ea_x s_cfg s_running s_entered];
      repeat split; try assumption; now rewrite orb_false_r).
    rewrite done_walk_par by exact Hgt. rewrite En.
    rewrite (in_final_parallel cfgS g (S (S n2)) (Spec.n c) Hgt (condG_of_final i (S p') g Hty Hp Hg Hgt) Hcf)
      by (unfold Spec.n, n_states in *; lia).
    unfold is_parallel_state, sty. rewrite Hgt. cbn [andb].
    destruct (forallb (in_final_state c (Spec.n c) cfgS) (child_states c g)); [rewrite Hup|];
      (split; [|reflexivity]; unfold erel; cbn [fst snd ea_cfg ea_tlf ea_initd ea_x s_cfg s_running s_entered];
       repeat split; try assumption; now rewrite orb_false_r).
Qed.

Lemma enter_one_conforms a sx i : erel' a sx -> 0 < i -> i < nstates c -> CF i ->
  erel' (enter_one ex_fixed c ts a i) (spec_enter_one c e sx i).
Proof.
  intros [(Hc & Ht & Hd & Hx) Hcf] Hi Hin Hic. destruct sx as [s x]. cbn [fst snd] in *.
  assert (Hcf1 : forall y, In y (insert_sorted i (s_cfg s)) -> CF y).
  { intros y Hy. apply In_insert_sorted' in Hy as [->|Hy]; [exact Hic | now apply Hcf]. }
  rewrite enter_one_staged, spec_enter_one_staged, no_pseudo.
  rewrite Hc, Hx, Ht, (insert_sorted_root i (s_cfg s)) by lia.
  assert (Hfinish : forall initd1 entered1 x2, data_rel c initd1 entered1 ->
     erel' (l_tail c ts (0 :: insert_sorted i (s_cfg s)) initd1 (negb (s_running s)) x2 i)
           (s_tail c e (insert_sorted i (s_cfg s)) entered1 s x2 i)).
  { intros initd1 entered1 x2 HD. destruct (tails_conform (insert_sorted i (s_cfg s)) initd1 entered1 s x2 i Hi Hin HD Hcf1) as [A B].
    split; [exact A | rewrite B; exact Hcf1]. }
  destruct (fs_data (st c i)) as [|d0 ds] eqn:Hdt.
  - destruct (fc_late c && negb (mem i (s_entered s))); cbn [fold_left]; apply Hfinish; try assumption.
    intros j Hj. rewrite mem_insert_sorted. destruct (j =? i) eqn:E; [apply Nat.eqb_eq in E; subst; congruence|]. now apply Hd.
  - assert (Hl : fc_late c = true).
    { destruct (fc_late c) eqn:E; [reflexivity|]. rewrite (Hdata eq_refl i) in Hdt by lia. discriminate. }
    rewrite Hl. cbn [andb]. rewrite <- (Hd i) by (rewrite Hdt; discriminate).
    destruct (mem i (ea_initd a)); cbn [negb]; apply Hfinish; try assumption.
    intros j Hj. rewrite !mem_insert_sorted. now rewrite (Hd j Hj).
Qed.

Lemma enter_fold_conforms es : forall a sx, erel' a sx -> (forall i, In i es -> 0 < i /\ i < nstates c /\ CF i) ->
  erel' (fold_left (enter_one ex_fixed c ts) es a) (fold_left (spec_enter_one c e) es sx).
Proof.
  induction es as [|i r IH]; intros a sx Hr Hb; cbn [fold_left]; [exact Hr|].
  apply IH; [|intros j Hj; apply Hb; now right].
  destruct (Hb i (or_introl eq_refl)) as (A & B & C). now apply enter_one_conforms.
Qed.
End Enter.
