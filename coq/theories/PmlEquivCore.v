(* PmlEquivCore.v -- tree facts of the history-free core (wf_coreb c = true, WfCore.v) in the form the PmlEquiv*
   files use them: ancestor lists are strictly ascending and bounded, the descendants FastMicroStep keeps in
   `children` are the states below, the ancestor closure add_ancestors.  Proofs only. *)
From V Require Import Base NameMatch Chart Exec Large Legal SetLemmas LegalAbstract LegalLarge WfCore Fast
                      SerializeCodecLemmas PmlEquivBase.
From Coq Require Import Sorted.
Local Open Scope nat_scope.

Section Core.
Variable c : fchart.
Hypothesis H : wf_coreb c = true.
Let W : WF c := wf_coreb_sound c H.
Notation n := (nstates c).
Notation par := (fun i => fs_parent (st c i)).
Notation Anc := (LegalAbstract.Anc (fun i => fs_parent (st c i))).
Notation anc := (fun i => fs_ancestors (st c i)).

Lemma In_anc i a : In a (anc i) <-> Anc a i.
Proof. apply (anc_spec c H). Qed.

Lemma anc_below a i : Anc a i -> a < i /\ i < n.
Proof. apply (anc_lt c W). Qed.

Lemma anc_sorted : forall i, ssorted (anc i).
Proof.
  induction i as [i IH] using lt_wf_ind.
  destruct (Nat.lt_ge_cases i n) as [Hi|Hi].
  - rewrite (anc_in c H i Hi). destruct (fs_parent (st c i)) as [p|] eqn:Hp; [|constructor].
    apply insert_sorted_ssorted. apply IH. now destruct (par_lt c H _ _ Hp).
  - rewrite (st_out c i Hi). constructor.
Qed.

Lemma anc_bounded i : bounded n (anc i).
Proof. apply bounded_intro. intros a Ha. apply In_anc, anc_below in Ha. lia. Qed.

Lemma anc_of_parent k p a : fs_parent (st c k) = Some p -> Anc a k -> a = p \/ Anc a p.
Proof. apply (anc_child (fun i => fs_parent (st c i))). Qed.

(* the child of i on the way down to x *)
Lemma child_towards i x : Anc i x -> exists k, fs_parent (st c k) = Some i /\ (k = x \/ Anc k x).
Proof.
  induction 1 as [x p Hp|x p a Hp Ha IH].
  - exists x. split; [exact Hp | now left].
  - destruct IH as (k & Hk & [Ek|Hkp]); exists k; (split; [exact Hk|right]).
    + subst k. now apply anc_parent.
    + eapply anc_step; eauto.
Qed.

Lemma In_children p k : In k (fs_children (st c p)) <-> fs_parent (st c k) = Some p.
Proof. apply (children_spec c H). Qed.

Lemma In_desc i x : i < n -> x < n -> (In x (desc c i) <-> Anc i x).
Proof.
  intros Hi Hx. unfold desc. rewrite in_seq, (wf_interval c W i x Hi Hx). lia.
Qed.

Lemma compound_lt i : fs_type (st c i) = FCompound -> i < n.
Proof.
  intros E. destruct (Nat.lt_ge_cases i n) as [Hi|Hi]; [exact Hi|]. rewrite (kd_out c i Hi) in E. discriminate.
Qed.

(* for an ancestor-closed bounded set, "meets the children of i" and "meets the descendants of i" are the same *)
Lemma meets_children_desc (S : list nat) i : i < n ->
  (forall x, In x S -> x < n) -> (forall x a, In x S -> Anc a x -> In a S) ->
  intersects S (fs_children (st c i)) = intersects S (desc c i).
Proof.
  intros Hi Hb Hcl. apply Bool.eq_iff_eq_true. rewrite !intersects_spec. split.
  - intros (x & Hs & Hx). exists x. split; [exact Hs|]. apply In_desc; [exact Hi|now apply Hb|].
    apply anc_parent. now apply In_children.
  - intros (x & Hs & Hx). apply In_desc in Hx; [|exact Hi|now apply Hb].
    destruct (child_towards i x Hx) as (k & Hk & [->|Hkx]).
    + exists x. split; [exact Hs | now apply In_children].
    + exists k. split; [now apply (Hcl x) | now apply In_children].
Qed.

(* ---- ancestor closure of the target set ---- *)
Lemma In_add_ancestors tg x : In x (add_ancestors c tg) <-> In x tg \/ exists g, In g tg /\ Anc x g.
Proof.
  unfold add_ancestors. rewrite In_fold_union. split.
  - intros [Hx|(g & Hg & Hx)]; [now left | right; exists g; split; [exact Hg | now apply In_anc]].
  - intros [Hx|(g & Hg & Hx)]; [now left | right; exists g; split; [exact Hg | now apply In_anc]].
Qed.

Lemma add_ancestors_sorted tg : ssorted tg -> ssorted (add_ancestors c tg).
Proof. intros Hs. unfold add_ancestors. now apply fold_union_ssorted. Qed.

(* the emitted loop `for i < N: if entry_set[i] then entry_set |= ancestors[i]` *)
Lemma p_anc_close_eq tg : ssorted tg -> (forall g, In g tg -> g < n) ->
  PmlStep.p_anc_close c tg = add_ancestors c tg.
Proof.
  intros Hs Hb. unfold PmlStep.p_anc_close, PmlStep.pn.
  set (f := fun es i => if mem i es then set_union es (fs_ancestors (st c i)) else es).
  assert (P : ssorted (fold_left f (seq 0 n) tg) /\
              forall x, In x (fold_left f (seq 0 n) tg) <-> In x tg \/ exists g, In g tg /\ g < 0 + n /\ Anc x g).
  { apply (fold_seq_inv c f (fun j es => ssorted es /\ forall x, In x es <-> In x tg \/ exists g, In g tg /\ g < j /\ Anc x g)).
    - split; [exact Hs|]. intros x. split; [now left|]. intros [Hx|(g & _ & Hg & _)]; [exact Hx|lia].
    - intros j es _ _ [Ss Sm]. unfold f. destruct (mem j es) eqn:M.
      + apply mem_true_In in M.
        assert (Hj : In j tg).
        { apply Sm in M as [M|(g & _ & Hg & Ha)]; [exact M|]. apply anc_below in Ha. lia. }
        split; [now apply set_union_ssorted|]. intros x. rewrite In_set_union, Sm, In_anc. split.
        * intros [[Hx|(g & Hg & Hl & Ha)]|Ha]; [now left | right; exists g; repeat split; auto | right; exists j; repeat split; auto].
        * intros [Hx|(g & Hg & Hl & Ha)]; [now left; left|].
          destruct (Nat.eq_dec g j) as [->|Ne]; [now right | left; right; exists g; repeat split; auto; lia].
      + split; [exact Ss|]. intros x. rewrite Sm. split.
        * intros [Hx|(g & Hg & Hl & Ha)]; [now left | right; exists g; repeat split; auto].
        * intros [Hx|(g & Hg & Hl & Ha)]; [now left|].
          destruct (Nat.eq_dec g j) as [->|Ne]; [|right; exists g; repeat split; auto; lia].
          exfalso. assert (In j es) by (apply Sm; now left). apply In_mem_true in H0. congruence. }
  destruct P as [P1 P2]. apply ssorted_ext; [exact P1 | now apply add_ancestors_sorted|].
  intros x. rewrite P2, In_add_ancestors. split.
  - intros [Hx|(g & Hg & _ & Ha)]; [now left | right; now exists g].
  - intros [Hx|(g & Hg & Ha)]; [now left | right; exists g; repeat split; auto].
Qed.

(* ---- the test "is the parent the <scxml> root" ---- *)
Lemma root_parent : fs_parent (st c 0) = None.
Proof. apply (wf_root_par c W). Qed.

Lemma anc_root_nil : anc 0 = [].
Proof.
  destruct (anc 0) as [|a r] eqn:E; [reflexivity|].
  assert (Ha : In a (anc 0)) by (rewrite E; now left). apply In_anc, anc_below in Ha. lia.
Qed.

Lemma parent_some i : 0 < i -> i < n -> exists p, fs_parent (st c i) = Some p /\ p < i.
Proof.
  intros H0 Hi. destruct (wf_par_some c W i H0 Hi) as (p & Hp). exists p. split; [exact Hp|]. now destruct (par_lt c H _ _ Hp).
Qed.

(* FastMicroStep: ancestors == {0}; the emitted model: states[parent].children[1] *)
Lemma top_level_tests i p : fs_parent (st c i) = Some p ->
  (match anc i with [0] => true | _ => false end) = mem 1 (fs_children (st c p)).
Proof.
  intros Hp. destruct (par_lt c H _ _ Hp) as [Hlt Hi].
  rewrite (anc_in c H i Hi), Hp.
  assert (H1 : 1 < n) by lia.
  destruct (parent_some 1 ltac:(lia) H1) as (q & Hq & Hq1). assert (q = 0) by lia. subst q.
  destruct (Nat.eq_dec p 0) as [->|Ne].
  - rewrite anc_root_nil. cbn [insert_sorted]. symmetry. apply In_mem_true. now apply In_children.
  - replace (mem 1 (fs_children (st c p))) with false.
    2:{ symmetry. apply mem_false_In. intros Hin. apply In_children in Hin. congruence. }
    destruct (parent_some p ltac:(lia) ltac:(lia)) as (q & Hq' & Hql).
    assert (Hin : In q (anc p)) by (apply In_anc; now apply anc_parent).
    assert (Hs : ssorted (insert_sorted p (anc p))) by (apply insert_sorted_ssorted, anc_sorted).
    assert (I1 : In p (insert_sorted p (anc p))) by (apply insert_sorted_In; now left).
    assert (I2 : In q (insert_sorted p (anc p))) by (apply insert_sorted_In; now right).
    destruct (insert_sorted p (anc p)) as [|a [|b r]]; [reflexivity| |destruct a as [|[|a]]; reflexivity].
    destruct I1 as [<-|[]]. destruct I2 as [<-|[]]. lia.
Qed.

Lemma core_proper i : is_pseudo (fs_type (st c i)) = false.
Proof. destruct (wf_types c W i) as [E|[E|[E|E]]]; rewrite E; reflexivity. Qed.

End Core.
