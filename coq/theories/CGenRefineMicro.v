(* CGenRefineMicro.v -- C04, data refinement, layer 3c: EXIT_STATES, TAKE_TRANSITIONS, ENTER_STATES.
   The byte-level loops (CGen.b_exit_one, b_take_one, b_enter_one with b_pardone_one, with the callbacks of the harness:
   on_exit / on_transition / on_entry / raise_done_event) against the set-level folds (CGen.cexit_one, ctake_one,
   center_one): same configuration, same top-level-final flag, same callbacks in the same order seeing the same
   configuration.
   Proofs only. *)
From V Require Import Base NameMatch Chart Exec Large Fast GenCGen CGen CGenLemmas SetLemmas SerializeCodecLemmas TraceLemmas
                      CGenEquivContent CGenRefineBits CGenRefineTables CGenRefineSelect CGenRefineEntry.
From Coq Require Import Lia Sorted ZifyBool.
Local Open Scope nat_scope.

(* ------------------------------------------------------------------ the callbacks read the configuration only through In() *)
Lemma cexec_instr_ext i1 i2 : (forall s, i1 s = i2 s) -> forall i x, cexec_instr i1 i x = cexec_instr i2 i x.
Proof.
  intros H i.
  induction i using instr_ind2 with
    (Q := fun it => match it with FInstr j => forall x, cexec_instr i1 j x = cexec_instr i2 j x | _ => True end);
    try exact I; try assumption; intros y; try reflexivity.
  rewrite !cexec_if_unfold, (c_is_true_ext _ _ c H). generalize (c_is_true i2 c). revert y.
  induction H0 as [|it r Hit Hr IH]; intros y b; cbn [c_if_items]; [reflexivity|].
  destruct it as [c'| |j].
  - destruct b; [reflexivity|]. rewrite (c_is_true_ext _ _ c' H). apply IH.
  - destruct b; [reflexivity|]. apply IH.
  - destruct b; [|apply IH]. rewrite Hit. apply IH.
Qed.

Lemma cexec_block_ext i1 i2 : (forall s, i1 s = i2 s) -> forall b x, cexec_block i1 b x = cexec_block i2 b x.
Proof.
  intros H b. unfold cexec_block. induction b as [|i r IH]; intros x; cbn [fold_left]; [reflexivity|].
  rewrite (cexec_instr_ext _ _ H). apply IH.
Qed.

Lemma cexec_blocks_ext i1 i2 : (forall s, i1 s = i2 s) -> forall bs x, cexec_blocks i1 bs x = cexec_blocks i2 bs x.
Proof.
  intros H bs. unfold cexec_blocks. induction bs as [|b r IH]; intros x; cbn [fold_left]; [reflexivity|].
  rewrite (cexec_block_ext _ _ H). apply IH.
Qed.

(* ------------------------------------------------------------------ loops over all indices against folds over a set *)
Lemma fold_left_filter {T} (g : T -> nat -> T) (p : nat -> bool) (l : list nat) :
  forall t, fold_left g (filter p l) t = fold_left (fun t i => if p i then g t i else t) l t.
Proof. induction l as [|i r IH]; intros t; cbn [filter fold_left]; [reflexivity|]. destruct (p i); cbn [fold_left]; apply IH. Qed.

Lemma filter_rev' {A} (p : A -> bool) (l : list A) : filter p (rev l) = rev (filter p l).
Proof.
  induction l as [|x r IH]; cbn [rev filter]; [reflexivity|].
  rewrite filter_app, IH. cbn [filter]. destruct (p x); cbn [rev]; [reflexivity | now rewrite app_nil_r].
Qed.

Lemma sorted_filter_seq l n : ssorted l -> bounded n l -> l = filter (fun i => mem i l) (seq 0 n).
Proof.
  intros Sl B. apply ssorted_ext_in; [exact Sl | apply filter_ssorted, seq_ssorted|].
  intros x. rewrite filter_In, in_seq, mem_In. split; [|tauto]. intros Hx. pose proof (bounded_in _ _ _ B Hx). split; [lia | exact Hx].
Qed.

Lemma fold_rev_sorted {T} (g : T -> nat -> T) (l : list nat) (n : nat) : ssorted l -> bounded n l ->
  forall t, fold_left g (rev l) t = fold_left (fun t i => if mem i l then g t i else t) (rev (seq 0 n)) t.
Proof.
  intros Sl B t. rewrite (sorted_filter_seq l n Sl B) at 1. rewrite <- filter_rev'. apply fold_left_filter.
Qed.

Lemma okp_forM_down S T (R : nat -> S -> T -> Prop) (body : nat -> S -> res S) (g : T -> nat -> T) :
  forall n s t, R n s t ->
  (forall j s t, j < n -> R (Datatypes.S j) s t -> okp (body j s) (fun s' => R j s' (g t j))) ->
  okp (forM (rev (seq 0 n)) body s) (fun s' => R 0 s' (fold_left g (rev (seq 0 n)) t)).
Proof.
  induction n as [|n IH]; intros s t Hs Hb; [exact Hs|].
  rewrite seq_S, rev_app_distr. cbn [rev app Nat.add forM fold_left].
  eapply okp_bind; [apply Hb; [lia | exact Hs]|]. intros s' Hs'. apply IH; [exact Hs'|].
  intros j u v Hj Hu. apply Hb; [lia | exact Hu].
Qed.

Lemma okp_conj A (r : res A) (P Q : A -> Prop) : okp r P -> okp r Q -> okp r (fun a => P a /\ Q a).
Proof. destruct r; cbn; tauto. Qed.

(* ------------------------------------------------------------------ flags *)
Definition flags_of (spont init tlf fin : bool) : N :=
  N.lor (if spont then CG_CTX_SPONTANEOUS else 0%N)
        (N.lor (if init then CG_CTX_INITIALIZED else 0%N)
               (N.lor (if tlf then CG_CTX_TOP_LEVEL_FINAL else 0%N) (if fin then CG_CTX_FINISHED else 0%N))).

Lemma flags_set_tlf a b t f : N.lor (flags_of a b t f) CG_CTX_TOP_LEVEL_FINAL = flags_of a b true f.
Proof. destruct a, b, t, f; reflexivity. Qed.

(* the first byte of the ancestors row of a state is 0x01 exactly when its only ancestor among the first eight states is
   the root *)
Lemma first_byte_is_one l : ssorted l ->
  (byte_of l 0 =? 1)%N = match filter (fun a => a <? 8) l with [0] => true | _ => false end.
Proof.
  intros Sl.
  assert (Sf : ssorted (filter (fun a => a <? 8) l)) by now apply filter_ssorted.
  assert (E1 : byte_of l 0 = 1%N <-> forall q, q < 8 -> mem q l = (q =? 0)).
  { split.
    - intros E q Hq. pose proof (byte_of_testbit l 0 (N.of_nat q)) as T. rewrite E in T.
      rewrite Nat2N.id in T. cbn [Nat.mul Nat.add] in T.
      assert (X : (N.of_nat q <? 8)%N = true) by (apply N.ltb_lt; lia). rewrite X in T. cbn [andb] in T. rewrite <- T.
      destruct q as [|q]; [reflexivity|]. cbn [Nat.eqb]. change 1%N with (2 ^ 0)%N. rewrite N.pow2_bits_eqb.
      apply N.eqb_neq. lia.
    - intros H. apply N.bits_inj. intros p. rewrite byte_of_testbit. cbn [Nat.mul Nat.add].
      change 1%N with (2 ^ 0)%N. rewrite N.pow2_bits_eqb.
      destruct (p <? 8)%N eqn:Lp; cbn [andb].
      + apply N.ltb_lt in Lp. rewrite H by lia. apply bool_eq_iff. rewrite Nat.eqb_eq, N.eqb_eq. lia.
      + apply N.ltb_ge in Lp. symmetry. apply N.eqb_neq. lia. }
  assert (E2 : filter (fun a => a <? 8) l = [0] <-> forall q, q < 8 -> mem q l = (q =? 0)).
  { split.
    - intros E q Hq. assert (M : mem q (filter (fun a => a <? 8) l) = mem q l).
      { rewrite memb_filter. assert (X : (q <? 8) = true) by (apply Nat.ltb_lt; lia). rewrite X. apply andb_true_r. }
      rewrite <- M, E. cbn [mem]. rewrite orb_false_r. reflexivity.
    - intros H. apply ssorted_ext_in; [exact Sf | repeat constructor|]. intros x. rewrite filter_In. cbn [In]. split.
      + intros [Hx Lx]. apply Nat.ltb_lt in Lx. apply mem_In in Hx. rewrite (H x Lx) in Hx. apply Nat.eqb_eq in Hx. now left.
      + intros [<-|[]]. split; [apply mem_In; rewrite H by lia; reflexivity | reflexivity]. }
  destruct (byte_of l 0 =? 1)%N eqn:B.
  - apply N.eqb_eq in B. pose proof (proj2 E2 (proj1 E1 B)) as B'. rewrite B'. reflexivity.
  - apply N.eqb_neq in B. destruct (filter (fun a => a <? 8) l) as [|[|a] [|b r]] eqn:F; try reflexivity.
    exfalso. apply B. apply (proj2 E1). apply (proj1 E2). reflexivity.
Qed.

Section Micro.
Variable cv : cg_variant.
Variable c : fchart.
Notation ns := (nstates c).
Notation nt := (ntrans c).
Notation bm := (bmachine_of cv c).
Notation MS := (m_maxs c).
Notation MT := (m_maxt c).
Notation NTB := (NTB cv c).
Notation WS := (8 * MS).
Notation WT := (8 * NTB).

Hypothesis Hns : (N.of_nat ns < 2 ^ 24)%N.
Hypothesis Hnt : (N.of_nat nt < 2 ^ 24)%N.
Hypothesis Hok : bref_chartb c = true.
Set Default Proof Using "cv Hns Hnt Hok".

Let HW : ns <= WS := ns_le_WS cv c Hns Hnt Hok.
Let HWt : nt <= WT := nt_le_WT cv c Hns Hnt Hok.
Let Hntb : NTB <= MT := ntb_le cv c Hns Hnt Hok.

Notation ibe := (inst_bytes_eq cv c Hns Hnt Hok).

(* ------------------------------------------------------------------ EXIT_STATES *)
Lemma exit_loop_ref cfg exitset x (s : bst benv) :
  mem_shape c (b_mem benv s) -> rep WS (get (b_mem benv s) A_CONFIG) cfg -> rep WS (get (b_mem benv s) A_EXIT) exitset ->
  bounded ns cfg -> bounded ns exitset -> (forall i, In i exitset -> In i cfg) -> be_x (b_env benv s) = x ->
  okp (forM (rev (seq 0 ns)) (b_exit_one benv (h_on_exit c) bm) s)
      (fun s' => frames (b_mem benv s) (b_mem benv s') [A_CONFIG] /\
                 rep WS (get (b_mem benv s') A_CONFIG) (fst (fold_left (cexit_one c) (rev exitset) (cfg, x))) /\
                 be_x (b_env benv s') = snd (fold_left (cexit_one c) (rev exitset) (cfg, x)) /\
                 be_ev (b_env benv s') = be_ev (b_env benv s) /\ b_flags benv s' = b_flags benv s).
Proof.
  intros Hm Rc Rx Bc Bx Sub Ex.
  rewrite (fold_rev_sorted (cexit_one c) exitset ns (rep_ssorted _ _ _ Rx) Bx).
  pose (R := fun (k : nat) (s' : bst benv) (a : list nat * cx) =>
               frames (b_mem benv s) (b_mem benv s') [A_CONFIG] /\ rep WS (get (b_mem benv s') A_CONFIG) (fst a) /\
               be_x (b_env benv s') = snd a /\ be_ev (b_env benv s') = be_ev (b_env benv s) /\ b_flags benv s' = b_flags benv s /\
               (forall y, y < k -> mem y (fst a) = mem y cfg) /\ bounded ns (fst a)).
  eapply okp_weaken.
  - apply (okp_forM_down (bst benv) (list nat * cx) R (b_exit_one benv (h_on_exit c) bm)
             (fun t i => if mem i exitset then cexit_one c t i else t) ns s (cfg, x)).
    + unfold R. cbn [fst snd]. split; [apply frames_refl|]. split; [exact Rc|]. split; [exact Ex|]. split; [reflexivity|].
      split; [reflexivity|]. split; [reflexivity | exact Bc].
    + intros j s1 [cfg1 x1] Hj (F1 & R1 & X1 & V1 & G1 & I1 & B1). cbn [fst snd] in *. carrys F1.
      unfold b_exit_one. cbv zeta. lens_of (b_mem benv s1).
      rewrite (srep_bit_has 401 MS _ exitset _ (srep_of_rep WS (get (b_mem benv s1) A_EXIT) exitset ltac:(assumption))) by lia. rewrite bind_ok.
      destruct (mem j exitset) eqn:Mx; cbn [negb okp].
      2:{ unfold R. cbn [fst snd]. split; [exact F1|]. split; [exact R1|]. split; [exact X1|]. split; [exact V1|].
          split; [exact G1|]. split; [|exact B1]. intros y Hy. apply I1. lia. }
      rewrite (srep_bit_has 402 MS _ cfg1 _ (srep_of_rep _ _ _ R1)) by lia. rewrite bind_ok.
      assert (Mc : mem j cfg1 = true) by (rewrite I1 by lia; apply mem_In, Sub, mem_In, Mx). rewrite Mc. cbn [negb].
      rewrite (st_at_eq cv c Hns Hnt Hok 403 j Hj), bind_ok.
      eapply okp_bind; [apply (rep_bit_clear 404 MS _ A_CONFIG cfg1 j R1); lia|].
      intros m2 [F2 R2]. cbn [okp]. unfold R, cexit_one. cbn [fst snd with_env with_mem b_mem b_env b_flags].
      split; [eapply frames_step; [exact F1 | exact F2 | isin]|]. split; [exact R2|].
      split; [|split; [exact V1|split; [exact G1|split]]].
      * unfold h_on_exit, h_lift. cbn [be_x]. rewrite X1. apply cexec_blocks_ext. apply (ibe _ _ R1 B1).
      * intros y Hy. rewrite memb_remove. assert (Ny : (y =? j) = false) by (apply Nat.eqb_neq; lia). rewrite Ny. apply I1. lia.
      * apply bounded_intro. intros y Hy. apply In_set_remove in Hy as [Hy _]. apply (bounded_in _ _ _ B1 Hy).
  - intros s' (F & Rc' & X' & V' & G' & _). split; [exact F|]. split; [exact Rc'|]. split; [exact X'|]. split; [exact V' | exact G'].
Qed.

(* the first step: nothing is active, whatever exit_set holds *)
Lemma exit_loop_empty (s : bst benv) :
  mem_shape c (b_mem benv s) -> rep WS (get (b_mem benv s) A_CONFIG) [] ->
  okp (forM (rev (seq 0 ns)) (b_exit_one benv (h_on_exit c) bm) s) (fun s' => s' = s).
Proof.
  intros Hm Rc. apply okp_forM; [reflexivity|]. intros j s' Hj ->. apply in_rev, in_seq in Hj.
  unfold b_exit_one. cbv zeta. lens_of (b_mem benv s).
  rewrite (bit_has_spec 401) by (apply div8_lt_iff; lia). rewrite bind_ok.
  destruct (tbit (get (b_mem benv s) A_EXIT) j); cbn [negb okp]; [|reflexivity].
  rewrite (srep_bit_has 402 MS _ [] _ (srep_of_rep _ _ _ Rc)) by lia. rewrite bind_ok. reflexivity.
Qed.

(* ------------------------------------------------------------------ TAKE_TRANSITIONS *)
Lemma take_loop_ref cfg1 ts x (s : bst benv) :
  mem_shape c (b_mem benv s) -> rep WS (get (b_mem benv s) A_CONFIG) cfg1 -> rep WT (get (b_mem benv s) A_TRSET) ts ->
  bounded ns cfg1 -> bounded nt ts -> be_x (b_env benv s) = x ->
  okp (forM (seq 0 nt) (b_take_one benv (h_on_trans c) bm) s)
      (fun s' => b_mem benv s' = b_mem benv s /\ b_flags benv s' = b_flags benv s /\
                 be_ev (b_env benv s') = be_ev (b_env benv s) /\
                 be_x (b_env benv s') = fold_left (ctake_one c cfg1) ts x).
Proof.
  intros Hm Rc Rt Bc Bt Ex. rewrite (fold_sorted_seq (ctake_one c cfg1) ts nt (rep_ssorted _ _ _ Rt) Bt).
  apply (okp_forM_fold (bst benv) cx
           (fun s' x' => b_mem benv s' = b_mem benv s /\ b_flags benv s' = b_flags benv s /\
                         be_ev (b_env benv s') = be_ev (b_env benv s) /\ be_x (b_env benv s') = x')).
  { repeat split; auto. }
  intros j s1 x1 Hj (M1 & G1 & V1 & X1). apply in_seq in Hj. unfold b_take_one. cbv zeta. rewrite M1. lens_of (b_mem benv s).
  rewrite (srep_bit_has 411 NTB _ ts _ (srep_of_rep _ _ _ Rt)) by lia. rewrite bind_ok.
  destruct (mem j ts); cbn [negb okp]; [|repeat split; assumption].
  rewrite (tr_at_eq cv c Hns Hnt Hok 412 j) by lia. rewrite bind_ok, (bt_hist_or_init cv c Hns Hnt Hok). unfold ctake_one.
  destruct (ft_history (tr c j) || ft_initial (tr c j)); cbn [okp]; [repeat split; assumption|].
  cbn [with_env b_mem b_flags b_env]. repeat split; try assumption.
  unfold h_on_trans, h_lift. cbn [be_x be_ev]. rewrite X1.
  destruct (ft_has_body (tr c j)); [|reflexivity]. apply cexec_block_ext. apply (ibe _ _ Rc Bc).
Qed.

(* ------------------------------------------------------------------ ENTER_STATES: done.state of a parallel ancestor *)
Definition cpar_one (i : nat) (cfg1 : list nat) (x : cx) (j : nat) : cx :=
  match fs_type (st c j) with
  | FParallel => if mem j (fs_ancestors (st c i)) && fpar_done c cfg1 j then craise_done c j x else x
  | _ => x
  end.

Lemma pardone_one_ref i j cfg1 x (s : bst benv) :
  i < ns -> j < ns -> mem_shape c (b_mem benv s) -> rep WS (get (b_mem benv s) A_CONFIG) cfg1 -> bounded ns cfg1 ->
  be_x (b_env benv s) = x ->
  okp (b_pardone_one benv (h_done c) bm i (bstate_of cv c i) j s)
      (fun s' => frames (b_mem benv s) (b_mem benv s') [A_TMP] /\ b_flags benv s' = b_flags benv s /\
                 be_ev (b_env benv s') = be_ev (b_env benv s) /\ be_x (b_env benv s') = cpar_one i cfg1 x j).
Proof.
  intros Hi Hj Hm Rc Bc Ex. unfold b_pardone_one, cpar_one.
  assert (Same : okp (Ok s) (fun s' => frames (b_mem benv s) (b_mem benv s') [A_TMP] /\ b_flags benv s' = b_flags benv s /\
                 be_ev (b_env benv s') = be_ev (b_env benv s) /\ be_x (b_env benv s') = x)).
  { cbn [okp]. split; [apply frames_refl|]. auto. }
  rewrite (st_at_eq cv c Hns Hnt Hok 501 j Hj), bind_ok, (bs_kind cv c Hns Hnt Hok), kind_par.
  destruct (fs_type (st c j)); cbn [negb]; try exact Same.
  pose proof (bs_ancestors_srep cv c Hns Hnt Hok i) as Ra. cbn [bstate_of bs_ancestors] in *.
  rewrite (srep_bit_has 502 MS _ _ _ Ra) by (rewrite ?to_bytes_length; lia). rewrite bind_ok.
  destruct (mem j (fs_ancestors (st c i))); cbn [negb andb]; [|exact Same].
  rewrite (nsb_eq cv c Hns Hnt Hok). cbn [bmachine_of bm_ns]. lens_of (b_mem benv s).
  eapply okp_bind; [apply (okp_conj _ _ _ _ (rep_bit_clear_all 503 MS (b_mem benv s) A_TMP ltac:(lia)) (srep_bit_clear_all 503 MS (b_mem benv s) A_TMP ltac:(lia)))|].
  intros m1 [[F1 R1] (_ & _ & S1)]. specialize (S1 ltac:(lia)). carry F1.
  unfold fpar_done. rewrite (fold_sorted_seq _ cfg1 ns (rep_ssorted _ _ _ Rc) Bc).
  match goal with |- context [fold_left ?g (seq 0 ns) []] => set (G := g) end.
  eapply okp_bind with (Q := fun m' => frame m1 m' A_TMP /\ rep WS (get m' A_TMP) (fold_left G (seq 0 ns) []) /\ small (get m' A_TMP)).
  { apply (okp_forM_fold bmem (list nat)
             (fun m' tmp => frame m1 m' A_TMP /\ rep WS (get m' A_TMP) tmp /\ small (get m' A_TMP)) (seq 0 ns) _ G m1 []).
    - split; [apply frame_refl | split; assumption].
    - intros k m2 tmp Hk (F2 & R2 & S2). apply in_seq in Hk. carry F2. lens_of m2. unfold G.
      rewrite (st_at_eq cv c Hns Hnt Hok 504 k) by lia. rewrite bind_ok.
      pose proof (bs_ancestors_srep cv c Hns Hnt Hok k) as Rak. cbn [bstate_of bs_ancestors] in *.
      rewrite (srep_bit_has 505 MS _ _ _ Rak) by (rewrite ?to_bytes_length; lia). rewrite bind_ok.
      rewrite (srep_bit_has 506 MS _ cfg1 _ (srep_of_rep WS (get m2 A_CONFIG) cfg1 ltac:(assumption))) by lia.
      destruct (mem j (fs_ancestors (st c k))); cbn [negb].
      2:{ cbn [okp]. destruct (mem k cfg1); (split; [exact F2 | split; assumption]). }
      rewrite bind_ok. destruct (mem k cfg1); cbn [negb okp]; [|split; [exact F2 | split; assumption]].
      rewrite (bs_kind cv c Hns Hnt Hok), kind_fin.
      destruct (fs_type (st c k)).
      all: try (eapply okp_weaken; [apply (bit_set_at_spec 508 m2 A_TMP k); apply div8_lt_iff; lia|];
                intros m3 (F3 & E3 & S3); split; [eapply frame_trans; eassumption|]; split; [|apply S3, S2];
                apply rep_intro; [apply insert_sorted_ssorted, (rep_ssorted _ _ _ R2)|];
                intros y; rewrite memb_insert, E3, (rep_mem _ _ _ R2);
                destruct (y =? k) eqn:D; [apply Nat.eqb_eq in D; subst y; assert (X : (k <? WS) = true) by (apply Nat.ltb_lt; lia); rewrite X; reflexivity | reflexivity]).
      assert (La : MS <= length (get m2 A_TMP)) by lia.
      assert (Lb : MS <= length (to_bytes MS (fs_ancestors (st c k)))) by (rewrite to_bytes_length; lia).
      eapply okp_weaken; [apply (okp_conj _ _ _ _ (rep_bit_and_not 507 MS m2 A_TMP _ _ _ R2 Rak La Lb)
                                                   (and_not_small 507 m2 A_TMP _ MS La Lb S2))|].
      intros m3 [[F3 R3] S3]. split; [eapply frame_trans; eassumption | split; assumption]. }
  intros m2 (F2 & R2 & S2). carry F2. lens_of m2.
  rewrite (srep_bit_has_any 509 MS _ _ (srep_of_rep _ _ _ R2)) by (try lia; exact S2). rewrite bind_ok.
  assert (F02 : frames (b_mem benv s) m2 [A_TMP]).
  { eapply frames_step; [eapply frames_of_frame; [exact F1 | isin] | exact F2 | isin]. }
  destruct (fold_left G (seq 0 ns) []); cbn [okp with_mem with_env b_mem b_flags b_env].
  - split; [exact F02|]. split; [reflexivity|]. split; [reflexivity|]. unfold h_done, h_lift. cbn [be_x]. rewrite Ex. reflexivity.
  - split; [exact F02|]. auto.
Qed.

(* ------------------------------------------------------------------ ENTER_STATES: one state *)
Record ent_rel (sp ini fin : bool) (ev : bytes) (m0 : bmem) (s : bst benv) (a : center_acc) : Prop := {
  er_frames : frames m0 (b_mem benv s) [A_CONFIG; A_INITD; A_TMP];
  er_cfg : rep WS (get (b_mem benv s) A_CONFIG) (ca_cfg a);
  er_bcfg : bounded ns (ca_cfg a);
  er_x : be_x (b_env benv s) = ca_x a;
  er_ev : be_ev (b_env benv s) = ev;
  er_flags : b_flags benv s = flags_of sp ini (ca_tlf a) fin
}.

Lemma to_bytes_nth0 nb l : 0 < nb -> nth 0 (to_bytes nb l) 0%N = byte_of l 0.
Proof. intros H. unfold to_bytes. destruct nb as [|k]; [lia|]. reflexivity. Qed.

Lemma MS_pos : 0 < MS.
Proof. apply (mo_pos _ _ _ (mok cv c Hns Hnt Hok)). Qed.

Lemma final_parent i : i < ns -> fs_type (st c i) = FFinal ->
  exists p, fs_parent (st c i) = Some p /\ p < ns /\ match fs_ancestors (st c i) with [0] => true | _ => false end = (p =? 0).
Proof.
  intros Hi Et. destruct (st_parts cv c Hns Hnt Hok i Hi) as (_ & _ & _ & _ & P & Q).
  rewrite Et in P. specialize (P eq_refl). unfold bref_has_parent in P.
  destruct (fs_parent (st c i)) as [p|] eqn:Ep; [|discriminate]. exists p. split; [reflexivity|]. split.
  - eapply (par_lt cv c Hns Hnt Hok); eassumption.
  - now apply Q.
Qed.

Definition center_trans (i : nat) (cfg1 : list nat) (x : cx) (ti : nat) : cx :=
  let t := tr c ti in
  if (ft_history t || ft_initial t) && match fs_parent (st c (ft_source t)) with Some p => p =? i | None => false end
  then if ft_has_body t then cexec_block (inst_of c cfg1) (ft_body t) x else x
  else x.

Lemma enter_trans_ref i cfg1 ts x (s : bst benv) :
  mem_shape c (b_mem benv s) -> rep WS (get (b_mem benv s) A_CONFIG) cfg1 -> bounded ns cfg1 ->
  rep WT (get (b_mem benv s) A_TRSET) ts -> bounded nt ts -> be_x (b_env benv s) = x ->
  okp (forM (seq 0 nt)
            (fun j s => do bj <- bit_has 517 (get (b_mem benv s) A_TRSET) j;
                        if negb bj then Ok s else
                        do t <- tr_at 518 bm j;
                        if negb (hist_or_init (bt_type t)) then Ok s else
                        do ss <- st_at 519 bm (bt_source t);
                        if bs_parent ss =? i then Ok (with_env benv s (h_on_trans c j (get (b_mem benv s) A_CONFIG) (b_env benv s))) else Ok s)
            s)
      (fun s' => b_mem benv s' = b_mem benv s /\ b_flags benv s' = b_flags benv s /\
                 be_ev (b_env benv s') = be_ev (b_env benv s) /\
                 be_x (b_env benv s') = fold_left (center_trans i cfg1) ts x).
Proof.
  intros Hm Rc Bc Rt Bt Ex. rewrite (fold_sorted_seq (center_trans i cfg1) ts nt (rep_ssorted _ _ _ Rt) Bt).
  apply (okp_forM_fold (bst benv) cx
           (fun s' x' => b_mem benv s' = b_mem benv s /\ b_flags benv s' = b_flags benv s /\
                         be_ev (b_env benv s') = be_ev (b_env benv s) /\ be_x (b_env benv s') = x')).
  { repeat split; auto. }
  intros j s1 x1 Hj (M1 & G1 & V1 & X1). apply in_seq in Hj. rewrite M1. lens_of (b_mem benv s).
  rewrite (srep_bit_has 517 NTB _ ts _ (srep_of_rep _ _ _ Rt)) by lia. rewrite bind_ok.
  destruct (mem j ts); cbn [negb okp]; [|repeat split; assumption].
  rewrite (tr_at_eq cv c Hns Hnt Hok 518 j) by lia. rewrite bind_ok, (bt_hist_or_init cv c Hns Hnt Hok). unfold center_trans. cbv zeta.
  destruct (ft_history (tr c j) || ft_initial (tr c j)) eqn:HI; cbn [negb andb okp]; [|repeat split; assumption].
  cbn [btrans_of bt_source].
  rewrite (st_at_eq cv c Hns Hnt Hok 519 _ (src_lt cv c Hns Hnt Hok j ltac:(lia))), bind_ok.
  destruct (pseudo_trans_parent cv c Hns Hnt Hok j ltac:(lia) HI) as (p & Ep). cbn [bstate_of bs_parent]. rewrite Ep.
  destruct (p =? i); cbn [okp]; [|repeat split; assumption].
  cbn [with_env b_mem b_flags b_env]. repeat split; try assumption.
  unfold h_on_trans, h_lift. cbn [be_x be_ev]. rewrite X1.
  destruct (ft_has_body (tr c j)); [|reflexivity]. apply cexec_block_ext. apply (ibe _ _ Rc Bc).
Qed.

Lemma center_one_unfold ts a i :
  center_one cv c ts a i =
  if mem i (ca_cfg a) then a
  else if is_pseudo (fs_type (st c i)) then a else
  let cfg1 := insert_sorted i (ca_cfg a) in
  let x5 := fold_left (center_trans i cfg1) ts (cexec_blocks (inst_of c cfg1) (fs_onentry (st c i)) (ca_x a)) in
  match fs_type (st c i) with
  | FFinal =>
    let top := top_level_final cv (st c i) in
    let x6 := if top then x5 else match fs_parent (st c i) with Some p => craise_done c p x5 | None => x5 end in
    {| ca_cfg := cfg1; ca_tlf := ca_tlf a || top; ca_x := fold_left (cpar_one i cfg1) (seq 0 ns) x6 |}
  | _ => {| ca_cfg := cfg1; ca_tlf := ca_tlf a; ca_x := x5 |}
  end.
Proof. reflexivity. Qed.

Lemma enter_one_ref es ts sp ini fin ev m0 i (s : bst benv) a :
  i < ns -> mem_shape c m0 -> rep WS (get m0 A_ENTRY) es -> rep WT (get m0 A_TRSET) ts -> bounded nt ts ->
  ent_rel sp ini fin ev m0 s a ->
  okp (b_enter_one cv benv (h_on_trans c) (h_on_entry c) (h_done c) bm i s)
      (fun s' => ent_rel sp ini fin ev m0 s' (if mem i es then center_one cv c ts a i else a)).
Proof.
  intros Hi Hm0 Re Rt Bt [F Rc Bc Ex Ev Fl]. pose proof MS_pos as Hpos.
  assert (Same : okp (Ok s) (fun s' => ent_rel sp ini fin ev m0 s' a)) by (cbn [okp]; constructor; assumption).
  carrys F. unfold b_enter_one. cbv zeta. lens_of (b_mem benv s).
  rewrite (srep_bit_has 511 MS _ es _ (srep_of_rep WS (get (b_mem benv s) A_ENTRY) es ltac:(assumption))) by lia. rewrite bind_ok.
  destruct (mem i es); cbn [negb]; [|exact Same].
  rewrite center_one_unfold.
  rewrite (srep_bit_has 512 MS _ _ _ (srep_of_rep _ _ _ Rc)) by lia. rewrite bind_ok.
  destruct (mem i (ca_cfg a)); [exact Same|].
  rewrite (st_at_eq cv c Hns Hnt Hok 513 i Hi), bind_ok, (bs_is_hist cv c Hns Hnt Hok), (bs_kind cv c Hns Hnt Hok), kind_ini, kind_fin.
  destruct (is_pseudo (fs_type (st c i))) eqn:Ps.
  { destruct (fs_type (st c i)); try discriminate; exact Same. }
  assert (NP : is_hist (fs_type (st c i)) || match fs_type (st c i) with FInitial => true | _ => false end = false)
    by (destruct (fs_type (st c i)); try discriminate; reflexivity).
  rewrite NP. cbv zeta.
  set (cfg1 := insert_sorted i (ca_cfg a)).
  assert (Bc1 : bounded ns cfg1).
  { apply bounded_intro. intros y Hy. apply In_insert_sorted' in Hy as [->|Hy]; [exact Hi | apply (bounded_in _ _ _ Bc Hy)]. }
  eapply okp_bind; [apply (rep_bit_set_at 514 MS _ A_CONFIG _ i Rc); lia|].
  intros m1 [F1 R1]. fold cfg1 in R1. carry F1. lens_of m1.
  rewrite (bit_has_spec 515) by (apply div8_lt_iff; lia). rewrite bind_ok.
  eapply okp_bind with (Q := fun m2 => frame m1 m2 A_INITD).
  { destruct (tbit (get m1 A_INITD) i); [apply frame_refl|].
    eapply okp_weaken; [apply (bit_set_at_spec 516 m1 A_INITD i); apply div8_lt_iff; lia|]. intros m2 (F2 & _). exact F2. }
  intros m2 F2. carry F2.
  assert (F02 : frames m0 m2 [A_CONFIG; A_INITD; A_TMP]).
  { eapply frames_step; [eapply frames_step; [exact F | exact F1 | isin] | exact F2 | isin]. }
  set (x3 := cexec_blocks (inst_of c cfg1) (fs_onentry (st c i)) (ca_x a)).
  eapply okp_bind.
  { apply (enter_trans_ref i cfg1 ts x3 (with_env benv (with_mem benv s m2) (h_on_entry c i (get m2 A_CONFIG) (b_env benv s))));
      cbn [with_env with_mem b_mem b_env]; try assumption.
    unfold h_on_entry, h_lift. cbn [be_x]. rewrite Ex. apply cexec_blocks_ext.
    apply (ibe _ cfg1); assumption. }
  intros s1 (M1 & G1 & V1 & X1). cbn [with_env with_mem b_mem b_env b_flags be_ev h_on_entry h_lift] in M1, G1, V1.
  set (x5 := fold_left (center_trans i cfg1) ts x3) in *.
  destruct (fs_type (st c i)) eqn:Et; try discriminate; cbn [negb].
  1-3: (cbn [okp]; constructor; cbn [ca_cfg ca_tlf ca_x]; rewrite ?M1; try assumption; congruence).
  (* final *)
  destruct (final_parent i Hi Et) as (p & Ep & Hp & Top). rewrite Ep. cbn [bstate_of bs_parent bs_ancestors]. rewrite Ep.
  assert (Htop : okp (if cg_tlf_first_byte cv then do a0 <- rd 520 (to_bytes MS (fs_ancestors (st c i))) 0; Ok (a0 =? 1)%N else Ok (p =? 0))
                     (fun top => top = top_level_final cv (st c i))).
  { unfold top_level_final. destruct (cg_tlf_first_byte cv).
    - rewrite rd_spec by (rewrite to_bytes_length; lia). rewrite bind_ok, to_bytes_nth0 by lia. cbn [okp].
      apply first_byte_is_one. apply (ancestors_sorted cv c Hns Hnt Hok).
    - cbn [okp]. symmetry. exact Top. }
  eapply okp_bind; [exact Htop|]. intros top ->. clear Htop.
  set (top := top_level_final cv (st c i)).
  set (x6 := if top then x5 else craise_done c p x5).
  eapply okp_bind with (Q := fun s2 => b_mem benv s2 = m2 /\ b_flags benv s2 = flags_of sp ini (ca_tlf a || top) fin /\
                                        be_ev (b_env benv s2) = ev /\ be_x (b_env benv s2) = x6).
  { unfold x6. destruct top; cbn [okp with_flags with_env b_mem b_flags b_env].
    - rewrite G1, Fl, flags_set_tlf, orb_true_r. repeat split; congruence.
    - rewrite (st_at_eq cv c Hns Hnt Hok 521 p Hp), bind_ok. cbn [okp with_flags with_env b_mem b_flags b_env].
      rewrite orb_false_r. unfold h_done, h_lift. cbn [be_x be_ev]. rewrite X1. repeat split; congruence. }
  intros s2 (M2 & G2 & V2 & X2). cbn [bmachine_of bm_ns].
  eapply okp_weaken.
  - apply (okp_forM_fold (bst benv) cx
             (fun s' x' => frames m2 (b_mem benv s') [A_TMP] /\ b_flags benv s' = b_flags benv s2 /\
                           be_ev (b_env benv s') = ev /\ be_x (b_env benv s') = x')
             (seq 0 ns) _ (cpar_one i cfg1) s2 x6).
    + rewrite M2. split; [apply frames_refl|]. auto.
    + intros j s3 x7 Hj (F3 & G3 & V3 & X3). apply in_seq in Hj. carrys F3.
      eapply okp_weaken; [apply (pardone_one_ref i j cfg1 x7 s3); try assumption; lia|].
      intros s4 (F4 & G4 & V4 & X4). split; [eapply frames_trans; eassumption|]. repeat split; congruence.
  - intros s3 (F3 & G3 & V3 & X3). constructor; cbn [ca_cfg ca_tlf ca_x].
    + eapply frames_trans; [exact F02|]. eapply frames_mono; [exact F3 | cbv; tauto].
    + eapply rep_frames; [exact F3 | notin | assumption].
    + exact Bc1.
    + exact X3.
    + exact V3.
    + congruence.
Qed.

(* ------------------------------------------------------------------ ENTER_STATES *)
Lemma enter_loop_ref es ts sp ini fin ev m0 (s : bst benv) a :
  mem_shape c m0 -> rep WS (get m0 A_ENTRY) es -> bounded ns es -> rep WT (get m0 A_TRSET) ts -> bounded nt ts ->
  ent_rel sp ini fin ev m0 s a ->
  okp (forM (seq 0 ns) (b_enter_one cv benv (h_on_trans c) (h_on_entry c) (h_done c) bm) s)
      (fun s' => ent_rel sp ini fin ev m0 s' (fold_left (center_one cv c ts) es a)).
Proof.
  intros Hm Re Be Rt Bt Rel. rewrite (fold_sorted_seq (center_one cv c ts) es ns (rep_ssorted _ _ _ Re) Be).
  apply (okp_forM_fold (bst benv) center_acc (ent_rel sp ini fin ev m0)); [exact Rel|].
  intros i s1 a1 Hi R1. apply in_seq in Hi. apply enter_one_ref; try assumption. lia.
Qed.

End Micro.
Unset Default Proof Using.
