(* EngineEquivHistParMain.v -- C03 with <history> directly below <parallel>: the statements of the engine
   comparison for charts of wf_histpb (LegalHistParWf.v), on boolean hypotheses plus the history invariant HistOK,
   assembled from the EngineEquivHistPar* layers.  The dynamic guard is eq_guard_run_hist of EngineEquivHistRun.v,
   unchanged.  Proofs only. *)
From V Require Import Base NameMatch Chart Exec Large LargeLemmas Fast Interp Legal SetLemmas LegalAbstract LegalLarge
  LegalRun WfCore LegalOracle LargeCacheLemmas SelectConform SelectConformLemmas MicroConform MicroConformLemmas
  LegalHistBase LegalHistEntry LegalHistStep LegalHistRun LegalHistWf LegalHistOracle LegalHistFast LegalHistFastRun
  LegalHistParBase LegalHistParEntry LegalHistParStep LegalHistParRun LegalHistParWf LegalHistParFast LegalHistParFastRun LegalHistParOracle
  EngineEquivBase EngineEquivDone EngineEquivStep EngineEquivSelect EngineEquivRun EngineEquivMain
  EngineEquivHistEntry EngineEquivHistDone EngineEquivHistEnter EngineEquivHistMicro EngineEquivHistRun EngineEquivHistMain
  EngineEquivHistParEntry EngineEquivHistParDone EngineEquivHistParEnter EngineEquivHistParMicro EngineEquivHistParRun.
Local Open Scope nat_scope.

Lemma eq_chartb_histp_parts c : eq_chartb_histp c = true ->
  wf_histpb c = true /\ fs_type (st c 0) = FCompound /\ ssorted (fs_completion (st c 0)) /\
  leaf_okb c = true /\ par_nonemptyb c = true /\ trans_tableb c = true.
Proof.
  unfold eq_chartb_histp. intros H. apply andb_true_iff in H as [H H6]. apply andb_true_iff in H as [H H5].
  apply andb_true_iff in H as [H H4]. apply andb_true_iff in H as [H H3]. apply andb_true_iff in H as [H1 H2].
  split; [exact H1|]. split; [destruct (fs_type (st c 0)); try discriminate; reflexivity|].
  split; [now apply ascb_ssorted | tauto].
Qed.

(* 1. ESTABLISH_ENTRYSET *)
Lemma fast_large_entry_set_equiv_histp_lemma c cfg sel hist ts :
  wf_histpb c = true -> legal_configb c cfg = true ->
  (forall ti, In ti sel -> In (ft_source (tr c ti)) cfg) -> pairwise_ok lg_fixed c sel ->
  HistOK c hist -> ascb ts = true ->
  fentry_set c cfg (sel_exitset c cfg sel) hist (sel_targets c sel) ts =
  (no_initial c (fst (entry_set lg_fixed c cfg (sel_exitset c cfg sel) hist (sel_targets c sel) ts)),
   snd (entry_set lg_fixed c cfg (sel_exitset c cfg sel) hist (sel_targets c sel) ts)).
Proof.
  intros Hwf HL Hsrc Hok HH Hts. pose proof (wf_histpb_sound c Hwf) as W.
  exact (ehp_entry_set_sel c W cfg sel (legal_configb_sound_hp c W cfg HL) Hsrc Hok hist HH ts (ascb_ssorted _ Hts)).
Qed.

Lemma fast_large_entry_set_equiv_histp_initial_lemma c hist :
  wf_histpb c = true -> fs_type (st c 0) = FCompound -> ascb (fs_completion (st c 0)) = true -> HistOK c hist ->
  fentry_set c [] [] hist (fs_completion (st c 0)) [] =
  (no_initial c (fst (entry_set lg_fixed c [] [] hist (fs_completion (st c 0)) [])),
   snd (entry_set lg_fixed c [] [] hist (fs_completion (st c 0)) [])).
Proof.
  intros Hwf Hr Hs HH. exact (ehp_entry_set_init c (wf_histpb_sound c Hwf) hist HH Hr (ascb_ssorted _ Hs)).
Qed.

(* without <initial> pseudo-states in the large entry set the two are literally equal *)
Lemma fast_large_entry_set_equiv_histp_literal_lemma c cfg sel hist ts :
  wf_histpb c = true -> legal_configb c cfg = true ->
  (forall ti, In ti sel -> In (ft_source (tr c ti)) cfg) -> pairwise_ok lg_fixed c sel ->
  HistOK c hist -> ascb ts = true ->
  forallb (fun i => negb (is_initialb c i)) (fst (entry_set lg_fixed c cfg (sel_exitset c cfg sel) hist (sel_targets c sel) ts)) = true ->
  fentry_set c cfg (sel_exitset c cfg sel) hist (sel_targets c sel) ts =
  entry_set lg_fixed c cfg (sel_exitset c cfg sel) hist (sel_targets c sel) ts.
Proof.
  intros Hwf HL Hsrc Hok HH Hts Hno.
  rewrite (fast_large_entry_set_equiv_histp_lemma c cfg sel hist ts Hwf HL Hsrc Hok HH Hts).
  rewrite (surjective_pairing (entry_set lg_fixed c cfg (sel_exitset c cfg sel) hist (sel_targets c sel) ts)) at 3.
  f_equal. unfold no_initial. apply filter_all_true. now apply forallb_forall.
Qed.

(* 3. the default transitions executed when a state is entered: the same list in both engines, of length <= 1 *)
Lemma fast_large_default_transitions_equiv_histp_lemma c cfg sel hist i :
  wf_histpb c = true -> trans_tableb c = true -> legal_configb c cfg = true ->
  (forall ti, In ti sel -> In (ft_source (tr c ti)) cfg) -> pairwise_ok lg_fixed c sel ->
  HistOK c hist -> ascb sel = true -> plain_transb c sel = true ->
  let ts := snd (entry_set lg_fixed c cfg (sel_exitset c cfg sel) hist (sel_targets c sel) sel) in
  dflt_fast c ts i = dflt_large c ts i /\ length (dflt_fast c ts i) <= 1.
Proof.
  intros Hwf Htab HL Hsrc Hok HH Hs Hplain ts. pose proof (wf_histpb_sound c Hwf) as W.
  destruct (ehp_entry_rel_sel c W cfg sel (legal_configb_sound_hp c W cfg HL) Hsrc Hok hist HH sel (ascb_ssorted _ Hs))
    as (_ & HLi & _ & _ & HTs).
  split.
  - exact (ehp_dflt_eq c W (eh_trans_nodup c Htab) cfg _ _ sel _ _ Hplain HLi HTs i).
  - exact (ehp_dflt_fast_le1 c W cfg _ _ sel _ _ Hplain HLi HTs i).
Qed.

(* 4. one microstep from the same selection *)
Lemma fast_large_microstep_equiv_histp_lemma xv c lf ll x sel :
  wf_histpb c = true -> leaf_okb c = true -> par_nonemptyb c = true -> trans_tableb c = true ->
  lstate_eqv c lf ll -> legal_configb c (l_cfg ll) = true -> HistOK c (l_hist ll) ->
  ascb (l_cfg ll) = true -> ascb (l_hist ll) = true ->
  (forall ti, In ti sel -> In (ft_source (tr c ti)) (l_cfg ll)) -> pairwise_ok lg_fixed c sel -> ascb sel = true ->
  plain_transb c sel = true ->
  ms_guardb_hist c ll (sel_targets c sel) (sel_exitset c (l_cfg ll) sel) sel false = true ->
  lstate_eqv c (fst (fmicrostep xv c lf x (sel_targets c sel) (sel_exitset c (l_cfg ll) sel) sel false))
               (fst (microstep lg_fixed xv c ll x (sel_targets c sel) (sel_exitset c (l_cfg ll) sel) sel false)) /\
  snd (fmicrostep xv c lf x (sel_targets c sel) (sel_exitset c (l_cfg ll) sel) sel false) =
  snd (microstep lg_fixed xv c ll x (sel_targets c sel) (sel_exitset c (l_cfg ll) sel) sel false).
Proof.
  intros Hwf Hleaf Hpar Htab Hrel HL HH Hasc Hhasc Hsrc Hok Hsel Hplain Hg. pose proof (wf_histpb_sound c Hwf) as W.
  exact (ehp_microstep_sel xv c Hwf Hleaf Hpar Htab lf ll x sel Hrel (legal_configb_sound_hp c W _ HL) HH
           (ascb_ssorted _ Hasc) (ascb_ssorted _ Hhasc) Hsrc Hok (ascb_ssorted _ Hsel) Hplain Hg).
Qed.

Lemma fast_large_initial_microstep_equiv_histp_lemma xv c lf ll x :
  eq_chartb_histp c = true -> lstate_eqv c lf ll -> l_cfg ll = [] -> HistOK c (l_hist ll) -> ascb (l_hist ll) = true ->
  ms_guardb_hist c ll (fs_completion (st c 0)) [] [] true = true ->
  lstate_eqv c (fst (fmicrostep xv c lf x (fs_completion (st c 0)) [] [] true))
               (fst (microstep lg_fixed xv c ll x (fs_completion (st c 0)) [] [] true)) /\
  snd (fmicrostep xv c lf x (fs_completion (st c 0)) [] [] true) =
  snd (microstep lg_fixed xv c ll x (fs_completion (st c 0)) [] [] true).
Proof.
  intros Hc Hrel Hnil HH Hh Hg. destruct (eq_chartb_histp_parts c Hc) as (Hwf & Hr & Hrs & Hleaf & Hpar & Htab).
  exact (ehp_microstep_init xv c Hwf Hleaf Hpar Htab Hr Hrs lf ll x Hrel Hnil HH (ascb_ssorted _ Hh) Hg).
Qed.

(* 5. SELECT_TRANSITIONS *)
Lemma fast_large_select_equiv_histp_lemma c cfg ev x :
  wf_histpb c = true -> trans_tableb c = true -> ascb cfg = true -> (forall s, In s cfg -> s < nstates c) ->
  sel_guardb c cfg ev (cfg_postfix c cfg) None [] x = true ->
  fselect c cfg ev (seq 0 (ntrans c)) [] x = select_loop lg_fixed c cfg ev (cfg_postfix c cfg) None [] x.
Proof.
  intros Hwf Htab Hasc Hb Hg. pose proof (ssorted_NoDup _ (ascb_ssorted _ Hasc)) as Hnd.
  apply (ehps_select_eq c (wf_histpb_sound c Hwf) cfg ev x Hnd); [|exact Hg]. now apply ee_cand_ok.
Qed.

(* 6. step() *)
Lemma fast_large_step_equiv_histp_lemma xv c lf ll x :
  eq_chartb_histp c = true -> lstate_eqv c lf ll -> CfgOKH c ll -> ascb (l_cfg ll) = true -> ascb (l_hist ll) = true ->
  step_guardb_hist c ll x = true ->
  res_eqv c (fast_step xv c lf x) (large_step lg_fixed xv c ll x).
Proof.
  intros Hc Hrel HOK Hasc Hhasc Hg. destruct (eq_chartb_histp_parts c Hc) as (Hwf & Hr & Hrs & Hleaf & Hpar & Htab).
  apply (ehp_step_rel xv c Hwf Hr Hrs Hleaf Hpar Htab lf ll x Hrel); [|exact Hg].
  split; [exact HOK|]. split; now apply ascb_ssorted.
Qed.

(* 7. runs from the pristine state *)
Lemma fast_large_run_equiv_histp_lemma xv c fuel evs :
  eq_chartb_histp c = true -> eq_guard_run_hist xv c fuel l_pristine x_init evs = true ->
  lstate_eqv c (fst (run_loop c lstate (fast_step xv c) l_cfg fuel l_pristine x_init evs))
               (fst (run_loop c lstate (large_step lg_fixed xv c) l_cfg fuel l_pristine x_init evs)) /\
  snd (run_loop c lstate (fast_step xv c) l_cfg fuel l_pristine x_init evs) =
  snd (run_loop c lstate (large_step lg_fixed xv c) l_cfg fuel l_pristine x_init evs).
Proof.
  intros Hc Hg. destruct (eq_chartb_histp_parts c Hc) as (Hwf & Hr & Hrs & Hleaf & Hpar & Htab).
  apply (ehp_run_rel xv c Hwf Hr Hrs Hleaf Hpar Htab fuel l_pristine l_pristine x_init evs); try assumption.
  - apply lstate_eqv_refl.
  - apply ehp_pristine_ok.
Qed.

(* the observable behaviour: trace and datamodel *)
Lemma fast_large_trace_equiv_histp_lemma xv late t evs fuel :
  eq_chartb_histp (flatten late t) = true -> eq_guard_run_hist xv (flatten late t) fuel l_pristine x_init evs = true ->
  run_fast xv late t evs fuel = run_large lg_fixed xv late t evs fuel.
Proof.
  intros Hc Hg. unfold run_fast, run_large. cbn zeta.
  destruct (fast_large_run_equiv_histp_lemma xv (flatten late t) fuel evs Hc Hg) as [_ E].
  destruct (run_loop (flatten late t) lstate (fast_step xv (flatten late t)) l_cfg fuel l_pristine x_init evs) as [lf xf].
  destruct (run_loop (flatten late t) lstate (large_step lg_fixed xv (flatten late t)) l_cfg fuel l_pristine x_init evs) as [ll xl].
  cbn [snd] in E. now subst xf.
Qed.

(* every chart of the wf_histb theorems is inside *)
Lemma eq_chartb_hist_histp c : eq_chartb_hist c = true -> eq_chartb_histp c = true.
Proof.
  unfold eq_chartb_hist, eq_chartb_histp. intros H. apply andb_true_iff in H as [H H6]. apply andb_true_iff in H as [H H5].
  apply andb_true_iff in H as [H H4]. apply andb_true_iff in H as [H H3]. apply andb_true_iff in H as [H1 H2].
  rewrite (wf_histb_histpb c H1), H2, H3, H4, H5, H6. reflexivity.
Qed.
