(* JsonEventLemmas.v -- Event -> Data -> Event is the identity for the repaired operator Data(). *)
From V Require Import Base Jsmn Json.
From Coq Require Import Lia.
Local Open Scope N_scope.

Lemma beqb_refl a : beq_bytes a a = true.
Proof. induction a as [|x a IH]; cbn; [reflexivity|]. now rewrite N.eqb_refl, IH. Qed.

Lemma beqb_eq a b : beq_bytes a b = true <-> a = b.
Proof.
  revert b; induction a as [|x a IH]; intros [|y b]; cbn; split; intro H; try easy.
  - apply andb_true_iff in H as [H1 H2]. apply N.eqb_eq in H1. apply IH in H2. now subst.
  - inversion H; subst. now rewrite N.eqb_refl, beqb_refl.
Qed.

Lemma beqb_neq a b : a <> b -> beq_bytes a b = false.
Proof. intros H. destruct (beq_bytes a b) eqn:E; [|reflexivity]. apply beqb_eq in E. contradiction. Qed.

Section MapLemmas.
Context {A : Type}.

Lemma map_find_set_same k (x : A) m : map_find k (map_set k x m) = Some x.
Proof.
  induction m as [|[k' v'] r IH]; cbn; [now rewrite beqb_refl|].
  destruct (beq_bytes k k') eqn:E; cbn; [now rewrite beqb_refl|].
  destruct (bytes_ltb k k'); cbn; [now rewrite beqb_refl|]. now rewrite E.
Qed.

Lemma map_find_set_other k1 k2 (x : A) m : k1 <> k2 -> map_find k1 (map_set k2 x m) = map_find k1 m.
Proof.
  intros H. induction m as [|[k' v'] r IH]; cbn; [now rewrite (beqb_neq _ _ H)|].
  destruct (beq_bytes k2 k') eqn:E; cbn.
  - apply beqb_eq in E. subst k'. now rewrite (beqb_neq _ _ H).
  - destruct (bytes_ltb k2 k'); cbn; [now rewrite (beqb_neq _ _ H)|].
    destruct (beq_bytes k1 k'); [reflexivity|exact IH].
Qed.

(* inserting the elements of a multimap in its own order rebuilds it *)
Lemma mmap_insert_last k (x : A) acc :
  forallb (fun kv => negb (bytes_ltb k (fst kv))) acc = true -> mmap_insert k x acc = acc ++ [(k, x)].
Proof.
  induction acc as [|[k' v'] r IH]; cbn; [reflexivity|].
  intros H. apply andb_true_iff in H as [H1 H2]. apply negb_true_iff in H1. rewrite H1. now rewrite IH.
Qed.

Lemma sorted_le_app_inv (acc : list (bytes * A)) k x rest :
  keys_sorted_le (acc ++ (k, x) :: rest) = true ->
  forallb (fun kv => negb (bytes_ltb k (fst kv))) acc = true.
Proof.
  induction acc as [|[k' v'] r IH]; cbn; [reflexivity|].
  intros H. apply andb_true_iff in H as [H1 H2]. rewrite forallb_app in H1.
  apply andb_true_iff in H1 as [_ H1]. cbn in H1. apply andb_true_iff in H1 as [H1 _].
  rewrite H1. cbn. now apply IH.
Qed.
End MapLemmas.

Definition param_entry (p : bytes * data) : data := D false [] [] [(fst p, snd p)].

Definition params_step (d : data) (p : bytes * data) : data :=
  match get_comp d k_params with
  | D vb a l m => set_comp d k_params (D vb a (l ++ [param_entry p]) m)
  end.

Lemma d_comp_set_comp d k x : d_comp (set_comp d k x) = map_set k x (d_comp d).
Proof. now destruct d. Qed.

Lemma params_fold_other ps : forall d k, k <> k_params ->
  map_find k (d_comp (fold_left params_step ps d)) = map_find k (d_comp d).
Proof.
  induction ps as [|p ps IH]; intros d k H; cbn [fold_left]; [reflexivity|].
  rewrite IH by exact H. unfold params_step. destruct (get_comp d k_params) as [vb a l m].
  rewrite d_comp_set_comp. now apply map_find_set_other.
Qed.

Lemma params_fold_params ps : forall d vb a l m,
  get_comp d k_params = D vb a l m -> ps <> [] ->
  map_find k_params (d_comp (fold_left params_step ps d)) = Some (D vb a (l ++ map param_entry ps) m).
Proof.
  induction ps as [|p ps IH]; intros d vb a l m G H; [congruence|].
  cbn [fold_left map].
  assert (G' : get_comp (params_step d p) k_params = D vb a (l ++ [param_entry p]) m).
  { unfold params_step. rewrite G. unfold get_comp. rewrite d_comp_set_comp. now rewrite map_find_set_same. }
  destruct ps as [|p' ps'].
  - cbn [fold_left map]. unfold get_comp in G'.
    destruct (map_find k_params (d_comp (params_step d p))) eqn:E.
    + now subst.
    + exfalso. unfold params_step in E. rewrite G in E. rewrite d_comp_set_comp, map_find_set_same in E. discriminate.
  - rewrite (IH _ _ _ _ _ G') by discriminate. now rewrite <- app_assoc.
Qed.

Definition params_rebuild_step (acc : outcome (list (bytes * data))) (x : data) :=
  match acc with
  | Ok ps => match d_comp x with
             | (k, c) :: _ => Ok (mmap_insert k c ps)
             | [] => Oob 5
             end
  | o => o
  end.

Lemma params_rebuild ps : forall acc,
  keys_sorted_le (acc ++ ps) = true ->
  fold_left params_rebuild_step (map param_entry ps) (Ok acc) = Ok (acc ++ ps).
Proof.
  induction ps as [|[k c] ps IH]; intros acc H; cbn [map fold_left]; [now rewrite app_nil_r|].
  cbn. rewrite mmap_insert_last by (eapply sorted_le_app_inv; exact H).
  rewrite IH; rewrite <- app_assoc; [reflexivity|exact H].
Qed.

Lemma digit_roundtrip n : 1 <= n -> n <= 3 -> str_digit (digit_str n) = n.
Proof.
  intros H1 H2. unfold str_digit, digit_str.
  destruct (N.leb_spec 48 (48 + n)); [|lia]. destruct (N.leb_spec (48 + n) 57); [|lia]. cbn [andb]. lia.
Qed.

Lemma event_to_data_fixed e :
  event_to_data js_fixed e =
  fold_left params_step (ev_params e)
    (D false [] []
       [(k_data, ev_data e); (k_eventType, str_data (digit_str (ev_type e)));
        (k_hideSendId, str_data (digit_str (if ev_hide e then 1 else 0)));
        (k_invokeid, str_data (ev_invokeid e)); (k_name, str_data (ev_name e));
        (k_namelist, D false [] [] (ev_namelist e)); (k_origin, str_data (ev_origin e));
        (k_origintype, str_data (ev_origintype e)); (k_raw, str_data (ev_raw e));
        (k_sendid, str_data (ev_sendid e)); (k_uuid, str_data (ev_uuid e))]).
Proof. reflexivity. Qed.

Lemma event_roundtrip_lemma e :
  wf_event e = true -> event_from_data (event_to_data js_fixed e) = Ok e.
Proof.
  intros W. unfold wf_event in W.
  repeat (apply andb_true_iff in W as [W ?]).
  rewrite event_to_data_fixed.
  set (base := D false [] [] _).
  unfold event_from_data.
  assert (Hfind : forall k, k <> k_params ->
             map_find k (d_comp (fold_left params_step (ev_params e) base)) = map_find k (d_comp base)).
  { intros k Hk. now apply params_fold_other. }
  rewrite (Hfind k_name), (Hfind k_raw), (Hfind k_eventType), (Hfind k_origin), (Hfind k_origintype),
    (Hfind k_sendid), (Hfind k_hideSendId), (Hfind k_invokeid), (Hfind k_uuid), (Hfind k_data), (Hfind k_namelist)
    by (let X := fresh in intro X; vm_compute in X; discriminate X).
  assert (Hp : match map_find k_params (d_comp (fold_left params_step (ev_params e) base)) with
               | None => Ok []
               | Some p => fold_left params_rebuild_step (d_arr p) (Ok [])
               end = Ok (ev_params e)).
  { destruct (ev_params e) as [|p ps] eqn:Ep.
    - reflexivity.
    - rewrite (params_fold_params (p :: ps) base false [] [] []); [|reflexivity|discriminate].
      cbn [d_arr app]. apply (params_rebuild (p :: ps) []). exact H. }
  change (fun (acc : outcome (list (bytes * data))) (x : data) =>
            match acc with
            | Ok ps => match d_comp x with
                       | (k, c) :: _ => Ok (mmap_insert k c ps)
                       | [] => Oob 5
                       end
            | o => o
            end) with params_rebuild_step.
  rewrite Hp.
  unfold base; cbn [d_comp map_find beq_bytes k_data k_raw k_name k_eventType k_origin k_origintype k_sendid
                    k_hideSendId k_invokeid k_uuid k_namelist N.eqb Pos.eqb andb d_atom str_data].
  rewrite digit_roundtrip by (apply N.leb_le; assumption).
  destruct e as [nm rw ty og ot si hd ii uu da nl ps]; cbn in *.
  f_equal. f_equal. destruct hd; reflexivity.
Qed.

Definition ex_event : event :=
  {| ev_name := [102]; ev_raw := [114]; ev_type := 3; ev_origin := []; ev_origintype := []; ev_sendid := [115];
     ev_hide := true; ev_invokeid := []; ev_uuid := [117];
     ev_data := D false [] [] [([97], str_data [98])];
     ev_namelist := [([110], num_data [49])];
     ev_params := [([112], num_data [49]); ([112], num_data [48]); ([113], str_data [])] |}.
Example wf_event_example : wf_event ex_event = true.
Proof. reflexivity. Qed.
