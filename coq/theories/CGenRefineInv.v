(* CGenRefineInv.v -- C04, data refinement: what the set level of CGen.v keeps invariant (needed to read its lists back
   from bit arrays of the emitted size): the configuration, the history, the entry set are lists of state indices below
   the number of states, the selected / taken transitions lists of transition indices below the number of transitions;
   the configuration holds no pseudo-state; a state that was never stepped has an empty configuration; the flags.
   Set level only.  Proofs only. *)
From V Require Import Base NameMatch Chart Exec Large Fast GenCGen CGen CGenLemmas SetLemmas SerializeCodecLemmas
                      CGenRefineBits CGenRefineTables CGenRefineSelect.
From Coq Require Import Lia Sorted ZifyBool.
Local Open Scope nat_scope.

Lemma fold_left_inv {A B} (P : A -> Prop) (f : A -> B -> A) (l : list B) :
  forall a, P a -> (forall a k, In k l -> P a -> P (f a k)) -> P (fold_left f l a).
Proof.
  induction l as [|k r IH]; intros a Ha H; cbn [fold_left]; [exact Ha|].
  apply IH; [apply H; [now left | exact Ha]|]. intros b j Hj Hb. apply H; [now right | exact Hb].
Qed.

Lemma bounded_union n a b : bounded n a -> bounded n b -> bounded n (set_union a b).
Proof.
  intros A B. apply bounded_intro. intros x Hx. apply In_set_union in Hx as [Hx|Hx]; [apply (bounded_in _ _ _ A Hx) | apply (bounded_in _ _ _ B Hx)].
Qed.
Lemma bounded_sub n a b : (forall x, In x a -> In x b) -> bounded n b -> bounded n a.
Proof. intros S B. apply bounded_intro. intros x Hx. apply (bounded_in _ _ _ B), S, Hx. Qed.
Lemma bounded_insert n x l : x < n -> bounded n l -> bounded n (insert_sorted x l).
Proof. intros Hx B. apply bounded_intro. intros y Hy. apply In_insert_sorted' in Hy as [->|Hy]; [exact Hx | apply (bounded_in _ _ _ B Hy)]. Qed.
Lemma bounded_fold_union {A} n (f : A -> list nat) l acc :
  bounded n acc -> (forall k, In k l -> bounded n (f k)) -> bounded n (fold_left (fun a k => set_union a (f k)) l acc).
Proof. intros Ha H. apply fold_left_inv; [exact Ha|]. intros a k Hk Pa. apply bounded_union; [exact Pa | now apply H]. Qed.
Lemma bounded_nil n : bounded n [].
Proof. constructor. Qed.

Section Inv.
Variable cv : cg_variant.
Variable c : fchart.
Notation ns := (nstates c).
Notation nt := (ntrans c).

Hypothesis Hns : (N.of_nat ns < 2 ^ 24)%N.
Hypothesis Hnt : (N.of_nat nt < 2 ^ 24)%N.
Hypothesis Hok : bref_chartb c = true.
Set Default Proof Using "cv Hns Hnt Hok".

Notation Banc := (ancestors_bounded cv c Hns Hnt Hok).
Notation Bcpl := (ccompl_bounded cv c Hns Hnt Hok).
Notation Btg := (targets_bounded cv c Hns Hnt Hok).

(* ---- selection ---- *)
Lemma cselect_sub cfg ev : forall ts sel s, In s (cselect c cfg ev ts sel) -> In s sel \/ In s ts.
Proof.
  induction ts as [|ti r IH]; intros sel s H; [now left|].
  rewrite (cselect_cons cv c Hns Hnt Hok) in H. apply IH in H as [H|H]; [|right; now right].
  destruct (csel1_cases cv c Hns Hnt Hok cfg ev ti sel) as [E|[E _]]; rewrite E in H; [now left|].
  apply in_app_or in H as [H|[<-|[]]]; [now left | right; now left].
Qed.

Lemma cselect_all_bounded cfg ev : bounded nt (cselect_all c cfg ev).
Proof.
  apply bounded_intro. intros s Hs. apply cselect_sub in Hs as [[]|Hs]. apply in_seq in Hs. lia.
Qed.

Lemma ctargets_bounded sel : bounded ns (ctargets c sel).
Proof. unfold ctargets. apply bounded_fold_union; [apply bounded_nil|]. intros k _. apply Btg. Qed.

Lemma cexitset_sub cfg sel x : In x (cexitset c cfg sel) -> In x cfg.
Proof.
  unfold cexitset. intros H. apply In_fold_union in H as [[]|(t & _ & H)].
  unfold exit_states_of in H. destruct (exit_interval lg_fixed c (tr c t)) as [f s].
  destruct ((f =? 0) && (s =? 0) && negb (lg_targetless_exits_root lg_fixed)); [destruct H|].
  apply filter_In in H. tauto.
Qed.

(* ---- history ---- *)
Lemma cremember_bounded cfg exitset hist : bounded ns cfg -> bounded ns hist -> bounded ns (cremember cv c cfg exitset hist).
Proof.
  intros Bc Bh. unfold cremember. apply fold_left_inv; [exact Bh|]. intros h i _ Ph.
  destruct (is_hist (fs_type (st c i)) && _); [|exact Ph].
  apply bounded_union.
  - eapply bounded_sub; [|exact Ph]. intros x Hx. apply In_set_diff in Hx. tauto.
  - eapply bounded_sub; [|exact Bc]. intros x Hx. apply In_set_inter in Hx. tauto.
Qed.

(* ---- entry set ---- *)
Lemma first_trans_lt i ti : first_trans_from c i = Some ti -> ti < nt.
Proof. unfold first_trans_from. intros H. apply find_some in H as [H _]. apply in_seq in H. lia. Qed.

Lemma cdescend_one_bounded cfg exitset hist es ts i :
  bounded ns es -> bounded nt ts ->
  bounded ns (fst (cdescend_one cv c cfg exitset hist (es, ts) i)) /\ bounded nt (snd (cdescend_one cv c cfg exitset hist (es, ts) i)).
Proof.
  intros Be Bt. unfold cdescend_one.
  destruct (negb (mem i es)); [split; assumption|].
  assert (Hdef : forall deep : bool,
            let r := match first_trans_from c i with
                     | None => (es, ts)
                     | Some ti =>
                       (if deep then
                          if negb (intersects (ft_targets (tr c ti)) (fs_children (st c i)))
                          then fold_left (fun a k => set_union a (fs_ancestors (st c k))) (filter (fun k => i <? k) (ft_targets (tr c ti)))
                                         (set_union es (ft_targets (tr c ti)))
                          else set_union es (ft_targets (tr c ti))
                        else set_union es (ft_targets (tr c ti)), insert_sorted ti ts)
                     end in bounded ns (fst r) /\ bounded nt (snd r)).
  { intros deep. cbv zeta. destruct (first_trans_from c i) as [ti|] eqn:F; [|split; assumption]. cbn [fst snd]. split.
    - assert (B1 : bounded ns (set_union es (ft_targets (tr c ti)))) by (apply bounded_union; [exact Be | apply Btg]).
      destruct deep; [|exact B1]. destruct (negb _); [|exact B1]. apply bounded_fold_union; [exact B1|]. intros k _. apply Banc.
    - apply bounded_insert; [now apply (first_trans_lt i) | exact Bt]. }
  destruct (fs_type (st c i)) eqn:Et; cbn [fst snd]; try (split; assumption).
  - (* compound *)
    destruct (negb (intersects es (fs_children (st c i))) && _); [|split; assumption].
    assert (B1 : bounded ns (set_union es (ccompl cv c i))) by (apply bounded_union; [exact Be | apply Bcpl]).
    destruct (negb _); cbn [fst snd]; (split; [|exact Bt]); [|exact B1].
    apply bounded_fold_union; [exact B1|]. intros k _. apply Banc.
  - (* parallel *)
    split; [|exact Bt]. apply bounded_union; [exact Be | apply Bcpl].
  - (* shallow *)
    destruct (negb (intersects (ccompl cv c i) hist) && _).
    + apply (Hdef false).
    + cbn [fst snd]. split; [|exact Bt]. apply bounded_union; [exact Be|].
      eapply bounded_sub; [|apply (Bcpl i)]. intros x Hx. apply In_set_inter in Hx. tauto.
  - (* deep *)
    destruct (negb (intersects (ccompl cv c i) hist) && _).
    + apply (Hdef true).
    + cbn [fst snd]. split; [|exact Bt].
      assert (B1 : bounded ns (set_union es (set_inter (ccompl cv c i) hist))).
      { apply bounded_union; [exact Be|]. eapply bounded_sub; [|apply (Bcpl i)]. intros x Hx. apply In_set_inter in Hx. tauto. }
      destruct (has_history c i); [|exact B1].
      apply fold_left_inv; [exact B1|]. intros e j _ Pe. destruct (_ && _); [|exact Pe].
      apply fold_left_inv; [exact Pe|]. intros e' k Hk Pe'. destruct (_ && _); [|exact Pe'].
      apply bounded_insert; [|exact Pe']. apply in_seq in Hk. unfold cn in Hk. lia.
  - (* initial *)
    apply (fold_left_inv (fun a : list nat * list nat => bounded ns (fst a) /\ bounded nt (snd a))); [split; assumption|].
    intros a ti Hti [Pa Pb]. destruct (ft_source (tr c ti) =? i); [|split; assumption]. cbn [fst snd]. split.
    + apply fold_left_inv.
      * apply bounded_union; [|apply Btg]. eapply bounded_sub; [|exact Pa]. intros x Hx. apply In_set_remove in Hx. tauto.
      * intros e k _ Pe. destruct (i <? k); [|exact Pe]. apply bounded_union; [exact Pe | apply Banc].
    + apply bounded_insert; [|exact Pb]. apply in_seq in Hti. lia.
Qed.

Lemma add_ancestors_bounded targets : bounded ns targets -> bounded ns (add_ancestors c targets).
Proof. intros B. unfold add_ancestors. apply bounded_fold_union; [exact B|]. intros k _. apply Banc. Qed.

Lemma centry_set_bounded cfg exitset hist targets transset :
  bounded ns targets -> bounded nt transset ->
  bounded ns (fst (centry_set cv c cfg exitset hist targets transset)) /\
  bounded nt (snd (centry_set cv c cfg exitset hist targets transset)).
Proof.
  intros Bg Bt. unfold centry_set.
  apply (fold_left_inv (fun a : list nat * list nat => bounded ns (fst a) /\ bounded nt (snd a))).
  - split; [now apply add_ancestors_bounded | exact Bt].
  - intros [es ts] i _ [Pa Pb]. now apply cdescend_one_bounded.
Qed.

(* ---- exit, enter ---- *)
Lemma cexit_sub l : forall cfg x y, In y (fst (fold_left (cexit_one c) l (cfg, x))) -> In y cfg.
Proof.
  intros cfg x y. rewrite cexit_cfg. revert cfg. induction l as [|i r IH]; intros cfg H; cbn [fold_left] in H; [exact H|].
  apply IH in H. apply In_set_remove in H. tauto.
Qed.

Lemma center_fold_inv ts es a :
  bounded ns es -> bounded ns (ca_cfg a) -> no_pseudo c (ca_cfg a) ->
  bounded ns (ca_cfg (fold_left (center_one cv c ts) es a)) /\ no_pseudo c (ca_cfg (fold_left (center_one cv c ts) es a)).
Proof.
  intros Be Ba Na. apply (fold_left_inv (fun a => bounded ns (ca_cfg a) /\ no_pseudo c (ca_cfg a))); [split; assumption|].
  intros b i Hi [Pb Nb]. unfold center_one.
  destruct (mem i (ca_cfg b)); [split; assumption|].
  destruct (is_pseudo (fs_type (st c i))) eqn:Ps; [split; assumption|].
  assert (G : bounded ns (insert_sorted i (ca_cfg b)) /\ no_pseudo c (insert_sorted i (ca_cfg b))).
  { split; [apply bounded_insert; [apply (bounded_in _ _ _ Be Hi) | exact Pb]|].
    intros y Hy. apply In_insert_sorted' in Hy as [->|Hy]; [exact Ps | now apply Nb]. }
  destruct (fs_type (st c i)); exact G.
Qed.

(* ---- states ---- *)
Record linv (l : lstate) : Prop := {
  li_bcfg : bounded ns (l_cfg l);
  li_np : no_pseudo c (l_cfg l);
  li_bhist : bounded ns (l_hist l);
  li_pristine : is_pristine l = true -> l_cfg l = [];
  li_stable : l_stable l = false;
  li_init : is_pristine l = false -> l_init l = true
}.

Lemma linv_pristine : linv l_pristine.
Proof. constructor; cbn; auto; try apply bounded_nil; try discriminate. intros i []. Qed.

Lemma cmicrostep_linv l x targets exitset transset initial :
  linv l -> bounded ns targets -> bounded nt transset ->
  linv (fst (cmicrostep cv c l x targets exitset transset initial)).
Proof.
  intros [Bc Np Bh _ St _] Bg Bt. unfold cmicrostep.
  set (hist := if initial then l_hist l else cremember cv c (l_cfg l) exitset (l_hist l)).
  assert (Bh' : bounded ns hist) by (unfold hist; destruct initial; [exact Bh | now apply cremember_bounded]).
  destruct (centry_set_bounded (l_cfg l) exitset hist targets transset Bg Bt) as [Be Bt'].
  destruct (centry_set cv c (l_cfg l) exitset hist targets transset) as [es ts]. cbn [fst snd] in *.
  pose proof (cexit_sub (rev exitset) (l_cfg l) x) as Sub.
  destruct (fold_left (cexit_one c) (rev exitset) (l_cfg l, x)) as [cfg1 x1]. cbn [fst] in Sub.
  destruct (center_fold_inv ts es {| ca_cfg := cfg1; ca_tlf := l_tlf l; ca_x := fold_left (ctake_one c cfg1) ts x1 |} Be) as [B2 N2]; cbn [ca_cfg].
  - eapply bounded_sub; [exact Sub | exact Bc].
  - intros y Hy. apply Np, Sub, Hy.
  - cbn [fst]. constructor; cbn [l_cfg l_hist l_stable l_init]; try assumption; try reflexivity.
    intros P. unfold is_pristine in P. cbn in P. discriminate.
Qed.

Lemma with_spont_linv l : linv l -> l_init l = true -> linv (with_spont l false).
Proof.
  intros [Bc Np Bh Pr St In] Hi. constructor; cbn [with_spont l_cfg l_hist l_stable l_init]; try assumption.
  - intros P. unfold is_pristine in P. cbn [with_spont l_spont l_init l_tlf l_fin l_stable] in P. rewrite Hi in P.
    destruct (l_tlf l), (l_fin l), (l_stable l); discriminate.
  - intros _. exact Hi.
Qed.

Lemma cfire_linv l x sel : linv l -> bounded nt sel -> linv (fst (fst (cfire cv c l x sel))).
Proof.
  intros Hl Bs. unfold cfire.
  pose proof (cmicrostep_linv l x (ctargets c sel) (cexitset c (l_cfg l) sel) sel false Hl (ctargets_bounded sel) Bs) as H.
  destruct (cmicrostep cv c l x (ctargets c sel) (cexitset c (l_cfg l) sel) sel false) as [l1 x1]. exact H.
Qed.

Lemma cscan_sel cfg : forall q out sel r out', cscan c cfg q out = (Some sel, r, out') -> bounded nt sel.
Proof.
  induction q as [|e q IH]; intros out sel r out' H; cbn [cscan] in H; [discriminate|].
  destruct (cselect_all c cfg (Some e)) as [|s0 sel0] eqn:E; [eapply IH; exact H|].
  inversion H; subst. rewrite <- E. apply cselect_all_bounded.
Qed.

Lemma cdequeue_linv l x : linv l -> l_init l = true -> linv (fst (fst (cdequeue cv c l x))).
Proof.
  intros Hl Hi. unfold cdequeue.
  destruct (cscan c (l_cfg l) (cx_iq x) (cx_out x)) as [[[sel|] r] out] eqn:S1.
  - apply cfire_linv; [exact Hl | eapply cscan_sel; exact S1].
  - destruct (cscan c (l_cfg l) (cx_eq x) out) as [[[sel|] r'] out'] eqn:S2.
    + apply cfire_linv; [exact Hl | eapply cscan_sel; exact S2].
    + cbn [fst]. now apply with_spont_linv.
Qed.

Lemma cgen_step_linv l x : linv l -> linv (fst (fst (cgen_step cv c l x))).
Proof.
  intros Hl. unfold cgen_step.
  destruct (l_fin l) eqn:Ef; [exact Hl|].
  destruct (l_tlf l) eqn:Et.
  { cbn [fst]. destruct Hl as [Bc Np Bh Pr St In]. constructor; cbn [l_cfg l_hist l_stable l_init]; try assumption.
    - intros P. unfold is_pristine in P. cbn [l_spont l_init l_tlf l_fin l_stable] in P.
      destruct (l_spont l), (l_init l), (l_stable l); discriminate.
    - intros _. apply In. unfold is_pristine. rewrite Et. destruct (l_spont l), (l_init l); reflexivity. }
  destruct (is_pristine l) eqn:Ep.
  { pose proof (cmicrostep_linv l x (fs_completion (st c 0)) [] [] true Hl (completion_bounded cv c Hns Hnt Hok 0) (bounded_nil _)) as H.
    destruct (cmicrostep cv c l x (fs_completion (st c 0)) [] [] true) as [l1 x1]. exact H. }
  pose proof (li_init l Hl Ep) as Hi.
  destruct (l_spont l).
  - destruct (cselect_all c (l_cfg l) None) as [|s0 sel0] eqn:E.
    + apply cdequeue_linv; [now apply with_spont_linv | exact Hi].
    + apply cfire_linv; [exact Hl|]. rewrite <- E. apply cselect_all_bounded.
  - now apply cdequeue_linv.
Qed.

End Inv.
Unset Default Proof Using.
