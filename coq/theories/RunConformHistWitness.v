(* RunConformHistWitness.v -- C01 on charts with <history>: the hypotheses of run_conforms_history are satisfiable by a
   non-trivial document (a deep and a shallow history in different sub-trees, executable content on a default
   transition, a run that enters through both histories without and with a recorded value), and the new static
   conditions cannot be dropped (witnesses by computation) -- except leaf_okb, for which no deviation is known
   (the example at the end conforms although it violates it).  A transition that names the same <history> twice
   conforms (Spec.v keeps defaultHistoryContent as a table: an assignment replaces an earlier one).  *)
From V Require Import Base NameMatch NameMatchLemmas Chart Exec Large LargeLemmas Spec Interp WfCore SelectConform SelectConformLemmas SelectConformRoot
  MicroConform MicroConformFlatten Serialize LargeCacheLemmas EngineEquivDone ExitSetLemmas
  RunConformBase RunConformInit RunConformStep RunConformLoop RunConformWitness LegalHistBase LegalHistEntry LegalHistWf
  RunConformInitialBase RunConformInitialWf RunConformInitialWitness
  RunConformHistRel RunConformHistDom RunConformHistWf RunConformHistFlat RunConformHistStep RunConformHistRun.
Local Open Scope N_scope.

Definition hist_el (k : skind) (sid : N) (v : N) (tg : list N) (body : block) : tree :=
  TNode k sid None [rw_tr v None None (Some tg) false body] [] [] [] [].

(* <scxml initial="s11">  (datamodel: Var1 = 0)
     <state id="s1"> onentry log, onexit log; <transition event="b" target="s8"/>
        <history id="s2" type="deep"> <transition target="s5"> log; Var1 := Var1 + 1 </transition> </history>
        <state id="s3"> onentry log  { s4 ; s5 --n--> s4 }
        <state id="s6"/>
     <state id="s7"> onentry log; <transition event="a" target="s2"/> <transition event="f" target="s12"/>
        <history id="s8" type="shallow"> <transition target="s10"> log </transition> </history>
        s9 ; s10 --n--> s9
     <state id="s11"> <transition event="a" target="s2"> log </transition>
     <final id="s12"/>
   Events a n b n a b f:
     a  s11 -> deep history s2 without a value: default transition (content after the onentry of s1), s3, s5
     n  s5 -> s4
     b  s1 -> shallow history s8 without a value: default transition (content after the onentry of s7), s10;  s2 records {s3, s4}
     n  s10 -> s9
     a  s7 -> s2 WITH a value: s1, s3, s4 are restored, no default content;  s8 records s9
     b  s1 -> s8 with a value: s9
     f  s7 -> s12, completion *)
Definition hw_tree : tree :=
  TNode KScxml 0 (Some [11]) [] [] [] [(1, INum 0)]
    [TNode KState 1 None [rw_tr 102 (Some [98]) None (Some [8]) false []] [[ILog 201 (INum 1)]] [[ILog 211 (INum 1)]] []
       [hist_el KHistDeep 2 120 [5] [ILog 301 (INum 2); IAssign 302 1 (IAdd (IVar 1) (INum 1))];
        TNode KState 3 None [] [[ILog 203 (INum 3)]] [] []
          [leaf_st 4; TNode KState 5 None [rw_tr 103 (Some [110]) None (Some [4]) false []] [] [] [] []];
        leaf_st 6];
     TNode KState 7 None [rw_tr 104 (Some [97]) None (Some [2]) false []; rw_tr 105 (Some [102]) None (Some [12]) false []] [[ILog 207 (INum 7)]] [] []
       [hist_el KHistShallow 8 121 [10] [ILog 303 (INum 8)];
        leaf_st 9; TNode KState 10 None [rw_tr 106 (Some [110]) None (Some [9]) false []] [] [] [] []];
     TNode KState 11 None [rw_tr 101 (Some [97]) None (Some [2]) false [ILog 304 (INum 11)]] [] [] [] [];
     TNode KFinal 12 None [] [] [] [] []].

Definition hw_evs : list bytes := [[97]; [110]; [98]; [110]; [97]; [98]; [102]].

Example run_conforms_history_nonvacuous :
  let c := flatten false hw_tree in
  static_hb c = true /\ wf_initb c = false /\ run_guardb c hw_evs 60 = true /\ run_completeb c hw_evs 60 = true /\
  count_ms (fst (run_large lg_fixed ex_fixed false hw_tree hw_evs 60)) = 8%nat /\
  snd (run_large lg_fixed ex_fixed false hw_tree hw_evs 60) = [(1, 1%Z)] /\
  (* the configurations after the microsteps *)
  filter (fun t => match t with TCfg _ => true | _ => false end) (spec_view 0 (fst (run_large lg_fixed ex_fixed false hw_tree hw_evs 60))) =
    [TCfg [11]; TCfg [1; 3; 5]; TCfg [1; 3; 4]; TCfg [7; 10]; TCfg [7; 9]; TCfg [1; 3; 4]; TCfg [7; 9]; TCfg [12]].
Proof. vm_compute. repeat split. Qed.

(* an instance of run_conforms_history (no computation of the Spec side) *)
Example run_conforms_history_example : forall fuel', (60 <= fuel')%nat ->
  spec_view 0 (fst (run_large lg_fixed ex_fixed false hw_tree hw_evs 60)) = spec_view 0 (fst (run_spec false hw_tree hw_evs fuel')) /\
  snd (run_large lg_fixed ex_fixed false hw_tree hw_evs 60) = snd (run_spec false hw_tree hw_evs fuel').
Proof.
  intros fuel' H. destruct run_conforms_history_nonvacuous as (A & _ & B & C & _).
  exact (run_conforms_hist_lemma false hw_tree A hw_evs 60%nat B C fuel' H).
Qed.

(* ---- outside the hypotheses ---- *)

Definition static_h_parts_of (c : fchart) :=
  (wf_histb c, root_compoundb c, par_nonemptyb c, targets_antichainb c, done_okb c, root_silentb c,
   (cpl_okb c, cpl_antib c, targets_noinitb c), (hist_target_localb c, leaf_okb c),
   (root_unmentionedb c, chart_named c, root_onexit_emptyb c), root_plainb c).

(* known finding C01-K5 at run level.  ExitSetLemmas.w_hist_target:
     <state id="s1"> <history id="s2" type="deep"><transition target="s4"/></history>
                     <state id="s3"> <state id="s4"><transition event="e" target="s2"/></state> <state id="s5"/> </state> </state>
   the source s4 lies inside the history's parent s1.  The engines exit s4 and s3 and re-enter them (domain s1, taken
   from the <history> element); Appendix D takes the domain from the effective target s4: domain s3, only s4 is exited,
   and its computeEntrySet then adds the ancestor s3 of the target although s3 was never exited: the literal algorithm
   of the Recommendation enters an active state (onentry of s3 runs twice in a row).  The ENGINES produce the sensible
   run; the corner is in Appendix D. *)
Lemma run_hist_target_enclosing_refuted :
  exists late t evs fuel, let c := flatten late t in
    static_h_parts_of c = (true, true, true, true, true, true, (true, true, true), (false, true), (true, true, true), true) /\
    run_guardb c evs fuel = true /\ run_completeb c evs fuel = true /\ views_differ late t evs fuel.
Proof.
  exists false, w_hist_target, [[101]], 20%nat.
  split; [vm_compute; reflexivity|]. split; [vm_compute; reflexivity|]. split; [vm_compute; reflexivity|].
  unfold views_differ. vm_compute. discriminate.
Qed.

(* target="s3 s3" with s3 a history without a value:
     <state id="s1"><transition event="e" target="s3 s3"/></state>
     <state id="s2"> <history id="s3"><transition target="s4"> log </transition></history> <state id="s4"/> </state>
   Appendix D assigns defaultHistoryContent[s2] twice (a table: the second assignment replaces the first) and runs the
   content once after the onentry of s2; so does the engine.  (With defaultHistoryContent as a LIST of pairs, as Spec.v
   once had it, the content ran twice: this document was the witness.) *)
Definition hw_twice : tree :=
  TNode KScxml 0 None [] [] [] []
    [TNode KState 1 None [rw_tr 101 (Some [101]) None (Some [3; 3]) false []] [] [] [] [];
     TNode KState 2 None [] [] [] [] [hist_el KHistShallow 3 120 [4] [ILog 301 (INum 1)]; leaf_st 4]].

Example run_hist_target_twice_hypotheses :
  let c := flatten false hw_twice in
  static_hb c = true /\ run_guardb c [[101]] 20 = true /\ run_completeb c [[101]] 20 = true /\
  spec_view 0 (fst (run_large lg_fixed ex_fixed false hw_twice [[101]] 20)) =
    [TMsB; TEb 1; TEe 1; TMsE; TCfg [1]; TEv [101]; TMsB; TXb 1; TXe 1; TTb 101; TTe 101; TEb 2; TEe 2;
     TTb 120; TCb 301; TLog 1; TCe 301; TTe 120; TEb 4; TEe 4; TMsE; TCfg [2; 4]].
Proof. vm_compute. repeat split. Qed.

(* an instance of run_conforms_history (no computation of the Spec side) *)
Theorem run_hist_target_twice_conforms : forall fuel', (20 <= fuel')%nat ->
  spec_view 0 (fst (run_large lg_fixed ex_fixed false hw_twice [[101]] 20)) = spec_view 0 (fst (run_spec false hw_twice [[101]] fuel')) /\
  snd (run_large lg_fixed ex_fixed false hw_twice [[101]] 20) = snd (run_spec false hw_twice [[101]] fuel').
Proof.
  intros fuel' H. destruct run_hist_target_twice_hypotheses as (A & B & C & _).
  exact (run_conforms_hist_lemma false hw_twice A [[101]] 20%nat B C fuel' H).
Qed.

(* a transition whose target is an <initial> element (the witness of RunConformInitialWitness.v): still excluded *)
Lemma run_target_initial_element_hist_refuted :
  exists late t evs fuel, let c := flatten late t in
    static_h_parts_of c = (true, true, true, true, true, true, (true, true, false), (true, true), (true, true, true), true) /\
    run_guardb c evs fuel = true /\ run_completeb c evs fuel = true /\ views_differ late t evs fuel.
Proof.
  exists false,
    (TNode KScxml 0 None [] [] [] []
       [TNode KState 1 None [rw_tr 101 (Some [101]) None (Some [20]) false []] [] [] [] [];
        TNode KState 2 None [] [] [] [] [ini_el 20 120 [4] []; leaf_st 3; leaf_st 4]]), [[101]], 10%nat.
  split; [vm_compute; reflexivity|]. split; [vm_compute; reflexivity|]. split; [vm_compute; reflexivity|].
  unfold views_differ. vm_compute. discriminate.
Qed.

(* leaf_okb (atomic and <final> states have no child states -- what the SCXML schema says) is used by the proof
   (the atomic states a deep history records must not lie below one another); no deviation is known without it: a
   <final> with a child state below the parent of a deep history, left and re-entered through the history -- the two
   runs agree *)
Definition hw_final_child : tree :=
  TNode KScxml 0 None [] [] [] []
    [TNode KState 1 None [rw_tr 101 (Some [101]) None (Some [5]) false []; rw_tr 103 (Some [103]) None (Some [3]) false []] [] [] [] [];
     TNode KState 2 None [rw_tr 102 (Some [102]) None (Some [1]) false []] [] [] []
       [hist_el KHistDeep 3 120 [6] []; TNode KFinal 4 None [] [] [] [] [leaf_st 5]; leaf_st 6]].

Example run_final_with_child_agrees :
  let c := flatten false hw_final_child in let evs := [[101]; [102]; [103]] in
  static_h_parts_of c = (true, true, true, true, true, true, (true, true, true), (true, false), (true, true, true), true) /\
  run_guardb c evs 30 = true /\ run_completeb c evs 30 = true /\
  spec_view 0 (fst (run_large lg_fixed ex_fixed false hw_final_child evs 30)) = spec_view 0 (fst (run_spec false hw_final_child evs 30)).
Proof. vm_compute. repeat split. Qed.
