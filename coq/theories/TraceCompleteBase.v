(* TraceCompleteBase.v -- C13 completeness, layer 0: strictly sorted index lists, the "reports" relation
   (which non-content tokens a piece of the engine appends), and executable content: it appends tokens of
   content kinds only, for EVERY executor variant, and keeps the internal queue free of unnamed events. *)
From V Require Import Base NameMatch Chart Exec Large Interp Trace TraceLemmas SetLemmas TraceComplete.
From Coq Require Import ZifyBool.
Local Open Scope nat_scope.

(* ------------------------------------------------------------------ strictly ascending lists *)

Fixpoint ssorted (l : list nat) : Prop :=
  match l with
  | [] => True
  | x :: r => (forall y, In y r -> x < y) /\ ssorted r
  end.

Lemma ascb_ssorted l : ascb l = true <-> ssorted l.
Proof.
  induction l as [|x r IH]; [cbn; tauto|].
  destruct r as [|y r'].
  - cbn. split; [intros _; split; [intros ? []|exact I] | reflexivity].
  - change (ascb (x :: y :: r')) with ((x <? y) && ascb (y :: r')).
    rewrite andb_true_iff, IH, Nat.ltb_lt. cbn [ssorted]. split.
    + intros (Hxy & Hy & Hr). repeat split; auto.
      intros z [<-|Hz]; [exact Hxy|]. specialize (Hy z Hz). lia.
    + intros (Hx & Hy & Hr). repeat split; auto. apply Hx. now left.
Qed.

Lemma ssorted_NoDup l : ssorted l -> NoDup l.
Proof.
  induction l as [|x r IH]; cbn [ssorted]; [constructor|]. intros [H1 H2]. constructor; auto.
  intros Hin. specialize (H1 x Hin). lia.
Qed.

Lemma ssorted_insert x l : ssorted l -> ssorted (insert_sorted x l).
Proof.
  induction l as [|y r IH]; cbn [insert_sorted ssorted]; [intros _; split; [intros ? []|exact I]|].
  intros [H1 H2]. destruct (x <? y) eqn:E1.
  - apply Nat.ltb_lt in E1. cbn [ssorted]. repeat split; auto.
    intros z [<-|Hz]; [exact E1|]. specialize (H1 z Hz). lia.
  - destruct (x =? y) eqn:E2; [cbn [ssorted]; auto|]. apply Nat.ltb_ge in E1. apply Nat.eqb_neq in E2.
    cbn [ssorted]. split; [|now apply IH].
    intros z Hz. apply In_insert_sorted' in Hz. destruct Hz as [->|Hz]; [lia | now apply H1].
Qed.

Lemma ssorted_filter f l : ssorted l -> ssorted (filter f l).
Proof.
  induction l as [|y r IH]; cbn [filter ssorted]; [auto|]. intros [H1 H2].
  destruct (f y); [cbn [ssorted]; split; [|auto] | auto].
  intros z Hz. apply filter_In in Hz. now apply H1.
Qed.

Lemma ssorted_fold_insert b : forall a, ssorted a -> ssorted (fold_left (fun a x => insert_sorted x a) b a).
Proof. induction b as [|y r IH]; intros a Ha; cbn [fold_left]; [exact Ha|]. apply IH. now apply ssorted_insert. Qed.

Lemma ssorted_set_union a b : ssorted a -> ssorted (set_union a b).
Proof. apply ssorted_fold_insert. Qed.

Lemma ssorted_fold_union {A} (f : A -> list nat) (l : list A) : forall acc,
  ssorted acc -> ssorted (fold_left (fun a y => set_union a (f y)) l acc).
Proof. induction l as [|y r IH]; intros acc Ha; cbn [fold_left]; [exact Ha|]. apply IH. now apply ssorted_set_union. Qed.

Lemma ssorted_set_remove x l : ssorted l -> ssorted (set_remove x l).
Proof. apply ssorted_filter. Qed.
Lemma ssorted_set_diff a b : ssorted a -> ssorted (set_diff a b).
Proof. apply ssorted_filter. Qed.

Lemma ssorted_remove_all xs : forall cfg, ssorted cfg -> ssorted (remove_all xs cfg).
Proof. unfold remove_all. induction xs as [|y r IH]; intros cfg H; cbn [fold_left]; [exact H|]. apply IH. now apply ssorted_set_remove. Qed.

Lemma ssorted_insert_all es cfg : ssorted cfg -> ssorted (insert_all es cfg).
Proof. apply ssorted_fold_insert. Qed.

Lemma In_remove_all xs : forall cfg i, In i (remove_all xs cfg) <-> In i cfg /\ ~ In i xs.
Proof.
  unfold remove_all. induction xs as [|y r IH]; intros cfg i; cbn [fold_left]; [cbn; tauto|].
  rewrite IH, In_set_remove. cbn. intuition.
Qed.

Lemma In_insert_all es cfg i : In i (insert_all es cfg) <-> In i cfg \/ In i es.
Proof. apply In_fold_insert. Qed.

Lemma ssorted_rev_rev_desc l : ssorted l -> forall a b pre mid post, rev l = pre ++ a :: mid ++ b :: post -> b < a.
Proof.
  intros Hs a b pre mid post E.
  assert (E' : l = rev post ++ b :: rev mid ++ a :: rev pre).
  { rewrite <- (rev_involutive l), E. rewrite rev_app_distr. cbn [rev]. rewrite rev_app_distr. cbn [rev].
    repeat rewrite <- app_assoc. reflexivity. }
  subst l. clear E. induction (rev post) as [|p ps IH]; cbn [app ssorted] in Hs.
  - destruct Hs as [H _]. apply H. apply in_or_app. right. now left.
  - apply IH. tauto.
Qed.

(* ------------------------------------------------------------------ what a piece of the engine appends *)

(* [new] (in order of emission) was appended to the trace between x and x' *)
Definition emitted (x x' : xstate) (new : list tok) : Prop := x_out x' = rev new ++ x_out x.

(* ... and [sk] is what remains of it without the reports of executable content *)
Definition reports (x x' : xstate) (sk : list tok) : Prop :=
  exists new, emitted x x' new /\ skeleton new = sk.

Lemma skeleton_app a b : skeleton (a ++ b) = skeleton a ++ skeleton b.
Proof. apply filter_app. Qed.

Lemma reports_same x x' : x_out x' = x_out x -> reports x x' [].
Proof. intros H. exists []. split; [exact H | reflexivity]. Qed.

Lemma reports_refl x : reports x x [].
Proof. now apply reports_same. Qed.

Lemma reports_trans x x' x'' a b : reports x x' a -> reports x' x'' b -> reports x x'' (a ++ b).
Proof.
  intros (n1 & H1 & S1) (n2 & H2 & S2). exists (n1 ++ n2). split.
  - unfold emitted in *. rewrite H2, H1, rev_app_distr, app_assoc. reflexivity.
  - rewrite skeleton_app. congruence.
Qed.

Lemma reports_trans0 x x' x'' b : reports x x' [] -> reports x' x'' b -> reports x x'' b.
Proof. intros H1 H2. exact (reports_trans _ _ _ _ _ H1 H2). Qed.

Lemma reports_trans_r0 x x' x'' a : reports x x' a -> reports x' x'' [] -> reports x x'' a.
Proof. intros H1 H2. rewrite <- (app_nil_r a). exact (reports_trans _ _ _ _ _ H1 H2). Qed.

Lemma reports_tok x t : is_content t = false -> reports x (emit t x) [t].
Proof. intros H. exists [t]. split; [reflexivity|]. cbn. now rewrite H. Qed.

Lemma reports_ctok x t : is_content t = true -> reports x (emit t x) [].
Proof. intros H. exists [t]. split; [reflexivity|]. cbn. now rewrite H. Qed.

Lemma reports_eq x x' a b : reports x x' a -> a = b -> reports x x' b.
Proof. now intros H <-. Qed.

Lemma reports_fold {A} (f : xstate -> A -> xstate) (l : list A) :
  (forall x a, reports x (f x a) []) -> forall x, reports x (fold_left f l x) [].
Proof.
  intros Hf. induction l as [|a r IH]; intros x; cbn [fold_left]; [apply reports_refl|].
  eapply reports_trans0; [apply Hf | apply IH].
Qed.

Lemma same_out_reports x x' : same_out x x' -> reports x x' [].
Proof. apply reports_same. Qed.

(* ------------------------------------------------------------------ unnamed events never reach the internal queue *)

Definition namedb (e : event) : bool := match ev_name e with [] => false | _ => true end.
Definition iq_named (x : xstate) : Prop := forallb namedb (x_iq x) = true.

Lemma iq_named_same x x' : x_iq x' = x_iq x -> iq_named x -> iq_named x'.
Proof. unfold iq_named. now intros ->. Qed.

Lemma iq_named_raise e x : namedb e = true -> iq_named x -> iq_named (raise_int e x).
Proof. unfold iq_named. cbn. intros He Hx. rewrite forallb_app, Hx. cbn. now rewrite He. Qed.

(* both queues only grow at the tail, and (if [ok]) only named events are appended to the internal one *)
Definition qgrow (ok : bool) (x x' : xstate) : Prop :=
  exists ai ae, x_iq x' = x_iq x ++ ai /\ x_eq x' = x_eq x ++ ae /\ (ok = true -> forallb namedb ai = true).

Lemma qgrow_refl ok x : qgrow ok x x.
Proof. exists [], []. now rewrite !app_nil_r. Qed.

Lemma qgrow_same ok x x' : x_iq x' = x_iq x -> x_eq x' = x_eq x -> qgrow ok x x'.
Proof. intros H1 H2. exists [], []. now rewrite !app_nil_r. Qed.

Lemma qgrow_trans ok x x' x'' : qgrow ok x x' -> qgrow ok x' x'' -> qgrow ok x x''.
Proof.
  intros (a1 & e1 & H1 & H2 & H3) (a2 & e2 & H4 & H5 & H6). exists (a1 ++ a2), (e1 ++ e2).
  rewrite H4, H1, H5, H2, !app_assoc. repeat split; auto. intros Hk. rewrite forallb_app, H3, H6; auto.
Qed.

Lemma qgrow_weaken ok ok' x x' : (ok' = true -> ok = true) -> qgrow ok x x' -> qgrow ok' x x'.
Proof. intros H (a & e & H1 & H2 & H3). exists a, e. auto. Qed.

Lemma qgrow_named ok x x' : qgrow ok x x' -> ok = true -> iq_named x -> iq_named x'.
Proof. intros (a & e & H1 & _ & H3) Hk Hn. unfold iq_named in *. rewrite H1, forallb_app, Hn, H3; auto. Qed.

(* a piece of the engine that reports content only and lets the queues grow *)
Definition quiet (ok : bool) (x x' : xstate) : Prop := reports x x' [] /\ qgrow ok x x'.

Lemma quiet_named ok x x' : quiet ok x x' -> ok = true -> iq_named x -> iq_named x'.
Proof. intros [_ H]. now apply qgrow_named. Qed.

Lemma quiet_refl ok x : quiet ok x x.
Proof. split; [apply reports_refl | apply qgrow_refl]. Qed.

Lemma quiet_trans ok x x' x'' : quiet ok x x' -> quiet ok x' x'' -> quiet ok x x''.
Proof. intros [R1 N1] [R2 N2]. split; [eapply reports_trans0; eassumption | eapply qgrow_trans; eassumption]. Qed.

Lemma quiet_weaken ok ok' x x' : (ok' = true -> ok = true) -> quiet ok x x' -> quiet ok' x x'.
Proof. intros H [R N]. split; [exact R | eapply qgrow_weaken; eassumption]. Qed.

Lemma quiet_ctok ok t x : is_content t = true -> quiet ok x (emit t x).
Proof. intros H. split; [now apply reports_ctok | now apply qgrow_same]. Qed.

Lemma quiet_same ok x x' : x_out x' = x_out x -> x_iq x' = x_iq x -> x_eq x' = x_eq x -> quiet ok x x'.
Proof. intros H1 H2 H3. split; [now apply reports_same | now apply qgrow_same]. Qed.

Lemma quiet_raise_if ok e x : (ok = true -> namedb e = true) -> quiet ok x (raise_int e x).
Proof.
  intros H. split; [now apply reports_same|]. exists [e], []. cbn. rewrite app_nil_r. repeat split.
  intros Hk. now rewrite (H Hk).
Qed.

Lemma quiet_raise ok e x : namedb e = true -> quiet ok x (raise_int e x).
Proof. intros H. apply quiet_raise_if. auto. Qed.

Lemma quiet_send ok e x : quiet ok x (raise_ext e x).
Proof. split; [now apply reports_same|]. exists [], [e]. cbn. rewrite app_nil_r. auto. Qed.

Lemma quiet_is_true ok inst c x : quiet ok x (snd (is_true inst c x)).
Proof. unfold is_true. destruct (beval inst (x_store x) c); cbn [snd]; [apply quiet_refl | now apply quiet_raise]. Qed.

Lemma quiet_init_data ok d x : quiet ok x (init_data d x).
Proof. unfold init_data. destruct (ieval _ _); [now apply quiet_same | now apply quiet_raise]. Qed.

Lemma quiet_fold {A} ok (f : xstate -> A -> xstate) (l : list A) :
  (forall x a, In a l -> quiet ok x (f x a)) -> forall x, quiet ok x (fold_left f l x).
Proof.
  induction l as [|a r IH]; intros Hf x; cbn [fold_left]; [apply quiet_refl|].
  eapply quiet_trans; [apply Hf; now left | apply IH; intros; apply Hf; now right].
Qed.

Section Content.
Variable xv : ex_variant.
Variable inst : N -> bool.

Definition if_items_v :=
  fix items (l : list ifitem) (blockIsTrue : bool) (x : xstate) {struct l} : bool * xstate :=
    match l with
    | [] => (true, x)
    | FElseif c' :: r =>
        if blockIsTrue then (true, x)
        else let '(b, x') := is_true inst c' x in items r b x'
    | FElse :: r => if blockIsTrue then (true, x) else items r true x
    | FInstr j :: r =>
        if blockIsTrue then
          let '(ok, x') := exec_instr xv inst j x in
          if ok then items r blockIsTrue x' else (false, x')
        else items r blockIsTrue x
    end.

Lemma exec_if_unfold_v vid c body x :
  exec_instr xv inst (IIf vid c body) x =
  let x1 := emit (TCb vid) x in
  let '(b0, x2) := is_true inst c x1 in
  let '(ok, x3) := if_items_v body b0 x2 in
  if ok then (true, emit (TCe vid) x3)
  else if ex_if_after_skipped_on_nested_error xv then (false, x3) else (false, emit (TCe vid) x3).
Proof. reflexivity. Qed.

Definition items_names_okb :=
  fix go (l : list ifitem) : bool :=
    match l with
    | [] => true
    | FInstr j :: r => instr_names_okb j && go r
    | _ :: r => go r
    end.

Lemma quiet_emit ok t x x' : quiet ok x x' -> is_content t = true -> quiet ok x (emit t x').
Proof. intros H Ht. eapply quiet_trans; [exact H | now apply quiet_ctok]. Qed.
Lemma quiet_raise_int ok e x x' : quiet ok x x' -> (ok = true -> namedb e = true) -> quiet ok x (raise_int e x').
Proof. intros H He. eapply quiet_trans; [exact H | now apply quiet_raise_if]. Qed.
Lemma quiet_raise_ext ok e x x' : quiet ok x x' -> quiet ok x (raise_ext e x').
Proof. intros H. eapply quiet_trans; [exact H | apply quiet_send]. Qed.
Lemma quiet_set_store ok s x x' : quiet ok x x' -> quiet ok x (set_store s x').
Proof. intros H. eapply quiet_trans; [exact H | now apply quiet_same]. Qed.

Lemma fail_elem_quiet ok vid e x x' : quiet ok x x' -> namedb e = true -> quiet ok x (snd (fail_elem vid e x')).
Proof.
  intros H He. unfold fail_elem. cbn [snd]. apply quiet_emit; [|reflexivity]. apply quiet_raise_int; auto.
Qed.

Lemma exec_instr_quiet i : forall x, quiet (instr_names_okb i) x (snd (exec_instr xv inst i x)).
Proof.
  induction i using instr_ind2 with
    (Q := fun it => match it with
                    | FInstr j => forall x, quiet (instr_names_okb j) x (snd (exec_instr xv inst j x))
                    | _ => True
                    end); try exact I; intros y.
  - cbn [exec_instr snd]. apply quiet_emit; [|reflexivity]. apply quiet_raise_int.
    + now apply quiet_ctok.
    + cbn [instr_names_okb]. unfold namedb. cbn [ev_name]. auto.
  - cbn [exec_instr snd]. apply quiet_emit; [|reflexivity]. apply quiet_raise_ext. now apply quiet_ctok.
  - cbn [exec_instr]. apply fail_elem_quiet; [now apply quiet_ctok | reflexivity].
  - cbn [exec_instr]. apply fail_elem_quiet; [now apply quiet_ctok | reflexivity].
  - cbn [exec_instr].
    destruct (ieval _ _).
    + cbn [snd]. apply quiet_emit; [|reflexivity]. apply quiet_emit; [|reflexivity]. now apply quiet_ctok.
    + apply fail_elem_quiet; [now apply quiet_ctok | reflexivity].
  - cbn [exec_instr].
    destruct (ieval _ _); [destruct (lookup _ _)|].
    + cbn [snd]. apply quiet_emit; [|reflexivity]. apply quiet_set_store. now apply quiet_ctok.
    + apply fail_elem_quiet; [now apply quiet_ctok | reflexivity].
    + apply fail_elem_quiet; [now apply quiet_ctok | reflexivity].
  - (* IIf *)
    rewrite exec_if_unfold_v. cbn zeta.
    change (instr_names_okb (IIf v c body)) with (items_names_okb body).
    assert (Hitems : forall l, Forall (fun it => match it with
                    | FInstr j => forall x, quiet (instr_names_okb j) x (snd (exec_instr xv inst j x))
                    | _ => True end) l ->
             forall b z, quiet (items_names_okb l) z (snd (if_items_v l b z))).
    { clear. induction l as [|it r IHl]; intros HF b z; cbn [if_items_v].
      - apply quiet_refl.
      - inversion HF as [|? ? Hit Hr]; subst. destruct it as [c'| |j]; cbn [items_names_okb].
        + destruct b; [apply quiet_refl|].
          destruct (is_true inst c' z) as [b' z'] eqn:E.
          eapply quiet_trans; [|apply IHl; assumption].
          replace z' with (snd (is_true inst c' z)) by (now rewrite E). apply quiet_is_true.
        + destruct b; [apply quiet_refl | now apply IHl].
        + destruct b.
          * destruct (exec_instr xv inst j z) as [ok z'] eqn:E.
            assert (He : quiet (instr_names_okb j && items_names_okb r) z z').
            { replace z' with (snd (exec_instr xv inst j z)) by (now rewrite E).
              eapply quiet_weaken; [|apply Hit]. intros H. now apply andb_true_iff in H. }
            destruct ok; [|exact He]. eapply quiet_trans; [exact He|].
            eapply quiet_weaken; [|now apply IHl]. intros H. now apply andb_true_iff in H.
          * eapply quiet_weaken; [|now apply IHl]. intros H. now apply andb_true_iff in H. }
    destruct (is_true inst c (emit (TCb v) y)) as [b0 x2] eqn:E1.
    destruct (if_items_v body b0 x2) as [ok x3] eqn:E2.
    assert (H03 : quiet (items_names_okb body) y x3).
    { apply quiet_trans with (x' := emit (TCb v) y); [now apply quiet_ctok|].
      apply quiet_trans with (x' := x2).
      - replace x2 with (snd (is_true inst c (emit (TCb v) y))) by (now rewrite E1). apply quiet_is_true.
      - replace x3 with (snd (if_items_v body b0 x2)) by (now rewrite E2). now apply Hitems. }
    destruct ok; cbn [snd].
    + eapply quiet_trans; [exact H03 | now apply quiet_ctok].
    + destruct (ex_if_after_skipped_on_nested_error xv); cbn [snd]; [exact H03|].
      eapply quiet_trans; [exact H03 | now apply quiet_ctok].
  - now apply IHi.
Qed.

Lemma exec_block_quiet b : forall x, quiet (block_names_okb b) x (exec_block xv inst b x).
Proof.
  induction b as [|i r IH]; intros x; cbn [exec_block]; [apply quiet_refl|].
  change (block_names_okb (i :: r)) with (instr_names_okb i && block_names_okb r).
  destruct (exec_instr xv inst i x) as [ok x'] eqn:E.
  assert (He : quiet (instr_names_okb i && block_names_okb r) x x').
  { replace x' with (snd (exec_instr xv inst i x)) by (now rewrite E).
    eapply quiet_weaken; [|apply exec_instr_quiet]. intros H. now apply andb_true_iff in H. }
  destruct ok; [|exact He]. eapply quiet_trans; [exact He|].
  eapply quiet_weaken; [|apply IH]. intros H. now apply andb_true_iff in H.
Qed.

Lemma exec_blocks_quiet bs : forall x, quiet (forallb block_names_okb bs) x (exec_blocks xv inst bs x).
Proof.
  unfold exec_blocks. induction bs as [|b r IH]; intros x; cbn [fold_left]; [apply quiet_refl|].
  cbn [forallb]. apply quiet_trans with (x' := exec_block xv inst b x).
  - eapply quiet_weaken; [|apply exec_block_quiet]. intros H. now apply andb_true_iff in H.
  - eapply quiet_weaken; [|apply IH]. intros H. now apply andb_true_iff in H.
Qed.

End Content.
