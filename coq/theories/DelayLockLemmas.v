(* DelayLockLemmas.v -- C09: the critical sections that Delay.v treats as atomic are lock-protected
   in the source of the working tree.  GenLockDiscipline.v is regenerated from the C++ on every run
   (tools/translate/tr_lockdiscipline.py); this lemma stops checking when one of the methods no
   longer takes its mutex before the first use of the guarded map, or releases it before the last. *)
From V Require Import Base GenLockDiscipline.
Local Open Scope N_scope.

Definition has_locked (cls meth mutex : bytes) : bool :=
  existsb (fun e => beq_bytes (le_class e) cls && beq_bytes (le_method e) meth && beq_bytes (le_mutex e) mutex &&
                    le_uses e && le_locked_first e && le_held_to_last_use e) lock_inventory.

Definition c_bdq : bytes := [66; 97; 115; 105; 99; 68; 101; 108; 97; 121; 101; 100; 69; 118; 101; 110; 116; 81; 117; 101; 117; 101].   (* BasicDelayedEventQueue *)
Definition c_impl : bytes := [73; 110; 116; 101; 114; 112; 114; 101; 116; 101; 114; 73; 109; 112; 108].  (* InterpreterImpl *)
Definition m_mutex : bytes := [95; 109; 117; 116; 101; 120].       (* _mutex *)
Definition m_delay : bytes := [95; 100; 101; 108; 97; 121; 77; 117; 116; 101; 120].  (* _delayMutex *)

Definition delay_sections_locked : bool :=
  lock_source_ok &&
  has_locked c_bdq [101; 110; 113; 117; 101; 117; 101; 68; 101; 108; 97; 121; 101; 100] m_mutex (* BasicDelayedEventQueue::enqueueDelayed *) &&
  has_locked c_bdq [99; 97; 110; 99; 101; 108; 68; 101; 108; 97; 121; 101; 100] m_mutex (* BasicDelayedEventQueue::cancelDelayed *) &&
  has_locked c_bdq [99; 97; 110; 99; 101; 108; 65; 108; 108; 68; 101; 108; 97; 121; 101; 100] m_mutex (* BasicDelayedEventQueue::cancelAllDelayed *) &&
  has_locked c_impl [101; 110; 113; 117; 101; 117; 101] m_delay (* InterpreterImpl::enqueue *) &&
  has_locked c_impl [99; 97; 110; 99; 101; 108; 68; 101; 108; 97; 121; 101; 100] m_delay (* InterpreterImpl::cancelDelayed *) &&
  has_locked c_impl [101; 118; 101; 110; 116; 82; 101; 97; 100; 121] m_delay (* InterpreterImpl::eventReady *).

Lemma delay_sections_locked_lemma : delay_sections_locked = true.
Proof. vm_compute. reflexivity. Qed.
