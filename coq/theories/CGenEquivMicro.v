(* CGenEquivMicro.v -- C04: one call of the emitted uscxml_step() that takes transitions (CGen.cfire: REMEMBER_HISTORY ..
   ENTER_STATES, return USCXML_ERR_OK) against one Fast.fselect_and_step of FastMicroStep on corresponding states;
   the first call (initial configuration) and the call after a top-level final state was entered (the remaining
   <onexit> handlers, USCXML_ERR_DONE) against the corresponding branches of FastMicroStep::step.
   Section Micro is generic: it takes the agreement of the history and entry-set passes on legal states as hypotheses.
   Section Core discharges them for every chart of the history-free core and every variant of the template from the
   legality of the configuration (CGenEquivEntry.v); CGenEquivHistRun.v does it for charts with pseudo-states.
   The side conditions entry_agree / remember_agree of the partial theorems are gone.  Proofs only. *)
From V Require Import Base NameMatch Chart Exec Large LargeLemmas Fast Legal SetLemmas LegalAbstract LegalLarge LegalRun WfCore
                      CGen CGenLemmas SerializeCodecLemmas SerializeFastLemmas
                      LegalHistBase LegalHistEntry LegalHistStep LegalHistRun LegalHistWf LegalHistFastRun LegalHistCore
                      PmlEquivBase PmlEquivCore PmlEquivEntry
                      CGenEquivContent CGenEquivEntry CGenEquivStep.
Local Open Scope nat_scope.

Section Micro.
Variable cv : cg_variant.
Variable xv : ex_variant.
Variable c : fchart.
Hypothesis Htlf : cg_tlf_first_byte cv = false.
Hypothesis Hanc_sorted : forall i, ssorted (fs_ancestors (st c i)).
Hypothesis Hanc_bounded : forall i, bounded (nstates c) (fs_ancestors (st c i)).
Hypothesis Hc : chart_c c = true.
(* the two passes that differ between the template and the engine agree on legal states *)
Hypothesis Hrem : forall cfg exitset hist, cremember cv c cfg exitset hist = fremember c cfg exitset hist.
(* [OK]: what is known of the engine's state (a legal configuration; with histories: and legal recorded values) *)
Variable OK : lstate -> Prop.
Hypothesis Hentry : forall l evn, OK l ->
  let sel := cselect_all c (l_cfg l) evn in
  let ex := cexitset c (l_cfg l) sel in
  centry_set cv c (l_cfg l) ex (fremember c (l_cfg l) ex (l_hist l)) (ctargets c sel) sel =
  fentry_set c (l_cfg l) ex (fremember c (l_cfg l) ex (l_hist l)) (ctargets c sel) sel.
Hypothesis Hentry0 : forall hist, HistOK c hist ->
  centry_set cv c [] [] hist (fs_completion (st c 0)) [] = fentry_set c [] [] hist (fs_completion (st c 0)) [].

(* ---- SELECT_TRANSITIONS ---- *)
Lemma selection cfg ev y :
  fselect c cfg ev (seq 0 (ntrans c)) [] y = (cselect_all c cfg (option_map ev_name ev), y).
Proof. unfold cselect_all. apply cselect_equiv. now apply chart_c_conds. Qed.

Lemma selection_facts cfg evn :
  pairwise_ok lg_fixed c (cselect_all c cfg evn) /\ forall ti, In ti (cselect_all c cfg evn) -> In (ft_source (tr c ti)) cfg.
Proof.
  pose (ev := option_map (fun e => {| ev_name := e; ev_kind := EvInternal |}) evn).
  assert (E : option_map ev_name ev = evn) by (destruct evn; reflexivity).
  pose proof (fselect_ok c cfg ev (seq 0 (ntrans c)) [] {| x_store := []; x_iq := []; x_eq := []; x_out := [] |}
              (nil_pairwise lg_fixed c) (fun ti (Hn : In ti []) => match Hn with end)) as F.
  rewrite selection, E in F. exact F.
Qed.

Lemma selection_ok cfg evn ti : In ti (cselect_all c cfg evn) -> In (ft_source (tr c ti)) cfg.
Proof. apply selection_facts. Qed.

(* ---- a call of uscxml_step() that takes transitions ---- *)
Theorem cfire_sim lc lf x y ev :
  lsame lc lf -> csim x y -> OK lf ->
  cselect_all c (l_cfg lc) (option_map ev_name ev) <> [] ->
  let r1 := cfire cv c lc x (cselect_all c (l_cfg lc) (option_map ev_name ev)) in
  let r2 := fselect_and_step xv c lf y ev in
  lsame (fst (fst r1)) (fst (fst r2)) /\ csim (snd (fst r1)) (snd (fst r2)) /\
  snd r1 = C_ERR_OK /\ snd r2 = RC_MICROSTEPPED /\
  l_spont (fst (fst r1)) = true /\ l_spont (fst (fst r2)) = true /\
  l_init (fst (fst r1)) = true /\ l_cancelled (fst (fst r1)) = l_cancelled lc /\
  l_init (fst (fst r2)) = true /\ l_cancelled (fst (fst r2)) = l_cancelled lf.
Proof.
  intros L R Hok Hne. cbv zeta. pose proof L as (L1 & L2 & L3 & L4).
  pose proof (Hentry lf (option_map ev_name ev) Hok) as He. cbv zeta in He. rewrite <- L1, <- L2 in He.
  unfold fselect_and_step. cbn [upd_flags l_cfg]. rewrite <- L1, selection.
  remember (cselect_all c (l_cfg lc) (option_map ev_name ev)) as sel eqn:Es.
  destruct sel as [|t0 r0]; [congruence|].
  set (sel := t0 :: r0) in *.
  assert (L0 : lsame lc (upd_flags lf (l_spont lf) false)) by (unfold lsame; cbn [upd_flags l_cfg l_hist l_tlf l_fin]; auto).
  pose proof (microstep_sim cv xv c Htlf Hanc_sorted Hanc_bounded Hc lc (upd_flags lf (l_spont lf) false) x (emit TMsB y)
                (ctargets c sel) (cexitset c (l_cfg lc) sel) sel false L0
                (csim_emit TMsB x y eq_refl R)
                (fun _ => Hrem (l_cfg lc) (cexitset c (l_cfg lc) sel) (l_hist lc)) He) as M.
  cbv zeta in M. unfold cfire.
  pose proof (fmicrostep_flags xv c (upd_flags lf (l_spont lf) false) (emit TMsB y) (ctargets c sel) (cexitset c (l_cfg lc) sel) sel false) as F.
  cbv zeta in F. unfold ctargets, cexitset in *.
  destruct (cmicrostep cv c lc x _ _ sel false) as [l1 x1].
  destruct (fmicrostep xv c (upd_flags lf (l_spont lf) false) (emit TMsB y) _ _ sel false) as [l2 y2].
  cbn [fst snd] in *. destruct M as (M1 & M2 & M3 & M4 & M5 & M6). destruct F as (F1 & F2 & _ & _ & F5).
  split; [exact M1|]. split; [exact M2|]. repeat split; auto.
Qed.

(* ---- the first call: the initial configuration ---- *)
Theorem cinitial_sim lc lf x y :
  lsame lc lf -> csim x y -> l_cfg lc = [] -> HistOK c (l_hist lc) ->
  let r1 := cmicrostep cv c lc x (fs_completion (st c 0)) [] [] true in
  let r2 := fmicrostep xv c lf (emit TMsB y) (fs_completion (st c 0)) [] [] true in
  lsame (fst r1) (fst r2) /\ csim (snd r1) (snd r2) /\
  l_spont (fst r1) = true /\ l_spont (fst r2) = true /\ l_init (fst r1) = true /\ l_cancelled (fst r1) = l_cancelled lc /\
  l_init (fst r2) = true /\ l_cancelled (fst r2) = l_cancelled lf.
Proof.
  intros L R Hnil HH. cbv zeta.
  pose proof (microstep_sim cv xv c Htlf Hanc_sorted Hanc_bounded Hc lc lf x (emit TMsB y) (fs_completion (st c 0)) [] [] true L
                (csim_emit TMsB x y eq_refl R) (fun F => False_ind _ (Bool.diff_true_false F))) as M.
  rewrite Hnil in M. specialize (M (Hentry0 _ HH)). cbv zeta in M.
  pose proof (fmicrostep_flags xv c lf (emit TMsB y) (fs_completion (st c 0)) [] [] true) as F. cbv zeta in F.
  destruct (cmicrostep cv c lc x _ [] [] true) as [l1 x1].
  destruct (fmicrostep xv c lf (emit TMsB y) _ [] [] true) as [l2 y2].
  cbn [fst snd] in *. destruct M as (M1 & M2 & M3 & M4 & M5 & M6). destruct F as (F1 & F2 & _ & _ & F5).
  split; [exact M1|]. split; [exact M2|]. repeat split; auto.
Qed.

(* ---- the call after a top-level final state: the <onexit> handlers of the whole configuration ---- *)
Lemma final_exit_sim cfg l : forall x y, csim x y ->
  csim (fold_left (fun x i => cexec_blocks (inst_of c cfg) (fs_onexit (st c i)) x) l x)
       (fold_left (fun x i => exec_blocks xv (inst_of c cfg) (fs_onexit (st c i)) x) l y).
Proof.
  induction l as [|i r IH]; intros x y R; cbn [fold_left]; [exact R|]. apply IH.
  apply sim_blocks; [apply (st_c c i Hc)|exact R].
Qed.

Theorem cterminate_sim lc lf x y :
  lsame lc lf -> csim x y -> l_fin lc = false -> l_tlf lc = true ->
  let r1 := cgen_step cv c lc x in
  let r2 := fast_step xv c lf y in
  lsame (fst (fst r1)) (fst (fst r2)) /\ csim (snd (fst r1)) (snd (fst r2)) /\
  snd r1 = C_ERR_DONE /\ snd r2 = RC_FINISHED /\ l_fin (fst (fst r1)) = true.
Proof.
  intros (L1 & L2 & L3 & L4) R Hf Ht. cbv zeta. unfold cgen_step, fast_step. rewrite <- L4, <- L3, Hf, Ht, <- L1.
  cbn [fst snd]. split; [unfold lsame; cbn [l_cfg l_hist l_tlf l_fin]; auto|].
  split; [|auto]. apply csim_emit; [reflexivity|]. apply final_exit_sim. now apply csim_emit.
Qed.

End Micro.

(* ------------------------------------------------------------------ the history-free core *)
Section Core.
Variable cv : cg_variant.
Variable c : fchart.
Hypothesis H : wf_coreb c = true.
Hypothesis Hroot : fs_type (st c 0) = FCompound.
Let W : WF c := wf_coreb_sound c H.
Let WH : WFH c := wf_histb_sound c (wf_initb_histb c (wf_coreb_initb c H)).
Notation n := (nstates c).
Notation Anc := (LegalAbstract.Anc (fun i => fs_parent (st c i))).

(* ---- the sets of a microstep after a selection ---- *)
Section Sets.
Variable cfg sel : list nat.
Hypothesis Hleg : LegalCfg c cfg.
Hypothesis Hsrc : forall ti, In ti sel -> In (ft_source (tr c ti)) cfg.

Lemma In_ctargets g : In g (ctargets c sel) <-> exists ti, In ti sel /\ In g (ft_targets (tr c ti)).
Proof. unfold ctargets. rewrite In_fold_union. cbn. split; [intros [[]|E]; exact E | intros E; now right]. Qed.

Lemma targets_sorted : ssorted (ctargets c sel).
Proof. unfold ctargets. apply fold_union_ssorted. constructor. Qed.

Lemma targets_bound g : In g (ctargets c sel) -> g < n.
Proof. intros Hg. apply In_ctargets in Hg as (ti & _ & Hg). now destruct (wf_tr_targets c W ti g Hg). Qed.

Lemma cfg_bound x : In x cfg -> x < n.
Proof. destruct Hleg as [_ HB]. apply HB. Qed.

Lemma cfg_closed x a : In x cfg -> Anc a x -> In a cfg.
Proof.
  destruct Hleg as [HL _]. intros Hx Ha. induction Ha as [i p Hp|i p a Hp Ha IH].
  - exact (lg_parent _ _ _ _ HL i p Hx Hp).
  - apply IH. exact (lg_parent _ _ _ _ HL i p Hx Hp).
Qed.

Lemma exit_below x : In x (cexitset c cfg sel) ->
  In x cfg /\ exists d, In d (add_ancestors c (ctargets c sel)) /\ Anc d x /\
                        forall y, In y cfg -> Anc d y -> In y (cexitset c cfg sel).
Proof.
  destruct Hleg as [HL HB]. change (cexitset c cfg sel) with (exitset c cfg sel).
  intros Hx. apply (In_exitset c W cfg sel HL HB Hsrc) in Hx as [Hxc (d & HD & Hdx)].
  split; [exact Hxc|]. exists d. split; [|split; [exact Hdx|]].
  - destruct HD as (ti & Hti & Hd).
    destruct (domain_spec c W ti d (HB _ (Hsrc ti Hti)) Hd) as (Hne & _ & Htg & _).
    destruct (ft_targets (tr c ti)) as [|g gs] eqn:E; [congruence|].
    apply (In_add_ancestors c H). right. exists g. split; [|apply Htg; now left].
    apply In_ctargets. exists ti. rewrite E. split; [exact Hti|now left].
  - intros y Hy Hdy. apply (In_exitset c W cfg sel HL HB Hsrc). split; [exact Hy|]. now exists d.
Qed.

Lemma entry_set_sel hist ts :
  centry_set cv c cfg (cexitset c cfg sel) hist (ctargets c sel) ts =
  fentry_set c cfg (cexitset c cfg sel) hist (ctargets c sel) ts.
Proof.
  apply (centry_set_core cv c H cfg (cexitset c cfg sel) hist (ctargets c sel)
           targets_sorted targets_bound cfg_bound cfg_closed exit_below ts).
Qed.

End Sets.

(* the sets of the initial step *)
Lemma entry_set_init hist ts :
  centry_set cv c [] [] hist (fs_completion (st c 0)) ts = fentry_set c [] [] hist (fs_completion (st c 0)) ts.
Proof.
  destruct (compound_spec c H 0 Hroot) as (k & Ek & Hk).
  apply (centry_set_core cv c H [] [] hist (fs_completion (st c 0))).
  - rewrite Ek. repeat constructor.
  - rewrite Ek. intros g [<-|[]]. apply (In_children c H) in Hk. now destruct (par_lt c H _ _ Hk).
  - intros x [].
  - intros x a [].
  - intros x [].
Qed.

(* the hypotheses of Section Micro *)
Lemma core_anc_sorted i : ssorted (fs_ancestors (st c i)).
Proof. apply (anc_sorted c H). Qed.
Lemma core_anc_bounded i : bounded n (fs_ancestors (st c i)).
Proof. apply (anc_bounded c H). Qed.
Lemma core_rem cfg exitset hist : cremember cv c cfg exitset hist = fremember c cfg exitset hist.
Proof. now apply cremember_core. Qed.

Lemma cselect_src cfg ev ts : forall sel,
  (forall ti, In ti sel -> In (ft_source (tr c ti)) cfg) ->
  forall ti, In ti (cselect c cfg ev ts sel) -> In (ft_source (tr c ti)) cfg.
Proof.
  induction ts as [|t r IH]; intros sel Hs; cbn [cselect]; [exact Hs|].
  destruct (ft_history (tr c t) || ft_initial (tr c t)); [now apply IH|].
  destruct (mem (ft_source (tr c t)) cfg) eqn:M; cbn [negb]; [|now apply IH].
  assert (Hs' : forall ti, In ti (sel ++ [t]) -> In (ft_source (tr c ti)) cfg).
  { intros ti Hi. apply in_app_or in Hi as [Hi|[<-|[]]]; [now apply Hs|]. now apply SetLemmas.mem_In. }
  destruct (existsb _ sel); [now apply IH|].
  destruct (match ev with Some _ => ft_spontaneous (tr c t) | None => negb (ft_spontaneous (tr c t)) end); [now apply IH|].
  destruct (match ev with Some e => negb (name_match_impl nm_fixed (ft_event (tr c t)) e) | None => false end); [now apply IH|].
  destruct (ft_cond (tr c t)) as [cnd|]; [destruct (c_is_true _ cnd)|]; now apply IH.
Qed.

Lemma core_entry l evn : LegalCfg c (l_cfg l) ->
  let sel := cselect_all c (l_cfg l) evn in
  let ex := cexitset c (l_cfg l) sel in
  centry_set cv c (l_cfg l) ex (fremember c (l_cfg l) ex (l_hist l)) (ctargets c sel) sel =
  fentry_set c (l_cfg l) ex (fremember c (l_cfg l) ex (l_hist l)) (ctargets c sel) sel.
Proof.
  intros L. cbv zeta. apply entry_set_sel; [exact L|].
  unfold cselect_all. apply cselect_src. intros ti [].
Qed.

Lemma core_ok l : StOK c l -> LegalCfg c (l_cfg l).
Proof. intros [L _]. now apply (LegalCfgH_LegalCfg c WH). Qed.

Lemma core_entry0 hist : HistOK c hist ->
  centry_set cv c [] [] hist (fs_completion (st c 0)) [] = fentry_set c [] [] hist (fs_completion (st c 0)) [].
Proof. intros _. apply entry_set_init. Qed.

End Core.
