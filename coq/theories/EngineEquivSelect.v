(* EngineEquivSelect.v -- C03: SELECT_TRANSITIONS of FastMicroStep (Fast.fselect: all transitions in post-fix
   order, pre-computed conflict matrix = exit-set overlap or same source or sources in ancestor relation)
   against SELECT_TRANSITIONS of LargeMicroStep (Large.select_loop: active states ordered by their first
   transition, the first enabled transition of each, exit-set overlap only, "skip the directly following
   parents").  Both evaluate transition conditions, which can raise error.execution, so the comparison is
   about the selected list AND the execution state.  They agree under two computable side conditions:
   - [cand_okb]: the candidate list of the large engine is the ascending list of all transitions with an
     active source (a fact about the tables and the configuration);
   - [sel_guardb], evaluated along the large engine's own loop: whenever it examines (does not skip) a state
     that is in ancestor relation with the source of an already selected transition, every transition of that
     state is ruled out before its condition is evaluated (history/initial, wrong kind of event, descriptor
     mismatch, or exit-set overlap with a selected transition) or has a condition that evaluates, without
     error, to false.  Known finding C03-K1 lives exactly where this fails.
   Definitions of the guards and proofs. *)
From V Require Import Base NameMatch Chart Exec Large LargeLemmas Fast Legal SetLemmas LegalAbstract LegalLarge
  LegalRun WfCore LegalOracle LargeCacheLemmas SelectConform SelectConformLemmas MicroConform MicroConformLemmas
  EngineEquivBase EngineEquivStep.
Local Open Scope nat_scope.

Definition block_of (c : fchart) (s : nat) : list nat := fs_trans (st c s).
Definition cands (c : fchart) (order : list nat) : list nat := flat_map (block_of c) order.

Definition cand_okb (c : fchart) (cfg : list nat) : bool :=
  list_eqb (cands c (cfg_postfix c cfg))
           (filter (fun ti => mem (ft_source (tr c ti)) cfg) (seq 0 (ntrans c))).

(* proper ancestry between two states, either way *)
Definition anc_related (c : fchart) (s1 s2 : nat) : bool :=
  mem s2 (fs_ancestors (st c s1)) || mem s1 (fs_ancestors (st c s2)).

(* the tests of Large.pick_trans that come before the evaluation of the condition *)
Definition pre_rejected (c : fchart) (ev : option event) (selected : list nat) (ti : nat) : bool :=
  let t := tr c ti in
  (ft_history t || ft_initial t) ||
  match ev with Some _ => ft_spontaneous t | None => negb (ft_spontaneous t) end ||
  existsb (fun si => conflicts lg_fixed c t (tr c si)) selected ||
  match ev with Some e => negb (name_match_impl nm_fixed (ft_event t) (ev_name e)) | None => false end.

(* ... or the condition is evaluated by the large engine, without error, to false (no effect, not selected) *)
Definition quiet_rejected (c : fchart) (cfg : list nat) (ev : option event) (selected : list nat) (x : xstate) (ti : nat) : bool :=
  pre_rejected c ev selected ti ||
  match ft_cond (tr c ti) with
  | Some cnd => match beval (inst_of c cfg) (x_store x) cnd with Some false => true | _ => false end
  | None => false
  end.

(* the same recursion as Large.select_loop *)
Fixpoint sel_guardb (c : fchart) (cfg : list nat) (ev : option event) (order : list nat) (skip : option nat)
         (selected : list nat) (x : xstate) {struct order} : bool :=
  match order with
  | [] => true
  | s :: r =>
    let skipped := match skip with
                   | Some cur => match fs_parent (st c cur) with Some p => p =? s | None => false end
                   | None => false
                   end in
    if skipped then sel_guardb c cfg ev r (Some s) selected x
    else
      (negb (existsb (fun si => anc_related c (ft_source (tr c si)) s) selected) ||
       forallb (quiet_rejected c cfg ev selected x) (fs_trans (st c s))) &&
      let '(o, x') := pick_trans lg_fixed c cfg ev selected (fs_trans (st c s)) x in
      match o with
      | Some ti => sel_guardb c cfg ev r (Some s) (insert_sorted ti selected) x'
      | None => sel_guardb c cfg ev r None selected x'
      end
  end.

Section Select.
Variable c : fchart.
Hypothesis W : WF c.
Variable cfg : list nat.
Variable ev : option event.
Notation Anc := (LegalAbstract.Anc (fun i => fs_parent (st c i))).

(* what makes the fast engine pass over a transition without evaluating its condition *)
Definition frej (sel : list nat) (ti : nat) : bool :=
  let t := tr c ti in
  (ft_history t || ft_initial t) || negb (mem (ft_source t) cfg) ||
  existsb (fun si => fconflicts c (tr c si) t) sel ||
  match ev with Some _ => ft_spontaneous t | None => negb (ft_spontaneous t) end ||
  match ev with Some e => negb (name_match_impl nm_fixed (ft_event t) (ev_name e)) | None => false end.

Lemma ee_fselect_rejected ts rest : forall sel x, (forall ti, In ti ts -> frej sel ti = true) ->
  fselect c cfg ev (ts ++ rest) sel x = fselect c cfg ev rest sel x.
Proof.
  induction ts as [|ti r IH]; intros sel x H; [reflexivity|]. cbn [app fselect].
  pose proof (H ti (or_introl eq_refl)) as Hr. unfold frej in Hr. cbn zeta in Hr.
  assert (IHr : fselect c cfg ev (r ++ rest) sel x = fselect c cfg ev rest sel x) by (apply IH; intros tj Hj; apply H; now right).
  destruct (ft_history (tr c ti) || ft_initial (tr c ti)); [exact IHr|].
  destruct (negb (mem (ft_source (tr c ti)) cfg)); [exact IHr|].
  destruct (existsb (fun si => fconflicts c (tr c si) (tr c ti)) sel); [exact IHr|].
  destruct (match ev with Some _ => ft_spontaneous (tr c ti) | None => negb (ft_spontaneous (tr c ti)) end); [exact IHr|].
  destruct (match ev with Some e => negb (name_match_impl nm_fixed (ft_event (tr c ti)) (ev_name e)) | None => false end); [exact IHr|].
  discriminate.
Qed.

(* transitions with an inactive source are passed over *)
Lemma ee_fselect_filter ts : forall sel x,
  fselect c cfg ev ts sel x = fselect c cfg ev (filter (fun ti => mem (ft_source (tr c ti)) cfg) ts) sel x.
Proof.
  induction ts as [|ti r IH]; intros sel x; [reflexivity|]. cbn [filter].
  destruct (mem (ft_source (tr c ti)) cfg) eqn:Hm.
  - cbn [fselect]. rewrite Hm. cbn [negb].
    destruct (ft_history (tr c ti) || ft_initial (tr c ti)); [apply IH|].
    destruct (existsb _ sel); [apply IH|].
    destruct (match ev with Some _ => _ | None => _ end); [apply IH|].
    destruct (match ev with Some e => _ | None => false end); [apply IH|].
    destruct (ft_cond (tr c ti)) as [cnd|]; [|apply IH].
    destruct (is_true (inst_of c cfg) cnd x) as [b x']. destruct b; apply IH.
  - cbn [fselect]. rewrite Hm. cbn [negb]. destruct (ft_history (tr c ti) || ft_initial (tr c ti)); apply IH.
Qed.

Lemma ee_pick_rejected sel ts x : (forall ti, In ti ts -> quiet_rejected c cfg ev sel x ti = true) ->
  pick_trans lg_fixed c cfg ev sel ts x = (None, x).
Proof.
  induction ts as [|ti r IH]; intros H; [reflexivity|]. cbn [pick_trans].
  pose proof (H ti (or_introl eq_refl)) as Hr. unfold quiet_rejected, pre_rejected in Hr. cbn zeta in Hr.
  assert (IHr : pick_trans lg_fixed c cfg ev sel r x = (None, x)) by (apply IH; intros tj Hj; apply H; now right).
  destruct (ft_history (tr c ti) || ft_initial (tr c ti)); [exact IHr|].
  destruct (match ev with Some _ => ft_spontaneous (tr c ti) | None => negb (ft_spontaneous (tr c ti)) end); [exact IHr|].
  destruct (existsb (fun si => conflicts lg_fixed c (tr c ti) (tr c si)) sel); [exact IHr|].
  destruct (match ev with Some e => negb (name_match_impl nm_fixed (ft_event (tr c ti)) (ev_name e)) | None => false end); [exact IHr|].
  cbn [orb] in Hr. destruct (ft_cond (tr c ti)) as [cnd|]; [|discriminate]. unfold is_true.
  destruct (beval (inst_of c cfg) (x_store x) cnd) as [[|]|]; try discriminate. exact IHr.
Qed.

(* one state's block of transitions, no selected transition has a related source *)
Lemma ee_block s sel ts rest : In s cfg ->
  (forall ti, In ti ts -> ft_source (tr c ti) = s) ->
  (forall si, In si sel -> ft_source (tr c si) <> s /\ anc_related c (ft_source (tr c si)) s = false) ->
  forall x,
  fselect c cfg ev (ts ++ rest) sel x =
  let '(o, x') := pick_trans lg_fixed c cfg ev sel ts x in
  match o with
  | Some ti => fselect c cfg ev rest (sel ++ [ti]) x'
  | None => fselect c cfg ev rest sel x'
  end.
Proof.
  intros Hs Hsrc Hsel. induction ts as [|ti r IH]; intros x; [reflexivity|]. cbn [app fselect pick_trans].
  assert (Hti : ft_source (tr c ti) = s) by (apply Hsrc; now left).
  assert (IHr : forall y, fselect c cfg ev (r ++ rest) sel y =
                          let '(o, x') := pick_trans lg_fixed c cfg ev sel r y in
                          match o with Some tj => fselect c cfg ev rest (sel ++ [tj]) x' | None => fselect c cfg ev rest sel x' end).
  { apply IH. intros tj Hj. apply Hsrc. now right. }
  assert (Hconf : existsb (fun si => fconflicts c (tr c si) (tr c ti)) sel =
                  existsb (fun si => conflicts lg_fixed c (tr c ti) (tr c si)) sel).
  { apply existsb_ext_in. intros si Hsi. destruct (Hsel si Hsi) as [Hne Hrel]. unfold fconflicts.
    rewrite Hti. unfold anc_related in Hrel. apply orb_false_iff in Hrel as [R1 R2]. rewrite R1, R2.
    replace (ft_source (tr c si) =? s) with false by (symmetry; now apply Nat.eqb_neq).
    rewrite !orb_false_r. apply conflicts_sym. }
  (* after a selection in this block the rest of the block has the same source *)
  assert (Hrest : forall y, fselect c cfg ev (r ++ rest) (sel ++ [ti]) y = fselect c cfg ev rest (sel ++ [ti]) y).
  { intros y. apply ee_fselect_rejected. intros tj Hj. unfold frej. cbn zeta.
    replace (existsb (fun si => fconflicts c (tr c si) (tr c tj)) (sel ++ [ti])) with true; [now rewrite !orb_true_r|].
    symmetry. apply existsb_exists. exists ti. split; [apply in_app_iff; right; now left|].
    unfold fconflicts. rewrite Hti, (Hsrc tj (or_intror Hj)), Nat.eqb_refl. now rewrite !orb_true_r. }
  rewrite Hti. replace (mem s cfg) with true by (symmetry; now apply mem_In). cbn [negb].
  rewrite Hconf.
  destruct (ft_history (tr c ti) || ft_initial (tr c ti)); [apply IHr|].
  set (bs := match ev with Some _ => ft_spontaneous (tr c ti) | None => negb (ft_spontaneous (tr c ti)) end).
  set (bc := existsb (fun si => conflicts lg_fixed c (tr c ti) (tr c si)) sel).
  set (bn := match ev with Some e => negb (name_match_impl nm_fixed (ft_event (tr c ti)) (ev_name e)) | None => false end).
  destruct bs, bc, bn; try apply IHr.
  destruct (ft_cond (tr c ti)) as [cnd|]; [|apply Hrest].
  destruct (is_true (inst_of c cfg) cnd x) as [b x']. destruct b; [apply Hrest | apply IHr].
Qed.

Definition skip_ok (skip : option nat) (sel : list nat) : Prop :=
  match skip with
  | Some cur => exists si, In si sel /\ (ft_source (tr c si) = cur \/ Anc cur (ft_source (tr c si)))
  | None => True
  end.

Lemma ee_select_sim : forall order skip sel x,
  NoDup order -> (forall s, In s order -> In s cfg) ->
  (forall si s, In si sel -> In s order -> ft_source (tr c si) <> s) ->
  (forall si tj, In si sel -> In tj (cands c order) -> si < tj) ->
  ssorted (cands c order) ->
  skip_ok skip sel ->
  sel_guardb c cfg ev order skip sel x = true ->
  fselect c cfg ev (cands c order) sel x = select_loop lg_fixed c cfg ev order skip sel x.
Proof.
  induction order as [|s r IH]; intros skip sel x Hnd Hin Hsrc Hlt Hso Hskip Hg; [reflexivity|].
  inversion Hnd as [|? ? Hns Hnd']; subst.
  unfold cands in *. cbn [flat_map] in *. fold (cands c r) in *. cbn [select_loop]. cbn [sel_guardb] in Hg.
  apply ee_ssorted_app_inv in Hso as (So1 & So2 & So3).
  assert (Hs : In s cfg) by (apply Hin; now left).
  assert (Hblock : forall ti, In ti (block_of c s) -> ft_source (tr c ti) = s) by (intros ti Hti; exact (wf_tr_src c W s ti Hti)).
  assert (Hin' : forall z, In z r -> In z cfg) by (intros z Hz; apply Hin; now right).
  assert (Hsrc' : forall si z, In si sel -> In z r -> ft_source (tr c si) <> z) by (intros si z Hsi Hz; apply Hsrc; [exact Hsi | now right]).
  assert (Hlt' : forall si tj, In si sel -> In tj (cands c r) -> si < tj).
  { intros si tj Hsi Htj. apply Hlt; [exact Hsi|]. apply in_app_iff. now right. }
  (* a selected transition whose source lies below s rules out the whole block in the fast engine *)
  assert (Hanc_rej : forall si, In si sel -> anc_related c (ft_source (tr c si)) s = true ->
                     forall ti, In ti (block_of c s) -> frej sel ti = true).
  { intros si Hsi Hrel ti Hti. unfold frej. cbn zeta.
    replace (existsb (fun sj => fconflicts c (tr c sj) (tr c ti)) sel) with true; [now rewrite !orb_true_r|].
    symmetry. apply existsb_exists. exists si. split; [exact Hsi|]. unfold fconflicts. rewrite (Hblock ti Hti).
    unfold anc_related in Hrel. apply orb_true_iff in Hrel as [R|R]; rewrite R; now rewrite ?orb_true_r. }
  destruct (match skip with
            | Some cur => match fs_parent (st c cur) with Some p => p =? s | None => false end
            | None => false end) eqn:Hsk.
  - (* the large engine skips s as the parent of the state before *)
    destruct skip as [cur|]; [|discriminate].
    destruct (fs_parent (st c cur)) as [p|] eqn:Hp; [|discriminate]. apply Nat.eqb_eq in Hsk. subst p.
    destruct Hskip as (si & Hsi & Hrel).
    assert (Ha : Anc s (ft_source (tr c si))).
    { destruct Hrel as [->|Hrel]; [now apply anc_parent | eapply anc_trans; [apply anc_parent; exact Hp | exact Hrel]]. }
    rewrite ee_fselect_rejected.
    + apply IH; try assumption. exists si. split; [exact Hsi | now right].
    + apply (Hanc_rej si Hsi). unfold anc_related. apply orb_true_iff. left. apply mem_In. now apply (wf_anc c W).
  - apply andb_true_iff in Hg as [G1 G2].
    destruct (existsb (fun si => anc_related c (ft_source (tr c si)) s) sel) eqn:Hrel.
    + (* related to a selected source: nothing of s gets as far as its condition, in either engine *)
      cbn [negb orb] in G1. rewrite forallb_forall in G1.
      rewrite (ee_pick_rejected sel (fs_trans (st c s)) x G1) in *.
      apply existsb_exists in Hrel as (si & Hsi & Hrel).
      rewrite ee_fselect_rejected by (exact (Hanc_rej si Hsi Hrel)).
      apply IH; try assumption. exact I.
    + assert (Hnr : forall si, In si sel -> ft_source (tr c si) <> s /\ anc_related c (ft_source (tr c si)) s = false).
      { intros si Hsi. split; [apply Hsrc; [exact Hsi | now left]|].
        destruct (anc_related c (ft_source (tr c si)) s) eqn:E; [|reflexivity].
        assert (existsb (fun si => anc_related c (ft_source (tr c si)) s) sel = true); [|congruence].
        apply existsb_exists. exists si. tauto. }
      rewrite (ee_block s sel (block_of c s) (cands c r) Hs Hblock Hnr x). unfold block_of in *.
      destruct (pick_trans lg_fixed c cfg ev sel (fs_trans (st c s)) x) as [o x'] eqn:Hpick.
      destruct o as [ti|].
      * apply (pick_trans_sound lg_fixed c) in Hpick as [Hti _].
        assert (Hins : insert_sorted ti sel = sel ++ [ti]).
        { apply sc_insert_sorted_last. intros a Ha. apply Hlt; [exact Ha|]. apply in_app_iff. now left. }
        rewrite Hins in *. apply IH; try assumption.
        -- intros si z Hsi Hz. apply in_app_iff in Hsi as [Hsi|[<-|[]]]; [now apply Hsrc'|].
           rewrite (Hblock ti Hti). intros ->. contradiction.
        -- intros si tj Hsi Htj. apply in_app_iff in Hsi as [Hsi|[<-|[]]]; [now apply Hlt' | now apply So3].
        -- exists ti. split; [apply in_app_iff; right; now left | left; exact (Hblock ti Hti)].
      * apply IH; try assumption. exact I.
Qed.

Lemma ee_cfg_postfix_in s : In s (cfg_postfix c cfg) -> In s cfg.
Proof. apply cfg_postfix_sub. Qed.

Theorem ee_select_eq x : NoDup cfg -> cand_okb c cfg = true ->
  sel_guardb c cfg ev (cfg_postfix c cfg) None [] x = true ->
  fselect c cfg ev (seq 0 (ntrans c)) [] x = select_loop lg_fixed c cfg ev (cfg_postfix c cfg) None [] x.
Proof.
  intros Hnd Hc Hg. unfold cand_okb in Hc. apply list_eqb_eq in Hc.
  rewrite ee_fselect_filter, <- Hc. apply ee_select_sim; try assumption.
  - now apply cfg_postfix_NoDup.
  - exact ee_cfg_postfix_in.
  - intros si s [].
  - intros si tj [].
  - rewrite Hc. apply ssorted_filter. apply ee_ssorted_seq.
  - exact I.
Qed.

(* ---- what the large engine selects is plain (no default transition of a pseudo-state) ---- *)

Lemma ee_pick_plain sel ts : forall x ti x', pick_trans lg_fixed c cfg ev sel ts x = (Some ti, x') ->
  ft_history (tr c ti) || ft_initial (tr c ti) = false.
Proof.
  induction ts as [|t r IH]; intros x ti x' H; cbn [pick_trans] in H; [discriminate|].
  destruct (ft_history (tr c t) || ft_initial (tr c t)) eqn:Hh; [now apply IH in H|].
  destruct (match ev with Some _ => _ | None => _ end); [now apply IH in H|].
  destruct (existsb _ sel); [now apply IH in H|].
  destruct (match ev with Some e => _ | None => false end); [now apply IH in H|].
  destruct (ft_cond (tr c t)) as [cnd|].
  - destruct (is_true (inst_of c cfg) cnd x) as [b x1]. destruct b; [injection H as <- _; exact Hh | now apply IH in H].
  - injection H as <- _. exact Hh.
Qed.

Lemma ee_select_plain order : forall skip sel x, plain_transb c sel = true ->
  plain_transb c (fst (select_loop lg_fixed c cfg ev order skip sel x)) = true.
Proof.
  induction order as [|s r IH]; intros skip sel x Hp; cbn [select_loop]; [exact Hp|].
  destruct (match skip with Some cur => _ | None => false end); [now apply IH|].
  destruct (pick_trans lg_fixed c cfg ev sel (fs_trans (st c s)) x) as [o x'] eqn:E. destruct o as [ti|]; [|now apply IH].
  apply IH. unfold plain_transb in *. rewrite forallb_forall in *. intros t Ht. apply In_insert_sorted' in Ht as [->|Ht]; [|now apply Hp].
  apply negb_true_iff. exact (ee_pick_plain sel _ x ti x' E).
Qed.

End Select.

(* ------------------------------------------------------------------ cand_okb from a static table property *)

(* s1 comes before s2 in post-fix order, or is s2 *)
Definition pf_leb (c : fchart) (s1 s2 : nat) : bool :=
  (s1 =? s2) || (s1 + fs_size (st c s1) <=? s2) || ((s2 <? s1) && (s1 <? s2 + fs_size (st c s2))).

(* the transition tables as LargeMicroStep::init builds them: a state's list is the ascending list of the
   transitions whose source it is, and transitions are numbered in post-fix order of their sources *)
Definition trans_tableb (c : fchart) : bool :=
  forallb (fun s => list_eqb (fs_trans (st c s)) (filter (fun ti => ft_source (tr c ti) =? s) (seq 0 (ntrans c))))
          (seq 0 (nstates c)) &&
  forallb (fun ti => forallb (fun tj => negb (ti <? tj) || pf_leb c (ft_source (tr c ti)) (ft_source (tr c tj)))
                             (seq 0 (ntrans c))) (seq 0 (ntrans c)).

Section Table.
Variable c : fchart.
Hypothesis HT : trans_tableb c = true.

Lemma ee_block_eq s : s < nstates c -> block_of c s = filter (fun ti => ft_source (tr c ti) =? s) (seq 0 (ntrans c)).
Proof.
  intros Hs. unfold trans_tableb in HT. apply andb_true_iff in HT as [H _].
  pose proof (forallb_seq_lt _ _ H s Hs) as H'. cbn beta in H'. now apply list_eqb_eq in H'.
Qed.

Lemma ee_In_block s ti : s < nstates c -> (In ti (block_of c s) <-> ti < ntrans c /\ ft_source (tr c ti) = s).
Proof.
  intros Hs. rewrite (ee_block_eq s Hs), filter_In, in_seq, Nat.eqb_eq. split; intros [A B]; (split; [lia | exact B]).
Qed.

Lemma ee_block_sorted s : s < nstates c -> ssorted (block_of c s).
Proof. intros Hs. rewrite (ee_block_eq s Hs). apply ssorted_filter, ee_ssorted_seq. Qed.

Lemma ee_pf_order ti tj : ti < tj -> tj < ntrans c -> pf_leb c (ft_source (tr c ti)) (ft_source (tr c tj)) = true.
Proof.
  intros H1 H2. unfold trans_tableb in HT. apply andb_true_iff in HT as [_ H].
  pose proof (forallb_seq_lt _ _ (forallb_seq_lt _ _ H ti ltac:(lia)) tj H2) as H'. cbn beta in H'.
  replace (ti <? tj) with true in H' by (symmetry; now apply Nat.ltb_lt). exact H'.
Qed.

Lemma ee_pf_antisym s1 s2 : pf_leb c s1 s2 = true -> pf_leb c s2 s1 = true -> s1 = s2.
Proof.
  unfold pf_leb. intros H1 H2.
  repeat (apply orb_true_iff in H1 as [H1|H1]); repeat (apply orb_true_iff in H2 as [H2|H2]);
    repeat match goal with
           | H : (_ =? _) = true |- _ => apply Nat.eqb_eq in H
           | H : (_ <=? _) = true |- _ => apply Nat.leb_le in H
           | H : _ && _ = true |- _ => apply andb_true_iff in H as [? ?]
           | H : (_ <? _) = true |- _ => apply Nat.ltb_lt in H
           end; lia.
Qed.

Lemma ee_first_min s : s < nstates c -> block_of c s <> [] ->
  In (first_trans c s) (block_of c s) /\ forall tj, In tj (block_of c s) -> first_trans c s <= tj.
Proof.
  intros Hs Hne. pose proof (ee_block_sorted s Hs) as Hso. unfold first_trans, block_of in *.
  destruct (fs_trans (st c s)) as [|f r]; [congruence|]. cbn [hd]. split; [now left|].
  cbn [ssorted] in Hso. destruct Hso as [H _]. intros tj [<-|Hj]; [lia | specialize (H tj Hj); lia].
Qed.

Lemma ee_cands_sorted : forall order, ksorted (first_trans c) order -> NoDup order ->
  (forall s, In s order -> s < nstates c /\ block_of c s <> []) -> ssorted (cands c order).
Proof.
  induction order as [|s r IH]; intros Hk Hnd Hin; [exact I|]. unfold cands. cbn [flat_map]. fold (cands c r).
  cbn [ksorted] in Hk. destruct Hk as [Hk1 Hk2]. inversion Hnd as [|? ? Hns Hnd']; subst.
  destruct (Hin s (or_introl eq_refl)) as [Hs Hne].
  apply ee_ssorted_app; [now apply ee_block_sorted | apply IH; [exact Hk2 | exact Hnd' | intros z Hz; apply Hin; now right]|].
  intros ti tj Hti Htj. unfold cands in Htj. apply in_flat_map in Htj as (s' & Hs' & Htj).
  destruct (Hin s' (or_intror Hs')) as [Hs'n Hne'].
  assert (Hss : s <> s') by (intros ->; contradiction).
  apply (ee_In_block s _ Hs) in Hti as [Hti1 Hti2]. apply (ee_In_block s' _ Hs'n) in Htj as [Htj1 Htj2].
  destruct (Nat.lt_ge_cases ti tj) as [H|H]; [exact H|]. exfalso.
  assert (Hne2 : tj <> ti) by (intros ->; congruence).
  destruct (ee_first_min s Hs Hne) as [Hf1 Hf2]. destruct (ee_first_min s' Hs'n Hne') as [Hf1' Hf2'].
  apply (ee_In_block s _ Hs) in Hf1 as [Ha Hb]. apply (ee_In_block s' _ Hs'n) in Hf1' as [Ha' Hb'].
  specialize (Hk1 s' Hs').
  assert (Hlow : first_trans c s' <= tj) by (apply Hf2'; apply (ee_In_block s' _ Hs'n); tauto).
  assert (Hff : first_trans c s <> first_trans c s') by (intros E; rewrite E in Hb; congruence).
  apply Hss. apply ee_pf_antisym.
  - rewrite <- Hb, <- Htj2. apply ee_pf_order; lia.
  - rewrite <- Htj2, <- Hti2. apply ee_pf_order; lia.
Qed.

Theorem ee_cand_ok cfg : NoDup cfg -> (forall s, In s cfg -> s < nstates c) -> cand_okb c cfg = true.
Proof.
  intros Hnd Hb. unfold cand_okb. apply list_eqb_eq.
  assert (Hpf : forall s, In s (cfg_postfix c cfg) <-> In s cfg /\ fs_trans (st c s) <> []).
  { intros s. unfold cfg_postfix.
    destruct (fold_insert_by (first_trans c) (filter (fun s0 => match fs_trans (st c s0) with [] => false | _ :: _ => true end) cfg) [] I) as [_ B].
    rewrite B, filter_In. cbn [In]. destruct (fs_trans (st c s)); split; intros H.
    - destruct H as [[]|[_ H]]. discriminate.
    - destruct H as [_ H]. congruence.
    - destruct H as [[]|[H _]]. split; [exact H | discriminate].
    - right. split; [tauto | reflexivity]. }
  apply ssorted_ext.
  - apply ee_cands_sorted.
    + unfold cfg_postfix. apply fold_insert_by. exact I.
    + now apply cfg_postfix_NoDup.
    + intros s Hs. apply Hpf in Hs as [Hs Hne]. split; [now apply Hb | exact Hne].
  - apply ssorted_filter, ee_ssorted_seq.
  - intros ti. unfold cands. rewrite in_flat_map, filter_In, in_seq. split.
    + intros (s & Hs & Hti). apply Hpf in Hs as [Hs _]. apply (ee_In_block s _ (Hb s Hs)) in Hti as [A B].
      split; [lia|]. apply mem_In. now rewrite B.
    + intros [A B]. apply mem_In in B. exists (ft_source (tr c ti)).
      assert (Hin : In ti (block_of c (ft_source (tr c ti)))) by (apply (ee_In_block _ _ (Hb _ B)); split; [lia | reflexivity]).
      split; [|exact Hin]. apply Hpf. split; [exact B|]. unfold block_of in Hin. intros E. rewrite E in Hin. destruct Hin.
Qed.

End Table.
