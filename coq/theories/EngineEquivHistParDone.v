(* EngineEquivHistParDone.v -- C03 with <history> directly below <parallel> (wf_histpb, record WFHP): the
   done.state events of <parallel> states raised when a <final> state is entered.  EngineEquivHistDone.v re-proved
   over the tree of PROPER states (LegalH of LegalHistStep.v): a history child of an active <parallel> is never
   active, Large.in_final counts it as final (it does not block done.state), Fast.fpar_done never sees it.
   Same side conditions (leaf_okb, par_nonemptyb, the dynamic guard).  Proofs only. *)
From V Require Import Base NameMatch Chart Exec Large LargeLemmas Fast Legal SetLemmas LegalAbstract LegalLarge
  LegalRun WfCore LegalOracle LargeCacheLemmas SelectConform SelectConformLemmas MicroConform MicroConformLemmas
  LegalHistBase LegalHistStep LegalHistWf LegalHistParBase LegalHistParStep LegalHistParWf EngineEquivBase EngineEquivDone.
Local Open Scope nat_scope.

Section Done.
Variable c : fchart.
Hypothesis Hwf : wf_histpb c = true.
Hypothesis Hleaf : leaf_okb c = true.
Hypothesis Hpar : par_nonemptyb c = true.
Let W : WFHP c := wf_histpb_sound c Hwf.
Let n := nstates c.
Let par (i : nat) := fs_parent (st c i).
Let ch (i : nat) := fs_children (st c i).
Let kd (i : nat) := fs_type (st c i).
Let anc (i : nat) := fs_ancestors (st c i).
Notation Anc := (LegalAbstract.Anc par).

(* ---- the ancestor lists ---- *)

Lemma ehpd_anc_app i p : par i = Some p -> anc i = anc p ++ [p].
Proof.
  intros Hp. destruct (whp_par_lt c W _ _ Hp) as [_ Hi]. unfold anc. rewrite (hanc_in_p c Hwf i Hi). fold (par i). rewrite Hp.
  apply sc_insert_sorted_last. intros a Ha. apply (whp_anc c W) in Ha. now destruct (hanc_lt_p c W _ _ Ha).
Qed.

Lemma ehpd_anc_nil i : par i = None -> anc i = [].
Proof.
  intros Hp. destruct (anc i) as [|a r] eqn:E; [reflexivity|]. exfalso.
  assert (Ha : Anc a i) by (apply (whp_anc c W); fold (anc i); rewrite E; now left).
  inversion Ha; subst; fold (par i) in *; congruence.
Qed.

Lemma ehpd_anc_sorted : forall i, ssorted (anc i).
Proof.
  induction i as [i IH] using lt_wf_ind. destruct (par i) as [p|] eqn:Hp.
  - rewrite (ehpd_anc_app i p Hp). destruct (whp_par_lt c W _ _ Hp) as [Hlt _]. apply ssorted_app_last; [now apply IH|].
    intros a Ha. apply (whp_anc c W) in Ha. now destruct (hanc_lt_p c W _ _ Ha).
  - rewrite (ehpd_anc_nil i Hp). exact I.
Qed.

Lemma ehpd_leaf i : kd i = FFinal \/ kd i = FAtomic -> forall k, ~ Anc i k.
Proof.
  intros Hk k Ha. destruct (ee_anc_first_child c i k Ha) as (k1 & Hk1 & _).
  destruct (whp_par_lt c W _ _ Hk1) as [Hlt Hk1n]. assert (Hi : i < n) by (unfold n; lia).
  apply (whp_children c W) in Hk1.
  pose proof (forallb_seq_lt _ _ Hleaf i Hi) as H. cbn beta in H. fold (kd i) in H.
  destruct (fs_children (st c i)) as [|z r]; [destruct Hk1|].
  destruct Hk as [Hk|Hk]; rewrite Hk in H; discriminate.
Qed.

(* ---- done_walk as a walk over the reversed ancestor list ---- *)


Lemma ehpd_done_walk_list cfg : forall fuel i x, i < fuel ->
  done_walk c fuel cfg (par i) x = lwalk c (in_final c (n_states c) cfg) (rev (anc i)) x.
Proof.
  induction fuel as [|f IH]; intros i x Hi; [lia|].
  destruct (par i) as [p|] eqn:Hp.
  - rewrite (ehpd_anc_app i p Hp), rev_app_distr. cbn [rev app lwalk].
    destruct (whp_par_lt c W _ _ Hp) as [Hlt _]. assert (Hpf : p < f) by lia.
    unfold is_parb. destruct (fs_type (st c p)) eqn:Ht;
      try (rewrite done_walk_step by (rewrite Ht; discriminate); now apply IH).
    rewrite (done_walk_par c cfg f p x Ht). destruct (in_final c (n_states c) cfg p); [now apply IH | reflexivity].
  - rewrite (ehpd_anc_nil i Hp). cbn [rev lwalk]. apply done_walk_top.
Qed.








(* ---- fpar_done: every active non-final state below the <parallel> has an active <final> below it ---- *)

Section FPar.
Variable L : list nat.
Hypothesis Lsorted : ssorted L.
Variable a : nat.

Let g (tmp : list nat) (k : nat) : list nat :=
  if mem a (fs_ancestors (st c k)) then
    match fs_type (st c k) with
    | FFinal => set_diff tmp (fs_ancestors (st c k))
    | _ => insert_sorted k tmp
    end
  else tmp.

Lemma ehpd_fpar_fold : forall l acc, ssorted l -> forall x,
  In x (fold_left g l acc) <->
  (In x acc \/ (In x l /\ Anc a x /\ kd x <> FFinal)) /\
  (forall k', In k' l -> Anc a k' -> kd k' = FFinal -> ~ Anc x k').
Proof.
  induction l as [|k r IH]; intros acc Hs x; cbn [fold_left].
  - cbn [In]. split; [intros H; split; [now left | intros ? []] | intros [[H|[[] _]] _]; exact H].
  - cbn [ssorted] in Hs. destruct Hs as [Hk Hr]. rewrite (IH _ Hr). unfold g at 1.
    destruct (mem a (fs_ancestors (st c k))) eqn:Hm.
    + apply mem_In, (whp_anc c W) in Hm.
      destruct (fs_type (st c k)) eqn:Ht.
      all: try (rewrite In_insert_sorted'; split;
        [ intros [[[->|H]|H] Hall]; (split; [|intros k' [<-|Hk'] Hak' Hf; [unfold kd in Hf; congruence | now apply Hall]]);
          [right; split; [now left|]; split; [exact Hm | unfold kd; congruence] | now left | right; split; [now right | tauto]]
        | intros [[H|[[<-|H] H2]] Hall]; (split; [|intros k' Hk'; apply Hall; now right]);
          [left; now right | left; now left | right; tauto] ]).
      (* final *)
      rewrite In_set_diff. split.
      * intros [[[H Hn]|H] Hall]; (split; [|intros k' [<-|Hk'] Hak' Hf; [|now apply Hall]]).
        -- now left.
        -- intros Hx. apply Hn. now apply (whp_anc c W).
        -- right. split; [now right | tauto].
        -- intros Hx. destruct H as (Hxr & _). specialize (Hk x Hxr). destruct (hanc_lt_p c W _ _ Hx). lia.
      * intros [[H|[[<-|H] [H2 H3]]] Hall].
        -- split; [|intros k' Hk'; apply Hall; now right]. left. split; [exact H|].
           intros Hx. apply (whp_anc c W) in Hx. exact (Hall k (or_introl eq_refl) Hm Ht Hx).
        -- exfalso. apply H3. exact Ht.
        -- split; [|intros k' Hk'; apply Hall; now right]. right. tauto.
    + apply mem_false_In in Hm. assert (Hna : ~ Anc a k) by (intros H; apply Hm; now apply (whp_anc c W)).
      split.
      * intros [[H|H] Hall]; (split; [|intros k' [<-|Hk'] Hak' Hf; [contradiction | now apply Hall]]).
        -- now left.
        -- right. split; [now right | tauto].
      * intros [[H|[[<-|H] [H2 H3]]] Hall]; [|contradiction|]; (split; [|intros k' Hk'; apply Hall; now right]).
        -- now left.
        -- right. tauto.
Qed.

Lemma ehpd_hasfin k : hasfin c L k = true <-> exists k', In k' L /\ kd k' = FFinal /\ Anc k k'.
Proof.
  unfold hasfin. rewrite existsb_exists. split; intros (k' & Hk' & H); exists k'; (split; [exact Hk'|]).
  - apply andb_true_iff in H as [Hf Hm]. apply mem_In, (whp_anc c W) in Hm. split; [|exact Hm].
    unfold is_finalb in Hf. unfold kd. destruct (fs_type (st c k')); try discriminate. reflexivity.
  - destruct H as [Hf Hm]. apply andb_true_iff. split; [unfold is_finalb; unfold kd in Hf; now rewrite Hf|].
    apply mem_In. now apply (whp_anc c W).
Qed.

Definition Qs : Prop := forall k, In k L -> Anc a k -> kd k <> FFinal -> hasfin c L k = true.

Lemma ehpd_fpar_done : fpar_done c L a = true <-> Qs.
Proof.
  unfold fpar_done. change (fold_left _ L []) with (fold_left g L []).
  pose proof (ehpd_fpar_fold L [] Lsorted) as HF.
  split.
  - intros He k Hk Hak Hnf. destruct (hasfin c L k) eqn:Eh; [reflexivity|]. exfalso.
    assert (Hin : In k (fold_left g L [])).
    { apply HF. split; [right; tauto|]. intros k' Hk' Hak' Hf Hx.
      assert (hasfin c L k = true) by (apply ehpd_hasfin; exists k'; tauto). congruence. }
    destruct (fold_left g L []); [destruct Hin | discriminate].
  - intros HQ. destruct (fold_left g L []) as [|z r] eqn:E; [reflexivity|]. exfalso.
    assert (Hz : In z (z :: r)) by now left. apply HF in Hz as [[[]|(Hz & Haz & Hnf)] Hall].
    pose proof (HQ z Hz Haz Hnf) as Hh. apply ehpd_hasfin in Hh as (k' & Hk' & Hf & Hzk').
    apply (Hall k' Hk'); [exact (hanc_trans_p c _ _ _ Haz Hzk') | exact Hf | exact Hzk'].
Qed.

End FPar.

(* ---- in_final on a configuration that is legal below [top] ---- *)

Section InFinal.
Variable L : list nat.
Variable C : nat -> Prop.
Variable top : nat.
Hypothesis HC : LegalH c C.
Hypothesis Hproper : forall y, C y -> pseudoS c y = false.
Hypothesis Lbound : forall y, In y L -> y < n.
Hypothesis Hagree : forall y, y = top \/ Anc top y -> (In y L <-> C y).

Definition Qi (i : nat) : Prop :=
  forall k, In k L -> k = i \/ Anc i k -> kd k <> FFinal -> hasfin c L k = true.

(* the legality of C over the tree of proper states, in terms of the full tree *)
Lemma ehpd_C_parent i p : C i -> par i = Some p -> C p.
Proof. intros Hi Hp. exact (lg_parent _ _ _ _ HC i p Hi (par_ppar_p c i p (Hproper i Hi) Hp)). Qed.

Lemma ehpd_pch_ch i k : In k (pch c i) -> In k (ch i) /\ pseudoS c k = false.
Proof.
  intros Hk. apply (pch_spec_p c W) in Hk. split; [apply (whp_children c W); now apply ppar_par_p|].
  unfold ppar in Hk. destruct (pseudoS c k); [discriminate | reflexivity].
Qed.

Lemma ehpd_ch_pch i k : In k (ch i) -> pseudoS c k = false -> In k (pch c i).
Proof. intros Hk Hp. apply (pch_spec_p c W). apply par_ppar_p; [exact Hp | now apply (whp_children c W)]. Qed.

Lemma ehpd_C_compound_ex i : C i -> kd i = FCompound -> exists k, In k (ch i) /\ C k.
Proof.
  intros Hi Hk. destruct (lg_compound_ex _ _ _ _ HC i Hi Hk) as (k & Hin & Hc). exists k. split; [exact (proj1 (ehpd_pch_ch i k Hin)) | exact Hc].
Qed.

Lemma ehpd_C_compound_uniq i k1 k2 : C i -> kd i = FCompound -> In k1 (ch i) -> In k2 (ch i) -> C k1 -> C k2 -> k1 = k2.
Proof.
  intros Hi Hk H1 H2 C1 C2.
  exact (lg_compound_uniq _ _ _ _ HC i k1 k2 Hi Hk (ehpd_ch_pch i k1 H1 (Hproper k1 C1)) (ehpd_ch_pch i k2 H2 (Hproper k2 C2)) C1 C2).
Qed.

Lemma ehpd_C_parallel i k : C i -> kd i = FParallel -> In k (ch i) -> pseudoS c k = false -> C k.
Proof. intros Hi Hk Hin Hp. exact (lg_parallel _ _ _ _ HC i k Hi Hk (ehpd_ch_pch i k Hin Hp)). Qed.

(* a <parallel> has a region (a proper child) *)
Lemma ehpd_par_region i : i < n -> kd i = FParallel -> exists k, In k (ch i) /\ pseudoS c k = false.
Proof.
  intros Hi Hk. destruct (ch i) as [|k1 r] eqn:Ech.
  { exfalso. exact (par_nonemptyb_sound c Hpar i Hi Hk Ech). }
  assert (Hk1 : In k1 (ch i)) by (rewrite Ech; now left).
  destruct (pseudoS c k1) eqn:Hps; [|exists k1; rewrite <- Ech; tauto].
  assert (Hp1 : par k1 = Some i) by now apply (whp_children c W).
  destruct (whp_pseudo_parent c W k1 Hps) as (q & Hq & [Hc|[Hh Hc]]); pose proof (eq_trans (eq_sym Hp1) Hq) as E; injection E as <-;
    [unfold kd in *; congruence|].
  destruct (whp_par_hist c W k1 i Hh Hp1 Hk) as [Hne _].
  destruct (fs_completion (st c i)) as [|g gs] eqn:Ec; [congruence|].
  assert (Hg : In g (fs_completion (st c i))) by (rewrite Ec; now left).
  apply (whp_parallel c W i g Hk) in Hg as [Hg1 Hg2]. exists g. rewrite <- Ech. split; [now apply (whp_children c W) | exact Hg2].
Qed.

Lemma ehpd_C_anc i b : C i -> Anc b i -> C b.
Proof.
  intros Hi Ha. induction Ha as [i p Hp|i p b Hp Ha IH].
  - exact (ehpd_C_parent i p Hi Hp).
  - apply IH. exact (ehpd_C_parent i p Hi Hp).
Qed.

Lemma ehpd_below_top i k : i = top \/ Anc top i -> Anc i k -> k = top \/ Anc top k.
Proof. intros [->|Hi] Hk; right; [exact Hk | exact (hanc_trans_p c _ _ _ Hi Hk)]. Qed.

(* an active state below i lies at or below an active child of i *)
Lemma ehpd_first_active i k : i = top \/ Anc top i -> In k L -> Anc i k ->
  exists k1, In k1 (ch i) /\ In k1 L /\ (k = k1 \/ Anc k1 k).
Proof.
  intros Hi Hk Hik. destruct (ee_anc_first_child c i k Hik) as (k1 & Hk1 & Hrel). exists k1.
  split; [now apply (whp_children c W)|]. split; [|destruct Hrel as [->|Hrel]; [now left | now right]].
  assert (Hk1t : k1 = top \/ Anc top k1) by (apply (ehpd_below_top i); [exact Hi | now apply anc_parent]).
  destruct Hrel as [->|Hrel]; [exact Hk|].
  apply Hagree; [exact Hk1t|]. apply (ehpd_C_anc k); [|exact Hrel].
  apply Hagree; [|exact Hk]. exact (ehpd_below_top k1 k Hk1t Hrel).
Qed.

(* what a proper child k1 of an active <parallel> i below top is *)
Lemma ehpd_region_facts i k1 : In i L -> i = top \/ Anc top i -> kd i = FParallel -> In k1 (ch i) -> pseudoS c k1 = false ->
  In k1 L /\ (k1 = top \/ Anc top k1) /\ i < k1 /\ Anc i k1.
Proof.
  intros Hi Hit Hk Hk1 Hp1. assert (HiC : C i) by now apply Hagree.
  assert (Hik1 : Anc i k1) by (apply anc_parent; now apply (whp_children c W)).
  assert (Ht : k1 = top \/ Anc top k1) by exact (ehpd_below_top i k1 Hit Hik1).
  split; [apply Hagree; [exact Ht | exact (ehpd_C_parallel i k1 HiC Hk Hk1 Hp1)]|]. split; [exact Ht|].
  split; [now destruct (hanc_lt_p c W _ _ Hik1) | exact Hik1].
Qed.

(* a region of an active <parallel> that is final-or-has-a-final gives the <parallel> a final below *)
Lemma ehpd_region_hasfin i k1 : Anc i k1 -> In k1 L -> Qi k1 -> hasfin c L i = true.
Proof.
  intros Hik1 Hk1L HQ1. destruct (kd k1) eqn:Hk1k.
  all: try (assert (Hh : hasfin c L k1 = true) by (apply HQ1; [exact Hk1L | now left | congruence]);
            apply ehpd_hasfin in Hh as (k' & Hk' & Hfk & Ha); apply ehpd_hasfin; exists k'; split; [exact Hk'|]; split; [exact Hfk|];
            exact (hanc_trans_p c _ _ _ Hik1 Ha)).
  apply ehpd_hasfin. exists k1. tauto.
Qed.

Lemma ehpd_in_final_Q : forall fuel i, n <= fuel + i -> In i L -> i = top \/ Anc top i ->
  (in_final c fuel L i = true <-> Qi i).
Proof.
  induction fuel as [|f IH]; intros i Hf Hi Hit; [specialize (Lbound i Hi); lia|].
  assert (HiC : C i) by now apply Hagree.
  cbn [in_final]. fold (kd i). fold (ch i).
  destruct (kd i) eqn:Hk.
  - (* atomic *) split; [discriminate|]. intros HQ. exfalso.
    assert (Hh : hasfin c L i = true) by (apply HQ; [exact Hi | now left | congruence]).
    apply ehpd_hasfin in Hh as (k' & _ & _ & Ha). exact (ehpd_leaf i (or_intror Hk) k' Ha).
  - (* compound *)
    destruct (ehpd_C_compound_ex i HiC Hk) as (k0 & Hk0 & Hk0C).
    assert (Hk0t : k0 = top \/ Anc top k0) by (apply (ehpd_below_top i); [exact Hit | apply anc_parent; now apply (whp_children c W)]).
    assert (Hk0L : In k0 L) by now apply Hagree.
    destruct (find (fun ch0 => mem ch0 L) (ch i)) as [k1|] eqn:Ef.
    2: { exfalso. pose proof (find_none _ _ Ef k0 Hk0) as H. cbn beta in H. apply mem_false_In in H. contradiction. }
    apply find_some in Ef as [Hk1 Hk1L]. apply mem_In in Hk1L.
    assert (Hk1t : k1 = top \/ Anc top k1) by (apply (ehpd_below_top i); [exact Hit | apply anc_parent; now apply (whp_children c W)]).
    assert (k1 = k0) by (apply (ehpd_C_compound_uniq i k1 k0 HiC Hk Hk1 Hk0); [now apply Hagree | exact Hk0C]). subst k1.
    assert (Hik0 : Anc i k0) by (apply anc_parent; now apply (whp_children c W)).
    assert (Hlt : i < k0) by (destruct (hanc_lt_p c W _ _ Hik0); lia).
    rewrite (IH k0 ltac:(lia) Hk0L Hk0t). split.
    + intros HQ k HkL [->|Hik] Hnf.
      * exact (ehpd_region_hasfin i k0 Hik0 Hk0L HQ).
      * destruct (ehpd_first_active i k Hit HkL Hik) as (k2 & Hk2 & Hk2L & Hrel).
        assert (k2 = k0) by (apply (ehpd_C_compound_uniq i k2 k0 HiC Hk Hk2 Hk0); [|exact Hk0C];
                             apply Hagree; [apply (ehpd_below_top i); [exact Hit | apply anc_parent; now apply (whp_children c W)] | exact Hk2L]).
        subst k2. now apply HQ.
    + intros HQ k HkL Hrel Hnf. apply HQ; [exact HkL| |exact Hnf]. right.
      destruct Hrel as [->|Hrel]; [exact Hik0 | exact (hanc_trans_p c _ _ _ Hik0 Hrel)].
  - (* parallel: the regions count, a history child is "final" for in_final and never in L *)
    rewrite forallb_forall. split.
    + intros HA k HkL [->|Hik] Hnf.
      * destruct (ehpd_par_region i (Lbound i Hi) Hk) as (k1 & Hk1 & Hp1).
        destruct (ehpd_region_facts i k1 Hi Hit Hk Hk1 Hp1) as (Hk1L & Hk1t & Hlt & Hik1).
        pose proof (proj1 (IH k1 ltac:(lia) Hk1L Hk1t) (HA k1 Hk1)) as HQ1.
        exact (ehpd_region_hasfin i k1 Hik1 Hk1L HQ1).
      * destruct (ehpd_first_active i k Hit HkL Hik) as (k1 & Hk1 & Hk1L & Hrel).
        assert (Hp1 : pseudoS c k1 = false).
        { apply Hproper. apply Hagree; [|exact Hk1L]. apply (ehpd_below_top i); [exact Hit | apply anc_parent; now apply (whp_children c W)]. }
        destruct (ehpd_region_facts i k1 Hi Hit Hk Hk1 Hp1) as (_ & Hk1t & Hlt & _).
        exact (proj1 (IH k1 ltac:(lia) Hk1L Hk1t) (HA k1 Hk1) k HkL Hrel Hnf).
    + intros HQ k1 Hk1. destruct (pseudoS c k1) eqn:Hp1.
      * (* a history child *)
        assert (Hpk : par k1 = Some i) by now apply (whp_children c W).
        destruct (whp_par_lt c W _ _ Hpk) as [Hlt Hk1n].
        destruct f as [|f']; [unfold n in *; lia|]. cbn [in_final].
        destruct (whp_pseudo_parent c W k1 Hp1) as (q & Hq & [Hc|[Hh Hc]]); pose proof (eq_trans (eq_sym Hpk) Hq) as E; injection E as <-;
          [unfold kd in *; congruence|].
        unfold histS in Hh. destruct (fs_type (st c k1)); try discriminate; reflexivity.
      * destruct (ehpd_region_facts i k1 Hi Hit Hk Hk1 Hp1) as (Hk1L & Hk1t & Hlt & Hik1).
        apply (IH k1 ltac:(lia) Hk1L Hk1t). intros k HkL Hrel Hnf. apply HQ; [exact HkL| |exact Hnf]. right.
        destruct Hrel as [->|Hrel]; [exact Hik1 | exact (hanc_trans_p c _ _ _ Hik1 Hrel)].
  - (* final *) split; [|reflexivity]. intros _ k HkL [->|Hik] Hnf; [congruence|].
    exfalso. exact (ehpd_leaf i (or_introl Hk) k Hik).
  - exfalso. pose proof (Hproper i HiC) as Hp. unfold pseudoS in Hp. unfold kd in Hk. rewrite Hk in Hp. discriminate.
  - exfalso. pose proof (Hproper i HiC) as Hp. unfold pseudoS in Hp. unfold kd in Hk. rewrite Hk in Hp. discriminate.
  - exfalso. pose proof (Hproper i HiC) as Hp. unfold pseudoS in Hp. unfold kd in Hk. rewrite Hk in Hp. discriminate.
Qed.

(* for the <parallel> itself the two tests agree *)
Lemma ehpd_in_final_fpar : ssorted L -> In top L -> kd top = FParallel ->
  in_final c (n_states c) L top = fpar_done c L top.
Proof.
  intros Hs Ht Hk.
  assert (E : in_final c (n_states c) L top = true <-> fpar_done c L top = true).
  { rewrite (ehpd_in_final_Q (n_states c) top ltac:(unfold n, n_states; lia) Ht (or_introl eq_refl)).
    rewrite (ehpd_fpar_done L Hs top). unfold Qi, Qs. split.
    - intros HQ k HkL Hak Hnf. apply HQ; [exact HkL | now right | exact Hnf].
    - intros HQ k HkL [->|Hak] Hnf; [|now apply HQ].
      destruct (ehpd_par_region top (Lbound top Ht) Hk) as (k1 & Hk1 & Hp1).
      destruct (ehpd_region_facts top k1 Ht (or_introl eq_refl) Hk Hk1 Hp1) as (Hk1L & _ & _ & Htk1).
      apply (ehpd_region_hasfin top k1 Htk1 Hk1L). intros k HkL' Hrel Hnf'. apply HQ; [exact HkL'| |exact Hnf'].
      destruct Hrel as [->|Hrel]; [exact Htk1 | exact (hanc_trans_p c _ _ _ Htk1 Hrel)]. }
  destruct (in_final c (n_states c) L top), (fpar_done c L top); try reflexivity.
  - symmetry. now apply E.
  - now apply E.
Qed.

End InFinal.


(* in_final looks at the states below its argument only *)
Lemma ehpd_in_final_ext L1 L2 : forall fuel i, (forall y, Anc i y -> mem y L1 = mem y L2) ->
  in_final c fuel L1 i = in_final c fuel L2 i.
Proof.
  induction fuel as [|f IH]; intros i H; [reflexivity|]. cbn [in_final].
  assert (Hch : forall k, In k (fs_children (st c i)) -> Anc i k) by (intros k Hk; apply anc_parent; now apply (whp_children c W)).
  destruct (fs_type (st c i)); try reflexivity.
  - assert (E : find (fun ch0 => mem ch0 L1) (fs_children (st c i)) = find (fun ch0 => mem ch0 L2) (fs_children (st c i))).
    { induction (fs_children (st c i)) as [|k r IHr]; [reflexivity|]. cbn [find].
      rewrite (H k (Hch k (or_introl eq_refl))). destruct (mem k L2); [reflexivity|]. apply IHr. intros z Hz. apply Hch. now right. }
    rewrite E. destruct (find (fun ch0 => mem ch0 L2) (fs_children (st c i))) as [k|] eqn:Ef; [|reflexivity].
    apply find_some in Ef as [Hk _]. apply IH. intros y Hy. apply H. exact (hanc_trans_p c _ _ _ (Hch k Hk) Hy).
  - apply ee_forallb_ext_in. intros k Hk. apply IH. intros y Hy. apply H. exact (hanc_trans_p c _ _ _ (Hch k Hk) Hy).
Qed.

(* ---- the two computations raise the same events ---- *)


Theorem ehpd_done_eq (L : list nat) (C : nat -> Prop) f x :
  LegalH c C -> (forall y, C y -> pseudoS c y = false) -> ssorted L -> (forall y, In y L -> y < n) ->
  (forall a y, Anc a f -> kd a = FParallel -> y = a \/ Anc a y -> (In y L <-> C y)) ->
  C f ->
  length (done_pars c L f) <= 1 ->
  done_fast c L f x = done_large c L f x.
Proof.
  intros HC Hpr Hs Hb Hag Hf Hlen.
  destruct (par f) as [p|] eqn:Hp.
  2: { unfold done_fast, done_large. fold (anc f). fold (par f). rewrite (ehpd_anc_nil f Hp), Hp. cbn [fold_left].
       symmetry. apply done_walk_top. }
  destruct (whp_par_lt c W _ _ Hp) as [_ Hfn].
  assert (HancC : forall a, In a (anc f) -> Anc a f /\ C a).
  { intros a Ha. apply (whp_anc c W) in Ha. split; [exact Ha | exact (ehpd_C_anc C HC Hpr f a Hf Ha)]. }
  assert (HparL : forall a, In a (anc f) -> kd a = FParallel ->
            In a L /\ in_final c (n_states c) L a = fpar_done c L a /\ (in_final c (n_states c) L a = true <-> Qi L a)).
  { intros a Ha Hk. destruct (HancC a Ha) as [Haf HaC].
    assert (HaL : In a L) by (apply (Hag a a Haf Hk); [now left | exact HaC]).
    split; [exact HaL|]. split.
    - exact (ehpd_in_final_fpar L C a HC Hpr Hb (fun y => Hag a y Haf Hk) Hs HaL Hk).
    - apply (ehpd_in_final_Q L C a HC Hpr Hb (fun y => Hag a y Haf Hk)); [unfold n, n_states; lia | exact HaL | now left]. }
  unfold done_large. fold (par f). rewrite (ehpd_done_walk_list L (n_states c) f x Hfn).
  rewrite ee_lwalk_filter.
  - rewrite ee_done_fast_filter, ee_filter_rev. fold (anc f).
    rewrite (ee_filter_ext_in (fun a => is_parb c a && fpar_done c L a)
                              (fun a => is_parb c a && in_final c (n_states c) L a) (anc f)).
    + change (filter _ (anc f)) with (done_pars c L f). now rewrite (ee_rev_short c _ Hlen).
    + intros a Ha. destruct (is_parb c a) eqn:Hk; [|reflexivity]. cbn [andb]. symmetry.
      apply HparL; [exact Ha | now apply ee_is_parb].
  - intros l1 a l2 E Hpa Hda b Hb2 Hpb.
    assert (E' : anc f = rev l2 ++ a :: rev l1).
    { rewrite <- (rev_involutive (anc f)), E, rev_app_distr. cbn [rev]. now rewrite <- app_assoc. }
    pose proof (ehpd_anc_sorted f) as Hso. rewrite E' in Hso. apply ee_ssorted_app_inv in Hso as (_ & _ & Hlt).
    assert (Hba : b < a) by (apply Hlt; [now apply in_rev in Hb2 | now left]).
    assert (Ha : In a (anc f)) by (rewrite E'; apply in_app_iff; right; now left).
    assert (Hbin : In b (anc f)) by (rewrite E'; apply in_app_iff; left; now apply in_rev in Hb2).
    destruct (HancC a Ha) as [Haf _]. destruct (HancC b Hbin) as [Hbf _].
    assert (Hanc : Anc b a).
    { destruct (hanc_chain_p c b a f Hbf Haf) as [->|[H|H]]; [lia | exact H | destruct (hanc_lt_p c W _ _ H); lia]. }
    destruct (HparL a Ha (ee_is_parb c a Hpa)) as (_ & _ & HQa).
    destruct (HparL b Hbin (ee_is_parb c b Hpb)) as (_ & _ & HQb).
    destruct (in_final c (n_states c) L b) eqn:Hdb; [|reflexivity]. exfalso.
    assert (HA : in_final c (n_states c) L a = true); [|congruence].
    apply HQa. intros k HkL Hrel Hnf. apply (proj1 HQb eq_refl k HkL); [|exact Hnf]. right.
    destruct Hrel as [->|Hrel]; [exact Hanc | exact (hanc_trans_p c _ _ _ Hanc Hrel)].
Qed.

End Done.
