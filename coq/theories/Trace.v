(* Trace.v -- well-nestedness of monitor notifications (C13): a boolean recogniser of the grammar of
   DESIGN.md Appendix E over the canonical trace tokens.  Model only.

   run        ::= (RET | CFG | event | microstep | STABLE | completion)*
   microstep  ::= MS{ exit* transition* entry* }MS
   exit       ::= X{ i content* }X i
   transition ::= T{ t content* }T t
   entry      ::= E{ i content* }E i transition*
   content    ::= C{ e (content | LOG)* }C e
   completion ::= COMPL{ content* }COMPL *)
From V Require Import Base Chart Exec.
Local Open Scope N_scope.

(* open brackets, innermost first *)
Inductive frame :=
| FrMS (phase : nat)          (* 0 exits, 1 transitions, 2 entries *)
| FrX (s : N) | FrT (t : N) | FrE (s : N) | FrC (i : N) | FrCompl.

Definition top_level_ok (t : tok) : bool :=
  match t with TRet _ | TCfg _ | TEv _ | TStable => true | _ => false end.

(* one token against the stack; None = ill-formed *)
Definition wf_step (stk : list frame) (t : tok) : option (list frame) :=
  match t, stk with
  | TRet _, [] | TCfg _, [] | TEv _, [] | TStable, [] => Some stk
  | TMsB, [] => Some [FrMS 0]
  | TMsE, [FrMS _] => Some []
  | TComplB, [] => Some [FrCompl]
  | TComplE, [FrCompl] => Some []
  | TXb s, FrMS 0 :: r => Some (FrX s :: FrMS 0 :: r)
  | TXe s, FrX s' :: r => if s =? s' then Some r else None
  | TTb t, FrMS p :: r => if (p <=? 2)%nat then Some (FrT t :: FrMS (Nat.max p 1) :: r) else None
  | TTe t, FrT t' :: r => if t =? t' then Some r else None
  | TEb s, FrMS p :: r => if (p <=? 2)%nat then Some (FrE s :: FrMS 2 :: r) else None
  | TEe s, FrE s' :: r => if s =? s' then Some r else None
  | TCb i, (FrX _ :: _) | TCb i, (FrT _ :: _) | TCb i, (FrE _ :: _) | TCb i, (FrC _ :: _) | TCb i, (FrCompl :: _) =>
      Some (FrC i :: stk)
  | TCe i, FrC i' :: r => if i =? i' then Some r else None
  | TLog _, FrC _ :: _ => Some stk
  | _, _ => None
  end.

Fixpoint wf_run (stk : list frame) (l : list tok) : option (list frame) :=
  match l with
  | [] => Some stk
  | t :: r => match wf_step stk t with Some s' => wf_run s' r | None => None end
  end.

Definition wf_traceb (l : list tok) : bool :=
  match wf_run [] l with Some [] => true | _ => false end.

(* position of the first offending token, for reports *)
Fixpoint wf_first_bad (stk : list frame) (l : list tok) (n : nat) : option nat :=
  match l with
  | [] => match stk with [] => None | _ => Some n end
  | t :: r => match wf_step stk t with Some s' => wf_first_bad s' r (S n) | None => Some n end
  end.
