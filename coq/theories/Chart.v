(* Chart.v -- SCXML documents of the reference fragment as trees, and the flat tables the
   micro-step engines build from them (LargeMicroStep::init).  Model only. *)
From V Require Import Base.
Local Open Scope N_scope.

(* ------------------------------------------------------------------ expressions, content *)

Inductive iexpr :=
| INum (z : Z) | IVar (v : N) | IAdd (a b : iexpr) | ISub (a b : iexpr) | IBad.

Inductive bexpr :=
| BTrue | BFalse | BIn (sid : N) | BLt (a b : iexpr)
| BNot (a : bexpr) | BAnd (a b : bexpr) | BOr (a b : bexpr) | BBad.

(* executable content; [vid] identifies the element in monitor notifications *)
Inductive instr :=
| IRaise (vid : N) (ev : bytes)
| ISend (vid : N) (ev : bytes)              (* <send event=…/> to the session itself, no delay *)
| ISendBadType (vid : N) (ev : bytes)       (* unsupported type: error.execution *)
| ISendBadTarget (vid : N) (ev : bytes)     (* unreachable target: error.communication *)
| ILog (vid : N) (e : iexpr)
| IAssign (vid : N) (v : N) (e : iexpr)
| IIf (vid : N) (c : bexpr) (body : list ifitem)
with ifitem :=
| FElseif (c : bexpr) | FElse | FInstr (i : instr).

Definition block := list instr.

(* ------------------------------------------------------------------ documents as trees *)

Inductive skind := KScxml | KState | KParallel | KFinal | KHistShallow | KHistDeep | KInitial.

Record ttrans := {
  tt_vid : N;
  tt_event : option bytes;          (* the event attribute (descriptor list), None = eventless *)
  tt_cond : option bexpr;
  tt_targets : option (list N);     (* ids; None = no target attribute *)
  tt_internal : bool;
  tt_body : block
}.

Inductive tree :=
| TNode (kind : skind) (sid : N) (initattr : option (list N)) (trans : list ttrans)
        (onentry onexit : list block) (data : list (N * iexpr)) (kids : list tree).

Definition t_kind (t : tree) := let 'TNode k _ _ _ _ _ _ _ := t in k.
Definition t_sid (t : tree) := let 'TNode _ s _ _ _ _ _ _ := t in s.
Definition t_initattr (t : tree) := let 'TNode _ _ i _ _ _ _ _ := t in i.
Definition t_trans (t : tree) := let 'TNode _ _ _ tr _ _ _ _ := t in tr.
Definition t_onentry (t : tree) := let 'TNode _ _ _ _ e _ _ _ := t in e.
Definition t_onexit (t : tree) := let 'TNode _ _ _ _ _ x _ _ := t in x.
Definition t_data (t : tree) := let 'TNode _ _ _ _ _ _ d _ := t in d.
Definition t_kids (t : tree) := let 'TNode _ _ _ _ _ _ _ k := t in k.

Definition is_hist_kind (k : skind) := match k with KHistShallow | KHistDeep => true | _ => false end.
Definition is_pseudo_kind (k : skind) := match k with KHistShallow | KHistDeep | KInitial => true | _ => false end.
Definition is_proper_kind (k : skind) := negb (is_pseudo_kind k).

(* resortStates: every <history> child is moved in front of the first child one after the other
   (so several end up reversed), then every <initial> child likewise. *)
Fixpoint resort (t : tree) : tree :=
  let 'TNode k s i tr en ex d kids := t in
  let kids' := map resort kids in
  let hist := filter (fun c => is_hist_kind (t_kind c)) kids' in
  let rest := filter (fun c => negb (is_hist_kind (t_kind c))) kids' in
  let k1 := rev hist ++ rest in
  let ini := filter (fun c => match t_kind c with KInitial => true | _ => false end) k1 in
  let rest2 := filter (fun c => match t_kind c with KInitial => false | _ => true end) k1 in
  TNode k s i tr en ex d (rev ini ++ rest2).

(* ------------------------------------------------------------------ flat tables *)

Inductive ftype := FAtomic | FCompound | FParallel | FFinal | FHistShallow | FHistDeep | FInitial.

Record fstate := {
  fs_type : ftype;
  fs_sid : N;
  fs_parent : option nat;
  fs_children : list nat;       (* all state-like children, document order *)
  fs_ancestors : list nat;      (* ascending document order *)
  fs_completion : list nat;     (* ascending document order (a flat_set) *)
  fs_trans : list nat;          (* post-fix indices of the state's transitions, document order *)
  fs_onentry : list block;
  fs_onexit : list block;
  fs_data : list (N * iexpr);
  fs_size : nat                 (* number of state-like nodes in the sub-tree, incl. itself *)
}.

Record ftrans := {
  ft_vid : N;
  ft_source : nat;
  ft_targets : list nat;
  ft_targetless : bool;
  ft_internal : bool;
  ft_spontaneous : bool;
  ft_history : bool;
  ft_initial : bool;
  ft_event : bytes;
  ft_cond : option bexpr;
  ft_body : block;
  ft_has_body : bool
}.

Record fchart := {
  fc_states : list fstate;
  fc_trans : list ftrans;
  fc_late : bool
}.

Definition dummy_state : fstate :=
  {| fs_type := FAtomic; fs_sid := 0; fs_parent := None; fs_children := []; fs_ancestors := [];
     fs_completion := []; fs_trans := []; fs_onentry := []; fs_onexit := []; fs_data := []; fs_size := 1 |}.
Definition dummy_trans : ftrans :=
  {| ft_vid := 0; ft_source := 0; ft_targets := []; ft_targetless := true; ft_internal := false;
     ft_spontaneous := true; ft_history := false; ft_initial := false; ft_event := [];
     ft_cond := None; ft_body := []; ft_has_body := false |}.

Definition st (c : fchart) (i : nat) : fstate := nth i (fc_states c) dummy_state.
Definition tr (c : fchart) (i : nat) : ftrans := nth i (fc_trans c) dummy_trans.
Definition nstates (c : fchart) := length (fc_states c).
Definition ntrans (c : fchart) := length (fc_trans c).

(* --- pass 1: document-order numbering ------------------------------------------------ *)

Fixpoint tsize (t : tree) : nat :=
  S ((fix go (l : list tree) := match l with [] => O | x :: r => (tsize x + go r)%nat end) (t_kids t)).

Definition tsize_list (l : list tree) : nat := fold_right (fun x a => (tsize x + a)%nat) O l.

(* nodes in document order with parent index and own index *)
Fixpoint doc_nodes (t : tree) (self : nat) (parent : option nat) : list (tree * option nat) :=
  (t, parent) ::
  (fix go (l : list tree) (next : nat) : list (tree * option nat) :=
     match l with
     | [] => []
     | x :: r => doc_nodes x next (Some self) ++ go r (next + tsize x)%nat
     end) (t_kids t) (S self).

(* index of each direct child *)
Fixpoint child_indices (kids : list tree) (next : nat) : list nat :=
  match kids with
  | [] => []
  | x :: r => next :: child_indices r (next + tsize x)%nat
  end.

Definition nat_of_sid (ids : list (N * nat)) (s : N) : option nat :=
  match find (fun p => fst p =? s) ids with Some p => Some (snd p) | None => None end.

Definition has_proper_child (t : tree) : bool := existsb (fun c => is_proper_kind (t_kind c)) (t_kids t).

Definition type_of (t : tree) : ftype :=
  match t_kind t with
  | KInitial => FInitial
  | KFinal => FFinal
  | KHistDeep => FHistDeep
  | KHistShallow => FHistShallow
  | KParallel => FParallel
  | KScxml | KState => if has_proper_child t then FCompound else FAtomic
  end.

Fixpoint insert_sorted (x : nat) (l : list nat) : list nat :=
  match l with
  | [] => [x]
  | y :: r => if (x <? y)%nat then x :: l else if (x =? y)%nat then l else y :: insert_sorted x r
  end.
Definition set_of_list (l : list nat) : list nat := fold_left (fun a x => insert_sorted x a) l [].
Definition set_union (a b : list nat) : list nat := fold_left (fun a x => insert_sorted x a) b a.
Fixpoint mem (x : nat) (l : list nat) : bool :=
  match l with [] => false | y :: r => (x =? y)%nat || mem x r end.
Definition set_remove (x : nat) (l : list nat) : list nat := filter (fun y => negb (x =? y)%nat) l.
Definition set_inter (a b : list nat) : list nat := filter (fun x => mem x b) a.
Definition set_diff (a b : list nat) : list nat := filter (fun x => negb (mem x b)) a.
Definition intersects (a b : list nat) : bool := existsb (fun x => mem x b) a.

Fixpoint filter_map {A B} (f : A -> option B) (l : list A) : list B :=
  match l with [] => [] | x :: r => match f x with Some y => y :: filter_map f r | None => filter_map f r end end.

(* getCompletion *)
Definition completion_of (nodes : list (tree * option nat)) (ids : list (N * nat))
           (i : nat) (t : tree) (parent : option nat) (kid_idx : list nat) : list nat :=
  match t_kind t with
  | KHistDeep =>
      (* every non-history node below the history's parent *)
      match parent with
      | Some p =>
        let psz := tsize (fst (nth p nodes (t, None))) in
        filter (fun j => negb (is_hist_kind (t_kind (fst (nth j nodes (t, None))))))
               (seq (S p) (psz - 1))
      | None => []
      end
  | KHistShallow =>
      match parent with
      | Some p =>
        filter_map (fun j => match nth j nodes (t, None) with
                             | (tj, Some pj) => if (pj =? p)%nat && negb (is_hist_kind (t_kind tj)) then Some j else None
                             | _ => None end) (seq 0 (length nodes))
      | None => []
      end
  | KParallel =>
      filter_map (fun p => if is_proper_kind (t_kind (fst p)) then Some (snd p) else None) (combine (t_kids t) kid_idx)
  | _ =>
      match t_initattr t with
      | Some l => set_of_list (filter_map (nat_of_sid ids) l)
      | None =>
        match find (fun p => match t_kind (fst p) with KInitial => true | _ => false end) (combine (t_kids t) kid_idx) with
        | Some p => [snd p]
        | None =>
          match find (fun p => is_proper_kind (t_kind (fst p))) (combine (t_kids t) kid_idx) with
          | Some p => [snd p]
          | None => []
          end
        end
      end
  end.

(* --- pass 2: transitions in post-fix order of their parent element ------------------------ *)

(* state indices in post-fix order *)
Fixpoint postfix_states (t : tree) (self : nat) : list nat :=
  (fix go (l : list tree) (next : nat) : list nat :=
     match l with
     | [] => []
     | x :: r => postfix_states x next ++ go r (next + tsize x)%nat
     end) (t_kids t) (S self) ++ [self].

Definition mk_trans (ids : list (N * nat)) (src : nat) (k : skind) (t : ttrans) : ftrans :=
  {| ft_vid := tt_vid t;
     ft_source := src;
     ft_targets := match tt_targets t with Some l => filter_map (nat_of_sid ids) l | None => [] end;
     ft_targetless := match tt_targets t with Some _ => false | None => true end;
     ft_internal := tt_internal t;
     ft_spontaneous := match tt_event t with Some _ => false | None => true end;
     ft_history := is_hist_kind k;
     ft_initial := match k with KInitial => true | _ => false end;
     ft_event := match tt_event t with Some e => e | None => [] end;
     ft_cond := tt_cond t;
     ft_body := tt_body t;
     ft_has_body := match tt_body t with [] => false | _ => true end |}.

(* (source state, transition) pairs in post-fix order *)
Definition all_trans (nodes : list (tree * option nat)) (root : tree) : list (nat * ttrans * skind) :=
  flat_map (fun i => let t := fst (nth i nodes (root, None)) in
                     map (fun x => (i, x, t_kind t)) (t_trans t)) (postfix_states root 0).

Fixpoint index_where {A} (f : A -> bool) (l : list A) (n : nat) : list nat :=
  match l with [] => [] | x :: r => if f x then n :: index_where f r (S n) else index_where f r (S n) end.

Fixpoint ancestors_of (fuel : nat) (nodes : list (tree * option nat)) (root : tree) (i : nat) : list nat :=
  match fuel with
  | O => []
  | S f => match snd (nth i nodes (root, None)) with
           | Some p => insert_sorted p (ancestors_of f nodes root p)
           | None => []
           end
  end.

Definition flatten (late : bool) (t0 : tree) : fchart :=
  let root := resort t0 in
  let nodes := doc_nodes root 0 None in
  let n := length nodes in
  let ids := map (fun p => (t_sid (fst (fst p)), snd p)) (combine nodes (seq 0 n)) in
  let trs := all_trans nodes root in
  let all_data := flat_map (fun p => t_data (fst p)) nodes in
  let states :=
    map (fun p =>
           let '((t, parent), i) := p in
           let kid_idx := child_indices (t_kids t) (S i) in
           {| fs_type := type_of t;
              fs_sid := t_sid t;
              fs_parent := parent;
              fs_children := kid_idx;
              fs_ancestors := ancestors_of n nodes root i;
              fs_completion := completion_of nodes ids i t parent kid_idx;
              fs_trans := index_where (fun x => (fst (fst x) =? i)%nat) trs 0;
              fs_onentry := match i with O => [] | _ => t_onentry t end;
              fs_onexit := t_onexit t;
              fs_data := if late then t_data t else match i with O => all_data | _ => [] end;
              fs_size := tsize t |})
        (combine nodes (seq 0 n)) in
  {| fc_states := states;
     fc_trans := map (fun x => mk_trans ids (fst (fst x)) (snd x) (snd (fst x))) trs;
     fc_late := late |}.
