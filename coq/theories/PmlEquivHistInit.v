(* PmlEquivHistInit.v -- C06 beyond the history-free core: the first iteration of the emitted step process against the
   first step of FastMicroStep, on charts with pseudo-states (wf_histb): the root's completion may be deep or
   multiple or an <initial> element, whose transition (with its content) enters the transition set and runs after
   the <onentry> of its parent.  One more computable condition: trans_kindsb -- the transitions flagged HISTORY /
   INITIAL are those whose source is a pseudo-state (flatten sets the flags that way).  Proofs only. *)
From V Require Import Base NameMatch Chart Exec Large LargeLemmas Fast Interp Legal SetLemmas LegalAbstract LegalLarge LegalRun
                      WfCore Trie PmlStep TraceLemmas PmlStepLemmas SerializeCodecLemmas SerializeLemmas SerializeFastLemmas
                      LegalHistBase LegalHistEntry LegalHistStep LegalHistRun LegalHistWf LegalHistFast LegalHistFastRun
                      CGenEquivHist CGenEquivHistRun
                      PmlEquivBase PmlEquivExit PmlEquivContent PmlEquivStep PmlEquivMicro PmlEquivPmlTok PmlEquivInit
                      PmlEquivHistEntry PmlEquivHistStep PmlEquivHistMicro.
From Coq Require Import Sorted.
Local Open Scope nat_scope.

Definition trans_kindsb (c : fchart) : bool :=
  forallb (fun ti => Bool.eqb (ft_history (tr c ti) || ft_initial (tr c ti)) (is_pseudo (fs_type (st c (ft_source (tr c ti))))))
          (seq 0 (ntrans c)).

(* all conditions on a chart with pseudo-states *)
Definition chart_ph0 (c : fchart) : bool := chart_ph c && trans_kindsb c.

Section HInit.
Variable pv : pml_variant.
Variable c : fchart.
Variable iq eq : nat.
Hypothesis Hpv : pv_repaired pv.
Hypothesis H : wf_histb c = true.
Hypothesis Hroot : fs_type (st c 0) = FCompound.
Hypothesis Hch : chart_ph0 c = true.
Notation dom := (chart_dom c).
Hypothesis Hcontent : content_ok dom c = true.
Hypothesis Hdata : forall i, i <> 0 -> fs_data (st c i) = [].
Hypothesis Hdok : data_okb [] (fs_data (st c 0)) = true.
Let W : WFH c := wf_histb_sound c H.
Notation n := (nstates c).
Notation Anc := (LegalAbstract.Anc (fun i => fs_parent (st c i))).
Notation Rx := (Rx c).

Lemma Hin : pv_in_reads_root pv = false.
Proof. now destruct Hpv. Qed.
Lemma Hch1 : chart_ph c = true.
Proof. unfold chart_ph0 in Hch. now apply andb_true_iff in Hch. Qed.
Lemma Hkinds ti : ti < ntrans c ->
  (ft_history (tr c ti) || ft_initial (tr c ti)) = is_pseudo (fs_type (st c (ft_source (tr c ti)))).
Proof.
  intros Hti. unfold chart_ph0 in Hch. apply andb_true_iff in Hch as [_ K]. unfold trans_kindsb in K.
  apply eqb_prop. exact (forallb_seq0 _ _ K ti Hti).
Qed.

Lemma hn_pos : 0 < n.
Proof.
  destruct (wh_compound c W 0 Hroot) as [Hne Hall]. destruct (fs_completion (st c 0)) as [|g r] eqn:E; [congruence|].
  destruct (hanc_lt c W _ _ (Hall g (or_introl eq_refl))). lia.
Qed.

Lemma hall_data : flat_map (fun s => fs_data s) (fc_states c) = fs_data (st c 0).
Proof.
  unfold st. pose proof hn_pos as Hn. unfold nstates in Hn.
  destruct (fc_states c) as [|s0 rest] eqn:E; [cbn in Hn; lia|]. cbn [flat_map nth].
  assert (Hr : forall k, fs_data (nth k rest dummy_state) = []).
  { intros k. specialize (Hdata (S k) ltac:(lia)). unfold st in Hdata. rewrite E in Hdata. exact Hdata. }
  assert (Hf : flat_map (fun s => fs_data s) rest = []).
  { clear E Hn. induction rest as [|s1 r IH]; [reflexivity|]. cbn [flat_map].
    rewrite (Hr 0 : fs_data s1 = []). cbn [app]. apply IH. intros k. apply (Hr (S k)). }
  rewrite Hf. apply app_nil_r.
Qed.

Definition hstore0 : store := fold_left (fun sto d => update sto (fst d) (pml_ieval sto (snd d))) (fs_data (st c 0)) [].
Lemma hp_init_store : p_store (p_init c) = hstore0.
Proof. unfold p_init, hstore0. cbn [p_store]. now rewrite hall_data. Qed.

(* ---- the transition set of the initial entry holds only <initial> / default history transitions ---- *)
Definition pseudo_trans (ti : nat) : Prop :=
  ti < ntrans c /\ (ft_history (tr c ti) || ft_initial (tr c ti)) = true /\ fs_parent (st c (ft_source (tr c ti))) <> None.

Lemma trans_of_pseudo j ti : j < n -> pseudoS c j = true -> In ti (fs_trans (st c j)) -> pseudo_trans ti.
Proof.
  intros Hj Hp Hti. destruct chart_ph_parts with (c := c) as (_ & T & _); [exact Hch1|].
  pose proof (wh_tr_src c W j ti Hti) as Hs.
  rewrite (trans_list_of c T j Hj) in Hti. apply filter_In in Hti as [Hti _]. apply in_seq in Hti.
  split; [lia|]. split.
  - rewrite (Hkinds ti ltac:(lia)), Hs. exact Hp.
  - rewrite Hs. destruct (wh_pseudo_parent c W j Hp) as (q & Hq & _). rewrite Hq. discriminate.
Qed.

Lemma fdescend_ts_pseudo cfg ex hist es ts j : j < n -> Forall pseudo_trans ts ->
  Forall pseudo_trans (snd (fdescend_one c cfg ex hist (es, ts) j)).
Proof.
  intros Hj Ht.
  assert (Ins : forall ti tset, pseudo_trans ti -> Forall pseudo_trans tset -> Forall pseudo_trans (insert_sorted ti tset)).
  { intros ti tset P F. rewrite Forall_forall in *. intros y Hy. apply insert_sorted_In in Hy as [->|Hy]; auto. }
  unfold fdescend_one. destruct (negb (mem j es)); [exact Ht|].
  destruct (fs_type (st c j)) eqn:Hk; cbn [snd]; try exact Ht.
  - destruct (_ && _); exact Ht.
  - destruct (negb _); [|exact Ht].
    destruct (fs_trans (st c j)) as [|ti r] eqn:E; cbn [snd]; [exact Ht|]. apply Ins; [|exact Ht].
    apply (trans_of_pseudo j); [exact Hj|unfold pseudoS; now rewrite Hk|rewrite E; now left].
  - destruct (negb _); [|exact Ht].
    destruct (fs_trans (st c j)) as [|ti r] eqn:E; cbn [snd]; [exact Ht|]. apply Ins; [|exact Ht].
    apply (trans_of_pseudo j); [exact Hj|unfold pseudoS; now rewrite Hk|rewrite E; now left].
  - assert (Hin' : forall ti, In ti (fs_trans (st c j)) -> pseudo_trans ti).
    { intros ti Hti. apply (trans_of_pseudo j); [exact Hj|unfold pseudoS; now rewrite Hk|exact Hti]. }
    revert Hin'. generalize (fs_trans (st c j)). intros l. revert es ts Ht.
    induction l as [|ti r IH]; intros es ts Ht Hin'; cbn [fold_left snd]; [exact Ht|].
    apply IH; cbn [snd]; [apply Ins; [apply Hin'; now left|exact Ht]|]. intros t0 Ht0. apply Hin'. now right.
Qed.

Lemma fentry_ts_pseudo cfg ex hist tg : Forall pseudo_trans (snd (fentry_set c cfg ex hist tg [])).
Proof.
  unfold fentry_set, fn. generalize (add_ancestors c tg).
  assert (G : forall k j es ts0, j + k = n -> Forall pseudo_trans ts0 ->
              Forall pseudo_trans (snd (fold_left (fdescend_one c cfg ex hist) (seq j k) (es, ts0)))).
  { induction k as [|k IH]; intros j es ts0 Hjk F; cbn [seq fold_left]; [exact F|].
    pose proof (fdescend_ts_pseudo cfg ex hist es ts0 j ltac:(lia) F) as F1.
    destruct (fdescend_one c cfg ex hist (es, ts0) j) as [es1 ts1]. cbn [snd] in *. apply IH; [lia|exact F1]. }
  intros es. apply G; [reflexivity|constructor].
Qed.

(* TAKE_TRANSITIONS skips them, on both sides *)
Lemma take_pseudo_p ts s : Forall pseudo_trans ts -> fold_left (p_take_one pv c iq eq ts) (seq 0 (pnt c)) s = s.
Proof.
  intros F. generalize (seq 0 (pnt c)). induction l as [|j r IH]; cbn [fold_left]; [reflexivity|].
  assert (E : p_take_one pv c iq eq ts s j = s).
  { unfold p_take_one. destruct (mem j ts) eqn:M; [|reflexivity]. apply mem_true_In in M.
    rewrite Forall_forall in F. destruct (F j M) as (_ & Fl & _).
    destruct (ft_history (tr c j)), (ft_initial (tr c j)); try discriminate; reflexivity. }
  rewrite E. exact IH.
Qed.
Lemma take_pseudo_f ts cfg x : Forall pseudo_trans ts -> fold_left (take_one ex_fixed c cfg) ts x = x.
Proof.
  induction 1 as [|j r (_ & Fl & _) Fr IH]; cbn [fold_left]; [reflexivity|]. unfold take_one at 2. rewrite Fl. exact IH.
Qed.

(* ---- the content of <initial> transitions directly below the root ---- *)
Lemma pseudo_fold_sim0 l : Forall pseudo_trans l -> forall s x, Rx s x -> store_has dom (x_store x) -> guard_ok s ->
  let s' := fold_left (fun s j => if pseudo_guard c 0 s j then p_trans_body pv c iq eq s j else s) l s in
  p_full s' = false ->
  let x' := fold_left (fun x ti =>
                 let t := tr c ti in
                 if (ft_history t || ft_initial t) &&
                    match fs_parent (st c (ft_source t)) with Some p => p =? 0 | None => false end then
                   let y1 := emit (TTb (ft_vid t)) x in
                   let y2 := if ft_has_body t then exec_block ex_fixed (inst_of c (p_cfg s)) (ft_body t) y1 else y1 in
                   emit (TTe (ft_vid t)) y2
                 else x) l x in
  Rx s' x' /\ store_has dom (x_store x') /\ pframe s' = pframe s.
Proof.
  induction 1 as [|j r (_ & _ & Hpar) Fr IH]; intros s x R Hs G; cbn [fold_left]; intros Hf; [auto|].
  assert (M : mono (fun s => fold_left (fun s j => if pseudo_guard c 0 s j then p_trans_body pv c iq eq s j else s) r s)).
  { apply mono_fold. intros a. apply (mono_if (fun s => pseudo_guard c 0 s a)); [apply mono_trans_body|apply mono_id]. }
  pose proof (not_full_before _ _ M Hf) as Hf1. cbv zeta.
  assert (Eg : pseudo_guard c 0 s j =
               (ft_history (tr c j) || ft_initial (tr c j)) &&
               match fs_parent (st c (ft_source (tr c j))) with Some p => p =? 0 | None => false end).
  { unfold pseudo_guard, pparent. destruct (fs_parent (st c (ft_source (tr c j)))); [reflexivity|congruence]. }
  rewrite Eg in *.
  destruct ((ft_history (tr c j) || ft_initial (tr c j)) &&
            match fs_parent (st c (ft_source (tr c j))) with Some p => p =? 0 | None => false end).
  - destruct (trans_body_sim pv c iq eq dom Hin Hcontent s x j R Hs G Hf1) as (R1 & Hs1 & F1). cbv zeta in R1, Hs1.
    apply pframe_split in F1 as [C1 P1].
    destruct (IH _ _ R1 Hs1 (guard_ok_rest _ _ P1 G) Hf) as (R2 & Hs2 & F2). cbv zeta in R2, Hs2.
    rewrite C1 in R2, Hs2. split; [exact R2|]. split; [exact Hs2|].
    apply pframe_split in F2 as [C2 P2]. unfold pframe, prest in *. congruence.
  - apply IH; auto.
Qed.

(* ---- entering <scxml> ---- *)
Lemma hroot_enter_sim ts s x : ssorted ts -> bounded (ntrans c) ts -> Forall pseudo_trans ts ->
  p_cfg s = [] -> p_store s = hstore0 -> x_store x = [] ->
  p_iq s = map ev_name (x_iq x) -> p_eq s = map ev_name (x_eq x) -> pobs_list c (p_out s) = fobs_list (x_out x) ->
  p_tlf s = false -> p_fin s = false ->
  p_full (p_enter_body pv c iq eq ts s 0) = false ->
  ecorr c dom (p_enter_body pv c iq eq ts s 0)
        (fenter_one ex_fixed c ts {| ea_cfg := []; ea_initd := []; ea_tlf := false; ea_x := x |} 0) /\
  p_hist (p_enter_body pv c iq eq ts s 0) = p_hist s /\ p_spont (p_enter_body pv c iq eq ts s 0) = p_spont s.
Proof.
  intros Tss Tsb Tsp Hc Hst Hxs Hiq Heq Hout Ht Hf Hfull.
  unfold fenter_one. cbn [ea_cfg ea_initd ea_tlf ea_x mem]. rewrite Hroot. cbn [is_pseudo insert_sorted].
  set (x1 := emit (TEb (fs_sid (st c 0))) x).
  destruct (init_data_fold (fs_data (st c 0)) [] x1) as (D1 & D2 & D3 & D4 & D5); [unfold x1; cbn [emit x_store]; rewrite Hxs; intros v Hv; discriminate|exact Hdok|].
  cbv zeta in D1, D2, D3, D4, D5. set (x2 := fold_left (fun x d => init_data d x) (fs_data (st c 0)) x1) in *.
  fold (chart_dom c) in D5.
  unfold p_enter_body in *. cbv zeta in *. unfold ptype in *. rewrite Hroot in *. cbn [is_fin] in *.
  set (s1 := pe1 0 s) in *.
  assert (C1 : p_cfg s1 = [0]) by (unfold s1, pe1; cbn [set_cfg p_cfg]; now rewrite Hc).
  assert (R1 : Rx s1 x2).
  { unfold PmlEquivContent.Rx, s1, pe1. cbn [set_cfg out p_store p_iq p_eq p_out].
    rewrite D1, D2, D3, D4. unfold x1. cbn [emit x_store x_iq x_eq x_out]. rewrite Hxs, pobs_cons, fobs_cons. cbn [pobs fobs].
    unfold sid_of. rewrite Hout. repeat split; auto. }
  assert (P1 : prest s1 = prest s) by reflexivity.
  assert (G1 : guard_ok s1) by (unfold PmlEquivContent.guard_ok, s1, pe1; cbn [set_cfg out p_fin p_tlf]; now rewrite Hf).
  pose proof (not_full_before (pe3 pv c iq eq ts 0) _ (mono_pe3 pv c iq eq ts 0) Hfull) as Hf2.
  destruct (state_content_ok c dom Hcontent 0) as [Hok _].
  destruct (sim_opt_blocks pv c iq eq dom Hin (fs_onentry (st c 0)) (PProcEntry 0) s1 x2 eq_refl Hok R1 D5 G1 Hf2) as (R2 & Hs2 & F2).
  fold (pe2 pv c iq eq 0 s1) in R2, F2. rewrite C1 in R2, Hs2. apply pframe_split in F2 as [C2 P2].
  set (s2 := pe2 pv c iq eq 0 s1) in *.
  assert (R2' : Rx s2 (emit (TEe (fs_sid (st c 0))) (exec_blocks ex_fixed (inst_of c [0]) (fs_onentry (st c 0)) x2)))
    by (apply Rx_emit_none; auto).
  assert (G2 : guard_ok s2) by now apply (guard_ok_rest s1).
  rewrite (pe3_as_set pv c iq eq ts 0 s2 Tss Tsb) in Hfull |- *.
  destruct (pseudo_fold_sim0 ts Tsp s2 _ R2' Hs2 G2 Hfull) as (R3 & Hs3 & F3). cbv zeta in R3, Hs3.
  rewrite C2, C1 in R3, Hs3. apply pframe_split in F3 as [C3 P3]. unfold prest in P1, P2, P3.
  split; [|split; congruence].
  constructor; cbn [ea_cfg ea_x ea_tlf].
  - congruence.
  - exact R3.
  - exact Hs3.
  - congruence.
  - congruence.
  - repeat constructor.
  - apply bounded_intro. intros y [<-|[]]. exact hn_pos.
  - now left.
Qed.

(* ---- the first iteration ---- *)
Theorem pml_initial_step_hist_lemma :
  let s' := fst (pml_iter pv c iq eq (p_init c)) in
  let r := fast_step ex_fixed c l_pristine x_init in
  p_full s' = false ->
  corr c dom s' (fst (fst r)) (snd (fst r)) /\ hst_ok c (fst (fst r)) /\
  p_spont s' = true /\ l_spont (fst (fst r)) = true /\ l_init (fst (fst r)) = true /\
  l_fin (fst (fst r)) = false /\ l_cancelled (fst (fst r)) = false /\ snd r = RC_MICROSTEPPED.
Proof.
  cbv zeta. destruct Hpv as (_ & _ & _ & Her). destruct (chart_ph_parts c Hch1) as (D & T & _ & S0).
  (* the engine's next state is legal *)
  assert (Hnext : hst_ok c (fst (fst (fast_step ex_fixed c l_pristine x_init)))).
  { unfold fast_step. cbn [l_pristine l_fin l_tlf is_pristine l_spont l_init l_stable orb negb].
    pose proof (finitial_step_legal c ex_fixed W Hroot l_pristine (emit TMsB x_init) eq_refl (HistOK_nil c)) as L1.
    pose proof (fmicrostep_sorted ex_fixed c l_pristine (emit TMsB x_init) (fs_completion (st c 0)) [] [] true
                  ltac:(repeat split; constructor)) as L2.
    pose proof (fmicrostep_flags ex_fixed c l_pristine (emit TMsB x_init) (fs_completion (st c 0)) [] [] true) as (F1 & F2 & _).
    destruct (fmicrostep ex_fixed c l_pristine (emit TMsB x_init) (fs_completion (st c 0)) [] [] true) as [l1 x1]. cbn [fst snd] in *.
    split; [exact L1|]. constructor; [exact L2|right; exact F1|exact F2]. }
  unfold pml_iter, pml_dequeue. cbn [out p_spont p_init].
  set (sa := out PSpont (out PStep (p_init c))).
  rewrite pml_dstep_unfold. cbv zeta.
  assert (Esel : fst (p_select pv c None sa) = {| k_found := false; k_conf := []; k_target := []; k_exit := []; k_trans := [] |} /\
                 pcore (snd (p_select pv c None sa)) = pcore sa /\ p_hist (snd (p_select pv c None sa)) = [] /\
                 pobs_list c (p_out (snd (p_select pv c None sa))) = []).
  { assert (Csa : p_cfg sa = []) by reflexivity. unfold p_select. destruct (pnt c) eqn:Nt; cbn [fst snd].
    - repeat split. unfold sa. cbn. now rewrite andb_false_r.
    - rewrite Csa, (psel_empty pv c). cbn [k_found k_conf k_target k_exit k_trans set_inter filter]. repeat split. }
  destruct Esel as (Ea & Pc & Ph & Po). rewrite Ea. cbn [k_found k_target k_exit k_trans].
  set (s2 := snd (p_select pv c None sa)) in *.
  assert (C2 : p_cfg s2 = []) by (unfold pcore in Pc; injection Pc as Q _; exact Q).
  cbn [set_flags p_cfg p_found p_tlf p_fin]. rewrite C2. cbn [nonempty negb out p_found set_flags].
  unfold pcore in Pc. injection Pc as Q1 Q2 Q3 Q4 Q5 Q6 Q7 Q8 Q9.
  unfold sa in Q2, Q3, Q4, Q5, Q6, Q7, Q8, Q9. cbn [out p_store p_iq p_eq p_full p_spont p_tlf p_found p_fin] in Q2, Q3, Q4, Q5, Q6, Q7, Q8, Q9.
  set (s3 := out PInitialEntry (set_flags true (p_tlf s2) true (p_fin s2) (set_flags (p_spont s2) (p_tlf s2) false (p_fin s2) s2))).
  unfold fast_step in *. cbn [l_pristine l_fin l_tlf is_pristine l_spont l_init l_stable orb negb] in *.
  unfold fmicrostep in *. cbn [l_cfg l_hist l_initd l_tlf l_fin l_stable l_cancelled l_pristine rev fold_left] in *.
  unfold p_microstep.
  assert (Er : p_remember pv c [] s3 = out PSaveHist s3).
  { unfold p_remember. cbn [out p_cfg set_flags s3]. now rewrite C2. }
  rewrite Er. cbn [out p_cfg p_hist set_flags s3]. rewrite C2, Ph.
  (* ESTABLISH_ENTRY_SET *)
  destruct (pentry_set_h pv c W Her D T [] [] [] (fs_completion (st c 0)) (hinit_tg_bound c W Hroot) S0 (HistOK_nil c)
              (hinit_E0_uniq c W Hroot) QT (fun _ _ => I) (fun _ _ _ _ _ => I) (fun _ _ _ _ _ _ => I) (fun _ _ _ _ _ _ _ => I)
              (fun y (F : In y []) => match F with end) (fun y p (F : In y []) _ => match F with end)
              (fun y (F : In y []) => match F with end) (fun y (F : In y []) => match F with end) [] (out PSaveHist s3)) as [Ee _].
  pose proof (entry_set_silent pv c [] [] [] (fs_completion (st c 0)) [] (out PSaveHist s3)) as (seg & Qseg & Es2).
  assert (HF : HInv c [] [] (fs_completion (st c 0)) QT n (FEfin c [] [] [] (fs_completion (st c 0)) [])).
  { apply (FInv_fin c W [] [] [] (fs_completion (st c 0)) []); unfold QT; auto;
      first [exact (hinit_tg_bound c W Hroot) | exact (HistOK_nil c) | exact (hinit_E0_uniq c W Hroot) | intros y p F _; destruct F | intros y F; destruct F]. }
  pose proof (fentry_ts_ok c T [] [] [] (fs_completion (st c 0)) [] ssorted_nil (bounded_intro _ [] (fun _ F => match F with end))) as [Ts' Tb'].
  pose proof (fentry_es_sorted c [] [] [] (fs_completion (st c 0)) [] S0) as Es.
  pose proof (fentry_ts_pseudo [] [] [] (fs_completion (st c 0))) as Tp.
  destruct (p_entry_set pv c [] [] [] (fs_completion (st c 0)) [] (out PSaveHist s3)) as [[es1 ts1] s4] eqn:Epe. cbn [fst snd] in Ee, Es2.
  unfold FEfin in HF.
  destruct (fentry_set c [] [] [] (fs_completion (st c 0)) []) as [es ts'] eqn:Efs. cbn [fst snd] in *.
  injection Ee as -> ->. subst s4.
  destruct (silent_fields c seg (out PSaveHist s3) Qseg) as (Sc & Sh & So).
  set (s4 := outs seg (out PSaveHist s3)) in *.
  rewrite (exit_nil pv c iq eq), (take_pseudo_p ts' s4 Tp), (take_pseudo_f ts' [] _ Tp).
  rewrite (take_pseudo_f ts' [] _ Tp) in Hnext.
  (* the entry set starts with the root *)
  assert (H0 : In 0 es).
  { apply (hi_base _ _ _ _ _ _ _ HF); [|unfold pseudoS; now rewrite Hroot].
    destruct (wh_compound c W 0 Hroot) as [Hne Hall]. destruct (fs_completion (st c 0)) as [|g r] eqn:E; [congruence|].
    apply (In_HE0 c W). exists g. split; [now left|]. right. apply Hall. now left. }
  destruct es as [|e0 es']; [destruct H0|].
  assert (e0 = 0).
  { destruct H0 as [->|H0]; [reflexivity|]. apply ssorted_inv in Es as [_ Hlt]. specialize (Hlt 0 H0). lia. }
  subst e0.
  assert (Eb : forall y, In y (0 :: es') -> y < n) by exact (hi_bound _ _ _ _ _ _ _ HF).
  assert (Ebd : bounded n (0 :: es')) by (apply bounded_intro; exact Eb).
  intros Hfull. rewrite (enter_as_set pv c iq eq (0 :: es') ts' s4 Es Ebd) in Hfull |- *.
  cbn [fold_left] in Hfull, Hnext |- *.
  unfold pcore in Sc. injection Sc as Z1 Z2 Z3 Z4 Z5 Z6 Z7 Z8 Z9. cbn [out set_flags p_cfg p_store p_iq p_eq p_full p_spont p_tlf p_found p_fin s3] in Z1, Z2, Z3, Z4, Z5, Z6, Z7, Z8, Z9.
  assert (A1 : p_cfg s4 = []) by congruence.
  assert (G0 : negb (mem 0 (p_cfg s4)) && negb (is_pseudo (ptype c 0)) = true).
  { rewrite A1. unfold ptype. now rewrite Hroot. }
  rewrite G0 in Hfull |- *.
  set (fe := fun s i => if negb (mem i (p_cfg s)) && negb (is_pseudo (ptype c i)) then p_enter_body pv c iq eq ts' s i else s) in *.
  assert (M : mono (fun s => fold_left fe es' s)).
  { apply mono_fold. intros j. apply (mono_if (fun s => negb (mem j (p_cfg s)) && negb (is_pseudo (ptype c j)))); [apply mono_enter_body|apply mono_id]. }
  pose proof (not_full_before _ _ M Hfull) as Hf0.
  assert (A2 : p_store s4 = hstore0) by (rewrite Z2, Q2; apply hp_init_store).
  assert (A4 : p_iq s4 = map ev_name (x_iq (emit TMsB x_init))) by (rewrite Z3, Q3; reflexivity).
  assert (A5 : p_eq s4 = map ev_name (x_eq (emit TMsB x_init))) by (rewrite Z4, Q4; reflexivity).
  assert (A6 : pobs_list c (p_out s4) = fobs_list (x_out (emit TMsB x_init))).
  { rewrite So. unfold s3. cbn [out set_flags p_out]. rewrite !pobs_cons. cbn [pobs]. rewrite Po. reflexivity. }
  assert (A7 : p_tlf s4 = false) by (rewrite Z7, Q7; reflexivity).
  assert (A8 : p_fin s4 = false) by (rewrite Z9, Q9; reflexivity).
  destruct (hroot_enter_sim ts' s4 (emit TMsB x_init) Ts' Tb' Tp A1 A2 eq_refl A4 A5 A6 A7 A8 Hf0) as (E1 & Hh1 & Hsp1).
  assert (Hl : forall i, In i es' -> i < n) by (intros i Hi; apply Eb; now right).
  destruct (henter_fold_sim pv c iq eq dom Hin H Hcontent Hdata ts' es' Ts' Tb' Hl _ _ E1 Hfull) as (E2 & Hh2 & Hsp2).
  fold fe in E2, Hh2, Hsp2.
  set (s5 := fold_left fe es' (p_enter_body pv c iq eq ts' s4 0)) in *.
  destruct E2 as [F1 F2 F3 F4 F5 F6 F7 F8].
  cbn [fst snd l_cfg l_spont l_init l_fin l_cancelled] in *.
  assert (Hh : p_hist s5 = []) by (rewrite Hh2, Hh1, Sh; unfold s3; cbn [out set_flags p_hist]; exact Ph).
  assert (Hsp : p_spont s5 = true) by (rewrite Hsp2, Hsp1, Z6; reflexivity).
  split; [|split; [exact Hnext|repeat split; auto]].
  constructor; cbn [l_cfg l_hist l_tlf]; auto.
Qed.

End HInit.
