(* ValidateBridgeDoc.v -- the shape of the rendering ValidateBridge.gdoc_of_tree: which elements of the generic
   tree are state elements and where they sit (the relation At between element pointers and sub-trees), that
   everything else (executable content, <datamodel>) holds no state element and no transition, and the two
   side conditions of Properties_C19.validate_sound (single_machine, plain_ids).  Proofs only. *)
From V Require Import Base Chart Large Validate ValidateLemmas FlattenWf FlattenWfTree TreeLemmas ValidateBridge.
Local Open Scope nat_scope.

Local Notation G := gdoc_of_tree.

(* the children that are no state elements; their number; the number of those before the transitions *)
Definition t_front (u : tree) : list gdoc := g_front (t_trans u) (t_onentry u) (t_onexit u) (t_data u).
Definition off (u : tree) : nat := length (t_front u).
Definition t_pre (u : tree) : list gdoc :=
  g_data (t_data u) ++ map g_block (t_onentry u) ++ map g_block (t_onexit u).
Definition toff (u : tree) : nat := length (t_pre u).

Lemma G_unfold u :
  G u = GNode (gtag_of_kind (t_kind u)) (g_state_attrs (t_kind u) (t_sid u) (t_initattr u))
              (t_front u ++ map G (t_kids u)).
Proof. destruct u; reflexivity. Qed.

Lemma t_front_eq u : t_front u = t_pre u ++ map g_trans (t_trans u).
Proof. unfold t_front, g_front, t_pre. now rewrite !app_assoc. Qed.

Lemma G_tag u : g_tag (G u) = gtag_of_kind (t_kind u). Proof. now rewrite G_unfold. Qed.
Lemma G_attrs u : g_attrs (G u) = g_state_attrs (t_kind u) (t_sid u) (t_initattr u). Proof. now rewrite G_unfold. Qed.
Lemma G_kids u : g_kids (G u) = t_front u ++ map G (t_kids u). Proof. now rewrite G_unfold. Qed.

(* ------------------------------------------------------------------ inert elements *)

Definition inert_tag (t : gtag) : bool := match t with GContainer | GExec | GOther => true | _ => false end.
Fixpoint inertb (d : gdoc) : bool := match d with GNode t _ kids => inert_tag t && forallb inertb kids end.

Lemma inert_desc : forall d p anc e, inertb d = true -> In e (desc_from p anc d) -> inert_tag (e_tag e) = true.
Proof.
  induction d as [t a kids IH] using gdoc_ind'. intros p anc e Hi He. cbn [inertb] in Hi.
  apply andb_true_iff in Hi as [Ht Hk]. apply In_desc_from in He as [-> | (n & x & Hn & He)]; [exact Ht|].
  cbn [g_kids] in Hn. apply nth_error_In in Hn. rewrite Forall_forall in IH. rewrite forallb_forall in Hk.
  exact (IH x Hn _ _ e (Hk x Hn) He).
Qed.

Lemma g_instr_inert : forall i, inertb (g_instr i) = true.
Proof.
  fix IH 1. intros [v e|v e|v e|v e|v e|v x e|v c body]; try reflexivity.
  cbn [g_instr inertb inert_tag andb].
  induction body as [|f r IHr]; [reflexivity|]. cbn [forallb]. rewrite IHr, andb_true_r.
  destruct f as [c'| |j]; [reflexivity | reflexivity | apply IH].
Qed.

Lemma g_block_inert b : inertb (g_block b) = true.
Proof.
  unfold g_block. cbn [inertb inert_tag andb]. apply forallb_forall. intros x Hx.
  apply in_map_iff in Hx as (i & <- & _). apply g_instr_inert.
Qed.

Lemma g_data_inert d x : In x (g_data d) -> inertb x = true.
Proof.
  unfold g_data. destruct d as [|p r]; [intros []|]. intros [<-|[]]. cbn [inertb inert_tag andb].
  apply forallb_forall. intros y Hy. apply in_map_iff in Hy as (q & <- & _). reflexivity.
Qed.

Lemma t_pre_inert u x : In x (t_pre u) -> inertb x = true.
Proof.
  unfold t_pre. rewrite !in_app_iff. intros [H|[H|H]].
  - eapply g_data_inert; eauto.
  - apply in_map_iff in H as (b & <- & _). apply g_block_inert.
  - apply in_map_iff in H as (b & <- & _). apply g_block_inert.
Qed.

(* below a rendered <transition>: the transition itself, then executable content *)
Lemma g_trans_desc x p anc e : In e (desc_from p anc (g_trans x)) ->
  e = {| e_path := p; e_node := g_trans x; e_anc := anc |} \/ inert_tag (e_tag e) = true.
Proof.
  intros He. apply In_desc_from in He as [-> | (n & y & Hn & He)]; [now left|]. right.
  unfold g_trans in Hn. cbn [g_kids] in Hn. apply nth_error_In in Hn. apply in_map_iff in Hn as (i & <- & _).
  eapply inert_desc; [apply g_instr_inert | exact He].
Qed.

(* nothing below a non-state child is a state element *)
Lemma front_desc_no_state u x p anc e : In x (t_front u) -> In e (desc_from p anc x) ->
  is_state_tag (e_tag e) false = false.
Proof.
  rewrite t_front_eq, in_app_iff. intros [Hx|Hx] He.
  - pose proof (inert_desc x p anc e (t_pre_inert u x Hx) He) as Hi. destruct (e_tag e); try discriminate; reflexivity.
  - apply in_map_iff in Hx as (y & <- & _). apply g_trans_desc in He as [-> | Hi].
    + reflexivity.
    + destruct (e_tag e); try discriminate; reflexivity.
Qed.

(* ... and the only transitions there are the rendered <transition> children themselves *)
Lemma front_desc_trans u n x p anc e : nth_error (t_front u) n = Some x -> In e (desc_from p anc x) ->
  e_tag e = GTransition ->
  exists i y, nth_error (t_trans u) i = Some y /\ n = toff u + i /\ x = g_trans y /\
              e = {| e_path := p; e_node := g_trans y; e_anc := anc |}.
Proof.
  rewrite t_front_eq. intros Hn He Ht. destruct (Nat.lt_ge_cases n (toff u)) as [Hlt|Hge].
  - rewrite nth_error_app1 in Hn by exact Hlt. apply nth_error_In in Hn.
    pose proof (inert_desc x p anc e (t_pre_inert u x Hn) He) as Hi. rewrite Ht in Hi. discriminate.
  - rewrite nth_error_app2 in Hn by exact Hge. fold (toff u) in Hn.
    rewrite nth_error_map in Hn. destruct (nth_error (t_trans u) (n - toff u)) as [y|] eqn:Ey; [|discriminate].
    cbn [option_map] in Hn. inversion Hn; subst x. exists (n - toff u), y. split; [exact Ey|]. split; [lia|]. split; [reflexivity|].
    apply g_trans_desc in He as [-> | Hi]; [reflexivity|]. rewrite Ht in Hi. discriminate.
Qed.

(* ------------------------------------------------------------------ positions of the state elements *)

(* At t p anc u: the element with pointer p (ancestor chain anc) of the rendering of t is the rendering of the
   sub-tree u *)
Inductive At (t : tree) : ptr -> list gdoc -> tree -> Prop :=
| At_root : At t [] [] t
| At_kid p anc u j k : At t p anc u -> nth_error (t_kids u) j = Some k -> At t ((off u + j) :: p) (G u :: anc) k.

Definition el_at (p : ptr) (anc : list gdoc) (u : tree) : el := {| e_path := p; e_node := G u; e_anc := anc |}.

Lemma nth_G_kid u j k : nth_error (t_kids u) j = Some k -> nth_error (g_kids (G u)) (off u + j) = Some (G k).
Proof.
  intros Hj. rewrite G_kids. rewrite nth_error_app2 by (unfold off; lia).
  replace (off u + j - length (t_front u)) with j by (unfold off; lia). now rewrite nth_error_map, Hj.
Qed.

Lemma At_subtree t p anc u : At t p anc u -> In u (subtrees t).
Proof.
  induction 1 as [|p anc u j k _ IH Hj]; [apply subtrees_self|].
  eapply subtrees_trans; [exact IH|]. eapply subtrees_kid; [eapply nth_error_In; exact Hj | apply subtrees_self].
Qed.

(* the element of a position is in the universe of the rendering *)
Lemma At_in_universe t p anc u : At t p anc u -> In (el_at p anc u) (universe (G t)).
Proof.
  induction 1 as [|p anc u j k _ IH Hj]; [apply root_in_universe|].
  eapply universe_kids_closed; [exact IH|]. apply kids_el_In. exists (off u + j), (G k).
  cbn [el_at e_node e_path e_anc]. split; [now apply nth_G_kid | reflexivity].
Qed.

(* every state element below a position is a position *)
Lemma desc_state_At t : forall u p anc e, At t p anc u -> In e (desc_from p anc (G u)) ->
  is_state_tag (e_tag e) false = true -> exists w, At t (e_path e) (e_anc e) w /\ e_node e = G w.
Proof.
  induction u as [k s ini trl en ex d kids IH] using tree_ind'. intros p anc e HA He Hs.
  set (u := TNode k s ini trl en ex d kids) in *.
  apply In_desc_from in He as [-> | (n & x & Hn & He)]; [exists u; split; [exact HA | reflexivity]|].
  rewrite G_kids in Hn. destruct (Nat.lt_ge_cases n (off u)) as [Hlt|Hge].
  - rewrite nth_error_app1 in Hn by exact Hlt. apply nth_error_In in Hn.
    rewrite (front_desc_no_state u x _ _ e Hn He) in Hs. discriminate.
  - rewrite nth_error_app2 in Hn by exact Hge. rewrite nth_error_map in Hn.
    destruct (nth_error (t_kids u) (n - length (t_front u))) as [kid|] eqn:Ek; [|discriminate].
    cbn [option_map] in Hn. inversion Hn; subst x. rewrite Forall_forall in IH.
    replace n with (off u + (n - length (t_front u))) in He by (unfold off in *; lia).
    eapply (IH kid); [eapply nth_error_In; exact Ek | | exact He | exact Hs].
    apply At_kid; [exact HA | exact Ek].
Qed.

Lemma universe_state_At t e : In e (universe (G t)) -> is_state_tag (e_tag e) false = true ->
  exists w, At t (e_path e) (e_anc e) w /\ e_node e = G w.
Proof. rewrite universe_eq. intros He Hs. eapply desc_state_At; [apply At_root | exact He | exact Hs]. Qed.

(* the element of a rendered <transition> child *)
Definition tr_at (p : ptr) (anc : list gdoc) (u : tree) (i : nat) (x : ttrans) : el :=
  {| e_path := (toff u + i) :: p; e_node := g_trans x; e_anc := G u :: anc |}.

Lemma tr_at_kid p anc u i x : nth_error (t_trans u) i = Some x -> In (tr_at p anc u i x) (kids_el (el_at p anc u)).
Proof.
  intros Hi. apply kids_el_In. exists (toff u + i), (g_trans x). cbn [el_at e_node e_path e_anc]. split; [|reflexivity].
  rewrite G_kids, t_front_eq, <- app_assoc. rewrite nth_error_app2 by (unfold toff; lia).
  replace (toff u + i - length (t_pre u)) with i by (unfold toff; lia).
  rewrite nth_error_app1 by (rewrite map_length; apply nth_error_Some; congruence).
  now rewrite nth_error_map, Hi.
Qed.

Lemma tr_at_in_universe t p anc u i x : At t p anc u -> nth_error (t_trans u) i = Some x ->
  In (tr_at p anc u i x) (universe (G t)).
Proof.
  intros HA Hi. eapply universe_kids_closed; [apply At_in_universe; exact HA | now apply tr_at_kid].
Qed.

Lemma tr_at_in_all t p anc u i x : At t p anc u -> nth_error (t_trans u) i = Some x ->
  In (tr_at p anc u i x) (with_tag GTransition (descendants (root_el (G t)))).
Proof.
  intros HA Hi. apply with_tag_In. split; [|reflexivity].
  destruct (tr_at_in_universe t p anc u i x HA Hi) as [E|H]; [discriminate E | exact H].
Qed.

(* the transitions below a position are the <transition> children of the positions below it *)
Lemma desc_trans_At t : forall u p anc e, At t p anc u -> In e (desc_from p anc (G u)) -> e_tag e = GTransition ->
  exists q a w i x, At t q a w /\ nth_error (t_trans w) i = Some x /\ e = tr_at q a w i x /\
                    exists r, q = r ++ p.
Proof.
  induction u as [k s ini trl en ex d kids IH] using tree_ind'. intros p anc e HA He Ht.
  set (u := TNode k s ini trl en ex d kids) in *.
  apply In_desc_from in He as [-> | (n & x & Hn & He)].
  { unfold e_tag in Ht. cbn [e_node] in Ht. rewrite G_tag in Ht. destruct (t_kind u); discriminate. }
  rewrite G_kids in Hn. destruct (Nat.lt_ge_cases n (off u)) as [Hlt|Hge].
  - rewrite nth_error_app1 in Hn by exact Hlt.
    destruct (front_desc_trans u n x _ _ e Hn He Ht) as (i & y & Hi & -> & -> & ->).
    exists p, anc, u, i, y. split; [exact HA|]. split; [exact Hi|]. split; [reflexivity|]. now exists [].
  - rewrite nth_error_app2 in Hn by exact Hge. rewrite nth_error_map in Hn.
    destruct (nth_error (t_kids u) (n - length (t_front u))) as [kid|] eqn:Ek; [|discriminate].
    cbn [option_map] in Hn. inversion Hn; subst x. rewrite Forall_forall in IH.
    replace n with (off u + (n - length (t_front u))) in He by (unfold off in *; lia).
    destruct (IH kid (nth_error_In _ _ Ek) _ _ e (At_kid t p anc u _ kid HA Ek) He Ht)
      as (q & a & w & i & y & HAw & Hi & -> & r & ->).
    exists (r ++ (off u + (n - length (t_front u))) :: p), a, w, i, y. repeat split; try assumption.
    exists (r ++ [off u + (n - length (t_front u))]). now rewrite <- app_assoc.
Qed.
