(* PmlEquivHistRun.v -- C06 beyond the history-free core: whole runs of the emitted step process against the
   interpreter's driver loop around FastMicroStep, on documents with <initial> elements, deep / multiple initial
   attributes and <history> (wf_histb, chart_ph0).  PmlEquivRun.v with the state invariant of the engine taken from
   LegalHistRun.v (hst_ok) and the step theorems of PmlEquivHistMicro.v / PmlEquivHistInit.v.  Proofs only. *)
From V Require Import Base NameMatch Chart Exec Large Interp Legal SetLemmas LegalAbstract LegalLarge WfCore Fast Trie PmlStep
                      TraceLemmas PmlStepLemmas SerializeCodecLemmas SerializeLemmas SerializeFastLemmas
                      LegalHistBase LegalHistRun LegalHistWf
                      PmlEquivBase PmlEquivExit PmlEquivContent PmlEquivStep PmlEquivMicro
                      PmlEquivNames PmlEquivInit PmlEquivRun PmlEquivHistEntry PmlEquivHistMicro PmlEquivHistInit.
Local Open Scope nat_scope.

Section HRun.
Variable pv : pml_variant.
Variable c : fchart.
Variable iq eq : nat.
Variable P : bytes -> Prop.       (* the event names the guard literals know *)
Hypothesis Hpv : pv_repaired pv.
Hypothesis H : wf_histb c = true.
Hypothesis Hroot : fs_type (st c 0) = FCompound.
Hypothesis Hch : chart_ph0 c = true.
Notation dom := (chart_dom c).
Hypothesis Hcontent : content_ok dom c = true.
Hypothesis Hdata : forall i, i <> 0 -> fs_data (st c i) = [].
Hypothesis Hdok : data_okb [] (fs_data (st c 0)) = true.
Hypothesis HPne : forall e, P e -> e <> [].
Hypothesis Hnames : chart_names P c.
Hypothesis Hdone : forall j,
  (is_par (ptype c j) = true \/
   exists i, is_fin (ptype c i) = true /\ fs_parent (st c i) = Some j /\ mem 1 (fs_children (st c j)) = false) ->
  P (done_name c j).
Hypothesis Hmatch : forall i name, P name -> i < ntrans c -> ft_spontaneous (tr c i) = false ->
  resolved_match (guard_literals pv c i) name = name_match_impl nm_fixed (ft_event (tr c i)) name.

Notation fstep := (fast_step ex_fixed c).
Notation frun := (run_loop c lstate (fast_step ex_fixed c) l_cfg).
Notation ctok := (cfg_tok c lstate l_cfg).
Notation Rx := (Rx c).
Notation reaches := (PmlEquivRun.reaches c).
Notation final_rel := (PmlEquivRun.final_rel c).

(* corresponding states between two iterations of the emitted model's loop *)
Record sync (s : pstate) (l : lstate) (x : xstate) : Prop := {
  sy_corr : corr c dom s l x;
  sy_ok : hst_ok c l;
  sy_spont : p_spont s = l_spont l;
  sy_quiet : p_spont s = false -> k_trans (selected pv c (l_cfg l) None (x_store x)) = [];
  sy_init : l_init l = true;
  sy_fin : l_fin l = false;
  sy_canc : l_cancelled l = false;
  sy_full : p_full s = false;
  sy_names : qinv P s
}.


Lemma Hin' : pv_in_reads_root pv = false.
Proof. now destruct Hpv. Qed.
Lemma Hch1 : chart_ph c = true.
Proof. unfold chart_ph0 in Hch. now apply andb_true_iff in Hch. Qed.

Lemma hst_ok_upd l a b : hst_ok c l -> l_init l = true -> hst_ok c (upd_flags l a b).
Proof.
  intros [O1 [S1 _ S3]] Li. split; [exact O1|]. constructor; [exact S1|right; exact Li|exact S3].
Qed.
Lemma hst_ok_sorted l : hst_ok c l -> ssorted (l_cfg l) /\ bounded (nstates c) (l_cfg l).
Proof.
  intros [[[_ HB] _] [(S1 & _) _ _]]. split; [exact S1|]. apply bounded_intro. intros y Hy. now destruct (HB y Hy).
Qed.

Lemma sync_emit t s l x : fobs t = None -> sync s l x -> sync s l (emit t x).
Proof. intros Ht [S1 S2 S3 S4 S5 S6 S7 S8 S9]. constructor; auto. now apply (corr_emit c). Qed.

(* ---- one d_step, and the engine's extra event-less selection after an event that enabled nothing ---- *)
Lemma select_sync sd l xd evf s1 :
  corr c dom sd l xd -> hst_ok c l -> qinv P sd ->
  l_init l = true -> l_fin l = false -> l_cancelled l = false -> l_tlf l = false ->
  (forall e, evf = Some e -> P (ev_name e)) ->
  (evf <> None -> k_trans (selected pv c (l_cfg l) None (x_store xd)) = []) ->
  pml_dstep pv c iq eq (option_map ev_name evf) sd = (s1, PRunning) ->
  let r := fselect_and_step ex_fixed c l xd evf in
  exists l1 x1, reaches (fst (fst r)) (emit (ctok (fst (fst r))) (emit (TRet (snd r)) (snd (fst r)))) l1 x1 /\ sync s1 l1 x1.
Proof.
  intros Hco Hcf Hq Li Lf Lc Lt HevP Hquiet Hd. cbv zeta.
  assert (Hfull : p_full s1 = false).
  { unfold pml_dstep in Hd. destruct (p_select pv c (option_map ev_name evf) sd) as [a s2].
    match type of Hd with (let '(_, _) := ?t in _) = _ => destruct t as [tg s3] end.
    injection Hd as <- Hst. destruct (p_full _); [discriminate|reflexivity]. }
  assert (Es1 : s1 = fst (pml_dstep pv c iq eq (option_map ev_name evf) sd)) by now rewrite Hd.
  assert (Hm : forall i e, i < ntrans c -> evf = Some e -> ft_spontaneous (tr c i) = false ->
               resolved_match (guard_literals pv c i) (ev_name e) = name_match_impl nm_fixed (ft_event (tr c i)) (ev_name e)).
  { intros i e Hi He Hs. apply Hmatch; auto. }
  pose proof (pml_microstep_hist_lemma pv c iq eq dom Hpv H Hch1 Hcontent Hdata sd l xd evf Hco Hcf Li Hm) as MS.
  cbv zeta in MS. rewrite <- Es1 in MS. specialize (MS Hfull). destruct MS as (K1 & K2 & K3).
  pose proof (qinv_dstep P pv c iq eq Hnames Hdone (option_map ev_name evf) sd Hq) as Hq1. rewrite <- Es1 in Hq1.
  destruct (fselect_and_step_flags c l xd evf Li) as (G1 & G2 & G3).
  pose proof (fselect_and_step_rc ex_fixed c l xd evf) as Hrc.
  set (A := selected pv c (l_cfg l) (option_map ev_name evf) (x_store xd)) in *.
  destruct (nonempty (k_trans A)) eqn:Ne.
  - (* a microstep *)
    destruct K3 as [K3 K4].
    exists (fst (fst (fselect_and_step ex_fixed c l xd evf))), (emit (ctok (fst (fst (fselect_and_step ex_fixed c l xd evf))))
              (emit (TRet (snd (fselect_and_step ex_fixed c l xd evf))) (snd (fst (fselect_and_step ex_fixed c l xd evf))))).
    split; [apply (reaches_refl c)|].
    apply sync_emit; [reflexivity|]. apply sync_emit; [reflexivity|].
    constructor; auto; try congruence.
  - (* nothing enabled *)
    destruct K3 as [K3 K4].
    assert (Ek : k_trans A = []) by (destruct (k_trans A); [reflexivity|discriminate]).
    pose proof (hnotfound_step pv c dom Hpv Hch1 Hcontent sd l xd evf Hco Hm Ek) as NF.
    rewrite NF in *. cbn [fst snd] in *.
    set (l1 := upd_flags (upd_flags l (l_spont l) false) (match evf with Some _ => true | None => false end) false) in *.
    destruct evf as [e|].
    + (* after an event: the engine selects event-less transitions once more *)
      set (x1 := emit (ctok l1) (emit (TRet RC_MICROSTEPPED) xd)).
      assert (Hco1 : corr c dom s1 l1 x1) by (apply (corr_emit c); [reflexivity|]; apply (corr_emit c); [reflexivity|exact K1]).
      assert (Hq0 : k_trans (selected pv c (l_cfg l1) None (x_store x1)) = []) by (apply Hquiet; discriminate).
      assert (Hm0 : forall i e0, i < ntrans c -> @None event = Some e0 -> ft_spontaneous (tr c i) = false ->
                   resolved_match (guard_literals pv c i) (ev_name e0) = name_match_impl nm_fixed (ft_event (tr c i)) (ev_name e0))
        by (intros i e0 _ F; discriminate F).
      pose proof (hnotfound_step pv c dom Hpv Hch1 Hcontent s1 l1 x1 None Hco1 Hm0 Hq0) as NF2.
      assert (Est : fstep l1 x1 = (upd_flags (upd_flags l1 (l_spont l1) false) false false, x1, RC_MICROSTEPPED)).
      { rewrite (fstep_spont c); [exact NF2| | | |]; unfold l1; cbn [upd_flags l_fin l_tlf l_init l_spont]; auto. }
      set (l2 := upd_flags (upd_flags l1 (l_spont l1) false) false false) in *.
      exists l2, (emit (ctok l2) (emit (TRet RC_MICROSTEPPED) x1)).
      split; [apply (reaches_step c l1 x1 l2 x1 RC_MICROSTEPPED Est); now left|].
      apply sync_emit; [reflexivity|]. apply sync_emit; [reflexivity|].
      assert (Hok2 : hst_ok c l2) by (unfold l2; apply hst_ok_upd; [apply hst_ok_upd; [exact K2|exact G1]|exact G1]).
      destruct Hco1 as [C1 C2 C3 C4 C5 C6].
      constructor; auto; try (intros _; exact Hq0). constructor; auto.
    + exists l1, (emit (ctok l1) (emit (TRet RC_MICROSTEPPED) xd)).
      split; [apply (reaches_refl c)|].
      apply sync_emit; [reflexivity|]. apply sync_emit; [reflexivity|].
      constructor; auto; try (intros _; exact Ek).
Qed.

(* ---- one iteration of the emitted model's loop ---- *)
Lemma iter_sync s l x s1 : sync s l x -> p_fin s = false -> pml_iter pv c iq eq s = (s1, PRunning) ->
  exists l1 x1, reaches l x l1 x1 /\ sync s1 l1 x1.
Proof.
  intros [Sco Scf Ssp Sq Si Sf Sc Sfu Sn] Hfin Hit.
  pose proof Sco as [C1 C2 C3 C4 C5 C6].
  assert (Lt : l_tlf l = false) by congruence.
  assert (Hpr : is_pristine l = false) by (unfold is_pristine; rewrite Si; now rewrite !orb_true_r).
  unfold pml_iter, pml_dequeue in Hit. cbn [out p_spont p_iq p_eq] in Hit.
  destruct (p_spont s) eqn:Esp.
  - (* the event-less selection *)
    set (sd := out PSpont (out PStep s)) in *.
    assert (Hcd : corr c dom sd l x) by (apply (corr_out c); [reflexivity|]; apply (corr_out c); [reflexivity|exact Sco]).
    destruct (select_sync sd l x None s1 Hcd Scf Sn Si Sf Sc Lt) as (l1 & x1 & R1 & Y1);
      [intros e F; discriminate F | intros F; now contradiction F | exact Hit|].
    cbv zeta in R1.
    assert (Est : fstep l x = fselect_and_step ex_fixed c l x None) by (apply (fstep_spont c); auto; congruence).
    exists l1, x1. split; [|exact Y1].
    eapply (reaches_trans c); [|exact R1].
    destruct (fselect_and_step ex_fixed c l x None) as [[l' x'] rc] eqn:Efs.
    apply (reaches_step c l x l' x' rc Est). left.
    pose proof (fselect_and_step_rc ex_fixed c l x None) as Hrc. now rewrite Efs in Hrc.
  - destruct (p_iq s) as [|e r] eqn:Eiq.
    + destruct (p_eq s) as [|e r] eqn:Eeq; [discriminate Hit|].
      (* an external event; the engine announces the stable configuration first *)
      destruct C3 as (R1 & R2 & R3 & R4). rewrite Eiq in R2. rewrite Eeq in R3.
      assert (Xiq : x_iq x = []) by (destruct (x_iq x); [reflexivity|discriminate]).
      destruct (map_cons_inv _ _ _ (eq_sym R3)) as (ev & xr & Xeq & Hev & Hxr).
      assert (Pe : P e) by (destruct Sn as [_ Sn2]; rewrite Eeq in Sn2; now inversion Sn2).
      assert (Hne : ev_name ev <> []) by (rewrite Hev; now apply HPne).
      set (sd := out PDeqExt (set_eq r (out PStep s))) in *.
      set (x0 := {| x_store := x_store x; x_iq := x_iq x; x_eq := xr; x_out := x_out x |}).
      (* the states before the selection, with the stable flag whatever it is *)
      assert (Hsel : forall lb xb, hst_ok c lb -> l_cfg lb = l_cfg l -> l_hist lb = l_hist l -> l_tlf lb = l_tlf l -> l_init lb = true ->
                l_fin lb = false -> l_cancelled lb = false ->
                x_store xb = x_store x -> x_iq xb = [] -> x_eq xb = xr -> fobs_list (x_out xb) = fobs_list (x_out x) ->
                exists l1 x1, reaches (fst (fst (fselect_and_step ex_fixed c lb (emit (TEv (ev_name ev)) xb) (Some ev))))
                                (emit (ctok (fst (fst (fselect_and_step ex_fixed c lb (emit (TEv (ev_name ev)) xb) (Some ev)))))
                                   (emit (TRet (snd (fselect_and_step ex_fixed c lb (emit (TEv (ev_name ev)) xb) (Some ev))))
                                      (snd (fst (fselect_and_step ex_fixed c lb (emit (TEv (ev_name ev)) xb) (Some ev)))))) l1 x1 /\
                              sync s1 l1 x1).
      { intros lb xb Hcb B1 B2 B3 B4 B5 B6 B7 B8 B9 B10.
        assert (Hcd : corr c dom sd lb (emit (TEv (ev_name ev)) xb)).
        { constructor; unfold sd; cbn [out set_eq emit p_cfg p_hist p_tlf p_fin x_store]; try congruence.
          - unfold PmlEquivContent.Rx. cbn [out set_eq emit p_store p_iq p_eq p_out x_store x_iq x_eq x_out].
            rewrite !pobs_cons, fobs_cons. cbn [pobs fobs]. rewrite B7, B8, B9, B10, Eiq. auto.
          - now rewrite B7. }
        assert (Hqd : qinv P sd).
        { destruct Sn as [Sn1 Sn2]. split; unfold sd; cbn [out set_eq p_iq p_eq]; [exact Sn1|]. rewrite Eeq in Sn2. now inversion Sn2. }
        
        assert (HPb : forall e0, Some ev = Some e0 -> P (ev_name e0)) by (intros e0 [= <-]; now rewrite Hev).
        apply (select_sync sd lb (emit (TEv (ev_name ev)) xb) (Some ev) s1 Hcd Hcb Hqd B4 B5 B6 ltac:(congruence) HPb).
        - intros _. cbn [emit x_store]. rewrite B1, B7. now apply Sq.
        - cbn [option_map]. rewrite Hev. exact Hit. }
      destruct (l_stable l) eqn:Estb.
      * assert (Est : fstep l x = fselect_and_step ex_fixed c l (emit (TEv (ev_name ev)) x0) (Some ev))
          by (apply (fstep_external c); auto; congruence).
        destruct (Hsel l x0 Scf) as (l1 & x1 & Q1 & Y1); auto.
        exists l1, x1. split; [|exact Y1]. eapply (reaches_trans c); [|exact Q1].
        destruct (fselect_and_step ex_fixed c l (emit (TEv (ev_name ev)) x0) (Some ev)) as [[l' x'] rc] eqn:Efs.
        apply (reaches_step c l x l' x' rc Est). left.
        pose proof (fselect_and_step_rc ex_fixed c l (emit (TEv (ev_name ev)) x0) (Some ev)) as Hrc. now rewrite Efs in Hrc.
      * set (lb := upd_flags l (l_spont l) true).
        assert (Est1 : fstep l x = (lb, emit TStable x, RC_MACROSTEPPED)) by (apply (fstep_stable c); auto; congruence).
        set (xb := emit (ctok lb) (emit (TRet RC_MACROSTEPPED) (emit TStable x))).
        set (xb0 := {| x_store := x_store xb; x_iq := x_iq xb; x_eq := xr; x_out := x_out xb |}).
        assert (Est2 : fstep lb xb = fselect_and_step ex_fixed c lb (emit (TEv (ev_name ev)) xb0) (Some ev)).
        { apply (fstep_external c); unfold lb, xb; cbn [upd_flags l_fin l_tlf l_init l_spont l_stable emit x_iq x_eq]; auto; congruence. }
        destruct (Hsel lb xb0 (hst_ok_upd l _ _ Scf Si)) as (l1 & x1 & Q1 & Y1); auto.
        exists l1, x1. split; [|exact Y1].
        eapply (reaches_trans c); [apply (reaches_step c l x lb (emit TStable x) RC_MACROSTEPPED Est1); now right|].
        eapply (reaches_trans c); [|exact Q1].
        destruct (fselect_and_step ex_fixed c lb (emit (TEv (ev_name ev)) xb0) (Some ev)) as [[l' x'] rc] eqn:Efs.
        apply (reaches_step c lb xb l' x' rc Est2). left.
        pose proof (fselect_and_step_rc ex_fixed c lb (emit (TEv (ev_name ev)) xb0) (Some ev)) as Hrc. now rewrite Efs in Hrc.
    + (* an internal event *)
      destruct C3 as (R1 & R2 & R3 & R4). rewrite Eiq in R2.
      destruct (map_cons_inv _ _ _ (eq_sym R2)) as (ev & xr & Xiq & Hev & Hxr).
      assert (Pe : P e) by (destruct Sn as [Sn1 _]; rewrite Eiq in Sn1; now inversion Sn1).
      assert (Hne : ev_name ev <> []) by (rewrite Hev; now apply HPne).
      set (sd := out PDeqInt (set_iq r (out PStep s))) in *.
      set (x0 := {| x_store := x_store x; x_iq := xr; x_eq := x_eq x; x_out := x_out x |}).
      assert (Est : fstep l x = fselect_and_step ex_fixed c l (emit (TEv (ev_name ev)) x0) (Some ev))
        by (apply (fstep_internal c); auto; congruence).
      assert (Hcd : corr c dom sd l (emit (TEv (ev_name ev)) x0)).
      { constructor; unfold sd; cbn [out set_iq emit p_cfg p_hist p_tlf p_fin x_store]; try congruence.
        - unfold PmlEquivContent.Rx, x0. cbn [out set_iq emit p_store p_iq p_eq p_out x_store x_iq x_eq x_out].
          rewrite !pobs_cons, fobs_cons. cbn [pobs fobs]. auto.
        - exact C4. }
      assert (Hqd : qinv P sd).
      { destruct Sn as [Sn1 Sn2]. split; unfold sd; cbn [out set_iq p_iq p_eq]; [|exact Sn2]. rewrite Eiq in Sn1. now inversion Sn1. }
      destruct (select_sync sd l (emit (TEv (ev_name ev)) x0) (Some ev) s1 Hcd Scf Hqd Si Sf Sc Lt) as (l1 & x1 & Q1 & Y1).
      * intros e0 [= <-]. now rewrite Hev.
      * intros _. cbn [emit x_store x0]. now apply Sq.
      * cbn [option_map]. rewrite Hev. exact Hit.
      * cbv zeta in Q1. exists l1, x1. split; [|exact Y1]. eapply (reaches_trans c); [|exact Q1].
        destruct (fselect_and_step ex_fixed c l (emit (TEv (ev_name ev)) x0) (Some ev)) as [[l' x'] rc] eqn:Efs.
        apply (reaches_step c l x l' x' rc Est). left.
        pose proof (fselect_and_step_rc ex_fixed c l (emit (TEv (ev_name ev)) x0) (Some ev)) as Hrc. now rewrite Efs in Hrc.
Qed.

(* ---- how an observation of the emitted model ends: PmlEquivRun.final_rel ---- *)
Lemma run_from_sync fuel : forall s l x, sync s l x ->
  forall s' r, pml_loop pv c iq eq fuel s = (s', r) -> p_full s' = false -> r <> PFull ->
  exists m l' x', frun m l x [] = (l', x') /\ final_rel r s' l' x'.
Proof.
  induction fuel as [|f IH]; intros s l x Y s' r Hl Hfull Hr.
  - cbn [pml_loop] in Hl. pose proof Y as [[C1 C2 C3 C4 C5 C6] Scf Ssp Sq Si Sf Sc Sfu Sn].
    destruct (p_fin s) eqn:Fin.
    + (* TERMINATE_MACHINE *)
      injection Hl as <- <-.
      destruct (hst_ok_sorted l Scf) as [Cs Cb].
      destruct (pml_terminate_lemma pv c iq eq dom Hin' Hcontent s l x C1 C3 C4 ltac:(congruence) Fin ltac:(congruence) Sf Cs Cb Hfull)
        as (T1 & T2 & T3 & T4 & T5 & T6).
      destruct (fstep l x) as [[l1 x1] rc] eqn:Est. cbn [fst snd] in *. subst rc.
      exists 1, l1, (emit (ctok l1) (emit (TRet RC_FINISHED) x1)). split; [cbn [run_loop]; rewrite Est; reflexivity|].
      unfold final_rel. split; [congruence|]. split; [congruence|].
      split; [apply Rx_emit_none; [reflexivity|]; apply Rx_emit_none; [reflexivity|exact T1]|exact T5].
    + injection Hl as <- <-. exists 0, l, x. split; [reflexivity|].
      unfold final_rel. split; [exact C1|]. split; [exact C2|]. split; [apply Rx_out_none; [reflexivity|exact C3]|exact I].
  - cbn [pml_loop] in Hl. pose proof Y as [[C1 C2 C3 C4 C5 C6] Scf Ssp Sq Si Sf Sc Sfu Sn].
    destruct (p_fin s) eqn:Fin.
    + injection Hl as <- <-.
      destruct (hst_ok_sorted l Scf) as [Cs Cb].
      destruct (pml_terminate_lemma pv c iq eq dom Hin' Hcontent s l x C1 C3 C4 ltac:(congruence) Fin ltac:(congruence) Sf Cs Cb Hfull)
        as (T1 & T2 & T3 & T4 & T5 & T6).
      destruct (fstep l x) as [[l1 x1] rc] eqn:Est. cbn [fst snd] in *. subst rc.
      exists 1, l1, (emit (ctok l1) (emit (TRet RC_FINISHED) x1)). split; [cbn [run_loop]; rewrite Est; reflexivity|].
      unfold final_rel. split; [congruence|]. split; [congruence|].
      split; [apply Rx_emit_none; [reflexivity|]; apply Rx_emit_none; [reflexivity|exact T1]|exact T5].
    + destruct (pml_iter pv c iq eq s) as [s1 r1] eqn:Eit.
      destruct (pml_iter_status pv c iq eq s s1 r1 Eit) as [-> | [-> | ->]].
      * (* blocked: no event anywhere *)
        injection Hl as <- <-.
        unfold pml_iter, pml_dequeue in Eit. cbn [out p_spont p_iq p_eq] in Eit.
        destruct (p_spont s) eqn:Esp; [apply (pml_dstep_status pv c iq eq) in Eit as [F|F]; discriminate F|].
        destruct (p_iq s) eqn:Eiq; [|apply (pml_dstep_status pv c iq eq) in Eit as [F|F]; discriminate F].
        destruct (p_eq s) eqn:Eeq; [|apply (pml_dstep_status pv c iq eq) in Eit as [F|F]; discriminate F].
        injection Eit as <-.
        destruct C3 as (R1 & R2 & R3 & R4). rewrite Eiq in R2. rewrite Eeq in R3.
        assert (Xiq : x_iq x = []) by (destruct (x_iq x); [reflexivity|discriminate]).
        assert (Xeq : x_eq x = []) by (destruct (x_eq x); [reflexivity|discriminate]).
        assert (Lt : l_tlf l = false) by congruence.
        assert (Hpr : is_pristine l = false) by (unfold is_pristine; rewrite Si; now rewrite !orb_true_r).
        destruct (l_stable l) eqn:Estb.
        -- pose proof (fstep_idle c l x Sf Lt Si ltac:(congruence) Xiq Estb Xeq Sc) as Eidle.
           exists 1, l, (emit (ctok l) (emit (TRet RC_IDLE) x)). split; [cbn [run_loop]; rewrite Eidle; reflexivity|].
           split; [exact C1|]. split; [exact C2|]. split.
           ++ apply Rx_emit_none; [reflexivity|]. apply Rx_emit_none; [reflexivity|].
              apply Rx_out_none; [reflexivity|]. apply Rx_out_none; [reflexivity|]. unfold PmlEquivContent.Rx. rewrite Eiq, Eeq. auto.
           ++ apply (fstep_idle c); auto; congruence.
        -- set (lb := upd_flags l (l_spont l) true).
           assert (Est1 : fstep l x = (lb, emit TStable x, RC_MACROSTEPPED)) by (apply (fstep_stable c); auto; congruence).
           set (xb := emit (ctok lb) (emit (TRet RC_MACROSTEPPED) (emit TStable x))).
           assert (Eidle : fstep lb xb = (lb, xb, RC_IDLE)) by (apply (fstep_idle c); unfold lb, xb; cbn [upd_flags l_fin l_tlf l_init l_spont l_stable l_cancelled emit x_iq x_eq]; auto; congruence).
           exists 2, lb, (emit (ctok lb) (emit (TRet RC_IDLE) xb)).
           split; [cbn [run_loop]; rewrite Est1; cbn; fold lb; fold xb; rewrite Eidle; reflexivity|].
           split; [exact C1|]. split; [exact C2|]. split.
           ++ do 5 (apply Rx_emit_none; [reflexivity|]).
              apply Rx_out_none; [reflexivity|]. apply Rx_out_none; [reflexivity|]. unfold PmlEquivContent.Rx. rewrite Eiq, Eeq. auto.
           ++ apply (fstep_idle c); unfold lb; cbn [upd_flags l_fin l_tlf l_init l_spont l_stable l_cancelled emit x_iq x_eq]; auto; congruence.
      * injection Hl as _ <-. contradiction.
      * destruct (iter_sync s l x s1 Y Fin Eit) as (l1 & x1 & [k Hk] & Y1).
        destruct (IH s1 l1 x1 Y1 s' r Hl Hfull Hr) as (m & l' & x' & Hm & Hfin).
        exists (k + m), l', x'. split; [now rewrite Hk|exact Hfin].
Qed.

(* ---- from the initial states ---- *)
Theorem pml_run_lemma fuel s' r :
  pml_loop pv c iq eq (S fuel) (p_init c) = (s', r) -> p_full s' = false -> r <> PFull ->
  exists m l' x', frun m l_pristine x_init [] = (l', x') /\ final_rel r s' l' x'.
Proof.
  intros Hl Hfull Hr. cbn [pml_loop] in Hl. change (p_fin (p_init c)) with false in Hl. cbv iota in Hl.
  destruct (pml_iter pv c iq eq (p_init c)) as [s1 r1] eqn:Eit.
  assert (Hr1 : r1 = if p_full s1 then PFull else PRunning).
  { unfold pml_iter, pml_dequeue in Eit. cbn [out p_spont p_init] in Eit.
    unfold pml_dstep in Eit. destruct (p_select pv c None _) as [a s2].
    match type of Eit with (let '(_, _) := ?t in _) = _ => destruct t as [tg s3] end.
    injection Eit as <- <-. reflexivity. }
  destruct (p_full s1) eqn:Ef1; subst r1.
  - injection Hl as _ <-. contradiction.
  - pose proof (pml_initial_step_hist_lemma pv c iq eq Hpv H Hroot Hch Hcontent Hdata Hdok) as IS. cbv zeta in IS.
    rewrite Eit in IS. cbn [fst] in IS. specialize (IS Ef1).
    destruct (fstep l_pristine x_init) as [[l1 x1] rc] eqn:Est. cbn [fst snd] in IS.
    destruct IS as (K1 & K2 & K3 & K4 & K5 & K6 & K7 & K8). subst rc.
    assert (Y1 : sync s1 l1 (emit (ctok l1) (emit (TRet RC_MICROSTEPPED) x1))).
    { apply sync_emit; [reflexivity|]. apply sync_emit; [reflexivity|].
      constructor; auto; try congruence.
      assert (Es1 : s1 = fst (pml_dstep pv c iq eq None (out PSpont (out PStep (p_init c)))))
        by (unfold pml_iter, pml_dequeue in Eit; cbn [out p_spont p_init] in Eit; now rewrite Eit).
      rewrite Es1. apply (qinv_dstep P pv c iq eq Hnames Hdone). split; constructor. }
    destruct (run_from_sync fuel s1 l1 _ Y1 s' r Hl Hfull Hr) as (m & l' & x' & Hm & Hfin).
    exists (1 + m), l', x'. split; [|exact Hfin].
    cbn [Nat.add run_loop]. rewrite Est. exact Hm.
Qed.

End HRun.
