(* RunConformHistStep.v -- C01 on charts with <history> (wf_histb): one call of LargeMicroStep::step (Large.large_step,
   ALL branches) against the piece of Appendix D's loop that is due (RunConformStep.spec_step).  The statement of
   RunConformInitialStep.large_step_conforms_initial_lemma with the static conditions static_hb and the relation rsimHH:
   rsimHH plus "the two histories are related" (RunConformHistRel.hv_rel between l_hist and s_hv, and the recorded
   parts of deep histories are closed downwards).  The step guard (RunConformStep.step_guardb) is unchanged.  Proofs only. *)
From V Require Import Base NameMatch NameMatchLemmas Chart Exec Large LargeLemmas Spec Legal SetLemmas LegalAbstract LegalLarge
  Interp LegalRun WfCore LegalOracle LargeCacheLemmas ExitSetLemmas SelectConform SelectConformLemmas SelectConformOrder
  SelectConformRoot SelectConformFlatten MicroConform MicroConformLemmas MicroConformEntry MicroConformCompose MicroConformFlatten
  Serialize SerializeCongLemmas RunConformBase RunConformTok RunConformMicro RunConformInit RunConformStep
  LegalHistBase LegalHistEntry LegalHistStep LegalHistRun LegalHistWf LegalHistOracle
  RunConformInitialBase RunConformInitialSpec RunConformInitialEngine RunConformInitialEntry RunConformInitialMicro
  RunConformInitialCompose RunConformInitialWf RunConformInitialSelLegal RunConformInitialSelErase RunConformInitialSel
  RunConformInitialFlags RunConformInitialFlat RunConformInitialInit
  EngineEquivDone RunConformHistRel RunConformHistDom RunConformHistWf RunConformHistSel RunConformHistFlat RunConformHistInit.
Local Open Scope nat_scope.

(* the static conditions of the run-level theorems *)
Definition static_hb (c : fchart) : bool :=
  micro_static_hb c && root_unmentionedb c && chart_named c && root_onexit_emptyb c && root_plainb c.

Lemma static_h_parts late t0 : let c := flatten late t0 in static_hb c = true ->
  MicroStaticH c /\ root_unmentionedb c = true /\ chart_named c = true /\ fs_onexit (st c 0) = [] /\
  (forall g, In g (fs_completion (st c 0)) -> pseudoS c g = false) /\ ssorted (fs_completion (st c 0)).
Proof.
  intros c. unfold static_hb. intros H.
  apply andb_true_iff in H as [H Bpl]. apply andb_true_iff in H as [H Box].
  apply andb_true_iff in H as [H Bnm]. apply andb_true_iff in H as [H Bun].
  pose proof (micro_static_h_sound late t0 H) as HS0.
  split; [exact HS0|]. split; [exact Bun|]. split; [exact Bnm|]. split; [|split].
  - unfold root_onexit_emptyb in Box. destruct (fs_onexit (st c 0)); [reflexivity | discriminate].
  - now apply root_plainb_sound.
  - exact (flatten_compound_completion_sorted late t0 0 (mh_root c HS0)).
Qed.

(* ------------------------------------------------------------------ the relation *)

Definition HRel (c : fchart) (l : lstate) (s : sstate) : Prop :=
  HistDown c (l_hist l) /\ hv_rel c (l_hist l) (s_hv s).

Definition rphaseHH (c : fchart) (l : lstate) (s : sstate) (xs : xstate) : Prop :=
  (is_pristine l = true /\ l_cfg l = [] /\ l_initd l = [] /\ l_hist l = []) \/
  (l_init l = true /\ corr c l s /\ StOK c l /\ ssorted (l_cfg l) /\ HRel c l s /\
   (l_fin l = false -> l_tlf l = false -> l_spont l = false -> noev c s xs)).

Record rsimHH (c : fchart) (l : lstate) (xl : xstate) (s : sstate) (xs : xstate) : Prop := {
  rhh_dyn : same_dyn xl xs;
  rhh_veq : veq (fs_sid (st c 0)) (x_out xl) (x_out xs);
  rhh_want : vw (fs_sid (st c 0)) false (rev (x_out xl)) = false;
  rhh_phase : rphaseHH c l s xs
}.

Section StepHH.
Variable late : bool.
Variable t0 : tree.
Notation c := (flatten late t0).
Notation r := (fs_sid (st c 0)).
Hypothesis Hstatic : static_hb c = true.

Lemma early_data_flat_h : fc_late c = false -> forall i, i <> 0 -> fs_data (st c i) = [].
Proof.
  exact (fun Hl i Hi => match late as b return (fc_late (flatten b t0) = false -> fs_data (st (flatten b t0) i) = []) with
                        | true => fun Hl' => False_ind _ (Bool.diff_true_false Hl')
                        | false => fun _ => flatten_early_data t0 i Hi end Hl).
Qed.

Lemma select_step_conforms_hh l s xl xs ev :
  l_init l = true -> corr c l s -> StOK c l -> ssorted (l_cfg l) -> HRel c l s ->
  xsim r xl xs -> sel_guardb c (l_cfg l) ev xl = true ->
  let rl := select_and_step lg_fixed ex_fixed c l xl ev in
  let q := spec_select_step c s xs ev in
  let l1 := fst (fst rl) in
  snd rl = RC_MICROSTEPPED /\
  rsimHH c l1 (loop_toks c l1 (snd rl) (snd (fst rl))) (fst q) (snd q) /\
  l_fin l1 = l_fin l /\ l_cancelled l1 = l_cancelled l /\ True /\
  (fst (select_transitions c (s_cfg s) (s_hv s) ev xs) = [] -> q = (s, xs) /\ l_spont l1 = match ev with Some _ => true | None => false end) /\
  (fst (select_transitions c (s_cfg s) (s_hv s) ev xs) <> [] -> l_spont l1 = true) /\
  snd (select_transitions c (s_cfg s) (s_hv s) ev xs) = xs.
Proof.
  intros Hinit Hcorr HSt Hs [HDn HRl] [Hdyn Hveq Hwant] Hg.
  destruct (static_h_parts late t0 Hstatic) as (HS & Hun & Hnamed & Hox & Hrp & Hrs).
  pose proof (mh_wfh c HS) as W. destruct HSt as [HL HH].
  pose proof (legal_configb_complete_h c _ W HL (ssorted_NoDup _ Hs)) as Hleg.
  pose proof (ssorted_ascb _ Hs) as Hasc.
  unfold sel_guardb in Hg. apply andb_true_iff in Hg as [Hg G3]. apply andb_true_iff in Hg as [G1 G2].
  assert (Hst : x_store xl = x_store xs) by (destruct Hdyn as (A & _); exact A).
  assert (G1s : unrelated_enabledb c (l_cfg l) ev xs = true) by (now rewrite <- (unrelated_enabledb_store c _ ev xl xs Hst)).
  assert (G2s : conds_pureb c (l_cfg l) xs = true) by (now rewrite <- (conds_pureb_store c _ xl xs Hst)).
  pose proof Hcorr as (Hc & Ht & Hd).
  pose proof (selection_conforms_spec_cfg_hist_lemma late t0 (s_cfg s) ev xs (l_hist l) (s_hv s)) as Hsp. cbn zeta in Hsp.
  rewrite <- Hc in Hsp. specialize (Hsp (mh_wfb c HS) (mh_root c HS) (mh_parb c HS) Hun (mh_antib c HS) (mh_leafb c HS) (mh_locb c HS) Hleg Hasc HH HDn HRl G1s G2s G3). destruct Hsp as [Hsp Esx].
  pose proof (selection_conforms_spec_cfg_hist_lemma late t0 (s_cfg s) ev xl (l_hist l) (s_hv s)) as Hsl. cbn zeta in Hsl.
  rewrite <- Hc in Hsl. specialize (Hsl (mh_wfb c HS) (mh_root c HS) (mh_parb c HS) Hun (mh_antib c HS) (mh_leafb c HS) (mh_locb c HS) Hleg Hasc HH HDn HRl G1 G2 G3). destruct Hsl as [_ Elx].
  destruct (select_loop_E c (x_out xs) (x_out xl) (l_cfg l) ev (cfg_postfix c (l_cfg l)) None [] xs xl
              (RxE_intro xs xl (same_dyn_sym _ _ Hdyn))) as [Hfst _].
  set (sel := fst (select_loop lg_fixed c (l_cfg l) ev (cfg_postfix c (l_cfg l)) None [] xs)) in *.
  assert (Esl : select_loop lg_fixed c (l_cfg l) ev (cfg_postfix c (l_cfg l)) None [] xl = (sel, xl)).
  { rewrite Hfst. destruct (select_loop lg_fixed c (l_cfg l) ev (cfg_postfix c (l_cfg l)) None [] xl) as [a b]. cbn [fst snd] in *. now subst. }
  assert (Ess : select_transitions c (s_cfg s) (s_hv s) ev xs = (sel, xs)).
  { rewrite <- Hsp. subst sel. destruct (select_loop lg_fixed c (l_cfg l) ev (cfg_postfix c (l_cfg l)) None [] xs) as [a b]. cbn [fst snd] in *. now subst. }
  pose proof (select_and_step_legal_h c ex_fixed W l xl ev (conj HL HH)) as HL1.
  pose proof (select_and_step_ssorted lg_fixed ex_fixed c l xl ev Hs) as Hs1.
  pose proof (body_selected_conforms_hist_lemma late t0 HS (upd_flags l (l_spont l) false) s ev xs
                (emit (TDiag (diag c (s_hv s) (s_cfg s) ev xs)) (emit TMsB xs)) Hleg HH HDn HRl Hcorr) as HB.
  cbn zeta in HB. change (l_cfg (upd_flags l (l_spont l) false)) with (l_cfg l) in HB. fold sel in HB.
  revert HL1 Hs1. cbn zeta. unfold select_and_step, spec_select_step. cbn zeta.
  change (l_cfg (upd_flags l (l_spont l) false)) with (l_cfg l).
  rewrite Esl, Ess. cbn [fst snd].
  destruct sel as [|t rr] eqn:Esel.
  - (* nothing enabled *)
    cbn [fst snd]. intros HL1 Hs1.
    split; [reflexivity|]. split; [|repeat split; try reflexivity; try tauto; intros H; now elim H].
    destruct (veq_loop_toks c (upd_flags (upd_flags l (l_spont l) false) match ev with Some _ => true | None => false end false)
                RC_MICROSTEPPED xl (x_out xs) Hwant Hveq) as [V1 V2].
    constructor; [exact Hdyn | exact V1 | exact V2|].
    right. cbn [l_init l_cfg upd_flags l_fin l_tlf l_spont]. split; [exact Hinit|]. split; [exact Hcorr|].
    split; [exact (conj HL HH)|]. split; [exact Hs|]. split; [exact (conj HDn HRl)|]. intros _ _ Hsp0. destruct ev; [discriminate|]. exact Ess.
  - (* a microstep *)
    rewrite <- Esel in *.
    change (fold_left (fun a ti => set_union a (ft_targets (tr c ti))) sel []) with (sel_targets c sel).
    change (fold_left (fun a ti => set_union a (exit_states_of lg_fixed c (l_cfg l) (tr c ti))) sel []) with (sel_exitset c (l_cfg l) sel).
    rewrite spec_microstep_d_body.
    set (x0 := emit (TDiag (diag c (s_hv s) (s_cfg s) ev xs)) (emit TMsB xs)) in *.
    destruct (microstep_E c Hnamed (x_out x0) (x_out (emit TMsB xl)) (upd_flags l (l_spont l) false) x0 (emit TMsB xl)
                (sel_targets c sel) (sel_exitset c (l_cfg l) sel) sel false) as [M1 M2].
    { apply RxE_intro. unfold x0. destruct Hdyn as (A & B & C). repeat split; cbn; congruence. }
    apply RxE_elim in M2 as [M2 (d & M3 & M4)].
    destruct (microstep_flags c (upd_flags l (l_spont l) false) (emit TMsB xl) (sel_targets c sel) (sel_exitset c (l_cfg l) sel) sel false)
      as (F1 & F2 & F3 & F4 & F5).
    destruct HB as (B1 & B2 & B3 & B4 & B5).
    destruct (microstep lg_fixed ex_fixed c (upd_flags l (l_spont l) false) (emit TMsB xl) (sel_targets c sel) (sel_exitset c (l_cfg l) sel) sel false)
      as [l1 x2] eqn:Eml.
    destruct (microstep lg_fixed ex_fixed c (upd_flags l (l_spont l) false) x0 (sel_targets c sel) (sel_exitset c (l_cfg l) sel) sel false)
      as [l1' x2'] eqn:Ems.
    destruct (spec_body c sel s x0) as [s2 xs2] eqn:Esb.
    cbn [fst snd] in *. subst l1'. intros HL1 Hs1.
    split; [reflexivity|].
    split; [|split; [exact F3|]; split; [exact F5|]; split; [exact I|]; split; [intros H; rewrite H in Esel; discriminate Esel|];
             split; [intros _; exact F2 | reflexivity]].
    pose proof B1 as (C1 & C2 & C3).
    constructor.
    + unfold loop_toks. cbn [emit]. subst xs2. unfold same_dyn in *. cbn [emit x_store x_iq x_eq]. destruct M2 as (A & B & C). repeat split; congruence.
    + unfold loop_toks, cfg_tok. cbn [emit x_out]. subst xs2. unfold spec_cfg_tok. cbn [emit x_out].
      rewrite C1. cbn [map]. rewrite M3, M4. apply veq_cfg. apply veq_drop_l; [reflexivity|].
      apply veq_app. unfold x0. cbn [emit x_out]. apply veq_drop_r; [reflexivity|]. now apply veq_cons.
    + unfold loop_toks. cbn [emit x_out]. apply vw_cfg.
    + right. split; [exact F1|]. split; [exact B1|]. split; [exact HL1|]. split; [exact Hs1|]. split; [exact (conj B4 B5)|].
      intros _ _ Hsp0. rewrite F2 in Hsp0. discriminate.
Qed.

Lemma stutter_conforms_hh l1 xl x1 s xs rc :
  xsim r xl xs -> same_dyn x1 xl ->
  (x_out x1 = x_out xl \/ x_out x1 = TStable :: x_out xl) ->
  rphaseHH c l1 s xs ->
  rsimHH c l1 (loop_toks c l1 rc x1) s xs.
Proof.
  intros [Hdyn Hveq Hwant] Hd Ho Hph1.
  assert (Hv1 : veq r (x_out x1) (x_out xs) /\ vw r false (rev (x_out x1)) = false).
  { destruct Ho as [->| ->]; [split; assumption|]. split; [apply veq_drop_l; [reflexivity | exact Hveq]|].
    rewrite vw_same; [exact Hwant | reflexivity]. }
  destruct (veq_loop_toks c l1 rc x1 (x_out xs) (proj2 Hv1) (proj1 Hv1)) as [V1 V2].
  constructor; [|exact V1 | exact V2 | exact Hph1].
  unfold loop_toks. apply same_dyn_emit_l, same_dyn_emit_l. exact (same_dyn_trans _ _ _ Hd Hdyn).
Qed.

(* one call of step(), all branches *)
Theorem large_step_conforms_hist_lemma l xl s xs :
  rsimHH c l xl s xs -> step_guardb c l xl = true ->
  let rl := large_step lg_fixed ex_fixed c l xl in
  let q := spec_step c l s xs in
  rsimHH c (fst (fst rl)) (loop_toks c (fst (fst rl)) (snd rl) (snd (fst rl))) (fst q) (snd q).
Proof.
  intros HR Hg.
  destruct (static_h_parts late t0 Hstatic) as (HS & Hun & Hnamed & Hox & Hrp & Hrs).
  pose proof (mh_wfh c HS) as W.
  destruct (root_silent_parts c (mh_silent c HS)) as (Sen & Sex & Sbody).
  pose proof HR as [Hdyn Hveq Hwant Hph].
  pose proof Hdyn as (Dst & Diq & Deq).
  cbn zeta. unfold large_step, spec_step, step_guardb in *.
  destruct (l_fin l) eqn:Ffin.
  { cbn [fst snd]. apply (stutter_conforms_hh l xl xl s xs RC_FINISHED (Build_xsim r xl xs Hdyn Hveq Hwant) (same_dyn_refl _)); [now left | exact Hph]. }
  destruct (l_tlf l) eqn:Ftlf.
  { (* TOP_LEVEL_FINAL: exitInterpreter *)
    cbn [fst snd].
    destruct Hph as [(Hp & _)|(Hi & Hcorr & HL & Hs & HRl & Hno)].
    { unfold is_pristine in Hp. rewrite Ftlf, !orb_true_r in Hp. discriminate. }
    pose proof Hcorr as (Hc & Ht & Hd).
    rewrite exit_interpreter_fold.
    assert (Hs' : ssorted (s_cfg s)) by (rewrite Hc in Hs; cbn [ssorted] in Hs; tauto).
    rewrite Hc in Hg. rewrite Hc.
    set (F := fun y => fold_left (fun x i => exec_blocks ex_fixed (inst_of c (0 :: s_cfg s)) (fs_onexit (st c i)) x) (rev (0 :: s_cfg s)) y).
    assert (HF : forall ox oy x y, RxE ox oy x y -> RxE ox oy (F x) (F y)).
    { intros ox oy x y H. unfold F. now apply fold_onexit_E. }
    pose proof (HF _ _ (emit TComplB xl) (emit TComplB xs) (RxE_intro (emit TComplB xl) (emit TComplB xs) Hdyn)) as HR1.
    apply RxE_elim in HR1 as [HD1 (d & O1 & O2)].
    assert (HQ : forall x, quiet r x (F x)).
    { intros x. unfold F. apply fold_onexit_quiet. }
    rewrite <- (compl_conforms c (s_cfg s) (emit TComplB xs) Hox Sex Hs' Hg). fold (F (emit TComplB xs)). fold (F (emit TComplB xl)).
    constructor.
    - unfold loop_toks. apply same_dyn_emit_l, same_dyn_emit_l, same_dyn_emit_l, same_dyn_emit_r. exact HD1.
    - unfold loop_toks, cfg_tok. cbn [emit x_out l_cfg]. apply veq_cfg_unwanted_l.
      + rewrite vw_same; [|reflexivity]. rewrite vw_same; [|reflexivity]. rewrite (quiet_vw r _ _ (HQ (emit TComplB xl))).
        cbn [emit x_out]. rewrite vw_same; [exact Hwant | reflexivity].
      + apply veq_drop_l; [reflexivity|]. rewrite O1, O2. apply veq_cons. apply veq_app. cbn [emit x_out]. now apply veq_cons.
    - unfold loop_toks. cbn [emit x_out]. apply vw_cfg.
    - right. cbn [l_init l_cfg l_tlf l_initd l_fin]. split; [exact Hi|].
      split; [unfold corr; cbn [l_cfg l_tlf l_initd]; split; [reflexivity | split; [congruence | exact Hd]]|].
      split; [rewrite <- Hc; exact HL|]. split; [rewrite <- Hc; exact Hs|]. split; [exact HRl|]. intros H; discriminate H. }
  destruct (is_pristine l) eqn:Fpr.
  { (* the initial microstep *)
    destruct Hph as [(Hp & Hcfg0 & Hinitd0 & Hh0)|(Hi & _)]; [|rewrite (init_not_pristine' l Hi) in Fpr; discriminate].
    assert (HH0 : HistOK c (l_hist l)) by (rewrite Hh0; apply HistOK_nil).
    pose proof (initial_step_initial_sech c W (mh_cplok c HS) (mh_cplanti c HS) (mh_tganti c HS) Hnamed (mh_root c HS) Hrp
                  (flatten_root_onentry late t0) (mh_silent c HS) (flatten_has_body late t0) early_data_flat_h
                  (mh_par c HS) (mh_fin_par c HS) (mh_fin_up c HS) (mh_flags c HS) l xl xs Hp Hcfg0 Hinitd0 HH0 Hdyn (mh_trn c HS) Hrs) as HI.
    cbn zeta in HI.
    pose proof (initial_step_legal_h c ex_fixed W (mh_root c HS) l (emit TMsB xl) Hcfg0 HH0) as HL1.
    pose proof (microstep_hist c ex_fixed l (emit TMsB xl) (fs_completion (st c 0)) [] [] true) as Hhist1.
    pose proof (microstep_ssorted lg_fixed ex_fixed c l (emit TMsB xl) (fs_completion (st c 0)) [] [] true) as Hs1.
    rewrite Hcfg0 in Hs1. specialize (Hs1 I).
    destruct (microstep lg_fixed ex_fixed c l (emit TMsB xl) (fs_completion (st c 0)) [] [] true) as [l1 x1] eqn:Em.
    destruct (spec_init c xs) as [s1 xs1] eqn:Esi.
    cbn [fst snd] in *.
    destruct HI as (C1 & Hhv & D1 & F1 & F2 & F3 & F4 & F5 & d & dg & O1 & O2).
    constructor.
    - unfold loop_toks. apply same_dyn_emit_l, same_dyn_emit_l. exact D1.
    - unfold loop_toks, cfg_tok. cbn [emit x_out]. rewrite O1, O2. unfold spec_cfg_tok.
      destruct C1 as (C1 & _). rewrite C1. cbn [map]. apply veq_cfg. apply veq_drop_l; [reflexivity|].
      apply veq_cons. apply veq_app. apply veq_drop_l; [cbn; apply N.eqb_refl|]. apply veq_drop_l; [cbn; apply N.eqb_refl|].
      apply veq_drop_r; [reflexivity|]. now apply veq_cons.
    - unfold loop_toks. cbn [emit x_out]. apply vw_cfg.
    - right. split; [exact F2|]. split; [exact C1|]. split; [exact HL1|]. split; [exact Hs1|].
      split; [unfold HRel; rewrite Hhist1, Hhv; unfold hist_after; rewrite Hh0; split; [apply HistDown_nil | apply hv_rel_nil]|].
      intros _ _ H. rewrite F1 in H. discriminate. }
  destruct Hph as [(Hp & _)|(Hi & Hcorr & HL & Hs & HRl & Hno)]; [congruence|].
  assert (Hsel : forall x1 x1s ev, xsim r x1 x1s -> sel_guardb c (l_cfg l) ev x1 = true ->
            let rl := select_and_step lg_fixed ex_fixed c l x1 ev in
            let q := spec_select_step c s x1s ev in
            rsimHH c (fst (fst rl)) (loop_toks c (fst (fst rl)) (snd rl) (snd (fst rl))) (fst q) (snd q)).
  { intros x1 x1s ev Hx Hgs. exact (proj1 (proj2 (select_step_conforms_hh l s x1 x1s ev Hi Hcorr HL Hs HRl Hx Hgs))). }
  destruct (l_spont l) eqn:Fsp.
  { apply Hsel; [constructor; assumption | exact Hg]. }
  rewrite <- Diq. destruct (x_iq xl) as [|e rq] eqn:Eiq.
  - destruct (l_stable l) eqn:Fst; cbn [negb] in *.
    + rewrite <- Deq. destruct (x_eq xl) as [|e rq] eqn:Eeq.
      * destruct (l_cancelled l) eqn:Fc; cbn [fst snd].
        -- apply (stutter_conforms_hh _ xl xl (stop_running s) xs RC_CANCELLED (Build_xsim r xl xs Hdyn Hveq Hwant) (same_dyn_refl _)); [now left|].
           right. cbn [l_init l_cfg l_tlf l_initd l_fin l_spont]. split; [exact Hi|].
              destruct Hcorr as (Hc & Ht & Hd). split; [unfold corr, stop_running; cbn [l_cfg l_tlf l_initd s_cfg s_running s_entered]; auto|].
              split; [exact HL|]. split; [exact Hs|]. split; [exact HRl|]. intros _ H. discriminate H.
        -- apply (stutter_conforms_hh l xl xl s xs RC_IDLE (Build_xsim r xl xs Hdyn Hveq Hwant) (same_dyn_refl _)); [now left|].
           right. split; [exact Hi|]. split; [exact Hcorr|]. split; [exact HL|]. split; [exact Hs|]. split; [exact HRl|]. intros A B _. now apply Hno.
      * apply andb_true_iff in Hg as [Hn Hgs]. unfold namedb in Hn. destruct (ev_name e) as [|b bs] eqn:En; [discriminate|].
        rewrite <- En. unfold deq_ext in Hgs. rewrite Eiq in Hgs. apply Hsel; [|exact Hgs].
        constructor; [unfold deq_ext, same_dyn; cbn [emit x_store x_iq x_eq]; auto | unfold deq_ext; cbn [emit x_out]; now apply veq_cons |].
        unfold deq_ext. cbn [emit x_out]. rewrite vw_same; [exact Hwant | reflexivity].
    + cbn [fst snd]. apply (stutter_conforms_hh _ xl (emit TStable xl) s xs RC_MACROSTEPPED (Build_xsim r xl xs Hdyn Hveq Hwant) (same_dyn_refl _)); [now right|].
      right. cbn [upd_flags l_init l_cfg l_fin l_tlf l_spont]. split; [exact Hi|]. split; [exact Hcorr|]. split; [exact HL|]. split; [exact Hs|]. split; [exact HRl|].
      intros A B _. now apply Hno.
  - apply andb_true_iff in Hg as [Hn Hgs]. unfold namedb in Hn. destruct (ev_name e) as [|b bs] eqn:En; [discriminate|].
    rewrite <- En. apply Hsel; [|exact Hgs].
    constructor; [unfold deq_int, same_dyn; cbn [emit x_store x_iq x_eq]; auto | unfold deq_int; cbn [emit x_out]; now apply veq_cons |].
    unfold deq_int. cbn [emit x_out]. rewrite vw_same; [exact Hwant | reflexivity].
Qed.

End StepHH.
