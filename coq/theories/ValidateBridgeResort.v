(* ValidateBridgeResort.v -- Chart.resort (resortStates: <history> children, then <initial> children, moved in front
   of the other children) permutes the children of every element and changes nothing else; so the facts about a
   document tree that are stated through membership (ValidateBridge.VTree, the side conditions vb_sideb, vb_docb,
   unique ids) hold of the resorted tree as well, and its children are in the order kids_sorted.
   Result: FlatHyp (resort t) from the hypotheses on t.  Proofs only. *)
From V Require Import Base Chart TreeLemmas FlattenWf FlattenWfTree ValidateBridge ValidateBridgeFlat.
From Coq Require Import Permutation.
Local Open Scope nat_scope.

(* ------------------------------------------------------------------ permutations *)

Lemma filter_split_perm {A} (f g : A -> bool) l : (forall x, g x = negb (f x)) -> Permutation (filter f l ++ filter g l) l.
Proof.
  intros Hg. induction l as [|x r IH]; [constructor|]. cbn [filter]. rewrite Hg. destruct (f x); cbn [negb app].
  - now constructor.
  - apply Permutation_sym, Permutation_cons_app, Permutation_sym, IH.
Qed.

Lemma perm_filter {A} (f : A -> bool) a b : Permutation a b -> Permutation (filter f a) (filter f b).
Proof.
  induction 1 as [|x a b _ IH|x y a|a b c' _ IH1 _ IH2]; cbn [filter].
  - constructor.
  - destruct (f x); [now constructor | exact IH].
  - destruct (f x), (f y); try apply Permutation_refl. apply perm_swap.
  - exact (Permutation_trans IH1 IH2).
Qed.

Lemma perm_flat_map_pointwise {A B} (f g : A -> list B) l : (forall x, In x l -> Permutation (f x) (g x)) ->
  Permutation (flat_map f l) (flat_map g l).
Proof.
  induction l as [|x r IH]; intros H; [constructor|]. cbn [flat_map]. apply Permutation_app; [apply H; now left|].
  apply IH. intros y Hy. apply H. now right.
Qed.

(* ------------------------------------------------------------------ resort keeps everything but the order of children *)

Lemma resort_kind u : t_kind (resort u) = t_kind u. Proof. destruct u; reflexivity. Qed.
Lemma resort_sid u : t_sid (resort u) = t_sid u. Proof. destruct u; reflexivity. Qed.
Lemma resort_initattr u : t_initattr (resort u) = t_initattr u. Proof. destruct u; reflexivity. Qed.
Lemma resort_trans u : t_trans (resort u) = t_trans u. Proof. destruct u; reflexivity. Qed.

Definition is_ini (x : tree) : bool := match t_kind x with KInitial => true | _ => false end.
Definition not_ini (x : tree) : bool := match t_kind x with KInitial => false | _ => true end.
Definition is_hst (x : tree) : bool := is_hist_kind (t_kind x).
Definition not_hst (x : tree) : bool := negb (is_hist_kind (t_kind x)).

Lemma resort_kids_eq u :
  t_kids (resort u) =
  rev (filter is_ini (rev (filter is_hst (map resort (t_kids u))) ++ filter not_hst (map resort (t_kids u)))) ++
  filter not_ini (rev (filter is_hst (map resort (t_kids u))) ++ filter not_hst (map resort (t_kids u))).
Proof. destruct u; reflexivity. Qed.

Lemma resort_kids_perm u : Permutation (t_kids (resort u)) (map resort (t_kids u)).
Proof.
  rewrite resort_kids_eq. set (ks := map resort (t_kids u)).
  eapply Permutation_trans; [apply Permutation_app_tail, Permutation_sym, Permutation_rev|].
  eapply Permutation_trans; [apply filter_split_perm; intros x; unfold not_ini, is_ini; destruct (t_kind x); reflexivity|].
  eapply Permutation_trans; [apply Permutation_app_tail, Permutation_sym, Permutation_rev|].
  apply filter_split_perm. reflexivity.
Qed.

Lemma resort_subtrees_perm : forall u, Permutation (subtrees (resort u)) (map resort (subtrees u)).
Proof.
  induction u as [k s i tr en ex d kids IH] using tree_ind'. set (u := TNode k s i tr en ex d kids) in *.
  rewrite (subtrees_unfold (resort u)), (subtrees_unfold u). cbn [map]. constructor.
  eapply Permutation_trans; [apply Permutation_flat_map, resort_kids_perm|].
  change (t_kids u) with kids. clear u.
  induction IH as [|x r Hx _ IHr]; [constructor|]. cbn [map flat_map]. rewrite map_app. now apply Permutation_app.
Qed.

Lemma resort_tbelow_perm u : Permutation (tbelow (resort u)) (map resort (tbelow u)).
Proof.
  pose proof (resort_subtrees_perm u) as P. rewrite (subtrees_unfold (resort u)), (subtrees_unfold u) in P. cbn [map] in P.
  apply Permutation_cons_inv in P. exact P.
Qed.

Lemma resort_sids_perm u : Permutation (sids (resort u)) (sids u).
Proof.
  unfold sids. eapply Permutation_trans; [apply Permutation_map, resort_subtrees_perm|]. rewrite map_map.
  rewrite (map_ext _ t_sid) by apply resort_sid. apply Permutation_refl.
Qed.

Lemma in_resort_subtrees t v : In v (subtrees (resort t)) <-> exists u, In u (subtrees t) /\ v = resort u.
Proof.
  split.
  - intros H. apply (Permutation_in _ (resort_subtrees_perm t)) in H. apply in_map_iff in H as (u & <- & Hu). eauto.
  - intros (u & Hu & ->). apply (Permutation_in _ (Permutation_sym (resort_subtrees_perm t))). now apply in_map.
Qed.

Lemma in_resort_kids u k : In k (t_kids (resort u)) <-> exists k0, In k0 (t_kids u) /\ k = resort k0.
Proof.
  split.
  - intros H. apply (Permutation_in _ (resort_kids_perm u)) in H. apply in_map_iff in H as (k0 & <- & Hk). eauto.
  - intros (k0 & Hk & ->). apply (Permutation_in _ (Permutation_sym (resort_kids_perm u))). now apply in_map.
Qed.

Lemma in_resort_tbelow u w : In w (tbelow (resort u)) <-> exists w0, In w0 (tbelow u) /\ w = resort w0.
Proof.
  split.
  - intros H. apply (Permutation_in _ (resort_tbelow_perm u)) in H. apply in_map_iff in H as (w0 & <- & Hk). eauto.
  - intros (w0 & Hk & ->). apply (Permutation_in _ (Permutation_sym (resort_tbelow_perm u))). now apply in_map.
Qed.

(* lists of numbers selected by a test on the kind *)
Lemma sel_sids_perm (P : tree -> bool) (a b : list tree) : (forall x, P (resort x) = P x) -> Permutation a (map resort b) ->
  Permutation (map t_sid (filter P a)) (map t_sid (filter P b)).
Proof.
  intros HP Hab. eapply Permutation_trans; [apply Permutation_map, perm_filter, Hab|].
  assert (E : map t_sid (filter P (map resort b)) = map t_sid (filter P b)).
  { clear Hab. induction b as [|x r IH]; [reflexivity|]. cbn [map filter]. rewrite HP. destruct (P x); cbn [map]; now rewrite ?resort_sid, IH. }
  rewrite E. apply Permutation_refl.
Qed.

Lemma tvis_resort x : tvis (resort x) = tvis x. Proof. unfold tvis. now rewrite resort_kind. Qed.
Lemma tprop_resort x : tprop (resort x) = tprop x. Proof. unfold tprop. now rewrite resort_kind. Qed.

Lemma vsids_below_resort u s : In s (vsids_below (resort u)) <-> In s (vsids_below u).
Proof.
  unfold vsids_below. pose proof (sel_sids_perm tvis _ _ tvis_resort (resort_tbelow_perm u)) as P.
  split; intros H; [exact (Permutation_in _ P H) | exact (Permutation_in _ (Permutation_sym P) H)].
Qed.

Lemma vsids_kids_resort u s : In s (vsids_kids (resort u)) <-> In s (vsids_kids u).
Proof.
  unfold vsids_kids. pose proof (sel_sids_perm tvis _ _ tvis_resort (resort_kids_perm u)) as P.
  split; intros H; [exact (Permutation_in _ P H) | exact (Permutation_in _ (Permutation_sym P) H)].
Qed.

Lemma psids_below_resort u s : In s (psids_below (resort u)) <-> In s (psids_below u).
Proof.
  unfold psids_below. pose proof (sel_sids_perm tprop _ _ tprop_resort (resort_tbelow_perm u)) as P.
  split; intros H; [exact (Permutation_in _ P H) | exact (Permutation_in _ (Permutation_sym P) H)].
Qed.

Lemma sids_resort_in u s : In s (sids (resort u)) <-> In s (sids u).
Proof.
  pose proof (resort_sids_perm u) as P. split; intros H; [exact (Permutation_in _ P H) | exact (Permutation_in _ (Permutation_sym P) H)].
Qed.

Lemma has_kids_resort u : has_kids (resort u) = has_kids u.
Proof.
  unfold has_kids. pose proof (Permutation_length (resort_kids_perm u)) as L. rewrite map_length in L.
  destruct (t_kids (resort u)), (t_kids u); try reflexivity; discriminate.
Qed.

Lemma compound_node_resort u : compound_node (resort u) = compound_node u.
Proof. unfold compound_node. now rewrite resort_kind, has_kids_resort. Qed.

Lemma kids_hit_resort l v : length (kids_hit l (resort v)) = length (kids_hit l v).
Proof.
  unfold kids_hit. set (h := fun kid : tree => existsb (fun s => memN s (sids kid)) l).
  rewrite (Permutation_length (perm_filter h _ _ (resort_kids_perm v))).
  induction (t_kids v) as [|x r IH]; [reflexivity|]. cbn [map filter].
  assert (E : h (resort x) = h x).
  { unfold h. apply eq_true_iff_eq. rewrite !existsb_exists. split; intros (s & Hs & Hm); exists s; (split; [exact Hs|]);
      apply memN_In; apply memN_In in Hm; now apply sids_resort_in. }
  rewrite E. destruct (h x); cbn [length]; now rewrite IH.
Qed.

Lemma target_set_okb_resort t l : target_set_okb t l = true -> target_set_okb (resort t) l = true.
Proof.
  unfold target_set_okb. rewrite !forallb_forall. intros H v Hv. apply in_resort_subtrees in Hv as (v0 & Hv0 & ->).
  rewrite compound_node_resort, kids_hit_resort. now apply H.
Qed.

(* ------------------------------------------------------------------ VTree *)

Lemma VTree_resort t : VTree t -> VTree (resort t).
Proof.
  intros V. constructor.
  - intros u k Hu Hk. apply in_resort_subtrees in Hu as (u0 & Hu0 & ->). apply in_resort_kids in Hk as (k0 & Hk0 & ->).
    rewrite !resort_kind. now apply (vt_nest t V).
  - unfold vsids_below. eapply Permutation_NoDup; [apply Permutation_sym, (sel_sids_perm tvis _ _ tvis_resort (resort_tbelow_perm t))|].
    exact (vt_unique t V).
  - intros u x l Hu Hx El. apply in_resort_subtrees in Hu as (u0 & Hu0 & ->). rewrite resort_trans in Hx.
    destruct (vt_targets t V u0 x l Hu0 Hx El) as (H1 & H2 & H3). split; [exact H1|]. split.
    + intros s Hs. apply vsids_below_resort. now apply H2.
    + now apply target_set_okb_resort.
  - intros u l Hu Hk El. apply in_resort_subtrees in Hu as (u0 & Hu0 & ->). rewrite resort_kind in Hk. rewrite resort_initattr in El.
    destruct (vt_initattr t V u0 l Hu0 Hk El) as (H1 & H2 & H3). split; [exact H1|]. split.
    + intros s Hs. apply vsids_below_resort. now apply H2.
    + now apply target_set_okb_resort.
  - intros p u Hp Hu Hk. apply in_resort_subtrees in Hp as (p0 & Hp0 & ->). apply in_resort_kids in Hu as (u0 & Hu0 & ->).
    rewrite resort_kind in Hk. destruct (vt_initial t V p0 u0 Hp0 Hu0 Hk) as (x & l & H1 & H2 & H3 & H4 & H5).
    exists x, l. rewrite resort_trans. repeat split; try assumption. intros s Hs. apply vsids_below_resort. now apply H5.
  - intros p h Hp Hh Hk. apply in_resort_subtrees in Hp as (p0 & Hp0 & ->). apply in_resort_kids in Hh as (h0 & Hh0 & ->).
    rewrite resort_kind in Hk. destruct (vt_history t V p0 h0 Hp0 Hh0 Hk) as (x & l & H1 & H2 & H3 & H4 & H5 & H6).
    exists x, l. rewrite resort_trans, resort_kind. repeat split; try assumption.
    + intros s Hs. specialize (H5 s Hs).
      destruct (is_deep_kind (t_kind h0)); [now apply vsids_below_resort | now apply vsids_kids_resort].
    + intros s Hs. apply psids_below_resort. now apply H6.
Qed.

(* ------------------------------------------------------------------ vb_docb, vb_sideb *)

Lemma vb_docb_intro t : t_kind t = KScxml -> (forall w, In w (tbelow t) -> t_kind w <> KScxml) -> vb_docb t = true.
Proof.
  intros Hk H. unfold vb_docb. rewrite Hk. cbn [andb]. apply forallb_forall. intros k Hkk. apply forallb_forall. intros w Hw.
  assert (Hb : In w (tbelow t)) by (unfold tbelow; apply in_flat_map; eauto). specialize (H w Hb). destruct (t_kind w); try reflexivity. congruence.
Qed.

Lemma vb_docb_resort t : vb_docb t = true -> vb_docb (resort t) = true.
Proof.
  intros H. destruct (vb_docb_parts t H) as [Hk Hb]. apply vb_docb_intro; [now rewrite resort_kind|].
  intros w Hw. apply in_resort_tbelow in Hw as (w0 & Hw0 & ->). rewrite resort_kind. now apply Hb.
Qed.

Lemma hist_parent_resort t : vb_hist_parentb t = true -> vb_hist_parentb (resort t) = true.
Proof.
  unfold vb_hist_parentb. rewrite !forallb_forall. intros H u Hu. apply in_resort_subtrees in Hu as (u0 & Hu0 & ->).
  specialize (H u0 Hu0). rewrite resort_kind. destruct (t_kind u0); try reflexivity. rewrite forallb_forall in H. apply forallb_forall.
  intros k Hk. apply in_resort_kids in Hk as (k0 & Hk0 & ->). rewrite resort_kind. now apply H.
Qed.

Lemma pseudo_proper_resort sel t : vb_pseudo_properb sel t = true -> vb_pseudo_properb sel (resort t) = true.
Proof.
  intros H. pose proof (pseudo_proper_spec sel t H) as S. unfold vb_pseudo_properb. apply forallb_forall. intros p Hp.
  apply in_resort_subtrees in Hp as (p0 & Hp0 & ->). apply forallb_forall. intros h Hh. apply in_resort_kids in Hh as (h0 & Hh0 & ->).
  rewrite resort_kind. destruct (sel (t_kind h0)) eqn:Es; [|reflexivity]. rewrite resort_trans. apply forallb_forall. intros x Hx.
  destruct (tt_targets x) as [l|] eqn:El; [|reflexivity]. apply forallb_forall. intros s Hs. apply memN_In. apply psids_below_resort.
  eapply S; eauto.
Qed.

Lemma hist_disjoint_resort t : vb_hist_disjointb t = true -> vb_hist_disjointb (resort t) = true.
Proof.
  unfold vb_hist_disjointb. rewrite !forallb_forall. intros H q Hq. apply in_resort_subtrees in Hq as (q0 & Hq0 & ->).
  specialize (H q0 Hq0).
  assert (E : existsb (fun k => is_deep_kind (t_kind k)) (t_kids (resort q0)) = existsb (fun k => is_deep_kind (t_kind k)) (t_kids q0)).
  { apply eq_true_iff_eq. rewrite !existsb_exists. split.
    - intros (k & Hk & Hd). apply in_resort_kids in Hk as (k0 & Hk0 & ->). rewrite resort_kind in Hd. eauto.
    - intros (k & Hk & Hd). exists (resort k). split; [apply in_resort_kids; eauto | now rewrite resort_kind]. }
  rewrite E. destruct (existsb _ (t_kids q0)); [|reflexivity]. rewrite forallb_forall in H. apply forallb_forall. intros w Hw.
  apply in_resort_tbelow in Hw as (w0 & Hw0 & ->). specialize (H w0 Hw0). rewrite forallb_forall in H. apply forallb_forall.
  intros k Hk. apply in_resort_kids in Hk as (k0 & Hk0 & ->). rewrite resort_kind. now apply H.
Qed.

Lemma vb_sideb_resort t : vb_sideb t = true -> vb_sideb (resort t) = true.
Proof.
  intros H. destruct (vb_sideb_parts t H) as (A & B & D & E). unfold vb_sideb.
  unfold ct_rootb in *. rewrite compound_node_resort, A, (hist_parent_resort t B).
  unfold vb_initial_properb in *. rewrite (pseudo_proper_resort _ t D), (hist_disjoint_resort t E).
  reflexivity.
Qed.

(* ------------------------------------------------------------------ the order of the children after resort *)

Definition rk (x : tree) : nat := krank (t_kind x).
Definition sorted_rk (l : list tree) : Prop :=
  forall j1 j2 a b, nth_error l j1 = Some a -> nth_error l j2 = Some b -> rk a < rk b -> j1 < j2.

Lemma sorted_const l c0 : (forall a, In a l -> rk a = c0) -> sorted_rk l.
Proof.
  intros H j1 j2 a b H1 H2 Hlt. apply nth_error_In in H1, H2. rewrite (H a H1), (H b H2) in Hlt. lia.
Qed.

Lemma sorted_app A B : sorted_rk A -> sorted_rk B -> (forall a b, In a A -> In b B -> rk a <= rk b) -> sorted_rk (A ++ B).
Proof.
  intros SA SB Hc j1 j2 a b H1 H2 Hlt.
  destruct (Nat.lt_ge_cases j1 (length A)) as [L1|L1], (Nat.lt_ge_cases j2 (length A)) as [L2|L2].
  - rewrite nth_error_app1 in H1, H2 by assumption. eapply SA; eauto.
  - lia.
  - rewrite nth_error_app2 in H1 by assumption. rewrite nth_error_app1 in H2 by assumption.
    apply nth_error_In in H1, H2. specialize (Hc b a H2 H1). lia.
  - rewrite nth_error_app2 in H1, H2 by assumption. pose proof (SB _ _ _ _ H1 H2 Hlt). lia.
Qed.

Lemma resort_kids_sorted u : kids_sorted (resort u).
Proof.
  unfold kids_sorted. change (sorted_rk (t_kids (resort u))). rewrite resort_kids_eq. set (ks := map resort (t_kids u)).
  rewrite !filter_app. rewrite rev_app_distr.
  set (A1 := rev (filter is_ini (filter not_hst ks))). set (A2 := rev (filter is_ini (rev (filter is_hst ks)))).
  set (B := filter not_ini (rev (filter is_hst ks))). set (C := filter not_ini (filter not_hst ks)).
  assert (HA1 : forall a, In a A1 -> rk a = 0).
  { intros a Ha. unfold A1 in Ha. apply in_rev in Ha. apply filter_In in Ha as [_ Ha]. unfold is_ini in Ha. unfold rk.
    destruct (t_kind a); try discriminate; reflexivity. }
  assert (HA2 : forall a, In a A2 -> rk a = 0).
  { intros a Ha. unfold A2 in Ha. apply in_rev in Ha. apply filter_In in Ha as [_ Ha]. unfold is_ini in Ha. unfold rk.
    destruct (t_kind a); try discriminate; reflexivity. }
  assert (HB : forall a, In a B -> rk a = 1).
  { intros a Ha. unfold B in Ha. apply filter_In in Ha as [Ha _]. apply in_rev in Ha. apply filter_In in Ha as [_ Ha].
    unfold is_hst in Ha. unfold rk. destruct (t_kind a); try discriminate; reflexivity. }
  assert (HC : forall a, In a C -> rk a = 2).
  { intros a Ha. unfold C in Ha. apply filter_In in Ha as [Ha Hn]. apply filter_In in Ha as [_ Ha].
    unfold not_hst in Ha. unfold not_ini in Hn. unfold rk. destruct (t_kind a); try discriminate; reflexivity. }
  rewrite <- app_assoc. apply sorted_app; [eapply sorted_const; exact HA1| |].
  - apply sorted_app; [eapply sorted_const; exact HA2| |].
    + apply sorted_app; [eapply sorted_const; exact HB | eapply sorted_const; exact HC|].
      intros a b Ha Hb. rewrite (HB a Ha), (HC b Hb). lia.
    + intros a b Ha Hb. rewrite (HA2 a Ha). lia.
  - intros a b Ha Hb. rewrite (HA1 a Ha). lia.
Qed.

(* ------------------------------------------------------------------ the hypotheses of the table-level lemmas *)

Theorem flat_hyp_resort t : VTree t -> NoDup (sids t) -> vb_docb t = true -> vb_sideb t = true -> FlatHyp (resort t).
Proof.
  intros V U D S. constructor.
  - now apply VTree_resort.
  - eapply Permutation_NoDup; [apply Permutation_sym, resort_sids_perm | exact U].
  - now apply vb_docb_resort.
  - now apply vb_sideb_resort.
  - intros u Hu. apply in_resort_subtrees in Hu as (u0 & _ & ->). apply resort_kids_sorted.
Qed.
