(* SerializeCodecLemmas.v -- C14: the two engine state encodings are lossless, for sets of any size.
   index lists (LargeMicroStep: decimal atoms, flat_set insertion) and bit arrays (FastMicroStep: blocks,
   size block, libb64 with line breaks; tables from GenBase64.v). *)
From V Require Import Base NameMatch Chart Exec Large Interp GenBase64 Serialize.
From Coq Require Import Sorted.
Local Open Scope nat_scope.

(* ------------------------------------------------------------------ strictly ascending lists (flat_sets) *)

Definition ssorted (l : list nat) : Prop := StronglySorted lt l.

Lemma ssorted_nil : ssorted [].
Proof. constructor. Qed.

Lemma insert_sorted_In x a l : In a (insert_sorted x l) <-> a = x \/ In a l.
Proof.
  induction l as [|y r IH]; cbn [insert_sorted].
  - cbn. intuition.
  - destruct (x <? y) eqn:Hlt.
    + cbn. intuition.
    + destruct (x =? y) eqn:Heq.
      * apply Nat.eqb_eq in Heq; subst. cbn. intuition.
      * cbn [In]. rewrite IH. intuition.
Qed.

Lemma insert_sorted_ssorted x l : ssorted l -> ssorted (insert_sorted x l).
Proof.
  unfold ssorted. induction l as [|y r IH]; intros H; cbn [insert_sorted].
  - repeat constructor.
  - inversion H as [|? ? Hr Hall]; subst.
    destruct (x <? y) eqn:Hlt.
    + apply Nat.ltb_lt in Hlt. constructor; [exact H|].
      constructor; [exact Hlt|]. rewrite Forall_forall in *. intros z Hz. specialize (Hall z Hz). lia.
    + destruct (x =? y) eqn:Heq; [exact H|].
      apply Nat.ltb_ge in Hlt. apply Nat.eqb_neq in Heq.
      constructor; [apply IH; exact Hr|].
      rewrite Forall_forall in *. intros z Hz. apply insert_sorted_In in Hz. destruct Hz as [->|Hz]; [lia|auto].
Qed.

Lemma filter_ssorted f l : ssorted l -> ssorted (filter f l).
Proof.
  unfold ssorted. induction l as [|y r IH]; intros H; cbn [filter]; [constructor|].
  inversion H as [|? ? Hr Hall]; subst.
  destruct (f y); [|auto].
  constructor; [auto|]. rewrite Forall_forall in *. intros z Hz. apply filter_In in Hz. apply Hall. tauto.
Qed.

Lemma set_remove_ssorted x l : ssorted l -> ssorted (set_remove x l).
Proof. apply filter_ssorted. Qed.

Lemma fold_insert_ssorted (xs acc : list nat) :
  ssorted acc -> ssorted (fold_left (fun a x => insert_sorted x a) xs acc).
Proof.
  revert acc. induction xs as [|x r IH]; intros acc H; cbn [fold_left]; [exact H|].
  apply IH. now apply insert_sorted_ssorted.
Qed.

Lemma set_union_ssorted a b : ssorted a -> ssorted (set_union a b).
Proof. apply fold_insert_ssorted. Qed.

Lemma set_of_list_ssorted l : ssorted (set_of_list l).
Proof. apply fold_insert_ssorted. constructor. Qed.

(* inserting an element larger than all others appends it *)
Lemma insert_sorted_last x l : Forall (fun y => y < x) l -> insert_sorted x l = l ++ [x].
Proof.
  induction l as [|y r IH]; intros H; cbn [insert_sorted app]; [reflexivity|].
  inversion H; subst.
  destruct (x <? y) eqn:E; [apply Nat.ltb_lt in E; lia|].
  destruct (x =? y) eqn:E2; [apply Nat.eqb_eq in E2; lia|].
  now rewrite IH.
Qed.

Lemma set_of_list_sorted_aux (l acc : list nat) :
  ssorted (acc ++ l) -> fold_left (fun a x => insert_sorted x a) l acc = acc ++ l.
Proof.
  revert acc. induction l as [|x r IH]; intros acc H; cbn [fold_left].
  - now rewrite app_nil_r.
  - rewrite insert_sorted_last.
    + rewrite IH; rewrite <- app_assoc; [reflexivity| exact H].
    + clear IH. unfold ssorted in H. induction acc as [|a t IHa]; [constructor|].
      cbn in H. inversion H as [|? ? Ht Hall]; subst. constructor.
      * rewrite Forall_forall in Hall. apply Hall. apply in_or_app. right. now left.
      * now apply IHa.
Qed.

(* the flat_set built by inserting the elements of a strictly ascending list is that list *)
Lemma set_of_list_sorted l : ssorted l -> set_of_list l = l.
Proof. intros H. unfold set_of_list. now rewrite set_of_list_sorted_aux. Qed.

(* ------------------------------------------------------------------ decimal atoms *)

Local Open Scope N_scope.

Definition dstep (a d : N) : N := a * 10 + (d - 48).

Lemma undec_shift l : forall a, fold_left dstep l a = a * 10 ^ N.of_nat (length l) + fold_left dstep l 0.
Proof.
  induction l as [|d r IH]; intros a; cbn [fold_left length].
  - cbn. lia.
  - rewrite IH. rewrite (IH (dstep 0 d)). unfold dstep.
    rewrite Nat2N.inj_succ, N.pow_succ_r'. lia.
Qed.

Lemma dec_fuel_val : forall f n acc,
  n < 2 ^ N.of_nat f ->
  undec (dec_fuel f n acc) = n * 10 ^ N.of_nat (length acc) + undec acc.
Proof.
  unfold undec. fold dstep.
  induction f as [|f IH]; intros n acc Hn.
  - cbn in Hn. assert (n = 0) by lia. subst. cbn [dec_fuel]. lia.
  - cbn [dec_fuel].
    destruct (N.div_eucl n 10) as [q r] eqn:E.
    assert (Hqr : n = 10 * q + r /\ r < 10).
    { pose proof (N.div_eucl_spec n 10) as S1. rewrite E in S1.
      pose proof (N.mod_lt n 10 ltac:(lia)) as S2. unfold N.modulo in S2. rewrite E in S2. cbn in S2. split; [exact S1|exact S2]. }
    destruct Hqr as [Hn' Hr].
    assert (Hacc : fold_left dstep (48 + r :: acc) 0 = r * 10 ^ N.of_nat (length acc) + fold_left dstep acc 0).
    { cbn [fold_left]. rewrite undec_shift. unfold dstep. replace (0 * 10 + (48 + r - 48)) with r by lia. reflexivity. }
    destruct (q =? 0) eqn:Eq.
    + apply N.eqb_eq in Eq. subst q. rewrite Hacc. replace n with r by lia. reflexivity.
    + apply N.eqb_neq in Eq.
      rewrite IH.
      * rewrite Hacc. cbn [length]. rewrite Nat2N.inj_succ, N.pow_succ_r'. lia.
      * rewrite Nat2N.inj_succ, N.pow_succ_r' in Hn. lia.
Qed.

Lemma pos_lt_pow_size (p : positive) : N.pos p < 2 ^ N.of_nat (Pos.size_nat p).
Proof.
  induction p as [p IH|p IH|]; cbn [Pos.size_nat]; rewrite ?Nat2N.inj_succ, ?N.pow_succ_r'; try lia.
Qed.

Lemma undec_dec n : undec (dec n) = n.
Proof.
  unfold dec. rewrite dec_fuel_val.
  - cbn. lia.
  - rewrite Nat2N.inj_succ, N.pow_succ_r'. destruct n as [|p]; cbn [N.size_nat].
    + cbn. lia.
    + pose proof (pos_lt_pow_size p). lia.
Qed.

Local Open Scope nat_scope.

(* U: every flat_set survives LargeMicroStep's encoding, whatever its size *)
Lemma index_list_roundtrip_lemma l : ssorted l -> idx_decode (idx_encode l) = l.
Proof.
  intros H. unfold idx_decode, idx_encode. rewrite map_map.
  rewrite (map_ext _ (fun i => i)).
  - rewrite map_id. now apply set_of_list_sorted.
  - intros i. rewrite undec_dec. apply Nat2N.id.
Qed.

(* ------------------------------------------------------------------ bit arrays *)

Definition bounded (n : nat) (l : list nat) : Prop := Forall (fun i => i < n) l.

Lemma index_where_map {A} (f : A -> bool) (g : nat -> A) n : forall a,
  index_where f (map g (seq a n)) a = filter (fun i => f (g i)) (seq a n).
Proof.
  induction n as [|n IH]; intros a; cbn [seq map index_where filter]; [reflexivity|].
  rewrite IH. destruct (f (g a)); reflexivity.
Qed.

Lemma mem_In x l : mem x l = true <-> In x l.
Proof.
  induction l as [|y r IH]; cbn [mem In]; [split; [discriminate|tauto]|].
  rewrite orb_true_iff, Nat.eqb_eq, IH. intuition.
Qed.

Lemma filter_none {A} (f : A -> bool) l : (forall x, In x l -> f x = false) -> filter f l = [].
Proof.
  induction l as [|y r IH]; intros H; cbn [filter]; [reflexivity|].
  rewrite (H y (or_introl eq_refl)). apply IH. intros x Hx. apply H. now right.
Qed.

Lemma filter_mem_seq l : forall a n,
  ssorted l -> Forall (fun i => a <= i < a + n) l ->
  filter (fun i => mem i l) (seq a n) = l.
Proof.
  induction l as [|x r IH]; intros a n Hs Hb.
  - apply filter_none. reflexivity.
  - inversion Hs as [|? ? Hr Hall]; subst. inversion Hb as [|? ? Hx Hbr]; subst.
    replace n with ((x - a) + S (a + n - x - 1)) by lia.
    rewrite seq_app, filter_app. cbn [seq filter].
    replace (a + (x - a)) with x by lia.
    rewrite filter_none.
    + cbn [app mem]. rewrite Nat.eqb_refl. cbn [orb]. f_equal.
      rewrite (filter_ext_in _ (fun i => mem i r)).
      * apply IH; [exact Hr|]. rewrite Forall_forall in *. intros i Hi. specialize (Hall i Hi). specialize (Hbr i Hi). lia.
      * intros i Hi. apply in_seq in Hi. cbn [mem]. destruct (i =? x) eqn:E; [apply Nat.eqb_eq in E; lia|reflexivity].
    + intros i Hi. apply in_seq in Hi. destruct (mem i (x :: r)) eqn:E; [|reflexivity].
      apply mem_In in E. destruct E as [->|E]; [lia|]. rewrite Forall_forall in Hall. specialize (Hall i E). lia.
Qed.

Lemma set_of_bits_of_set n l : ssorted l -> bounded n l -> set_of_bits (bits_of_set n l) = l.
Proof.
  intros Hs Hb. unfold set_of_bits, bits_of_set. rewrite index_where_map.
  apply filter_mem_seq; [exact Hs|]. unfold bounded in Hb. rewrite Forall_forall in *. intros i Hi. specialize (Hb i Hi). lia.
Qed.

Lemma bits_of_set_length n l : length (bits_of_set n l) = n.
Proof. unfold bits_of_set. now rewrite map_length, seq_length. Qed.

(* one byte *)
Lemma bits_of_byte_of_bits m : length m <= 8 -> bits_of_byte (byte_of_bits m) = m ++ repeat false (8 - length m).
Proof.
  intros H.
  destruct m as [|b0 [|b1 [|b2 [|b3 [|b4 [|b5 [|b6 [|b7 [|b8 r]]]]]]]]]; cbn [length] in H; try lia;
    repeat match goal with b : bool |- _ => destruct b end; reflexivity.
Qed.

Lemma byte_of_bits_lt m : length m <= 8 -> (byte_of_bits m < 256)%N.
Proof.
  intros H.
  destruct m as [|b0 [|b1 [|b2 [|b3 [|b4 [|b5 [|b6 [|b7 [|b8 r]]]]]]]]]; cbn [length] in H; try lia;
    repeat match goal with b : bool |- _ => destruct b end; reflexivity.
Qed.

Lemma unpack_pack k : forall l, length l <= 8 * k -> unpack (pack k l) = l ++ repeat false (8 * k - length l).
Proof.
  unfold unpack. induction k as [|k IH]; intros l H.
  - destruct l; [reflexivity|cbn in H; lia].
  - cbn [pack flat_map].
    rewrite bits_of_byte_of_bits by (rewrite firstn_length; lia).
    destruct (Nat.le_gt_cases 8 (length l)) as [Hl|Hl].
    + rewrite IH by (rewrite skipn_length; lia).
      rewrite firstn_length, skipn_length. replace (8 - Nat.min 8 (length l)) with 0 by lia. cbn [repeat]. rewrite app_nil_r.
      rewrite app_assoc, firstn_skipn. f_equal. f_equal. lia.
    + rewrite skipn_all2 by lia. rewrite firstn_all2 by lia.
      rewrite IH by (cbn; lia). cbn [length app]. rewrite <- app_assoc, <- repeat_app. f_equal. f_equal. lia.
Qed.

Lemma pack_lt k : forall l, Forall (fun b => (b < 256)%N) (pack k l).
Proof.
  induction k as [|k IH]; intros l; cbn [pack]; constructor; [|apply IH].
  apply byte_of_bits_lt. rewrite firstn_length. lia.
Qed.

Lemma pack_length k l : length (pack k l) = k.
Proof. revert l. induction k; intros l; cbn [pack length]; [reflexivity|now rewrite IHk]. Qed.

Lemma un_le_le_bytes k : forall x, (x < 256 ^ N.of_nat k)%N -> un_le (le_bytes k x) = x.
Proof.
  induction k as [|k IH]; intros x H; cbn [le_bytes un_le].
  - cbn in H. lia.
  - rewrite IH.
    + pose proof (N.div_mod x 256 ltac:(lia)). lia.
    + rewrite Nat2N.inj_succ, N.pow_succ_r' in H. apply N.div_lt_upper_bound; lia.
Qed.

Lemma le_bytes_length k x : length (le_bytes k x) = k.
Proof. revert x. induction k; intros x; cbn [le_bytes length]; [reflexivity|now rewrite IHk]. Qed.

Lemma le_bytes_lt k : forall x, Forall (fun b => (b < 256)%N) (le_bytes k x).
Proof.
  induction k as [|k IH]; intros x; cbn [le_bytes]; constructor; [|apply IH].
  apply N.mod_lt. lia.
Qed.

Lemma bitset_block_bytes_pos : 0 < bitset_block_bytes.
Proof. unfold bitset_block_bytes. lia. Qed.

Lemma nblocks_covers n : n <= nblocks n * bitset_block_bytes * 8.
Proof.
  unfold nblocks, block_bits. pose proof bitset_block_bytes_pos.
  set (b := 8 * bitset_block_bytes). assert (0 < b) by (unfold b; lia).
  pose proof (Nat.div_mod (n + (b - 1)) b ltac:(lia)). pose proof (Nat.mod_upper_bound (n + (b - 1)) b ltac:(lia)).
  replace (((n + (b - 1)) / b) * bitset_block_bytes * 8) with (b * ((n + (b - 1)) / b)) by (unfold b; lia). lia.
Qed.

Lemma bitset_roundtrip l :
  (N.of_nat (length l) < 256 ^ N.of_nat bitset_block_bytes)%N -> bitset_decode (bitset_encode l) = l.
Proof.
  intros Hlen. unfold bitset_decode, bitset_encode.
  set (nb := nblocks (length l)). pose proof bitset_block_bytes_pos as Hp.
  rewrite app_length, pack_length, le_bytes_length.
  replace ((nb * bitset_block_bytes + bitset_block_bytes) / bitset_block_bytes) with (S nb).
  2:{ replace (nb * bitset_block_bytes + bitset_block_bytes) with (S nb * bitset_block_bytes) by lia.
      now rewrite Nat.div_mul by lia. }
  replace (S nb - 1) with nb by lia.
  set (pk := pack (nb * bitset_block_bytes) l). set (le := le_bytes bitset_block_bytes (N.of_nat (length l))).
  assert (Hpk : length pk = nb * bitset_block_bytes) by apply pack_length.
  assert (Hle : length le = bitset_block_bytes) by apply le_bytes_length.
  assert (H1 : firstn (nb * bitset_block_bytes) (pk ++ le) = pk).
  { rewrite firstn_app, Hpk, Nat.sub_diag, firstn_O, app_nil_r. apply firstn_all2. lia. }
  assert (H2 : skipn (nb * bitset_block_bytes) (pk ++ le) = le).
  { rewrite skipn_app, Hpk, Nat.sub_diag, skipn_O. rewrite skipn_all2 by lia. reflexivity. }
  rewrite H1, H2. rewrite firstn_all2 by lia. unfold le, pk.
  rewrite un_le_le_bytes by exact Hlen. rewrite Nat2N.id.
  pose proof (nblocks_covers (length l)) as Hc. fold nb in Hc.
  rewrite unpack_pack by lia.
  unfold resize. rewrite firstn_app, Nat.sub_diag, firstn_O, app_nil_r, firstn_all.
  rewrite app_length, repeat_length. replace (length l - (length l + (8 * (nb * bitset_block_bytes) - length l))) with 0 by lia.
  cbn [repeat]. now rewrite app_nil_r.
Qed.

Lemma bitset_encode_lt l : Forall (fun b => (b < 256)%N) (bitset_encode l).
Proof. unfold bitset_encode. apply Forall_app. split; [apply pack_lt|apply le_bytes_lt]. Qed.

(* ------------------------------------------------------------------ base64 (libb64 tables of GenBase64.v) *)

Local Open Scope N_scope.

Definition sextet_ok (v : N) : bool :=
  match b64_value (b64_char v) with
  | Zpos p => N.pos p =? v
  | Z0 => v =? 0
  | Zneg _ => false
  end.

(* the two generated tables are inverse to each other on 0..63, and '=' and newline decode to a negative value *)
Lemma b64_tables_inverse :
  forallb sextet_ok (map N.of_nat (seq 0 64)) = true /\ (b64_value 61 <? 0)%Z = true /\ (b64_value 10 <? 0)%Z = true.
Proof. vm_compute. repeat split. Qed.

Lemma b64_value_char v : v < 64 -> b64_value (b64_char v) = Z.of_N v.
Proof.
  intros H. destruct b64_tables_inverse as [Ht _].
  rewrite forallb_forall in Ht.
  assert (Hin : In v (map N.of_nat (seq 0 64))).
  { apply in_map_iff. exists (N.to_nat v). split; [apply N2Nat.id|]. apply in_seq. lia. }
  specialize (Ht v Hin). unfold sextet_ok in Ht.
  destruct (b64_value (b64_char v)) as [|p|p]; try discriminate.
  - apply N.eqb_eq in Ht. now subst.
  - apply N.eqb_eq in Ht. now subst.
Qed.

Lemma sextets_cons_char v s : v < 64 -> b64_sextets (b64_char v :: s) = v :: b64_sextets s.
Proof.
  intros H. unfold b64_sextets. cbn [filter_map]. cbv zeta. rewrite b64_value_char by exact H.
  destruct (Z.of_N v <? 0)%Z eqn:E; [apply Z.ltb_lt in E; lia|]. now rewrite N2Z.id.
Qed.

Lemma sextets_cons_skip ch s : (b64_value ch <? 0)%Z = true -> b64_sextets (ch :: s) = b64_sextets s.
Proof. intros H. unfold b64_sextets. cbn [filter_map]. cbv zeta. now rewrite H. Qed.

Lemma sextets_pad s : b64_sextets (61 :: s) = b64_sextets s.
Proof. apply sextets_cons_skip. apply b64_tables_inverse. Qed.
Lemma sextets_nl s : b64_sextets (10 :: s) = b64_sextets s.
Proof. apply sextets_cons_skip. apply b64_tables_inverse. Qed.

Ltac divmod_bounds :=
  repeat match goal with
         | |- context [?a / ?b] => let q := fresh "q" in let Hq := fresh "Hq" in
             pose proof (N.div_mod a b ltac:(lia)) as Hq; pose proof (N.mod_lt a b ltac:(lia));
             set (q := a / b) in *; clearbody q
         | |- context [?a mod ?b] => let r := fresh "r" in
             pose proof (N.div_mod a b ltac:(lia)); pose proof (N.mod_lt a b ltac:(lia));
             set (r := a mod b) in *; clearbody r
         end.

Lemma b64_bytes_4 a b c d r :
  b64_bytes (a :: b :: c :: d :: r) = a * 4 + b / 16 :: (b mod 16) * 16 + c / 4 :: (c mod 4) * 64 + d :: b64_bytes r.
Proof. reflexivity. Qed.

Lemma b64_roundtrip_groups : forall n l cnt, (length l <= n)%nat -> Forall (fun b => b < 256) l ->
  b64_bytes (b64_sextets (b64_groups cnt l)) = l.
Proof.
  induction n as [|n IH]; intros l cnt Hn Hb.
  - destruct l; [reflexivity|cbn in Hn; lia].
  - destruct l as [|a [|b [|c r]]].
    + reflexivity.
    + inversion Hb as [|? ? Ha _]; subst. cbn [b64_groups].
      rewrite sextets_cons_char by (apply N.div_lt_upper_bound; lia).
      rewrite sextets_cons_char by (pose proof (N.mod_lt a 4 ltac:(lia)); lia).
      rewrite !sextets_pad. cbn [b64_sextets filter_map b64_bytes].
      f_equal. pose proof (N.div_mod a 4 ltac:(lia)). pose proof (N.mod_lt a 4 ltac:(lia)).
      replace ((a mod 4 * 16) / 16) with (a mod 4) by (rewrite N.div_mul; lia). lia.
    + inversion Hb as [|? ? Ha Hb']; subst. inversion Hb' as [|? ? Hb0 _]; subst. cbn [b64_groups].
      assert (a / 4 < 64) by (apply N.div_lt_upper_bound; lia).
      assert (b / 16 < 16) by (apply N.div_lt_upper_bound; lia).
      pose proof (N.mod_lt a 4 ltac:(lia)). pose proof (N.mod_lt b 16 ltac:(lia)).
      rewrite sextets_cons_char by lia. rewrite sextets_cons_char by lia. rewrite sextets_cons_char by lia.
      rewrite sextets_pad. cbn [b64_sextets filter_map b64_bytes].
      pose proof (N.div_mod a 4 ltac:(lia)). pose proof (N.div_mod b 16 ltac:(lia)).
      f_equal; [|f_equal].
      * replace ((a mod 4 * 16 + b / 16) / 16) with (a mod 4); [lia|].
        apply N.div_unique with (r := b / 16); lia.
      * replace ((a mod 4 * 16 + b / 16) mod 16) with (b / 16).
        2:{ apply N.mod_unique with (q := a mod 4); lia. }
        replace ((b mod 16 * 4) / 4) with (b mod 16) by (rewrite N.div_mul; lia). lia.
    + inversion Hb as [|? ? Ha Hb']; subst. inversion Hb' as [|? ? Hb0 Hb'']; subst. inversion Hb'' as [|? ? Hc Hr]; subst.
      cbn [b64_groups].
      assert (a / 4 < 64) by (apply N.div_lt_upper_bound; lia).
      assert (b / 16 < 16) by (apply N.div_lt_upper_bound; lia).
      assert (c / 64 < 4) by (apply N.div_lt_upper_bound; lia).
      pose proof (N.mod_lt a 4 ltac:(lia)). pose proof (N.mod_lt b 16 ltac:(lia)). pose proof (N.mod_lt c 64 ltac:(lia)).
      rewrite sextets_cons_char by lia. rewrite sextets_cons_char by lia. rewrite sextets_cons_char by lia.
      rewrite sextets_cons_char by lia.
      assert (Hrest : forall cnt', b64_bytes (b64_sextets (b64_groups cnt' r)) = r).
      { intros cnt'. apply IH; [cbn [length] in Hn; lia|exact Hr]. }
      rewrite b64_bytes_4.
      match goal with |- context [b64_bytes (b64_sextets ?t)] => assert (Htail : b64_bytes (b64_sextets t) = r) end.
      { match goal with |- context [if ?cnd then _ else _] => destruct cnd end; [rewrite sextets_nl|]; apply Hrest. }
      rewrite Htail.
      pose proof (N.div_mod a 4 ltac:(lia)). pose proof (N.div_mod b 16 ltac:(lia)). pose proof (N.div_mod c 64 ltac:(lia)).
      f_equal; [|f_equal; [|f_equal]].
      * replace ((a mod 4 * 16 + b / 16) / 16) with (a mod 4); [lia|].
        apply N.div_unique with (r := b / 16); lia.
      * replace ((a mod 4 * 16 + b / 16) mod 16) with (b / 16).
        2:{ apply N.mod_unique with (q := a mod 4); lia. }
        replace ((b mod 16 * 4 + c / 64) / 4) with (b mod 16); [lia|].
        apply N.div_unique with (r := c / 64); lia.
      * replace ((b mod 16 * 4 + c / 64) mod 4) with (c / 64); [lia|].
        apply N.mod_unique with (q := b mod 16); lia.
Qed.

Lemma b64_roundtrip l : Forall (fun b => b < 256) l -> b64_decode (b64_encode l) = l.
Proof. intros H. unfold b64_decode, b64_encode. now apply (b64_roundtrip_groups (length l)). Qed.

Local Open Scope nat_scope.

(* U: every flat_set of states survives FastMicroStep's encoding (bit array -> blocks + size block -> base64
   with line breaks -> back), for every number of states below 2^64 *)
Lemma bitset_base64_roundtrip_lemma n l :
  (N.of_nat n < 256 ^ N.of_nat bitset_block_bytes)%N -> ssorted l -> bounded n l ->
  fast_decode (fast_encode n l) = l.
Proof.
  intros Hn Hs Hb. unfold fast_decode, fast_encode.
  rewrite b64_roundtrip by apply bitset_encode_lt.
  rewrite bitset_roundtrip by (rewrite bits_of_set_length; exact Hn).
  now apply set_of_bits_of_set.
Qed.

(* the bit level alone: any bit vector, any length *)
Lemma bits_base64_roundtrip (bits : list bool) :
  (N.of_nat (length bits) < 256 ^ N.of_nat bitset_block_bytes)%N ->
  bitset_decode (b64_decode (b64_encode (bitset_encode bits))) = bits.
Proof. intros H. rewrite b64_roundtrip by apply bitset_encode_lt. now apply bitset_roundtrip. Qed.
