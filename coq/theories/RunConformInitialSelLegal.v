(* RunConformInitialSelLegal.v -- the boolean legality oracle legal_configb (Legal.v) is COMPLETE on charts with
   pseudo-states (record WFH of LegalHistBase.v): every legal configuration of proper states (LegalCfgH of
   LegalHistStep.v), given as a duplicate-free list, is accepted.  (The converse is
   LegalHistOracle.legal_configb_sound_h.)  Proofs only. *)
From V Require Import Base NameMatch Chart Exec Large LargeLemmas Legal SetLemmas LegalAbstract LegalLarge
  LegalHistBase LegalHistEntry LegalHistStep.
Local Open Scope nat_scope.

Lemma rcis_nodupb_NoDup l : NoDup l -> nodupb l = true.
Proof.
  induction 1 as [|x r Hx _ IH]; cbn [nodupb]; [reflexivity|].
  apply andb_true_iff. split; [apply negb_true_iff, mem_false_In, Hx | exact IH].
Qed.

Lemma rcis_filter_len_one {A} (f : A -> bool) (l : list A) k : NoDup l -> In k l -> f k = true ->
  (forall k', In k' l -> f k' = true -> k' = k) -> length (filter f l) = 1.
Proof.
  induction 1 as [|x r Hx Hnd IH]; intros Hin Hf Hu; [destruct Hin|]. cbn [filter].
  destruct Hin as [->|Hin].
  - rewrite Hf. cbn [length]. f_equal.
    assert (E : filter f r = []).
    { destruct (filter f r) as [|y t] eqn:E; [reflexivity|]. exfalso.
      assert (Hy : In y (filter f r)) by (rewrite E; now left). apply filter_In in Hy as [Hy1 Hy2].
      assert (y = k) by (apply Hu; [now right | exact Hy2]). subst. contradiction. }
    now rewrite E.
  - destruct (f x) eqn:Hfx.
    + exfalso. assert (x = k) by (apply Hu; [now left | exact Hfx]). subst. contradiction.
    + apply IH; [exact Hin | exact Hf | intros k' Hk'; apply Hu; now right].
Qed.

Theorem legal_configb_complete_h : forall c cfg, WFH c -> LegalCfgH c cfg -> NoDup cfg -> legal_configb c cfg = true.
Proof.
  intros c cfg W [HL HB] Hnd. unfold LegalH in HL. unfold legal_configb.
  apply andb_true_iff. split; [apply andb_true_iff; split|].
  - apply mem_In. exact (lg_root _ _ _ _ HL).
  - now apply rcis_nodupb_NoDup.
  - apply forallb_forall. intros i Hi. destruct (HB i Hi) as [Hlt Hps]. unfold state_ok.
    apply andb_true_iff. split; [apply andb_true_iff; split; [apply andb_true_iff; split|]|].
    + now apply Nat.ltb_lt.
    + rewrite proper_type_pseudo. unfold pseudoS in Hps. now rewrite Hps.
    + destruct (fs_parent (st c i)) as [p|] eqn:Hp; [|reflexivity]. apply mem_In.
      apply (lg_parent _ _ _ _ HL i p Hi). unfold ppar. now rewrite Hps.
    + assert (Hnd' : NoDup (proper_children c i)) by (apply NoDup_filter; exact (wh_children_nodup c W i)).
      destruct (fs_type (st c i)) eqn:Ht; try reflexivity.
      * apply Nat.eqb_eq. destruct (lg_compound_ex _ _ _ _ HL i Hi Ht) as (k & Hk & Hck). unfold pch in Hk.
        apply (rcis_filter_len_one _ _ k Hnd' Hk); [now apply mem_In|].
        intros k' Hk' Hm. apply mem_In in Hm. exact (lg_compound_uniq _ _ _ _ HL i k' k Hi Ht Hk' Hk Hm Hck).
      * apply forallb_forall. intros k Hk. apply mem_In. exact (lg_parallel _ _ _ _ HL i k Hi Ht Hk).
Qed.

Print Assumptions legal_configb_complete_h.
