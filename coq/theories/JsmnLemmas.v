(* JsmnLemmas.v -- invariants of the tokenizer model: for every input, budget and parser state
   reachable from jsmn_init, jsmn never writes outside the allocated part of the token array, uses at
   most [budget] tokens, and on success every token has a type in 0..3 and 1 <= end <= length of the
   text. *)
From V Require Import Base Jsmn.
From Coq Require Import Lia ZArith.
Local Open Scope Z_scope.

Definition tok_ok (pos : nat) (t : token) : Prop :=
  (ttype t <= 3)%N /\ 0 <= tstart t /\ (tend t = -1 \/ 1 <= tend t <= Z.of_nat pos).

Definition mode_ok (pos : nat) (m : pmode) : Prop :=
  match m with
  | MMain => True
  | MStr s | MStrEsc s | MPrim s => (s < pos)%nat
  end.

Definition tok_inv (budget pos : nat) (st : pstate) : Prop :=
  (length (toks_rev st) <= budget)%nat /\
  Forall (tok_ok pos) (toks_rev st) /\
  (toksuper st = -1 \/ 0 <= toksuper st < Z.of_nat (length (toks_rev st))).

Definition tok_final (L : nat) (t : token) : Prop :=
  (ttype t <= 3)%N /\ 1 <= tend t <= Z.of_nat L.

Lemma tok_ok_mono p q t : (p <= q)%nat -> tok_ok p t -> tok_ok q t.
Proof. unfold tok_ok. intros H (A & B & C). repeat split; try assumption. destruct C as [C|C]; [now left|right; lia]. Qed.

Lemma Forall_tok_ok_mono p q l : (p <= q)%nat -> Forall (tok_ok p) l -> Forall (tok_ok q) l.
Proof. intros H F. eapply Forall_impl; [|exact F]. intros t. now apply tok_ok_mono. Qed.

Lemma tok_inv_mono b p q st : (p <= q)%nat -> tok_inv b p st -> tok_inv b q st.
Proof. intros H (A & B & C). repeat split; try assumption. now apply Forall_tok_ok_mono with p. Qed.

Lemma super_size_incr_inv b p st :
  tok_inv b p st -> super_size_incr st = JOk st.
Proof.
  intros (A & B & C). unfold super_size_incr.
  destruct (Z.eqb_spec (toksuper st) (-1)) as [E|E]; [reflexivity|].
  destruct C as [C|C]; [contradiction|].
  destruct (Z.ltb_spec (toksuper st) 0); [lia|].
  unfold toknext. destruct (Nat.ltb_spec (Z.to_nat (toksuper st)) (length (toks_rev st))); [reflexivity|lia].
Qed.

Lemma alloc_inv b p st t :
  tok_inv b p st -> tok_ok p t ->
  (alloc b st t = JErr JNOMEM) \/
  (exists st', alloc b st t = JOk st' /\ tok_inv b p st' /\ toks_rev st' = t :: toks_rev st /\ toksuper st' = toksuper st).
Proof.
  intros (A & B & C) T. unfold alloc, toknext.
  destruct (Nat.leb_spec b (length (toks_rev st))); [now left|right].
  eexists; split; [reflexivity|]. cbn. repeat split; cbn; auto; try lia.
  all: try (destruct C as [C|C]; [now left|right; lia]).
Qed.

Lemma close_first_inv r ty pos r' :
  Forall (tok_ok pos) r -> close_first r ty pos = JOk r' ->
  Forall (tok_ok (S pos)) r' /\ length r' = length r.
Proof.
  revert r'; induction r as [|t r IH]; intros r' F E; cbn in E; [discriminate|].
  inversion F as [|? ? Ht Hr]; subst.
  destruct (is_open t) eqn:O.
  - destruct (negb (ttype t =? ty)%N); [discriminate|]. inversion E; subst. split; [|reflexivity].
    constructor.
    + destruct Ht as (T1 & T2 & T3). unfold tok_ok; cbn. repeat split; auto. right. lia.
    + now apply Forall_tok_ok_mono with pos; [lia|].
  - destruct (close_first r ty pos) eqn:E'; try discriminate. inversion E; subst.
    destruct (IH _ Hr eq_refl) as (F' & L'). split; [|cbn; now rewrite L'].
    constructor; [apply tok_ok_mono with pos; [lia|assumption]|assumption].
Qed.

Lemma close_first_noob r ty pos : close_first r ty pos <> JOob.
Proof.
  induction r as [|t r IH]; cbn; [discriminate|].
  destruct (is_open t); [destruct (negb (ttype t =? ty)%N); discriminate|].
  destruct (close_first r ty pos); try discriminate. now elim IH.
Qed.

Lemma find_super_range r : find_super r = -1 \/ 0 <= find_super r < Z.of_nat (length r).
Proof.
  induction r as [|t r IH]; cbn [find_super]; [now left|].
  destruct (is_open t); [right; cbn [length]; lia|].
  destruct IH as [IH|IH]; [now left|right; cbn [length]; lia].
Qed.

Lemma main_char_inv b c pos st :
  tok_inv b pos st ->
  match main_char b c pos st with
  | JOk (m', st') => tok_inv b (S pos) st' /\ mode_ok (S pos) m'
  | JErr _ => True
  | JOob => False
  end.
Proof.
  intros I. unfold main_char.
  destruct ((c =? c_lbrace)%N || (c =? c_lbrack)%N) eqn:E1.
  { set (t := {| ttype := if (c =? c_lbrace)%N then T_OBJECT else T_ARRAY; tstart := Z.of_nat pos; tend := -1 |}).
    assert (T : tok_ok pos t).
    { unfold tok_ok, t; cbn. repeat split; [destruct (c =? c_lbrace)%N; cbv; discriminate|lia|now left]. }
    destruct (alloc_inv b pos st t I T) as [E|(st1 & E & I1 & R1 & S1)]; rewrite E; [exact Logic.I|].
    rewrite (super_size_incr_inv b pos st1 I1).
    split; [|exact Logic.I].
    destruct I1 as (A & B & C). repeat split; cbn.
    - exact A.
    - now apply Forall_tok_ok_mono with pos; [lia|].
    - right. unfold toknext. rewrite R1. cbn [length]. lia. }
  destruct ((c =? c_rbrace)%N || (c =? c_rbrack)%N) eqn:E2.
  { destruct I as (A & B & C).
    destruct (close_first (toks_rev st) (if (c =? c_rbrace)%N then T_OBJECT else T_ARRAY) pos) eqn:E.
    - destruct (close_first_inv _ _ _ _ B E) as (F & L). split; [|exact Logic.I].
      repeat split; cbn; [lia|exact F|]. apply find_super_range.
    - exact Logic.I.
    - now apply close_first_noob in E. }
  destruct (c =? c_quote)%N.
  { split; [now apply tok_inv_mono with pos; [lia|]|cbn; lia]. }
  destruct (jsmn_skip c).
  { split; [now apply tok_inv_mono with pos; [lia|]|exact Logic.I]. }
  destruct (prim_delim c).
  { split; [now apply tok_inv_mono with pos; [lia|]|exact Logic.I]. }
  destruct (prim_invalid c); [exact Logic.I|].
  split; [now apply tok_inv_mono with pos; [lia|]|cbn; lia].
Qed.

Lemma prim_found_inv b start pos st :
  tok_inv b pos st -> (start < pos)%nat ->
  match prim_found b start pos st with
  | JOk st' => tok_inv b pos st'
  | JErr _ => True
  | JOob => False
  end.
Proof.
  intros I H. unfold prim_found.
  set (t := {| ttype := T_PRIM; tstart := Z.of_nat start; tend := Z.of_nat pos |}).
  assert (T : tok_ok pos t).
  { unfold tok_ok, t; cbn. repeat split; [cbv; discriminate|lia|right; lia]. }
  destruct (alloc_inv b pos st t I T) as [E|(st1 & E & I1 & R1 & S1)]; rewrite E; [exact Logic.I|].
  now rewrite (super_size_incr_inv b pos st1 I1).
Qed.

Definition final_inv (budget L : nat) (st : pstate) : Prop :=
  (length (toks_rev st) <= budget)%nat /\ Forall (tok_final L) (toks_rev st).

Lemma final_of_inv b L st : tok_inv b L st -> any_open (toks_rev st) = false -> final_inv b L st.
Proof.
  intros (A & B & C) O. split; [exact A|].
  unfold any_open in O. rewrite Forall_forall in *. intros t Ht.
  destruct (B t Ht) as (T1 & T2 & T3). split; [exact T1|].
  destruct T3 as [T3|T3]; [|exact T3].
  exfalso. assert (X : existsb is_open (toks_rev st) = true).
  { apply existsb_exists. exists t. split; [exact Ht|]. unfold is_open. rewrite T3.
    destruct (Z.eqb_spec (tstart t) (-1)); [lia|reflexivity]. }
  congruence.
Qed.

Lemma jsmn_run_inv b js : forall pos m st,
  tok_inv b pos st -> mode_ok pos m ->
  match jsmn_run b js pos m st with
  | JOk st' => final_inv b (pos + length js) st'
  | JErr _ => True
  | JOob => False
  end.
Proof.
  induction js as [|c r IH]; intros pos m st I M.
  - cbn [jsmn_run length]. rewrite Nat.add_0_r. destruct m; try exact Logic.I.
    + destruct (any_open (toks_rev st)) eqn:O; [exact Logic.I|now apply final_of_inv].
    + pose proof (prim_found_inv b start pos st I M) as P.
      destruct (prim_found b start pos st) as [st1| |]; [|exact Logic.I|exact P].
      destruct (any_open (toks_rev st1)) eqn:O; [exact Logic.I|now apply final_of_inv].
  - cbn [jsmn_run length]. replace (pos + S (length r))%nat with (S pos + length r)%nat by lia.
    destruct m.
    + pose proof (main_char_inv b c pos st I) as P.
      destruct (main_char b c pos st) as [[m' st']| |]; [|exact Logic.I|exact P].
      destruct P as (I' & M'). now apply IH.
    + destruct (c =? c_quote)%N.
      * set (t := {| ttype := T_STRING; tstart := Z.of_nat start + 1; tend := Z.of_nat pos |}).
        assert (T : tok_ok pos t).
        { unfold tok_ok, t; cbn in *. repeat split; [cbv; discriminate|lia|right; lia]. }
        destruct (alloc_inv b pos st t I T) as [E|(st1 & E & I1 & R1 & S1)]; rewrite E; [exact Logic.I|].
        rewrite (super_size_incr_inv b pos st1 I1).
        apply IH; [now apply tok_inv_mono with pos; [lia|]|exact Logic.I].
      * destruct (c =? c_bslash)%N; (apply IH; [now apply tok_inv_mono with pos; [lia|]|cbn in *; lia]).
    + destruct (str_escape_ok c); [|exact Logic.I].
      apply IH; [now apply tok_inv_mono with pos; [lia|]|cbn in *; lia].
    + destruct (prim_delim c).
      * pose proof (prim_found_inv b start pos st I M) as P.
        destruct (prim_found b start pos st) as [st1| |]; [|exact Logic.I|exact P].
        pose proof (main_char_inv b c pos st1 P) as P2.
        destruct (main_char b c pos st1) as [[m' st']| |]; [|exact Logic.I|exact P2].
        destruct P2 as (I' & M'). now apply IH.
      * destruct (prim_invalid c); [exact Logic.I|].
        apply IH; [now apply tok_inv_mono with pos; [lia|]|cbn in *; lia].
Qed.

Lemma cstr_length s : (length (cstr s) <= length s)%nat.
Proof. induction s as [|c r IH]; cbn; [lia|]. destruct (c =? 0)%N; cbn; lia. Qed.

Lemma tok_inv0 b : tok_inv b 0 pstate0.
Proof. repeat split; cbn; [lia|constructor|now left]. Qed.

(* the statement used by the parser proofs *)
Lemma jsmn_parse_inv b s :
  match jsmn_parse b s with
  | JOk toks => (length toks <= b)%nat /\ Forall (tok_final (length s)) toks
  | JErr _ => True
  | JOob => False
  end.
Proof.
  unfold jsmn_parse.
  pose proof (jsmn_run_inv b (cstr s) 0 MMain pstate0 (tok_inv0 b) Logic.I) as P.
  destruct (jsmn_run b (cstr s) 0 MMain pstate0) as [st| |]; [|exact Logic.I|exact P].
  destruct P as (A & B). cbn in B. split; [now rewrite rev_length|].
  apply Forall_rev. eapply Forall_impl; [|exact B].
  intros t (T1 & T2). split; [exact T1|]. pose proof (cstr_length s). lia.
Qed.

(* ---------------------------------------------------------------------------------------- *)
(* the budget matters only through JSMN_ERROR_NOMEM: a successful parse is reproduced by every
   budget that holds its tokens, and every smaller budget gives NOMEM *)

Definition step_budget_spec (b' : nat) (st : pstate) {A} (r' : jres A) (ok : A) (st1 : pstate) : Prop :=
  (length (toks_rev st) <= length (toks_rev st1) <= S (length (toks_rev st)))%nat /\
  ((length (toks_rev st1) <= b')%nat -> r' = JOk ok) /\
  ((length (toks_rev st) <= b' < length (toks_rev st1))%nat -> r' = JErr JNOMEM).

Lemma alloc_budget b b' st t st1 :
  alloc b st t = JOk st1 -> step_budget_spec b' st (alloc b' st t) st1 st1.
Proof.
  unfold alloc, toknext. destruct (Nat.leb_spec b (length (toks_rev st))); [discriminate|].
  intros E; inversion E; subst; clear E. unfold step_budget_spec; cbn.
  split; [lia|split].
  - intros Hb. destruct (Nat.leb_spec b' (length (toks_rev st))); [lia|reflexivity].
  - intros Hb. destruct (Nat.leb_spec b' (length (toks_rev st))); [reflexivity|lia].
Qed.

Lemma super_size_incr_same st st2 : super_size_incr st = JOk st2 -> st2 = st.
Proof.
  unfold super_size_incr. destruct (toksuper st =? -1); [now inversion 1|].
  destruct (toksuper st <? 0); [discriminate|].
  destruct (Z.to_nat (toksuper st) <? toknext st)%nat; [now inversion 1|discriminate].
Qed.

Lemma close_first_length r ty pos r' : close_first r ty pos = JOk r' -> length r' = length r.
Proof.
  revert r'; induction r as [|t r IH]; intros r' E; cbn in E; [discriminate|].
  destruct (is_open t).
  - destruct (negb (ttype t =? ty)%N); [discriminate|]. now inversion E.
  - destruct (close_first r ty pos) eqn:E'; try discriminate. inversion E; subst. cbn. now rewrite (IH _ eq_refl).
Qed.

Lemma main_char_budget b b' c pos st m' st1 :
  main_char b c pos st = JOk (m', st1) ->
  step_budget_spec b' st (main_char b' c pos st) (m', st1) st1.
Proof.
  unfold main_char, step_budget_spec.
  destruct ((c =? c_lbrace)%N || (c =? c_lbrack)%N).
  { set (t := {| ttype := _; tstart := _; tend := _ |}).
    destruct (alloc b st t) as [sa| |] eqn:Ea; try discriminate.
    destruct (super_size_incr sa) as [sb| |] eqn:Es; try discriminate.
    intros E; inversion E; subst; clear E.
    pose proof (super_size_incr_same _ _ Es); subst sb.
    destruct (alloc_budget b b' st t sa Ea) as (L & Hok & Hno). cbn [toks_rev].
    split; [lia|split].
    - intros Hb. rewrite (Hok Hb), Es. reflexivity.
    - intros Hb. now rewrite (Hno Hb). }
  destruct ((c =? c_rbrace)%N || (c =? c_rbrack)%N).
  { destruct (close_first (toks_rev st) _ pos) eqn:Ec; try discriminate.
    intros E; inversion E; subst; clear E. cbn [toks_rev]. rewrite (close_first_length _ _ _ _ Ec).
    split; [lia|split]; [reflexivity|lia]. }
  destruct (c =? c_quote)%N; [intros E; inversion E; subst; (split; [lia|split]; [reflexivity|lia])|].
  destruct (jsmn_skip c); [intros E; inversion E; subst; (split; [lia|split]; [reflexivity|lia])|].
  destruct (prim_delim c); [intros E; inversion E; subst; (split; [lia|split]; [reflexivity|lia])|].
  destruct (prim_invalid c); [discriminate|]. intros E; inversion E; subst; (split; [lia|split]; [reflexivity|lia]).
Qed.

Lemma alloc_incr_budget b b' st t st2 :
  match alloc b st t with JOk st1 => super_size_incr st1 | r => r end = JOk st2 ->
  step_budget_spec b' st (match alloc b' st t with JOk st1 => super_size_incr st1 | r => r end) st2 st2.
Proof.
  destruct (alloc b st t) as [sa| |] eqn:Ea; try discriminate.
  intros Es. pose proof (super_size_incr_same _ _ Es); subst st2.
  destruct (alloc_budget b b' st t sa Ea) as (L & Hok & Hno). unfold step_budget_spec.
  split; [lia|split].
  - intros Hb. now rewrite (Hok Hb).
  - intros Hb. now rewrite (Hno Hb).
Qed.

Lemma jsmn_run_len_mono b js : forall pos m st st',
  jsmn_run b js pos m st = JOk st' -> (length (toks_rev st) <= length (toks_rev st'))%nat.
Proof.
  induction js as [|c r IH]; intros pos m st st'; cbn [jsmn_run].
  - destruct m; try discriminate.
    + destruct (any_open (toks_rev st)); [discriminate|]. now inversion 1.
    + unfold prim_found.
      destruct (match alloc b st _ with JOk st1 => super_size_incr st1 | r => r end) as [s1| |] eqn:E; try discriminate.
      destruct (alloc_incr_budget b b st _ s1 E) as (L & _). destruct (any_open (toks_rev s1)); [discriminate|].
      inversion 1; subst. lia.
  - destruct m.
    + destruct (main_char b c pos st) as [[m' s1]| |] eqn:E; try discriminate.
      destruct (main_char_budget b b c pos st m' s1 E) as (L & _). intros H. apply IH in H. lia.
    + destruct (c =? c_quote)%N.
      * destruct (alloc b st _) as [sa| |] eqn:Ea; try discriminate.
        destruct (super_size_incr sa) as [sb| |] eqn:Es; try discriminate.
        pose proof (super_size_incr_same _ _ Es); subst sb.
        destruct (alloc_budget b b st _ sa Ea) as (L & _). intros H. apply IH in H. lia.
      * destruct (c =? c_bslash)%N; apply IH.
    + destruct (str_escape_ok c); [apply IH|discriminate].
    + destruct (prim_delim c).
      * unfold prim_found.
        destruct (match alloc b st _ with JOk st1 => super_size_incr st1 | r => r end) as [s1| |] eqn:E; try discriminate.
        destruct (alloc_incr_budget b b st _ s1 E) as (L & _).
        destruct (main_char b c pos s1) as [[m' s2]| |] eqn:E2; try discriminate.
        destruct (main_char_budget b b c pos s1 m' s2 E2) as (L2 & _). intros H. apply IH in H. lia.
      * destruct (prim_invalid c); [discriminate|apply IH].
Qed.

Lemma jsmn_run_budget b b' js : forall pos m st st',
  jsmn_run b js pos m st = JOk st' ->
  ((length (toks_rev st') <= b')%nat -> jsmn_run b' js pos m st = JOk st') /\
  ((length (toks_rev st) <= b' < length (toks_rev st'))%nat -> jsmn_run b' js pos m st = JErr JNOMEM).
Proof.
  induction js as [|c r IH]; intros pos m st st'; cbn [jsmn_run].
  - destruct m; try discriminate.
    + destruct (any_open (toks_rev st)); [discriminate|]. inversion 1; subst. split; [reflexivity|lia].
    + unfold prim_found.
      destruct (match alloc b st _ with JOk st1 => super_size_incr st1 | r => r end) as [s1| |] eqn:E; try discriminate.
      destruct (alloc_incr_budget b b' st _ s1 E) as (L & Hok & Hno).
      destruct (any_open (toks_rev s1)) eqn:O; [discriminate|]. inversion 1; subst. split; intros Hb.
      * rewrite (Hok Hb). now rewrite O.
      * now rewrite (Hno Hb).
  - destruct m.
    + destruct (main_char b c pos st) as [[m' s1]| |] eqn:E; try discriminate.
      destruct (main_char_budget b b' c pos st m' s1 E) as (L & Hok & Hno).
      intros H. pose proof (jsmn_run_len_mono _ _ _ _ _ _ H) as Lm. destruct (IH _ _ _ _ H) as (I1 & I2). split; intros Hb.
      * rewrite Hok by lia. now apply I1.
      * destruct (Nat.leb_spec (length (toks_rev s1)) b').
        -- rewrite Hok by lia. apply I2. lia.
        -- now rewrite Hno by lia.
    + destruct (c =? c_quote)%N.
      * destruct (alloc b st _) as [sa| |] eqn:Ea; try discriminate.
        destruct (super_size_incr sa) as [sb| |] eqn:Es; try discriminate.
        pose proof (super_size_incr_same _ _ Es); subst sb.
        destruct (alloc_budget b b' st _ sa Ea) as (L & Hok & Hno).
        intros H. pose proof (jsmn_run_len_mono _ _ _ _ _ _ H) as Lm. destruct (IH _ _ _ _ H) as (I1 & I2). split; intros Hb.
        -- rewrite Hok by lia. rewrite Es. now apply I1.
        -- destruct (Nat.leb_spec (length (toks_rev sa)) b').
           ++ rewrite Hok by lia. rewrite Es. apply I2. lia.
           ++ now rewrite Hno by lia.
      * destruct (c =? c_bslash)%N; apply IH.
    + destruct (str_escape_ok c); [apply IH|discriminate].
    + destruct (prim_delim c).
      * unfold prim_found.
        destruct (match alloc b st _ with JOk st1 => super_size_incr st1 | r => r end) as [s1| |] eqn:E; try discriminate.
        destruct (alloc_incr_budget b b' st _ s1 E) as (L & Hok & Hno).
        destruct (main_char b c pos s1) as [[m' s2]| |] eqn:E2; try discriminate.
        destruct (main_char_budget b b' c pos s1 m' s2 E2) as (L2 & Hok2 & Hno2).
        intros H. pose proof (jsmn_run_len_mono _ _ _ _ _ _ H) as Lm. destruct (IH _ _ _ _ H) as (I1 & I2). split; intros Hb.
        -- rewrite Hok by lia. rewrite Hok2 by lia. now apply I1.
        -- destruct (Nat.leb_spec (length (toks_rev s1)) b').
           ++ rewrite Hok by lia. destruct (Nat.leb_spec (length (toks_rev s2)) b').
              ** rewrite Hok2 by lia. apply I2. lia.
              ** now rewrite Hno2 by lia.
           ++ now rewrite Hno by lia.
      * destruct (prim_invalid c); [discriminate|apply IH].
Qed.

Lemma jsmn_parse_budget b b' s toks :
  jsmn_parse b s = JOk toks ->
  ((length toks <= b')%nat -> jsmn_parse b' s = JOk toks) /\
  ((b' < length toks)%nat -> jsmn_parse b' s = JErr JNOMEM).
Proof.
  unfold jsmn_parse.
  destruct (jsmn_run b (cstr s) 0 MMain pstate0) as [st| |] eqn:E; try discriminate.
  intros H; inversion H; subst; clear H. rewrite rev_length.
  destruct (jsmn_run_budget b b' _ _ _ _ _ E) as (I1 & I2). split; intros Hb.
  - now rewrite I1.
  - rewrite I2; [reflexivity|cbn; lia].
Qed.
