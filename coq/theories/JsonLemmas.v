(* JsonLemmas.v -- proofs about Json.v / Jsmn.v: escape tables, strings written by jsonEscape
   tokenise, the tie of the hand-written tables to the regenerated ones, witnesses. *)
From V Require Import Base Jsmn Json GenJsonEsc GenJsmnEsc.
Local Open Scope N_scope.

(* ---------------------------------------------------------------------------------------- *)
(* the regenerated tables are the modelled ones *)

Ltac split_byte c :=
  repeat match goal with
         | |- context [N.eqb c ?k] => destruct (N.eqb_spec c k); [subst c; vm_compute; reflexivity|]
         end.

Lemma gen_escape_is_pinned_or_fixed :
  (forall c, escape_byte gen_escape_table c = escape_byte escape_table_pinned c) \/
  (forall c, escape_byte gen_escape_table c = escape_byte escape_table_fixed c).
Proof.
  first [ left; intro c; unfold escape_byte, gen_escape_table, escape_table_pinned; cbn [esc_lookup];
          split_byte c; reflexivity
        | right; intro c; unfold escape_byte, gen_escape_table, escape_table_fixed; cbn [esc_lookup];
          split_byte c; reflexivity ].
Qed.

Lemma gen_unescape_is_modelled :
  gen_unescape_flag_char = 92 /\ forall c, unesc_lookup gen_unescape_table c = unesc_lookup unescape_table c.
Proof.
  split; [reflexivity|].
  intro c; unfold gen_unescape_table, unescape_table; cbn [unesc_lookup]; split_byte c; reflexivity.
Qed.

Lemma json_escape_with_ext t1 t2 :
  (forall c, escape_byte t1 c = escape_byte t2 c) -> forall s, json_escape_with t1 s = json_escape_with t2 s.
Proof. intros H s; induction s as [|c r IH]; cbn; [reflexivity|]. now rewrite H, IH. Qed.

Lemma json_unescape_with_ext f t1 t2 :
  (forall c, unesc_lookup t1 c = unesc_lookup t2 c) ->
  forall s e, json_unescape_with f t1 e s = json_unescape_with f t2 e s.
Proof.
  intros H s; induction s as [|c r IH]; intros e; cbn; [reflexivity|].
  destruct e; [now rewrite H, IH|]. destruct (c =? f); now rewrite IH.
Qed.

Lemma source_escape_tables_modelled_lemma :
  ((forall s, json_escape_gen s = json_escape js_pinned s) \/
   (forall s, json_escape_gen s = json_escape js_fixed s)) /\
  (forall s, json_unescape_gen s = json_unescape s).
Proof.
  split.
  - destruct gen_escape_is_pinned_or_fixed as [H|H]; [left|right]; intro s;
      unfold json_escape_gen, json_escape; now apply json_escape_with_ext.
  - intro s. unfold json_unescape_gen, json_unescape.
    destruct gen_unescape_is_modelled as [-> H]. now apply json_unescape_with_ext.
Qed.

(* jsmn is compiled and written as modelled *)
Lemma jsmn_mode_modelled_lemma :
  gen_jsmn_strict = false /\ gen_jsmn_parent_links = false /\
  (forall c, existsb (N.eqb c) gen_jsmn_allowed_escapes = str_escape_ok c) /\
  (forall c, existsb (N.eqb c) gen_jsmn_prim_delims = prim_delim c) /\
  (forall c, existsb (N.eqb c) gen_jsmn_skip = jsmn_skip c) /\
  (forall c, ((c <? gen_jsmn_prim_lo) || (gen_jsmn_prim_hi <=? c)) = prim_invalid c).
Proof.
  repeat split; try reflexivity;
    (let c := fresh "c" in
     intro c;
     unfold gen_jsmn_allowed_escapes, gen_jsmn_prim_delims, gen_jsmn_skip, str_escape_ok, prim_delim, jsmn_skip,
       c_colon, c_comma, c_rbrack, c_rbrace; cbn [existsb];
     split_byte c; reflexivity).
Qed.

(* ---------------------------------------------------------------------------------------- *)
(* unescape (escape s) = s *)

Lemma unescape_escape_byte c r :
  json_unescape_with 92 unescape_table false (escape_byte escape_table_fixed c ++ r) =
  c :: json_unescape_with 92 unescape_table false r.
Proof.
  unfold escape_byte, escape_table_fixed; cbn [esc_lookup].
  repeat match goal with
         | |- context [N.eqb c ?k] => destruct (N.eqb_spec c k); [subst c; reflexivity|]
         end.
  cbn [app json_unescape_with].
  destruct (N.eqb_spec c 92); [contradiction|reflexivity].
Qed.

Lemma unescape_escape_lemma s : json_unescape (json_escape js_fixed s) = s.
Proof.
  unfold json_unescape, json_escape; cbn [escape_table js_fixed jv_escape_vtab].
  induction s as [|c r IH]; [reflexivity|].
  cbn [json_escape_with]. now rewrite unescape_escape_byte, IH.
Qed.

Lemma unescape_escape_pinned_refuted_lemma : exists s, json_unescape (json_escape js_pinned s) <> s.
Proof. exists [11]. vm_compute. discriminate. Qed.

(* ---------------------------------------------------------------------------------------- *)
(* a string written by jsonEscape between quotes is one JSMN_STRING token spanning exactly it *)

Definition str_token (start pos : nat) : token :=
  {| ttype := T_STRING; tstart := Z.of_nat start + 1; tend := Z.of_nat pos |}.

(* what jsmn_parse_string does at the closing quote at [pos], then back in the main loop on [rest] *)
Definition after_string (budget : nat) (rest : bytes) (pos start : nat) (st : pstate) : jres pstate :=
  match alloc budget st (str_token start pos) with
  | JOk st1 =>
    match super_size_incr st1 with
    | JOk st2 => jsmn_run budget rest (S pos) MMain st2
    | r' => r'
    end
  | r' => r'
  end.

Lemma run_str_quote budget rest pos start st :
  jsmn_run budget (c_quote :: rest) pos (MStr start) st = after_string budget rest pos start st.
Proof. reflexivity. Qed.

Lemma escape_byte_tokenizes c budget tail pos start st :
  jsmn_run budget (escape_byte escape_table_fixed c ++ tail) pos (MStr start) st =
  jsmn_run budget tail (pos + length (escape_byte escape_table_fixed c)) (MStr start) st.
Proof.
  unfold escape_byte, escape_table_fixed; cbn [esc_lookup].
  repeat match goal with
         | |- context [N.eqb c ?k] =>
           destruct (N.eqb_spec c k);
             [subst c; cbn [app length jsmn_run]; cbn; rewrite ?Nat.add_succ_r, ?Nat.add_0_r; reflexivity|]
         end.
  cbn [app length jsmn_run]. unfold c_quote, c_bslash.
  destruct (N.eqb_spec c 34); [contradiction|]. destruct (N.eqb_spec c 92); [contradiction|].
  now rewrite Nat.add_1_r.
Qed.

Lemma escaped_tokenizes_lemma s budget rest pos start st :
  jsmn_run budget (json_escape js_fixed s ++ c_quote :: rest) pos (MStr start) st =
  after_string budget rest (pos + length (json_escape js_fixed s)) start st.
Proof.
  unfold json_escape; cbn [escape_table js_fixed jv_escape_vtab].
  revert pos; induction s as [|c r IH]; intros pos.
  - cbn [json_escape_with app length]. now rewrite Nat.add_0_r, run_str_quote.
  - cbn [json_escape_with]. rewrite <- app_assoc, escape_byte_tokenizes, IH, app_length.
    now rewrite Nat.add_assoc.
Qed.

(* the pinned table writes "\v", which jsmn_parse_string rejects *)
Lemma escaped_tokenizes_pinned_refuted_lemma :
  exists s, jsmn_parse 10 ([c_lbrack; c_quote] ++ json_escape js_pinned s ++ [c_quote; c_rbrack]) = JErr JINVAL.
Proof. exists [11]. vm_compute. reflexivity. Qed.

(* ---------------------------------------------------------------------------------------- *)
(* witnesses against the pinned code *)

Definition w_key_last : bytes := [123; 34; 97; 34; 125].              (* {"a"} *)
Definition w_container_key : bytes := [123; 91; 93; 49; 125].        (* {[]1} *)

Lemma from_json_oob_pinned_refuted_lemma :
  from_json js_pinned w_key_last = Oob 1 /\ from_json js_pinned w_container_key = Oob 2.
Proof. split; vm_compute; reflexivity. Qed.

Lemma from_json_witnesses_fixed :
  from_json js_fixed w_key_last = Ok (D false [] [] [([97], empty_data)]) /\
  from_json js_fixed w_container_key = Err 4.
Proof. split; vm_compute; reflexivity. Qed.

(* a container where a key is expected stays accepted by the repaired parser (the repository's test-url
   parses such a lenient text); the repaired and the pinned parser agree on it *)
Definition w_lenient : bytes :=   (* {'a': 'b': {'c': 'd'}} *)
  [123; 39; 97; 39; 58; 32; 39; 98; 39; 58; 32; 123; 39; 99; 39; 58; 32; 39; 100; 39; 125; 125].
Lemma from_json_lenient_container_key :
  from_json js_fixed w_lenient = from_json js_pinned w_lenient /\
  exists d, from_json js_fixed w_lenient = Ok d /\ d <> empty_data.
Proof. split; [vm_compute; reflexivity|]. eexists. split; [vm_compute; reflexivity|discriminate]. Qed.

(* the empty value -- the only representation of an empty array or map -- is written as null and
   read back as the atom "null" *)
Definition w_empty_nested : data := D false [] [] [([97], empty_data)].
Lemma from_to_json_empty_pinned_refuted_lemma :
  canonical true w_empty_nested = true /\ top_container w_empty_nested = true /\
  from_json js_pinned (data_to_json js_pinned w_empty_nested) <> Ok w_empty_nested.
Proof. repeat split; vm_compute; discriminate. Qed.

(* byte 11 in a string: written as \v, the text is rejected *)
Definition w_vtab : data := D false [] [] [([97], str_data [120; 11; 121])].
Lemma from_to_json_vtab_pinned_refuted_lemma :
  canonical false w_vtab = true /\ top_container w_vtab = true /\
  from_json js_pinned (data_to_json js_pinned w_vtab) = Err 2.
Proof. repeat split; vm_compute; reflexivity. Qed.

(* a string or number that is not inside an array or map: fromJSON only accepts '{' and '[' *)
Lemma from_to_json_scalar_refuted_lemma :
  exists d, canonical false d = true /\ forall v, from_json v (data_to_json v d) <> Ok d.
Proof. exists (str_data [120]). split; [reflexivity|]. intros [[] [] [] [] []]; vm_compute; discriminate. Qed.

(* a NUL byte inside a string is written raw; jsmn reads a C string and stops there *)
Lemma from_to_json_nul_refuted_lemma :
  exists d, canonical false d = true /\ top_container d = true /\
            forall v, from_json v (data_to_json v d) <> Ok d.
Proof.
  exists (D false [] [str_data [120; 0]] []). repeat split.
  intros [[] [] [] [] []]; vm_compute; discriminate.
Qed.

Definition w_event : event :=
  {| ev_name := [102]; ev_raw := []; ev_type := 2; ev_origin := []; ev_origintype := []; ev_sendid := [];
     ev_hide := false; ev_invokeid := []; ev_uuid := []; ev_data := D false [] [] [([97], str_data [98])];
     ev_namelist := []; ev_params := [] |}.
Lemma event_roundtrip_pinned_refuted_lemma :
  exists e, wf_event e = true /\ event_from_data (event_to_data js_pinned e) <> Ok e.
Proof. exists w_event. split; vm_compute; [reflexivity|discriminate]. Qed.
