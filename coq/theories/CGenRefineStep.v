(* CGenRefineStep.v -- C04, data refinement, layer 4: one call of uscxml_step().
   [brel s l x]: the byte-level state s (arrays, flags, the environment of the harness' callbacks) stands for the set-level
   state (l, x): ctx->config and ctx->history hold l_cfg / l_hist, ctx->flags the four flags, the callbacks' environment
   the queues and the output x; whatever the six local arrays of uscxml_step() hold.
   b_step_refines_cgen_step: from related states, with enough fuel for the DEQUEUE_EVENT loop, the byte-level step
   (CGen.h_step = b_step with the harness' callbacks over the emitted tables) ends normally -- no array access out of bounds,
   no diverging counter -- with the result code of the set-level step (CGen.cgen_step) in a related state.
   Proofs only. *)
From V Require Import Base NameMatch Chart Exec Large Fast GenCGen CGen CGenLemmas SetLemmas SerializeCodecLemmas TraceLemmas
                      CGenEquivContent CGenRefineBits CGenRefineTables CGenRefineSelect CGenRefineEntry CGenRefineMicro CGenRefineInv.
From Coq Require Import Lia Sorted ZifyBool.
Local Open Scope nat_scope.

Definition flags_l (l : lstate) : N := flags_of (l_spont l) (l_init l) (l_tlf l) (l_fin l).

Lemma flag_fin a b t f : flag_on (flags_of a b t f) CG_CTX_FINISHED = f.
Proof. destruct a, b, t, f; reflexivity. Qed.
Lemma flag_tlf a b t f : flag_on (flags_of a b t f) CG_CTX_TOP_LEVEL_FINAL = t.
Proof. destruct a, b, t, f; reflexivity. Qed.
Lemma flag_spont a b t f : flag_on (flags_of a b t f) CG_CTX_SPONTANEOUS = a.
Proof. destruct a, b, t, f; reflexivity. Qed.
Lemma flags_zero a b t f : (flags_of a b t f =? CG_CTX_PRISTINE)%N = negb (a || b || t || f).
Proof. destruct a, b, t, f; reflexivity. Qed.
Lemma flags_set_spont a b t f : N.lor (flags_of a b t f) CG_CTX_SPONTANEOUS = flags_of true b t f.
Proof. destruct a, b, t, f; reflexivity. Qed.
Lemma flags_clr_spont a b t f : N.ldiff (flags_of a b t f) CG_CTX_SPONTANEOUS = flags_of false b t f.
Proof. destruct a, b, t, f; reflexivity. Qed.
Lemma flags_set_fin a b t f : N.lor (flags_of a b t f) CG_CTX_FINISHED = flags_of a b t true.
Proof. destruct a, b, t, f; reflexivity. Qed.
Lemma flags_start : N.lor (flags_of false false false false) (N.lor CG_CTX_SPONTANEOUS CG_CTX_INITIALIZED) = flags_of true true false false.
Proof. reflexivity. Qed.

Section Step.
Variable cv : cg_variant.
Variable c : fchart.
Notation ns := (nstates c).
Notation nt := (ntrans c).
Notation bm := (bmachine_of cv c).
Notation MS := (m_maxs c).
Notation MT := (m_maxt c).
Notation NTB := (NTB cv c).
Notation WS := (8 * MS).
Notation WT := (8 * NTB).

Hypothesis Hns : (N.of_nat ns < 2 ^ 24)%N.
Hypothesis Hnt : (N.of_nat nt < 2 ^ 24)%N.
Hypothesis Hok : bref_chartb c = true.
Set Default Proof Using "cv Hns Hnt Hok".

Record brel (s : bst benv) (l : lstate) (x : cx) : Prop := {
  br_shape : mem_shape c (b_mem benv s);
  br_cfg : rep WS (get (b_mem benv s) A_CONFIG) (l_cfg l);
  br_hist : rep WS (get (b_mem benv s) A_HISTORY) (l_hist l);
  br_flags : b_flags benv s = flags_l l;
  br_x : be_x (b_env benv s) = x;
  br_inv : linv c l
}.

Notation Bmicro := (b_microstep cv benv (h_on_exit c) (h_on_trans c) (h_on_entry c) (h_done c) bm).

Lemma microstep_ref l x targets exitset transset (initial : bool) (s : bst benv) :
  mem_shape c (b_mem benv s) -> rep WS (get (b_mem benv s) A_CONFIG) (l_cfg l) -> rep WS (get (b_mem benv s) A_HISTORY) (l_hist l) ->
  rep WS (get (b_mem benv s) A_TARGET) targets -> rep WT (get (b_mem benv s) A_TRSET) transset ->
  bounded ns targets -> bounded nt transset -> linv c l ->
  (if initial then l_cfg l = [] /\ exitset = []
   else rep WS (get (b_mem benv s) A_EXIT) exitset /\ (forall i, In i exitset -> In i (l_cfg l))) ->
  b_flags benv s = flags_of true true (l_tlf l) (l_fin l) -> be_x (b_env benv s) = x ->
  okp (Bmicro (negb initial) s)
      (fun r => snd r = CG_ERR_OK /\
                brel (fst r) (fst (cmicrostep cv c l x targets exitset transset initial))
                             (snd (cmicrostep cv c l x targets exitset transset initial))).
Proof.
  intros Hm Rc Rh Rg Rt Bg Bt Hl Hx Fl Ex.
  pose proof (cmicrostep_linv cv c Hns Hnt Hok l x targets exitset transset initial Hl Bg Bt) as Hl1.
  destruct Hl as [Bc Np Bh _ _ _].
  unfold b_microstep. unfold cmicrostep in *.
  set (hist := if initial then l_hist l else cremember cv c (l_cfg l) exitset (l_hist l)) in *.
  (* REMEMBER_HISTORY *)
  assert (Hrem : okp (if negb initial then b_remember bm (b_mem benv s) else Ok (b_mem benv s))
                   (fun m1 => frames (b_mem benv s) m1 [A_HISTORY; A_TMP] /\ rep WS (get m1 A_HISTORY) hist)).
  { unfold hist. destruct initial; cbn [negb okp]; [split; [apply frames_refl | exact Rh]|].
    destruct Hx as [Rx _]. apply (b_remember_ref cv c Hns Hnt Hok); assumption. }
  eapply okp_bind; [exact Hrem|]. clear Hrem. intros m1 [F1 Rh1].
  assert (Rx1 : rep WS (get m1 A_EXIT) exitset \/ l_cfg l = []).
  { destruct initial; [right; tauto | left]. destruct Hx as [Rx _]. eapply rep_frames; [exact F1 | notin | exact Rx]. }
  carrys F1.
  (* ESTABLISH_ENTRY_SET *)
  destruct (centry_set_bounded cv c Hns Hnt Hok (l_cfg l) exitset hist targets transset Bg Bt) as [Be Bt'].
  eapply okp_bind; [apply (b_entry_set_ref cv c Hns Hnt Hok (l_cfg l) exitset hist targets transset m1); assumption|].
  destruct (centry_set cv c (l_cfg l) exitset hist targets transset) as [es ts]. cbn [fst snd] in *.
  intros m2 (F2 & Re2 & Rt2). carrys F2.
  (* EXIT_STATES *)
  pose proof (cexit_sub cv c Hns Hnt Hok (rev exitset) (l_cfg l) x) as Sub.
  assert (Hex : okp (forM (rev (seq 0 (bm_ns bm))) (b_exit_one benv (h_on_exit c) bm) (with_mem benv s m2))
                   (fun s1 => frames m2 (b_mem benv s1) [A_CONFIG] /\
                              rep WS (get (b_mem benv s1) A_CONFIG) (fst (fold_left (cexit_one c) (rev exitset) (l_cfg l, x))) /\
                              be_x (b_env benv s1) = snd (fold_left (cexit_one c) (rev exitset) (l_cfg l, x)) /\
                              be_ev (b_env benv s1) = be_ev (b_env benv s) /\ b_flags benv s1 = b_flags benv s)).
  { cbn [bmachine_of bm_ns]. destruct initial.
    - destruct Hx as [Ec ->]. cbn [rev fold_left fst snd].
      eapply okp_weaken; [apply (exit_loop_empty cv c Hns Hnt Hok (with_mem benv s m2)); cbn [with_mem b_mem]; [assumption|]|].
      + rewrite <- Ec. assumption.
      + intros s1 ->. cbn [with_mem b_mem b_env b_flags]. split; [apply frames_refl|]. repeat split; try assumption; reflexivity.
    - destruct Hx as [Rx Sx].
      assert (Rx2 : rep WS (get m2 A_EXIT) exitset).
      { eapply rep_frames; [exact F2 | notin|]. eapply rep_frames; [exact F1 | notin | exact Rx]. }
      eapply okp_weaken; [apply (exit_loop_ref cv c Hns Hnt Hok (l_cfg l) exitset x (with_mem benv s m2)); cbn [with_mem b_mem b_env]; try assumption;
                          eapply bounded_sub; [exact Sx | exact Bc] | intros s1 Hs1; exact Hs1]. }
  eapply okp_bind; [exact Hex|]. clear Hex.
  destruct (fold_left (cexit_one c) (rev exitset) (l_cfg l, x)) as [cfg1 x1]. cbn [fst snd] in *.
  intros s1 (F3 & Rc3 & X3 & V3 & G3). carrys F3.
  assert (Bc1 : bounded ns cfg1) by (eapply bounded_sub; [exact Sub | exact Bc]).
  (* TAKE_TRANSITIONS *)
  eapply okp_bind; [apply (take_loop_ref cv c Hns Hnt Hok cfg1 ts x1 s1); assumption|].
  intros s2 (M4 & G4 & V4 & X4).
  (* ENTER_STATES *)
  eapply okp_bind.
  { apply (enter_loop_ref cv c Hns Hnt Hok es ts true true (l_fin l) (be_ev (b_env benv s)) (b_mem benv s1) s2
             {| ca_cfg := cfg1; ca_tlf := l_tlf l; ca_x := fold_left (ctake_one c cfg1) ts x1 |}); try assumption.
    constructor; cbn [ca_cfg ca_tlf ca_x]; rewrite ?M4; try assumption; try congruence. apply frames_refl. }
  intros s3 [F5 Rc5 Bc5 X5 V5 G5]. cbn [okp fst snd]. split; [reflexivity|].
  set (a := fold_left (center_one cv c ts) es {| ca_cfg := cfg1; ca_tlf := l_tlf l; ca_x := fold_left (ctake_one c cfg1) ts x1 |}) in *.
  constructor; cbn [l_cfg l_hist l_spont l_init l_tlf l_fin]; try assumption.
  - eapply frames_shape; [exact F5 | assumption].
  - eapply rep_frames; [exact F5 | notin | assumption].
Qed.

(* ------------------------------------------------------------------ "manage invocations" touches ctx->invocations only *)
Lemma b_invocations_ref m : mem_shape c m -> okp (b_invocations bm m) (fun m' => frames m m' [A_INVOC]).
Proof.
  intros Hm. unfold b_invocations. cbn [bmachine_of bm_ns]. pose proof (ns_le_WS cv c Hns Hnt Hok) as HW.
  apply (okp_forM bmem (fun m' => frames m m' [A_INVOC])); [apply frames_refl|].
  intros i m1 Hi F1. apply in_seq in Hi. carrys F1. lens_of m1.
  assert (Di : i / 8 < MS) by (apply div8_lt_iff; lia).
  rewrite (bit_has_spec 601) by lia. rewrite bind_ok.
  eapply okp_bind with (Q := fun _ => True).
  { destruct (tbit (get m1 A_CONFIG) i); [exact I|]. rewrite (bit_has_spec 602) by lia. exact I. }
  intros v _.
  eapply okp_bind with (Q := fun m2 => frames m m2 [A_INVOC]).
  { destruct v; [|exact F1]. rewrite (st_at_eq cv c Hns Hnt Hok 603 i) by lia. rewrite bind_ok.
    eapply okp_weaken; [apply (bit_clear_spec 604 m1 A_INVOC i); lia|]. intros m2 [F2 _].
    eapply frames_step; [exact F1 | exact F2 | isin]. }
  intros m2 F2. carrys F2. lens_of m2.
  rewrite (bit_has_spec 605) by lia. rewrite bind_ok.
  eapply okp_bind with (Q := fun _ => True).
  { destruct (tbit (get m2 A_CONFIG) i); [|exact I]. rewrite (bit_has_spec 606) by lia. exact I. }
  intros v2 _. destruct v2; [exact F2|].
  rewrite (st_at_eq cv c Hns Hnt Hok 607 i) by lia. rewrite bind_ok.
  eapply okp_weaken; [apply (bit_set_at_spec 608 m2 A_INVOC i); lia|]. intros m3 (F3 & _).
  eapply frames_step; [exact F2 | exact F3 | isin].
Qed.

(* ------------------------------------------------------------------ DEQUEUE_EVENT / SELECT_TRANSITIONS *)
Notation Bdeq := (b_dequeue cv benv h_deq_int h_deq_ext (h_matched c) (h_enabled c) (h_on_exit c) (h_on_trans c) (h_on_entry c) (h_done c) bm).

(* what the byte-level loop implements, entered with the locals trans_set and target_set cleared *)
Definition cdeq_spec (l : lstate) (x : cx) : lstate * cx * N :=
  if l_spont l then
    match cselect_all c (l_cfg l) None with
    | [] => cdequeue cv c (with_spont l false) x
    | sel => cfire cv c l x sel
    end
  else cdequeue cv c l x.

Record dq_rel (s : bst benv) (l : lstate) (x : cx) : Prop := {
  dq_brel : brel s l x;
  dq_trset : rep WT (get (b_mem benv s) A_TRSET) [];
  dq_target : rep WS (get (b_mem benv s) A_TARGET) [];
  dq_init : l_init l = true
}.

Definition dq_mu (l : lstate) (x : cx) : nat := (if l_spont l then 1 else 0) + length (cx_iq x) + length (cx_eq x).

Lemma cfire_unfold l x sel :
  cfire cv c l x sel =
  (fst (cmicrostep cv c l x (ctargets c sel) (cexitset c (l_cfg l) sel) sel false),
   snd (cmicrostep cv c l x (ctargets c sel) (cexitset c (l_cfg l) sel) sel false), C_ERR_OK).
Proof. unfold cfire. destruct (cmicrostep cv c l x (ctargets c sel) (cexitset c (l_cfg l) sel) sel false). reflexivity. Qed.

(* one selection with the event [evo] in hand, then the microstep or the rest of the loop *)
Lemma try_ref (f : nat) evo (s : bst benv) l x (K : lstate * cx * N) :
  dq_rel s l x -> (forall nm, evo = Some nm -> be_ev (b_env benv s) = nm) ->
  (cselect_all c (l_cfg l) evo <> [] -> K = cfire cv c l x (cselect_all c (l_cfg l) evo)) ->
  (cselect_all c (l_cfg l) evo = [] ->
     forall s', dq_rel s' (with_spont l false) x ->
       okp (Bdeq f s') (fun r => brel (fst r) (fst (fst K)) (snd (fst K)) /\ snd r = snd K)) ->
  okp (do mf <- b_select benv (h_matched c) (h_enabled c) bm (match evo with Some _ => true | None => false end) (b_env benv s) (b_mem benv s);
       if snd mf then Bmicro true (with_flags benv (with_mem benv s (fst mf)) (N.lor (b_flags benv s) CG_CTX_SPONTANEOUS))
       else Bdeq f (with_flags benv (with_mem benv s (fst mf)) (N.ldiff (b_flags benv s) CG_CTX_SPONTANEOUS)))
      (fun r => brel (fst r) (fst (fst K)) (snd (fst K)) /\ snd r = snd K).
Proof.
  intros [[Hm Rc Rh Fl Ex Hl] Rt Rg Hi] Hev Kfire Krec.
  eapply okp_bind; [apply (b_select_ref cv c Hns Hnt Hok (l_cfg l) (l_hist l) evo (b_env benv s) (b_mem benv s)); try assumption;
                    [apply (li_bcfg c l Hl) | apply (li_np c l Hl)]|].
  intros [m1 found] [[Hm1 Rc1 Rt1 Rg1 Rx1 Hf] Rh1]. cbn [fst snd] in *.
  destruct (cselect_all c (l_cfg l) evo) as [|s0 sel0] eqn:Esel; cbn [nonnil] in Hf; subst found.
  - (* nothing enabled *)
    apply Krec; [reflexivity|]. constructor; cbn [with_flags with_mem b_mem b_flags b_env]; try assumption.
    + constructor; cbn [with_flags with_mem b_mem b_flags b_env with_spont l_cfg l_hist]; try assumption.
      * rewrite Fl. unfold flags_l. cbn [with_spont l_spont l_init l_tlf l_fin]. apply flags_clr_spont.
      * apply (with_spont_linv cv c Hns Hnt Hok); assumption.
  - rewrite (Kfire ltac:(discriminate)), cfire_unfold. cbn [fst snd]. rewrite <- Esel in *.
    eapply okp_weaken.
    + apply (microstep_ref l x (ctargets c (cselect_all c (l_cfg l) evo)) (cexitset c (l_cfg l) (cselect_all c (l_cfg l) evo))
               (cselect_all c (l_cfg l) evo) false
               (with_flags benv (with_mem benv s m1) (N.lor (b_flags benv s) CG_CTX_SPONTANEOUS)));
        cbn [with_flags with_mem b_mem b_flags b_env]; try assumption.
      * apply (ctargets_bounded cv c Hns Hnt Hok).
      * apply (cselect_all_bounded cv c Hns Hnt Hok).
      * split; [exact Rx1 | apply (cexitset_sub cv c Hns Hnt Hok)].
      * rewrite Fl. unfold flags_l. rewrite Hi. apply flags_set_spont.
    + intros [s2 rc] [Hrc Hb]. cbn [fst snd] in *. split; [exact Hb | exact Hrc].
Qed.

Lemma flags_nospont l : l_spont l = false -> N.ldiff (flags_l l) CG_CTX_SPONTANEOUS = flags_l l.
Proof. intros H. unfold flags_l. rewrite H. apply flags_clr_spont. Qed.

Lemma dequeue_ref : forall fuel (s : bst benv) l x, dq_rel s l x -> dq_mu l x < fuel ->
  okp (Bdeq fuel s) (fun r => brel (fst r) (fst (fst (cdeq_spec l x))) (snd (fst (cdeq_spec l x))) /\ snd r = snd (cdeq_spec l x)).
Proof.
  induction fuel as [|f IH]; intros s l x D Hmu; [lia|].
  pose proof D as [[Hm Rc Rh Fl Ex Hl] Rt Rg Hi].
  cbn [b_dequeue]. rewrite Fl. unfold flags_l at 1. rewrite flag_spont.
  unfold cdeq_spec. destruct (l_spont l) eqn:Sp.
  - (* event-less transitions first *)
    rewrite <- Fl. apply (try_ref f None s l x); [exact D | discriminate | |].
    + intros Hne. destruct (cselect_all c (l_cfg l) None); [contradiction | reflexivity].
    + intros E s' D'. rewrite E.
      eapply okp_weaken; [apply (IH s' (with_spont l false) x D'); unfold dq_mu in *; cbn [with_spont l_spont]; rewrite ?Sp in *; lia|].
      unfold cdeq_spec. cbn [with_spont l_spont]. intros r Hr. exact Hr.
  - destruct x as [iq eq out]. cbn [dq_mu cx_iq cx_eq] in *. unfold h_deq_int at 1. rewrite Ex. cbn [cx_iq cx_eq cx_out].
    destruct iq as [|e iq].
    + (* no internal event: invocations, then an external event *)
      eapply okp_bind; [apply (b_invocations_ref _ Hm)|]. intros m1 F1. cbv beta in F1. carrys F1.
      unfold h_deq_ext at 1. rewrite Ex. cbn [cx_iq cx_eq cx_out].
      destruct eq as [|e eq].
      * cbn [okp fst snd cdequeue cscan cx_iq cx_eq cx_out]. split; [|reflexivity].
        constructor; cbn [with_mem b_mem b_flags b_env with_spont l_cfg l_hist]; try assumption.
        -- rewrite Fl. unfold flags_l. cbn [with_spont l_spont l_init l_tlf l_fin]. now rewrite Sp.
        -- apply (with_spont_linv cv c Hns Hnt Hok); assumption.
      * set (x' := {| cx_iq := []; cx_eq := eq; cx_out := CEv e :: out |}).
        set (s' := with_env benv (with_mem benv s m1) {| be_x := x'; be_ev := e |}).
        assert (D' : dq_rel s' l x').
        { constructor; unfold s'; cbn [with_env with_mem b_mem b_flags b_env be_x]; try assumption.
          constructor; cbn [with_env with_mem b_mem b_flags b_env be_x]; try assumption. reflexivity. }
        apply (try_ref f (Some e) s' l x'); [exact D' | intros nm [= <-]; reflexivity | |].
        -- intros Hne. unfold cdequeue. cbn [cx_iq cx_eq cx_out cscan].
           destruct (cselect_all c (l_cfg l) (Some e)); [contradiction | reflexivity].
        -- intros E s'' D''.
           assert (Eq : cdequeue cv c l {| cx_iq := []; cx_eq := e :: eq; cx_out := out |} = cdequeue cv c l x').
           { unfold cdequeue. cbn [cx_iq cx_eq cx_out cscan]. rewrite E. reflexivity. }
           rewrite Eq.
           assert (D3 : dq_rel s'' l x').
           { destruct D'' as [[A1 A2 A3 A4 A5 A6] A7 A8 A9]. constructor; try assumption. constructor; try assumption.
             rewrite A4. unfold flags_l. cbn [with_spont l_spont l_init l_tlf l_fin]. now rewrite Sp. }
           eapply okp_weaken; [apply (IH s'' l x' D3); unfold dq_mu, x' in *; cbn [cx_iq cx_eq length] in *; rewrite ?Sp in *; lia|].
           unfold cdeq_spec. rewrite Sp. intros r Hr. exact Hr.
    + set (x' := {| cx_iq := iq; cx_eq := eq; cx_out := CEv e :: out |}).
      set (s' := with_env benv s {| be_x := x'; be_ev := e |}).
      assert (D' : dq_rel s' l x').
      { constructor; unfold s'; cbn [with_env b_mem b_flags b_env be_x]; try assumption.
        constructor; cbn [with_env b_mem b_flags b_env be_x]; try assumption. reflexivity. }
      apply (try_ref f (Some e) s' l x'); [exact D' | intros nm [= <-]; reflexivity | |].
      * intros Hne. unfold cdequeue. cbn [cx_iq cx_eq cx_out cscan].
        destruct (cselect_all c (l_cfg l) (Some e)); [contradiction | reflexivity].
      * intros E s'' D''.
        assert (Eq : cdequeue cv c l {| cx_iq := e :: iq; cx_eq := eq; cx_out := out |} = cdequeue cv c l x').
        { unfold cdequeue. cbn [cx_iq cx_eq cx_out cscan]. rewrite E. reflexivity. }
        rewrite Eq.
        assert (D3 : dq_rel s'' l x').
        { destruct D'' as [[A1 A2 A3 A4 A5 A6] A7 A8 A9]. constructor; try assumption. constructor; try assumption.
          rewrite A4. unfold flags_l. cbn [with_spont l_spont l_init l_tlf l_fin]. now rewrite Sp. }
        eapply okp_weaken; [apply (IH s'' l x' D3); unfold dq_mu, x' in *; cbn [cx_iq cx_eq length] in *; rewrite ?Sp in *; lia|].
        unfold cdeq_spec. rewrite Sp. intros r Hr. exact Hr.
Qed.

(* ------------------------------------------------------------------ uscxml_step() *)
Lemma pristine_flags l : l_stable l = false -> is_pristine l = negb (l_spont l || l_init l || l_tlf l || l_fin l).
Proof. intros H. unfold is_pristine. rewrite H, orb_false_r. reflexivity. Qed.

Theorem step_ref fuel (s : bst benv) l x :
  brel s l x -> 1 + length (cx_iq x) + length (cx_eq x) < fuel ->
  okp (h_step cv c fuel s)
      (fun r => brel (fst r) (fst (fst (cgen_step cv c l x))) (snd (fst (cgen_step cv c l x))) /\
                snd r = snd (cgen_step cv c l x)).
Proof.
  intros B Hf. pose proof B as [Hm Rc Rh Fl Ex Hl].
  pose proof (cgen_step_linv cv c Hns Hnt Hok l x Hl) as Hl'.
  pose proof (ns_le_WS cv c Hns Hnt Hok) as HW. pose proof (ntb_le cv c Hns Hnt Hok) as Hntb.
  unfold h_step, h_step_m, b_step. unfold cgen_step in *. rewrite Fl. unfold flags_l at 1 2. rewrite flag_fin, flag_tlf.
  destruct (l_fin l) eqn:Ef.
  { cbn [okp fst snd]. split; [exact B | reflexivity]. }
  destruct (l_tlf l) eqn:Et.
  { (* the machine reached a top-level final state in the previous step: exit everything *)
    rewrite (trunc_ns cv c Hns Hnt Hok). cbn [fst snd] in *.
    rewrite (fold_rev_sorted (fun x i => cexec_blocks (inst_of c (l_cfg l)) (fs_onexit (st c i)) x) (l_cfg l) ns
               (rep_ssorted _ _ _ Rc) (li_bcfg c l Hl)).
    eapply okp_bind.
    { apply (okp_forM_fold (bst benv) cx
               (fun s' x' => frames (b_mem benv s) (b_mem benv s') [A_INVOC] /\ b_flags benv s' = b_flags benv s /\ be_x (b_env benv s') = x')).
      - split; [apply frames_refl|]. auto.
      - intros i s1 x1 Hi (F1 & G1 & X1). apply in_rev, in_seq in Hi. carrys F1. lens_of (b_mem benv s1).
        rewrite (srep_bit_has 701 MS _ (l_cfg l) _ (srep_of_rep WS (get (b_mem benv s1) A_CONFIG) (l_cfg l) ltac:(assumption))) by lia.
        rewrite bind_ok.
        eapply okp_bind with (Q := fun s2 => b_mem benv s2 = b_mem benv s1 /\ b_flags benv s2 = b_flags benv s1 /\
                                              be_x (b_env benv s2) = if mem i (l_cfg l) then cexec_blocks (inst_of c (l_cfg l)) (fs_onexit (st c i)) x1 else x1).
        { destruct (mem i (l_cfg l)); cbn [okp]; [|auto].
          rewrite (st_at_eq cv c Hns Hnt Hok 702 i) by lia. rewrite bind_ok. cbn [okp with_env b_mem b_flags b_env].
          split; [reflexivity|]. split; [reflexivity|]. unfold h_on_exit, h_lift. cbn [be_x]. rewrite X1.
          apply cexec_blocks_ext. apply (inst_bytes_eq cv c Hns Hnt Hok); [assumption | apply (li_bcfg c l Hl)]. }
        intros s2 (M2 & G2 & X2). rewrite M2.
        rewrite (bit_has_spec 703) by (apply div8_lt_iff; lia). rewrite bind_ok.
        destruct (tbit (get (b_mem benv s1) A_INVOC) i); cbn [okp].
        + rewrite (st_at_eq cv c Hns Hnt Hok 704 i) by lia. rewrite bind_ok.
          eapply okp_bind; [apply (bit_clear_spec 705 (b_mem benv s1) A_INVOC i); apply div8_lt_iff; lia|].
          intros m3 [F3 _]. cbn [okp with_mem b_mem b_flags b_env].
          split; [eapply frames_step; [exact F1 | exact F3 | isin]|]. split; [congruence | exact X2].
        + rewrite M2. split; [exact F1|]. split; [congruence | exact X2]. }
    intros s1 (F1 & G1 & X1). carrys F1. cbn [okp fst snd]. split; [|reflexivity].
    constructor; cbn [with_flags b_mem b_flags b_env l_cfg l_hist]; try assumption.
    - rewrite G1, Fl. unfold flags_l. cbn [l_spont l_init l_tlf l_fin]. rewrite Et, Ef. apply flags_set_fin.
    - rewrite X1, Ex. reflexivity. }
  rewrite (counters_ok cv c Hns Hnt Hok). cbn [negb].
  rewrite (nsb_eq cv c Hns Hnt Hok). fold NTB. lens_of (b_mem benv s).
  eapply okp_bind; [apply (rep_bit_clear_all 711 MS (b_mem benv s) A_TARGET); lia|]. intros m1 [F1 Rg1]. carry F1. lens_of m1.
  eapply okp_bind; [apply (rep_bit_clear_all 712 NTB m1 A_TRSET); lia|]. intros m2 [F2 Rt2]. carry F2. lens_of m2.
  unfold flags_l. rewrite flags_zero, <- (pristine_flags l (li_stable c l Hl)).
  destruct (is_pristine l) eqn:Ep.
  - (* the first step *)
    pose proof (li_pristine c l Hl Ep) as Ec.
    assert (Z : l_spont l = false /\ l_init l = false).
    { unfold is_pristine in Ep. destruct (l_spont l), (l_init l); try discriminate. auto. }
    destruct Z as [Z1 Z2].
    rewrite (st_at_eq cv c Hns Hnt Hok 713 0 (ns_pos cv c Hns Hnt Hok)), bind_ok. cbn [bstate_of bs_completion].
    rewrite (ccompl_root cv c Hns Hnt Hok).
    destruct (okb_parts cv c Hns Hnt Hok) as (_ & _ & _ & Sroot & _).
    pose proof (completion_bounded cv c Hns Hnt Hok 0) as Broot.
    eapply okp_bind; [apply (rep_bit_or 714 MS m2 A_TARGET _ _ _ ltac:(eassumption) (row_srep cv c Hns Hnt Hok _ Broot)); [lia | rewrite to_bytes_length; lia]|].
    intros m3 [F3 Rg3]. carry F3.
    assert (Eu : set_union [] (fs_completion (st c 0)) = fs_completion (st c 0)) by (apply (set_of_list_sorted _ Sroot)).
    rewrite Eu in Rg3.
    eapply okp_weaken.
    + apply (microstep_ref l x (fs_completion (st c 0)) [] [] true
               (with_flags benv (with_mem benv s m3) (N.lor (flags_of (l_spont l) (l_init l) (l_tlf l) (l_fin l)) (N.lor CG_CTX_SPONTANEOUS CG_CTX_INITIALIZED))));
        cbn [with_flags with_mem b_mem b_flags b_env]; try assumption.
      * apply bounded_nil.
      * split; [exact Ec | reflexivity].
      * rewrite Z1, Z2, Et, Ef. apply flags_start.
    + intros [s4 rc] [Hrc Hb]. cbn [fst snd] in *.
      destruct (cmicrostep cv c l x (fs_completion (st c 0)) [] [] true) as [l1 x1]. cbn [fst snd] in *. split; [exact Hb | exact Hrc].
  - (* DEQUEUE_EVENT *)
    pose proof (li_init c l Hl Ep) as Hi.
    eapply okp_weaken.
    + apply (dequeue_ref fuel (with_mem benv s m2) l x).
      * constructor; cbn [with_mem b_mem b_flags b_env]; try assumption. constructor; cbn [with_mem b_mem b_flags b_env]; assumption.
      * unfold dq_mu. destruct (l_spont l); lia.
    + intros r Hr. exact Hr.
Qed.

End Step.
Unset Default Proof Using.
