(* VhdlLemmas.v -- proofs about the model of the emitted VHDL next-state logic (Vhdl.v) *)
From V Require Import Base NameMatch NameMatchLemmas Chart Exec Large LargeLemmas Legal Fast Vhdl.
Local Open Scope nat_scope.

(* ================================================================== sets as lists *)

Lemma mem_In x l : mem x l = true <-> In x l.
Proof.
  induction l as [|y r IH]; cbn [mem In]; [split; [discriminate|tauto]|].
  rewrite orb_true_iff, IH, Nat.eqb_eq. intuition.
Qed.

Lemma mem_false_In x l : mem x l = false <-> ~ In x l.
Proof. rewrite <- mem_In. destruct (mem x l); intuition congruence. Qed.

Lemma bool_eq_iff (a b : bool) : (a = true <-> b = true) -> a = b.
Proof. destruct a, b; intuition congruence. Qed.

Lemma mem_insert_sorted x a l : mem a (insert_sorted x l) = (a =? x) || mem a l.
Proof.
  apply bool_eq_iff. rewrite orb_true_iff, !mem_In, In_insert_sorted, Nat.eqb_eq. tauto.
Qed.

Lemma mem_set_union_gen a l acc :
  mem a (fold_left (fun s x => insert_sorted x s) l acc) = mem a acc || mem a l.
Proof.
  revert acc. induction l as [|y r IH]; intros acc; cbn [fold_left mem].
  - now rewrite orb_false_r.
  - rewrite IH, mem_insert_sorted. rewrite (Nat.eqb_sym a y). destruct (y =? a), (mem a acc), (mem a r); reflexivity.
Qed.

Lemma mem_set_union a x y : mem a (set_union x y) = mem a x || mem a y.
Proof. unfold set_union. apply mem_set_union_gen. Qed.

Lemma mem_filter a f l : mem a (filter f l) = mem a l && f a.
Proof.
  apply bool_eq_iff. rewrite andb_true_iff, !mem_In, filter_In. tauto.
Qed.

Lemma mem_seq a s len : mem a (seq s len) = (s <=? a) && (a <? s + len).
Proof.
  apply bool_eq_iff. rewrite mem_In, in_seq, andb_true_iff, Nat.leb_le, Nat.ltb_lt. tauto.
Qed.

Lemma intersects_true a b : intersects a b = true <-> exists x, In x a /\ In x b.
Proof.
  unfold intersects. rewrite existsb_exists. split; intros [x [H1 H2]]; exists x; split; auto; now apply mem_In.
Qed.

Lemma intersects_sym a b : intersects a b = intersects b a.
Proof. apply bool_eq_iff. rewrite !intersects_true. split; intros [x [H1 H2]]; exists x; tauto. Qed.

Lemma existsb_ext_in {A} (f g : A -> bool) l : (forall x, In x l -> f x = g x) -> existsb f l = existsb g l.
Proof.
  induction l as [|y r IH]; intros H; cbn; [reflexivity|].
  rewrite H by now left. f_equal. apply IH. intros; apply H; now right.
Qed.

Lemma forallb_ext_in {A} (f g : A -> bool) l : (forall x, In x l -> f x = g x) -> forallb f l = forallb g l.
Proof.
  induction l as [|y r IH]; intros H; cbn; [reflexivity|].
  rewrite H by now left. f_equal. apply IH. intros; apply H; now right.
Qed.

Lemma existsb_filter {A} (f g : A -> bool) l : existsb f (filter g l) = existsb (fun x => g x && f x) l.
Proof.
  induction l as [|y r IH]; cbn; [reflexivity|].
  destruct (g y); cbn; now rewrite IH.
Qed.

Lemma existsb_false_iff {A} (f : A -> bool) l : existsb f l = false <-> forall x, In x l -> f x = false.
Proof.
  split.
  - intros H x Hin. destruct (f x) eqn:E; [|reflexivity].
    assert (existsb f l = true) by (apply existsb_exists; eauto). congruence.
  - intros H. destruct (existsb f l) eqn:E; [|reflexivity].
    apply existsb_exists in E. destruct E as [x [Hin Hx]]. rewrite H in Hx by assumption. discriminate.
Qed.

(* membership in the union of a family *)
Lemma mem_fold_union {A} (f : A -> list nat) a l acc :
  mem a (fold_left (fun s x => set_union s (f x)) l acc) = mem a acc || existsb (fun x => mem a (f x)) l.
Proof.
  revert acc. induction l as [|y r IH]; intros acc; cbn [fold_left existsb].
  - now rewrite orb_false_r.
  - rewrite IH, mem_set_union. now rewrite orb_assoc.
Qed.

Lemma option_cases {A} (o : option A) : o = None \/ exists x, o = Some x.
Proof. destruct o; eauto. Qed.

(* ================================================================== signals, terms *)

Lemma signal_eqb_eq a b : signal_eqb a b = true <-> a = b.
Proof.
  destruct a, b; cbn; try (rewrite Nat.eqb_eq); split; intros H; try discriminate; try congruence; try reflexivity.
Qed.

Lemma signal_eqb_refl a : signal_eqb a a = true.
Proof. now apply signal_eqb_eq. Qed.

Lemma signal_eqb_neq a b : a <> b -> signal_eqb a b = false.
Proof. intros H. destruct (signal_eqb a b) eqn:E; [|reflexivity]. apply signal_eqb_eq in E. contradiction. Qed.

Lemma upd_same r s x : upd r s x s = x.
Proof. unfold upd. now rewrite signal_eqb_refl. Qed.

Lemma upd_other r s x s' : s <> s' -> upd r s x s' = r s'.
Proof. intros H. unfold upd. now rewrite signal_eqb_neq. Qed.

Fixpoint sigs (e : vexpr) : list signal :=
  match e with
  | VSig s => [s]
  | VConst _ => []
  | VNot a => sigs a
  | VAnd a b | VOr a b => sigs a ++ sigs b
  end.

(* where the environment knows the signals of a term, ternary evaluation is two-valued evaluation *)
Lemma teval_agrees (sol : signal -> bool) e r :
  (forall s, In s (sigs e) -> r s = Some (sol s)) -> teval e r = Some (beval e sol).
Proof.
  induction e as [s|b|a IHa|a IHa b IHb|a IHa b IHb]; intros H; cbn [teval beval sigs] in *.
  - apply H. now left.
  - reflexivity.
  - rewrite IHa by assumption. reflexivity.
  - rewrite IHa, IHb by (intros; apply H; apply in_or_app; tauto).
    destruct (beval a sol), (beval b sol); reflexivity.
  - rewrite IHa, IHb by (intros; apply H; apply in_or_app; tauto).
    destruct (beval a sol), (beval b sol); reflexivity.
Qed.

Lemma sigs_vands l s : In s (sigs (vands l)) <-> exists e, In e l /\ In s (sigs e).
Proof.
  induction l as [|x r IH]; cbn.
  - split; [tauto|]. intros [e [[] _]].
  - rewrite in_app_iff, IH. split.
    + intros [H|[e [H1 H2]]]; [exists x; tauto | exists e; tauto].
    + intros [e [[->|H1] H2]]; [tauto | right; eauto].
Qed.

Lemma sigs_vors l s : In s (sigs (vors l)) <-> exists e, In e l /\ In s (sigs e).
Proof.
  induction l as [|x r IH]; cbn.
  - split; [tauto|]. intros [e [[] _]].
  - rewrite in_app_iff, IH. split.
    + intros [H|[e [H1 H2]]]; [exists x; tauto | exists e; tauto].
    + intros [e [[->|H1] H2]]; [tauto | right; eauto].
Qed.

Lemma beval_vands l sol : beval (vands l) sol = forallb (fun e => beval e sol) l.
Proof. induction l as [|x r IH]; cbn; [reflexivity|]. now rewrite <- IH. Qed.

Lemma beval_vors l sol : beval (vors l) sol = existsb (fun e => beval e sol) l.
Proof. induction l as [|x r IH]; cbn; [reflexivity|]. now rewrite <- IH. Qed.

Lemma existsb_map {A B} (f : B -> bool) (g : A -> B) l : existsb f (map g l) = existsb (fun x => f (g x)) l.
Proof. induction l as [|x r IH]; cbn; [reflexivity|]. now rewrite IH. Qed.

Lemma existsb_flat_map {A B} (f : B -> bool) (g : A -> list B) l :
  existsb f (flat_map g l) = existsb (fun x => existsb f (g x)) l.
Proof. induction l as [|x r IH]; cbn; [reflexivity|]. now rewrite existsb_app, IH. Qed.

Lemma forallb_flat_map {A B} (f : B -> bool) (g : A -> list B) l :
  forallb f (flat_map g l) = forallb (fun x => forallb f (g x)) l.
Proof. induction l as [|x r IH]; cbn; [reflexivity|]. now rewrite forallb_app, IH. Qed.

(* ================================================================== evaluation along an order *)

Section Order.
Variable eqs : list (signal * vexpr).
Variable sol : signal -> bool.

Definition ok (r : env) (P : signal -> Prop) : Prop := forall s, P s -> r s = Some (sol s).

(* if every listed signal's equation evaluates to its intended value as soon as the signals known before
   (P) and the signals listed before it have theirs, then after the pass all of them have *)
Lemma eval_order_ok : forall (L : list signal) (P : signal -> Prop) (r : env),
  ok r P ->
  (forall pre s post, L = pre ++ s :: post ->
     exists e, eq_of eqs s = Some e /\
               forall r', ok r' (fun x => P x \/ In x pre) -> teval e r' = Some (sol s)) ->
  ok (eval_order eqs L r) (fun x => P x \/ In x L).
Proof.
  induction L as [|s L IH]; intros P r Hok Hob; cbn [eval_order fold_left].
  - intros x [Hx|[]]. now apply Hok.
  - destruct (Hob [] s L eq_refl) as [e [He Hev]].
    assert (Hs : teval e r = Some (sol s)).
    { apply Hev. intros x [Hx|[]]. now apply Hok. }
    unfold eval_step at 2. rewrite He, Hs.
    assert (Hok1 : ok (upd r s (Some (sol s))) (fun x => P x \/ x = s)).
    { intros x Hx. destruct (signal_eqb s x) eqn:E.
      - apply signal_eqb_eq in E. subst. apply upd_same.
      - unfold upd. rewrite E. destruct Hx as [Hx|Hx]; [now apply Hok|].
        subst. rewrite signal_eqb_refl in E. discriminate. }
    specialize (IH (fun x => P x \/ x = s) _ Hok1).
    assert (Hob1 : forall pre s' post, L = pre ++ s' :: post ->
              exists e', eq_of eqs s' = Some e' /\
                forall r', ok r' (fun x => (P x \/ x = s) \/ In x pre) -> teval e' r' = Some (sol s')).
    { intros pre s' post HL. destruct (Hob (s :: pre) s' post) as [e' [He' Hev']]; [now rewrite HL|].
      exists e'. split; [assumption|]. intros r' Hr'. apply Hev'.
      intros x [Hx|[Hx|Hx]]; apply Hr'; auto. }
    specialize (IH Hob1). intros x [Hx|[Hx|Hx]]; apply IH; auto.
Qed.

End Order.

(* ================================================================== the well-formed flat chart *)

Section WF.
Variable c : fchart.
Hypothesis Hwf : vh_wfb c = true.

Let n := nstates c.
Notation par i := (fs_parent (st c i)).
Notation anc i := (fs_ancestors (st c i)).
Notation kids i := (fs_children (st c i)).
Notation typ i := (fs_type (st c i)).

Lemma wf_parts :
  1 <= n /\ (forall i, i < n -> vh_state_ok c i = true) /\
  (forall t, t < ntrans c -> vh_trans_ok c t = true) /\
  (forall e, In e (doc_events c) -> simple_name e = true).
Proof.
  unfold vh_wfb in Hwf. rewrite !andb_true_iff in Hwf. destruct Hwf as [[[[H1 _] H2] H3] H4].
  apply Nat.leb_le in H1. rewrite forallb_forall in H2, H3, H4.
  repeat split; auto.
  - intros i Hi. apply H2. apply in_seq. lia.
  - intros t Ht. apply H3. apply in_seq. lia.
Qed.

Lemma n_pos : 1 <= n. Proof. apply wf_parts. Qed.

Lemma root_not_parallel : fs_type (st c 0) <> FParallel.
Proof.
  unfold vh_wfb in Hwf. rewrite !andb_true_iff in Hwf. destruct Hwf as [[[[_ H] _] _] _].
  intros E. rewrite E in H. discriminate.
Qed.

Lemma same_set_mem a b x : same_set a b = true -> mem x a = mem x b.
Proof.
  unfold same_set. rewrite andb_true_iff, !forallb_forall. intros [H1 H2].
  apply bool_eq_iff. rewrite !mem_In. split; intros H; apply mem_In; auto.
Qed.

Lemma state_parts i : i < n ->
  match par i with
  | None => i = 0 /\ anc i = []
  | Some p => p < i /\ mem i (kids p) = true /\ (forall a, mem a (anc i) = (a =? p) || mem a (anc p))
  end /\
  (forall j, In j (kids i) -> j < n /\ par j = Some i) /\
  i + fs_size (st c i) <= n /\ 1 <= fs_size (st c i) /\
  (forall j, j < n -> mem i (anc j) = (i <? j) && (j <? i + fs_size (st c i))) /\
  match typ i with
  | FAtomic | FFinal => kids i = []
  | FCompound => kids i <> [] /\ exists j, fs_completion (st c i) = [j] /\ mem j (kids i) = true
  | FParallel => forall x, mem x (fs_completion (st c i)) = mem x (kids i)
  | _ => False
  end.
Proof.
  intros Hi. destruct wf_parts as [_ [H _]]. specialize (H i Hi). unfold vh_state_ok in H.
  rewrite !andb_true_iff in H. destruct H as [[[[[HA HB] HC] HD] HE] HF].
  split; [|split; [|split; [|split; [|split]]]].
  - destruct (par i) as [p|].
    + rewrite !andb_true_iff in HA. destruct HA as [[H1 H2] H3]. apply Nat.ltb_lt in H1.
      split; [assumption|]. split; [assumption|]. intros a. rewrite (same_set_mem _ _ a H3). cbn [mem].
      now rewrite Nat.eqb_sym.
    + rewrite andb_true_iff in HA. destruct HA as [H1 H2]. apply Nat.eqb_eq in H1.
      split; [assumption|]. destruct (anc i); [reflexivity|discriminate].
  - intros j Hj. rewrite forallb_forall in HB. specialize (HB j Hj). rewrite andb_true_iff in HB.
    destruct HB as [H1 H2]. apply Nat.ltb_lt in H1. split; [assumption|].
    destruct (par j) as [q|]; [|discriminate]. apply Nat.eqb_eq in H2. now subst.
  - now apply Nat.leb_le in HC.
  - now apply Nat.leb_le in HD.
  - intros j Hj. rewrite forallb_forall in HE. specialize (HE j). apply eqb_prop. apply HE. apply in_seq. lia.
  - destruct (typ i); try discriminate.
    + destruct (kids i); [reflexivity|discriminate].
    + rewrite andb_true_iff in HF. destruct HF as [H1 H2]. split.
      * destruct (kids i); [discriminate|congruence].
      * destruct (fs_completion (st c i)) as [|j [|? ?]]; try discriminate. exists j. auto.
    + intros x. now apply same_set_mem.
    + destruct (kids i); [reflexivity|discriminate].
Qed.

Lemma par_lt i p : i < n -> par i = Some p -> p < i.
Proof. intros Hi Hp. destruct (state_parts i Hi) as [H _]. rewrite Hp in H. tauto. Qed.

Lemma par_none i : i < n -> par i = None -> i = 0.
Proof. intros Hi Hp. destruct (state_parts i Hi) as [H _]. rewrite Hp in H. tauto. Qed.

Lemma par_root : par 0 = None.
Proof.
  destruct (par 0) as [p|] eqn:E; [|reflexivity].
  apply par_lt in E; [lia | apply n_pos].
Qed.

Lemma par_some i : 1 <= i -> i < n -> exists p, par i = Some p /\ p < i.
Proof.
  intros H1 Hi. destruct (par i) as [p|] eqn:E.
  - exists p. split; [reflexivity|]. now apply (par_lt i).
  - apply par_none in E; [lia|assumption].
Qed.

Lemma anc_step i p : i < n -> par i = Some p -> forall a, mem a (anc i) = (a =? p) || mem a (anc p).
Proof. intros Hi Hp. destruct (state_parts i Hi) as [H _]. rewrite Hp in H. tauto. Qed.

Lemma anc_root : anc 0 = [].
Proof. destruct (state_parts 0 n_pos) as [H _]. rewrite par_root in H. tauto. Qed.

Lemma st_out i : n <= i -> st c i = dummy_state.
Proof. intros H. unfold st. apply nth_overflow. exact H. Qed.

Lemma anc_out i : n <= i -> anc i = [].
Proof. intros H. now rewrite st_out. Qed.

(* ancestors are smaller, and are states *)
Lemma anc_lt : forall j a, mem a (anc j) = true -> a < j.
Proof.
  induction j as [j IH] using lt_wf_ind. intros a Ha.
  destruct (Nat.lt_ge_cases j n) as [Hj|Hj]; [|rewrite anc_out in Ha by assumption; discriminate].
  destruct (par j) as [p|] eqn:Hp.
  - rewrite (anc_step j p Hj Hp) in Ha. pose proof (par_lt j p Hj Hp).
    apply orb_true_iff in Ha. destruct Ha as [Ha|Ha].
    + apply Nat.eqb_eq in Ha. lia.
    + apply IH in Ha; lia.
  - apply par_none in Hp; [|assumption]. subst. rewrite anc_root in Ha. discriminate.
Qed.

Lemma anc_in_range j a : j < n -> mem a (anc j) = true -> a < n.
Proof. intros Hj Ha. apply anc_lt in Ha. lia. Qed.

Lemma anc_parent i p : i < n -> par i = Some p -> mem p (anc i) = true.
Proof. intros Hi Hp. rewrite (anc_step i p Hi Hp). now rewrite Nat.eqb_refl. Qed.

Lemma anc_trans : forall x a b, mem a (anc b) = true -> mem b (anc x) = true -> mem a (anc x) = true.
Proof.
  induction x as [x IH] using lt_wf_ind. intros a b Hab Hbx.
  destruct (Nat.lt_ge_cases x n) as [Hx|Hx]; [|rewrite anc_out in Hbx by assumption; discriminate].
  destruct (par x) as [p|] eqn:Hp.
  - rewrite (anc_step x p Hx Hp) in *. pose proof (par_lt x p Hx Hp).
    apply orb_true_iff in Hbx. destruct Hbx as [Hbx|Hbx].
    + apply Nat.eqb_eq in Hbx. subst. rewrite Hab. apply orb_true_r.
    + rewrite (IH p H a b Hab Hbx). apply orb_true_r.
  - apply par_none in Hp; [|assumption]. subst. rewrite anc_root in Hbx. discriminate.
Qed.

(* the parent is the largest ancestor *)
Lemma anc_le_parent i p a : i < n -> par i = Some p -> mem a (anc i) = true -> a <= p.
Proof.
  intros Hi Hp Ha. rewrite (anc_step i p Hi Hp) in Ha. apply orb_true_iff in Ha. destruct Ha as [Ha|Ha].
  - apply Nat.eqb_eq in Ha. lia.
  - apply anc_lt in Ha. lia.
Qed.

Lemma child_iff i j : i < n -> (mem j (kids i) = true <-> j < n /\ par j = Some i).
Proof.
  intros Hi. split.
  - intros H. apply mem_In in H. destruct (state_parts i Hi) as [_ [HB _]]. now apply HB.
  - intros [Hj Hp]. destruct (state_parts j Hj) as [HA _]. rewrite Hp in HA. tauto.
Qed.

Lemma child_anc i j : i < n -> mem j (kids i) = true -> mem i (anc j) = true.
Proof. intros Hi H. apply child_iff in H; [|assumption]. destruct H as [Hj Hp]. now apply anc_parent. Qed.

Lemma child_gt i j : i < n -> mem j (kids i) = true -> i < j.
Proof. intros Hi H. apply child_anc in H; [|assumption]. now apply anc_lt in H. Qed.

(* an ancestor has a child on the path *)
Lemma anc_via_child : forall x i, mem i (anc x) = true ->
  exists j, mem j (kids i) = true /\ (j = x \/ mem j (anc x) = true).
Proof.
  induction x as [x IH] using lt_wf_ind. intros i Hi.
  destruct (Nat.lt_ge_cases x n) as [Hx|Hx]; [|rewrite anc_out in Hi by assumption; discriminate].
  assert (Hin : i < n) by (apply anc_lt in Hi; lia).
  destruct (par x) as [p|] eqn:Hp.
  - pose proof (par_lt x p Hx Hp) as Hlt. pose proof Hi as Hi0.
    rewrite (anc_step x p Hx Hp) in Hi. apply orb_true_iff in Hi. destruct Hi as [Hi|Hi].
    + apply Nat.eqb_eq in Hi. subst i. exists x. split; [|now left]. apply child_iff; [assumption|]. auto.
    + destruct (IH p Hlt i Hi) as [j [Hj1 Hj2]]. exists j. split; [assumption|]. right.
      destruct Hj2 as [->|Hj2].
      * now apply anc_parent.
      * eapply anc_trans; [exact Hj2|]. now apply anc_parent.
  - apply par_none in Hp; [|assumption]. subst. rewrite anc_root in Hi. discriminate.
Qed.

Lemma anc_interval i j : i < n -> j < n -> mem i (anc j) = (i <? j) && (j <? i + fs_size (st c i)).
Proof. intros Hi Hj. destruct (state_parts i Hi) as [_ [_ [_ [_ [H _]]]]]. now apply H. Qed.

(* Fast.desc: the sub-tree interval is the set of descendants *)
Lemma mem_desc i j : i < n -> mem j (desc c i) = mem i (anc j).
Proof.
  intros Hi. unfold desc.
  destruct (state_parts i Hi) as [_ [_ [H1 [H2 _]]]]. fold n in H1.
  apply bool_eq_iff. rewrite mem_In, in_seq.
  destruct (Nat.lt_ge_cases j n) as [Hj|Hj].
  - rewrite anc_interval by assumption. rewrite andb_true_iff, !Nat.ltb_lt. lia.
  - rewrite anc_out by assumption. cbn [mem]. split; [lia|discriminate].
Qed.

Lemma typ_proper i : i < n -> proper_type (typ i) = true.
Proof.
  intros Hi. destruct (state_parts i Hi) as [_ [_ [_ [_ [_ H]]]]]. destruct (typ i); try reflexivity; contradiction.
Qed.

Lemma typ_leaf i : i < n -> typ i = FAtomic \/ typ i = FFinal -> kids i = [].
Proof.
  intros Hi Ht. destruct (state_parts i Hi) as [_ [_ [_ [_ [_ H]]]]]. destruct Ht as [Ht|Ht]; rewrite Ht in H; exact H.
Qed.

Lemma typ_comp i : i < n -> typ i = FCompound ->
  exists j, fs_completion (st c i) = [j] /\ mem j (kids i) = true.
Proof. intros Hi Ht. destruct (state_parts i Hi) as [_ [_ [_ [_ [_ H]]]]]. rewrite Ht in H. tauto. Qed.

Lemma typ_par i : i < n -> typ i = FParallel -> forall x, mem x (fs_completion (st c i)) = mem x (kids i).
Proof. intros Hi Ht. destruct (state_parts i Hi) as [_ [_ [_ [_ [_ H]]]]]. rewrite Ht in H. exact H. Qed.

Lemma has_kids_type i : i < n -> kids i <> [] -> typ i = FCompound \/ typ i = FParallel.
Proof.
  intros Hi Hk. destruct (state_parts i Hi) as [_ [_ [_ [_ [_ H]]]]].
  destruct (typ i); try contradiction; try tauto.
Qed.

(* ---- transitions *)

Lemma trans_parts t : t < ntrans c ->
  1 <= ft_source (tr c t) /\ ft_source (tr c t) < n /\
  (forall x, In x (ft_targets (tr c t)) -> 1 <= x /\ x < n) /\
  ft_history (tr c t) = false /\ ft_initial (tr c t) = false /\
  (ft_spontaneous (tr c t) = false -> forall d, In d (tokens (ft_event (tr c t))) -> simple_desc d = true).
Proof.
  intros Ht. destruct wf_parts as [_ [_ [H _]]]. specialize (H t Ht). unfold vh_trans_ok in H.
  rewrite !andb_true_iff in H. destruct H as [[[[[H1 H2] H3] H4] H5] H6].
  apply Nat.leb_le in H1. apply Nat.ltb_lt in H2. rewrite forallb_forall in H3.
  apply negb_true_iff in H4. apply negb_true_iff in H5.
  repeat split; auto.
  - specialize (H3 x H). rewrite andb_true_iff in H3. destruct H3 as [H3 _]. now apply Nat.leb_le in H3.
  - specialize (H3 x H). rewrite andb_true_iff in H3. destruct H3 as [_ H3]. now apply Nat.ltb_lt in H3.
  - intros Hs d Hd. rewrite Hs in H6. cbn in H6. rewrite forallb_forall in H6. now apply H6.
Qed.

(* the domain of a transition with targets: a proper ancestor of every target, inside the chart *)
Lemma domain_spec t d : t < ntrans c -> domain c (tr c t) = Some d ->
  d < n /\ ft_targets (tr c t) <> [] /\ forall x, In x (ft_targets (tr c t)) -> mem d (anc x) = true.
Proof.
  intros Ht Hd. destruct (trans_parts t Ht) as [Hs1 [Hs2 [Htg _]]]. unfold domain in Hd.
  destruct (ft_targets (tr c t)) as [|x0 tg] eqn:Etg; [discriminate|].
  set (src := ft_source (tr c t)) in *.
  destruct (ft_internal (tr c t) && is_comp (typ src) &&
            forallb (fun x => mem src (anc x)) (x0 :: tg)) eqn:E1.
  - inversion Hd; subst d. rewrite !andb_true_iff in E1. destruct E1 as [_ E1]. rewrite forallb_forall in E1.
    split; [assumption|]. split; [discriminate|]. exact E1.
  - destruct (find (fun a => is_comp (typ a) && forallb (fun x => mem a (anc x)) (x0 :: tg)) (rev (anc src))) as [a|] eqn:E2.
    + inversion Hd; subst d. apply find_some in E2. destruct E2 as [E2 E3].
      rewrite andb_true_iff, forallb_forall in E3. destruct E3 as [_ E3].
      split; [|split; [discriminate|exact E3]].
      apply in_rev in E2. apply mem_In in E2. now apply (anc_in_range src).
    + inversion Hd; subst d. split; [apply n_pos|]. split; [discriminate|].
      intros x Hx. destruct (Htg x Hx) as [Hx1 Hx2].
      (* every state other than the root has the root among its ancestors *)
      clear - Hx1 Hx2 Hwf. revert Hx1 Hx2. induction x as [x IH] using lt_wf_ind. intros Hx1 Hx2.
      destruct (par_some x Hx1 Hx2) as [p [Hp Hlt]]. rewrite (anc_step x p Hx2 Hp).
      destruct p as [|p']; [reflexivity|]. rewrite IH by lia. apply orb_true_r.
Qed.

Lemma exit_tab_mem t i : t < ntrans c ->
  mem i (vh_exit_tab c (tr c t)) =
  match domain c (tr c t) with Some d => mem d (anc i) | None => false end.
Proof.
  intros Ht. unfold vh_exit_tab. destruct (domain c (tr c t)) as [d|] eqn:Ed; [|reflexivity].
  destruct (domain_spec t d Ht Ed) as [Hd _]. rewrite mem_filter, mem_desc by assumption.
  destruct (mem d (anc i)) eqn:E; [|reflexivity]. cbn [andb].
  apply typ_proper. destruct (Nat.lt_ge_cases i n); [assumption|]. rewrite anc_out in E by assumption. discriminate.
Qed.

(* two ancestors of one state are comparable *)
Lemma anc_comparable : forall d a b, mem a (anc d) = true -> mem b (anc d) = true ->
  a = b \/ mem a (anc b) = true \/ mem b (anc a) = true.
Proof.
  induction d as [d IH] using lt_wf_ind. intros a b Ha Hb.
  destruct (Nat.lt_ge_cases d n) as [Hd|Hd]; [|rewrite anc_out in Ha by assumption; discriminate].
  destruct (par d) as [p|] eqn:Hp.
  - pose proof (par_lt d p Hd Hp) as Hlt.
    rewrite (anc_step d p Hd Hp) in Ha, Hb. apply orb_true_iff in Ha. apply orb_true_iff in Hb.
    destruct Ha as [Ha|Ha], Hb as [Hb|Hb].
    + apply Nat.eqb_eq in Ha, Hb. left. congruence.
    + apply Nat.eqb_eq in Ha. subst a. right; right. assumption.
    + apply Nat.eqb_eq in Hb. subst b. right; left. assumption.
    + now apply (IH p Hlt).
  - apply par_none in Hp; [|assumption]. subst. rewrite anc_root in Ha. discriminate.
Qed.

Lemma vh_conflict_sym t1 t2 : vh_conflict c t1 t2 = vh_conflict c t2 t1.
Proof.
  unfold vh_conflict. rewrite (intersects_sym (vh_exit_tab c t1)), (Nat.eqb_sym (ft_source t1)).
  rewrite <- !orb_assoc. f_equal. f_equal. apply orb_comm.
Qed.

End WF.

(* ================================================================== event names and descriptors *)

Lemma mem_bytes_In x l : mem_bytes x l = true <-> In x l.
Proof.
  induction l as [|y r IH]; cbn [mem_bytes In]; [split; [discriminate|tauto]|].
  rewrite orb_true_iff, IH, beq_bytes_eq. intuition.
Qed.

Definition nodot (l : bytes) : Prop := forall ch, In ch l -> (ch =? c_dot)%N = false.

Lemma rev_nil_iff {A} (l : list A) : rev l = [] <-> l = [].
Proof. split; [apply rev_eq_nil | intros ->; reflexivity]. Qed.

Lemma dot_tokens_aux_nodot l : forall cur, nodot l ->
  dot_tokens_aux cur l = match rev cur ++ l with [] => [] | x => [x] end.
Proof.
  induction l as [|ch r IH]; intros cur Hn; cbn [dot_tokens_aux].
  - rewrite app_nil_r. destruct cur as [|c0 cur']; [reflexivity|].
    destruct (rev (c0 :: cur')) eqn:E; [apply rev_eq_nil in E; discriminate|reflexivity].
  - rewrite (Hn ch) by now left. rewrite IH by (intros x Hx; apply Hn; now right).
    cbn [rev]. now rewrite <- app_assoc.
Qed.

Lemma dot_tokens_aux_split nm rest : forall cur, nodot nm ->
  dot_tokens_aux cur (nm ++ c_dot :: rest) =
  match rev cur ++ nm with [] => dot_tokens_aux [] rest | x => x :: dot_tokens_aux [] rest end.
Proof.
  induction nm as [|ch r IH]; intros cur Hn; cbn [app dot_tokens_aux].
  - rewrite N.eqb_refl, app_nil_r. destruct cur as [|c0 cur']; [reflexivity|].
    destruct (rev (c0 :: cur')) eqn:E; [apply rev_eq_nil in E; discriminate|reflexivity].
  - rewrite (Hn ch) by now left. rewrite IH by (intros x Hx; apply Hn; now right).
    cbn [rev]. now rewrite <- app_assoc.
Qed.

Lemma simple_name_facts e : simple_name e = true ->
  e <> [] /\ no_space e = true /\ nodot e /\ (forall ch, In ch e -> (ch =? c_star)%N = false).
Proof.
  unfold simple_name. rewrite andb_true_iff. intros [H1 H2]. rewrite forallb_forall in H2.
  split; [destruct e; [discriminate|congruence]|].
  split; [|split].
  - unfold no_space. apply forallb_forall. intros ch Hc. specialize (H2 ch Hc). unfold simple_char in H2.
    rewrite !andb_true_iff in H2. tauto.
  - intros ch Hc. specialize (H2 ch Hc). unfold simple_char in H2. rewrite !andb_true_iff in H2.
    destruct H2 as [[_ H2] _]. now apply negb_true_iff in H2.
  - intros ch Hc. specialize (H2 ch Hc). unfold simple_char in H2. rewrite !andb_true_iff in H2.
    destruct H2 as [_ H2]. now apply negb_true_iff in H2.
Qed.

Lemma dot_tokens_simple e : simple_name e = true -> dot_tokens e = [e].
Proof.
  intros H. destruct (simple_name_facts e H) as [H1 [_ [H2 _]]].
  unfold dot_tokens. rewrite dot_tokens_aux_nodot by assumption. cbn [rev app]. destruct e; [congruence|reflexivity].
Qed.

Lemma list_prefix_single a b : list_prefix [a] [b] = beq_bytes a b.
Proof. cbn. apply andb_true_r. Qed.

(* a simple name ends in a character that is neither '*' nor '.' *)
Lemma simple_name_last nm : simple_name nm = true ->
  exists x r, rev nm = x :: r /\ (x =? c_star)%N = false /\ (x =? c_dot)%N = false.
Proof.
  intros H. destruct (simple_name_facts nm H) as [H1 [_ [H2 H3]]].
  destruct (rev nm) as [|x r] eqn:E; [apply rev_eq_nil in E; contradiction|].
  exists x, r. split; [reflexivity|].
  assert (In x nm) by (apply in_rev; rewrite E; now left). split; [now apply H3 | now apply H2].
Qed.

Definition c_dotstar_forms (d nm : bytes) : Prop :=
  d = nm \/ d = nm ++ [c_dot] \/ d = nm ++ [c_dot; c_star].

Lemma simple_desc_forms d : simple_desc d = true ->
  d = [c_star] \/ exists nm, simple_name nm = true /\ c_dotstar_forms d nm.
Proof.
  unfold simple_desc. rewrite !orb_true_iff. intros [[H|H]|H].
  - left. now apply beq_bytes_eq.
  - right. exists d. split; [assumption|]. now left.
  - right. destruct (rev d) as [|c1 [|c2 r]] eqn:E; try discriminate.
    assert (Hd : d = rev r ++ [c2; c1]).
    { apply rev_inj_eq in E. rewrite E. cbn [rev]. now rewrite <- app_assoc. }
    rewrite orb_true_iff, !andb_true_iff in H. destruct H as [[[H1 H2] H3]|[H1 H2]].
    + apply N.eqb_eq in H1, H2. subst c1 c2. exists (rev r). split; [assumption|]. right; right. exact Hd.
    + apply N.eqb_eq in H1. subst c1. exists (rev (c2 :: r)). split; [assumption|]. right; left.
      rewrite Hd. cbn [rev]. now rewrite <- app_assoc.
Qed.

Lemma cut_last_snoc ch l : cut_last ch (l ++ [ch]) = l.
Proof. unfold cut_last. rewrite rev_app_distr. cbn [rev app]. now rewrite N.eqb_refl, rev_involutive. Qed.

Lemma cut_last_other ch l x r : rev l = x :: r -> (x =? ch)%N = false -> cut_last ch l = l.
Proof. intros E H. unfold cut_last. now rewrite E, H. Qed.

Lemma strip_suffix_dot nm : nm <> [] -> strip_suffix (nm ++ [c_dot]) = nm.
Proof.
  intros Hne. unfold strip_suffix. rewrite rev_app_distr. cbn [rev app].
  destruct (rev nm) as [|c2 r0] eqn:E; [apply rev_eq_nil in E; contradiction|].
  change ((c_dot =? c_star)%N) with false. cbn [andb]. change ((c_dot =? c_dot)%N) with true. cbv iota.
  change (rev r0 ++ [c2]) with (rev (c2 :: r0)). rewrite <- E. apply rev_involutive.
Qed.

Lemma strip_suffix_dotstar nm : strip_suffix (nm ++ [c_dot; c_star]) = nm.
Proof.
  unfold strip_suffix. rewrite rev_app_distr. cbn [rev app].
  change ((c_star =? c_star)%N) with true. change ((c_dot =? c_dot)%N) with true. cbn [andb]. cbv iota.
  apply rev_involutive.
Qed.

Lemma forms_core d nm : simple_name nm = true -> c_dotstar_forms d nm ->
  ev_strip d = nm /\ strip_suffix d = nm /\ wf_desc d = true /\ beq_bytes d [c_star] = false.
Proof.
  intros Hs Hf. destruct (simple_name_last nm Hs) as [x [r [Er [Hx1 Hx2]]]].
  destruct (simple_name_facts nm Hs) as [Hne _].
  assert (Hstar : forall l, beq_bytes (nm ++ l) [c_star] = false).
  { intros l. destruct (beq_bytes (nm ++ l) [c_star]) eqn:E; [|reflexivity]. apply beq_bytes_eq in E.
    destruct nm as [|a [|b nm']]; [congruence| |discriminate].
    cbn in E. inversion E; subst. cbn in Er. inversion Er; subst. rewrite N.eqb_refl in Hx1. discriminate. }
  destruct Hf as [ -> | [ -> | -> ] ].
  - split; [|split; [|split]].
    + unfold ev_strip. rewrite (cut_last_other c_star nm x r Er Hx1). apply (cut_last_other c_dot nm x r Er Hx2).
    + unfold strip_suffix. rewrite Er. destruct r as [|c2 r'].
      * now rewrite Hx2.
      * rewrite Hx1. cbn [andb]. now rewrite Hx2.
    + unfold wf_desc. rewrite <- (app_nil_r nm) at 1. rewrite Hstar. cbn [orb].
      assert (Hss : strip_suffix nm = nm).
      { unfold strip_suffix. rewrite Er. destruct r as [|c2 r']; [now rewrite Hx2|]. rewrite Hx1. cbn [andb]. now rewrite Hx2. }
      rewrite Hss. destruct nm; [congruence|]. cbn [andb]. rewrite Er. destruct r; now rewrite Hx1.
    + rewrite <- (app_nil_r nm). apply Hstar.
  - split; [|split; [|split]].
    + unfold ev_strip. assert (E : rev (nm ++ [c_dot]) = c_dot :: rev nm) by (rewrite rev_app_distr; reflexivity).
      rewrite (cut_last_other c_star _ _ _ E) by reflexivity. apply cut_last_snoc.
    + now apply strip_suffix_dot.
    + unfold wf_desc. rewrite Hstar. cbn [orb].
      rewrite strip_suffix_dot by assumption. destruct nm as [|a nm']; [congruence|]. cbn [andb].
      rewrite rev_app_distr. cbn [app]. change (rev [c_dot]) with [c_dot]. cbn [app]. rewrite Er.
      change ((c_dot =? c_star)%N) with false. reflexivity.
    + apply Hstar.
  - split; [|split; [|split]].
    + unfold ev_strip. replace (nm ++ [c_dot; c_star]) with ((nm ++ [c_dot]) ++ [c_star]) by (now rewrite <- app_assoc).
      rewrite cut_last_snoc. apply cut_last_snoc.
    + apply strip_suffix_dotstar.
    + unfold wf_desc. rewrite Hstar. cbn [orb].
      rewrite strip_suffix_dotstar. destruct nm as [|a nm']; [congruence|]. cbn [andb].
      rewrite rev_app_distr. reflexivity.
    + apply Hstar.
Qed.

Lemma is_prefix_dot_simple nm e : simple_name e = true -> is_prefix (nm ++ [c_dot]) e = false.
Proof.
  intros He. destruct (is_prefix (nm ++ [c_dot]) e) eqn:E; [|reflexivity].
  apply is_prefix_spec in E. destruct E as [s Hs].
  destruct (simple_name_facts e He) as [_ [_ [Hn _]]].
  assert (In c_dot e) by (rewrite Hs; apply in_or_app; left; apply in_or_app; right; now left).
  specialize (Hn c_dot H). rewrite N.eqb_refl in Hn. discriminate.
Qed.

Lemma desc_match_spec_simple d e : simple_desc d = true -> simple_name e = true ->
  desc_match_spec d e = beq_bytes d [c_star] || beq_bytes (ev_strip d) e.
Proof.
  intros Hd He. unfold desc_match_spec.
  destruct (simple_desc_forms d Hd) as [->|[nm [Hnm Hf]]]; [reflexivity|].
  destruct (forms_core d nm Hnm Hf) as [H1 [H2 [_ H4]]].
  rewrite H4, H1, H2. cbn [orb]. now rewrite is_prefix_dot_simple, orb_false_r.
Qed.

Lemma simple_desc_wf d : simple_desc d = true -> wf_desc d = true.
Proof.
  intros Hd. destruct (simple_desc_forms d Hd) as [->|[nm [Hnm Hf]]]; [reflexivity|].
  now destruct (forms_core d nm Hnm Hf) as [_ [_ [H _]]].
Qed.

Lemma simple_desc_prefix d e : simple_desc d = true -> simple_name e = true -> beq_bytes d [c_star] = false ->
  list_prefix (dot_tokens (ev_strip d)) (dot_tokens e) = beq_bytes (ev_strip d) e.
Proof.
  intros Hd He Hs. destruct (simple_desc_forms d Hd) as [->|[nm [Hnm Hf]]]; [discriminate|].
  destruct (forms_core d nm Hnm Hf) as [H1 _]. rewrite H1, !dot_tokens_simple by assumption. apply list_prefix_single.
Qed.

(* ================================================================== one situation *)

Section Situation.
Variable c : fchart.
Hypothesis Hwf : vh_wfb c = true.
Variable cfg : list nat.
Variable ev : option bytes.
Variable val : nat -> bool.
Hypothesis Hlegal : legal_configb c cfg = true.
Hypothesis Hrun : vh_running c cfg = true.
Hypothesis Hev : vh_event_ok c ev = true.

Let n := nstates c.
Let T := ntrans c.
Notation par i := (fs_parent (st c i)).
Notation anc i := (fs_ancestors (st c i)).
Notation kids i := (fs_children (st c i)).
Notation typ i := (fs_type (st c i)).

(* ---- the legal configuration *)

Lemma legal_parts :
  mem 0 cfg = true /\ forall i, mem i cfg = true -> Legal.state_ok c cfg i = true.
Proof.
  unfold legal_configb in Hlegal. rewrite !andb_true_iff in Hlegal. destruct Hlegal as [[H1 _] H3].
  split; [assumption|]. intros i Hi. rewrite forallb_forall in H3. apply H3. now apply mem_In.
Qed.

Lemma legal_root : mem 0 cfg = true. Proof. apply legal_parts. Qed.

Lemma legal_lt i : mem i cfg = true -> i < n.
Proof.
  intros Hi. destruct legal_parts as [_ H]. specialize (H i Hi). unfold Legal.state_ok in H.
  rewrite !andb_true_iff in H. destruct H as [[[H _] _] _]. now apply Nat.ltb_lt in H.
Qed.

Lemma legal_parent i p : mem i cfg = true -> par i = Some p -> mem p cfg = true.
Proof.
  intros Hi Hp. destruct legal_parts as [_ H]. specialize (H i Hi). unfold Legal.state_ok in H.
  rewrite !andb_true_iff in H. destruct H as [[_ H] _]. now rewrite Hp in H.
Qed.

Lemma legal_anc : forall i a, mem i cfg = true -> mem a (anc i) = true -> mem a cfg = true.
Proof.
  induction i as [i IH] using lt_wf_ind. intros a Hi Ha.
  pose proof (legal_lt i Hi) as Hlt.
  destruct (par i) as [p|] eqn:Hp.
  - pose proof (legal_parent i p Hi Hp) as Hpc.
    rewrite (anc_step c Hwf i p Hlt Hp) in Ha. apply orb_true_iff in Ha. destruct Ha as [Ha|Ha].
    + apply Nat.eqb_eq in Ha. now subst.
    + apply (IH p); [now apply (par_lt c Hwf i)|assumption|assumption].
  - apply (par_none c Hwf) in Hp; [|assumption]. subst. rewrite (anc_root c Hwf) in Ha. discriminate.
Qed.

Lemma legal_comp_child i : mem i cfg = true -> typ i = FCompound ->
  exists j, mem j (kids i) = true /\ mem j cfg = true.
Proof.
  intros Hi Ht. destruct legal_parts as [_ H]. specialize (H i Hi). unfold Legal.state_ok in H.
  rewrite !andb_true_iff in H. destruct H as [_ H]. rewrite Ht in H. apply Nat.eqb_eq in H.
  destruct (filter (fun ch => mem ch cfg) (proper_children c i)) as [|j l] eqn:E; [discriminate|].
  assert (Hj : In j (filter (fun ch => mem ch cfg) (proper_children c i))) by (rewrite E; now left).
  apply filter_In in Hj. destruct Hj as [Hj1 Hj2]. unfold proper_children in Hj1. apply filter_In in Hj1.
  exists j. split; [apply mem_In; tauto|assumption].
Qed.

(* ---- selection *)

Definition enabled (t : nat) : bool := vh_enabled c cfg ev val t.
Definition confl (s t : nat) : bool := vh_conflict c (tr c s) (tr c t).

Definition dec (R : list nat) (t : nat) : bool :=
  negb (ft_history (tr c t) || ft_initial (tr c t)) && enabled t &&
  negb (existsb (fun s => mem s R && confl s t) (seq 0 t)).

Lemma existsb_bounded (f : nat -> bool) acc a : (forall s, mem s acc = true -> s < a) ->
  existsb f acc = existsb (fun s => mem s acc && f s) (seq 0 a).
Proof.
  intros Hb. apply bool_eq_iff. rewrite !existsb_exists. split.
  - intros [s [H1 H2]]. exists s. apply mem_In in H1. split; [apply in_seq; specialize (Hb s H1); lia|].
    now rewrite H1, H2.
  - intros [s [H1 H2]]. apply andb_true_iff in H2. destruct H2 as [H2 H3]. exists s. split; [now apply mem_In|assumption].
Qed.

Lemma mem_app_single t acc a : mem t (acc ++ [a]) = mem t acc || (t =? a).
Proof. induction acc as [|y r IH]; cbn [app mem]; [now rewrite orb_false_r|]. rewrite IH. now rewrite orb_assoc. Qed.

Lemma vselect_char : forall len a acc, (forall s, mem s acc = true -> s < a) ->
  forall t, mem t (vselect c cfg ev val (seq a len) acc) =
            mem t acc || ((a <=? t) && (t <? a + len) && dec (vselect c cfg ev val (seq a len) acc) t).
Proof.
  induction len as [|len IH]; intros a acc Hb t.
  - cbn [seq vselect]. destruct (a <=? t) eqn:E1, (t <? a + 0) eqn:E2; cbn [andb]; try now rewrite orb_false_r.
    apply Nat.leb_le in E1. apply Nat.ltb_lt in E2. lia.
  - cbn [seq]. set (R := vselect c cfg ev val (a :: seq (S a) len) acc).
    (* the accumulator after looking at transition a *)
    set (add := negb (ft_history (tr c a) || ft_initial (tr c a)) && enabled a &&
                negb (existsb (fun si => confl si a) acc)).
    assert (HR : R = vselect c cfg ev val (seq (S a) len) (if add then acc ++ [a] else acc)).
    { unfold R, add, enabled, confl. cbn [vselect].
      destruct (ft_history (tr c a) || ft_initial (tr c a)); cbn [negb andb]; [reflexivity|].
      destruct (vh_enabled c cfg ev val a); cbn [negb andb]; [|reflexivity].
      destruct (existsb (fun si => vh_conflict c (tr c si) (tr c a)) acc); reflexivity. }
    set (acc' := if add then acc ++ [a] else acc) in *.
    assert (Hb' : forall s, mem s acc' = true -> s < S a).
    { intros s Hs. unfold acc' in Hs. destruct add.
      - rewrite mem_app_single in Hs. apply orb_true_iff in Hs. destruct Hs as [Hs|Hs].
        + specialize (Hb s Hs). lia.
        + apply Nat.eqb_eq in Hs. lia.
      - specialize (Hb s Hs). lia. }
    pose proof (IH (S a) acc' Hb') as IH'. rewrite <- HR in IH'.
    assert (Hacc : forall s, s <> a -> mem s acc' = mem s acc).
    { intros s Hs. unfold acc'. destruct add; [|reflexivity]. rewrite mem_app_single.
      apply Nat.eqb_neq in Hs. rewrite Hs. apply orb_false_r. }
    assert (Hlow : forall s, s < S a -> mem s R = mem s acc').
    { intros s Hs. rewrite IH'. destruct (S a <=? s) eqn:E; [apply Nat.leb_le in E; lia|]. cbn [andb]. apply orb_false_r. }
    destruct (Nat.eq_dec t a) as [->|Hne].
    + (* the transition at hand *)
      rewrite (Hlow a) by lia.
      assert (Ha : mem a acc = false).
      { destruct (mem a acc) eqn:E; [|reflexivity]. specialize (Hb a E). lia. }
      rewrite Ha. cbn [orb]. rewrite Nat.leb_refl.
      assert (E2 : (a <? a + S len) = true) by (apply Nat.ltb_lt; lia). rewrite E2. cbn [andb].
      assert (Hdec : dec R a = add).
      { unfold dec, add. f_equal. f_equal. rewrite (existsb_bounded _ acc a Hb).
        apply existsb_ext_in. intros s Hs. apply in_seq in Hs. rewrite (Hlow s) by lia. rewrite Hacc by lia. reflexivity. }
      rewrite Hdec. unfold acc'. destruct add.
      * rewrite mem_app_single, Nat.eqb_refl. apply orb_true_r.
      * exact Ha.
    + rewrite IH'. rewrite Hacc by assumption. f_equal.
      assert (Hrange : (S a <=? t) && (t <? S a + len) = (a <=? t) && (t <? a + S len)).
      { apply bool_eq_iff. rewrite !andb_true_iff, !Nat.leb_le, !Nat.ltb_lt. lia. }
      now rewrite Hrange.
Qed.

Let sel := vh_selected c cfg ev val.

Lemma sel_char t : mem t sel = (t <? T) && dec sel t.
Proof.
  unfold sel, vh_selected. rewrite vselect_char by (intros s Hs; discriminate). cbn [mem orb]. now rewrite Nat.add_0_l.
Qed.

Lemma sel_lt t : mem t sel = true -> t < T.
Proof. rewrite sel_char, andb_true_iff, Nat.ltb_lt. tauto. Qed.

Lemma sel_enabled t : mem t sel = true -> enabled t = true.
Proof. rewrite sel_char. unfold dec. rewrite !andb_true_iff. tauto. Qed.

(* ---- the intended value of every signal *)

Let X := vh_exitset c cfg sel.
Let TG := vh_targets c sel.
Let ES := vh_entryset c cfg X TG.

Definition upv (i : nat) : bool := mem i (add_ancestors c TG).

Definition sol (s : signal) : bool :=
  match s with
  | SActive i => mem i cfg
  | SEvent k => match ev with
                | Some e => (k <? length (doc_events c)) && beq_bytes (nth k (doc_events c) []) e
                | None => false end
  | SCond t => val t
  | SSpontEn => match ev with Some _ => false | None => true end
  | SOpt t => mem t sel
  | SCombined => existsb (fun t => mem t sel) (seq 0 T)
  | SSpontActive => existsb (fun t => ft_spontaneous (tr c t) && mem t sel) (seq 0 T)
  | SExit i => mem i X
  | SUp i => upv i
  | SCes i => match i with O => false | _ => mem i ES end
  | SEntry i => match i with O => false | _ => mem i ES end && (mem i X || negb (mem i cfg))
  | SNext i => (mem i cfg && negb (mem i X)) || mem i ES
  | SCompleted => false
  end.

Definition is_input (s : signal) : Prop :=
  match s with SActive _ | SEvent _ | SCond _ | SSpontEn | SCes O => True | _ => False end.

Lemma inputs_ok : ok sol (vh_inputs c cfg ev val) is_input.
Proof. intros s Hs. destruct s as [i|k|t| |t| | |i|i|[|i]|i|i| ]; cbn in Hs; try contradiction; reflexivity. Qed.

(* ---- selection equations *)

Lemma spont_active_event e : ev = Some e -> sol SSpontActive = false.
Proof.
  intros He. cbn [sol]. apply existsb_false_iff. intros t _.
  destruct (mem t sel) eqn:E; [|apply andb_false_r]. apply sel_enabled in E. unfold enabled, vh_enabled in E.
  rewrite He in E. rewrite !andb_true_iff in E. destruct E as [[_ [E _]] _]. apply negb_true_iff in E. now rewrite E.
Qed.

Lemma event_in_doc e : ev = Some e -> In e (doc_events c) /\ simple_name e = true.
Proof.
  intros He. unfold vh_event_ok in Hev. rewrite He in Hev. apply mem_bytes_In in Hev. split; [assumption|].
  destruct (wf_parts c Hwf) as [_ [_ [_ H]]]. now apply H.
Qed.

(* the event signals selected by a descriptor: the pending event is among them iff the descriptor matches it *)
Lemma matcher_one d e : ev = Some e -> simple_desc d = true ->
  existsb (fun k => sol (SEvent k))
          (trie_words (doc_events c) (if beq_bytes d [c_star] then [] else ev_strip d)) =
  desc_match_spec d e.
Proof.
  intros He Hd. destruct (event_in_doc e He) as [Hin Hse].
  rewrite desc_match_spec_simple by assumption.
  unfold trie_words. rewrite existsb_filter. cbn [sol]. rewrite He.
  set (p := if beq_bytes d [c_star] then [] else ev_strip d).
  assert (Hk : existsb (fun k => list_prefix (dot_tokens p) (dot_tokens (nth k (doc_events c) [])) &&
                                 ((k <? length (doc_events c)) && beq_bytes (nth k (doc_events c) []) e))
                       (seq 0 (length (doc_events c))) = list_prefix (dot_tokens p) (dot_tokens e)).
  { unfold bytes in *. apply bool_eq_iff. rewrite existsb_exists. split.
    - intros [k [_ H]]. rewrite !andb_true_iff in H. destruct H as [H1 [_ H2]]. apply beq_bytes_eq in H2. now rewrite H2 in H1.
    - intros H. destruct (In_nth _ _ [] Hin) as [k [Hk1 Hk2]]. exists k. split; [apply in_seq; split; [apply Nat.le_0_l|exact Hk1]|].
      rewrite Hk2, H. cbn [andb]. apply andb_true_iff. split; [now apply Nat.ltb_lt|apply beq_bytes_refl]. }
  etransitivity; [exact Hk|]. unfold p. destruct (beq_bytes d [c_star]) eqn:Es; [reflexivity|]. cbn [orb].
  now apply simple_desc_prefix.
Qed.

Lemma matchers_event t e : t < T -> ev = Some e -> ft_spontaneous (tr c t) = false ->
  beval (vors (name_matchers vh_fixed c (tr c t))) sol = name_match_impl nm_fixed (ft_event (tr c t)) e.
Proof.
  intros Ht He Hs. destruct (trans_parts c Hwf t Ht) as [_ [_ [_ [_ [_ Hd]]]]]. specialize (Hd Hs).
  destruct (event_in_doc e He) as [Hin Hse]. destruct (simple_name_facts e Hse) as [Hne [Hns _]].
  rewrite name_match_correct_lemma; [|apply forallb_forall; intros d Hdin; apply simple_desc_wf; now apply Hd|assumption].
  unfold name_match_spec. destruct e as [|e0 e']; [congruence|].
  rewrite beval_vors. unfold name_matchers. rewrite existsb_flat_map.
  apply existsb_ext_in. intros d Hdin. rewrite existsb_map. cbn [beval vh_desc_unstripped vh_fixed].
  now apply matcher_one; [|apply Hd].
Qed.

Lemma matchers_spont t : ev = None -> beval (vors (name_matchers vh_fixed c (tr c t))) sol = false.
Proof.
  intros He. rewrite beval_vors. unfold name_matchers. rewrite existsb_flat_map.
  apply existsb_false_iff. intros d _. rewrite existsb_map. apply existsb_false_iff. intros k _. cbn [beval sol]. now rewrite He.
Qed.

Lemma eq_of_app eqs1 eqs2 s : eq_of (eqs1 ++ eqs2) s = match eq_of eqs1 s with Some e => Some e | None => eq_of eqs2 s end.
Proof.
  induction eqs1 as [|[s' e] r IH]; cbn [app eq_of]; [reflexivity|]. destruct (signal_eqb s' s); [reflexivity|apply IH].
Qed.

Lemma opt_eq t : t < T -> beval (snd (eq_opt vh_fixed c t)) sol = mem t sel.
Proof.
  intros Ht. rewrite sel_char. apply Nat.ltb_lt in Ht. rewrite Ht. cbn [andb]. apply Nat.ltb_lt in Ht.
  destruct (trans_parts c Hwf t Ht) as [_ [_ [_ [Hh [Hi _]]]]].
  unfold eq_opt. cbn [snd]. rewrite beval_vands. cbn [forallb beval].
  unfold dec. rewrite Hh, Hi. cbn [orb negb andb]. rewrite andb_true_r.
  (* the conflicters *)
  assert (Hc : beval (vors (map (sig_opt) (filter (fun j => vh_conflict c (tr c t) (tr c j)) (seq 0 t)))) sol =
               existsb (fun s => mem s sel && confl s t) (seq 0 t)).
  { rewrite beval_vors, existsb_map, existsb_filter. apply existsb_ext_in. intros j _. unfold sig_opt. cbn [beval sol].
    unfold confl. rewrite (vh_conflict_sym c (tr c t)). apply andb_comm. }
  rewrite Hc. rewrite !andb_assoc. f_equal.
  unfold enabled, vh_enabled.
  assert (Hcond : beval match ft_cond (tr c t) with Some _ => VSig (SCond t) | None => VConst true end sol =
                  match ft_cond (tr c t) with Some _ => val t | None => true end)
    by (destruct (ft_cond (tr c t)); reflexivity).
  rewrite Hcond. set (cnd := match ft_cond (tr c t) with Some _ => val t | None => true end).
  destruct (option_cases ev) as [He|[e He]]; destruct (ft_spontaneous (tr c t)) eqn:Hs; cbn [negb andb].
  - (* spontaneous step, eventless transition *)
    cbn [beval sol existsb]. rewrite He. cbn [orb]. rewrite !andb_true_r. cbn [andb]. apply andb_comm.
  - (* spontaneous step, eventful transition: no event signal is set *)
    rewrite (matchers_spont t He). rewrite He. rewrite !andb_false_r. reflexivity.
  - (* an event is pending, the transition is eventless: spontaneous_en is '0' *)
    cbn [beval sol]. rewrite He. cbn [negb andb]. rewrite andb_false_r. reflexivity.
  - change (beval (VNot (VSig SSpontActive)) sol) with (negb (sol SSpontActive)).
    rewrite (spont_active_event e He). rewrite (matchers_event t e Ht He Hs). rewrite He. cbn [sol negb andb].
    destruct cnd, (mem (ft_source (tr c t)) cfg), (name_match_impl nm_fixed (ft_event (tr c t)) e); reflexivity.
Qed.

Lemma spont_active_eq : beval (snd (eq_spont_active c)) sol = sol SSpontActive.
Proof.
  unfold eq_spont_active. cbn [snd sol]. rewrite beval_vors, existsb_map, existsb_filter. reflexivity.
Qed.

Lemma completed_eq : beval (snd (eq_completed c)) sol = false.
Proof.
  unfold eq_completed. cbn [snd]. rewrite beval_vors, existsb_map. cbn [beval sol].
  unfold vh_running in Hrun. now apply negb_true_iff in Hrun.
Qed.

(* ---- exit set *)

Lemma exitset_mem i : mem i X = mem i cfg && existsb (fun t => mem t sel && mem i (vh_exit_tab c (tr c t))) (seq 0 T).
Proof.
  unfold X, vh_exitset. rewrite mem_fold_union. cbn [mem orb].
  apply bool_eq_iff. rewrite andb_true_iff, !existsb_exists. split.
  - intros [t [H1 H2]]. rewrite mem_filter in H2. apply andb_true_iff in H2. destruct H2 as [H2 H3].
    split; [assumption|]. exists t. apply mem_In in H1. split; [apply in_seq; pose proof (sel_lt t H1); lia|].
    now rewrite H1, H3.
  - intros [Hc [t [_ H]]]. apply andb_true_iff in H. destruct H as [H1 H2]. exists t. split; [now apply mem_In|].
    now rewrite mem_filter, Hc, H2.
Qed.

Lemma exit_eq i : beval (snd (eq_exit c i)) sol = mem i X.
Proof.
  unfold eq_exit. cbn [snd]. rewrite beval_vands. cbn [forallb beval sol]. rewrite andb_true_r.
  rewrite exitset_mem. f_equal. rewrite beval_vors, existsb_map, existsb_filter.
  apply existsb_ext_in. intros t _. unfold sig_opt. cbn [beval sol]. apply andb_comm.
Qed.

(* an exited state lies below the domain of a selected transition; and everything active below it is exited *)
Lemma exitset_spec i : mem i X = true <->
  mem i cfg = true /\ exists t d, mem t sel = true /\ domain c (tr c t) = Some d /\ mem d (anc i) = true.
Proof.
  rewrite exitset_mem, andb_true_iff, existsb_exists. split.
  - intros [Hc [t [Ht H]]]. split; [assumption|]. apply in_seq in Ht. apply andb_true_iff in H. destruct H as [H1 H2].
    rewrite exit_tab_mem in H2 by (assumption || (fold T; lia)).
    destruct (domain c (tr c t)) as [d|] eqn:Ed; [|discriminate]. exists t, d. tauto.
  - intros [Hc [t [d [H1 [H2 H3]]]]]. split; [assumption|]. exists t. pose proof (sel_lt t H1).
    split; [apply in_seq; lia|]. rewrite H1. cbn [andb]. rewrite exit_tab_mem by assumption. now rewrite H2.
Qed.

Lemma exitset_down i j : mem i X = true -> mem j cfg = true -> mem i (anc j) = true -> mem j X = true.
Proof.
  intros Hi Hj Hij. apply exitset_spec in Hi. destruct Hi as [_ [t [d [H1 [H2 H3]]]]].
  apply exitset_spec. split; [assumption|]. exists t, d. split; [assumption|]. split; [assumption|].
  now apply (anc_trans c Hwf j d i).
Qed.

(* ---- targets and their ancestors *)

Lemma targets_mem x : mem x TG = existsb (fun t => mem t sel && mem x (ft_targets (tr c t))) (seq 0 T).
Proof.
  unfold TG, vh_targets. rewrite mem_fold_union. cbn [mem orb].
  apply bool_eq_iff. rewrite !existsb_exists. split.
  - intros [t [H1 H2]]. exists t. apply mem_In in H1. split; [apply in_seq; pose proof (sel_lt t H1); lia|]. now rewrite H1, H2.
  - intros [t [_ H]]. apply andb_true_iff in H. destruct H as [H1 H2]. exists t. split; [now apply mem_In|assumption].
Qed.

Lemma targets_range x : mem x TG = true -> 1 <= x /\ x < n.
Proof.
  rewrite targets_mem, existsb_exists. intros [t [Ht H]]. apply in_seq in Ht. apply andb_true_iff in H. destruct H as [_ H].
  destruct (trans_parts c Hwf t) as [_ [_ [Htg _]]]; [fold T; lia|]. apply Htg. now apply mem_In.
Qed.

Lemma upv_spec i : upv i = true <-> exists x, mem x TG = true /\ (x = i \/ mem i (anc x) = true).
Proof.
  unfold upv, add_ancestors. rewrite mem_fold_union, orb_true_iff, existsb_exists. split.
  - intros [H|[x [H1 H2]]]; [exists i; tauto|]. exists x. split; [now apply mem_In|tauto].
  - intros [x [H1 [->|H2]]]; [tauto|]. right. exists x. split; [now apply mem_In|assumption].
Qed.

Lemma upv_range i : upv i = true -> i < n.
Proof.
  intros H. apply upv_spec in H. destruct H as [x [H1 [->|H2]]].
  - now apply targets_range.
  - apply (anc_lt c Hwf) in H2. apply targets_range in H1. lia.
Qed.

Lemma upv_anc i a : upv i = true -> mem a (anc i) = true -> upv a = true.
Proof.
  intros H Ha. apply upv_spec in H. destruct H as [x [H1 H2]]. apply upv_spec. exists x. split; [assumption|]. right.
  destruct H2 as [->|H2]; [assumption|]. now apply (anc_trans c Hwf x a i).
Qed.

(* upv i: i is targeted, or a child of i has upv *)
Lemma upv_children i : i < n ->
  upv i = mem i TG || existsb (fun j => mem j (kids i) && upv j) (seq 0 n).
Proof.
  intros Hi. apply bool_eq_iff. rewrite orb_true_iff, existsb_exists. split.
  - intros H. apply upv_spec in H. destruct H as [x [H1 [->|H2]]]; [tauto|]. right.
    destruct (anc_via_child c Hwf x i H2) as [j [Hj1 Hj2]]. exists j.
    assert (Hjn : j < n) by (apply (child_iff c Hwf i j Hi) in Hj1; tauto).
    split; [apply in_seq; lia|]. rewrite Hj1. cbn [andb]. apply upv_spec. exists x. split; [assumption|].
    destruct Hj2 as [Hj2|Hj2]; [left; now symmetry|now right].
  - intros [H|[j [_ H]]].
    + apply upv_spec. exists i. tauto.
    + apply andb_true_iff in H. destruct H as [H1 H2]. apply (upv_anc j i H2). now apply (child_anc c Hwf).
Qed.

Lemma up_eq i : 1 <= i -> i < n -> beval (snd (eq_up vh_fixed c i)) sol = upv i.
Proof.
  intros H1 Hi. unfold eq_up. cbn [snd vh_anc_outer_index vh_fixed]. rewrite beval_vors. cbn [existsb]. rewrite orb_false_r.
  rewrite (upv_children i Hi). f_equal.
  - rewrite targets_mem, beval_vors, existsb_map, existsb_filter. apply existsb_ext_in. intros t _. unfold sig_opt. cbn [beval sol]. apply andb_comm.
  - destruct (is_comp (typ i) || is_par (typ i)) eqn:Et.
    + rewrite beval_vors, existsb_flat_map. apply existsb_ext_in. intros j _. fold n.
      destruct (mem j (kids i)); cbn [existsb beval sol andb]; [apply orb_false_r|reflexivity].
    + (* atomic and final states have no children *)
      cbn [vors fold_right beval]. symmetry. apply existsb_false_iff. intros j _.
      assert (Hk : kids i = []).
      { apply (typ_leaf c Hwf i Hi). pose proof (typ_proper c Hwf i Hi) as Hp.
        destruct (typ i); cbn in Et, Hp; try discriminate; tauto. }
      now rewrite Hk.
Qed.


(* ---- the entry set: one ascending pass *)

Definition esk (k : nat) : list nat :=
  fold_left (vdescend_one c cfg X) (seq 0 k) (add_ancestors c TG).

Lemma esk_S k : esk (S k) = vdescend_one c cfg X (esk k) k.
Proof. unfold esk. rewrite seq_S, fold_left_app. reflexivity. Qed.

Lemma ES_esk : ES = esk n.
Proof. reflexivity. Qed.

Definition closed (es : list nat) : Prop :=
  forall m a, mem m es = true -> mem a (anc m) = true -> mem a es = true.

(* what processing state k adds: children of k *)
Definition comp_cond_at (es : list nat) (k : nat) : bool :=
  negb (intersects es (desc c k)) && (negb (intersects cfg (desc c k)) || intersects X (desc c k)).

Definition added (es : list nat) (k m : nat) : bool :=
  match typ k with
  | FParallel => mem m (kids k)
  | FCompound => comp_cond_at es k && match fs_completion (st c k) with [j] => m =? j | _ => false end
  | _ => false
  end.

Lemma descend_mem es k m : k < n -> closed es ->
  mem m (vdescend_one c cfg X es k) = mem m es || (mem k es && added es k m).
Proof.
  intros Hk Hcl. unfold vdescend_one, added. destruct (mem k es) eqn:Ek; cbn [negb andb]; [|now rewrite orb_false_r].
  destruct (typ k) eqn:Et; try now rewrite orb_false_r.
  - (* compound *)
    fold (comp_cond_at es k). destruct (comp_cond_at es k); cbn [andb]; [|now rewrite orb_false_r].
    destruct (typ_comp c Hwf k Hk Et) as [j [Hj1 Hj2]]. rewrite Hj1. cbn [fold_left].
    pose proof (child_gt c Hwf k j Hk Hj2) as Hlt. apply Nat.ltb_lt in Hlt. rewrite Hlt.
    rewrite !mem_set_union. cbn [mem]. rewrite orb_false_r.
    destruct (mem m (anc j)) eqn:Ea; [|now rewrite orb_false_r].
    (* the ancestors of the completion are k and the ancestors of k: already there *)
    assert (Hm : mem m es = true).
    { apply (child_iff c Hwf k j Hk) in Hj2. destruct Hj2 as [Hjn Hjp].
      rewrite (anc_step c Hwf j k Hjn Hjp) in Ea. apply orb_true_iff in Ea. destruct Ea as [Ea|Ea].
      - apply Nat.eqb_eq in Ea. now subst.
      - now apply (Hcl k m). }
    now rewrite Hm.
  - (* parallel *)
    rewrite mem_set_union. now rewrite (typ_par c Hwf k Hk Et).
Qed.

Lemma added_child es k m : k < n -> added es k m = true -> m < n /\ par m = Some k.
Proof.
  intros Hk H. unfold added in H. destruct (typ k) eqn:Et; try discriminate.
  - apply andb_true_iff in H. destruct H as [_ H]. destruct (typ_comp c Hwf k Hk Et) as [j [Hj1 Hj2]]. rewrite Hj1 in H.
    apply Nat.eqb_eq in H. subst. now apply (child_iff c Hwf k j Hk).
  - now apply (child_iff c Hwf k m Hk).
Qed.

Lemma closed_init : closed (add_ancestors c TG).
Proof. intros m a Hm Ha. now apply (upv_anc m a). Qed.

Lemma esk_closed k : k <= n -> closed (esk k).
Proof.
  induction k as [|k IH]; intros Hk.
  - apply closed_init.
  - assert (Hk' : k < n) by lia. specialize (IH (Nat.lt_le_incl _ _ Hk')). rewrite esk_S.
    intros m a Hm Ha. rewrite descend_mem in Hm |- * by assumption.
    apply orb_true_iff in Hm. destruct Hm as [Hm|Hm].
    + rewrite (IH m a Hm Ha). reflexivity.
    + apply andb_true_iff in Hm. destruct Hm as [Hke Had]. destruct (added_child _ k m Hk' Had) as [Hmn Hmp].
      rewrite (anc_step c Hwf m k Hmn Hmp) in Ha. apply orb_true_iff in Ha. destruct Ha as [Ha|Ha].
      * apply Nat.eqb_eq in Ha. subst. now rewrite Hke.
      * now rewrite (IH k a Hke Ha).
Qed.

(* the decision for a compound state, in terms of the targets only *)
Definition comp_cond (q : nat) : bool :=
  negb (existsb upv (desc c q)) && (negb (intersects cfg (desc c q)) || intersects X (desc c q)).

Definition adds (q m : nat) : bool :=
  match typ q with
  | FParallel => true
  | FCompound => is_default_child c q m && comp_cond q
  | _ => false
  end.

Definition fold_formula (k m : nat) : bool :=
  upv m || match par m with Some q => (q <? k) && mem q (esk q) && adds q m | None => false end.

Lemma fold_char : forall k, k <= n -> forall m, m < n -> mem m (esk k) = fold_formula k m.
Proof.
  induction k as [|k IH]; intros Hk m Hm.
  - unfold fold_formula, esk. cbn [seq fold_left]. fold (upv m).
    destruct (par m); [|now rewrite orb_false_r]. cbn [Nat.ltb Nat.leb andb]. now rewrite orb_false_r.
  - assert (Hk' : k < n) by lia. specialize (IH (Nat.lt_le_incl _ _ Hk')).
    rewrite esk_S, descend_mem by (assumption || now apply esk_closed; lia).
    rewrite (IH m Hm). unfold fold_formula.
    destruct (par m) as [q|] eqn:Hp.
    + destruct (Nat.eq_dec q k) as [->|Hne].
      * (* m is a child of the state being processed *)
        rewrite Nat.ltb_irrefl. cbn [andb]. rewrite orb_false_r.
        assert (E : (k <? S k) = true) by (apply Nat.ltb_lt; lia). rewrite E. cbn [andb].
        f_equal. f_equal. unfold added, adds.
        destruct (typ k) eqn:Et; try reflexivity.
        -- (* compound: the test on the set built so far is a test on the targets *)
           assert (Hc : comp_cond_at (esk k) k = comp_cond k).
           { unfold comp_cond_at, comp_cond. f_equal. f_equal.
             apply bool_eq_iff. rewrite intersects_true, existsb_exists. split.
             - intros [d [H1 H2]]. exists d. split; [assumption|].
               apply mem_In in H1, H2. rewrite (mem_desc c Hwf k d Hk') in H2.
               assert (Hd : d < n).
               { destruct (Nat.lt_ge_cases d n); [assumption|]. rewrite (anc_out c d) in H2 by assumption. discriminate. }
               rewrite (IH d Hd) in H1. unfold fold_formula in H1.
               destruct (par d) as [q'|] eqn:Hq'; [|now rewrite orb_false_r in H1].
               pose proof (anc_le_parent c Hwf d q' k Hd Hq' H2) as Hle.
               assert (E2 : (q' <? k) = false) by (apply Nat.ltb_ge; lia). rewrite E2 in H1. cbn [andb] in H1.
               now rewrite orb_false_r in H1.
             - intros [d [H1 H2]]. exists d. split; [|assumption]. apply mem_In.
               pose proof (upv_range d H2) as Hd. rewrite (IH d Hd). unfold fold_formula. now rewrite H2. }
           rewrite Hc. rewrite andb_comm. f_equal. unfold is_default_child.
           destruct (fs_completion (st c k)) as [|j [|? ?]]; try reflexivity. apply Nat.eqb_sym.
        -- (* parallel *)
           apply (child_iff c Hwf k m Hk'). auto.
      * (* not a child of k: nothing changes *)
        assert (Hadd : added (esk k) k m = false).
        { destruct (added (esk k) k m) eqn:E; [|reflexivity]. apply added_child in E; [|assumption]. destruct E as [_ E]. congruence. }
        rewrite Hadd, andb_false_r, orb_false_r.
        assert (E : (q <? S k) = (q <? k)).
        { apply bool_eq_iff. rewrite !Nat.ltb_lt. lia. }
        now rewrite E.
    + assert (Hadd : added (esk k) k m = false).
      { destruct (added (esk k) k m) eqn:E; [|reflexivity]. apply added_child in E; [|assumption]. destruct E as [_ E]. congruence. }
      now rewrite Hadd, andb_false_r, !orb_false_r.
Qed.

Lemma esk_stable q k : q < n -> q < k -> k <= n -> mem q (esk k) = mem q (esk q).
Proof.
  intros Hq Hqk Hk. rewrite (fold_char k Hk q Hq), (fold_char q (Nat.lt_le_incl _ _ Hq) q Hq). unfold fold_formula.
  destruct (par q) as [q'|] eqn:Hp; [|reflexivity].
  pose proof (par_lt c Hwf q q' Hq Hp) as Hlt.
  assert (E1 : (q' <? k) = true) by (apply Nat.ltb_lt; lia).
  assert (E2 : (q' <? q) = true) by (apply Nat.ltb_lt; lia). now rewrite E1, E2.
Qed.

Lemma entry_char m q : m < n -> par m = Some q -> mem m ES = upv m || (mem q ES && adds q m).
Proof.
  intros Hm Hp. pose proof (par_lt c Hwf m q Hm Hp) as Hlt.
  rewrite ES_esk, (fold_char n (Nat.le_refl n) m Hm). unfold fold_formula. rewrite Hp.
  assert (E : (q <? n) = true) by (apply Nat.ltb_lt; lia). rewrite E. cbn [andb].
  rewrite (esk_stable q n) by lia. reflexivity.
Qed.

Lemma entry_root : mem 0 ES = upv 0.
Proof.
  rewrite ES_esk, (fold_char n (Nat.le_refl n) 0 (n_pos c Hwf)). unfold fold_formula. rewrite (par_root c Hwf). apply orb_false_r.
Qed.

(* ---- the equations for the entry set *)

(* some descendant is (an ancestor of) a target iff some child is *)
Lemma upv_desc_children p : p < n ->
  existsb upv (desc c p) = existsb (fun j => mem j (kids p) && upv j) (seq 0 n).
Proof.
  intros Hp. apply bool_eq_iff. rewrite !existsb_exists. split.
  - intros [d [H1 H2]]. apply mem_In in H1. rewrite (mem_desc c Hwf p d Hp) in H1.
    destruct (anc_via_child c Hwf d p H1) as [j [Hj1 Hj2]]. exists j.
    assert (Hjn : j < n) by (apply (child_iff c Hwf p j Hp) in Hj1; tauto).
    split; [apply in_seq; lia|]. rewrite Hj1. cbn [andb]. destruct Hj2 as [->|Hj2]; [assumption|]. now apply (upv_anc d j).
  - intros [j [_ H]]. apply andb_true_iff in H. destruct H as [H1 H2]. exists j. split; [|assumption].
    apply mem_In. rewrite (mem_desc c Hwf p j Hp). now apply (child_anc c Hwf).
Qed.

Lemma no_active_below p : p < n -> mem p cfg = false -> intersects cfg (desc c p) = false /\ intersects X (desc c p) = false.
Proof.
  intros Hp Hc. split.
  - destruct (intersects cfg (desc c p)) eqn:E; [|reflexivity]. apply intersects_true in E. destruct E as [d [H1 H2]].
    apply mem_In in H1, H2. rewrite (mem_desc c Hwf p d Hp) in H2. rewrite (legal_anc d p H1 H2) in Hc. discriminate.
  - destruct (intersects X (desc c p)) eqn:E; [|reflexivity]. apply intersects_true in E. destruct E as [d [H1 H2]].
    apply mem_In in H1, H2. rewrite (mem_desc c Hwf p d Hp) in H2. apply exitset_spec in H1. destruct H1 as [H1 _].
    rewrite (legal_anc d p H1 H2) in Hc. discriminate.
Qed.

(* the decision as the emitted equation takes it: the parent is entered afresh and no sibling is (an ancestor
   of) a target *)
Lemma comp_cond_vhdl p : 1 <= p -> p < n -> typ p = FCompound ->
  comp_cond p =
  (mem p X || negb (mem p cfg)) &&
  forallb (fun j => negb (mem j (kids p)) || (negb (mem j cfg && negb (mem j X)) && negb (upv j))) (seq 0 n).
Proof.
  intros Hp1 Hp Ht. unfold comp_cond. rewrite (upv_desc_children p Hp).
  destruct (mem p cfg) eqn:Ec.
  - destruct (mem p X) eqn:Ex; cbn [orb negb andb].
    + (* exited: every active descendant is exited, and there is one *)
      destruct (legal_comp_child p Ec Ht) as [a [Ha1 Ha2]].
      assert (HaX : mem a X = true) by (apply (exitset_down p a Ex Ha2); now apply (child_anc c Hwf)).
      assert (Hi : intersects X (desc c p) = true).
      { apply intersects_true. exists a. split; [now apply mem_In|]. apply mem_In. rewrite (mem_desc c Hwf p a Hp). now apply (child_anc c Hwf). }
      rewrite Hi, orb_true_r, andb_true_r.
      apply bool_eq_iff. rewrite negb_true_iff, existsb_false_iff, forallb_forall. split.
      * intros H j Hj. specialize (H j Hj). destruct (mem j (kids p)) eqn:Ek; [|reflexivity]. cbn [negb orb andb] in *.
        rewrite H. cbn [negb]. rewrite andb_true_r. destruct (mem j cfg) eqn:Ejc; [|reflexivity]. cbn [andb].
        rewrite (exitset_down p j Ex Ejc); [reflexivity|]. now apply (child_anc c Hwf).
      * intros H j Hj. specialize (H j Hj). destruct (mem j (kids p)); [|reflexivity]. cbn [negb orb andb] in *.
        apply andb_true_iff in H. destruct H as [_ H]. now apply negb_true_iff in H.
    + (* stays active: either a target lies below, or nothing below is exited *)
      destruct (legal_comp_child p Ec Ht) as [a [Ha1 Ha2]].
      assert (Hi : intersects cfg (desc c p) = true).
      { apply intersects_true. exists a. split; [now apply mem_In|]. apply mem_In. rewrite (mem_desc c Hwf p a Hp). now apply (child_anc c Hwf). }
      rewrite Hi. cbn [negb orb].
      destruct (intersects X (desc c p)) eqn:Eix; [|apply andb_false_r].
      rewrite andb_true_r. apply negb_false_iff.
      apply intersects_true in Eix. destruct Eix as [d [H1 H2]]. apply mem_In in H1, H2.
      rewrite (mem_desc c Hwf p d Hp) in H2. apply exitset_spec in H1. destruct H1 as [Hdc [t [dm [Hs [Hdm Hdd]]]]].
      pose proof (sel_lt t Hs) as Ht'. destruct (domain_spec c Hwf t dm Ht' Hdm) as [Hdmn [Hne Htg]].
      (* the domain is p or below p, hence the targets are below p *)
      assert (Hbelow : dm = p \/ mem p (anc dm) = true).
      { destruct (anc_comparable c Hwf d dm p Hdd H2) as [E|[E|E]]; [now left| |now right].
        exfalso. assert (mem p X = true) by (apply exitset_spec; split; [assumption|]; exists t, dm; tauto). congruence. }
      destruct (ft_targets (tr c t)) as [|x tg] eqn:Etg; [congruence|].
      assert (Hx : mem p (anc x) = true).
      { specialize (Htg x (or_introl eq_refl)). destruct Hbelow as [->|Hb]; [assumption|]. now apply (anc_trans c Hwf x p dm). }
      assert (Hux : upv x = true).
      { apply upv_spec. exists x. split; [|now left]. rewrite targets_mem. apply existsb_exists. exists t.
        split; [apply in_seq; lia|]. rewrite Hs, Etg. cbn [mem andb]. now rewrite Nat.eqb_refl. }
      rewrite <- (upv_desc_children p Hp). apply existsb_exists. exists x. split; [|assumption].
      apply mem_In. now rewrite (mem_desc c Hwf p x Hp).
  - (* not active: nothing below is active *)
    destruct (no_active_below p Hp Ec) as [H1 H2]. rewrite H1. cbn [negb orb]. rewrite orb_true_r, andb_true_r. cbn [andb].
    apply bool_eq_iff. rewrite negb_true_iff, existsb_false_iff, forallb_forall. split.
    + intros H j Hj. specialize (H j Hj). destruct (mem j (kids p)) eqn:Ek; [|reflexivity]. cbn [negb orb andb] in *.
      rewrite H. cbn [negb]. rewrite andb_true_r. destruct (mem j cfg) eqn:Ejc; [|reflexivity].
      rewrite (legal_anc j p Ejc) in Ec; [discriminate|]. now apply (child_anc c Hwf).
    + intros H j Hj. specialize (H j Hj). destruct (mem j (kids p)); [|reflexivity]. cbn [negb orb andb] in *.
      apply andb_true_iff in H. destruct H as [_ H]. now apply negb_true_iff in H.
Qed.

Lemma ces_eq i : 1 <= i -> i < n -> beval (snd (eq_ces vh_fixed c i)) sol = mem i ES.
Proof.
  intros H1 Hi. destruct (par_some c Hwf i H1 Hi) as [p [Hp Hlt]].
  assert (Hpn : p < n) by lia.
  assert (Hik : mem i (kids p) = true) by (apply (child_iff c Hwf p i Hpn); auto).
  rewrite (entry_char i p Hi Hp).
  unfold eq_ces. cbn [snd]. rewrite beval_vors. cbn [existsb beval sol]. rewrite orb_false_r.
  destruct (upv i) eqn:Eui; [reflexivity|]. cbn [orb].
  rewrite Hp. unfold adds.
  destruct (typ p) eqn:Et; cbn [is_comp is_par].
  - (* the parent would be atomic *)
    rewrite (typ_leaf c Hwf p Hpn (or_introl Et)) in Hik. discriminate.
  - (* compound parent *)
    destruct (is_default_child c p i) eqn:Ed; cbn [andb]; [|cbn; now rewrite andb_false_r].
    rewrite beval_vands. cbn [forallb beval sol]. rewrite forallb_flat_map.
    destruct p as [|p'].
    + (* children of <scxml>: the root is never entered again; had it a target below, a child would have upv *)
      cbn [andb]. rewrite entry_root. destruct (upv 0) eqn:Eu; [|reflexivity]. cbn [andb]. symmetry.
      unfold comp_cond. apply andb_false_iff. left. apply negb_false_iff.
      apply upv_spec in Eu. destruct Eu as [x [Hx1 [Hx2|Hx2]]].
      * apply targets_range in Hx1. lia.
      * apply existsb_exists. exists x. split; [apply mem_In; now rewrite (mem_desc c Hwf 0 x Hpn)|].
        apply upv_spec. exists x. tauto.
    + destruct (mem (S p') ES) eqn:Ee; cbn [andb]; [|reflexivity].
      rewrite (comp_cond_vhdl (S p')) by (assumption || lia).
      destruct (mem (S p') X || negb (mem (S p') cfg)) eqn:Ea; cbn [andb]; [|reflexivity].
      apply forallb_ext_in. intros j Hj. fold n.
      destruct (j =? i) eqn:Eji.
      * (* the default child itself is exempt in the text: if it is active it is exited with its parent *)
        apply Nat.eqb_eq in Eji. subst j. cbn [forallb]. rewrite Hik, Eui. cbn [negb orb andb].
        symmetry. rewrite andb_true_r. apply negb_true_iff.
        destruct (mem i cfg) eqn:Eic; [|reflexivity]. cbn [andb]. apply negb_false_iff.
        assert (Hia : mem (S p') (anc i) = true) by now apply (child_anc c Hwf).
        apply orb_true_iff in Ea. destruct Ea as [Ea|Ea].
        -- now apply (exitset_down (S p') i).
        -- apply negb_true_iff in Ea. rewrite (legal_anc i (S p') Eic Hia) in Ea. discriminate.
      * destruct (mem j (kids (S p'))); cbn [forallb beval sol vands fold_right negb orb andb vh_default_ignores_targeted vh_fixed];
          [|reflexivity]. now rewrite !andb_true_r.
  - (* parallel parent *)
    cbn [vands fold_right beval sol]. rewrite andb_true_r.
    destruct p as [|p']; [exfalso; now apply (root_not_parallel c Hwf)|]. now rewrite andb_true_r.
  - rewrite (typ_leaf c Hwf p Hpn (or_intror Et)) in Hik. discriminate.
  - pose proof (typ_proper c Hwf p Hpn) as Hpp. rewrite Et in Hpp. discriminate.
  - pose proof (typ_proper c Hwf p Hpn) as Hpp. rewrite Et in Hpp. discriminate.
  - pose proof (typ_proper c Hwf p Hpn) as Hpp. rewrite Et in Hpp. discriminate.
Qed.


(* ---- the remaining equations *)

Lemma entry_eq i : beval (snd (eq_entry i)) sol = sol (SEntry i).
Proof.
  unfold eq_entry. cbn [snd]. rewrite beval_vands. cbn [forallb beval]. rewrite beval_vors. cbn [existsb beval sol].
  now rewrite orb_false_r, andb_true_r.
Qed.

Lemma root_not_exited : mem 0 X = false.
Proof.
  destruct (mem 0 X) eqn:E; [|reflexivity]. apply exitset_spec in E. destruct E as [_ [t [d [_ [_ H]]]]].
  rewrite (anc_root c Hwf) in H. discriminate.
Qed.

Lemma next_eq i : i < n -> beval (snd (eq_next i)) sol = sol (SNext i).
Proof.
  intros Hi. destruct i as [|i'].
  - cbn [eq_next snd beval sol]. rewrite legal_root, root_not_exited. reflexivity.
  - cbn [eq_next snd]. rewrite beval_vors. cbn [existsb beval]. rewrite beval_vands. cbn [forallb beval sol].
    rewrite orb_false_r, andb_true_r. rewrite orb_comm. f_equal. apply andb_comm.
Qed.

(* ---- which signals an equation reads *)

Lemma sigs_map_sig (mk : nat -> signal) l s : In s (sigs (vors (map (fun x => VSig (mk x)) l))) <-> exists x, In x l /\ s = mk x.
Proof.
  rewrite sigs_vors. split.
  - intros [e [H1 H2]]. apply in_map_iff in H1. destruct H1 as [x [<- Hx]]. cbn in H2. destruct H2 as [<-|[]]. eauto.
  - intros [x [Hx ->]]. exists (VSig (mk x)). split; [apply in_map_iff; eauto|now left].
Qed.

Lemma sigs_opt t s : In s (sigs (snd (eq_opt vh_fixed c t))) ->
  (ft_spontaneous (tr c t) = false /\ s = SSpontActive) \/ (ft_spontaneous (tr c t) = true /\ s = SSpontEn) \/
  s = SCond t \/ (exists i, s = SActive i) \/ (exists k, s = SEvent k) \/ (exists j, j < t /\ s = SOpt j).
Proof.
  unfold eq_opt. cbn [snd]. rewrite sigs_vands. intros [e [He Hs]]. cbn [In] in He.
  destruct He as [<-|[<-|[<-|[<-|[<-|[]]]]]].
  - destruct (ft_spontaneous (tr c t)); cbn in Hs; destruct Hs as [<-|[]]; tauto.
  - destruct (ft_cond (tr c t)); cbn in Hs; [destruct Hs as [<-|[]]; tauto|contradiction].
  - cbn in Hs. destruct Hs as [<-|[]]. right; right; right; left. eauto.
  - destruct (ft_spontaneous (tr c t)); cbn [negb] in Hs.
    + cbn in Hs. contradiction.
    + apply sigs_vors in Hs. destruct Hs as [e [He Hs]]. unfold name_matchers in He. apply in_flat_map in He.
      destruct He as [d [_ He]]. apply in_map_iff in He. destruct He as [k [<- _]]. cbn in Hs. destruct Hs as [<-|[]].
      right; right; right; right; left. eauto.
  - cbn [sigs] in Hs. unfold sig_opt in Hs. apply sigs_map_sig in Hs. destruct Hs as [j [Hj ->]].
    apply filter_In in Hj. destruct Hj as [Hj _]. apply in_seq in Hj. right; right; right; right; right. exists j. split; [lia|reflexivity].
Qed.

Lemma sigs_sa s : In s (sigs (snd (eq_spont_active c))) -> exists t, t < T /\ ft_spontaneous (tr c t) = true /\ s = SOpt t.
Proof.
  unfold eq_spont_active, sig_opt. cbn [snd]. rewrite sigs_map_sig. intros [t [Ht ->]]. apply filter_In in Ht.
  destruct Ht as [Ht1 Ht2]. apply in_seq in Ht1. exists t. split; [unfold vt in Ht1; fold T in Ht1; lia|]. tauto.
Qed.

Lemma sigs_completed s : In s (sigs (snd (eq_completed c))) -> exists i, s = SActive i.
Proof. unfold eq_completed. cbn [snd]. rewrite sigs_map_sig. intros [i [_ ->]]. eauto. Qed.

Lemma sigs_exit i s : In s (sigs (snd (eq_exit c i))) -> s = SActive i \/ exists t, t < T /\ s = SOpt t.
Proof.
  unfold eq_exit. cbn [snd]. rewrite sigs_vands. intros [e [He Hs]]. cbn [In] in He. destruct He as [<-|[<-|[]]].
  - cbn in Hs. destruct Hs as [<-|[]]. now left.
  - unfold sig_opt in Hs. apply sigs_map_sig in Hs. destruct Hs as [t [Ht ->]]. apply filter_In in Ht. destruct Ht as [Ht _].
    apply in_seq in Ht. right. exists t. split; [unfold vt in Ht; fold T in Ht; lia|reflexivity].
Qed.

Lemma sigs_up i s : i < n -> In s (sigs (snd (eq_up vh_fixed c i))) ->
  (exists t, t < T /\ s = SOpt t) \/ (exists j, i < j /\ j < n /\ s = SUp j).
Proof.
  intros Hi. unfold eq_up. cbn [snd vh_anc_outer_index vh_fixed]. rewrite sigs_vors. intros [e [He Hs]]. cbn [In] in He.
  destruct He as [<-|[<-|[]]].
  - unfold sig_opt in Hs. apply sigs_map_sig in Hs. destruct Hs as [t [Ht ->]]. apply filter_In in Ht. destruct Ht as [Ht _].
    apply in_seq in Ht. left. exists t. split; [unfold vt in Ht; fold T in Ht; lia|reflexivity].
  - destruct (is_comp (typ i) || is_par (typ i)); [|cbn in Hs; contradiction].
    apply sigs_vors in Hs. destruct Hs as [e [He Hs]]. apply in_flat_map in He. destruct He as [j [Hj He]].
    apply in_seq in Hj. destruct (mem j (kids i)) eqn:Ek; [|contradiction]. destruct He as [<-|[]]. cbn in Hs. destruct Hs as [<-|[]].
    right. exists j. split; [now apply (child_gt c Hwf i j)|]. split; [unfold vn in Hj; fold n in Hj; lia|reflexivity].
Qed.

Lemma sigs_ces i s : 1 <= i -> i < n -> In s (sigs (snd (eq_ces vh_fixed c i))) ->
  s = SUp i \/ (exists p, p < i /\ (s = SEntry p \/ (1 <= p /\ s = SCes p))) \/
  (exists j, j < n /\ (s = SActive j \/ s = SExit j \/ (1 <= j /\ s = SUp j))).
Proof.
  intros H1 Hi. destruct (par_some c Hwf i H1 Hi) as [p [Hp Hlt]].
  unfold eq_ces. cbn [snd]. rewrite sigs_vors. intros [e [He Hs]]. cbn [In] in He. destruct He as [<-|[<-|[]]].
  - cbn in Hs. destruct Hs as [<-|[]]. now left.
  - rewrite Hp in Hs. apply sigs_vands in Hs. destruct Hs as [e [He Hs]].
    destruct (is_comp (typ p)) eqn:Ec.
    + destruct (is_default_child c p i).
      * cbn [In] in He. destruct He as [<-|He].
        -- cbn in Hs. destruct Hs as [<-|[]]. right; left. exists p. tauto.
        -- apply in_flat_map in He. destruct He as [j [Hj He]]. apply in_seq in Hj. unfold vn in Hj. fold n in Hj.
           destruct (j =? i); [contradiction|]. destruct (mem j (kids p)) eqn:Ek; [|contradiction].
           assert (Hpj : p < j) by (apply (child_gt c Hwf p j); [lia|assumption]).
           cbn [vh_default_ignores_targeted vh_fixed In] in He. destruct He as [<-|[<-|[]]].
           ++ cbn in Hs. right; right. exists j. split; [lia|]. destruct Hs as [<-|[<-|[]]]; tauto.
           ++ cbn in Hs. destruct Hs as [<-|[]]. right; right. exists j. split; [lia|]. right; right. split; [lia|reflexivity].
      * cbn [In] in He. destruct He as [<-|[]]. cbn in Hs. contradiction.
    + destruct (is_par (typ p)) eqn:Epar; [|contradiction]. cbn [In] in He. destruct He as [<-|[]]. cbn in Hs. destruct Hs as [<-|[]].
      right; left. exists p. split; [assumption|]. right. split; [|reflexivity].
      destruct p as [|p']; [|lia]. exfalso. apply (root_not_parallel c Hwf). destruct (typ 0); try discriminate. reflexivity.
Qed.

Lemma sigs_entry i s : In s (sigs (snd (eq_entry i))) -> s = SCes i \/ s = SExit i \/ s = SActive i.
Proof. unfold eq_entry. cbn. intuition. Qed.

Lemma sigs_next i s : In s (sigs (snd (eq_next i))) ->
  match i with O => s = SCompleted | _ => s = SCes i \/ s = SExit i \/ s = SActive i end.
Proof. destruct i; cbn; intuition. Qed.


(* ---- looking up an equation of gen_eqs *)

Lemma eq_of_map_none (f : nat -> signal * vexpr) l s :
  (forall j, signal_eqb (fst (f j)) s = false) -> eq_of (map f l) s = None.
Proof.
  intros H. induction l as [|j r IH]; cbn [map eq_of]; [reflexivity|].
  specialize (H j). destruct (f j) as [s' e]. cbn [fst] in H. now rewrite H.
Qed.

Lemma eq_of_map_some (f : nat -> signal * vexpr) l i s :
  (forall j, signal_eqb (fst (f j)) s = (j =? i)) -> In i l -> eq_of (map f l) s = Some (snd (f i)).
Proof.
  intros H. induction l as [|j r IH]; intros Hin; [contradiction|]. cbn [map eq_of].
  pose proof (H j) as Hj. destruct (f j) as [s' e] eqn:Ef. cbn [fst] in Hj. rewrite Hj.
  destruct (j =? i) eqn:E.
  - apply Nat.eqb_eq in E. subst. now rewrite Ef.
  - apply IH. destruct Hin as [->|Hin]; [|assumption]. rewrite Nat.eqb_refl in E. discriminate.
Qed.

Let eqs := gen_eqs vh_fixed c.

Ltac look_skip := rewrite eq_of_map_none by (intros; reflexivity).

Lemma look_opt t : t < T -> eq_of eqs (SOpt t) = Some (snd (eq_opt vh_fixed c t)).
Proof.
  intros Ht. unfold eqs, gen_eqs. rewrite eq_of_app.
  rewrite (eq_of_map_some (eq_opt vh_fixed c) (seq 0 (vt c)) t); [reflexivity| |apply in_seq; unfold vt; fold T; lia].
  intros j. cbn [eq_opt fst signal_eqb]. reflexivity.
Qed.

Lemma look_sa : eq_of eqs SSpontActive = Some (snd (eq_spont_active c)).
Proof. unfold eqs, gen_eqs. rewrite eq_of_app. look_skip. reflexivity. Qed.

Lemma look_exit i : i < n -> eq_of eqs (SExit i) = Some (snd (eq_exit c i)).
Proof.
  intros Hi. unfold eqs, gen_eqs. rewrite eq_of_app. look_skip. rewrite eq_of_app. cbn [eq_of eq_combined eq_spont_active signal_eqb].
  rewrite eq_of_app.
  rewrite (eq_of_map_some (eq_exit c) (seq 0 (vn c)) i); [reflexivity| |apply in_seq; unfold vn; fold n; lia].
  intros j. reflexivity.
Qed.

Lemma look_up i : 1 <= i -> i < n -> eq_of eqs (SUp i) = Some (snd (eq_up vh_fixed c i)).
Proof.
  intros H1 Hi. unfold eqs, gen_eqs. rewrite eq_of_app. look_skip. rewrite eq_of_app. cbn [eq_of eq_combined eq_spont_active signal_eqb].
  rewrite eq_of_app. look_skip. rewrite eq_of_app.
  rewrite (eq_of_map_some (eq_up vh_fixed c) (seq 1 (vn c - 1)) i); [reflexivity| |apply in_seq; unfold vn; fold n; lia].
  intros j. reflexivity.
Qed.

Lemma look_ces i : 1 <= i -> i < n -> eq_of eqs (SCes i) = Some (snd (eq_ces vh_fixed c i)).
Proof.
  intros H1 Hi. unfold eqs, gen_eqs. rewrite eq_of_app. look_skip. rewrite eq_of_app. cbn [eq_of eq_combined eq_spont_active signal_eqb].
  rewrite eq_of_app. look_skip. rewrite eq_of_app. look_skip. rewrite eq_of_app.
  rewrite (eq_of_map_some (eq_ces vh_fixed c) (seq 1 (vn c - 1)) i); [reflexivity| |apply in_seq; unfold vn; fold n; lia].
  intros j. reflexivity.
Qed.

Lemma look_entry i : i < n -> eq_of eqs (SEntry i) = Some (snd (eq_entry i)).
Proof.
  intros Hi. unfold eqs, gen_eqs. rewrite eq_of_app. look_skip. rewrite eq_of_app. cbn [eq_of eq_combined eq_spont_active signal_eqb].
  rewrite eq_of_app. look_skip. rewrite eq_of_app. look_skip. rewrite eq_of_app. look_skip. rewrite eq_of_app.
  rewrite (eq_of_map_some eq_entry (seq 0 (vn c)) i); [reflexivity| |apply in_seq; unfold vn; fold n; lia].
  intros j. reflexivity.
Qed.

Lemma look_next i : i < n -> eq_of eqs (SNext i) = Some (snd (eq_next i)).
Proof.
  intros Hi. unfold eqs, gen_eqs. rewrite eq_of_app. look_skip. rewrite eq_of_app. cbn [eq_of eq_combined eq_spont_active signal_eqb].
  rewrite eq_of_app. look_skip. rewrite eq_of_app. look_skip. rewrite eq_of_app. look_skip. rewrite eq_of_app. look_skip. rewrite eq_of_app.
  rewrite (eq_of_map_some eq_next (seq 0 (vn c)) i); [reflexivity| |apply in_seq; unfold vn; fold n; lia].
  intros j. destruct j; reflexivity.
Qed.

Lemma look_completed : eq_of eqs SCompleted = Some (snd (eq_completed c)).
Proof.
  unfold eqs, gen_eqs. rewrite eq_of_app. look_skip. rewrite eq_of_app. cbn [eq_of eq_combined eq_spont_active signal_eqb].
  rewrite eq_of_app. look_skip. rewrite eq_of_app. look_skip. rewrite eq_of_app. look_skip. rewrite eq_of_app. look_skip. rewrite eq_of_app.
  rewrite eq_of_map_none by (intros j; destruct j; reflexivity). reflexivity.
Qed.


(* ---- evaluation in the order vh_order *)

Lemma ok_weaken r (P Q : signal -> Prop) : ok sol r P -> (forall x, Q x -> P x) -> ok sol r Q.
Proof. intros H HQ x Hx. apply H. now apply HQ. Qed.

Lemma ok_upd r s (P : signal -> Prop) : ok sol r P -> ok sol (upd r s (Some (sol s))) (fun x => P x \/ x = s).
Proof.
  intros Hok x Hx. destruct (signal_eqb s x) eqn:E.
  - apply signal_eqb_eq in E. subst. apply upd_same.
  - unfold upd. rewrite E. destruct Hx as [Hx|Hx]; [now apply Hok|]. subst. rewrite signal_eqb_refl in E. discriminate.
Qed.

Lemma step_ok r s e (P : signal -> Prop) :
  ok sol r P -> eq_of eqs s = Some e -> (forall s', In s' (sigs e) -> P s') -> beval e sol = sol s ->
  ok sol (eval_step eqs r s) (fun x => P x \/ x = s).
Proof.
  intros Hok He Hs Hb. unfold eval_step. rewrite He.
  rewrite (teval_agrees sol e r) by (intros s' Hs'; apply Hok; now apply Hs). rewrite Hb. now apply ok_upd.
Qed.

Lemma eval_order_app L1 L2 r : eval_order eqs (L1 ++ L2) r = eval_order eqs L2 (eval_order eqs L1 r).
Proof. unfold eval_order. apply fold_left_app. Qed.

Lemma eval_map_ok (mk : nat -> signal) (l : list nat) (P : signal -> Prop) r :
  ok sol r P ->
  (forall l1 i l2, l = l1 ++ i :: l2 ->
     exists e, eq_of eqs (mk i) = Some e /\
               forall r', ok sol r' (fun x => P x \/ exists j, In j l1 /\ x = mk j) -> teval e r' = Some (sol (mk i))) ->
  ok sol (eval_order eqs (map mk l) r) (fun x => P x \/ exists j, In j l /\ x = mk j).
Proof.
  intros Hok Hob.
  apply (ok_weaken _ (fun x => P x \/ In x (map mk l))).
  - apply eval_order_ok; [assumption|]. intros pre s post HL.
    apply map_eq_app in HL. destruct HL as [l1 [l2' [Hl [Hpre Hrest]]]].
    destruct l2' as [|i l2]; [discriminate|]. cbn [map] in Hrest. inversion Hrest; subst.
    destruct (Hob l1 i l2 eq_refl) as [e [He Hev']]. exists e. split; [assumption|].
    intros r' Hr'. apply Hev'. apply (ok_weaken _ _ _ Hr'). intros x [Hx|[j [Hj ->]]]; [now left|]. right. now apply in_map.
  - intros x [Hx|[j [Hj ->]]]; [now left|]. right. now apply in_map.
Qed.

Lemma filter_seq_before (f : nat -> bool) : forall len a l1 i l2,
  filter f (seq a len) = l1 ++ i :: l2 ->
  a <= i /\ i < a + len /\ f i = true /\ forall j, a <= j -> j < i -> f j = true -> In j l1.
Proof.
  induction len as [|len IH]; intros a l1 i l2 H; cbn [seq filter] in H.
  - destruct l1; discriminate.
  - destruct (f a) eqn:Ea.
    + destruct l1 as [|x l1'].
      * cbn [app] in H. inversion H; subst. split; [lia|]. split; [lia|]. split; [assumption|]. intros j H1 H2 _. lia.
      * cbn [app] in H. inversion H; subst. destruct (IH (S x) l1' i l2 H2) as [H3 [H4 [H5 H6]]].
        split; [lia|]. split; [lia|]. split; [assumption|]. intros j Hj1 Hj2 Hj3.
        destruct (Nat.eq_dec j x) as [->|Hne]; [now left|]. right. apply H6; [lia|assumption|assumption].
    + destruct (IH (S a) l1 i l2 H) as [H3 [H4 [H5 H6]]]. split; [lia|]. split; [lia|]. split; [assumption|].
      intros j Hj1 Hj2 Hj3. destruct (Nat.eq_dec j a) as [->|Hne]; [congruence|]. apply H6; [lia|assumption|assumption].
Qed.

Lemma rev_seq_before : forall len a l1 i l2,
  rev (seq a len) = l1 ++ i :: l2 -> a <= i /\ i < a + len /\ forall j, i < j -> j < a + len -> In j l1.
Proof.
  induction len as [|len IH]; intros a l1 i l2 H.
  - cbn in H. destruct l1; discriminate.
  - rewrite seq_S, rev_app_distr in H. cbn [rev app] in H. destruct l1 as [|x l1'].
    + cbn [app] in H. inversion H; subst. split; [lia|]. split; [lia|]. intros j H1 H2. lia.
    + cbn [app] in H. inversion H; subst. destruct (IH a l1' i l2 H2) as [H3 [H4 H5]]. split; [lia|]. split; [lia|].
      intros j Hj1 Hj2. destruct (Nat.eq_dec j (a + len)) as [->|Hne]; [now left|]. right. apply H5; lia.
Qed.

Lemma tand_false_r x : tand x (Some false) = Some false.
Proof. destruct x as [[|]|]; reflexivity. Qed.

Lemma teval_vors_false l r : (forall e, In e l -> teval e r = Some false) -> teval (vors l) r = Some false.
Proof.
  induction l as [|x l' IH]; intros H; cbn [vors fold_right teval]; [reflexivity|].
  rewrite (H x) by now left. fold (vors l'). rewrite IH by (intros; apply H; now right). reflexivity.
Qed.

Lemma sel_event_spont t e : ev = Some e -> ft_spontaneous (tr c t) = true -> mem t sel = false.
Proof.
  intros He Hs. destruct (mem t sel) eqn:E; [|reflexivity]. apply sel_enabled in E. unfold enabled, vh_enabled in E.
  rewrite He, Hs in E. cbn [negb andb] in E. rewrite andb_false_r in E. discriminate.
Qed.

Lemma sel_spont_evented t : ev = None -> ft_spontaneous (tr c t) = false -> mem t sel = false.
Proof.
  intros He Hs. destruct (mem t sel) eqn:E; [|reflexivity]. apply sel_enabled in E. unfold enabled, vh_enabled in E.
  rewrite He, Hs in E. rewrite andb_false_r in E. discriminate.
Qed.

Definition K1 (x : signal) : Prop := is_input x \/ (exists t, t < T /\ x = SOpt t) \/ x = SSpontActive.

Definition sel_order : list signal :=
  let ts := seq 0 (ntrans c) in
  let sp := filter (fun ti => ft_spontaneous (tr c ti)) ts in
  let evd := filter (fun ti => negb (ft_spontaneous (tr c ti))) ts in
  match ev with
  | Some _ => map SOpt sp ++ [SSpontActive] ++ map SOpt evd
  | None => map SOpt evd ++ map SOpt sp ++ [SSpontActive]
  end.

Lemma phase_select : ok sol (eval_order eqs sel_order (vh_inputs c cfg ev val)) K1.
Proof.
  unfold sel_order.
  set (sp := filter (fun ti => ft_spontaneous (tr c ti)) (seq 0 (ntrans c))).
  set (evd := filter (fun ti => negb (ft_spontaneous (tr c ti))) (seq 0 (ntrans c))).
  assert (Hsp : forall t, In t sp <-> t < T /\ ft_spontaneous (tr c t) = true).
  { intros t. unfold sp. rewrite filter_In, in_seq. fold T. split; intros [H1 H2]; split; auto; lia. }
  assert (Hevd : forall t, In t evd <-> t < T /\ ft_spontaneous (tr c t) = false).
  { intros t. unfold evd. rewrite filter_In, in_seq, negb_true_iff. fold T. split; intros [H1 H2]; split; auto; lia. }
  destruct (option_cases ev) as [He|[e He]]; rewrite He.
  - (* the spontaneous step: no event signal, so every eventful transition is '0' whatever spontaneous_active is *)
    rewrite !eval_order_app.
    set (r1 := eval_order eqs (map SOpt evd) (vh_inputs c cfg None val)).
    assert (H1 : ok sol r1 (fun x => is_input x \/ exists j, In j evd /\ x = SOpt j)).
    { unfold r1. rewrite <- He. apply eval_map_ok; [apply inputs_ok|]. intros l1 i l2 Hl.
      assert (Hi : In i evd) by (rewrite Hl; apply in_or_app; right; now left). apply Hevd in Hi. destruct Hi as [HiT His].
      exists (snd (eq_opt vh_fixed c i)). split; [now apply look_opt|]. intros r' Hr'.
      cbn [sol]. rewrite (sel_spont_evented i He His).
      unfold eq_opt. cbn [snd]. rewrite His. cbn [negb vands fold_right teval].
      assert (Hm : teval (vors (name_matchers vh_fixed c (tr c i))) r' = Some false).
      { apply teval_vors_false. intros x Hx. unfold name_matchers in Hx. apply in_flat_map in Hx. destruct Hx as [d [_ Hx]].
        apply in_map_iff in Hx. destruct Hx as [k [<- _]]. cbn [teval]. rewrite (Hr' (SEvent k)) by (left; exact I).
        cbn [sol]. now rewrite He. }
      fold (vors (name_matchers vh_fixed c (tr c i))). rewrite Hm. cbn [tand]. now rewrite !tand_false_r. }
    set (r2 := eval_order eqs (map SOpt sp) r1).
    assert (H2 : ok sol r2 (fun x => (is_input x \/ exists j, In j evd /\ x = SOpt j) \/ exists j, In j sp /\ x = SOpt j)).
    { apply eval_map_ok; [exact H1|]. intros l1 i l2 Hl.
      assert (Hi : In i sp) by (rewrite Hl; apply in_or_app; right; now left). apply Hsp in Hi. destruct Hi as [HiT His].
      exists (snd (eq_opt vh_fixed c i)). split; [now apply look_opt|]. intros r' Hr'.
      rewrite (teval_agrees sol); [now rewrite opt_eq|]. intros s' Hs'. apply Hr'.
      apply sigs_opt in Hs'. destruct Hs' as [[Hc _]|[[_ ->]|[->|[[k ->]|[[k ->]|[j [Hj ->]]]]]]]; try congruence;
        try (left; left; exact I).
      destruct (ft_spontaneous (tr c j)) eqn:Ej.
      - right. exists j. split; [|reflexivity]. unfold sp in Hl. apply filter_seq_before in Hl. destruct Hl as [_ [_ [_ Hl]]].
        apply Hl; [lia|assumption|assumption].
      - left. right. exists j. split; [|reflexivity]. apply Hevd. split; [lia|assumption]. }
    cbn [eval_order fold_left]. fold (eval_order eqs (map SOpt sp) r1). fold r2.
    assert (H3 : ok sol (eval_step eqs r2 SSpontActive)
                    (fun x => ((is_input x \/ exists j, In j evd /\ x = SOpt j) \/ exists j, In j sp /\ x = SOpt j) \/ x = SSpontActive)).
    { apply (step_ok r2 SSpontActive (snd (eq_spont_active c))); [exact H2|apply look_sa| |apply spont_active_eq].
      intros s' Hs'. apply sigs_sa in Hs'. destruct Hs' as [t [Ht [Hs ->]]]. right. exists t. split; [|reflexivity]. apply Hsp. tauto. }
    apply (ok_weaken _ _ _ H3). intros x [Hx|[[t [Ht ->]]| -> ]]; [left; left; now left| |now right].
    destruct (ft_spontaneous (tr c t)) eqn:Es.
    + left. right. exists t. split; [|reflexivity]. apply Hsp. tauto.
    + left. left. right. exists t. split; [|reflexivity]. apply Hevd. tauto.
  - (* an event is pending: spontaneous_en is '0', so every eventless transition is '0' *)
    rewrite !eval_order_app.
    set (r1 := eval_order eqs (map SOpt sp) (vh_inputs c cfg (Some e) val)).
    assert (H1 : ok sol r1 (fun x => is_input x \/ exists j, In j sp /\ x = SOpt j)).
    { unfold r1. rewrite <- He. apply eval_map_ok; [apply inputs_ok|]. intros l1 i l2 Hl.
      assert (Hi : In i sp) by (rewrite Hl; apply in_or_app; right; now left). apply Hsp in Hi. destruct Hi as [HiT His].
      exists (snd (eq_opt vh_fixed c i)). split; [now apply look_opt|]. intros r' Hr'.
      cbn [sol]. rewrite (sel_event_spont i e He His).
      unfold eq_opt. cbn [snd]. rewrite His. cbn [negb vands fold_right teval].
      rewrite (Hr' SSpontEn) by (left; exact I). cbn [sol]. rewrite He. reflexivity. }
    cbn [eval_order fold_left app]. fold (eval_order eqs (map SOpt sp) (vh_inputs c cfg (Some e) val)). fold r1.
    assert (H2 : ok sol (eval_step eqs r1 SSpontActive) (fun x => (is_input x \/ exists j, In j sp /\ x = SOpt j) \/ x = SSpontActive)).
    { apply (step_ok r1 SSpontActive (snd (eq_spont_active c))); [exact H1|apply look_sa| |apply spont_active_eq].
      intros s' Hs'. apply sigs_sa in Hs'. destruct Hs' as [t [Ht [Hs ->]]]. right. exists t. split; [|reflexivity]. apply Hsp. tauto. }
    fold (eval_order eqs (map SOpt evd) (eval_step eqs r1 SSpontActive)).
    set (r2 := eval_step eqs r1 SSpontActive) in *.
    assert (H3 : ok sol (eval_order eqs (map SOpt evd) r2)
                    (fun x => ((is_input x \/ exists j, In j sp /\ x = SOpt j) \/ x = SSpontActive) \/ exists j, In j evd /\ x = SOpt j)).
    { apply eval_map_ok; [exact H2|]. intros l1 i l2 Hl.
      assert (Hi : In i evd) by (rewrite Hl; apply in_or_app; right; now left). apply Hevd in Hi. destruct Hi as [HiT His].
      exists (snd (eq_opt vh_fixed c i)). split; [now apply look_opt|]. intros r' Hr'.
      rewrite (teval_agrees sol); [now rewrite opt_eq|]. intros s' Hs'. apply Hr'.
      apply sigs_opt in Hs'. destruct Hs' as [[_ ->]|[[Hc _]|[->|[[k ->]|[[k ->]|[j [Hj ->]]]]]]]; try congruence;
        try (left; left; left; exact I); try (left; now right).
      destruct (ft_spontaneous (tr c j)) eqn:Ej.
      - left. left. right. exists j. split; [|reflexivity]. apply Hsp. split; [lia|assumption].
      - right. exists j. split; [|reflexivity]. unfold evd in Hl. apply filter_seq_before in Hl. destruct Hl as [_ [_ [_ Hl]]].
        apply Hl; [lia|assumption|now rewrite Ej]. }
    apply (ok_weaken _ _ _ H3). intros x [Hx|[[t [Ht ->]]| -> ]]; [left; left; now left| |left; now right].
    destruct (ft_spontaneous (tr c t)) eqn:Es.
    + left. left. right. exists t. split; [|reflexivity]. apply Hsp. tauto.
    + right. exists t. split; [|reflexivity]. apply Hevd. tauto.
Qed.


Definition K2 (x : signal) : Prop := K1 x \/ x = SCompleted.
Definition K3 (x : signal) : Prop := K2 x \/ exists i, i < n /\ x = SExit i.
Definition K4 (x : signal) : Prop := K3 x \/ exists i, 1 <= i /\ i < n /\ x = SUp i.
Definition K5 (k : nat) (x : signal) : Prop :=
  K4 x \/ (exists i, 1 <= i /\ i < k /\ x = SCes i) \/ (exists i, i < k /\ x = SEntry i).
Definition K6 (x : signal) : Prop := K5 n x \/ exists i, i < n /\ x = SNext i.

Lemma K1_input x : is_input x -> K1 x. Proof. intros H. now left. Qed.

Lemma phase_completed r : ok sol r K1 -> ok sol (eval_step eqs r SCompleted) K2.
Proof.
  intros H. apply (step_ok r SCompleted (snd (eq_completed c)) K1 H look_completed).
  - intros s' Hs'. apply sigs_completed in Hs'. destruct Hs' as [i ->]. apply K1_input. exact I.
  - apply completed_eq.
Qed.

Lemma phase_exit r : ok sol r K2 -> ok sol (eval_order eqs (map SExit (seq 0 n)) r) K3.
Proof.
  intros H. apply (ok_weaken _ (fun x => K2 x \/ exists j, In j (seq 0 n) /\ x = SExit j)).
  - apply eval_map_ok; [exact H|]. intros l1 i l2 Hl.
    assert (Hi : In i (seq 0 n)) by (rewrite Hl; apply in_or_app; right; now left). apply in_seq in Hi.
    exists (snd (eq_exit c i)). split; [apply look_exit; lia|]. intros r' Hr'.
    rewrite (teval_agrees sol); [now rewrite exit_eq|]. intros s' Hs'. apply Hr'. left.
    apply sigs_exit in Hs'. destruct Hs' as [ -> | [t [Ht ->]] ].
    + left. apply K1_input. exact I.
    + left. right. left. eauto.
  - intros x [Hx|[i [Hi ->]]]; [now left|]. right. exists i. split; [|reflexivity]. apply in_seq. lia.
Qed.

Lemma phase_up r : ok sol r K3 -> ok sol (eval_order eqs (map SUp (rev (seq 1 (n - 1)))) r) K4.
Proof.
  intros H. pose proof (n_pos c Hwf) as Hn. fold n in Hn.
  apply (ok_weaken _ (fun x => K3 x \/ exists j, In j (rev (seq 1 (n - 1))) /\ x = SUp j)).
  - apply eval_map_ok; [exact H|]. intros l1 i l2 Hl.
    apply rev_seq_before in Hl. destruct Hl as [Hi1 [Hi2 Hbefore]].
    exists (snd (eq_up vh_fixed c i)). split; [apply look_up; lia|]. intros r' Hr'.
    rewrite (teval_agrees sol); [rewrite up_eq by lia; reflexivity|]. intros s' Hs'. apply Hr'.
    apply sigs_up in Hs'; [|lia]. destruct Hs' as [[t [Ht ->]]|[j [Hj1 [Hj2 ->]]]].
    + left. left. left. right. left. eauto.
    + right. exists j. split; [|reflexivity]. apply Hbefore; lia.
  - intros x [Hx|[i [Hi1 [Hi2 ->]]]]; [now left|]. right. exists i. split; [|reflexivity]. apply -> in_rev. apply in_seq. lia.
Qed.

Definition entry_block (i : nat) : list signal := match i with O => [SEntry 0] | _ => [SCes i; SEntry i] end.

Lemma phase_entry : forall k, k <= n -> forall r, ok sol r K4 ->
  ok sol (eval_order eqs (flat_map entry_block (seq 0 k)) r) (K5 k).
Proof.
  induction k as [|k IH]; intros Hk r Hr.
  - cbn [seq flat_map eval_order fold_left]. apply (ok_weaken _ _ _ Hr). intros x [Hx|[[i [_ [Hi _]]]|[i [Hi _]]]]; [assumption|lia|lia].
  - rewrite seq_S, flat_map_app, eval_order_app. cbn [flat_map Nat.add app]. rewrite app_nil_r.
    specialize (IH (Nat.le_trans _ _ _ (Nat.le_succ_diag_r k) Hk) r Hr).
    set (r1 := eval_order eqs (flat_map entry_block (seq 0 k)) r) in *.
    assert (Hkn : k < n) by lia.
    assert (Hentry : forall r2 (P : signal -> Prop), ok sol r2 P -> (forall x, K5 k x -> P x) ->
              match k with O => True | _ => P (SCes k) end ->
              ok sol (eval_step eqs r2 (SEntry k)) (fun x => P x \/ x = SEntry k)).
    { intros r2 P H2 HP Hces. apply (step_ok r2 (SEntry k) (snd (eq_entry k)) P H2 (look_entry k Hkn)); [|apply entry_eq].
      intros s' Hs'. apply sigs_entry in Hs'. destruct Hs' as [ -> | [ -> | -> ] ].
      - destruct k as [|k']; [|exact Hces]. apply HP. left. left. left. left. apply K1_input. exact I.
      - apply HP. left. left. right. eauto.
      - apply HP. left. left. left. left. apply K1_input. exact I. }
    destruct k as [|k'].
    + cbn [entry_block eval_order fold_left].
      apply (ok_weaken _ _ _ (Hentry r1 (K5 0) IH (fun x H => H) I)).
      intros x [Hx|[[i [Hi1 [Hi2 _]]]|[i [Hi ->]]]]; [left; now left|lia|]. right. f_equal. lia.
    + cbn [entry_block eval_order fold_left].
      assert (H1 : ok sol (eval_step eqs r1 (SCes (S k'))) (fun x => K5 (S k') x \/ x = SCes (S k'))).
      { apply (step_ok r1 (SCes (S k')) (snd (eq_ces vh_fixed c (S k'))) (K5 (S k')) IH); [apply look_ces; lia| |].
        - intros s' Hs'. apply sigs_ces in Hs'; [|lia|assumption].
          destruct Hs' as [->|[[p [Hp [ -> | [Hp1 ->] ]]]|[j [Hj [ -> | [ -> | [Hj1 ->] ] ]]]]].
          + left. right. exists (S k'). split; [lia|]. split; [assumption|reflexivity].
          + right. right. eauto.
          + right. left. exists p. split; [assumption|]. split; [assumption|reflexivity].
          + left. left. left. left. apply K1_input. exact I.
          + left. left. right. eauto.
          + left. right. exists j. split; [assumption|]. split; [assumption|reflexivity].
        - rewrite ces_eq by (lia || assumption). reflexivity. }
      pose proof (Hentry _ _ H1 (fun x H => or_introl H) (or_intror eq_refl)) as H2.
      apply (ok_weaken _ _ _ H2).
      intros x [Hx|[[i [Hi1 [Hi2 ->]]]|[i [Hi ->]]]].
      * left. left. now left.
      * destruct (Nat.eq_dec i (S k')) as [->|Hne]; [left; now right|]. left. left. right. left. exists i. split; [assumption|]. split; [lia|reflexivity].
      * destruct (Nat.eq_dec i (S k')) as [->|Hne]; [now right|]. left. left. right. right. exists i. split; [lia|reflexivity].
Qed.

Lemma phase_next r : ok sol r (K5 n) -> ok sol (eval_order eqs (map SNext (seq 0 n)) r) K6.
Proof.
  intros H. apply (ok_weaken _ (fun x => K5 n x \/ exists j, In j (seq 0 n) /\ x = SNext j)).
  - apply eval_map_ok; [exact H|]. intros l1 i l2 Hl.
    assert (Hi : In i (seq 0 n)) by (rewrite Hl; apply in_or_app; right; now left). apply in_seq in Hi.
    exists (snd (eq_next i)). split; [apply look_next; lia|]. intros r' Hr'.
    rewrite (teval_agrees sol); [rewrite next_eq by lia; reflexivity|]. intros s' Hs'. apply Hr'. left.
    apply sigs_next in Hs'. destruct i as [|i'].
    + subst s'. left. left. left. now right.
    + destruct Hs' as [ -> | [ -> | -> ] ].
      * right. left. exists (S i'). split; [lia|]. split; [lia|reflexivity].
      * left. left. right. exists (S i'). split; [lia|reflexivity].
      * left. left. left. left. apply K1_input. exact I.
  - intros x [Hx|[i [Hi ->]]]; [now left|]. right. exists i. split; [|reflexivity]. apply in_seq. lia.
Qed.

Lemma vh_order_blocks :
  vh_order c ev = sel_order ++ [SCompleted] ++ map SExit (seq 0 n) ++ map SUp (rev (seq 1 (n - 1))) ++
                  flat_map entry_block (seq 0 n) ++ map SNext (seq 0 n).
Proof. reflexivity. Qed.

Lemma eval_order_single s r : eval_order eqs [s] r = eval_step eqs r s.
Proof. reflexivity. Qed.

Lemma eval_all : ok sol (eval_order eqs (vh_order c ev) (vh_inputs c cfg ev val)) K6.
Proof.
  rewrite vh_order_blocks. rewrite !eval_order_app. rewrite eval_order_single.
  apply phase_next. apply (phase_entry n (Nat.le_refl n)). apply phase_up. apply phase_exit.
  apply phase_completed. apply phase_select.
Qed.

Lemma vhdl_next_correct_situation :
  eval_eqs c (gen_eqs vh_fixed c) cfg ev val = Some (next_config c cfg ev val).
Proof.
  unfold eval_eqs, read_next. fold eqs.
  set (r := eval_order eqs (vh_order c ev) (vh_inputs c cfg ev val)).
  assert (Hr : forall i, In i (seq 0 (nstates c)) -> r (SNext i) = Some (sol (SNext i))).
  { intros i Hi. apply in_seq in Hi. apply eval_all. right. exists i. split; [fold n in Hi; lia|reflexivity]. }
  assert (Hall : forallb (fun i => match r (SNext i) with Some _ => true | None => false end) (seq 0 (nstates c)) = true).
  { apply forallb_forall. intros i Hi. now rewrite (Hr i Hi). }
  rewrite Hall. f_equal. unfold next_config. apply filter_ext_in. intros i Hi. rewrite (Hr i Hi). cbn [sol].
  fold sel. fold X. fold TG. fold ES. destruct ((mem i cfg && negb (mem i X)) || mem i ES); reflexivity.
Qed.

End Situation.

(* ================================================================== the theorem, unbounded *)

(* For every flat chart of the fragment, every legal configuration in which the machine is running, the
   spontaneous step or any event of the document, and every valuation of the condition inputs: the repaired
   generator's equations evaluate to a definite next configuration, and it is the reference's. *)
Lemma vhdl_next_correct_lemma : forall c cfg ev val,
  vhdl_fragment c -> legal_configb c cfg = true -> vh_running c cfg = true -> vh_event_ok c ev = true ->
  eval_eqs c (gen_eqs vh_fixed c) cfg ev val = Some (next_config c cfg ev val).
Proof. intros c cfg ev val Hwf Hl Hr He. now apply vhdl_next_correct_situation. Qed.

(* ================================================================== the order is only a device *)

(* ternary evaluation never contradicts a total assignment it approximates *)
Lemma teval_sound (tot : signal -> bool) e r :
  (forall s b, r s = Some b -> tot s = b) -> forall b, teval e r = Some b -> beval e tot = b.
Proof.
  intros Hr. induction e as [s|b0|a IHa|a IHa b0 IHb|a IHa b0 IHb]; intros b H; cbn [teval beval] in *.
  - now apply Hr.
  - congruence.
  - destruct (teval a r) as [x|]; [|discriminate]. cbn in H. inversion H. now rewrite (IHa x eq_refl).
  - destruct (teval a r) as [[|]|] eqn:Ea, (teval b0 r) as [[|]|] eqn:Eb; cbn in H; try discriminate; inversion H; subst;
      try rewrite (IHa _ eq_refl); try rewrite (IHb _ eq_refl); try reflexivity; try apply andb_false_r.
  - destruct (teval a r) as [[|]|] eqn:Ea, (teval b0 r) as [[|]|] eqn:Eb; cbn in H; try discriminate; inversion H; subst;
      try rewrite (IHa _ eq_refl); try rewrite (IHb _ eq_refl); try reflexivity; try apply orb_true_r.
Qed.

(* whatever the order, a value the pass determines is the value in EVERY total solution of the equation
   system that agrees with the inputs *)
Lemma eval_order_sound (eqs : list (signal * vexpr)) (tot : signal -> bool) :
  (forall s e, eq_of eqs s = Some e -> tot s = beval e tot) ->
  forall order r, (forall s b, r s = Some b -> tot s = b) ->
  forall s b, eval_order eqs order r s = Some b -> tot s = b.
Proof.
  intros Hsol. induction order as [|x order IH]; intros r Hr s b H; cbn [eval_order fold_left] in H.
  - now apply Hr.
  - apply (IH (eval_step eqs r x)); [|exact H]. clear H s b. intros s b H. unfold eval_step in H.
    destruct (eq_of eqs x) as [e|] eqn:Ee; [|now apply Hr].
    unfold upd in H. destruct (signal_eqb x s) eqn:Exs; [|now apply Hr].
    apply signal_eqb_eq in Exs. subst s. rewrite (Hsol x e Ee). now apply (teval_sound tot e r).
Qed.

(* hence: every consistent total valuation of the emitted net (a state in which the concurrent assignments are
   stable) shows the reference's next configuration on state_next_* *)
Lemma vhdl_solution_unique_lemma : forall c cfg ev val (tot : signal -> bool),
  vhdl_fragment c -> legal_configb c cfg = true -> vh_running c cfg = true -> vh_event_ok c ev = true ->
  (forall s b, vh_inputs c cfg ev val s = Some b -> tot s = b) ->
  (forall s e, eq_of (gen_eqs vh_fixed c) s = Some e -> tot s = beval e tot) ->
  filter (fun i => tot (SNext i)) (seq 0 (nstates c)) = next_config c cfg ev val.
Proof.
  intros c cfg ev val tot Hwf Hl Hr He Hin Hsol.
  pose proof (vhdl_next_correct_lemma c cfg ev val Hwf Hl Hr He) as H. unfold eval_eqs, read_next in H.
  set (r := eval_order (gen_eqs vh_fixed c) (vh_order c ev) (vh_inputs c cfg ev val)) in *.
  destruct (forallb (fun i => match r (SNext i) with Some _ => true | None => false end) (seq 0 (nstates c))) eqn:Ea; [|discriminate].
  injection H as H'. rewrite <- H'. apply filter_ext_in. intros i Hi.
  rewrite forallb_forall in Ea. specialize (Ea i Hi). destruct (r (SNext i)) as [b|] eqn:Eb; [|discriminate].
  rewrite (eval_order_sound (gen_eqs vh_fixed c) tot Hsol (vh_order c ev) (vh_inputs c cfg ev val) Hin (SNext i) b Eb).
  destruct b; reflexivity.
Qed.

(* ================================================================== the reference is Fast.v's *)

(* the entry set of the reference is FastMicroStep's ESTABLISH_ENTRYSET (Fast.fentry_set) on charts without
   history and <initial> states *)
Lemma entryset_is_fast c cfg exitset targets :
  (forall i, i < nstates c -> proper_type (fs_type (st c i)) = true) ->
  vh_entryset c cfg exitset targets = fst (fentry_set c cfg exitset [] targets []).
Proof.
  intros Hp. unfold vh_entryset, fentry_set, fn.
  assert (H : forall l es, (forall i, In i l -> i < nstates c) ->
            fold_left (fdescend_one c cfg exitset []) l (es, []) = (fold_left (vdescend_one c cfg exitset) l es, [])).
  { induction l as [|i l IH]; intros es Hl; cbn [fold_left]; [reflexivity|].
    assert (Hs : fdescend_one c cfg exitset [] (es, []) i = (vdescend_one c cfg exitset es i, [])).
    { unfold fdescend_one, vdescend_one. destruct (mem i es); cbn [negb]; [|reflexivity].
      specialize (Hp i (Hl i (or_introl eq_refl))).
      destruct (fs_type (st c i)); try discriminate; try reflexivity.
      destruct (negb (intersects es (desc c i)) && (negb (intersects cfg (desc c i)) || intersects exitset (desc c i))); reflexivity. }
    rewrite Hs. apply IH. intros j Hj. apply Hl. now right. }
  rewrite H; [reflexivity|]. intros i Hi. apply in_seq in Hi. lia.
Qed.

(* ================================================================== witnesses *)

Definition mk_state (sid : N) (trans : list ttrans) (kids : list tree) : tree :=
  TNode KState sid None trans [] [] [] kids.
Definition mk_tr (vid : N) (ev : option bytes) (cond : option bexpr) (targets : option (list N)) (internal : bool) : ttrans :=
  {| tt_vid := vid; tt_event := ev; tt_cond := cond; tt_targets := targets; tt_internal := internal; tt_body := [] |}.

Definition ev_e : bytes := [101%N].
Definition ev_f : bytes := [102%N].

(* A: <state s1><state s2><transition event="e" target="s4"/></state></state><state s3><state s4/></state> *)
Definition wit_anc : fchart :=
  flatten false
    (TNode KScxml 0 None [] [] [] []
       [ mk_state 1 [] [ mk_state 2 [mk_tr 101 (Some ev_e) None (Some [4%N]) false] [] ];
         mk_state 3 [] [ mk_state 4 [] [] ] ]).

(* B: <state s1><transition event="e" target="s4"/></state><state s2><state s3/><state s4/></state> *)
Definition wit_default : fchart :=
  flatten false
    (TNode KScxml 0 None [] [] [] []
       [ mk_state 1 [mk_tr 101 (Some ev_e) None (Some [4%N]) false] [];
         mk_state 2 [] [ mk_state 3 [] []; mk_state 4 [] [] ] ]).

(* M: <state s1><transition event="e.*" target="s2"/></state><state s2/> *)
Definition wit_dotstar : fchart :=
  flatten false
    (TNode KScxml 0 None [] [] [] []
       [ mk_state 1 [mk_tr 101 (Some [101%N; 46%N; 42%N]) None (Some [2%N]) false] [];
         mk_state 2 [] [] ]).

(* a chart with two regions, a final state, an internal transition, a condition input, a descriptor list and an
   eventless transition conflicting with an earlier eventful one (the loop through spontaneous_active) *)
Definition wit_par : fchart :=
  flatten false
    (TNode KScxml 0 None [] [] [] []
       [ TNode KParallel 1 None [] [] [] []
           [ mk_state 2 [mk_tr 105 (Some [101%N; 32%N; 102%N]) None (Some [4%N]) true]
               [ mk_state 3 [mk_tr 101 (Some ev_e) None (Some [4%N]) false;
                             mk_tr 102 None (Some (BIn 7)) (Some [4%N]) false] [];
                 mk_state 4 [] [] ];
             mk_state 5 []
               [ mk_state 6 [mk_tr 103 (Some ev_e) None (Some [7%N]) false;
                             mk_tr 104 (Some ev_f) None (Some [8%N]) false] [];
                 mk_state 7 [] [] ] ];
         TNode KFinal 8 None [] [] [] [] [] ]).

Lemma wit_anc_fragment : vh_wfb wit_anc = true. Proof. vm_compute. reflexivity. Qed.
Lemma wit_default_fragment : vh_wfb wit_default = true. Proof. vm_compute. reflexivity. Qed.
Lemma wit_dotstar_fragment : vh_wfb wit_dotstar = true. Proof. vm_compute. reflexivity. Qed.
Lemma wit_par_fragment : vh_wfb wit_par = true. Proof. vm_compute. reflexivity. Qed.

Definition refuted (v : vh_variant) : Prop :=
  exists c cfg ev val,
    vhdl_fragment c /\ legal_configb c cfg = true /\ vh_running c cfg = true /\ vh_event_ok c ev = true /\
    eval_eqs c (gen_eqs v c) cfg ev val <> Some (next_config c cfg ev val).

(* the generator as pinned: in {s1,s2}, event e enters s4 but not its parent s3 *)
Lemma vhdl_next_pinned_refuted_lemma : refuted vh_pinned.
Proof.
  exists wit_anc, [0; 1; 2], (Some ev_e), (fun _ => false).
  split; [exact wit_anc_fragment|]. repeat (split; [vm_compute; reflexivity|]).
  vm_compute. discriminate.
Qed.

(* each defect alone refutes the statement *)
Lemma refuted_anc_only :
  refuted {| vh_anc_outer_index := true; vh_default_ignores_targeted := false; vh_desc_unstripped := false |}.
Proof.
  exists wit_anc, [0; 1; 2], (Some ev_e), (fun _ => false).
  split; [exact wit_anc_fragment|]. repeat (split; [vm_compute; reflexivity|]).
  vm_compute. discriminate.
Qed.

Lemma refuted_default_only :
  refuted {| vh_anc_outer_index := false; vh_default_ignores_targeted := true; vh_desc_unstripped := false |}.
Proof.
  exists wit_default, [0; 1], (Some ev_e), (fun _ => false).
  split; [exact wit_default_fragment|]. repeat (split; [vm_compute; reflexivity|]).
  vm_compute. discriminate.
Qed.

Lemma refuted_dotstar_only :
  refuted {| vh_anc_outer_index := false; vh_default_ignores_targeted := false; vh_desc_unstripped := true |}.
Proof.
  exists wit_dotstar, [0; 1], (Some ev_e), (fun _ => false).
  split; [exact wit_dotstar_fragment|]. repeat (split; [vm_compute; reflexivity|]).
  vm_compute. discriminate.
Qed.

(* what the witnesses show, concretely *)
Example wit_anc_values :
  eval_eqs wit_anc (gen_eqs vh_pinned wit_anc) [0; 1; 2] (Some ev_e) (fun _ => false) = Some [0; 4] /\
  next_config wit_anc [0; 1; 2] (Some ev_e) (fun _ => false) = [0; 3; 4].
Proof. split; vm_compute; reflexivity. Qed.

Example wit_default_values :
  eval_eqs wit_default (gen_eqs {| vh_anc_outer_index := false; vh_default_ignores_targeted := true; vh_desc_unstripped := false |} wit_default)
           [0; 1] (Some ev_e) (fun _ => false) = Some [0; 2; 3; 4] /\
  next_config wit_default [0; 1] (Some ev_e) (fun _ => false) = [0; 2; 4].
Proof. split; vm_compute; reflexivity. Qed.

(* the hypotheses of the theorem are satisfiable by a non-trivial chart and situation, and the conclusion is
   what one expects there: in {p, a, a1, b, b1} with the condition input true, the spontaneous step takes a1 -> a2;
   event e takes a1 -> a2 and b1 -> b2; event f takes the internal transition of a (first in post-fix order), which
   conflicts with b1's transition to the final state *)
Example wit_par_hypotheses :
  vhdl_fragment wit_par /\ legal_configb wit_par [0; 1; 2; 3; 5; 6] = true /\
  vh_running wit_par [0; 1; 2; 3; 5; 6] = true /\ vh_event_ok wit_par (Some ev_e) = true /\ vh_event_ok wit_par None = true /\
  next_config wit_par [0; 1; 2; 3; 5; 6] None (fun _ => true) = [0; 1; 2; 4; 5; 6] /\
  next_config wit_par [0; 1; 2; 3; 5; 6] (Some ev_e) (fun _ => true) = [0; 1; 2; 4; 5; 7] /\
  next_config wit_par [0; 1; 2; 3; 5; 6] (Some ev_f) (fun _ => true) = [0; 1; 2; 4; 5; 6] /\
  eval_eqs wit_par (gen_eqs vh_fixed wit_par) [0; 1; 2; 3; 5; 6] (Some ev_e) (fun _ => true) = Some [0; 1; 2; 4; 5; 7].
Proof. repeat split; vm_compute; reflexivity. Qed.

(* ================================================================== the reference is Fast.v's, continued *)

Section FastLink.
Variable c : fchart.
Hypothesis Hwf : vh_wfb c = true.
Let n := nstates c.
Let T := ntrans c.

Lemma compound_size i : i < n -> fs_type (st c i) = FCompound -> 2 <= fs_size (st c i).
Proof.
  intros Hi Ht. destruct (typ_comp c Hwf i Hi Ht) as [j [_ Hj]].
  pose proof (child_anc c Hwf i j Hi Hj) as Ha.
  assert (Hjn : j < n) by (apply (child_iff c Hwf i j Hi) in Hj; tauto).
  rewrite (anc_interval c Hwf i j Hi Hjn) in Ha. apply andb_true_iff in Ha. destruct Ha as [H1 H2].
  apply Nat.ltb_lt in H1, H2. lia.
Qed.

Lemma domain_compound t d : t < T -> domain c (tr c t) = Some d -> fs_type (st c d) = FCompound.
Proof.
  intros Ht Hd. destruct (domain_spec c Hwf t d Ht Hd) as [Hdn [Hne Htg]].
  destruct (trans_parts c Hwf t Ht) as [_ [_ [Hrange _]]].
  unfold domain in Hd. destruct (ft_targets (tr c t)) as [|x0 tg] eqn:Etg; [discriminate|].
  destruct (ft_internal (tr c t) && is_comp (fs_type (st c (ft_source (tr c t)))) &&
            forallb (fun x => mem (ft_source (tr c t)) (fs_ancestors (st c x))) (x0 :: tg)) eqn:E1.
  - inversion Hd; subst d. rewrite !andb_true_iff in E1. destruct E1 as [[_ E1] _].
    destruct (fs_type (st c (ft_source (tr c t)))); try discriminate. reflexivity.
  - destruct (find (fun a => is_comp (fs_type (st c a)) && forallb (fun x => mem a (fs_ancestors (st c x))) (x0 :: tg))
                   (rev (fs_ancestors (st c (ft_source (tr c t)))))) as [a|] eqn:E2.
    + inversion Hd; subst d. apply find_some in E2. destruct E2 as [_ E2]. apply andb_true_iff in E2. destruct E2 as [E2 _].
      destruct (fs_type (st c a)); try discriminate. reflexivity.
    + inversion Hd; subst d.
      (* the root has a child (an ancestor-or-self of the target), so it is compound *)
      specialize (Htg x0 (or_introl eq_refl)). destruct (anc_via_child c Hwf x0 0 Htg) as [j [Hj _]].
      assert (Hk : fs_children (st c 0) <> []) by (intros E; rewrite E in Hj; discriminate).
      destruct (has_kids_type c Hwf 0 Hdn Hk) as [E|E]; [assumption|]. exfalso. now apply (root_not_parallel c Hwf).
Qed.

Lemma filter_all {A} (f : A -> bool) l : (forall x, In x l -> f x = true) -> filter f l = l.
Proof.
  induction l as [|x r IH]; intros H; cbn [filter]; [reflexivity|].
  rewrite H by now left. f_equal. apply IH. intros; apply H; now right.
Qed.

Lemma filter_none {A} (f : A -> bool) l : (forall x, In x l -> f x = false) -> filter f l = [].
Proof.
  induction l as [|x r IH]; intros H; cbn [filter]; [reflexivity|].
  rewrite H by now left. apply IH. intros; apply H; now right.
Qed.

Lemma exit_tab_desc t d : t < T -> domain c (tr c t) = Some d -> vh_exit_tab c (tr c t) = desc c d.
Proof.
  intros Ht Hd. unfold vh_exit_tab. rewrite Hd. apply filter_all. intros x Hx.
  destruct (domain_spec c Hwf t d Ht Hd) as [Hdn _]. apply (typ_proper c Hwf).
  apply mem_In in Hx. rewrite (mem_desc c Hwf d x Hdn) in Hx.
  destruct (Nat.lt_ge_cases x n); [assumption|]. rewrite (anc_out c x) in Hx by assumption. discriminate.
Qed.

(* exit sets intersect iff the exit intervals of the engines overlap *)
Lemma exit_tabs_intersect t1 t2 : t1 < T -> t2 < T ->
  intersects (vh_exit_tab c (tr c t1)) (vh_exit_tab c (tr c t2)) = conflicts lg_fixed c (tr c t1) (tr c t2).
Proof.
  intros H1 H2. unfold conflicts, exit_interval. cbn [lg_exit_overreach lg_fixed andb].
  destruct (domain c (tr c t1)) as [d1|] eqn:E1.
  - destruct (domain c (tr c t2)) as [d2|] eqn:E2.
    + rewrite (exit_tab_desc t1 d1 H1 E1), (exit_tab_desc t2 d2 H2 E2).
      destruct (domain_spec c Hwf t1 d1 H1 E1) as [Hd1 _]. destruct (domain_spec c Hwf t2 d2 H2 E2) as [Hd2 _].
      pose proof (compound_size d1 Hd1 (domain_compound t1 d1 H1 E1)) as Hs1.
      pose proof (compound_size d2 Hd2 (domain_compound t2 d2 H2 E2)) as Hs2.
      cbn [Nat.eqb negb andb]. unfold desc.
      apply bool_eq_iff. rewrite intersects_true, orb_true_iff, !andb_true_iff, !Nat.leb_le. split.
      * intros [x [Hx1 Hx2]]. apply in_seq in Hx1, Hx2. lia.
      * intros [[Ha Hb]|[Ha Hb]].
        -- exists (S d2). split; apply in_seq; lia.
        -- exists (S d1). split; apply in_seq; lia.
    + unfold vh_exit_tab at 2. rewrite E2. cbn [Nat.eqb negb andb].
      unfold intersects. apply existsb_false_iff. intros; reflexivity.
  - unfold vh_exit_tab at 1. rewrite E1. destruct (domain c (tr c t2)); reflexivity.
Qed.

(* ChartToC::prepare's conflictBools is FastMicroStep's conflict matrix *)
Lemma conflict_is_fast t1 t2 : t1 < T -> t2 < T ->
  vh_conflict c (tr c t1) (tr c t2) = fconflicts c (tr c t1) (tr c t2).
Proof. intros H1 H2. unfold vh_conflict, fconflicts. now rewrite exit_tabs_intersect. Qed.

(* SELECT_TRANSITIONS of the fast engine on a chart without conditions *)
Lemma vselect_is_fselect cfg (ev : option event) val xst : forall ts sel,
  (forall t, In t ts -> t < T /\ ft_cond (tr c t) = None) -> (forall s, In s sel -> s < T) ->
  fselect c cfg ev ts sel xst = (vselect c cfg (option_map ev_name ev) val ts sel, xst).
Proof.
  induction ts as [|t ts IH]; intros sel Hts Hsel; cbn [fselect vselect]; [reflexivity|].
  destruct (Hts t (or_introl eq_refl)) as [HtT Hcond].
  assert (Hts' : forall t', In t' ts -> t' < T /\ ft_cond (tr c t') = None) by (intros; apply Hts; now right).
  destruct (ft_history (tr c t) || ft_initial (tr c t)); [now apply IH|].
  assert (Hconf : existsb (fun si => fconflicts c (tr c si) (tr c t)) sel = existsb (fun si => vh_conflict c (tr c si) (tr c t)) sel).
  { apply existsb_ext_in. intros s Hs. symmetry. apply conflict_is_fast; [now apply Hsel|assumption]. }
  unfold vh_enabled. rewrite Hcond, Hconf.
  destruct (mem (ft_source (tr c t)) cfg); cbn [negb andb]; [|now apply IH].
  destruct (existsb (fun si => vh_conflict c (tr c si) (tr c t)) sel) eqn:Ec.
  - (* conflicting: both skip *)
    destruct ev as [e|]; cbn [option_map];
      destruct (ft_spontaneous (tr c t)); cbn [negb andb]; try destruct (name_match_impl nm_fixed (ft_event (tr c t)) (ev_name e));
      cbn [negb andb]; now apply IH.
  - assert (Hsel' : forall s, In s (sel ++ [t]) -> s < T).
    { intros s Hs. apply in_app_or in Hs. destruct Hs as [Hs|[<-|[]]]; [now apply Hsel|assumption]. }
    destruct ev as [e|]; cbn [option_map]; destruct (ft_spontaneous (tr c t)); cbn [negb andb].
    + now apply IH.
    + destruct (name_match_impl nm_fixed (ft_event (tr c t)) (ev_name e)); cbn [negb andb]; now apply IH.
    + now apply IH.
    + now apply IH.
Qed.

Lemma selection_is_fast cfg ev val xst :
  (forall t, t < T -> ft_cond (tr c t) = None) ->
  fst (fselect c cfg ev (seq 0 (ntrans c)) [] xst) = vh_selected c cfg (option_map ev_name ev) val.
Proof.
  intros Hc. unfold vh_selected. rewrite (vselect_is_fselect cfg ev val xst); [reflexivity| |intros s []].
  intros t Ht. apply in_seq in Ht. fold T in Ht. split; [lia|apply Hc; lia].
Qed.

(* the exit set *)
Lemma exitset_is_fast cfg sel : (forall t, In t sel -> t < T) ->
  vh_exitset c cfg sel = fold_left (fun a ti => set_union a (exit_states_of lg_fixed c cfg (tr c ti))) sel [].
Proof.
  unfold vh_exitset. generalize (@nil nat). induction sel as [|t sel IH]; intros acc Hsel; cbn [fold_left]; [reflexivity|].
  assert (Ht : t < T) by (apply Hsel; now left).
  assert (E : filter (fun i => mem i (vh_exit_tab c (tr c t))) cfg = exit_states_of lg_fixed c cfg (tr c t)).
  { unfold exit_states_of, exit_interval. cbn [lg_exit_overreach lg_targetless_exits_root lg_fixed andb negb].
    destruct (domain c (tr c t)) as [d|] eqn:Ed.
    - rewrite (exit_tab_desc t d Ht Ed). cbn [Nat.eqb andb]. apply filter_ext_in. intros i Hi.
      destruct (domain_spec c Hwf t d Ht Ed) as [Hdn _].
      pose proof (compound_size d Hdn (domain_compound t d Ht Ed)) as Hs.
      unfold desc. rewrite mem_seq. apply bool_eq_iff. rewrite !andb_true_iff, !Nat.leb_le, Nat.ltb_lt. lia.
    - unfold vh_exit_tab. rewrite Ed. cbn [Nat.eqb andb]. apply filter_none. intros; reflexivity. }
  rewrite E. apply IH. intros; apply Hsel; now right.
Qed.

End FastLink.
