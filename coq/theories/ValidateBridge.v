(* ValidateBridge.v -- the bridge between the two document types of the development.  Definitions only.

     gdoc_of_tree : Chart.tree -> Validate.gdoc
   renders a document of the reference fragment (Chart.tree, the input of Chart.flatten and so of the engine
   models) as the generic element tree the validator model (Validate.validate) reads.  It is the rendering of
   tools/chartgen.py `to_scxml` followed by the reading of tools/props/c19.py `sx` (the text the correspondence
   check feeds to InterpreterIssue::forInterpreter and, as an s-expression, to the extracted validator model):
     - <scxml> and <initial> elements carry no id, every other state element has id="s<sid>" (Large.state_name);
     - an `initial` attribute is written on every element that has one (space separated "s<sid>");
     - <history type="deep"|"shallow">;
     - children in the order: <datamodel> (one element holding the <data id="Var<n>"/> elements, only when there
       is data), the <onentry> blocks, the <onexit> blocks, the <transition>s, the child states;
     - <transition>: `event`, `cond` attributes when present, target="s<a> s<b> ..." when the transition has a
       target list (an empty list gives target=""), executable content as children;
     - executable content: raise/send/log/assign/if elements (model tag GExec); <send target="#_nosuch"> carries a
       target attribute, <if> and <elseif> a cond attribute, <raise>/<send> an event attribute.

   Then the boolean predicates on the TREE that the theorems of ValidateBridge*.v use:
     vb_docb t          t is a document: the root is the only <scxml> element;
     vb_hidden_freshb t the numbers of the elements rendered without id (<scxml>, <initial>) are not the numbers
                        of other elements (the tree type gives every element a number, Chart.flatten resolves
                        target numbers against all of them; the text has no such ids);
   and the record VTree (what a clean validation says about the tree), see below. *)
From V Require Import Base Chart Large Validate FlattenWf.
Local Open Scope N_scope.

(* ------------------------------------------------------------------ rendering *)

Definition sname (s : N) : bytes := state_name s.                 (* "s<sid>" *)
Definition varname (v : N) : bytes := [86; 97; 114] ++ dec v.     (* "Var<n>" *)
Definition nosuch : bytes := [35; 95; 110; 111; 115; 117; 99; 104]. (* "#_nosuch" *)

Definition ga0 : gattrs :=
  {| ga_id := None; ga_initial := None; ga_target := None; ga_deep := false; ga_cond := false; ga_event := false |}.
Definition ga_ev : gattrs :=
  {| ga_id := None; ga_initial := None; ga_target := None; ga_deep := false; ga_cond := false; ga_event := true |}.
Definition ga_cd : gattrs :=
  {| ga_id := None; ga_initial := None; ga_target := None; ga_deep := false; ga_cond := true; ga_event := false |}.
Definition ga_badtarget : gattrs :=
  {| ga_id := None; ga_initial := None; ga_target := Some [nosuch]; ga_deep := false; ga_cond := false; ga_event := true |}.

Fixpoint g_instr (i : instr) : gdoc :=
  match i with
  | IRaise _ _ => GNode GExec ga_ev []
  | ISend _ _ => GNode GExec ga_ev []
  | ISendBadType _ _ => GNode GExec ga_ev []
  | ISendBadTarget _ _ => GNode GExec ga_badtarget []
  | ILog _ _ => GNode GExec ga0 []
  | IAssign _ _ _ => GNode GExec ga0 []
  | IIf _ _ body =>
      GNode GExec ga_cd
        ((fix go (l : list ifitem) : list gdoc :=
            match l with
            | [] => []
            | f :: r => match f with
                        | FElseif _ => GNode GExec ga_cd []
                        | FElse => GNode GExec ga0 []
                        | FInstr j => g_instr j
                        end :: go r
            end) body)
  end.

Definition g_block (b : block) : gdoc := GNode GContainer ga0 (map g_instr b).

Definition g_data (d : list (N * iexpr)) : list gdoc :=
  match d with
  | [] => []
  | _ => [GNode GOther ga0
            (map (fun p => GNode GOther {| ga_id := Some (varname (fst p)); ga_initial := None; ga_target := None;
                                           ga_deep := false; ga_cond := false; ga_event := false |} []) d)]
  end.

Definition is_someb {A} (o : option A) : bool := match o with Some _ => true | None => false end.

Definition g_trans (x : ttrans) : gdoc :=
  GNode GTransition
        {| ga_id := None; ga_initial := None;
           ga_target := option_map (map sname) (tt_targets x);
           ga_deep := false; ga_cond := is_someb (tt_cond x); ga_event := is_someb (tt_event x) |}
        (map g_instr (tt_body x)).

Definition gtag_of_kind (k : skind) : gtag :=
  match k with
  | KScxml => GScxml | KState => GState | KParallel => GParallel | KFinal => GFinal
  | KHistShallow | KHistDeep => GHistory | KInitial => GInitial
  end.

(* elements rendered without an id attribute *)
Definition hidden_kind (k : skind) : bool := match k with KScxml | KInitial => true | _ => false end.

Definition g_state_attrs (k : skind) (s : N) (ini : option (list N)) : gattrs :=
  {| ga_id := if hidden_kind k then None else Some (sname s);
     ga_initial := option_map (map sname) ini;
     ga_target := None;
     ga_deep := match k with KHistDeep => true | _ => false end;
     ga_cond := false; ga_event := false |}.

(* the children that are no state elements, in the order written *)
Definition g_front (trl : list ttrans) (en ex : list block) (d : list (N * iexpr)) : list gdoc :=
  g_data d ++ map g_block en ++ map g_block ex ++ map g_trans trl.

Fixpoint gdoc_of_tree (t : tree) : gdoc :=
  match t with
  | TNode k s ini trl en ex d kids =>
      GNode (gtag_of_kind k) (g_state_attrs k s ini) (g_front trl en ex d ++ map gdoc_of_tree kids)
  end.

(* ------------------------------------------------------------------ documents *)

(* the root is the only <scxml> element *)
Definition vb_docb (t : tree) : bool :=
  match t_kind t with KScxml => true | _ => false end &&
  forallb (fun k => forallb (fun u => match t_kind u with KScxml => false | _ => true end) (subtrees k)) (t_kids t).

(* the elements that carry an id in the text *)
Definition visible (t : tree) : list tree :=
  filter (fun u => negb (hidden_kind (t_kind u))) (flat_map subtrees (t_kids t)).
Definition vsids (t : tree) : list N := map t_sid (visible t).

Fixpoint countN (s : N) (l : list N) : nat :=
  match l with [] => O | x :: r => ((if (x =? s)%N then 1 else 0) + countN s r)%nat end.

(* numbers of the root and of <initial> elements occur once in the whole tree *)
Definition vb_hidden_freshb (t : tree) : bool :=
  forallb (fun u => if hidden_kind (t_kind u) then (countN (t_sid u) (sids t) =? 1)%nat else true) (subtrees t).

(* ------------------------------------------------------------------ what a clean validation says about the tree *)

(* the elements strictly below u, document order *)
Definition tbelow (u : tree) : list tree := flat_map subtrees (t_kids u).

Definition tvis (w : tree) : bool := negb (hidden_kind (t_kind w)).
Definition tprop (w : tree) : bool := is_proper_kind (t_kind w).

(* numbers of the elements with an id strictly below u / of the child elements with an id / of the proper
   states strictly below u *)
Definition vsids_below (u : tree) : list N := map t_sid (filter tvis (tbelow u)).
Definition vsids_kids (u : tree) : list N := map t_sid (filter tvis (t_kids u)).
Definition psids_below (u : tree) : list N := map t_sid (filter tprop (tbelow u)).

(* the schema's parent/child table, as InterpreterIssue.cpp:690-724 checks it *)
Definition kid_okb (parent kid : skind) : bool := valid_parent (gtag_of_kind kid) (gtag_of_kind parent).

Definition is_deep_kind (k : skind) : bool := match k with KHistDeep => true | _ => false end.
Definition is_initial_kind (k : skind) : bool := match k with KInitial => true | _ => false end.

(* VTree t: the facts about the tree t that follow from "the repaired validator reports no fatal issue for the
   rendering of t" (ValidateBridgeClauses.validated_tree), each from one group of checks:
     vt_nest      INesting              every child element sits below a parent the schema allows
                                        (so <history>/<initial>/<final> have no child states);
     vt_unique    IDuplicate            the ids in the text are pairwise different;
     vt_targets   ITransEmptyTargets, ITransNoSuchTarget, IIllegalTargets
                                        a target attribute lists at least one id, every id is the id of an
                                        element, and no two of them lie in different children of a <state>/<scxml>;
     vt_initattr  IInitAttrEmpty, IInitAttrInvalid, IInitAttrNonChild, IIllegalTargets
                                        the same for `initial` attributes, the ids being ids of descendants;
     vt_initial   IInitialNotOneTrans, IInitTransCond, IInitTransEvent, IInitTransNoTarget, IInitTransNonChild
                                        <initial> has exactly one transition: no cond, no event, a target list of
                                        descendants of the parent state;
     vt_history   IHistMulti, IHistNone, IHistCond, IHistEvent, IHistNoTarget, IHistDeepIllegal, IHistShallowIllegal,
                  IHistPseudoTarget (patches/C19-history-default-pseudo-target.diff)
                                        <history> has exactly one transition: no cond, no event, a target list
                                        of children (shallow) / descendants (deep) of the parent, all of them
                                        proper states (no <history>, no <initial>). *)
Record VTree (t : tree) : Prop := {
  vt_nest : forall u k, In u (subtrees t) -> In k (t_kids u) -> kid_okb (t_kind u) (t_kind k) = true;
  vt_unique : NoDup (vsids_below t);
  vt_targets : forall u x l, In u (subtrees t) -> In x (t_trans u) -> tt_targets x = Some l ->
      l <> [] /\ (forall s, In s l -> In s (vsids_below t)) /\ target_set_okb t l = true;
  vt_initattr : forall u l, In u (subtrees t) -> t_kind u <> KInitial -> t_initattr u = Some l ->
      l <> [] /\ (forall s, In s l -> In s (vsids_below u)) /\ target_set_okb t l = true;
  vt_initial : forall p u, In p (subtrees t) -> In u (t_kids p) -> t_kind u = KInitial ->
      exists x l, t_trans u = [x] /\ tt_targets x = Some l /\ tt_cond x = None /\ tt_event x = None /\
                  forall s, In s l -> In s (vsids_below p);
  vt_history : forall p h, In p (subtrees t) -> In h (t_kids p) -> is_hist_kind (t_kind h) = true ->
      exists x l, t_trans h = [x] /\ tt_targets x = Some l /\ tt_cond x = None /\ tt_event x = None /\
                  (forall s, In s l -> In s (if is_deep_kind (t_kind h) then vsids_below p else vsids_kids p)) /\
                  (forall s, In s l -> In s (psids_below p))
}.

(* ------------------------------------------------------------------ side conditions of the legality theorem
   (boolean, on the tree).  None of them follows from a clean validation. *)

(* no <history> directly below a <parallel> (outside the reach of wf_histb: whb_pseudo_parent) *)
Definition vb_hist_parentb (t : tree) : bool :=
  forallb (fun u => match t_kind u with
                    | KParallel => forallb (fun k => negb (is_hist_kind (t_kind k))) (t_kids u)
                    | _ => true
                    end) (subtrees t).

(* the targets of the transition of every pseudo-state child selected by [sel] are proper states below the parent *)
Definition vb_pseudo_properb (sel : skind -> bool) (t : tree) : bool :=
  forallb (fun p =>
    forallb (fun h => if sel (t_kind h)
                      then forallb (fun x => match tt_targets x with
                                             | Some l => forallb (fun s => memN s (psids_below p)) l
                                             | None => true
                                             end) (t_trans h)
                      else true) (t_kids p)) (subtrees t).

(* the default transition of a <history> names proper states (not a <history>, e.g. itself).  No side condition any
   more: it follows from validation since the check IHistPseudoTarget; kept to describe the witnesses against the
   validator without that check (vv_hist_unchecked) *)
Definition vb_default_properb : tree -> bool := vb_pseudo_properb is_hist_kind.
(* the transition of an <initial> element names proper states *)
Definition vb_initial_properb : tree -> bool := vb_pseudo_properb is_initial_kind.

(* C02-K1: no state below the parent of a deep <history> owns a <history> *)
Definition vb_hist_disjointb (t : tree) : bool :=
  forallb (fun q => if existsb (fun k => is_deep_kind (t_kind k)) (t_kids q)
                    then forallb (fun w => forallb (fun k => negb (is_hist_kind (t_kind k))) (t_kids w)) (tbelow q)
                    else true) (subtrees t).

Definition vb_sideb (t : tree) : bool :=
  ct_rootb t && vb_hist_parentb t && vb_initial_properb t && vb_hist_disjointb t.

(* ------------------------------------------------------------------ the hypotheses of the table-level lemmas
   (ValidateBridgeFlat.v, ValidateBridgePseudo.v), stated of the RESORTED tree (Chart.resort: <initial> children
   first, then <history> children, then the proper states). *)

Definition krank (k : skind) : nat :=
  match k with KInitial => 0%nat | KHistShallow | KHistDeep => 1%nat | _ => 2%nat end.

(* the children of u are in the order resortStates leaves them in *)
Definition kids_sorted (u : tree) : Prop :=
  forall j1 j2 a b, nth_error (t_kids u) j1 = Some a -> nth_error (t_kids u) j2 = Some b ->
    (krank (t_kind a) < krank (t_kind b))%nat -> (j1 < j2)%nat.

Record FlatHyp (root : tree) : Prop := {
  fh_v : VTree root;
  fh_u : NoDup (sids root);
  fh_doc : vb_docb root = true;
  fh_side : vb_sideb root = true;
  fh_sorted : forall u, In u (subtrees root) -> kids_sorted u
}.
