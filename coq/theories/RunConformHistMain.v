(* RunConformHistMain.v -- C01 on charts with <history> (wf_histb): the theorems for the charts LargeMicroStep::init builds,
   stated on boolean hypotheses (what props/Properties_C01.v quotes).  Proofs only. *)
From V Require Import Base NameMatch NameMatchLemmas Chart Exec Large LargeLemmas Spec Legal SetLemmas LegalAbstract LegalLarge
  Interp LegalRun WfCore LegalOracle LargeCacheLemmas ExitSetLemmas SelectConform SelectConformLemmas SelectConformOrder
  SelectConformRoot SelectConformFlatten MicroConform MicroConformLemmas MicroConformEntry MicroConformCompose MicroConformFlatten
  Serialize SerializeCongLemmas RunConformBase RunConformTok RunConformMicro RunConformInit RunConformStep RunConformLoop EngineEquivDone
  LegalHistBase LegalHistEntry LegalHistStep LegalHistRun LegalHistWf LegalHistOracle
  RunConformInitialBase RunConformInitialWf RunConformInitialFlags RunConformInitialSelLegal
  RunConformHistRel RunConformHistSpec RunConformHistEngine RunConformHistEntry RunConformHistDom RunConformHistWf RunConformHistDeep
  RunConformHistSel RunConformHistFlat RunConformHistInit RunConformHistStep RunConformHistRun.
Local Open Scope nat_scope.

Section MainH.
Variable late : bool.
Variable t0 : tree.
Notation c := (flatten late t0).

(* (1) the two histories stay related when history is recorded at exit time: Appendix D's loop over the states to exit
   (RunConformHistRel.record_hv; Spec.exit_states computes it: RunConformHistRel.exit_states_hv) against
   Large.remember_history, for any set X of active states that is exited *)
Theorem history_recording_conforms_main cfgS X L hist h :
  wf_histb c = true -> legal_configb c (0 :: cfgS) = true ->
  (forall x, In x X -> In x (0 :: cfgS)) -> (forall x, In x L <-> In x X) ->
  HistOK c hist -> HistDown c hist -> hv_rel c hist h ->
  HistOK c (remember_history c (0 :: cfgS) X hist) /\ HistDown c (remember_history c (0 :: cfgS) X hist) /\
  hv_rel c (remember_history c (0 :: cfgS) X hist) (record_hv c cfgS L h).
Proof.
  intros Hwf Hleg HX HL HH HD HR. pose proof (wf_histb_sound c Hwf) as W.
  destruct (legal_configb_sound_h c W _ Hleg) as [Hlg Hbp].
  assert (Hb : forall y, In y (0 :: cfgS) -> y < nstates c) by (intros y Hy; exact (proj1 (Hbp y Hy))).
  assert (Hp : forall y, In y (0 :: cfgS) -> pseudoS c y = false) by (intros y Hy; exact (proj2 (Hbp y Hy))).
  pose proof (flatten_deep_full late t0 W) as HDF.
  split; [exact (remember_HistOK c W (0 :: cfgS) X Hlg Hp HX hist HH)|]. split.
  - exact (record_HistDown c W cfgS X Hlg Hp HDF hist HH HD).
  - exact (record_hv_rel c W cfgS X Hlg Hp Hb HX HDF hist h L HL HH HR).
Qed.

(* (2) the entry set and the transition set *)
Theorem entry_set_conforms_hist_main cfg sel h hist :
  micro_static_hb c = true -> legal_configb c cfg = true ->
  HistOK c hist -> HistDown c hist -> hv_rel c hist h ->
  (forall ti, In ti sel -> In (ft_source (tr c ti)) cfg) -> pairwise_ok lg_fixed c sel ->
  let e := compute_entry_set c h sel in
  let r := entry_set lg_fixed c cfg (sel_exitset c cfg sel) hist (sel_targets c sel) sel in
  (forall x, In x (e_enter e) <-> In x (fst r) /\ pseudoS c x = false /\ ~ (In x cfg /\ ~ In x (sel_exitset c cfg sel))) /\
  (forall i x ti, In i (e_enter e) -> fs_parent (st c x) = Some i -> fs_type (st c x) = FInitial -> In ti (fs_trans (st c x)) ->
     (In ti (snd r) <-> In i (e_default e) /\ fs_completion (st c i) = [x])) /\
  (forall H ti, histS c H = true -> In ti (fs_trans (st c H)) ->
     (In ti (snd r) <-> In H (sel_targets c sel) /\ hv_get h H = None /\ exists rest, fs_trans (st c H) = ti :: rest)) /\
  (forall p ti, In (p, ti) (e_histcontent e) <->
     exists tj H, In tj sel /\ In H (ft_targets (tr c tj)) /\ histS c H = true /\ hv_get h H = None /\
                  fs_parent (st c H) = Some p /\ exists rest, fs_trans (st c H) = ti :: rest) /\
  (forall i H, In i (e_default e) -> In H (sel_targets c sel) -> histS c H = true -> fs_parent (st c H) <> Some i).
Proof.
  intros Hst Hleg HH HD HR Hsrc Hok e r. pose proof (micro_static_h_sound late t0 Hst) as HS. pose proof (mh_wfh c HS) as W.
  pose proof (legal_configb_sound_h c W cfg Hleg) as HLc. destruct HLc as [HL Hbp].
  assert (Hbound : forall y, In y cfg -> y < nstates c) by (intros y Hy; exact (proj1 (Hbp y Hy))).
  assert (Hprop : forall y, In y cfg -> pseudoS c y = false) by (intros y Hy; exact (proj2 (Hbp y Hy))).
  assert (Hdom : forall ti, In ti sel -> transition_domain c h (tr c ti) = domain c (tr c ti)).
  { intros ti _. exact (Hdom_flat_h late t0 HS cfg (conj HL Hbp) hist h HH HD HR ti). }
  split; [|split; [|split; [|split]]].
  - exact (entry_set_conforms_hist_sec c W (mh_cplok c HS) (mh_cplanti c HS) (mh_tganti c HS) (mh_tgnoinit c HS) (mh_root c HS) (mh_par c HS) (mh_leaf c HS)
             cfg sel h hist HL Hbound Hprop Hsrc Hok HH HD HR Hdom).
  - exact (trans_set_initial_hist_sec c W (mh_cplok c HS) (mh_cplanti c HS) (mh_tganti c HS) (mh_tgnoinit c HS) (mh_root c HS) (mh_par c HS) (mh_leaf c HS)
             cfg sel h hist HL Hbound Hprop Hsrc Hok HH HD HR Hdom).
  - exact (trans_set_history_hist_sec c W (mh_cplok c HS) (mh_cplanti c HS) (mh_tganti c HS) (mh_tgnoinit c HS) (mh_root c HS) (mh_par c HS) (mh_leaf c HS)
             cfg sel h hist HL Hbound Hprop Hsrc Hok HH HD HR).
  - intros p ti.
    rewrite <- (hc_of_spec c sel h p ti).
    exact (spec_hc_in c W (mh_cplok c HS) (mh_cplanti c HS) (mh_tganti c HS) (mh_tgnoinit c HS) (mh_root c HS) (mh_par c HS) (mh_leaf c HS)
             cfg sel h hist HL Hbound Hprop Hsrc Hok HH HD HR Hdom p ti).
  - intros i H Hi HT Hh Hp.
    exact (default_no_hist_target c W (mh_cplok c HS) (mh_cplanti c HS) (mh_tganti c HS) (mh_tgnoinit c HS) (mh_root c HS) (mh_par c HS) (mh_leaf c HS)
             cfg sel h hist HL Hbound Hprop Hsrc Hok HH HD HR Hdom i H Hi HT Hh Hp).
Qed.

(* (3) one microstep *)
Theorem microstep_conforms_hist_main sel l s x :
  micro_static_hb c = true -> legal_configb c (l_cfg l) = true ->
  HistOK c (l_hist l) -> HistDown c (l_hist l) -> hv_rel c (l_hist l) (s_hv s) -> corr c l s ->
  (forall ti, In ti sel -> In (ft_source (tr c ti)) (l_cfg l)) ->
  pairwise_ok lg_fixed c sel ->
  (forall ti, In ti sel -> ft_history (tr c ti) || ft_initial (tr c ti) = false) ->
  let r := microstep lg_fixed ex_fixed c l (emit TMsB x) (sel_targets c sel) (sel_exitset c (l_cfg l) sel) sel false in
  let q := spec_microstep c sel s x in
  corr c (fst r) (fst q) /\ snd q = emit (spec_cfg_tok c (fst q)) (snd r) /\
  HistOK c (l_hist (fst r)) /\ HistDown c (l_hist (fst r)) /\ hv_rel c (l_hist (fst r)) (s_hv (fst q)).
Proof.
  intros Hst Hleg HH HD HR Hcorr Hsrc Hok Hnp.
  exact (microstep_conforms_hist_lemma late t0 (micro_static_h_sound late t0 Hst) sel l s x Hleg HH HD HR Hcorr Hsrc Hok Hnp).
Qed.

Theorem microstep_selected_conforms_hist_main l s ev x0 x :
  micro_static_hb c = true -> legal_configb c (l_cfg l) = true ->
  HistOK c (l_hist l) -> HistDown c (l_hist l) -> hv_rel c (l_hist l) (s_hv s) -> corr c l s ->
  let sel := fst (select_loop lg_fixed c (l_cfg l) ev (cfg_postfix c (l_cfg l)) None [] x0) in
  let r := microstep lg_fixed ex_fixed c l (emit TMsB x) (sel_targets c sel) (sel_exitset c (l_cfg l) sel) sel false in
  let q := spec_microstep c sel s x in
  corr c (fst r) (fst q) /\ snd q = emit (spec_cfg_tok c (fst q)) (snd r) /\
  HistOK c (l_hist (fst r)) /\ HistDown c (l_hist (fst r)) /\ hv_rel c (l_hist (fst r)) (s_hv (fst q)).
Proof.
  intros Hst Hleg HH HD HR Hcorr.
  exact (microstep_selected_conforms_hist_lemma late t0 (micro_static_h_sound late t0 Hst) l s ev x0 x Hleg HH HD HR Hcorr).
Qed.

(* selection, and selection + microstep *)
Theorem selection_conforms_spec_cfg_hist_main cfg' ev x hist h :
  micro_static_hb c = true -> root_unmentionedb c = true ->
  legal_configb c (0 :: cfg') = true -> ascb (0 :: cfg') = true ->
  HistOK c hist -> HistDown c hist -> hv_rel c hist h ->
  unrelated_enabledb c (0 :: cfg') ev x = true -> conds_pureb c (0 :: cfg') x = true -> descs_okb c (0 :: cfg') ev = true ->
  select_loop lg_fixed c (0 :: cfg') ev (cfg_postfix c (0 :: cfg')) None [] x = Spec.select_transitions c cfg' h ev x
  /\ snd (select_loop lg_fixed c (0 :: cfg') ev (cfg_postfix c (0 :: cfg')) None [] x) = x.
Proof.
  intros Hst Hun Hleg Hasc HH HD HR H1 H2 H3. pose proof (micro_static_h_sound late t0 Hst) as HS.
  exact (selection_conforms_spec_cfg_hist_lemma late t0 cfg' ev x hist h (mh_wfb c HS) (mh_root c HS) (mh_parb c HS) Hun
           (mh_antib c HS) (mh_leafb c HS) (mh_locb c HS) Hleg Hasc HH HD HR H1 H2 H3).
Qed.

Theorem step_conforms_hist_main l s ev x :
  micro_static_hb c = true -> root_unmentionedb c = true ->
  legal_configb c (l_cfg l) = true -> ascb (l_cfg l) = true ->
  HistOK c (l_hist l) -> HistDown c (l_hist l) -> hv_rel c (l_hist l) (s_hv s) -> corr c l s ->
  unrelated_enabledb c (l_cfg l) ev x = true -> conds_pureb c (l_cfg l) x = true -> descs_okb c (l_cfg l) ev = true ->
  let r := select_and_step lg_fixed ex_fixed c l x ev in
  let en := fst (select_transitions c (s_cfg s) (s_hv s) ev x) in
  snd (select_transitions c (s_cfg s) (s_hv s) ev x) = x /\
  match en with
  | [] => l_cfg (fst (fst r)) = l_cfg l /\ snd (fst r) = x
  | _ => let q := spec_microstep c en s x in
         corr c (fst (fst r)) (fst q) /\ snd q = emit (spec_cfg_tok c (fst q)) (snd (fst r)) /\
         HistOK c (l_hist (fst (fst r))) /\ HistDown c (l_hist (fst (fst r))) /\ hv_rel c (l_hist (fst (fst r))) (s_hv (fst q))
  end.
Proof.
  intros Hst Hun Hleg Hasc HH HD HR Hcorr H1 H2 H3.
  exact (step_conforms_hist_lemma late t0 (micro_static_h_sound late t0 Hst) l s ev x Hun Hleg Hasc HH HD HR Hcorr H1 H2 H3).
Qed.

(* the initial microstep *)
Theorem initial_step_conforms_hist_main l xl xs :
  let r := fs_sid (st c 0) in
  static_hb c = true ->
  is_pristine l = true -> l_cfg l = [] -> l_initd l = [] -> HistOK c (l_hist l) -> same_dyn xl xs ->
  let rl := large_step lg_fixed ex_fixed c l xl in
  let q := spec_init c xs in
  snd rl = RC_MICROSTEPPED /\
  corr c (fst (fst rl)) (fst q) /\ s_hv (fst q) = [] /\ same_dyn (snd (fst rl)) (snd q) /\
  legal_configb c (l_cfg (fst (fst rl))) = true /\
  exists d dg,
    x_out (snd (fst rl)) = TMsE :: d ++ TEe r :: TEb r :: TMsB :: x_out xl /\
    x_out (snd q) = spec_cfg_tok c (fst q) :: TMsE :: d ++ TDiag dg :: TMsB :: x_out xs.
Proof.
  intros r Hst Hp Hcfg0 Hinitd0 HH0 Hdyn.
  exact (initial_step_conforms_hist_lemma late t0 l xl xs Hst Hp Hcfg0 Hinitd0 HH0 Hdyn).
Qed.

End MainH.
