(* CGenEquivHistDefault.v -- C04 beyond the history-free core, against the interpreter's DEFAULT engine: composition of
   cstep_run_equiv_history (CGenEquivHistMain.v) with the engine equivalence on charts with pseudo-states
   (EngineEquivHistMain.v, work package eqh: eq_chartb_hist, eq_guard_run_hist).  Proofs only. *)
From V Require Import Base NameMatch Chart Exec Large LargeLemmas Fast Interp WfCore CGen CGenLemmas
                      LegalHistWf EngineEquivStep EngineEquivRun EngineEquivHistRun EngineEquivHistMain
                      CGenEquivContent CGenEquivHist CGenEquivHistRun CGenEquivMain CGenEquivHistMain.
Local Open Scope nat_scope.

Lemma cstep_run_equals_default_engine_history_partial_lemma cv xv c :
  cv_repaired cv -> eq_chartb_hist c = true -> chart_c c = true -> chart_h c = true ->
  forall evs, Forall (fun e => e <> []) evs ->
  (forall m, eq_guard_run_hist xv c m l_pristine x_init evs = true) ->
  forall n, exists m,
    let rc := crun_loop cv c n l_pristine cx_init evs in
    let rl := run_loop c lstate (large_step lg_fixed xv c) l_cfg m l_pristine x_init evs in
    same_machine_state (fst rc) (fst rl) /\ same_queues_and_events (snd rc) (snd rl).
Proof.
  intros Hcv He Hc Hh evs Hev Hg n. destruct (eq_chartb_hist_parts c He) as (H & Hr & _).
  destruct (cstep_run_equiv_history_lemma cv xv c Hcv (conj H (conj Hr (conj Hc Hh))) n evs Hev) as (m & A & B). cbv zeta in A, B.
  destruct (fast_large_run_equiv_hist_lemma xv c m evs He (Hg m)) as [(E1 & E2 & _ & _ & _ & E6 & E7 & _) E]. exists m. cbv zeta.
  rewrite <- E. split; [|exact B]. destruct A as (A1 & A2 & A3 & A4). unfold same_machine_state. repeat split; congruence.
Qed.
