(* ResetRaceOrder.v -- C10: delay_firstb is exactly the boundary.  For every order of the sub-steps of
   reset() that does not cancel the timers before it empties both queues there is a schedule (timer
   thread idle at the call, never in the window r_raced, never dead-locked) that leaves something of
   the previous life behind.  Model: ResetRace.v. *)
From V Require Import Base GenResetOrder ResetRace.
Local Open Scope N_scope.

(* number of AReset actions a sub-step needs *)
Definition cost (v : rr_variant) (p : reset_part) : nat :=
  match p with ResetDelay => if rv_locks_targets v then 2%nat else 1%nat | _ => 1%nat end.
Fixpoint costs (v : rr_variant) (l : list reset_part) : nat :=
  match l with [] => 0%nat | p :: r => (cost v p + costs v r)%nat end.

Definition resets (n : nat) : list act := repeat AReset n.

Lemma rr_run_app' : forall v s a b, rr_run v s (a ++ b) = rr_run v (rr_run v s a) b.
Proof. intros. unfold rr_run. apply fold_left_app. Qed.

Lemma rr_run_cons : forall v s a r, rr_run v s (a :: r) = rr_run v (rr_step v s a) r.
Proof. reflexivity. Qed.

(* the resetting thread alone, the timer thread idle: what n >= costs AReset actions do *)
Definition calm (s : rstate) : Prop := r_cb s = CbIdle /\ r_blocked s = false /\ r_locked s = false.

Lemma resets_returned : forall v n s, r_todo s = [] -> r_blocked s = false -> rr_run v s (resets n) = s.
Proof.
  intros v n. induction n as [|n IH]; intros s Ht Hb; [reflexivity|].
  cbn [resets repeat]. rewrite rr_run_cons.
  assert (E : rr_step v s AReset = s).
  { unfold rr_step. rewrite Hb. unfold reset_step. rewrite Ht. reflexivity. }
  rewrite E. apply IH; assumption.
Qed.

(* one sub-step of reset() from a calm state *)
Lemma one_part : forall v s p rest, calm s -> r_todo s = p :: rest ->
  let s' := rr_run v s (resets (cost v p)) in
  calm s' /\ r_todo s' = rest /\ r_raced s' = r_raced s
  /\ (part_eqb p ResetExternal = false -> r_ext s' = r_ext s)
  /\ (part_eqb p ResetInternal = false -> r_int s' = r_int s)
  /\ (part_eqb p ResetDelay = false -> r_pend s' = r_pend s /\ r_targets s' = r_targets s).
Proof.
  intros v s p rest Hcalm Ht. destruct Hcalm as (Hc & Hb & Hl). unfold calm.
  destruct s as [ext int pend tg cb todo lk bl rc pr]. cbn in Hc, Hb, Hl, Ht. subst cb bl lk todo.
  destruct p; cbn [cost]; [destruct v as [[|]]|..]; cbn; rewrite ?orb_false_r;
    repeat split; try reflexivity; try (cbn in *; congruence).
Qed.

Lemma resets_add : forall a b, resets (a + b) = resets a ++ resets b.
Proof. intros. unfold resets. apply repeat_app. Qed.

(* a prefix [a] of the remaining sub-steps *)
Lemma parts_prefix : forall v a s rest, calm s -> r_todo s = a ++ rest ->
  let s' := rr_run v s (resets (costs v a)) in
  calm s' /\ r_todo s' = rest /\ r_raced s' = r_raced s
  /\ (has_part ResetExternal a = false -> r_ext s' = r_ext s)
  /\ (has_part ResetInternal a = false -> r_int s' = r_int s)
  /\ (has_part ResetDelay a = false -> r_pend s' = r_pend s /\ r_targets s' = r_targets s).
Proof.
  intros v a. induction a as [|p a IH]; intros s rest Hcalm Ht.
  - cbn. repeat split; try apply Hcalm; try reflexivity. exact Ht.
  - cbn [costs]. rewrite resets_add, rr_run_app'.
    destruct (one_part v s p (a ++ rest) Hcalm Ht) as (C1 & T1 & R1 & E1 & I1 & D1).
    destruct (IH _ rest C1 T1) as (C2 & T2 & R2 & E2 & I2 & D2).
    cbn zeta in *. split; [exact C2|]. split; [exact T2|]. split; [rewrite R2; exact R1|].
    unfold has_part. cbn [existsb]. split; [|split].
    + intro H. apply orb_false_iff in H. destruct H as [H1 H2].
      rewrite E2 by exact H2. apply E1. destruct p; try reflexivity; discriminate H1.
    + intro H. apply orb_false_iff in H. destruct H as [H1 H2].
      rewrite I2 by exact H2. apply I1. destruct p; try reflexivity; discriminate H1.
    + intro H. apply orb_false_iff in H. destruct H as [H1 H2].
      destruct (D2 H2) as [P2 G2]. rewrite P2, G2. apply D1. destruct p; try reflexivity; discriminate H1.
Qed.

(* more AReset actions than needed do nothing after the return *)
Lemma parts_all : forall v l s n, calm s -> r_todo s = l -> (costs v l <= n)%nat ->
  let s' := rr_run v s (resets n) in
  r_blocked s' = false /\ r_todo s' = [] /\ r_raced s' = r_raced s
  /\ (has_part ResetExternal l = false -> r_ext s' = r_ext s)
  /\ (has_part ResetInternal l = false -> r_int s' = r_int s)
  /\ (has_part ResetDelay l = false -> r_pend s' = r_pend s).
Proof.
  intros v l s n Hcalm Ht Hn.
  replace n with (costs v l + (n - costs v l))%nat by lia.
  rewrite resets_add, rr_run_app'.
  assert (Ht' : r_todo s = l ++ []) by (rewrite app_nil_r; exact Ht).
  destruct (parts_prefix v l s [] Hcalm Ht') as ((C1 & B1 & L1) & T1 & R1 & E1 & I1 & D1).
  cbn zeta in *. rewrite resets_returned by assumption.
  split; [exact B1|]. split; [exact T1|]. split; [exact R1|]. split; [exact E1|]. split; [exact I1|].
  intro H. apply D1. exact H.
Qed.

(* ---- the shape of an order without delay_firstb ---- *)
Lemma no_delay_first : forall o, delay_firstb o = false ->
  has_part ResetDelay o = false
  \/ exists a r, o = a ++ ResetDelay :: r /\ has_part ResetDelay a = false
                 /\ (has_part ResetExternal r = false \/ has_part ResetInternal r = false).
Proof.
  induction o as [|p o IH]; intro H; [left; reflexivity|].
  cbn [delay_firstb] in H. apply orb_false_iff in H. destruct H as [H1 H2].
  destruct p.
  - right. exists [], o. split; [reflexivity|]. split; [reflexivity|].
    cbn [part_eqb andb] in H1. apply andb_false_iff in H1. exact H1.
  - destruct (IH H2) as [Hn|(a & r & Ho & Ha & Hr)].
    + left. unfold has_part. cbn [existsb part_eqb orb]. exact Hn.
    + right. exists (ResetExternal :: a), r. split; [rewrite Ho; reflexivity|]. split; [|exact Hr].
      unfold has_part. cbn [existsb part_eqb orb]. exact Ha.
  - destruct (IH H2) as [Hn|(a & r & Ho & Ha & Hr)].
    + left. unfold has_part. cbn [existsb part_eqb orb]. exact Hn.
    + right. exists (ResetInternal :: a), r. split; [rewrite Ho; reflexivity|]. split; [|exact Hr].
      unfold has_part. cbn [existsb part_eqb orb]. exact Ha.
Qed.

Lemma nothing_left_ext : forall s e l, r_ext s = e :: l -> nothing_leftb s = false.
Proof. intros s e l H. unfold nothing_leftb. rewrite H. reflexivity. Qed.
Lemma nothing_left_int : forall s e l, r_int s = e :: l -> nothing_leftb s = false.
Proof. intros s e l H. unfold nothing_leftb. rewrite H. destruct (r_ext s); reflexivity. Qed.
Lemma nothing_left_pend : forall s u l, r_pend s = u :: l -> nothing_leftb s = false.
Proof. intros s u l H. unfold nothing_leftb. rewrite H. destruct (r_ext s); [destruct (r_int s)|]; reflexivity. Qed.

Lemma app_last_cons : forall (A : Type) (l : list A) (x : A), exists y r, l ++ [x] = y :: r.
Proof. intros A l x. destruct l as [|y r]; [exists x, []; reflexivity|exists y, (r ++ [x]); reflexivity]. Qed.

(* a whole callback, from the timer becoming due to its return, nobody else moving *)
Lemma deliver_run : forall v s, calm s -> r_pend s = [7] -> r_targets s = [(7, KDeliver)] ->
  let s2 := rr_run v s [AFire 7; ATimer; ATimer] in
  calm s2 /\ r_todo s2 = r_todo s /\ r_raced s2 = r_raced s /\ r_ext s2 = r_ext s ++ [EvTimer 7].
Proof.
  intros v s (Hc & Hb & Hl) Hp Hg. unfold calm.
  destruct s as [ext int pend tg cb todo lk bl rc pr]. cbn in Hc, Hb, Hl, Hp, Hg. subst cb bl lk pend tg.
  cbn. repeat split; reflexivity.
Qed.

Lemma error_run : forall v s, calm s -> r_pend s = [7] -> r_targets s = [(7, KError)] ->
  let s2 := rr_run v s [AFire 7; ATimer; ATimer; ATimer] in
  calm s2 /\ r_todo s2 = r_todo s /\ r_raced s2 = r_raced s /\ r_int s2 = r_int s ++ [EvError 7].
Proof.
  intros v s (Hc & Hb & Hl) Hp Hg. unfold calm.
  destruct s as [ext int pend tg cb todo lk bl rc pr]. cbn in Hc, Hb, Hl, Hp, Hg. subst cb bl lk pend tg.
  cbn. repeat split; reflexivity.
Qed.

(* U.  every order without delay_firstb, both variants *)
Theorem delay_first_necessary_lemma :
  forall v order, delay_firstb order = false ->
    exists ext int pend targets sched,
      let s := rr_run v (rr_at_call order ext int pend targets CbIdle) sched in
      returned s = true /\ r_raced s = false /\ r_blocked s = false /\ nothing_leftb s = false.
Proof.
  intros v order H. destruct (no_delay_first order H) as [Hn|(a & r & Ho & Ha & Hr)].
  - (* the timers are never cancelled: a pending timer is still pending after the return *)
    exists [], [], [7], [(7, KDeliver)], (resets (costs v order)).
    set (s0 := rr_at_call order [] [] [7] [(7, KDeliver)] CbIdle).
    assert (C0 : calm s0) by (repeat split).
    destruct (parts_all v order s0 (costs v order) C0 eq_refl (le_n _)) as (B & T & R & _ & _ & D).
    cbn zeta in *. split; [unfold returned; rewrite T; reflexivity|]. split; [rewrite R; reflexivity|].
    split; [exact B|]. apply nothing_left_pend with (u := 7) (l := []). rewrite D by exact Hn. reflexivity.
  - (* the timer fires after the sub-steps before the first cancellation; what it delivers goes into the
       queue that is not emptied afterwards *)
    destruct Hr as [Hr|Hr].
    + exists [], [], [7], [(7, KDeliver)],
        (resets (costs v a) ++ [AFire 7; ATimer; ATimer] ++ resets (costs v (ResetDelay :: r))).
      set (s0 := rr_at_call order [] [] [7] [(7, KDeliver)] CbIdle).
      assert (C0 : calm s0) by (repeat split).
      assert (T0 : r_todo s0 = a ++ ResetDelay :: r) by exact Ho.
      destruct (parts_prefix v a s0 _ C0 T0) as ((C1 & B1 & L1) & T1 & R1 & _ & _ & D1).
      destruct (D1 Ha) as [P1 G1]. cbn zeta in *.
      rewrite !rr_run_app'. set (s1 := rr_run v s0 (resets (costs v a))) in *.
      change (r_pend s0) with [7] in P1. change (r_raced s0) with false in R1.
      match type of G1 with _ = ?t => let t' := eval cbv in t in change t with t' in G1 end.
      clearbody s1.
      (* the callback from start to end *)
      destruct (deliver_run v s1 (conj C1 (conj B1 L1)) P1 G1) as (C2 & T2 & R2 & X2). cbn zeta in *.
      set (s2 := rr_run v s1 [AFire 7; ATimer; ATimer]) in *. rewrite T1 in T2.
      destruct (parts_all v (ResetDelay :: r) s2 _ C2 T2 (le_n _)) as (B3 & T3 & R3 & E3 & _ & _).
      cbn zeta in *. split; [unfold returned; rewrite T3; reflexivity|].
      split; [rewrite R3, R2, R1; reflexivity|]. split; [exact B3|].
      assert (He : has_part ResetExternal (ResetDelay :: r) = false) by (rewrite <- Hr; reflexivity).
      destruct (app_last_cons _ (r_ext s1) (EvTimer 7)) as (y & l & Hy).
      apply nothing_left_ext with (e := y) (l := l). rewrite E3 by exact He. rewrite X2. exact Hy.
    + exists [], [], [7], [(7, KError)],
        (resets (costs v a) ++ [AFire 7; ATimer; ATimer; ATimer] ++ resets (costs v (ResetDelay :: r))).
      set (s0 := rr_at_call order [] [] [7] [(7, KError)] CbIdle).
      assert (C0 : calm s0) by (repeat split).
      assert (T0 : r_todo s0 = a ++ ResetDelay :: r) by exact Ho.
      destruct (parts_prefix v a s0 _ C0 T0) as ((C1 & B1 & L1) & T1 & R1 & _ & _ & D1).
      destruct (D1 Ha) as [P1 G1]. cbn zeta in *.
      rewrite !rr_run_app'. set (s1 := rr_run v s0 (resets (costs v a))) in *.
      change (r_pend s0) with [7] in P1. change (r_raced s0) with false in R1.
      match type of G1 with _ = ?t => let t' := eval cbv in t in change t with t' in G1 end.
      clearbody s1.
      destruct (error_run v s1 (conj C1 (conj B1 L1)) P1 G1) as (C2 & T2 & R2 & X2). cbn zeta in *.
      set (s2 := rr_run v s1 [AFire 7; ATimer; ATimer; ATimer]) in *. rewrite T1 in T2.
      destruct (parts_all v (ResetDelay :: r) s2 _ C2 T2 (le_n _)) as (B3 & T3 & R3 & _ & I3 & _).
      cbn zeta in *. split; [unfold returned; rewrite T3; reflexivity|].
      split; [rewrite R3, R2, R1; reflexivity|]. split; [exact B3|].
      assert (Hi : has_part ResetInternal (ResetDelay :: r) = false) by (rewrite <- Hr; reflexivity).
      destruct (app_last_cons _ (r_int s1) (EvError 7)) as (y & l & Hy).
      apply nothing_left_int with (e := y) (l := l). rewrite I3 by exact Hi. rewrite X2. exact Hy.
Qed.
