(* TablesFlattenLemmas.v -- C05: the per-state tables of Chart.flatten (LargeMicroStep::init) against the node
   table of Tables.Impl_tables (ChartToC::prepare): parent, children, ancestors, kinds, sizes, id resolution,
   default completion and history completion.  Proofs only. *)
From V Require Import Base Chart Large Fast CGen Tables TreeLemmas TablesLemmas SetLemmas LargeCacheLemmas
  FlattenWfTree FlattenWfStruct TablesFlatten.
From Coq Require Import Sorted.
Local Open Scope nat_scope.

(* ------------------------------------------------------------------ list facts *)

Lemma tf_find_map {A B} (P : B -> bool) (f : A -> B) l :
  find P (map f l) = match find (fun x => P (f x)) l with Some x => Some (f x) | None => None end.
Proof. induction l as [|x l IH]; [reflexivity|]. cbn [map find]. destruct (P (f x)); [reflexivity | exact IH]. Qed.

Lemma tf_find_ext_in {A} (P Q : A -> bool) l : (forall x, In x l -> P x = Q x) -> find P l = find Q l.
Proof.
  induction l as [|x l IH]; intros H; [reflexivity|]. cbn [find]. rewrite (H x (or_introl eq_refl)).
  rewrite IH by (intros; apply H; right; assumption). reflexivity.
Qed.

Lemma tf_find_filter {A} (P : A -> bool) l : find P l = match filter P l with x :: _ => Some x | [] => None end.
Proof. induction l as [|x l IH]; [reflexivity|]. cbn [find filter]. destruct (P x); [reflexivity | exact IH]. Qed.

Lemma tf_filter_map_map {A B C} (f : B -> option C) (g : A -> B) l : filter_map f (map g l) = filter_map (fun x => f (g x)) l.
Proof. induction l as [|x l IH]; [reflexivity|]. cbn [map filter_map]. rewrite IH. reflexivity. Qed.

Lemma tf_filter_map_filter {A} (P : A -> bool) l : filter_map (fun x => if P x then Some x else None) l = filter P l.
Proof. induction l as [|x l IH]; [reflexivity|]. cbn [filter_map filter]. destruct (P x); rewrite IH; reflexivity. Qed.

Lemma tf_filter_map_ext_in {A B} (f g : A -> option B) l : (forall x, In x l -> f x = g x) -> filter_map f l = filter_map g l.
Proof.
  induction l as [|x l IH]; intros H; [reflexivity|]. cbn [filter_map]. rewrite (H x (or_introl eq_refl)).
  rewrite IH by (intros; apply H; right; assumption). reflexivity.
Qed.

Lemma tf_ssorted_rev_desc l : ssorted l -> StronglySorted (fun x y => y < x) (rev l).
Proof.
  induction l as [|x l IH]; cbn [ssorted rev]; [constructor|]. intros [H1 H2].
  apply StronglySorted_app; [apply IH; exact H2 | repeat constructor|].
  intros a b Ha [<-|[]]. apply H1. apply in_rev. exact Ha.
Qed.

(* on descending lists with the same members, [find] of predicates that agree on the members agrees *)
Lemma tf_find_desc_ext (P Q : nat -> bool) l1 l2 :
  StronglySorted (fun x y => y < x) l1 -> StronglySorted (fun x y => y < x) l2 ->
  (forall x, In x l1 <-> In x l2) -> (forall x, In x l1 -> P x = Q x) -> find P l1 = find Q l2.
Proof.
  intros S1 S2 Hset Hpq. pose proof (find_sorted_desc P l1 S1) as F1. pose proof (find_sorted_desc Q l2 S2) as F2.
  destruct (find P l1) as [a|], (find Q l2) as [b|].
  - destruct F1 as (A1 & A2 & A3), F2 as (B1 & B2 & B3). f_equal.
    assert (b <= a) by (apply A3; [apply Hset; exact B1 | rewrite Hpq by (apply Hset; exact B1); exact B2]).
    assert (a <= b) by (apply B3; [apply Hset; exact A1 | rewrite <- Hpq by exact A1; exact A2]). lia.
  - destruct F1 as (A1 & A2 & _). specialize (F2 a (proj1 (Hset a) A1)). rewrite <- Hpq in F2 by exact A1. congruence.
  - destruct F2 as (B1 & B2 & _). specialize (F1 b (proj2 (Hset b) B1)). rewrite Hpq in F1 by (apply Hset; exact B1). congruence.
  - reflexivity.
Qed.

Lemma tf_is_pseudo_type u : is_pseudo (type_of u) = is_pseudo_kind (t_kind u).
Proof. unfold type_of. destruct (t_kind u); try reflexivity; destruct (has_proper_child u); reflexivity. Qed.

Lemma tf_is_hist_type u : is_hist (type_of u) = is_hist_kind (t_kind u).
Proof. unfold type_of. destruct (t_kind u); try reflexivity; destruct (has_proper_child u); reflexivity. Qed.

(* ------------------------------------------------------------------ the flat state table against the node table *)

Section Agree.
Variable late : bool.
Variable t0 : tree.
Local Notation root := (resort t0).
Local Notation c := (flatten late t0).
Local Notation n := (tsize (resort t0)).
Local Notation nodes := (nodes_of (resort t0)).
Variable chains : list (list nat).
Hypothesis Hch : chains_of nodes = Some chains.

Lemma tf_nstates : nstates c = n.
Proof. apply flatten_nstates. Qed.

Lemma tf_parent i : i < n -> fs_parent (st c i) = npar nodes i.
Proof.
  intros Hi. destruct (st_flatten late t0 i Hi) as (E & _).  rewrite E.
  symmetry. apply npar_nodes. exact Hi.
Qed.

Lemma tf_sid i : i < n -> fs_sid (st c i) = t_sid (ntree nodes i).
Proof.
  intros Hi. destruct (st_flatten late t0 i Hi) as (_ & _ & _ & _ & E & _).  rewrite E.
  rewrite (ntree_nodes root i Hi). reflexivity.
Qed.

Lemma tf_type i : i < n -> fs_type (st c i) = type_of (ntree nodes i).
Proof.
  intros Hi. destruct (st_flatten late t0 i Hi) as (_ & _ & _ & _ & _ & E).  rewrite E.
  rewrite (ntree_nodes root i Hi). reflexivity.
Qed.

Lemma tf_size i : i < n -> fs_size (st c i) = tsize (ntree nodes i).
Proof.
  intros Hi. destruct (st_flatten late t0 i Hi) as (_ & _ & _ & E & _).  rewrite E.
  rewrite (ntree_nodes root i Hi). reflexivity.
Qed.

Lemma tf_pseudo i : i < n -> is_pseudo (fs_type (st c i)) = is_pseudo_kind (nkind nodes i).
Proof. intros Hi. rewrite (tf_type i Hi). apply tf_is_pseudo_type. Qed.

Lemma tf_hist i : i < n -> is_hist (fs_type (st c i)) = is_history nodes i.
Proof. intros Hi. rewrite (tf_type i Hi). apply tf_is_hist_type. Qed.

(* a is in the ancestor set of b  iff  the parent chain of b meets a *)
Lemma tf_anc a b : b < n -> mem a (fs_ancestors (st c b)) = is_desc chains b a.
Proof.
  intros Hb. apply bool_eq_iff.
  destruct (st_flatten late t0 b Hb) as (_ & _ & E & _).  rewrite E, mem_In.
  rewrite (ancestors_of_prefix t0 a b Hb). 
  rewrite (is_desc_prefix root chains Hch b a Hb). reflexivity.
Qed.

Lemma tf_anc_interval a b : a < n -> b < n -> (is_desc chains b a = true <-> a < b /\ b < a + tsize (ntree nodes a)).
Proof.
  intros Ha Hb. rewrite <- (tf_anc a b Hb), <- (tf_size a Ha).
  destruct (tree_interval_flatten late t0) as (_ & _ & H & _). apply (H a b Ha Hb).
Qed.

Lemma tf_anc_lt a b : b < n -> is_desc chains b a = true -> a < n.
Proof. intros Hb H. apply (is_desc_prefix root chains Hch b a Hb) in H. apply H. Qed.

Lemma tf_anc_ssorted i : i < n -> ssorted (fs_ancestors (st c i)).
Proof.
  intros Hi. destruct (st_flatten late t0 i Hi) as (_ & _ & E & _). rewrite E. clear E Hi.
  generalize n. intros f. revert i. induction f as [|f IH]; intros i; cbn [ancestors_of]; [exact I|].
  destruct (snd (nth i (nodes_of root) (root, None))) as [p|]; [|exact I].
  apply ssorted_insert. apply IH.
Qed.

(* the children list is the list of the nodes whose parent pointer is i, ascending *)
Definition kidx (i : nat) : list nat := filter (fun j => eqb_opt (npar nodes j) (Some i)) (seq 0 n).

Lemma tf_children i : i < n -> fs_children (st c i) = kidx i.
Proof.
  intros Hi. destruct (tree_interval_flatten late t0) as (_ & _ & _ & _ & _ & Hc & _). 
  apply ssorted_ext.
  - destruct (st_flatten late t0 i Hi) as (_ & E & _).  rewrite E. apply child_indices_ssorted.
  - apply ssorted_filter, ssorted_seq.
  - intros b. rewrite (Hc i b Hi). unfold kidx. rewrite filter_In, in_seq. split.
    + intros [Hb E]. rewrite <- (tf_parent b Hb), E. split; [lia | cbn; apply Nat.eqb_refl].
    + intros [Hb E]. assert (Hbn : b < n) by lia. split; [exact Hbn|]. rewrite (tf_parent b Hbn).
      destruct (npar nodes b) as [q|]; [|discriminate]. cbn in E. apply Nat.eqb_eq in E. congruence.
Qed.

Lemma tf_child_indices i : i < n -> child_indices (t_kids (ntree nodes i)) (S i) = kidx i.
Proof.
  intros Hi. rewrite <- (tf_children i Hi). destruct (st_flatten late t0 i Hi) as (_ & E & _). 
  rewrite E. rewrite (ntree_nodes root i Hi). reflexivity.
Qed.

Lemma tf_child_indices_trees : forall kids s,
  (forall j kid, nth_error kids j = Some kid ->
     s + tsize_list (firstn j kids) < n /\ ntree nodes (s + tsize_list (firstn j kids)) = kid) ->
  map (ntree nodes) (child_indices kids s) = kids.
Proof.
  induction kids as [|x r IH]; intros s H; [reflexivity|]. cbn [child_indices map]. f_equal.
  - destruct (H 0 x eq_refl) as [_ E]. cbn [firstn tsize_list fold_right] in E. rewrite Nat.add_0_r in E. exact E.
  - apply IH. intros j kid Hj. specialize (H (S j) kid Hj). cbn [firstn] in H. rewrite tsize_list_cons in H.
    replace (s + tsize x + tsize_list (firstn j r)) with (s + (tsize x + tsize_list (firstn j r))) by lia. exact H.
Qed.

(* the sub-trees of the children of node i are the nodes numbered kidx i *)
Lemma tf_kids i : i < n -> map (ntree nodes) (kidx i) = t_kids (ntree nodes i).
Proof.
  intros Hi. rewrite <- (tf_child_indices i Hi). apply tf_child_indices_trees.
  intros j kid Hj. exact (ntree_kid root i j kid Hi Hj).
Qed.

Lemma tf_kids_combine i : i < n ->
  combine (t_kids (ntree nodes i)) (child_indices (t_kids (ntree nodes i)) (S i)) = map (fun b => (ntree nodes b, b)) (kidx i).
Proof.
  intros Hi. rewrite (tf_child_indices i Hi). rewrite <- (tf_kids i Hi) at 1.
  generalize (kidx i). intros l. induction l as [|x l IH]; [reflexivity|]. cbn [map combine]. rewrite IH. reflexivity.
Qed.

Lemma tf_kidx_filter (P : nat -> bool) i : filter P (kidx i) = filter (fun j => eqb_opt (npar nodes j) (Some i) && P j) (seq 0 n).
Proof. unfold kidx. apply filter_filter. Qed.

Lemma tf_child_states i : child_states nodes i = filter (fun j => k_state (nkind nodes j)) (kidx i).
Proof. rewrite tf_kidx_filter. unfold child_states. rewrite (br_idx root). reflexivity. Qed.

Lemma tf_has_proper_child i : i < n ->
  has_proper_child (ntree nodes i) = match child_states nodes i with [] => false | _ => true end.
Proof.
  intros Hi. unfold has_proper_child. rewrite <- (tf_kids i Hi), tf_child_states.
  induction (kidx i) as [|x l IH]; [reflexivity|]. cbn [map existsb filter]. unfold k_state at 1. unfold nkind at 1.
  destruct (is_proper_kind (t_kind (ntree nodes x))); [reflexivity | exact IH].
Qed.

(* compound: the engines' state type against isCompound of Predicates.cpp *)
Lemma tf_is_comp i : wf_leaves root = true -> i < n -> is_comp (fs_type (st c i)) = is_compound nodes i.
Proof.
  intros Hwl Hi. rewrite (tf_type i Hi). unfold type_of, is_compound, is_parallel, k_state.
  rewrite (tf_has_proper_child i Hi). fold (nkind nodes i).
  pose proof (wf_leaves_no_children root i Hwl Hi) as Hl.
  assert (Hcs : spec_children root i = [] -> child_states nodes i = []).
  { intros E. rewrite (child_states_spec root i Hi). unfold spec_proper_children. rewrite E. reflexivity. }
  destruct (nkind nodes i); cbn [is_proper_kind is_pseudo_kind negb andb is_comp]; try reflexivity;
    try (rewrite (Hcs Hl); reflexivity); destruct (child_states nodes i); reflexivity.
Qed.

(* ------------------------------------------------------------------ id resolution *)

Local Notation ids := (fl_ids t0).

Lemma tf_ids_map : ids = map (fun j => (t_sid (ntree nodes j), j)) (seq 0 n).
Proof.
  unfold fl_ids.  rewrite doc_nodes_length. 
  rewrite <- (map_nth_seq' (combine (doc_nodes root 0 None) (seq 0 n)) ((dummy_tree, None), 0)).
  rewrite combine_length, doc_nodes_length, seq_length.  rewrite Nat.min_id, map_map.
  apply map_ext_in. intros j Hj. apply in_seq in Hj.
  rewrite combine_nth by (rewrite doc_nodes_length, seq_length; reflexivity).
  rewrite seq_nth by lia. cbn [fst snd Nat.add]. reflexivity.
Qed.

(* an id every bearer of which has an id attribute is resolved alike *)
Lemma tf_resolve s :
  (forall j, j < n -> has_id (nkind nodes j) || negb (t_sid (ntree nodes j) =? s)%N = true) ->
  nat_of_sid ids s = get_state nodes s.
Proof.
  intros H. unfold nat_of_sid, get_state. rewrite tf_ids_map, tf_find_map. cbn [fst snd]. rewrite (br_idx root).
  rewrite (tf_find_ext_in (fun x => (t_sid (ntree nodes x) =? s)%N)
                          (fun j => has_id (nkind nodes j) && (t_sid (ntree nodes j) =? s)%N)).
  - destruct (find _ (seq 0 n)); reflexivity.
  - intros j Hj. apply in_seq in Hj. specialize (H j ltac:(lia)).
    destruct (has_id (nkind nodes j)), (t_sid (ntree nodes j) =? s)%N; cbn in *; congruence.
Qed.

Hypothesis Hrefs : tf_refs_ok root = true.

Lemma tf_refs i s : i < n -> In s (node_refs (ntree nodes i)) ->
  forall j, j < n -> has_id (nkind nodes j) || negb (t_sid (ntree nodes j) =? s)%N = true.
Proof.
  intros Hi Hs j Hj. unfold tf_refs_ok in Hrefs. rewrite forallb_forall in Hrefs.
  change (doc_nodes root 0 None) with nodes in Hrefs.
  assert (Hlen : length nodes = n) by apply nodes_length. rewrite Hlen in Hrefs.
  specialize (Hrefs i ltac:(apply in_seq; lia)). rewrite forallb_forall in Hrefs. specialize (Hrefs s Hs).
  rewrite forallb_forall in Hrefs. apply Hrefs. apply in_seq. lia.
Qed.

Lemma tf_resolve_initattr i l : i < n -> t_initattr (ntree nodes i) = Some l ->
  filter_map (nat_of_sid ids) l = filter_map (get_state nodes) l.
Proof.
  intros Hi Hl. apply tf_filter_map_ext_in. intros s Hs. apply tf_resolve. apply (tf_refs i s Hi).
  unfold node_refs. rewrite Hl. apply in_or_app. left. exact Hs.
Qed.

Lemma tf_resolve_targets i t l : i < n -> In t (t_trans (ntree nodes i)) -> tt_targets t = Some l ->
  filter_map (nat_of_sid ids) l = filter_map (get_state nodes) l.
Proof.
  intros Hi Ht Hl. apply tf_filter_map_ext_in. intros s Hs. apply tf_resolve. apply (tf_refs i s Hi).
  unfold node_refs. apply in_or_app. right. apply in_flat_map. exists t. split; [exact Ht|]. rewrite Hl. exact Hs.
Qed.

(* ------------------------------------------------------------------ default completion *)

Lemma tf_completion_state i j : i < n -> is_history nodes i = false ->
  mem j (fs_completion (st c i)) = mem j (impl_completion_state nodes i).
Proof.
  intros Hi Hh. rewrite (fl_completion late t0 i Hi). 
  unfold completion_of, impl_completion_state, is_parallel. fold (nkind nodes i).
  rewrite (tf_kids_combine i Hi).
  assert (Hpar : filter_map (fun p : tree * nat => if is_proper_kind (t_kind (fst p)) then Some (snd p) else None)
                   (map (fun b => (ntree nodes b, b)) (kidx i)) = child_states nodes i).
  { rewrite tf_filter_map_map. cbn [fst snd]. rewrite tf_child_states. apply tf_filter_map_filter. }
  assert (Hrest :
    mem j match t_initattr (ntree nodes i) with
          | Some l => set_of_list (filter_map (nat_of_sid ids) l)
          | None =>
            match find (fun p : tree * nat => match t_kind (fst p) with KInitial => true | _ => false end)
                       (map (fun b => (ntree nodes b, b)) (kidx i)) with
            | Some p => [snd p]
            | None => match find (fun p : tree * nat => is_proper_kind (t_kind (fst p))) (map (fun b => (ntree nodes b, b)) (kidx i)) with
                      | Some p => [snd p]
                      | None => []
                      end
            end
          end =
    mem j match t_initattr (ntree nodes i) with
          | Some l => filter_map (get_state nodes) l
          | None =>
            match filter (fun j0 => eqb_opt (npar nodes j0) (Some i) && match nkind nodes j0 with KInitial => true | _ => false end) (idx nodes) with
            | ini :: _ => [ini]
            | [] => match child_states nodes i with c0 :: _ => [c0] | [] => [] end
            end
          end).
  { destruct (t_initattr (ntree nodes i)) as [l|] eqn:Hl.
    - apply bool_eq_iff. rewrite !mem_In, In_set_of_list, (tf_resolve_initattr i l Hi Hl). reflexivity.
    - rewrite !tf_find_map. cbn [fst snd]. rewrite !tf_find_filter, (br_idx root), <- tf_kidx_filter.
      fold (k_state). rewrite tf_child_states.
      change (fun x : nat => match t_kind (ntree nodes x) with KInitial => true | _ => false end)
        with (fun x : nat => match nkind nodes x with KInitial => true | _ => false end).
      destruct (filter (fun x => match nkind nodes x with KInitial => true | _ => false end) (kidx i)); [|reflexivity].
      change (fun x : nat => is_proper_kind (t_kind (ntree nodes x))) with (fun x : nat => k_state (nkind nodes x)).
      destruct (filter (fun x => k_state (nkind nodes x)) (kidx i)); reflexivity. }
  unfold is_history in Hh.
  destruct (nkind nodes i) eqn:Hk; cbn [is_hist_kind] in Hh; try discriminate; try exact Hrest.
  rewrite Hpar. reflexivity.
Qed.

(* ------------------------------------------------------------------ history completion (repaired setHistoryCompletion) *)

Lemma tf_nth_nodes j : j < n -> nth j (doc_nodes root 0 None) (ntree nodes j, None) = (ntree nodes j, npar nodes j).
Proof.
  intros Hj. rewrite (nth_indep _ _ (root, None)) by (rewrite doc_nodes_length; exact Hj).
  apply (nth_nodes_ntree t0 j Hj).
Qed.

Lemma tf_completion_hist h j : h < n -> j < n -> is_history nodes h = true ->
  mem j (fs_completion (st c h)) = mem j (fst (hist_result (impl_hist_results nodes chains tv_fixed root) h)).
Proof.
  intros Hh Hj Hk. rewrite (hist_result_fixed root chains h Hh Hk). cbn [hist_entry_fixed fst snd].
  rewrite (br_idx root), mem_filter_seq by (apply in_seq; lia).
  rewrite (fl_completion late t0 h Hh).  unfold completion_of. fold (nkind nodes h).
  unfold is_history, is_deep in *.
  assert (Hjh : is_hist_kind (nkind nodes j) = false -> (j =? h) = false).
  { intros Hp. apply Nat.eqb_neq. intros ->. congruence. }
  destruct (nkind nodes h) eqn:Hkh; cbn [is_hist_kind] in Hk; try discriminate.
  - (* shallow *)
    destruct (npar nodes h) as [p|] eqn:Hp.
    + apply bool_eq_iff. rewrite mem_In, In_filter_map. rewrite doc_nodes_length.  split.
      * intros (x & Hx & Hf). apply in_seq in Hx.
        rewrite (nth_indep _ _ (root, None)) in Hf by (rewrite doc_nodes_length; lia).
        rewrite (nth_nodes_ntree t0 x ltac:(lia)) in Hf. 
        destruct (npar nodes x) as [px|] eqn:Hpx; [|discriminate].
        destruct ((px =? p) && negb (is_hist_kind (t_kind (ntree nodes x)))) eqn:Hc; [|discriminate].
        inversion Hf; subst x. rewrite andb_true_iff, Nat.eqb_eq, negb_true_iff in Hc. destruct Hc as [-> Hc].
        fold (nkind nodes j) in Hc. rewrite (Hjh Hc), Hpx, Hc. cbn. rewrite Nat.eqb_refl. reflexivity.
      * rewrite !andb_true_iff, !negb_true_iff. intros [[Hne _] [Hpar Hnh]].
        exists j. split; [apply in_seq; lia|].
        rewrite (nth_indep _ _ (root, None)) by (rewrite doc_nodes_length; lia).
        rewrite (nth_nodes_ntree t0 j Hj). 
        destruct (npar nodes j) as [pj|]; [|discriminate]. cbn in Hpar. rewrite Hpar. fold (nkind nodes j). rewrite Hnh. reflexivity.
    + cbn [mem]. symmetry. apply andb_false_iff. right.
      destruct (npar nodes j) as [pj|] eqn:Hpj; [reflexivity|]. cbn [eqb_opt andb]. apply negb_false_iff.
      (* j and h are both the root *)
      assert (Hroot : forall x, x < n -> npar nodes x = None -> x = 0).
      { intros x Hx Hnx. rewrite <- (tf_parent x Hx) in Hnx.
        destruct (tree_interval_flatten late t0) as (_ & _ & _ & _ & H0 & _). apply (H0 x Hx). exact Hnx. }
      rewrite (Hroot j Hj Hpj) in *. rewrite (Hroot h Hh Hp) in *. unfold nkind in Hkh. unfold nkind. rewrite Hkh. reflexivity.
  - (* deep *)
    destruct (npar nodes h) as [p|] eqn:Hp.
    + assert (Hpn : p < n) by (pose proof (br_npar_lt root h p Hh Hp); lia).
      rewrite (nth_indep _ _ (root, None)) by (rewrite doc_nodes_length; exact Hpn).
      rewrite (nth_nodes_ntree t0 p Hpn).  cbn [fst].
      apply bool_eq_iff. rewrite mem_In, filter_In, in_seq, !andb_true_iff, !negb_true_iff.
      rewrite (tf_anc_interval p j Hpn Hj).
      rewrite (nth_indep _ _ (root, None)) by (rewrite doc_nodes_length; exact Hj).
      rewrite (nth_nodes_ntree t0 j Hj).  cbn [fst]. fold (nkind nodes j).
      pose proof (tsize_pos (ntree nodes p)). split.
      * intros [Hr Hnh]. split; [split; [apply Hjh; exact Hnh | reflexivity]|]. split; [lia | exact Hnh].
      * intros [_ [Hr Hnh]]. split; [lia | exact Hnh].
    + cbn [mem]. rewrite !andb_false_r. reflexivity.
Qed.

(* ------------------------------------------------------------------ hasHistoryChild *)

Lemma tf_hashist i : wf_leaves root = true -> i < n ->
  has_history c i =
  impl_hashist_prepare nodes i || (is_history nodes i && snd (hist_result (impl_hist_results nodes chains tv_fixed root) i)).
Proof.
  intros Hwl Hi. unfold has_history. rewrite (tf_hist i Hi).
  destruct (is_history nodes i) eqn:Hk; cbn [andb].
  - rewrite (hist_result_fixed root chains i Hi Hk). cbn [hist_entry_fixed fst snd].
    assert (Hprep : impl_hashist_prepare nodes i = false).
    { unfold impl_hashist_prepare. rewrite (br_idx root). apply not_true_is_false. intros He.
      apply existsb_exists in He. destruct He as (j & Hj & He). apply in_seq in Hj. rewrite andb_true_iff in He.
      pose proof (wf_leaves_no_children root i Hwl Hi) as Hl. unfold is_history in Hk.
      assert (Hin : In j (spec_children root i)).
      { unfold spec_children. rewrite filter_In, (br_sidx root), in_seq. split; [lia|]. unfold spec_is_child.
        rewrite (br_parent root j) by lia. apply He. }
       destruct (nkind nodes i); cbn in Hk; try discriminate; rewrite Hl in Hin; destruct Hin. }
    rewrite Hprep. cbn [orb]. rewrite (tf_parent i Hi), (br_idx root).
    destruct (npar nodes i) as [p|] eqn:Hp.
    + assert (Hpn : p < n) by (pose proof (br_npar_lt root i p Hi Hp); lia).
      rewrite (tf_size p Hpn). pose proof (tsize_pos (ntree nodes p)).
      apply bool_eq_iff. rewrite !existsb_exists. split; intros (j & Hj & He); exists j; apply in_seq in Hj.
      * assert (Hjn : j < n).
        { destruct (tree_interval_flatten late t0) as (_ & Hsz & _).  specialize (Hsz p Hpn).
          rewrite (tf_size p Hpn) in Hsz. lia. }
        split; [apply in_seq; lia|]. rewrite andb_true_iff in He. destruct He as [H1 H2].
        rewrite (tf_hist j Hjn) in H2. rewrite H1, H2, andb_true_r. cbn [andb]. apply (tf_anc_interval p j Hpn Hjn). lia.
      * assert (Hjn : j < n) by lia. rewrite !andb_true_iff in He. destruct He as [[H1 H2] H3].
        apply (tf_anc_interval p j Hpn Hjn) in H2. split; [apply in_seq; lia|]. rewrite H1, (tf_hist j Hjn), H3. reflexivity.
    + symmetry. apply not_true_is_false. intros He. apply existsb_exists in He. destruct He as (j & _ & He).
      rewrite andb_false_r in He. discriminate.
  - rewrite orb_false_r, (tf_children i Hi). unfold impl_hashist_prepare, kidx. rewrite existsb_filter, (br_idx root).
    apply existsb_ext_in. intros j Hj. apply in_seq in Hj. rewrite (tf_hist j) by lia. reflexivity.
Qed.

End Agree.
