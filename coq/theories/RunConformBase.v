(* RunConformBase.v -- C01, run-level composition, layer 0: the projection of a trace onto what Appendix D
   determines (the function the correspondence check applies, tools/chart_common.py spec_view), the boolean
   legality oracle is complete for ascending lists (so that the invariants of LegalRun.v / LargeCacheLemmas.v
   discharge the hypotheses legal_configb / ascb of step_conforms), and small facts about execution states.
   Definitions and proofs. *)
From V Require Import Base NameMatch Chart Exec Large LargeLemmas Spec Legal SetLemmas LegalAbstract LegalLarge
  Interp LegalRun WfCore LegalOracle LargeCacheLemmas SelectConform SelectConformLemmas MicroConform.
Local Open Scope nat_scope.

(* ------------------------------------------------------------------ the projection

   tools/chart_common.py, spec_view(toks, from_impl=True), token by token in chronological order:
     CFG:…   kept only if it is the first CFG after a }MS (want_cfg), with the root's id removed; clears want_cfg
     E{:r }E:r  for the root id r: dropped (the <scxml> element is no state of Appendix D's configuration)
     EV MS{ }MS X{ }X T{ }T E{ }E C{ }C LOG COMPL{ }COMPL: kept; }MS sets want_cfg
     everything else (RET, STABLE, DIAG): dropped
   [r] is the id of the root: the check's canonical charts give the root id 0, and the Python drops "0".
   The check projects the Spec's trace with from_impl=False (every CFG is kept) after removing the DIAG tokens; on a
   trace of Spec.spec_run that is the same list, because Spec.v emits a TCfg only directly after a TMsE
   (Spec.spec_microstep_d, Spec.spec_run), so every CFG of a Spec trace finds want_cfg set.  The theorems below
   apply this ONE function to both traces. *)
Definition vstep (r : N) (w : bool) (t : tok) : list tok * bool :=
  match t with
  | TCfg ids => (if w then [TCfg (filter (fun i => negb (i =? r)%N) ids)] else [], false)
  | TEb s | TEe s => if (s =? r)%N then ([], w) else ([t], w)
  | TMsE => ([t], true)
  | TEv _ | TMsB | TXb _ | TXe _ | TTb _ | TTe _ | TCb _ | TCe _ | TLog _ | TComplB | TComplE => ([t], w)
  | TRet _ | TStable | TDiag _ => ([], w)
  end.

Fixpoint view (r : N) (w : bool) (l : list tok) : list tok :=
  match l with
  | [] => []
  | t :: rest => fst (vstep r w t) ++ view r (snd (vstep r w t)) rest
  end.

(* want_cfg after the list *)
Fixpoint vw (r : N) (w : bool) (l : list tok) : bool :=
  match l with
  | [] => w
  | t :: rest => vw r (snd (vstep r w t)) rest
  end.

Definition spec_view (r : N) (l : list tok) : list tok := view r false l.

Lemma view_app r : forall a b w, view r w (a ++ b) = view r w a ++ view r (vw r w a) b.
Proof.
  induction a as [|t a IH]; intros b w; cbn [app view vw]; [reflexivity|].
  rewrite IH. now rewrite app_assoc.
Qed.

Lemma vw_app r : forall a b w, vw r w (a ++ b) = vw r (vw r w a) b.
Proof. induction a as [|t a IH]; intros b w; cbn [app vw]; [reflexivity | apply IH]. Qed.

(* two traces (newest first, as x_out keeps them) with the same projection and the same want_cfg *)
Definition veq (r : N) (o1 o2 : list tok) : Prop :=
  view r false (rev o1) = view r false (rev o2) /\ vw r false (rev o1) = vw r false (rev o2).

Lemma veq_refl r o : veq r o o.
Proof. split; reflexivity. Qed.

(* the same newer tokens on both *)
Lemma veq_app r d o1 o2 : veq r o1 o2 -> veq r (d ++ o1) (d ++ o2).
Proof.
  intros [H1 H2]. unfold veq. rewrite !rev_app_distr, !view_app, !vw_app, H1, H2. split; reflexivity.
Qed.

Lemma veq_cons r t o1 o2 : veq r o1 o2 -> veq r (t :: o1) (t :: o2).
Proof. apply (veq_app r [t]). Qed.

Lemma veq_trans r a b d : veq r a b -> veq r b d -> veq r a d.
Proof. intros [A1 A2] [B1 B2]. split; congruence. Qed.

Lemma veq_sym r a b : veq r a b -> veq r b a.
Proof. intros [A1 A2]. split; congruence. Qed.

(* a dropped token on one side *)
Definition droppedb (r : N) (t : tok) : bool :=
  match t with
  | TRet _ | TStable | TDiag _ => true
  | TEb s | TEe s => (s =? r)%N
  | _ => false
  end.

Lemma vstep_dropped r w t : droppedb r t = true -> vstep r w t = ([], w).
Proof. destruct t; cbn; try discriminate; try reflexivity; intros ->; reflexivity. Qed.

Lemma veq_drop_l r t o1 o2 : droppedb r t = true -> veq r o1 o2 -> veq r (t :: o1) o2.
Proof.
  intros Hd [H1 H2]. unfold veq. cbn [rev]. rewrite view_app, vw_app. cbn [view vw]. rewrite (vstep_dropped r _ t Hd).
  cbn [fst snd]. rewrite !app_nil_r. split; assumption.
Qed.

Lemma veq_drop_r r t o1 o2 : droppedb r t = true -> veq r o1 o2 -> veq r o1 (t :: o2).
Proof. intros Hd H. apply veq_sym. apply veq_drop_l; [exact Hd | now apply veq_sym]. Qed.

(* a configuration token on both sides: the engine's configuration contains the root *)
Lemma veq_cfg r ids o1 o2 : veq r o1 o2 -> veq r (TCfg (r :: ids) :: o1) (TCfg ids :: o2).
Proof.
  intros [H1 H2]. unfold veq. cbn [rev]. rewrite !view_app, !vw_app. cbn [view vw vstep fst snd filter].
  rewrite N.eqb_refl. cbn [negb]. rewrite H1, H2. split; reflexivity.
Qed.

(* a configuration token that is not wanted *)
Lemma veq_cfg_unwanted_l r ids o1 o2 : vw r false (rev o1) = false -> veq r o1 o2 -> veq r (TCfg ids :: o1) o2.
Proof.
  intros Hw [H1 H2]. unfold veq. cbn [rev]. rewrite view_app, vw_app. cbn [view vw vstep fst snd]. rewrite Hw.
  cbn [app]. rewrite app_nil_r. split; [exact H1 | congruence].
Qed.

Lemma vw_cfg r ids o : vw r false (rev (TCfg ids :: o)) = false.
Proof. cbn [rev]. rewrite vw_app. reflexivity. Qed.

Lemma vw_same r t o : snd (vstep r (vw r false (rev o)) t) = vw r false (rev o) -> vw r false (rev (t :: o)) = vw r false (rev o).
Proof. intros H. cbn [rev]. rewrite vw_app. cbn [vw]. exact H. Qed.

(* ------------------------------------------------------------------ ascending lists *)

Lemma ssorted_ascb l : ssorted l -> ascb l = true.
Proof.
  induction l as [|x [|y r] IH]; cbn [ascb]; try reflexivity.
  intros [H1 H2]. apply andb_true_iff. split; [apply Nat.ltb_lt, H1; now left | now apply IH].
Qed.

Lemma nodupb_NoDup l : NoDup l -> nodupb l = true.
Proof.
  induction 1 as [|x r Hx _ IH]; cbn [nodupb]; [reflexivity|].
  apply andb_true_iff. split; [apply negb_true_iff, mem_false_In, Hx | exact IH].
Qed.

Lemma filter_len_one {A} (f : A -> bool) (l : list A) k : NoDup l -> In k l -> f k = true ->
  (forall k', In k' l -> f k' = true -> k' = k) -> length (filter f l) = 1.
Proof.
  induction 1 as [|x r Hx Hnd IH]; intros Hin Hf Hu; [destruct Hin|]. cbn [filter].
  destruct Hin as [->|Hin].
  - rewrite Hf. cbn [length]. f_equal.
    assert (E : filter f r = []).
    { destruct (filter f r) as [|y t] eqn:E; [reflexivity|]. exfalso.
      assert (Hy : In y (filter f r)) by (rewrite E; now left). apply filter_In in Hy as [Hy1 Hy2].
      assert (y = k) by (apply Hu; [now right | exact Hy2]). subst. contradiction. }
    now rewrite E.
  - destruct (f x) eqn:Hfx.
    + exfalso. assert (x = k) by (apply Hu; [now left | exact Hfx]). subst. contradiction.
    + apply IH; [exact Hin | exact Hf | intros k' Hk'; apply Hu; now right].
Qed.

(* the boolean oracle of C02 accepts every legal configuration given as a duplicate-free list *)
Lemma legal_configb_complete c cfg : WF c -> LegalCfg c cfg -> NoDup cfg -> legal_configb c cfg = true.
Proof.
  intros W [HL HB] Hnd. unfold legal_configb. apply andb_true_iff. split; [apply andb_true_iff; split|].
  - apply mem_In. exact (lg_root _ _ _ _ HL).
  - now apply nodupb_NoDup.
  - apply forallb_forall. intros i Hi. unfold state_ok.
    apply andb_true_iff. split; [apply andb_true_iff; split; [apply andb_true_iff; split|]|].
    + apply Nat.ltb_lt. now apply HB.
    + destruct (wf_types c W i) as [H|[H|[H|H]]]; rewrite H; reflexivity.
    + destruct (fs_parent (st c i)) as [p|] eqn:Hp; [|reflexivity]. apply mem_In. exact (lg_parent _ _ _ _ HL i p Hi Hp).
    + rewrite (proper_children_all c W). destruct (fs_type (st c i)) eqn:Ht; try reflexivity.
      * apply Nat.eqb_eq. destruct (lg_compound_ex _ _ _ _ HL i Hi Ht) as (k & Hk & Hck).
        apply (filter_len_one _ _ k (wf_children_nodup c W i) Hk); [now apply mem_In|].
        intros k' Hk' Hm. apply mem_In in Hm. exact (lg_compound_uniq _ _ _ _ HL i k' k Hi Ht Hk' Hk Hm Hck).
      * apply forallb_forall. intros k Hk. apply mem_In. exact (lg_parallel _ _ _ _ HL i k Hi Ht Hk).
Qed.

(* ------------------------------------------------------------------ execution states that differ in the trace only *)

Definition same_dyn (x y : xstate) : Prop := x_store x = x_store y /\ x_iq x = x_iq y /\ x_eq x = x_eq y.

Lemma same_dyn_refl x : same_dyn x x.
Proof. repeat split. Qed.
Lemma same_dyn_sym x y : same_dyn x y -> same_dyn y x.
Proof. intros (A & B & C). repeat split; congruence. Qed.
Lemma same_dyn_trans x y z : same_dyn x y -> same_dyn y z -> same_dyn x z.
Proof. intros (A & B & C) (A' & B' & C'). repeat split; congruence. Qed.
Lemma same_dyn_emit_l t x y : same_dyn x y -> same_dyn (emit t x) y.
Proof. intros H. exact H. Qed.
Lemma same_dyn_emit_r t x y : same_dyn x y -> same_dyn x (emit t y).
Proof. intros H. exact H. Qed.

Lemma init_data_dyn d x y : same_dyn x y -> same_dyn (init_data d x) (init_data d y) /\ x_out (init_data d x) = x_out x.
Proof.
  intros (A & B & C). unfold init_data. rewrite A. destruct (ieval (x_store y) (snd d)); cbn; unfold same_dyn; cbn; rewrite ?A, ?B, ?C; auto.
Qed.

Lemma init_datas_dyn ds : forall x y, same_dyn x y ->
  same_dyn (fold_left (fun x d => init_data d x) ds x) (fold_left (fun x d => init_data d x) ds y) /\
  x_out (fold_left (fun x d => init_data d x) ds x) = x_out x.
Proof.
  induction ds as [|d r IH]; intros x y H; cbn [fold_left]; [split; [exact H | reflexivity]|].
  destruct (init_data_dyn d x y H) as [H1 H2]. destruct (IH _ _ H1) as [H3 H4]. split; [exact H3 | congruence].
Qed.

(* the dynamic hypotheses of selection_conforms look at the store only *)
Lemma cond_val_store c cfg x y t : x_store x = x_store y -> cond_val c cfg x t = cond_val c cfg y t.
Proof. intros H. unfold cond_val, is_true. rewrite H. destruct (ft_cond t); [|reflexivity]. now destruct (beval _ _ _). Qed.

Lemma enabledb_store c cfg ev x y ti : x_store x = x_store y -> enabledb c cfg ev x ti = enabledb c cfg ev y ti.
Proof. intros H. unfold enabledb. now rewrite (cond_val_store c cfg x y _ H). Qed.

Lemma forallb_ext' {A} (f g : A -> bool) l : (forall a, f a = g a) -> forallb f l = forallb g l.
Proof. intros H. induction l as [|a r IH]; cbn [forallb]; [reflexivity|]. now rewrite H, IH. Qed.

Lemma unrelated_enabledb_store c cfg ev x y : x_store x = x_store y ->
  unrelated_enabledb c cfg ev x = unrelated_enabledb c cfg ev y.
Proof.
  intros H. unfold unrelated_enabledb.
  apply forallb_ext'. intros s1. apply forallb_ext'. intros s2.
  destruct ((s1 =? s2) || mem s1 (fs_ancestors (st c s2))); [|reflexivity].
  apply forallb_ext'. intros t1. apply forallb_ext'. intros t2.
  now rewrite (enabledb_store c cfg ev x y t1 H), (enabledb_store c cfg ev x y t2 H).
Qed.

Lemma conds_pureb_store c cfg x y : x_store x = x_store y -> conds_pureb c cfg x = conds_pureb c cfg y.
Proof. intros H. unfold conds_pureb. now rewrite H. Qed.

(* ------------------------------------------------------------------ the engine does not read the trace

   SerializeCongLemmas.v (C14) has one traversal of LargeMicroStep::step for relations "stores related, queues
   equal, traces equal since a common point"; here with equal stores. *)
From V Require Import Serialize SerializeCongLemmas.

Definition RxE := Rx (@eq store) (fun _ : event => True).

Lemma RxE_intro x y : same_dyn x y -> RxE (x_out x) (x_out y) x y.
Proof.
  intros (A & B & C). constructor; auto.
  - apply Forall_forall. intros; exact I.
  - exists []. split; reflexivity.
Qed.

Lemma RxE_elim ox oy x y : RxE ox oy x y -> same_dyn x y /\ exists d, x_out x = d ++ ox /\ x_out y = d ++ oy.
Proof. intros [A B _ C D]. split; [repeat split; assumption | exact D]. Qed.

Section CongE.
Variable c : fchart.
Hypothesis Hnamed : chart_named c = true.

Lemma eq_lookup : forall s s' : store, s = s' -> forall k : N, lookup s k = lookup s' k.
Proof. intros s s' -> k. reflexivity. Qed.
Lemma eq_update : forall (s s' : store) (k : N) (z : Z), s = s' -> lookup s k <> None \/ In k (declared c) -> update s k z = update s' k z.
Proof. intros s s' k z -> _. reflexivity. Qed.

Lemma microstep_E ox oy l x y tg ex ts ini : RxE ox oy x y ->
  fst (microstep lg_fixed ex_fixed c l x tg ex ts ini) = fst (microstep lg_fixed ex_fixed c l y tg ex ts ini) /\
  RxE ox oy (snd (microstep lg_fixed ex_fixed c l x tg ex ts ini)) (snd (microstep lg_fixed ex_fixed c l y tg ex ts ini)).
Proof. intros H. apply (microstep_R lg_fixed ex_fixed c eq (fun _ => True) eq_lookup eq_update I I (fun _ => I) (fun _ _ => I) Hnamed); exact H. Qed.

Lemma select_loop_E ox oy cfg ev order skip sel x y : RxE ox oy x y ->
  fst (select_loop lg_fixed c cfg ev order skip sel x) = fst (select_loop lg_fixed c cfg ev order skip sel y) /\
  RxE ox oy (snd (select_loop lg_fixed c cfg ev order skip sel x)) (snd (select_loop lg_fixed c cfg ev order skip sel y)).
Proof. intros H. apply (select_loop_R lg_fixed c eq (fun _ => True) eq_lookup I); exact H. Qed.

Lemma enter_fold_E ox oy ts es a b : Ra eq (fun _ => True) ox oy a b ->
  Ra eq (fun _ => True) ox oy (fold_left (enter_one ex_fixed c ts) es a) (fold_left (enter_one ex_fixed c ts) es b).
Proof. apply (enter_fold_R ex_fixed c eq (fun _ => True) eq_lookup eq_update I I (fun _ => I) (fun _ _ => I) Hnamed). Qed.

Lemma large_step_E ox oy l x y : RxE ox oy x y ->
  Rstep eq (fun _ => True) ox oy (large_step lg_fixed ex_fixed c l x) (large_step lg_fixed ex_fixed c l y).
Proof. apply (large_step_R lg_fixed ex_fixed c eq (fun _ => True) eq_lookup eq_update I I (fun _ => I) (fun _ _ => I) Hnamed). Qed.

Lemma exec_blocks_E ox oy inst bs x y : forallb block_named bs = true -> RxE ox oy x y ->
  RxE ox oy (exec_blocks ex_fixed inst bs x) (exec_blocks ex_fixed inst bs y).
Proof. intros Hb H. exact (exec_blocks_R ex_fixed c eq (fun _ => True) eq_lookup eq_update I I (fun _ _ => I) ox oy inst bs Hb x y H). Qed.
End CongE.
