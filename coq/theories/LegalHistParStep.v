(* LegalHistParStep.v -- LegalHistStep.v for charts of WFHP (a <history> may sit directly below a <parallel>): one
   microstep keeps the configuration legal over the tree of proper states; the initial configuration is legal.
   New: the targets of the selected transitions satisfy the two hypotheses about histories of parallel states. *)
From V Require Import Base NameMatch Chart Exec Large LargeLemmas Legal SetLemmas LegalAbstract LegalLarge
     LegalHistBase LegalHistEntry LegalHistStep LegalHistParBase LegalHistParEntry.
Local Open Scope nat_scope.


Section HPStep.
Variable c : fchart.
Let n := nstates c.
Let par (i : nat) := fs_parent (st c i).
Let ch (i : nat) := fs_children (st c i).
Let kd (i : nat) := fs_type (st c i).
Let cpl (i : nat) := fs_completion (st c i).
Notation Anc := (Anc par).
Notation pseudo := (pseudoS c).

Hypothesis W : WFHP c.

Lemma proper_type_pseudo_p t : proper_type t = negb (is_pseudo t).
Proof. destruct t; reflexivity. Qed.

Lemma pch_spec_p p k : In k (pch c p) <-> ppar c k = Some p.
Proof.
  unfold pch, proper_children, ppar. rewrite filter_In, (whp_children c W). unfold pseudoS.
  rewrite proper_type_pseudo_p. destruct (is_pseudo (fs_type (st c k))); cbn; split; intros H; try tauto; try discriminate.
  destruct H; discriminate.
Qed.

Lemma ppar_par_p i p : ppar c i = Some p -> par i = Some p.
Proof. unfold ppar. destruct (pseudoS c i); [discriminate | tauto]. Qed.

Lemma par_ppar_p i p : pseudo i = false -> par i = Some p -> ppar c i = Some p.
Proof. unfold ppar. intros ->. tauto. Qed.

Lemma panc_anc_p d x : LegalAbstract.Anc (ppar c) d x -> Anc d x.
Proof.
  induction 1 as [i p Hp|i p a Hp Ha IH]; [apply anc_parent | eapply anc_step; eauto]; now apply ppar_par_p.
Qed.

Lemma anc_panc_p d x : pseudo x = false -> Anc d x -> LegalAbstract.Anc (ppar c) d x.
Proof.
  intros Hx Ha. induction Ha as [i p Hp|i p a Hp Ha IH].
  - apply anc_parent. now apply par_ppar_p.
  - eapply anc_step; [apply par_ppar_p; eauto|]. apply IH. exact (parent_not_pseudo_p c W i p Hp).
Qed.

Lemma ppar_root_p : ppar c 0 = None.
Proof. unfold ppar. destruct (pseudoS c 0); [reflexivity | exact (whp_root_par c W)]. Qed.

(* ------------------------------------------------------------------ domains (as in LegalLarge.v) *)

Lemma hforallb_mem_anc_p src tg :
  forallb (fun x => mem src (fs_ancestors (st c x))) tg = true -> forall g, In g tg -> Anc src g.
Proof.
  intros H g Hg. rewrite forallb_forall in H. specialize (H g Hg). apply mem_In in H. now apply (whp_anc c W).
Qed.

Lemma hdomain_spec_p ti d :
  ft_source (tr c ti) < n ->
  domain c (tr c ti) = Some d ->
  ft_targets (tr c ti) <> [] /\ (kd d = FCompound \/ d = 0) /\
  (forall g, In g (ft_targets (tr c ti)) -> Anc d g) /\
  (d = ft_source (tr c ti) \/ Anc d (ft_source (tr c ti))).
Proof.
  intros Hsrc. unfold domain.
  destruct (ft_targets (tr c ti)) as [|g0 gs] eqn:Htg; [discriminate|].
  rewrite <- Htg.
  set (t := tr c ti) in *. set (src := ft_source t) in *.
  destruct (ft_internal t && is_comp (fs_type (st c src)) &&
            forallb (fun x => mem src (fs_ancestors (st c x))) (ft_targets t)) eqn:Hint.
  - intros [= <-]. apply andb_true_iff in Hint as [Hint Hall]. apply andb_true_iff in Hint as [_ Hcomp].
    split; [rewrite Htg; discriminate|]. split; [|split].
    + left. unfold kd. destruct (fs_type (st c src)); try discriminate. reflexivity.
    + now apply hforallb_mem_anc_p.
    + now left.
  - destruct (find _ (rev (fs_ancestors (st c src)))) as [a|] eqn:Hfind.
    + intros [= <-]. apply find_some in Hfind as [Hin Hf].
      apply andb_true_iff in Hf as [Hcomp Hall].
      split; [rewrite Htg; discriminate|]. split; [|split].
      * left. unfold kd. destruct (fs_type (st c a)); try discriminate. reflexivity.
      * now apply hforallb_mem_anc_p.
      * right. apply (whp_anc c W). now apply in_rev.
    + intros [= <-]. split; [rewrite Htg; discriminate|]. split; [now right|]. split.
      * intros g Hg. destruct (whp_tr_targets c W ti g Hg). now apply (hanc_root_p c W).
      * destruct (Nat.eq_dec src 0) as [->|Hne]; [now left | right; apply (hanc_root_p c W); lia].
Qed.

(* ------------------------------------------------------------------ one microstep *)

Section Step.
Variable cfg : list nat.
Variable sel : list nat.
Hypothesis Hleg : LegalH c (fun x => In x cfg).
Hypothesis Hbound : forall x, In x cfg -> x < n.
Hypothesis Hprop : forall x, In x cfg -> pseudo x = false.
Hypothesis Hsel_src : forall ti, In ti sel -> In (ft_source (tr c ti)) cfg.
Hypothesis Hsel_ok : pairwise_ok lg_fixed c sel.
Variable hist : list nat.
Hypothesis HH : HistOK c hist.

Notation HDm := (HDm c sel).
Notation targets := (LegalLarge.targets c sel).
Notation exitset := (LegalLarge.exitset c cfg sel).

(* legality of cfg in terms of the full tree *)
Lemma hcfg_parent_p i p : In i cfg -> par i = Some p -> In p cfg.
Proof. intros Hi Hp. exact (lg_parent _ _ _ _ Hleg i p Hi (par_ppar_p i p (Hprop i Hi) Hp)). Qed.

Lemma hcfg_anc_closed_p i a : In i cfg -> Anc a i -> In a cfg.
Proof.
  intros Hi Ha. induction Ha as [i p Hp|i p a Hp Ha IH].
  - exact (hcfg_parent_p i p Hi Hp).
  - apply IH. exact (hcfg_parent_p i p Hi Hp).
Qed.

Lemma hcfg_compound_ex_p i : In i cfg -> kd i = FCompound -> exists k, par k = Some i /\ In k cfg.
Proof.
  intros Hi Hk. destruct (lg_compound_ex _ _ _ _ Hleg i Hi Hk) as (k & Hin & Hc).
  exists k. split; [apply ppar_par_p; now apply pch_spec_p | exact Hc].
Qed.

Lemma hcfg_compound_uniq_p i k1 k2 : kd i = FCompound -> par k1 = Some i -> par k2 = Some i ->
  In k1 cfg -> In k2 cfg -> k1 = k2.
Proof.
  intros Hk H1 H2 C1 C2.
  apply (lg_compound_uniq _ _ _ _ Hleg i k1 k2); auto.
  - exact (hcfg_parent_p k1 i C1 H1).
  - apply pch_spec_p. exact (par_ppar_p k1 i (Hprop k1 C1) H1).
  - apply pch_spec_p. exact (par_ppar_p k2 i (Hprop k2 C2) H2).
Qed.

Lemma hcfg_parallel_p i k : In i cfg -> kd i = FParallel -> par k = Some i -> pseudo k = false -> In k cfg.
Proof.
  intros Hi Hk Hp Hps. apply (lg_parallel _ _ _ _ Hleg i k Hi Hk). apply pch_spec_p. now apply par_ppar_p.
Qed.

Lemma hIn_targets_p g : In g targets <-> exists ti, In ti sel /\ In g (ft_targets (tr c ti)).
Proof. unfold LegalLarge.targets. rewrite In_fold_union. cbn. split; [intros [[]|H]; exact H | intros H; now right]. Qed.

Lemma HDm_facts_p d : HDm d ->
  In d cfg /\ (kd d = FCompound \/ d = 0) /\ d < n /\ 2 <= fs_size (st c d).
Proof.
  intros (ti & Hti & Hd).
  pose proof (Hsel_src ti Hti) as Hsrc.
  destruct (hdomain_spec_p ti d (Hbound _ Hsrc) Hd) as (Hne & Hk & Htg & Hs).
  assert (Hin : In d cfg) by (destruct Hs as [->|Ha]; [exact Hsrc | eapply hcfg_anc_closed_p; eauto]).
  split; [exact Hin|]. split; [exact Hk|]. split; [now apply Hbound|].
  destruct (ft_targets (tr c ti)) as [|g gs] eqn:E; [congruence|].
  assert (Hg : Anc d g) by (apply Htg; now left).
  pose proof (hanc_lt_p c W _ _ Hg) as [Hlt Hgn].
  apply (whp_interval c W d g (Hbound _ Hin) Hgn) in Hg. lia.
Qed.

Lemma hexit_interval_fixed_p ti d : domain c (tr c ti) = Some d ->
  exit_interval lg_fixed c (tr c ti) = (S d, d + fs_size (st c d) - 1).
Proof. intros H. unfold exit_interval. rewrite H. reflexivity. Qed.

Lemma hexit_interval_none_p ti : domain c (tr c ti) = None -> exit_interval lg_fixed c (tr c ti) = (0, 0).
Proof. intros H. unfold exit_interval. now rewrite H. Qed.

Lemma hIn_exit_states_p ti x :
  In ti sel ->
  (In x (exit_states_of lg_fixed c cfg (tr c ti)) <-> In x cfg /\ exists d, domain c (tr c ti) = Some d /\ Anc d x).
Proof.
  intros Hti. unfold exit_states_of.
  destruct (domain c (tr c ti)) as [d|] eqn:Hd.
  - rewrite (hexit_interval_fixed_p ti d Hd). cbn [lg_targetless_exits_root lg_fixed negb andb].
    replace ((S d =? 0) && (d + fs_size (st c d) - 1 =? 0) && true) with false by (cbn; reflexivity).
    rewrite filter_In.
    assert (HD : HDm d) by (exists ti; tauto).
    destruct (HDm_facts_p d HD) as (Hdc & _ & Hdn & Hsz).
    split.
    + intros [Hx Hr]. split; [exact Hx|]. exists d. split; [reflexivity|].
      apply andb_true_iff in Hr as [H1 H2]. apply Nat.leb_le in H1, H2.
      apply (whp_interval c W d x Hdn (Hbound _ Hx)). lia.
    + intros [Hx (d' & [= <-] & Ha)]. split; [exact Hx|].
      apply (whp_interval c W d x Hdn (Hbound _ Hx)) in Ha.
      apply andb_true_iff. split; apply Nat.leb_le; lia.
  - rewrite (hexit_interval_none_p ti Hd). cbn. split; [tauto | intros [_ (d & Hd' & _)]; discriminate].
Qed.

Lemma hIn_exitset_p x : In x exitset <-> In x cfg /\ exists d, HDm d /\ Anc d x.
Proof.
  unfold LegalLarge.exitset. rewrite In_fold_union. cbn. split.
  - intros [[]|(ti & Hti & Hx)]. apply (hIn_exit_states_p ti x Hti) in Hx as [Hc (d & Hd & Ha)].
    split; [exact Hc|]. exists d. split; [exists ti; tauto | exact Ha].
  - intros [Hc (d & (ti & Hti & Hd) & Ha)]. right. exists ti. split; [exact Hti|].
    apply (hIn_exit_states_p ti x Hti). split; [exact Hc|]. exists d. tauto.
Qed.

Lemma HDm_unrelated_p t1 t2 d1 d2 :
  In t1 sel -> In t2 sel -> t1 <> t2 ->
  domain c (tr c t1) = Some d1 -> domain c (tr c t2) = Some d2 ->
  d1 <> d2 /\ ~ Anc d1 d2 /\ ~ Anc d2 d1.
Proof.
  intros H1 H2 Hne Hd1 Hd2.
  pose proof (Hsel_ok t1 t2 H1 H2 Hne) as Hc. unfold conflicts in Hc.
  rewrite (hexit_interval_fixed_p t1 d1 Hd1), (hexit_interval_fixed_p t2 d2 Hd2) in Hc.
  assert (HD1 : HDm d1) by (exists t1; tauto). assert (HD2 : HDm d2) by (exists t2; tauto).
  destruct (HDm_facts_p d1 HD1) as (Hc1 & _ & Hn1 & Hs1). destruct (HDm_facts_p d2 HD2) as (Hc2 & _ & Hn2 & Hs2).
  destruct (hdomain_spec_p t1 d1 (Hbound _ (Hsel_src t1 H1)) Hd1) as (Hne1 & _ & Htg1 & _).
  destruct (hdomain_spec_p t2 d2 (Hbound _ (Hsel_src t2 H2)) Hd2) as (Hne2 & _ & Htg2 & _).
  destruct (ft_targets (tr c t1)) as [|g1 gs1] eqn:E1; [congruence|].
  destruct (ft_targets (tr c t2)) as [|g2 gs2] eqn:E2; [congruence|].
  assert (Hg1 : Anc d1 g1) by (apply Htg1; now left). assert (Hg2 : Anc d2 g2) by (apply Htg2; now left).
  pose proof (hanc_lt_p c W _ _ Hg1) as [Hl1 Hgn1]. pose proof (hanc_lt_p c W _ _ Hg2) as [Hl2 Hgn2].
  pose proof (proj1 (whp_interval c W d1 g1 Hn1 Hgn1) Hg1) as I1.
  pose proof (proj1 (whp_interval c W d2 g2 Hn2 Hgn2) Hg2) as I2.
  cbn [negb Nat.eqb andb] in Hc.
  apply orb_false_iff in Hc as [Ha Hb].
  apply andb_false_iff in Ha. apply andb_false_iff in Hb.
  repeat rewrite Nat.leb_gt in *.
  assert (Ha' : ~ (d1 <= d2 /\ S d2 <= d1 + fs_size (st c d1) - 1)).
  { intros [A B]. lia. }
  assert (Hb' : ~ (d2 <= d1 /\ S d1 <= d2 + fs_size (st c d2) - 1)).
  { intros [A B]. lia. }
  split; [|split].
  - intros ->. apply Ha'. lia.
  - intros H12. apply Ha'.
    pose proof (proj1 (whp_interval c W d1 d2 Hn1 Hn2) H12) as J.
    pose proof (hanc_trans_p c _ _ _ H12 Hg2) as H1g2.
    pose proof (proj1 (whp_interval c W d1 g2 Hn1 Hgn2) H1g2) as K. lia.
  - intros H21. apply Hb'.
    pose proof (proj1 (whp_interval c W d2 d1 Hn2 Hn1) H21) as J.
    pose proof (hanc_trans_p c _ _ _ H21 Hg1) as H2g1.
    pose proof (proj1 (whp_interval c W d2 g1 Hn2 Hgn1) H2g1) as K. lia.
Qed.

Lemma htargets_bound_p g : In g targets -> 0 < g /\ g < n.
Proof. intros Hg. apply hIn_targets_p in Hg as (ti & _ & Hg). exact (whp_tr_targets c W ti g Hg). Qed.

Lemma hdomain_some_p ti : ft_targets (tr c ti) <> [] -> exists d, domain c (tr c ti) = Some d.
Proof.
  intros Hne. unfold domain. destruct (ft_targets (tr c ti)) as [|g gs]; [congruence|].
  destruct (_ && _ && _); [eexists; reflexivity|]. destruct (find _ _); eexists; reflexivity.
Qed.

Lemma htarget_below_domain_p ti g : In ti sel -> In g (ft_targets (tr c ti)) ->
  exists d, domain c (tr c ti) = Some d /\ Anc d g.
Proof.
  intros Hti Hg. destruct (hdomain_some_p ti) as (d & Hd); [intros E; rewrite E in Hg; contradiction|].
  exists d. split; [exact Hd|].
  destruct (hdomain_spec_p ti d (Hbound _ (Hsel_src ti Hti)) Hd) as (_ & _ & Htg & _). now apply Htg.
Qed.

Lemma habove_or_below_p d i g k : Anc d g -> par k = Some i -> on_pathP c k g ->
  (d = i \/ Anc d i) \/ (k = d \/ Anc k d).
Proof.
  intros Hd Hp Hk.
  destruct Hk as [->|Hkg].
  - left. exact (anc_child par _ _ _ Hp Hd).
  - destruct (hanc_chain_p c d k g Hd Hkg) as [->|[Hdk|Hkd]].
    + right. now left.
    + left. exact (anc_child par _ _ _ Hp Hdk).
    + right. now right.
Qed.

(* the targets (with ancestors) name at most one child of every compound state *)
Lemma HE0_uniq_step_p i k1 k2 : kd i = FCompound -> par k1 = Some i -> par k2 = Some i ->
  In k1 (HE0 c targets) -> In k2 (HE0 c targets) -> k1 = k2.
Proof.
  intros Hk Hp1 Hp2 H10 H20.
  apply (In_HE0_p c W) in H10 as (g1 & Hg1 & Hx1). apply (In_HE0_p c W) in H20 as (g2 & Hg2 & Hx2).
  apply hIn_targets_p in Hg1 as (t1 & Ht1 & Hg1). apply hIn_targets_p in Hg2 as (t2 & Ht2 & Hg2).
  destruct (Nat.eq_dec t1 t2) as [->|Hne].
  { exact (proj1 (whp_target_sets c W t2) i k1 k2 g1 g2 Hk Hp1 Hp2 Hg1 Hg2 Hx1 Hx2). }
  destruct (htarget_below_domain_p t1 g1 Ht1 Hg1) as (d1 & Hd1 & Ha1).
  destruct (htarget_below_domain_p t2 g2 Ht2 Hg2) as (d2 & Hd2 & Ha2).
  destruct (HDm_unrelated_p t1 t2 d1 d2 Ht1 Ht2 Hne Hd1 Hd2) as (Hdne & Hn12 & Hn21).
  assert (HD1 : HDm d1) by (exists t1; tauto). assert (HD2 : HDm d2) by (exists t2; tauto).
  destruct (HDm_facts_p d1 HD1) as (Hc1 & _). destruct (HDm_facts_p d2 HD2) as (Hc2 & _).
  destruct (habove_or_below_p d1 i g1 k1 Ha1 Hp1 Hx1) as [A1|B1], (habove_or_below_p d2 i g2 k2 Ha2 Hp2 Hx2) as [A2|B2].
  - exfalso. destruct A1 as [->|A1], A2 as [->|A2].
    + now apply Hdne.
    + now apply Hn21.
    + now apply Hn12.
    + destruct (hanc_chain_p c d1 d2 i A1 A2) as [->|[H|H]]; [now apply Hdne | now apply Hn12 | now apply Hn21].
  - exfalso. apply Hn12.
    assert (Hik2 : Anc i k2) by now apply anc_parent.
    assert (Hid2 : Anc i d2) by (destruct B2 as [<-|B2]; [exact Hik2 | eapply hanc_trans_p; eauto]).
    destruct A1 as [->|A1]; [exact Hid2 | eapply hanc_trans_p; eauto].
  - exfalso. apply Hn21.
    assert (Hik1 : Anc i k1) by now apply anc_parent.
    assert (Hid1 : Anc i d1) by (destruct B1 as [<-|B1]; [exact Hik1 | eapply hanc_trans_p; eauto]).
    destruct A2 as [->|A2]; [exact Hid1 | eapply hanc_trans_p; eauto].
  - assert (Hk1c : In k1 cfg) by (destruct B1 as [->|B1]; [exact Hc1 | exact (hcfg_anc_closed_p d1 k1 Hc1 B1)]).
    assert (Hk2c : In k2 cfg) by (destruct B2 as [->|B2]; [exact Hc2 | exact (hcfg_anc_closed_p d2 k2 Hc2 B2)]).
    exact (hcfg_compound_uniq_p i k1 k2 Hk Hp1 Hp2 Hk1c Hk2c).
Qed.

(* a pseudo-state of a parallel state is a history *)
Lemma par_pseudo_hist q h : kd q = FParallel -> par h = Some q -> pseudo h = true -> histS c h = true.
Proof.
  intros Hq Hp Hps. destruct (whp_pseudo_parent c W h Hps) as (q' & Hq' & [Hc|[Hc _]]); [|exact Hc].
  pose proof (eq_trans (eq_sym Hp) Hq') as E. injection E as <-. unfold kd in *. congruence.
Qed.

(* the domain of a selected transition with a target below a parallel state q lies above or below q *)
Lemma dom_vs_parallel ti g q : In ti sel -> In g (ft_targets (tr c ti)) -> kd q = FParallel -> Anc q g ->
  exists d, domain c (tr c ti) = Some d /\ (Anc d q \/ Anc q d).
Proof.
  intros Hti Hg Hq Hqg. destruct (htarget_below_domain_p ti g Hti Hg) as (d & Hd & Hdg). exists d. split; [exact Hd|].
  destruct (hanc_chain c d q g Hdg Hqg) as [->|H]; [|exact H]. exfalso.
  assert (HD : HDm q) by (exists ti; tauto).
  destruct (HDm_facts_p q HD) as (_ & [Hkc| ->] & _); [unfold kd in *; congruence | exact (whp_root_type c W Hq)].
Qed.

Lemma dom_above_hist ti h q : In ti sel -> In h (ft_targets (tr c ti)) -> kd q = FParallel -> par h = Some q ->
  exists d, domain c (tr c ti) = Some d /\ Anc d q.
Proof.
  intros Hti Hh Hq Hp. destruct (dom_vs_parallel ti h q Hti Hh Hq (anc_parent par h q Hp)) as (d & Hd & [H|H]); exists d; (split; [exact Hd|]); [exact H|].
  exfalso. destruct (htarget_below_domain_p ti h Hti Hh) as (d' & Hd' & Hdh). rewrite Hd in Hd'. injection Hd' as <-.
  destruct (anc_child par _ _ _ Hp Hdh) as [->|Hdq]; [exact (hanc_irrefl_p c W _ H) | exact (hanc_antisym_p c W _ _ H Hdq)].
Qed.

Lemma E0_pseudo_target h : pseudo h = true -> In h (HE0 c targets) -> exists ti, In ti sel /\ In h (ft_targets (tr c ti)).
Proof.
  intros Hps Hh. apply (In_HE0_p c W) in Hh as (g & Hg & [->|Ha]); [now apply hIn_targets_p|].
  exfalso. exact (pseudo_no_anc_p c W h g Hps Ha).
Qed.

Lemma HE0_par_step q h x : kd q = FParallel -> par h = Some q -> pseudo h = true ->
  In h (HE0 c targets) -> In x (HE0 c targets) -> Anc q x -> par x = Some q.
Proof.
  intros Hq Hp Hps Hh Hx Hqx.
  destruct (E0_pseudo_target h Hps Hh) as (t1 & Ht1 & Hh1).
  apply (In_HE0_p c W) in Hx as (g & Hg & Hon). apply hIn_targets_p in Hg as (t2 & Ht2 & Hg).
  assert (Hqg : Anc q g) by (destruct Hon as [->|Hxg]; [exact Hqx | eapply hanc_trans; eauto]).
  assert (Hgoal : par g = Some q -> par x = Some q).
  { intros Hpg. destruct Hon as [->|Hxg]; [exact Hpg|]. exfalso.
    destruct (anc_child par _ _ _ Hpg Hxg) as [->|Hxq]; [exact (hanc_irrefl_p c W _ Hqx) | exact (hanc_antisym_p c W _ _ Hqx Hxq)]. }
  destruct (Nat.eq_dec t1 t2) as [->|Hne].
  - apply Hgoal. exact (proj1 (proj2 (whp_target_sets c W t2) h q g Hh1 (par_pseudo_hist q h Hq Hp Hps) Hp Hq Hg Hqg)).
  - exfalso. destruct (dom_above_hist t1 h q Ht1 Hh1 Hq Hp) as (d1 & Hd1 & H1q).
    destruct (dom_vs_parallel t2 g q Ht2 Hg Hq Hqg) as (d2 & Hd2 & H2).
    destruct (HDm_unrelated_p t1 t2 d1 d2 Ht1 Ht2 Hne Hd1 Hd2) as (Hdne & Hn12 & Hn21).
    destruct H2 as [H2q|Hq2].
    + destruct (hanc_chain c d1 d2 q H1q H2q) as [E|[H|H]]; tauto.
    + apply Hn12. eapply hanc_trans; eauto.
Qed.

Lemma HE0_par2_step q h1 h2 : kd q = FParallel -> par h1 = Some q -> par h2 = Some q ->
  pseudo h1 = true -> pseudo h2 = true -> In h1 (HE0 c targets) -> In h2 (HE0 c targets) -> h1 = h2.
Proof.
  intros Hq H1 H2 P1 P2 He1 He2.
  destruct (E0_pseudo_target h1 P1 He1) as (t1 & Ht1 & Hh1). destruct (E0_pseudo_target h2 P2 He2) as (t2 & Ht2 & Hh2).
  destruct (Nat.eq_dec t1 t2) as [->|Hne].
  - symmetry. exact (proj2 (proj2 (whp_target_sets c W t2) h1 q h2 Hh1 (par_pseudo_hist q h1 Hq H1 P1) H1 Hq Hh2 (anc_parent par h2 q H2)) P2).
  - exfalso. destruct (dom_above_hist t1 h1 q Ht1 Hh1 Hq H1) as (d1 & Hd1 & H1q).
    destruct (dom_above_hist t2 h2 q Ht2 Hh2 Hq H2) as (d2 & Hd2 & H2q).
    destruct (HDm_unrelated_p t1 t2 d1 d2 Ht1 Ht2 Hne Hd1 Hd2) as (Hdne & Hn12 & Hn21).
    destruct (hanc_chain c d1 d2 q H1q H2q) as [E|[H|H]]; tauto.
Qed.

(* every member of the entry set survives the exit or lies below a domain *)
Notation QE5 := (QE5 c cfg sel).

Lemma QE5_0_p x : In x (HE0 c targets) -> QE5 x.
Proof.
  intros H0. apply (In_HE0_p c W) in H0 as (g & Hg & Hx). apply hIn_targets_p in Hg as (ti & Hti & Hg).
  destruct (htarget_below_domain_p ti g Hti Hg) as (d & Hd & Hdg).
  assert (HD : HDm d) by (exists ti; tauto).
  destruct Hx as [->|Hfg]; [right; exists d; tauto|].
  destruct (hanc_chain_p c d x g Hdg Hfg) as [->|[Hdf|Hfd]].
  - left. destruct (HDm_facts_p x HD) as (Hc & _). split; [exact Hc|].
    intros Hx. apply hIn_exitset_p in Hx as [_ (d' & (t' & Ht' & Hd') & Ha')].
    destruct (Nat.eq_dec t' ti) as [->|Hne].
    + rewrite Hd in Hd'. injection Hd' as <-. exact (hanc_irrefl_p c W _ Ha').
    + destruct (HDm_unrelated_p t' ti d' x Ht' Hti Hne Hd' Hd) as (_ & Hn & _). now apply Hn.
  - right. exists d. tauto.
  - left. destruct (HDm_facts_p d HD) as (Hc & _).
    assert (Hfc : In x cfg) by exact (hcfg_anc_closed_p d x Hc Hfd). split; [exact Hfc|].
    intros Hx. apply hIn_exitset_p in Hx as [_ (d' & (t' & Ht' & Hd') & Ha')].
    assert (Hd'd : Anc d' d) by (eapply hanc_trans_p; eauto).
    destruct (Nat.eq_dec t' ti) as [->|Hne].
    + rewrite Hd in Hd'. injection Hd' as <-. exact (hanc_irrefl_p c W _ Hd'd).
    + destruct (HDm_unrelated_p t' ti d' d Ht' Hti Hne Hd' Hd) as (_ & Hn & _). now apply Hn.
Qed.

Lemma QE5_par_p j x : QE5 j -> kd j = FParallel -> par x = Some j -> pseudo x = false -> QE5 x.
Proof.
  intros [[Hjc Hjx]|(d & HD & Hdj)] Hk Hp Hpx.
  - left. assert (Hfc : In x cfg) by exact (hcfg_parallel_p j x Hjc Hk Hp Hpx). split; [exact Hfc|].
    intros Hx. apply hIn_exitset_p in Hx as [_ (d & HD & Hdf)].
    destruct (anc_child par _ _ _ Hp Hdf) as [->|Hdp].
    + destruct (HDm_facts_p j HD) as (_ & [Hkc| ->] & _); [unfold kd in *; congruence | exact (whp_root_type c W Hk)].
    + apply Hjx. apply hIn_exitset_p. split; [exact Hjc|]. exists d. tauto.
  - right. exists d. split; [exact HD|]. eapply anc_step; eauto.
Qed.

Lemma QE5_comp_p j x : QE5 j -> kd j = FCompound ->
  (forall k, par k = Some j -> ~ surv cfg exitset k) -> Anc j x -> QE5 x.
Proof.
  intros [[Hjc Hjx]|(d & HD & Hdj)] Hk Hns Hjx'.
  - right. destruct (hcfg_compound_ex_p j Hjc Hk) as (k & Hpk & Hkc).
    destruct (in_dec Nat.eq_dec k exitset) as [Hkx|Hkx].
    2: { exfalso. apply (Hns k Hpk). split; assumption. }
    apply hIn_exitset_p in Hkx as [_ (d & HD & Hdk)].
    destruct (anc_child par _ _ _ Hpk Hdk) as [->|Hdp].
    + exists j. tauto.
    + exfalso. apply Hjx. apply hIn_exitset_p. split; [exact Hjc|]. exists d. tauto.
  - right. exists d. split; [exact HD|]. eapply hanc_trans_p; eauto.
Qed.

Lemma QE5_pseudo_p j q x : QE5 j -> pseudo j = true -> par j = Some q -> Anc q x -> QE5 x.
Proof.
  intros [[Hjc _]|(d & HD & Hdj)] Hps Hp Hqx.
  - rewrite (Hprop j Hjc) in Hps. discriminate.
  - right. exists d. split; [exact HD|].
    destruct (anc_child par _ _ _ Hp Hdj) as [->|Hdq]; [exact Hqx | eapply hanc_trans_p; eauto].
Qed.

(* any set that satisfies the loop invariant at the end (the large and the fast engine compute one each) *)
Section AnyEntry.
Variable Ef : list nat.
Hypothesis HF : HInvP c cfg exitset targets QE5 n Ef.

Lemma hE7_p d : HDm d -> In d Ef.
Proof.
  intros (ti & Hti & Hd).
  assert (HD : HDm d) by (exists ti; tauto). destruct (HDm_facts_p d HD) as (Hdc & _).
  apply (hip_base _ _ _ _ _ _ _ HF); [|now apply Hprop]. apply (In_HE0_p c W).
  destruct (hdomain_spec_p ti d (Hbound _ (Hsel_src ti Hti)) Hd) as (Hne & _ & Htg & _).
  destruct (ft_targets (tr c ti)) as [|g gs] eqn:E; [congruence|].
  exists g. split; [apply hIn_targets_p; exists ti; rewrite E; cbn; tauto|]. right. apply Htg. now left.
Qed.

(* the proper states active after the microstep, as a set, form a legal configuration *)
Theorem sets_legal_of_inv_p :
  LegalH c (fun x => (In x cfg /\ ~ In x exitset) \/ (In x Ef /\ pseudo x = false)).
Proof.
  pose proof (abstract_legal (ppar c) (pch c) kd pch_spec_p ppar_root_p (whp_root_type c W)
                (fun x => In x cfg) HDm (fun x => In x Ef /\ pseudo x = false) Hleg) as HA.
  assert (HX : forall x, X (ppar c) (fun x => In x cfg) HDm x <-> In x exitset).
  { intros x. unfold X. rewrite hIn_exitset_p. split.
    - intros [Hx (d & HD & Ha)]. split; [exact Hx|]. exists d. split; [exact HD | now apply panc_anc_p].
    - intros [Hx (d & HD & Ha)]. split; [exact Hx|]. exists d. split; [exact HD | apply anc_panc_p; auto]. }
  assert (Hres : LegalH c (C' (ppar c) (fun x => In x cfg) HDm (fun x => In x Ef /\ pseudo x = false))).
  { apply HA.
    - intros x. destruct (in_dec Nat.eq_dec x Ef) as [H|H]; [|right; tauto].
      destruct (pseudo x); [right; intros [_ E]; discriminate | left; tauto].
    - intros x. destruct (in_dec Nat.eq_dec x exitset) as [H|H]; [left | right]; now rewrite HX.
    - intros d HD. destruct (HDm_facts_p d HD) as (_ & Hk & _). exact Hk.
    - (* E1 *) intros i p [Hi Hps] Hp. apply ppar_par_p in Hp. split.
      + exact (hgE1_p c cfg exitset targets QE5 Ef HF i p Hi Hp).
      + exact (parent_not_pseudo_p c W i p Hp).
    - (* E2 *) intros i k [Hi Hps] Hk Hin. apply pch_spec_p in Hin.
      assert (Hpk : par k = Some i) by now apply ppar_par_p. split.
      + apply (hgE2_p c cfg exitset targets QE5 Ef HF i k Hi Hk Hpk).
        unfold ppar in Hin. destruct (pseudoS c k); [discriminate | reflexivity].
      + unfold ppar in Hin. destruct (pseudoS c k); [discriminate | reflexivity].
    - (* E3 *) intros i [Hi Hps] Hk.
      destruct (hgE3_p c cfg exitset targets QE5 Ef HF i Hi Hk) as (k & Hpk & [[Hs1 Hs2]|[He Hpsk]]).
      + exists k. split; [apply pch_spec_p; apply par_ppar_p; [now apply Hprop | exact Hpk]|]. right. split; [exact Hs1 | now rewrite HX].
      + exists k. split; [apply pch_spec_p; now apply par_ppar_p|]. left. tauto.
    - (* E4 *) intros i k1 k2 Hk H1 H2 [He1 P1] [He2 P2]. apply pch_spec_p, ppar_par_p in H1. apply pch_spec_p, ppar_par_p in H2.
      exact (hgE4_p c cfg exitset targets QE5 Ef HF i k1 k2 Hk H1 H2 He1 He2 P1 P2).
    - (* E5 *) intros f [Hf Hps]. destruct (hip_Q _ _ _ _ _ _ _ HF f Hf) as [[H1 H2]|(d & HD & Ha)].
      + left. split; [exact H1 | now rewrite HX].
      + right. exists d. split; [exact HD | now apply anc_panc_p].
    - (* E7 *) intros d HD. split; [now apply hE7_p|].
      destruct (HDm_facts_p d HD) as (Hdc & _). now apply Hprop. }
  destruct Hres as [R1 R2 R3 R4 R5].
  assert (Heq : forall x, C' (ppar c) (fun x => In x cfg) HDm (fun x => In x Ef /\ pseudo x = false) x <->
                          ((In x cfg /\ ~ In x exitset) \/ (In x Ef /\ pseudo x = false))).
  { intros x. unfold C'. now rewrite HX. }
  constructor.
  - now apply Heq.
  - intros i p Hi Hp. apply Heq. eapply R2; [apply Heq; exact Hi | exact Hp].
  - intros i Hi Hk. destruct (R3 i (proj2 (Heq i) Hi) Hk) as (k & Hin & Hk'). exists k. split; [exact Hin | now apply Heq].
  - intros i k1 k2 Hi Hk H1 H2 Hk1 Hk2.
    exact (R4 i k1 k2 (proj2 (Heq i) Hi) Hk H1 H2 (proj2 (Heq k1) Hk1) (proj2 (Heq k2) Hk2)).
  - intros i k Hi Hk Hin. apply Heq. exact (R5 i k (proj2 (Heq i) Hi) Hk Hin).
Qed.

Lemma Ef_bound_p x : In x Ef -> x < n.
Proof. exact (hip_bound _ _ _ _ _ _ _ HF x). Qed.
End AnyEntry.

Definition HEfs_p : list nat := HEfin c cfg exitset hist targets sel.
Definition HInvF_p : HInvP c cfg exitset targets QE5 n HEfs_p :=
  HInv_fin_p c W cfg exitset hist targets sel htargets_bound_p HH HE0_uniq_step_p HE0_par_step HE0_par2_step QE5 QE5_0_p QE5_par_p QE5_comp_p QE5_pseudo_p.

Theorem microstep_sets_legal_h_p :
  LegalH c (fun x => (In x cfg /\ ~ In x exitset) \/ (In x HEfs_p /\ pseudo x = false)).
Proof. exact (sets_legal_of_inv_p HEfs_p HInvF_p). Qed.

Lemma HEfs_bound_p x : In x HEfs_p -> x < n.
Proof. exact (Ef_bound_p HEfs_p HInvF_p x). Qed.

End Step.

(* ------------------------------------------------------------------ the initial configuration *)

Section Initial.
Variable hist : list nat.
Hypothesis HH : HistOK c hist.
Hypothesis root_compound : kd 0 = FCompound.

Lemma hinit_tg_bound_p g : In g (fs_completion (st c 0)) -> 0 < g /\ g < n.
Proof.
  intros Hg. destruct (whp_compound c W 0 root_compound) as [_ Hb]. exact (hanc_lt_p c W _ _ (Hb g Hg)).
Qed.

Lemma hinit_E0_uniq_p i k1 k2 : kd i = FCompound -> par k1 = Some i -> par k2 = Some i ->
  In k1 (HE0 c (fs_completion (st c 0))) -> In k2 (HE0 c (fs_completion (st c 0))) -> k1 = k2.
Proof.
  intros Hk H1 H2 H10 H20.
  apply (In_HE0_p c W) in H10 as (g1 & Hg1 & Hx1). apply (In_HE0_p c W) in H20 as (g2 & Hg2 & Hx2).
  exact (proj1 (whp_cpl_sets c W 0 root_compound) i k1 k2 g1 g2 Hk H1 H2 Hg1 Hg2 Hx1 Hx2).
Qed.


Lemma hinit_E0_par q h x : kd q = FParallel -> par h = Some q -> pseudo h = true ->
  In h (HE0 c (fs_completion (st c 0))) -> In x (HE0 c (fs_completion (st c 0))) -> Anc q x -> par x = Some q.
Proof.
  intros Hq Hp Hps Hh Hx Hqx.
  assert (Hhh : histS c h = true).
  { destruct (whp_pseudo_parent c W h Hps) as (q' & Hq' & [Hc|[Hc _]]); [|exact Hc].
    pose proof (eq_trans (eq_sym Hp) Hq') as E. injection E as <-. unfold kd in *. congruence. }
  apply (In_HE0_p c W) in Hh as (gh & Hgh & [<-|Ha]); [|exfalso; exact (pseudo_no_anc_p c W h gh Hps Ha)].
  apply (In_HE0_p c W) in Hx as (g & Hg & Hon).
  assert (Hqg : Anc q g) by (destruct Hon as [->|Hxg]; [exact Hqx | eapply hanc_trans; eauto]).
  pose proof (proj1 (proj2 (whp_cpl_sets c W 0 root_compound) h q g Hgh Hhh Hp Hq Hg Hqg)) as Hpg.
  destruct Hon as [->|Hxg]; [exact Hpg|]. exfalso.
  destruct (anc_child par _ _ _ Hpg Hxg) as [->|Hxq]; [exact (hanc_irrefl_p c W _ Hqx) | exact (hanc_antisym_p c W _ _ Hqx Hxq)].
Qed.

Lemma hinit_E0_par2 q h1 h2 : kd q = FParallel -> par h1 = Some q -> par h2 = Some q ->
  pseudo h1 = true -> pseudo h2 = true -> In h1 (HE0 c (fs_completion (st c 0))) -> In h2 (HE0 c (fs_completion (st c 0))) -> h1 = h2.
Proof.
  intros Hq H1 H2 P1 P2 He1 He2.
  assert (Hhh : histS c h1 = true).
  { destruct (whp_pseudo_parent c W h1 P1) as (q' & Hq' & [Hc|[Hc _]]); [|exact Hc].
    pose proof (eq_trans (eq_sym H1) Hq') as E. injection E as <-. unfold kd in *. congruence. }
  apply (In_HE0_p c W) in He1 as (g1 & Hg1 & [<-|Ha]); [|exfalso; exact (pseudo_no_anc_p c W h1 g1 P1 Ha)].
  apply (In_HE0_p c W) in He2 as (g2 & Hg2 & [<-|Ha]); [|exfalso; exact (pseudo_no_anc_p c W h2 g2 P2 Ha)].
  symmetry. exact (proj2 (proj2 (whp_cpl_sets c W 0 root_compound) h1 q h2 Hg1 Hhh H1 Hq Hg2 (anc_parent par h2 q H2)) P2).
Qed.

Section AnyInit.
Variable Ef : list nat.
Hypothesis HI : HInvP c [] [] (fs_completion (st c 0)) QT n Ef.

Theorem init_legal_of_inv_p : LegalH c (fun x => In x Ef /\ pseudo x = false).
Proof.
  assert (Hns : forall k, ~ surv [] [] k) by (intros k [[] _]).
  constructor.
  - split; [|apply compound_not_pseudo_p; exact root_compound].
    apply (hip_base _ _ _ _ _ _ _ HI); [|apply compound_not_pseudo_p; exact root_compound]. apply (In_HE0_p c W).
    destruct (whp_compound c W 0 root_compound) as [Hne Hb].
    destruct (fs_completion (st c 0)) as [|g r] eqn:E; [congruence|]. exists g. split; [now left|]. right. apply Hb. now left.
  - intros i p [Hi Hps] Hp. apply ppar_par_p in Hp. split; [exact (hip_closed _ _ _ _ _ _ _ HI i p Hi Hp) | exact (parent_not_pseudo_p c W i p Hp)].
  - intros i [Hi Hps] Hk.
    destruct (proj2 (hip_done _ _ _ _ _ _ _ HI i (hip_bound _ _ _ _ _ _ _ HI i Hi) Hi) Hk) as (k & Hpk & [Hs|[He [Hpk'|Hle]]]).
    + exfalso. exact (Hns k Hs).
    + exists k. split; [apply pch_spec_p; now apply par_ppar_p | tauto].
    + pose proof (hip_bound _ _ _ _ _ _ _ HI k He). lia.
  - intros i k1 k2 [Hi Hps] Hk H1 H2 [He1 P1] [He2 P2]. apply pch_spec_p, ppar_par_p in H1. apply pch_spec_p, ppar_par_p in H2.
    destruct (Nat.eq_dec k1 k2) as [E|Hne]; [exact E|]. exfalso.
    destruct (hip_uniq _ _ _ _ _ _ _ HI i k1 k2 Hk H1 H2 He1 He2 Hne) as [(A & _)|(A & _)]; congruence.
  - intros i k [Hi Hps] Hk Hin. apply pch_spec_p in Hin. assert (Hpk : par k = Some i) by now apply ppar_par_p. split.
    + apply (proj1 (hip_done _ _ _ _ _ _ _ HI i (hip_bound _ _ _ _ _ _ _ HI i Hi) Hi) Hk k Hpk).
      unfold ppar in Hin. destruct (pseudoS c k); [discriminate | reflexivity].
    + unfold ppar in Hin. destruct (pseudoS c k); [discriminate | reflexivity].
Qed.
End AnyInit.

Definition HEinit_p : list nat := HEfin c [] [] hist (fs_completion (st c 0)) [].

Lemma HEinit_inv_p : HInvP c [] [] (fs_completion (st c 0)) QT n HEinit_p.
Proof. apply (HInv_fin_p c W [] [] hist _ [] hinit_tg_bound_p HH hinit_E0_uniq_p hinit_E0_par hinit_E0_par2 QT); unfold QT; auto. Qed.

Theorem initial_sets_legal_h_p : LegalH c (fun x => In x HEinit_p /\ pseudo x = false).
Proof. exact (init_legal_of_inv_p HEinit_p HEinit_inv_p). Qed.

Lemma HEinit_bound_p x : In x HEinit_p -> x < n.
Proof. exact (hip_bound _ _ _ _ _ _ _ HEinit_inv_p x). Qed.

End Initial.

End HPStep.
