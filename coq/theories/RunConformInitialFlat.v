(* RunConformInitialFlat.v -- C01 on charts with <initial> elements and deep / multiple initial attributes, for the
   charts LargeMicroStep::init builds (c = flatten late t0): the static side conditions as one boolean
   (static_ib), the premises of RunConformInitialCompose discharged by ExitSetLemmas, and the theorems on booleans:
   entry set, transition set, microstep, selection + microstep.  Proofs only. *)
From V Require Import Base NameMatch NameMatchLemmas Chart Exec Large LargeLemmas Spec Legal SetLemmas LegalAbstract LegalLarge
  Interp LegalRun WfCore LegalOracle LargeCacheLemmas ExitSetLemmas SelectConform SelectConformLemmas SelectConformOrder
  SelectConformRoot SelectConformFlatten MicroConform MicroConformLemmas MicroConformCompose MicroConformFlatten
  LegalHistBase LegalHistEntry LegalHistStep LegalHistRun LegalHistWf LegalHistOracle
  RunConformInitialBase RunConformInitialSpec RunConformInitialEngine RunConformInitialEntry RunConformInitialMicro
  RunConformBase RunConformTok RunConformMicro RunConformInit RunConformStep
  RunConformInitialCompose RunConformInitialWf RunConformInitialFlags RunConformInitialSelLegal RunConformInitialSelErase RunConformInitialSel.
Local Open Scope nat_scope.

(* the static conditions of the microstep theorems (the conditions of the core theorems with wf_initb for wf_coreb,
   and the three conditions of RunConformInitialWf.v that concern every compound state and every transition;
   init_flagsb holds for every flatten chart: RunConformInitialFlags.v) *)
Definition micro_static_ib (c : fchart) : bool :=
  wf_initb c && root_compoundb c && par_nonemptyb c && targets_antichainb c && done_okb c && root_silentb c &&
  cpl_okb c && cpl_antib c && targets_properb c.

Record MicroStatic (c : fchart) : Prop := {
  ms_wfh : WFH c;
  ms_nh : forall i, histS c i = false;
  ms_root : fs_type (st c 0) = FCompound;
  ms_par : forall s, s < nstates c -> fs_type (st c s) = FParallel -> fs_children (st c s) <> [];
  ms_cplok : CplOK c;
  ms_cplanti : CplAnti c;
  ms_tganti : TgAnti c;
  ms_tgproper : TgProper c;
  ms_flags : forall x ti, is_pseudo (fs_type (st c x)) = true -> In ti (fs_trans (st c x)) -> ft_history (tr c ti) || ft_initial (tr c ti) = true;
  ms_fin_par : forall i p, fs_type (st c i) = FFinal -> fs_parent (st c i) = Some p -> fs_type (st c p) <> FParallel;
  ms_fin_up : forall i p a, fs_type (st c i) = FFinal -> fs_parent (st c i) = Some p ->
     LegalAbstract.Anc (fun i => fs_parent (st c i)) a p -> fs_parent (st c p) = Some a \/ fs_type (st c a) <> FParallel;
  ms_silent : root_silentb c = true;
  ms_initb : wf_initb c = true;
  ms_parb : par_nonemptyb c = true
}.

Lemma micro_static_sound late t0 : let c := flatten late t0 in micro_static_ib c = true -> MicroStatic c.
Proof.
  intros c. unfold micro_static_ib. intros H.
  apply andb_true_iff in H as [H Btp]. apply andb_true_iff in H as [H Bca].
  apply andb_true_iff in H as [H Bco]. apply andb_true_iff in H as [H Bsi]. apply andb_true_iff in H as [H Bdo].
  apply andb_true_iff in H as [H Bta]. apply andb_true_iff in H as [H Bpa]. apply andb_true_iff in H as [H Bro].
  pose proof (wf_histb_sound c (wf_initb_histb c H)) as W.
  destruct (done_okb_sound_h c W Bdo) as [F1 F2].
  constructor; auto.
  - exact (no_hist_of_initb c H).
  - unfold root_compoundb in *. destruct (fs_type (st c 0)); try discriminate; reflexivity.
  - now apply par_nonemptyb_sound.
  - now apply cpl_okb_sound.
  - now apply cpl_antib_sound.
  - now apply targets_antichainb_sound_h.
  - now apply targets_properb_sound.
  - apply flatten_init_flags.
Qed.

Section Flat.
Variable late : bool.
Variable t0 : tree.
Notation c := (flatten late t0).

Hypothesis HS : MicroStatic c.

Lemma plain_h t : targets_plain_t c t = true.
Proof.
  unfold targets_plain_t. apply forallb_forall. intros s _. rewrite (hist_false_h c (ms_nh c HS)). reflexivity.
Qed.

Lemma Hdom_flat h sel : forall ti, In ti sel -> transition_domain c h (tr c ti) = domain c (tr c ti).
Proof. intros ti _. symmetry. apply domain_agrees_t. apply plain_h. Qed.

Lemma exit_sets_agree_h cfg' hv sel : (forall y, In y (0 :: cfg') -> y < nstates c) ->
  forall z, In z (compute_exit_set c cfg' hv (map (tr c) sel)) <-> In z (sel_exitset c (0 :: cfg') sel).
Proof.
  intros Hb z. pose proof (wh_root_par c (ms_wfh c HS)) as Hr0.
  rewrite ces_union. unfold sel_exitset. rewrite In_fold_union. cbn [In]. split.
  - intros (t & Ht & Hz). apply in_map_iff in Ht as (ti & <- & Hti). right. exists ti. split; [exact Hti|].
    apply (exit_set_agrees_t late t0 hv (tr c ti) (0 :: cfg') (plain_h (tr c ti)) Hb).
    rewrite (compute_exit_set_root c cfg' Hr0). exact Hz.
  - intros [[]|(ti & Hti & Hz)]. exists (tr c ti). split; [now apply in_map|].
    rewrite <- (compute_exit_set_root c cfg' Hr0).
    now apply (exit_set_agrees_t late t0 hv (tr c ti) (0 :: cfg') (plain_h (tr c ti)) Hb).
Qed.

(* ---- (1) the entry set and the transition set ---- *)
Theorem entry_set_conforms_initial_lemma cfg sel h hist :
  legal_configb c cfg = true -> HistOK c hist ->
  (forall ti, In ti sel -> In (ft_source (tr c ti)) cfg) -> pairwise_ok lg_fixed c sel ->
  let e := compute_entry_set c h sel in
  let r := entry_set lg_fixed c cfg (sel_exitset c cfg sel) hist (sel_targets c sel) sel in
  e_histcontent e = [] /\
  (forall x, In x (e_enter e) <-> In x (fst r) /\ pseudoS c x = false /\ ~ (In x cfg /\ ~ In x (sel_exitset c cfg sel))) /\
  (forall i x ti, In i (e_enter e) -> fs_parent (st c x) = Some i -> pseudoS c x = true -> In ti (fs_trans (st c x)) ->
     (In ti (snd r) <-> In i (e_default e) /\ fs_completion (st c i) = [x])) /\
  (forall i, In i (e_default e) <-> In i (e_enter e) /\ In i (e_default e)).
Proof.
  intros Hleg HH Hsrc Hok e r. pose proof (ms_wfh c HS) as W.
  destruct (legal_configb_sound_h c W cfg Hleg) as [HL Hbp].
  assert (Hbound : forall y, In y cfg -> y < nstates c) by (intros y Hy; exact (proj1 (Hbp y Hy))).
  assert (Hprop : forall y, In y cfg -> pseudoS c y = false) by (intros y Hy; exact (proj2 (Hbp y Hy))).
  split; [|split; [|split]].
  - exact (spec_hc c W (ms_nh c HS) (ms_cplok c HS) (ms_cplanti c HS) (ms_tganti c HS) (ms_tgproper c HS) (ms_root c HS)
             cfg sel h HL Hbound Hprop Hsrc Hok (Hdom_flat h sel)).
  - exact (entry_set_conforms_initial_sec c W (ms_nh c HS) (ms_cplok c HS) (ms_cplanti c HS) (ms_tganti c HS) (ms_tgproper c HS) (ms_root c HS)
             cfg sel h hist HL Hbound Hprop Hsrc Hok HH (Hdom_flat h sel)).
  - exact (trans_set_conforms_initial_sec c W (ms_nh c HS) (ms_cplok c HS) (ms_cplanti c HS) (ms_tganti c HS) (ms_tgproper c HS) (ms_root c HS)
             cfg sel h hist HL Hbound Hprop Hsrc Hok HH (Hdom_flat h sel)).
  - intros i. split; [|tauto]. intros Hd. split; [|exact Hd].
    apply (spec_default c W (ms_nh c HS) (ms_cplok c HS) (ms_cplanti c HS) (ms_tganti c HS) (ms_tgproper c HS) (ms_root c HS)
             cfg sel h HL Hbound Hprop Hsrc Hok (Hdom_flat h sel)) in Hd as (_ & r0 & G0 & HD & _).
    apply (spec_set c W (ms_nh c HS) (ms_cplok c HS) (ms_cplanti c HS) (ms_tganti c HS) (ms_tgproper c HS) (ms_root c HS)
             cfg sel h HL Hbound Hprop Hsrc Hok (Hdom_flat h sel)). eauto.
Qed.

(* ---- (2) one microstep ---- *)
Theorem body_conforms_initial_lemma sel l s x0 :
  legal_configb c (l_cfg l) = true -> HistOK c (l_hist l) -> corr c l s ->
  (forall ti, In ti sel -> In (ft_source (tr c ti)) (l_cfg l)) ->
  pairwise_ok lg_fixed c sel ->
  (forall ti, In ti sel -> ft_history (tr c ti) || ft_initial (tr c ti) = false) ->
  let r := microstep lg_fixed ex_fixed c l x0 (sel_targets c sel) (sel_exitset c (l_cfg l) sel) sel false in
  let q := spec_body c sel s x0 in
  corr c (fst r) (fst q) /\ snd q = emit (spec_cfg_tok c (fst q)) (snd r) /\ s_hv (fst q) = s_hv s.
Proof.
  intros Hleg HH Hcorr Hsrc Hok Hnp. pose proof (ms_wfh c HS) as W.
  pose proof (legal_configb_sound_h c W _ Hleg) as HL.
  apply (body_conforms_initial_sec c W (ms_nh c HS) (ms_cplok c HS) (ms_cplanti c HS) (ms_tganti c HS) (ms_tgproper c HS) (ms_root c HS)
           sel l s x0 Hcorr HL HH Hsrc Hok Hnp).
  - apply flatten_has_body.
  - exact (ms_silent c HS).
  - intros Hl i Hi. destruct late; [discriminate Hl|]. now apply flatten_early_data.
  - exact (ms_par c HS).
  - exact (ms_fin_par c HS).
  - exact (ms_fin_up c HS).
  - exact (ms_flags c HS).
  - apply Hdom_flat.
  - destruct Hcorr as (Hc & _). rewrite Hc in *. apply exit_sets_agree_h. intros y Hy. exact (proj1 (proj2 HL y Hy)).
Qed.

Theorem microstep_conforms_initial_lemma sel l s x :
  legal_configb c (l_cfg l) = true -> HistOK c (l_hist l) -> corr c l s ->
  (forall ti, In ti sel -> In (ft_source (tr c ti)) (l_cfg l)) ->
  pairwise_ok lg_fixed c sel ->
  (forall ti, In ti sel -> ft_history (tr c ti) || ft_initial (tr c ti) = false) ->
  let r := microstep lg_fixed ex_fixed c l (emit TMsB x) (sel_targets c sel) (sel_exitset c (l_cfg l) sel) sel false in
  let q := spec_microstep c sel s x in
  corr c (fst r) (fst q) /\ snd q = emit (spec_cfg_tok c (fst q)) (snd r) /\ s_hv (fst q) = s_hv s.
Proof. intros. subst r q. rewrite spec_microstep_body. now apply body_conforms_initial_lemma. Qed.

(* with the transitions the engine itself selects, from any execution state *)
Theorem body_selected_conforms_initial_lemma l s ev xsel x0 :
  legal_configb c (l_cfg l) = true -> HistOK c (l_hist l) -> corr c l s ->
  let sel := fst (select_loop lg_fixed c (l_cfg l) ev (cfg_postfix c (l_cfg l)) None [] xsel) in
  let r := microstep lg_fixed ex_fixed c l x0 (sel_targets c sel) (sel_exitset c (l_cfg l) sel) sel false in
  let q := spec_body c sel s x0 in
  corr c (fst r) (fst q) /\ snd q = emit (spec_cfg_tok c (fst q)) (snd r) /\ s_hv (fst q) = s_hv s.
Proof.
  intros Hleg HH Hcorr sel. apply body_conforms_initial_lemma; try assumption.
  - apply (select_loop_sources_h c (ms_wfh c HS)); [intros z; apply cfg_postfix_sub | intros ti []].
  - apply select_loop_pairwise. apply nil_pairwise.
  - apply select_loop_np. intros ti [].
Qed.

(* one microstep with the transitions the engine itself selects *)
Theorem microstep_selected_conforms_initial_lemma l s ev x0 x :
  legal_configb c (l_cfg l) = true -> HistOK c (l_hist l) -> corr c l s ->
  let sel := fst (select_loop lg_fixed c (l_cfg l) ev (cfg_postfix c (l_cfg l)) None [] x0) in
  let r := microstep lg_fixed ex_fixed c l (emit TMsB x) (sel_targets c sel) (sel_exitset c (l_cfg l) sel) sel false in
  let q := spec_microstep c sel s x in
  corr c (fst r) (fst q) /\ snd q = emit (spec_cfg_tok c (fst q)) (snd r) /\ s_hv (fst q) = s_hv s.
Proof.
  intros Hleg HH Hcorr sel. apply microstep_conforms_initial_lemma; try assumption.
  - apply (select_loop_sources_h c (ms_wfh c HS)); [intros z; apply cfg_postfix_sub | intros ti []].
  - apply select_loop_pairwise. apply nil_pairwise.
  - apply select_loop_np. intros ti [].
Qed.

(* ---- (3) SELECT_TRANSITIONS + the microstep against selectTransitions + microstep of Appendix D ---- *)
Theorem step_conforms_initial_lemma l s ev x :
  root_unmentionedb c = true ->
  legal_configb c (l_cfg l) = true -> ascb (l_cfg l) = true -> HistOK c (l_hist l) -> corr c l s ->
  unrelated_enabledb c (l_cfg l) ev x = true -> conds_pureb c (l_cfg l) x = true -> descs_okb c (l_cfg l) ev = true ->
  let r := select_and_step lg_fixed ex_fixed c l x ev in
  let en := fst (select_transitions c (s_cfg s) (s_hv s) ev x) in
  snd (select_transitions c (s_cfg s) (s_hv s) ev x) = x /\
  match en with
  | [] => l_cfg (fst (fst r)) = l_cfg l /\ snd (fst r) = x
  | _ => let q := spec_microstep c en s x in
         corr c (fst (fst r)) (fst q) /\ snd q = emit (spec_cfg_tok c (fst q)) (snd (fst r)) /\ s_hv (fst q) = s_hv s
  end.
Proof.
  intros Hun Hleg Hasc HH Hcorr H1 H2 H3.
  pose proof Hcorr as (Hc & _).
  pose proof (selection_conforms_spec_cfg_initial_lemma late t0 (s_cfg s) ev x (s_hv s)) as Hsel. cbn zeta in Hsel.
  rewrite <- Hc in Hsel. specialize (Hsel (ms_initb c HS) (ms_root c HS) (ms_parb c HS) Hun Hleg Hasc H1 H2 H3). destruct Hsel as [Hsel Hx].
  cbn zeta. unfold select_and_step. cbn zeta.
  change (l_cfg (upd_flags l (l_spont l) false)) with (l_cfg l).
  pose proof (microstep_selected_conforms_initial_lemma (upd_flags l (l_spont l) false) s ev x x) as HM.
  cbn zeta in HM. change (l_cfg (upd_flags l (l_spont l) false)) with (l_cfg l) in HM.
  change (l_hist (upd_flags l (l_spont l) false)) with (l_hist l) in HM.
  specialize (HM Hleg HH Hcorr).
  destruct (select_loop lg_fixed c (l_cfg l) ev (cfg_postfix c (l_cfg l)) None [] x) as [sel x1] eqn:E.
  rewrite <- Hsel. cbn [fst snd] in *. subst x1. split; [reflexivity|].
  destruct sel as [|t r] eqn:Es; [split; reflexivity|]. rewrite <- Es in *.
  destruct (microstep lg_fixed ex_fixed c (upd_flags l (l_spont l) false) (emit TMsB x) _ _ sel false) as [l1 x2] eqn:Em.
  cbn [fst snd] in *. exact HM.
Qed.

End Flat.
