(* CGenRefineSelect.v -- C04, data refinement, layer 3a: SELECT_TRANSITIONS.
   The byte-level pass (CGen.b_select over conflicts / trans_set / target_set / exit_set, with the callbacks of the
   harness) against the set-level pass (CGen.cselect_all, ctargets, cexitset): from a memory whose config array holds the
   configuration and whose trans_set / target_set are empty, it ends normally with trans_set = the selected transitions,
   target_set = their targets, exit_set = the states they exit, and answers whether a transition was found.  The
   callbacks is_matched / is_enabled are asked for the same transitions in the same order with the same configuration.
   Proofs only. *)
From V Require Import Base NameMatch Chart Exec Large Fast GenCGen CGen CGenLemmas SetLemmas SerializeCodecLemmas
                      CGenRefineBits CGenRefineTables.
From Coq Require Import Lia Sorted ZifyBool.
Local Open Scope nat_scope.

Lemma c_is_true_ext i1 i2 e : (forall s, i1 s = i2 s) -> c_is_true i1 e = c_is_true i2 e.
Proof. intros H. destruct e; cbn; auto. Qed.

Lemma srep_row_filter nb row : srep (8 * nb) (to_bytes nb row) (filter (fun j => j <? 8 * nb) row).
Proof. apply srep_intro. intros j. rewrite memb_filter, tbit_to_bytes. batoms. Qed.

Lemma srep_row_wide nb nb' row : nb <= nb' -> bounded (8 * nb) row -> srep (8 * nb) (to_bytes nb' row) row.
Proof.
  intros Hn B. split; [exact B|]. intros j Hj. rewrite tbit_to_bytes.
  assert (E : (j <? 8 * nb') = true) by (apply Nat.ltb_lt; lia). rewrite E. reflexivity.
Qed.

Definition nonnil (l : list nat) : bool := match l with [] => false | _ => true end.

Section Select.
Variable cv : cg_variant.
Variable c : fchart.
Notation ns := (nstates c).
Notation nt := (ntrans c).
Notation bm := (bmachine_of cv c).
Notation MS := (m_maxs c).
Notation MT := (m_maxt c).
Notation NTB := (NTB cv c).
Notation WS := (8 * MS).
Notation WT := (8 * NTB).

Hypothesis Hns : (N.of_nat ns < 2 ^ 24)%N.
Hypothesis Hnt : (N.of_nat nt < 2 ^ 24)%N.
Hypothesis Hok : bref_chartb c = true.
Set Default Proof Using "cv Hns Hnt Hok".

(* the configuration seen by a callback *)
Lemma inst_bytes_eq config cfg : rep WS config cfg -> bounded ns cfg -> forall sid, inst_bytes c config sid = inst_of c cfg sid.
Proof.
  intros R B sid. unfold inst_bytes, inst_of. unfold rep in R. subst cfg.
  rewrite (of_bytes_narrow ns WS config (ns_le_WS cv c Hns Hnt Hok) B). reflexivity.
Qed.

(* ---- the rows the selection reads ---- *)
Definition crow (ti : nat) : list nat :=
  filter (fun j => fconflicts c (eff_source c (tr c ti)) (eff_source c (tr c j))) (seq 0 nt).
Definition xrow (ti : nat) : list nat := filter (fun j => j <? WS) (cexit_table c (eff_source c (tr c ti))).
Definition cconfl (sel : list nat) : list nat := fold_left (fun a ti => set_union a (crow ti)) sel [].
Definition cexraw (sel : list nat) : list nat := fold_left (fun a ti => set_union a (xrow ti)) sel [].

Lemma crow_srep ti : srep WT (bt_conflicts (btrans_of c ti)) (crow ti).
Proof.
  apply srep_row_wide; [apply (ntb_le cv c Hns Hnt Hok)|].
  apply bounded_intro. intros x Hx. apply filter_In in Hx as [Hx _]. apply in_seq in Hx.
  pose proof (nt_le_WT cv c Hns Hnt Hok). lia.
Qed.
Lemma xrow_srep ti : srep WS (bt_exit (btrans_of c ti)) (xrow ti).
Proof. apply srep_row_filter. Qed.

Lemma fold_union_app {A} (f : A -> list nat) l x acc :
  fold_left (fun a y => set_union a (f y)) (l ++ [x]) acc = set_union (fold_left (fun a y => set_union a (f y)) l acc) (f x).
Proof. rewrite fold_left_app. reflexivity. Qed.

Lemma fold_union_ssorted {A} (f : A -> list nat) l : forall acc, ssorted acc -> ssorted (fold_left (fun a y => set_union a (f y)) l acc).
Proof. induction l as [|y r IH]; intros acc Sa; cbn [fold_left]; [exact Sa|]. apply IH. now apply set_union_ssorted. Qed.

(* ---- one transition ---- *)
Definition csel1 (cfg : list nat) (evo : option bytes) (i : nat) (sel : list nat) : list nat := cselect c cfg evo [i] sel.

Lemma cselect_cons cfg evo i r sel : cselect c cfg evo (i :: r) sel = cselect c cfg evo r (csel1 cfg evo i sel).
Proof.
  unfold csel1. cbn [cselect].
  destruct (ft_history (tr c i) || ft_initial (tr c i)); [reflexivity|].
  destruct (negb (mem (ft_source (tr c i)) cfg)); [reflexivity|].
  destruct (existsb (fun si => fconflicts c (tr c si) (tr c i)) sel); [reflexivity|].
  destruct (match evo with Some _ => ft_spontaneous (tr c i) | None => negb (ft_spontaneous (tr c i)) end); [reflexivity|].
  destruct (match evo with Some e => negb (name_match_impl nm_fixed (ft_event (tr c i)) e) | None => false end); [reflexivity|].
  destruct (ft_cond (tr c i)) as [cnd|]; [|reflexivity].
  destruct (c_is_true (inst_of c cfg) cnd); reflexivity.
Qed.

Lemma csel1_cases cfg evo i sel :
  csel1 cfg evo i sel = sel \/ (csel1 cfg evo i sel = sel ++ [i] /\ ft_initial (tr c i) = false).
Proof.
  unfold csel1. cbn [cselect].
  destruct (ft_history (tr c i) || ft_initial (tr c i)) eqn:HI; [now left|].
  apply orb_false_iff in HI as [_ HI].
  destruct (negb (mem (ft_source (tr c i)) cfg)); [now left|].
  destruct (existsb (fun si => fconflicts c (tr c si) (tr c i)) sel); [now left|].
  destruct (match evo with Some _ => ft_spontaneous (tr c i) | None => negb (ft_spontaneous (tr c i)) end); [now left|].
  destruct (match evo with Some e => negb (name_match_impl nm_fixed (ft_event (tr c i)) e) | None => false end); [now left|].
  destruct (ft_cond (tr c i)) as [cnd|]; [|now right].
  destruct (c_is_true (inst_of c cfg) cnd); [now right | now left].
Qed.

Lemma eff_source_plain t : ft_initial t = false -> eff_source c t = t.
Proof. intros H. unfold eff_source. rewrite H. reflexivity. Qed.

Definition sel_ok (bound : nat) (sel : list nat) : Prop :=
  ssorted sel /\ (forall s, In s sel -> s < bound /\ ft_initial (tr c s) = false).

Lemma mem_cconfl sel i : i < nt -> ft_initial (tr c i) = false -> (forall s, In s sel -> ft_initial (tr c s) = false) ->
  mem i (cconfl sel) = existsb (fun si => fconflicts c (tr c si) (tr c i)) sel.
Proof.
  intros Hi Ii Is. unfold cconfl. rewrite memb_fold_union. cbn [mem orb].
  apply bool_eq_iff. rewrite !existsb_exists. split; intros (s & Hs & E); exists s; (split; [exact Hs|]).
  - unfold crow in E. rewrite memb_filter in E. apply andb_true_iff in E as [_ E].
    rewrite !eff_source_plain in E by auto. exact E.
  - unfold crow. rewrite memb_filter, memb_seq. rewrite !eff_source_plain by auto. rewrite E.
    assert (X : (0 <=? i) && (i <? 0 + nt) = true) by (apply andb_true_iff; split; [apply Nat.leb_le | apply Nat.ltb_lt]; lia).
    rewrite X. reflexivity.
Qed.

(* the invariant of the loop *)
Record sel_inv (cfg hist : list nat) (bound : nat) (m : bmem) (f : bool) (sel : list nat) : Prop := {
  si_shape : mem_shape c m;
  si_cfg : rep WS (get m A_CONFIG) cfg;
  si_hist : rep WS (get m A_HISTORY) hist;
  si_trset : rep WT (get m A_TRSET) sel;
  si_target : rep WS (get m A_TARGET) (ctargets c sel);
  si_confl : rep WT (get m A_CONFL) (cconfl sel);
  si_exit : rep WS (get m A_EXIT) (cexraw sel);
  si_sel : sel_ok bound sel;
  si_found : f = nonnil sel
}.

Lemma sel_ok_app bound sel i : sel_ok bound sel -> bound <= i -> ft_initial (tr c i) = false -> sel_ok (S i) (sel ++ [i]).
Proof.
  intros [Sl B] Hb Hi. split.
  - apply ssorted_app_last; [exact Sl|]. intros y Hy. specialize (B y Hy). lia.
  - intros s Hs. apply in_app_or in Hs as [Hs|[<-|[]]]; [specialize (B s Hs); split; [lia | tauto] | split; [lia | exact Hi]].
Qed.

Lemma sel_ok_mono bound bound' sel : sel_ok bound sel -> bound <= bound' -> sel_ok bound' sel.
Proof. intros [Sl B] Hb. split; [exact Sl|]. intros s Hs. specialize (B s Hs). split; [lia | tauto]. Qed.

Lemma insert_last i sel : ssorted sel -> (forall s, In s sel -> s < i) -> insert_sorted i sel = sel ++ [i].
Proof. intros _ H. apply insert_sorted_last. now apply Forall_forall. Qed.

Notation Bsel1 := (b_select_one benv (h_matched c) (h_enabled c) bm).

Lemma select_one_ref cfg hist evo e i m f sel :
  i < nt -> bounded ns cfg -> (forall nm, evo = Some nm -> be_ev e = nm) ->
  sel_inv cfg hist i m f sel ->
  okp (Bsel1 (match evo with Some _ => true | None => false end) e i (m, f))
      (fun mf' => sel_inv cfg hist (S i) (fst mf') (snd mf') (csel1 cfg evo i sel)).
Proof.
  intros Hi Bc Hev [Hm Rc Rh Rt Rg Rf Rx Hs Hf].
  assert (Keep : sel_inv cfg hist (S i) m f sel).
  { constructor; try assumption. eapply sel_ok_mono; [exact Hs | lia]. }
  unfold b_select_one, csel1. cbn [fst snd cselect].
  rewrite (tr_at_eq cv c Hns Hnt Hok 101 i Hi). cbn [bind]. rewrite (bt_hist_or_init cv c Hns Hnt Hok).
  destruct (ft_history (tr c i) || ft_initial (tr c i)) eqn:HI; [exact Keep|].
  apply orb_false_iff in HI as [_ HI].
  lens_of m.
  pose proof (src_lt cv c Hns Hnt Hok i Hi) as Hsrc. pose proof (ns_le_WS cv c Hns Hnt Hok) as HW.
  pose proof (nt_le_WT cv c Hns Hnt Hok) as HWt. pose proof (ntb_le cv c Hns Hnt Hok) as Hntb.
  cbn [btrans_of bt_source].
  rewrite (srep_bit_has 102 MS _ cfg _ (srep_of_rep _ _ _ Rc)) by lia. cbn [bind].
  destruct (negb (mem (ft_source (tr c i)) cfg)); [exact Keep|].
  rewrite (srep_bit_has 103 NTB _ _ _ (srep_of_rep _ _ _ Rf)) by lia. cbn [bind].
  rewrite (mem_cconfl sel i Hi HI) by (intros s Hs'; apply (proj2 Hs s Hs')).
  destruct (existsb (fun si => fconflicts c (tr c si) (tr c i)) sel); [exact Keep|].
  assert (Sel : sel_inv cfg hist (S i) m f sel ->
          okp (do m1 <- bit_or 104 m A_CONFL (bt_conflicts (btrans_of c i)) (bm_ntb bm);
               do m2 <- bit_or 105 m1 A_TARGET (bt_target (btrans_of c i)) (bm_nsb bm);
               do m3 <- bit_or 106 m2 A_EXIT (bt_exit (btrans_of c i)) (bm_nsb bm);
               do m4 <- bit_set_at 107 m3 A_TRSET i; Ok (m4, true))
              (fun mf' => sel_inv cfg hist (S i) (fst mf') (snd mf') (sel ++ [i]))).
  { intros _. rewrite (nsb_eq cv c Hns Hnt Hok). fold NTB.
    eapply okp_bind; [apply (rep_bit_or 104 NTB m A_CONFL _ _ _ Rf (crow_srep i)); [lia | cbn [btrans_of bt_conflicts]; rewrite to_bytes_length; lia]|].
    intros m1 [F1 R1]. carry F1. lens_of m1.
    eapply okp_bind; [apply (rep_bit_or 105 MS m1 A_TARGET _ _ _ ltac:(eassumption) (bt_target_srep cv c Hns Hnt Hok i)); [lia | cbn [btrans_of bt_target]; rewrite to_bytes_length; lia]|].
    intros m2 [F2 R2]. carry F2. lens_of m2.
    eapply okp_bind; [apply (rep_bit_or 106 MS m2 A_EXIT _ _ _ ltac:(eassumption) (xrow_srep i)); [lia | cbn [btrans_of bt_exit]; rewrite to_bytes_length; lia]|].
    intros m3 [F3 R3]. carry F3. lens_of m3.
    eapply okp_bind; [apply (rep_bit_set_at 107 NTB m3 A_TRSET sel i ltac:(eassumption)); lia|].
    intros m4 [F4 R4]. carry F4. cbn [okp fst snd].
    constructor; try assumption.
    - rewrite <- (insert_last i sel (proj1 Hs)) by (intros s Hs'; apply (proj2 Hs s Hs')). assumption.
    - unfold ctargets. rewrite fold_left_app. assumption.
    - unfold cconfl. rewrite fold_union_app. assumption.
    - unfold cexraw. rewrite fold_union_app. assumption.
    - apply (sel_ok_app i); [exact Hs | lia | exact HI].
    - destruct sel; reflexivity. }
  cbn [btrans_of bt_has_event bt_has_cond].
  destruct evo as [nm|].
  - (* an event *)
    destruct (ft_spontaneous (tr c i)); cbn [negb Bool.eqb]; [exact Keep|]. cbn [orb].
    unfold h_matched. rewrite (Hev nm eq_refl).
    destruct (name_match_impl nm_fixed (ft_event (tr c i)) nm); cbn [negb andb]; [|exact Keep].
    unfold h_enabled. destruct (ft_cond (tr c i)) as [cnd|]; cbn [negb orb]; [|apply Sel; exact Keep].
    rewrite (c_is_true_ext _ _ cnd (inst_bytes_eq _ _ Rc Bc)).
    destruct (c_is_true (inst_of c cfg) cnd); [apply Sel; exact Keep | exact Keep].
  - destruct (ft_spontaneous (tr c i)); cbn [negb Bool.eqb]; [|exact Keep]. cbn [orb andb].
    unfold h_enabled. destruct (ft_cond (tr c i)) as [cnd|]; cbn [negb orb]; [|apply Sel; exact Keep].
    rewrite (c_is_true_ext _ _ cnd (inst_bytes_eq _ _ Rc Bc)).
    destruct (c_is_true (inst_of c cfg) cnd); [apply Sel; exact Keep | exact Keep].
Qed.

Lemma select_loop_ref cfg hist evo e : bounded ns cfg -> (forall nm, evo = Some nm -> be_ev e = nm) ->
  forall k i m f sel, i + k = nt -> sel_inv cfg hist i m f sel ->
  okp (forM (seq i k) (Bsel1 (match evo with Some _ => true | None => false end) e) (m, f))
      (fun mf' => sel_inv cfg hist nt (fst mf') (snd mf') (cselect c cfg evo (seq i k) sel)).
Proof.
  intros Bc Hev. induction k as [|k IH]; intros i m f sel Hik Inv; cbn [seq forM].
  - cbn [okp fst snd cselect]. replace nt with i by lia. exact Inv.
  - eapply okp_bind; [apply select_one_ref; [lia | exact Bc | exact Hev | exact Inv]|].
    intros [m1 f1] Inv1. cbn [fst snd] in Inv1. rewrite cselect_cons. apply IH; [lia | exact Inv1].
Qed.

(* ---- the exit set ---- *)
Definition no_pseudo (cfg : list nat) : Prop := forall i, In i cfg -> is_pseudo (fs_type (st c i)) = false.

Lemma mem_cexit_table t j :
  mem j (cexit_table c t) =
  match domain c t with
  | None => false
  | Some d => (S d <=? j) && (j <=? d + fs_size (st c d) - 1) && negb (is_pseudo (fs_type (st c j)))
  end.
Proof.
  unfold cexit_table. destruct (domain c t) as [d|]; [|reflexivity].
  rewrite memb_filter, memb_seq. f_equal.
  apply bool_eq_iff. rewrite !andb_true_iff, !Nat.leb_le, Nat.ltb_lt. lia.
Qed.

Lemma mem_exit_states cfg t j :
  mem j (exit_states_of lg_fixed c cfg t) =
  mem j cfg && match domain c t with
               | None => false
               | Some d => (S d <=? j) && (j <=? d + fs_size (st c d) - 1)
               end.
Proof.
  unfold exit_states_of, exit_interval. destruct (domain c t) as [d|].
  - cbn [lg_exit_overreach lg_fixed lg_targetless_exits_root andb negb Nat.eqb]. rewrite memb_filter. reflexivity.
  - cbn [Nat.eqb lg_targetless_exits_root lg_fixed negb andb mem]. now rewrite andb_false_r.
Qed.

Lemma exit_set_eq cfg sel : ssorted cfg -> bounded ns cfg -> no_pseudo cfg ->
  (forall s, In s sel -> ft_initial (tr c s) = false) ->
  set_inter (cexraw sel) cfg = cexitset c cfg sel.
Proof.
  intros Sc Bc Np Is. apply ssorted_ext_in.
  - apply set_inter_ssorted. unfold cexraw. apply fold_union_ssorted. constructor.
  - unfold cexitset. apply fold_union_ssorted. constructor.
  - intros j. rewrite <- !mem_In. unfold cexraw, cexitset.
    rewrite memb_inter, !memb_fold_union. cbn [mem orb].
    destruct (mem j cfg) eqn:Mj.
    + rewrite andb_true_r. apply mem_In in Mj.
      assert (E : existsb (fun y => mem j (xrow y)) sel = existsb (fun y => mem j (exit_states_of lg_fixed c cfg (tr c y))) sel).
      { apply existsb_ext_in. intros s Hs. unfold xrow. rewrite memb_filter, mem_cexit_table, mem_exit_states.
        rewrite (eff_source_plain _ (Is s Hs)). rewrite (proj2 (mem_In j cfg) Mj). rewrite (Np j Mj).
        assert (X : (j <? WS) = true).
        { apply Nat.ltb_lt. pose proof (bounded_in _ _ _ Bc Mj). pose proof (ns_le_WS cv c Hns Hnt Hok). lia. }
        rewrite X. destruct (domain c (tr c s)); cbn [negb andb]; [now rewrite !andb_true_r | reflexivity]. }
      rewrite E. reflexivity.
    + rewrite andb_false_r. split; [discriminate|]. intros H. exfalso.
      apply existsb_exists in H as (s & _ & H). rewrite mem_exit_states, Mj in H. discriminate.
Qed.

(* ---- SELECT_TRANSITIONS ---- *)
Record sel_post (cfg : list nat) (evo : option bytes) (m : bmem) (found : bool) : Prop := {
  sp_shape : mem_shape c m;
  sp_cfg : rep WS (get m A_CONFIG) cfg;
  sp_trset : rep WT (get m A_TRSET) (cselect_all c cfg evo);
  sp_target : rep WS (get m A_TARGET) (ctargets c (cselect_all c cfg evo));
  sp_exit : rep WS (get m A_EXIT) (cexitset c cfg (cselect_all c cfg evo));
  sp_found : found = nonnil (cselect_all c cfg evo)
}.

Lemma b_select_ref cfg hist evo e m :
  mem_shape c m -> rep WS (get m A_CONFIG) cfg -> rep WS (get m A_HISTORY) hist -> bounded ns cfg -> no_pseudo cfg ->
  rep WT (get m A_TRSET) [] -> rep WS (get m A_TARGET) [] ->
  (forall nm, evo = Some nm -> be_ev e = nm) ->
  okp (b_select benv (h_matched c) (h_enabled c) bm (match evo with Some _ => true | None => false end) e m)
      (fun mf => sel_post cfg evo (fst mf) (snd mf) /\ rep WS (get (fst mf) A_HISTORY) hist).
Proof.
  intros Hm Rc Rh Bc Np Rt Rg Hev. unfold b_select. pose proof (rep_ssorted _ _ _ Rc) as Scfg.
  rewrite (nsb_eq cv c Hns Hnt Hok). fold NTB. lens_of m.
  pose proof (ntb_le cv c Hns Hnt Hok) as Hntb.
  eapply okp_bind; [apply (rep_bit_clear_all 108 NTB m A_CONFL); lia|]. intros m1 [F1 R1]. carry F1. lens_of m1.
  eapply okp_bind; [apply (rep_bit_clear_all 109 MS m1 A_EXIT); lia|]. intros m2 [F2 R2]. carry F2.
  eapply okp_bind.
  { apply (select_loop_ref cfg hist evo e Bc Hev nt 0 m2 false []); [lia|].
    constructor; try assumption; try reflexivity. split; [constructor | intros s []]. }
  intros [m3 f3] Inv. cbn [fst snd] in *. destruct Inv as [Hm3 Rc3 Rh3 Rt3 Rg3 Rf3 Rx3 Hs3 Hf3]. fold (cselect_all c cfg evo) in *.
  lens_of m3.
  eapply okp_bind; [apply (rep_bit_and 110 MS m3 A_EXIT _ _ _ Rx3 (srep_of_rep _ _ _ Rc3)); lia|].
  intros m4 [F4 R4]. carry F4. cbn [okp fst snd]. split; [|assumption].
  constructor; try assumption.
  rewrite <- (exit_set_eq cfg _ Scfg Bc Np) by (intros s Hs'; apply (proj2 Hs3 s Hs')). exact R4.
Qed.

End Select.
Unset Default Proof Using.
