(* Invoke.v -- executable model for C11 (no proofs here; see InvokeLemmas.v).

   (a) the invoke/uninvoke bookkeeping both micro-step engines perform when a macrostep ends
       (LargeMicroStep.cpp:600-628, FastMicroStep.cpp:880-910) and when the interpreter completes
       (LargeMicroStep.cpp:549-575, FastMicroStep.cpp:822-856), as functions of
       (configuration, _invocations);  next to it the Recommendation's bookkeeping (exitStates /
       statesToInvoke of Appendix D) over the microsteps of one macrostep;
   (b) the parent / invoked-child protocol of USCXMLInvoker (invoke, run, stop, uninvoke,
       ParentQueueImpl::enqueue) as a small-step system over the two plain bool flags;
   (c) target routing of SCXMLIOProcessor::eventFromSCXML and the finalize / autoforward part of
       InterpreterImpl::dequeueExternal as pure functions.                                         *)
From V Require Import Base.
Local Open Scope nat_scope.

(* ------------------------------------------------------------------------------------------ *)
(** * (a) bookkeeping at macrostep end                                                          *)

(* states are document-order indices; sets of states are duplicate-free lists *)
Definition mem (x : nat) (l : list nat) : bool := existsb (Nat.eqb x) l.
Definition diff (a b : list nat) : list nat := filter (fun x => negb (mem x b)) a.
Definition inter (a b : list nat) : list nat := filter (fun x => mem x b) a.
Definition union (a b : list nat) : list nat := a ++ diff b a.

(* one call of MicroStepCallbacks::invoke / ::uninvoke per <invoke> child of the state, in document
   order; the model records the state (a state without <invoke> children produces no call) *)
Inductive bk_action := BInvoke (s : nat) | BUninvoke (s : nat).

Definition bk_action_eqb (a b : bk_action) : bool :=
  match a, b with
  | BInvoke x, BInvoke y => Nat.eqb x y
  | BUninvoke x, BUninvoke y => Nat.eqb x y
  | _, _ => false
  end.

(* defect switches (DESIGN.md section 6.4) *)
Record iv_variant := {
  (* LargeMicroStep.cpp:568: `_invocations.clear()` sits inside the loop over the configuration, so
     on completion only the first state found (going backwards) in _invocations is handled *)
  iv_large_completion_clears_all : bool;
  (* SCXMLIOProcessor.cpp: the special targets are compared with iequals *)
  iv_route_case_insensitive : bool
}.
Definition iv_pinned := {| iv_large_completion_clears_all := true; iv_route_case_insensitive := true |}.
Definition iv_fixed := {| iv_large_completion_clears_all := false; iv_route_case_insensitive := false |}.

Section Bookkeeping.
  Variable has_invoke : nat -> bool.     (* the state has at least one <invoke> child *)

  (* LargeMicroStep: _invocations is a flat_set ordered by document order.
       for s in _invocations: if s not in configuration: uninvoke(s.invoke...); erase
       for s in configuration: if s not in _invocations: invoke(s.invoke...);  insert s  (always) *)
  Definition large_macro_end (cfg inv : list nat) : list bk_action * list nat :=
    let un := filter (fun s => negb (mem s cfg)) inv in
    let inv1 := filter (fun s => mem s cfg) inv in
    let new := filter (fun s => negb (mem s inv1)) cfg in
    (map BUninvoke (filter has_invoke un) ++ map BInvoke (filter has_invoke new),
     union inv1 cfg).

  (* FastMicroStep: _invocations is a bitset; only states with <invoke> children ever get their bit.
       for i in _invocations: if i not in configuration and has invokes: uninvoke; clear bit
       for i in configuration: if i not in _invocations and has invokes: invoke; set bit        *)
  Definition fast_macro_end (cfg inv : list nat) : list bk_action * list nat :=
    let un := filter (fun s => negb (mem s cfg) && has_invoke s) inv in
    let inv1 := filter (fun s => negb (negb (mem s cfg) && has_invoke s)) inv in
    let new := filter (fun s => negb (mem s inv1) && has_invoke s) cfg in
    (map BUninvoke un ++ map BInvoke new, union inv1 new).

  (* completion (top-level final reached or cancelled), configuration walked backwards.
     Large as written: at the first state that is in _invocations, uninvoke its invokes and clear the
     whole set.  Large repaired (patches/C11-large-completion-uninvoke.diff): the loop erases only
     the state it handled, and a second loop handles the states that are in _invocations but no longer
     in the configuration (left in the last macrostep).  Fast: every state in _invocations. *)
  Fixpoint large_completion_pinned (rcfg inv : list nat) : list bk_action * list nat :=
    match rcfg with
    | [] => ([], inv)
    | s :: r => if mem s inv then ((if has_invoke s then [BUninvoke s] else []), [])
                else large_completion_pinned r inv
    end.

  Definition large_completion (v : iv_variant) (cfg inv : list nat) : list bk_action * list nat :=
    if iv_large_completion_clears_all v then large_completion_pinned (rev cfg) inv
    else (map BUninvoke (filter has_invoke (filter (fun s => mem s inv) (rev cfg) ++
                                            filter (fun s => negb (mem s cfg)) (rev inv))), []).

  (* Fast walks all state indices backwards and tests the _invocations bit only *)
  Definition fast_completion (cfg inv : list nat) : list bk_action * list nat :=
    (map BUninvoke (filter has_invoke (rev inv)), []).

  (* a whole run: the configurations at the successive macrostep ends, then (optionally) completion *)
  Fixpoint bk_run (f : list nat -> list nat -> list bk_action * list nat)
           (cfgs : list (list nat)) (inv : list nat) : list (list bk_action) * list nat :=
    match cfgs with
    | [] => ([], inv)
    | c :: r => let '(a, inv1) := f c inv in
                let '(tr, inv2) := bk_run f r inv1 in (a :: tr, inv2)
    end.

  (* the specification at macrostep granularity: which states get which call *)
  Definition spec_macro_end (cfg prev : list nat) : list bk_action :=
    map BUninvoke (filter has_invoke (diff prev cfg)) ++ map BInvoke (filter has_invoke (diff cfg prev)).

  (** the Recommendation's bookkeeping inside one macrostep.  A microstep is (exit set, entry set);
      [running] = states whose invocations are running, [pending] = statesToInvoke. *)
  Definition microstep := (list nat * list nat)%type.

  Fixpoint w3c_micro (ms : list microstep) (running pending : list nat)
    : list bk_action * list nat * list nat :=
    match ms with
    | [] => ([], running, pending)
    | (ex, en) :: r =>
        let cancelled := filter has_invoke (inter running ex) in
        let running1 := diff running ex in
        let pending1 := union (diff pending ex) en in
        let '(a, ru, pe) := w3c_micro r running1 pending1 in
        (map BUninvoke cancelled ++ a, ru, pe)
    end.

  Definition w3c_macro (ms : list microstep) (running : list nat) : list bk_action * list nat :=
    let '(a, ru, pe) := w3c_micro ms running [] in
    (a ++ map BInvoke (filter has_invoke pe), union ru (filter has_invoke pe)).

  Fixpoint cfg_after (ms : list microstep) (cfg : list nat) : list nat :=
    match ms with
    | [] => cfg
    | (ex, en) :: r => cfg_after r (union (diff cfg ex) en)
    end.
End Bookkeeping.

(* ------------------------------------------------------------------------------------------ *)
(** * (b) parent / child small-step system (one invocation)                                     *)

Inductive ppc :=            (* the parent thread with respect to this invocation *)
| P0                        (* <invoke> not yet executed *)
| PRun                      (* invoked; parent runs its own macrosteps *)
| PU2                       (* uninvoke(): _isActive = false done (u1) *)
| PU3                       (* stop(): _isStarted = false; _isActive = false done (u2) *)
| PU3b                      (* cancel(): microstepper marked as cancelled (u3, first half) *)
| PU4                       (* cancel(): unblock event enqueued (u3, second half); before join *)
| PRet.                     (* join returned (u4): uninvoke returns *)

Inductive sendpc := SIdle | SChecked.   (* ParentQueueImpl::enqueue: before p1 / between p1 and p2 *)

Inductive cpc :=            (* the invoked session's thread, USCXMLInvoker::run *)
| CNone                     (* thread not created *)
| CBusy (s : sendpc)        (* c1: inside step(), executing a macrostep *)
| CWait                     (* c1: inside step(), at dequeueExternal (blocks while the queue is empty) *)
| C2                        (* the loop was left with FINISHED; before reading _isActive *)
| C3                        (* c2 read true; before enqueueing done.invoke at the parent *)
| C4                        (* before _isActive = false *)
| CEnd.                     (* thread function returned *)

Inductive cev := CEvt | CUnblock.            (* child's external queue: an event / cancel's empty event *)
Inductive pev := PDone | PMsg (k : nat).     (* what this child put into the parent's external queue *)

Record ist := {
  isActive : bool;
  isStarted : bool;
  pp : ppc;
  cp : cpc;
  cancelled : bool;        (* child's MicroStepImpl::_isCancelled *)
  cq : list cev;           (* child's external queue *)
  pq : list pev;           (* parent's external queue, restricted to this child's events *)
  work : nat;              (* microsteps left in the child's current macrostep (bound W) *)
  (* history variables, not read by any step *)
  nsent : nat;             (* completed ParentQueue.enqueue calls *)
  ndropped : nat;          (* ParentQueue.enqueue calls that returned at the _isActive gate *)
  fin_alone : bool;        (* the child reached a top-level final state on its own *)
  c2_saw : option bool;    (* what c2 read *)
  pq_at_ret : option nat   (* length of pq when uninvoke returned *)
}.

Definition ist_init : ist :=
  {| isActive := false; isStarted := false; pp := P0; cp := CNone; cancelled := false; cq := [];
     pq := []; work := 0; nsent := 0; ndropped := 0; fin_alone := false; c2_saw := None;
     pq_at_ret := None |}.

Inductive label :=
(* parent thread *)
| LInvoke      (* USCXMLInvoker::invoke: _isActive = true; init(); start(): _isStarted = true; thread *)
| LSendChild   (* eventFromSCXML (send to #_<invokeid> or autoforward): if (_isActive) receive(event) *)
| LU1 | LU2 | LU3a | LU3b | LU4
(* child thread *)
| LWork        (* one more microstep of the current macrostep *)
| LP1          (* ParentQueueImpl::enqueue: read _isActive *)
| LP2          (* ... eventToSCXML: enqueue at the parent *)
| LStable      (* macrostep over, next step() arrives at dequeueExternal *)
| LFinAlone    (* top-level final state entered; step() returns FINISHED *)
| LDeqEvt      (* dequeueExternal returns an event: next macrostep *)
| LDeqUnblock  (* dequeueExternal returns the empty event: CANCELLED -> FINISHED if marked, else IDLE *)
| LRead        (* c2 *)
| LEnqDone     (* c3 *)
| LClear.      (* c4 *)

Definition is_parent_label (l : label) : bool :=
  match l with LInvoke | LSendChild | LU1 | LU2 | LU3a | LU3b | LU4 => true | _ => false end.

Definition upd_pp (s : ist) (p : ppc) : ist :=
  {| isActive := isActive s; isStarted := isStarted s; pp := p; cp := cp s; cancelled := cancelled s;
     cq := cq s; pq := pq s; work := work s; nsent := nsent s; ndropped := ndropped s;
     fin_alone := fin_alone s; c2_saw := c2_saw s; pq_at_ret := pq_at_ret s |}.

Section Protocol.
  Variable W : nat.    (* bound on the microsteps of one macrostep of the child *)

  Definition istep (s : ist) (l : label) : option ist :=
    match l with
    | LInvoke =>
        match pp s with
        | P0 => Some {| isActive := true; isStarted := true; pp := PRun; cp := CBusy SIdle;
                        cancelled := cancelled s; cq := cq s; pq := pq s; work := W;
                        nsent := nsent s; ndropped := ndropped s; fin_alone := fin_alone s;
                        c2_saw := c2_saw s; pq_at_ret := pq_at_ret s |}
        | _ => None
        end
    | LSendChild =>
        match pp s with
        | PRun => Some {| isActive := isActive s; isStarted := isStarted s; pp := pp s; cp := cp s;
                          cancelled := cancelled s;
                          cq := if isActive s then cq s ++ [CEvt] else cq s;
                          pq := pq s; work := work s; nsent := nsent s; ndropped := ndropped s;
                          fin_alone := fin_alone s; c2_saw := c2_saw s; pq_at_ret := pq_at_ret s |}
        | _ => None
        end
    | LU1 =>
        match pp s with
        | PRun => Some {| isActive := false; isStarted := isStarted s; pp := PU2; cp := cp s;
                          cancelled := cancelled s; cq := cq s; pq := pq s; work := work s;
                          nsent := nsent s; ndropped := ndropped s; fin_alone := fin_alone s;
                          c2_saw := c2_saw s; pq_at_ret := pq_at_ret s |}
        | _ => None
        end
    | LU2 =>
        match pp s with
        | PU2 => Some {| isActive := false; isStarted := false; pp := PU3; cp := cp s;
                         cancelled := cancelled s; cq := cq s; pq := pq s; work := work s;
                         nsent := nsent s; ndropped := ndropped s; fin_alone := fin_alone s;
                         c2_saw := c2_saw s; pq_at_ret := pq_at_ret s |}
        | _ => None
        end
    | LU3a =>
        match pp s with
        | PU3 => Some {| isActive := isActive s; isStarted := isStarted s; pp := PU3b; cp := cp s;
                         cancelled := true; cq := cq s; pq := pq s; work := work s;
                         nsent := nsent s; ndropped := ndropped s; fin_alone := fin_alone s;
                         c2_saw := c2_saw s; pq_at_ret := pq_at_ret s |}
        | _ => None
        end
    | LU3b =>
        match pp s with
        | PU3b => Some {| isActive := isActive s; isStarted := isStarted s; pp := PU4; cp := cp s;
                          cancelled := cancelled s; cq := cq s ++ [CUnblock]; pq := pq s;
                          work := work s; nsent := nsent s; ndropped := ndropped s;
                          fin_alone := fin_alone s; c2_saw := c2_saw s; pq_at_ret := pq_at_ret s |}
        | _ => None
        end
    | LU4 =>
        match pp s, cp s with
        | PU4, CEnd => Some {| isActive := isActive s; isStarted := isStarted s; pp := PRet;
                               cp := cp s; cancelled := cancelled s; cq := cq s; pq := pq s;
                               work := work s; nsent := nsent s; ndropped := ndropped s;
                               fin_alone := fin_alone s; c2_saw := c2_saw s;
                               pq_at_ret := Some (length (pq s)) |}
        | _, _ => None
        end
    | LWork =>
        match cp s, work s with
        | CBusy SIdle, S w =>
            Some {| isActive := isActive s; isStarted := isStarted s; pp := pp s; cp := cp s;
                    cancelled := cancelled s; cq := cq s; pq := pq s; work := w; nsent := nsent s;
                    ndropped := ndropped s; fin_alone := fin_alone s; c2_saw := c2_saw s;
                    pq_at_ret := pq_at_ret s |}
        | _, _ => None
        end
    | LP1 =>
        match cp s, work s with
        | CBusy SIdle, S w =>
            Some {| isActive := isActive s; isStarted := isStarted s; pp := pp s;
                    cp := if isActive s then CBusy SChecked else CBusy SIdle;
                    cancelled := cancelled s; cq := cq s; pq := pq s; work := w; nsent := nsent s;
                    ndropped := if isActive s then ndropped s else S (ndropped s);
                    fin_alone := fin_alone s; c2_saw := c2_saw s; pq_at_ret := pq_at_ret s |}
        | _, _ => None
        end
    | LP2 =>
        match cp s with
        | CBusy SChecked =>
            Some {| isActive := isActive s; isStarted := isStarted s; pp := pp s; cp := CBusy SIdle;
                    cancelled := cancelled s; cq := cq s; pq := pq s ++ [PMsg (nsent s)];
                    work := work s; nsent := S (nsent s); ndropped := ndropped s;
                    fin_alone := fin_alone s; c2_saw := c2_saw s; pq_at_ret := pq_at_ret s |}
        | _ => None
        end
    | LStable =>
        match cp s with
        | CBusy SIdle =>
            Some {| isActive := isActive s; isStarted := isStarted s; pp := pp s; cp := CWait;
                    cancelled := cancelled s; cq := cq s; pq := pq s; work := 0; nsent := nsent s;
                    ndropped := ndropped s; fin_alone := fin_alone s; c2_saw := c2_saw s;
                    pq_at_ret := pq_at_ret s |}
        | _ => None
        end
    | LFinAlone =>
        match cp s with
        | CBusy SIdle =>
            Some {| isActive := isActive s; isStarted := isStarted s; pp := pp s; cp := C2;
                    cancelled := cancelled s; cq := cq s; pq := pq s; work := 0; nsent := nsent s;
                    ndropped := ndropped s; fin_alone := true; c2_saw := c2_saw s;
                    pq_at_ret := pq_at_ret s |}
        | _ => None
        end
    | LDeqEvt =>
        match cp s, cq s with
        | CWait, CEvt :: r =>
            Some {| isActive := isActive s; isStarted := isStarted s; pp := pp s; cp := CBusy SIdle;
                    cancelled := cancelled s; cq := r; pq := pq s; work := W; nsent := nsent s;
                    ndropped := ndropped s; fin_alone := fin_alone s; c2_saw := c2_saw s;
                    pq_at_ret := pq_at_ret s |}
        | _, _ => None
        end
    | LDeqUnblock =>
        match cp s, cq s with
        | CWait, CUnblock :: r =>
            Some {| isActive := isActive s; isStarted := isStarted s; pp := pp s;
                    cp := if cancelled s then C2 else CWait;
                    cancelled := cancelled s; cq := r; pq := pq s; work := work s; nsent := nsent s;
                    ndropped := ndropped s; fin_alone := fin_alone s; c2_saw := c2_saw s;
                    pq_at_ret := pq_at_ret s |}
        | _, _ => None
        end
    | LRead =>
        match cp s with
        | C2 => Some {| isActive := isActive s; isStarted := isStarted s; pp := pp s;
                        cp := if isActive s then C3 else C4;
                        cancelled := cancelled s; cq := cq s; pq := pq s; work := work s;
                        nsent := nsent s; ndropped := ndropped s; fin_alone := fin_alone s;
                        c2_saw := Some (isActive s); pq_at_ret := pq_at_ret s |}
        | _ => None
        end
    | LEnqDone =>
        match cp s with
        | C3 => Some {| isActive := isActive s; isStarted := isStarted s; pp := pp s; cp := C4;
                        cancelled := cancelled s; cq := cq s; pq := pq s ++ [PDone]; work := work s;
                        nsent := nsent s; ndropped := ndropped s; fin_alone := fin_alone s;
                        c2_saw := c2_saw s; pq_at_ret := pq_at_ret s |}
        | _ => None
        end
    | LClear =>
        match cp s with
        | C4 => Some {| isActive := false; isStarted := isStarted s; pp := pp s; cp := CEnd;
                        cancelled := cancelled s; cq := cq s; pq := pq s; work := work s;
                        nsent := nsent s; ndropped := ndropped s; fin_alone := fin_alone s;
                        c2_saw := c2_saw s; pq_at_ret := pq_at_ret s |}
        | _ => None
        end
    end.

  (* a schedule is a list of labels; running it stops at the first label that is not enabled *)
  Fixpoint irun (s : ist) (ls : list label) : ist * option nat :=
    match ls with
    | [] => (s, None)
    | l :: r => match istep s l with
                | Some s' => match irun s' r with (t, Some k) => (t, Some (S k)) | (t, None) => (t, None) end
                | None => (s, Some 0)
                end
    end.

  Definition all_labels : list label :=
    [LInvoke; LSendChild; LU1; LU2; LU3a; LU3b; LU4; LWork; LP1; LP2; LStable; LFinAlone; LDeqEvt;
     LDeqUnblock; LRead; LEnqDone; LClear].

  Definition enabled (s : ist) : list label :=
    filter (fun l => match istep s l with Some _ => true | None => false end) all_labels.
End Protocol.

Definition pev_is_done (e : pev) : bool := match e with PDone => true | _ => false end.
Definition count_done (q : list pev) : nat := length (filter pev_is_done q).
Fixpoint msgs (q : list pev) : list nat :=
  match q with [] => [] | PMsg k :: r => k :: msgs r | PDone :: r => msgs r end.

(** the thread programs of the generated chart pairs.  The child's chart fixes what it does while
    it is busy (the items CIWork .. CIFin); everything else (dequeue, cancel, c2..c4) follows from the state. *)
Inductive citem := CIWork | CISend | CIStable | CIFin.

Definition child_next (s : ist) (prog : list citem) : option (label * list citem) :=
  match cp s with
  | CNone | CEnd => None
  | C2 => Some (LRead, prog)
  | C3 => Some (LEnqDone, prog)
  | C4 => Some (LClear, prog)
  | CBusy SChecked => Some (LP2, prog)
  | CBusy SIdle =>
      match prog with
      | CIWork :: r => Some (LWork, r)
      | CISend :: r => Some (LP1, r)
      | CIStable :: r => Some (LStable, r)
      | CIFin :: r => Some (LFinAlone, r)
      | [] => Some (LStable, [])
      end
  | CWait =>
      match cq s with
      | CEvt :: _ => Some (LDeqEvt, prog)
      | CUnblock :: _ => Some (LDeqUnblock, prog)
      | [] => None
      end
  end.

Definition parent_next (prog : list label) : option (label * list label) :=
  match prog with [] => None | l :: r => Some (l, r) end.

(* run a schedule of thread choices (true = parent, false = child); a choice of a thread that cannot
   move ends the run and reports its position *)
Fixpoint sched_run (W : nat) (s : ist) (pprog : list label) (cprog : list citem) (sched : list bool)
  : ist * list label * option nat :=
  match sched with
  | [] => (s, [], None)
  | true :: r =>
      match parent_next pprog with
      | Some (l, pprog') =>
          match istep W s l with
          | Some s' => let '(t, tr, e) := sched_run W s' pprog' cprog r in
                       (t, l :: tr, match e with Some k => Some (S k) | None => None end)
          | None => (s, [], Some 0)
          end
      | None => (s, [], Some 0)
      end
  | false :: r =>
      match child_next s cprog with
      | Some (l, cprog') =>
          match istep W s l with
          | Some s' => let '(t, tr, e) := sched_run W s' pprog cprog' r in
                       (t, l :: tr, match e with Some k => Some (S k) | None => None end)
          | None => (s, [], Some 0)
          end
      | None => (s, [], Some 0)
      end
  end.

(** the property oracle on an observed behaviour of one invocation (DESIGN.md section 6.1).
    An observation is what the recording monitor and the queue wrappers see:  *)
Record inv_obs := {
  o_macro_end_active : bool;                     (* a macrostep ended while the invoking state was active *)
  o_before_inv : nat;  o_after_inv : nat;        (* before/afterInvoking for this activation *)
  o_before_uninv : nat;  o_after_uninv : nat;    (* before/afterUninvoking *)
  o_exited : bool;                               (* the invoking state was exited (or the parent completed) *)
  o_done : nat;                                  (* done.invoke.<id> enqueued at the parent *)
  o_child_final_alone : bool;                    (* the child completed before its cancellation was marked *)
  o_c2_before_u1 : bool;                         (* the child's read of _isActive preceded uninvoke's write *)
  o_uninvoke_begun : bool;
  o_after_return : nat;                          (* events of this child reaching the parent after uninvoke returned *)
  o_child_steps_after_return : nat;              (* monitor callbacks of the child after uninvoke returned *)
  o_msgs : list nat;                             (* sequence numbers of the child's events as enqueued at the parent *)
  o_stuck : bool                                 (* watchdog: the run did not return *)
}.

Fixpoint increasing_from (k : nat) (l : list nat) : bool :=
  match l with
  | [] => true
  | x :: r => (k <=? x) && increasing_from (S x) r
  end.

Definition invoke_protocolb (o : inv_obs) : bool :=
  (* started exactly once per activation that reaches a macrostep end, cancelled exactly once per exit *)
  (if o_macro_end_active o then (o_before_inv o =? 1) && (o_after_inv o =? 1)
   else (o_before_inv o =? 0) && (o_after_inv o =? 0)) &&
  (if o_macro_end_active o && o_exited o then (o_before_uninv o =? 1) && (o_after_uninv o =? 1)
   else (o_before_uninv o =? 0) && (o_after_uninv o =? 0)) &&
  (* done.invoke at most once; only if the child finished on its own; and if it finished on its own
     while the invocation was still active it is delivered *)
  (o_done o <=? 1) &&
  (if o_done o =? 1 then o_child_final_alone o else true) &&
  (if o_child_final_alone o && (negb (o_uninvoke_begun o) || o_c2_before_u1 o) then o_done o =? 1 else true) &&
  (* nothing from the child after the cancellation returned *)
  (o_after_return o =? 0) && (o_child_steps_after_return o =? 0) &&
  (* send order *)
  increasing_from 0 (o_msgs o) &&
  negb (o_stuck o).

(* ------------------------------------------------------------------------------------------ *)
(** * (b') what uninvoke still does after the join: the invoked session is destroyed              *)

(* InterpreterImpl::uninvoke erases the invoker; ~USCXMLInvoker releases the invoked interpreter, whose
   BasicDelayedEventQueue is stopped: stop() = _isStarted := false; event_base_loopbreak; join of the
   delayed-event thread, which runs  while (_isStarted) event_base_loop(EVLOOP_ONCE).
   event_base_loopbreak only stops a loop that is running; event_base_loop clears the flag on entry and
   then blocks (the only timer is the dummy event a year ahead). *)
Inductive dpc := DRead | DEnter | DLoop | DEnd.     (* delayed-event thread of the invoked session *)
Inductive tpc := TClear | TBreak | TJoin | TRet.    (* the parent inside ~BasicDelayedEventQueue/stop *)

Record tst := { t_started : bool; t_break : bool; dp : dpc; tp : tpc }.

Inductive tlabel := TD_read | TD_enter | TD_wake | TT_clear | TT_break | TT_join.

(* [sticky] = the repaired stop() (patches/C10-teardown-sticky-wakeup.diff): besides the break it
   activates the dummy event, and an activated event survives the entry into event_base_loop *)
Definition tstep (sticky : bool) (s : tst) (l : tlabel) : option tst :=
  match l with
  | TD_read => match dp s with
               | DRead => Some {| t_started := t_started s; t_break := t_break s;
                                  dp := if t_started s then DEnter else DEnd; tp := tp s |}
               | _ => None end
  | TD_enter => match dp s with
                | DEnter => Some {| t_started := t_started s; t_break := if sticky then t_break s else false;
                                    dp := DLoop; tp := tp s |}
                | _ => None end
  | TD_wake => match dp s, t_break s with
               | DLoop, true => Some {| t_started := t_started s; t_break := false; dp := DRead; tp := tp s |}
               | _, _ => None end
  | TT_clear => match tp s with
                | TClear => Some {| t_started := false; t_break := t_break s; dp := dp s; tp := TBreak |}
                | _ => None end
  | TT_break => match tp s with
                | TBreak => Some {| t_started := t_started s;
                                    t_break := if sticky then true
                                               else match dp s with DLoop => true | _ => t_break s end;
                                    dp := dp s; tp := TJoin |}
                | _ => None end
  | TT_join => match tp s, dp s with
               | TJoin, DEnd => Some {| t_started := t_started s; t_break := t_break s; dp := dp s; tp := TRet |}
               | _, _ => None end
  end.

Definition all_tlabels := [TD_read; TD_enter; TD_wake; TT_clear; TT_break; TT_join].

(* the thread was started by the invoked session's init(); where it is when stop() begins is open *)
Definition tst_init (d : dpc) : tst := {| t_started := true; t_break := false; dp := d; tp := TClear |}.

Fixpoint trun (sticky : bool) (s : tst) (ls : list tlabel) : option tst :=
  match ls with
  | [] => Some s
  | l :: r => match tstep sticky s l with Some s' => trun sticky s' r | None => None end
  end.

Definition tstuck (sticky : bool) (s : tst) : bool :=
  negb (match tp s with TRet => true | _ => false end) &&
  forallb (fun l => match tstep sticky s l with None => true | Some _ => false end) all_tlabels.

(* exhaustive exploration of the (finite) state space *)
Definition tst_eqb (a b : tst) : bool :=
  Bool.eqb (t_started a) (t_started b) && Bool.eqb (t_break a) (t_break b) &&
  match dp a, dp b with DRead, DRead | DEnter, DEnter | DLoop, DLoop | DEnd, DEnd => true | _, _ => false end &&
  match tp a, tp b with TClear, TClear | TBreak, TBreak | TJoin, TJoin | TRet, TRet => true | _, _ => false end.

Definition tsucc (sticky : bool) (s : tst) : list tst :=
  flat_map (fun l => match tstep sticky s l with Some s' => [s'] | None => [] end) all_tlabels.

Fixpoint texplore (sticky : bool) (fuel : nat) (seen frontier : list tst) : list tst :=
  match fuel with
  | O => seen
  | S f =>
      let new := filter (fun s => negb (existsb (tst_eqb s) seen)) (flat_map (tsucc sticky) frontier) in
      match new with
      | [] => seen
      | _ => texplore sticky f (seen ++ new) new
      end
  end.

(* ------------------------------------------------------------------------------------------ *)
(** * (c) routing and dequeueExternal                                                            *)

Local Open Scope N_scope.
(* "#_" "internal" "parent" "scxml_" *)
Definition s_hash_us : bytes := [35; 95].
Definition s_internal : bytes := [105; 110; 116; 101; 114; 110; 97; 108].
Definition s_parent : bytes := [112; 97; 114; 101; 110; 116].
Definition s_scxml_us : bytes := [115; 99; 120; 109; 108; 95].
Local Close Scope N_scope.

Inductive errkind := ErrExecution | ErrCommunication.

Inductive dest :=
| DExternalSelf | DInternalSelf | DParent
| DSession (sid : bytes) | DInvoker (id : bytes)
| DError (e : errkind).

Record session_tables := {
  st_has_parent : bool;            (* _parentQueue is set *)
  st_sessions : list bytes;        (* InterpreterImpl::getInstances *)
  st_invokers : list bytes         (* keys of _invokers *)
}.

Fixpoint mem_bytes (x : bytes) (l : list bytes) : bool :=
  match l with [] => false | y :: r => beq_bytes x y || mem_bytes x r end.

Definition str_eq (v : iv_variant) (a b : bytes) : bool :=
  if iv_route_case_insensitive v then ieq_bytes a b else beq_bytes a b.

(* SCXMLIOProcessor::isValidTarget (called by checkValidSendType before the send is queued) *)
Definition is_valid_target (t : bytes) : bool :=
  match t with
  | [] => true
  | a :: r => (a =? 35)%N && match r with b :: _ => (b =? 95)%N | [] => false end
  end.

(* SCXMLIOProcessor::eventFromSCXML, the if-chain in the order written *)
Definition route (v : iv_variant) (t : bytes) (tb : session_tables) : dest :=
  match t with
  | [] => DExternalSelf
  | _ =>
    if str_eq v t (s_hash_us ++ s_internal) then DInternalSelf
    else if str_eq v t (s_hash_us ++ s_parent) then
      (if st_has_parent tb then DParent else DError ErrCommunication)
    else if (8 <? length t)%nat && str_eq v (firstn 8 t) (s_hash_us ++ s_scxml_us) then
      (let sid := skipn 8 t in
       if mem_bytes sid (st_sessions tb) then DSession sid else DError ErrCommunication)
    else if (2 <? length t)%nat && str_eq v (firstn 2 t) s_hash_us then
      (let id := skipn 2 t in
       if mem_bytes id (st_invokers tb) then DInvoker id else DError ErrCommunication)
    else DError ErrCommunication
  end.

(* <send>: validity check first (error.execution), then routing *)
Definition send_dest (v : iv_variant) (t : bytes) (tb : session_tables) : dest :=
  if is_valid_target t then route v t tb else DError ErrExecution.

Definition dest_eqb (a b : dest) : bool :=
  match a, b with
  | DExternalSelf, DExternalSelf | DInternalSelf, DInternalSelf | DParent, DParent => true
  | DSession x, DSession y | DInvoker x, DInvoker y => beq_bytes x y
  | DError ErrExecution, DError ErrExecution | DError ErrCommunication, DError ErrCommunication => true
  | _, _ => false
  end.

(* every queue is a FIFO (C08); delivering a list of sends in order *)
Definition deliver_all (v : iv_variant) (tb : session_tables) (sends : list (bytes * nat)) (d : dest) : list nat :=
  map snd (filter (fun s => dest_eqb (send_dest v (fst s) tb) d) sends).

Fixpoint deliver_seq (v : iv_variant) (tb : session_tables) (sends : list (bytes * nat))
         (q : dest -> list nat) : dest -> list nat :=
  match sends with
  | [] => q
  | (t, e) :: r =>
      let d := send_dest v t tb in
      deliver_seq v tb r (fun d' => if dest_eqb d d' then q d' ++ [e] else q d')
  end.

(* InterpreterImpl::dequeueExternal after the queue returned an event: setEvent, finalize of the
   invocation the event came from (if it has a <finalize>), autoforward to every invoker in
   _autoForwarders (iteration over the std::map _invokers), then the event goes to the micro-stepper
   for transition selection *)
Inductive deq_action := ASetEvent | AFinalize (id : bytes) | AForward (id : bytes) | AMatch.

Definition dequeue_external (ev_invokeid : bytes) (finalizers autofwd invokers : list bytes) : list deq_action :=
  [ASetEvent] ++
  (match ev_invokeid with
   | [] => []
   | _ => if mem_bytes ev_invokeid finalizers then [AFinalize ev_invokeid] else []
   end) ++
  map AForward (filter (fun i => mem_bytes i autofwd) invokers) ++
  [AMatch].
