(* RunConformInitialCore.v -- the static conditions of the theorems for documents with <initial> elements / deep
   initial attributes (static_ib) hold for every flat chart that satisfies the static conditions of the core theorems
   (static_okb): run_conforms_initial & co. subsume run_conforms & co.  Proofs only. *)
From V Require Import Base NameMatch Chart Exec Large LargeLemmas Spec Legal SetLemmas LegalAbstract LegalLarge LegalRun WfCore
  SelectConform SelectConformLemmas SelectConformRoot MicroConform Serialize RunConformBase RunConformStep
  LegalHistBase LegalHistWf LegalHistCore RunConformInitialWf RunConformInitialFlat RunConformInitialStep.
Local Open Scope nat_scope.

Lemma forallb_seq_intro (f : nat -> bool) m : (forall i, i < m -> f i = true) -> forallb f (seq 0 m) = true.
Proof. intros H. apply forallb_forall. intros i Hi. apply in_seq in Hi. apply H. lia. Qed.

Theorem static_okb_static_ib c : static_okb c = true -> static_ib c = true.
Proof.
  intros H. destruct (static_parts c H) as (Hwf & Hroot & Hpar & Hun & Hanti & Hfin & Hsil & Hnamed & Hox).
  pose proof (wf_coreb_sound c Hwf) as W.
  assert (Hprop : forall g, properb c g = true) by (intros g; unfold properb; now rewrite (LegalRun.no_pseudo c W g)).
  assert (Hcpl : forall i, fs_type (st c i) = FCompound -> exists k, fs_completion (st c i) = [k]).
  { intros i Hk. destruct (wf_compound c W i Hk) as (k & Hc & _). now exists k. }
  unfold static_ib, micro_static_ib. rewrite (wf_coreb_initb c Hwf), Hpar, Hun, Hanti, Hfin, Hsil, Hnamed.
  unfold root_compoundb, root_onexit_emptyb. rewrite Hroot, Hox. cbn [andb].
  assert (A1 : cpl_okb c = true).
  { apply forallb_seq_intro. intros i _. destruct (fs_type (st c i)) eqn:Hk; try reflexivity.
    destruct (Hcpl i Hk) as (k & ->). rewrite (Hprop k). apply orb_true_r. }
  assert (A2 : cpl_antib c = true).
  { apply forallb_seq_intro. intros i _. destruct (fs_type (st c i)) eqn:Hk; try reflexivity.
    destruct (Hcpl i Hk) as (k & ->). cbn [forallb]. rewrite !andb_true_r. apply negb_true_iff, mem_false_In.
    intros Hin. apply (wf_anc c W) in Hin. exact (anc_irrefl c W _ Hin). }
  assert (A3 : targets_properb c = true).
  { apply forallb_seq_intro. intros ti _. apply forallb_forall. intros g _. apply Hprop. }
  rewrite A1, A2, A3. cbn [andb].
  destruct (Hcpl 0 Hroot) as (k & Hk). unfold root_plainb. rewrite Hk. cbn [forallb]. rewrite (Hprop k). reflexivity.
Qed.
